package mv

// Generators: CQL type trees, Go source values of documented (and some undocumented) Go types for them,
// Unmarshal target types, boundary streams.

import (
	"fmt"
	"math/big"
	"strings"

	"github.com/gocql/gocql"
	"gocqlverif/hlib"
)

var NativeIDs = []int{0x01, 0x02, 0x03, 0x04, 0x05, 0x06, 0x07, 0x08, 0x09, 0x0A, 0x0B, 0x0C, 0x0D, 0x0E, 0x0F, 0x10, 0x11, 0x12, 0x13, 0x14, 0x15}
var IntIDs = []int{0x14, 0x13, 0x09, 0x02, 0x05, 0x0E}

func IsTextID(id int) bool { return id == 0x01 || id == 0x0A || id == 0x0D || id == 0x03 }

func pow2(k uint) *big.Int { return new(big.Int).Lsh(big.NewInt(1), k) }

// Boundaries: values around every width boundary, signed and unsigned
func Boundaries() []*big.Int {
	var out []*big.Int
	add := func(z *big.Int) {
		for d := int64(-1); d <= 1; d++ {
			out = append(out, new(big.Int).Add(z, big.NewInt(d)))
		}
	}
	add(big.NewInt(0))
	for _, k := range []uint{7, 8, 15, 16, 31, 32, 63, 64} {
		add(pow2(k))
		add(new(big.Int).Neg(pow2(k)))
	}
	out = append(out, big.NewInt(200), big.NewInt(-100), big.NewInt(40000), big.NewInt(3000000000), big.NewInt(1234567890123))
	return out
}

// VarintBoundaries: +-2^(8k-1) and neighbours, +-2^(8k) and neighbours, k = 1..9: every byte-length boundary
// of the two's-complement encodings up to nine bytes
func VarintBoundaries() []*big.Int {
	var out []*big.Int
	for k := uint(1); k <= 9; k++ {
		for _, e := range []uint{8*k - 1, 8 * k} {
			for d := int64(-1); d <= 1; d++ {
				p := new(big.Int).Add(pow2(e), big.NewInt(d))
				out = append(out, p, new(big.Int).Neg(p))
			}
		}
	}
	return out
}

func inRange(k IK, z *big.Int) bool { return z.Cmp(k.Min()) >= 0 && z.Cmp(k.Max()) <= 0 }

func KindBoundaries(k IK) []*big.Int {
	var out []*big.Int
	seen := map[string]bool{}
	for _, z := range Boundaries() {
		if inRange(k, z) && !seen[z.String()] {
			seen[z.String()] = true
			out = append(out, z)
		}
	}
	return out
}

func randBig(r *hlib.Rng, bits int) *big.Int {
	if bits <= 0 {
		return big.NewInt(0)
	}
	b := r.Bytes((bits + 7) / 8)
	z := new(big.Int).SetBytes(b)
	z.Rsh(z, uint(len(b)*8-bits))
	if r.Bool() {
		z.Neg(z)
	}
	return z
}

// RandInKind: a value of integer kind k, boundary-heavy
func RandInKind(r *hlib.Rng, k IK) *big.Int {
	if r.Chance(55) {
		bs := KindBoundaries(k)
		return bs[r.Intn(len(bs))]
	}
	for {
		z := randBig(r, 1+r.Intn(64))
		if inRange(k, z) {
			return z
		}
	}
}

// BigBoundary: interesting arbitrary-precision integers (byte-boundary powers, +-1)
func RandBigInt(r *hlib.Rng) *big.Int {
	switch r.Intn(4) {
	case 0:
		bs := Boundaries()
		return bs[r.Intn(len(bs))]
	case 1:
		k := uint(8*(1+r.Intn(20)) - r.Intn(2))
		z := pow2(k)
		z.Add(z, big.NewInt(int64(r.Intn(3)-1)))
		if r.Bool() {
			z.Neg(z)
		}
		return z
	case 2:
		return randBig(r, 1+r.Intn(70))
	}
	return randBig(r, 1+r.Intn(300))
}

var badIntStrings = []string{"", "+", "-", "12a", " 1", "1 ", "1_0", "0x10", "1e3", "1.0", "--1", "+-1", "٣", "\x00"}

func intString(r *hlib.Rng, z *big.Int) string {
	s := z.String()
	switch r.Intn(8) {
	case 0:
		if z.Sign() >= 0 {
			return "+" + s
		}
	case 1:
		if z.Sign() >= 0 {
			return "000" + s
		}
		return "-00" + s[1:]
	case 2:
		if z.Sign() == 0 {
			return "-0"
		}
	}
	return s
}

// ---- type trees ------------------------------------------------------------------------------------------

func hashableNative(r *hlib.Rng) *Ty {
	return Native(gocqlType([]int{0x09, 0x02, 0x0D, 0x14, 0x13, 0x04, 0x0C, 0x0E, 0x03}[r.Intn(8)]))
}

func GenTy(r *hlib.Rng, depth int) *Ty {
	if depth <= 0 || r.Chance(45) {
		return Native(gocqlType(NativeIDs[r.Intn(len(NativeIDs))]))
	}
	switch r.Intn(6) {
	case 0:
		return &Ty{K: "list", E: GenTy(r, depth-1)}
	case 1:
		return &Ty{K: "set", E: GenTy(r, depth-1)}
	case 2:
		return &Ty{K: "map", Key: hashableNative(r), E: GenTy(r, depth-1)}
	case 3, 4:
		n := 1 + r.Intn(3)
		t := &Ty{K: "tuple"}
		for i := 0; i < n; i++ {
			t.Es = append(t.Es, GenTy(r, depth-1))
		}
		return t
	}
	n := 1 + r.Intn(3)
	t := &Ty{K: "udt"}
	names := []string{"a", "b", "F2", "first_name", "X"}
	off := r.Intn(3)
	for i := 0; i < n; i++ {
		t.Es = append(t.Es, GenTy(r, depth-1))
		t.Names = append(t.Names, names[(i+off)%len(names)])
	}
	return t
}

// GoTypeOf mirrors what a decoded interface{} slot holds (helpers.go goType); nil when none
func GoTypeOf(t *Ty) *GTy {
	switch t.K {
	case "native":
		switch t.ID {
		case 0x0D, 0x01, 0x10, 0x0A:
			return TK("str")
		case 0x02, 0x05:
			return TInt(I64, false)
		case 0x12:
			return TK("dur")
		case 0x0B, 0x11:
			return TK("time")
		case 0x03:
			return TK("bytes")
		case 0x04:
			return TK("bool")
		case 0x08:
			return TK("f32")
		case 0x07:
			return TK("f64")
		case 0x09:
			return TInt(IInt, false)
		case 0x13:
			return TInt(I16, false)
		case 0x14:
			return TInt(I8, false)
		case 0x06:
			return TPtr(TK("dec"))
		case 0x0C, 0x0F:
			return TK("uuid")
		case 0x0E:
			return TPtr(TK("big"))
		case 0x15:
			return TK("cqldur")
		}
		return nil
	case "list", "set":
		e := GoTypeOf(t.E)
		if e == nil {
			return nil
		}
		return TSlice(e)
	case "map":
		k, e := GoTypeOf(t.Key), GoTypeOf(t.E)
		if k == nil || e == nil {
			return nil
		}
		return TMapOf(k, e)
	case "tuple":
		return TSlice(TK("iface"))
	case "udt":
		return TK("strmap")
	}
	return nil
}

// ---- source values -----------------------------------------------------------------------------------------

func randUTF8(r *hlib.Rng) string {
	switch r.Intn(6) {
	case 0:
		return ""
	case 1:
		return "héllo wörld ✓"
	case 2:
		return string(r.Bytes(r.Intn(12))) // arbitrary bytes, possibly invalid UTF-8
	case 3:
		return "\x00"
	}
	n := r.Intn(20)
	b := make([]byte, n)
	for i := range b {
		b[i] = byte(32 + r.Intn(95))
	}
	return string(b)
}

func randBytesN(r *hlib.Rng) []byte {
	switch r.Intn(5) {
	case 0:
		return []byte{}
	case 1:
		return nil
	}
	return r.Bytes(r.Intn(24))
}

var f32Specials = []uint32{0, 0x80000000, 0x3f800000, 0x7f800000, 0xff800000, 0x7fc00000, 0x7fa00000, 0xffa00001, 0x7f800001, 0x00000001, 0x7f7fffff, 0xffc12345}
var f64Specials = []uint64{0, 0x8000000000000000, 0x3ff0000000000000, 0x7ff0000000000000, 0xfff0000000000000, 0x7ff8000000000000, 0x7ff4000000000000, 0xfff0000000000001, 1, 0x7fefffffffffffff}

const zeroTimeSec = -62135596800

func RandTime(r *hlib.Rng) *Val {
	var sec int64
	switch r.Intn(8) {
	case 0:
		sec = r.Pick(0, -1, 1, 86399, 86400, -86400, -86401, -3600, zeroTimeSec, zeroTimeSec+1, 253402300799, -62135596801)
	case 1:
		sec = -int64(r.Intn(3 * 86400)) // just before the epoch
	case 2:
		sec = int64(r.Intn(4000000000)) - 2000000000
	case 3:
		sec = int64(r.U64()>>20) - (1 << 43) // +- 280000 years
	default:
		sec = 1700000000 + int64(r.Intn(100000000)) - 50000000
	}
	nsec := int64(r.Intn(1000000000))
	if r.Chance(40) {
		nsec = r.Pick(0, 1, 999999, 1000000, 999999999, 500000000)
	}
	v := VTime(sec, nsec)
	if r.Chance(30) {
		v.Zone = int(r.Pick(3600, -7200, 19800, 50400))
	}
	return v
}

func randInt64(r *hlib.Rng) int64 { return RandInKind(r, I64).Int64() }

func wrapPtr(r *hlib.Rng, v *Val) *Val {
	if v.K == "nil" || v.K == "unset" {
		return v
	}
	switch r.Intn(12) {
	case 0:
		return VPtr(v.T, v)
	case 1:
		return VPtr(TPtr(v.T), VPtr(v.T, v))
	case 2:
		return VPtr(v.T, nil)
	}
	return v
}

// GenNative: a Go value for a native column.  mode 0: documented source types; 1: any (including
// unsupported combinations that must give an error).
func GenNative(r *hlib.Rng, id int, mode int) *Val {
	if r.Chance(4) {
		return VNil()
	}
	if r.Chance(2) {
		return VUnset()
	}
	if mode == 1 && r.Chance(25) {
		id = NativeIDs[r.Intn(len(NativeIDs))] // a value meant for another column type
	}
	named := r.Chance(30)
	switch {
	case IsTextID(id):
		if r.Bool() {
			return VStr(named, randUTF8(r))
		}
		return VBytes(named, randBytesN(r))
	case id == 0x04:
		return VBool(named, r.Bool())
	case isIntID(id):
		switch r.Intn(10) {
		case 0:
			return VBig(RandBigInt(r))
		case 1:
			if r.Chance(25) {
				return VStr(r.Chance(10), badIntStrings[r.Intn(len(badIntStrings))])
			}
			return VStr(r.Chance(10), intString(r, RandBigInt(r)))
		case 2:
			return VDur(randInt64(r))
		}
		k := IK(r.Intn(10))
		return VInt(k, named, RandInKind(r, k))
	case id == 0x08:
		if r.Bool() {
			return VF32(named, f32Specials[r.Intn(len(f32Specials))])
		}
		return VF32(named, uint32(r.U64()))
	case id == 0x07:
		if r.Bool() {
			return VF64(named, f64Specials[r.Intn(len(f64Specials))])
		}
		return VF64(named, r.U64())
	case id == 0x06:
		sc := int32(r.Intn(40) - 10)
		if r.Chance(15) {
			sc = int32(r.Pick(0, -1, 2147483647, -2147483648, 100, -100))
		}
		return VDec(RandBigInt(r), sc)
	case id == 0x12:
		switch r.Intn(3) {
		case 0:
			return VDur(int64(r.U64() % 86400000000000))
		case 1:
			return VInt64(I64, named, int64(r.U64()%86400000000000))
		}
		return VInt64(I64, named, randInt64(r))
	case id == 0x0B:
		switch r.Intn(3) {
		case 0:
			return VInt64(I64, named, randInt64(r))
		}
		return RandTime(r)
	case id == 0x11:
		switch r.Intn(4) {
		case 0:
			ms := int64(r.Intn(400000000)-200000000) * 1000
			if r.Bool() {
				ms = r.Pick(0, -1, 1, 86399999, 86400000, -86400000, -86400001, -43200000, 1<<31*86400000-1, -(1<<31)*86400000, 1<<31*86400000, -(1<<31)*86400000-1, 1<<62)
			}
			return VInt64(I64, r.Chance(10), ms)
		case 1:
			if r.Bool() {
				return VStr(false, "")
			}
		}
		return RandTime(r)
	case id == 0x15:
		switch r.Intn(4) {
		case 0:
			return VInt64(I64, r.Chance(40), randInt64(r))
		case 1:
			return VDur(randInt64(r))
		}
		m, d := int32(RandInKind(r, I32).Int64()), int32(RandInKind(r, I32).Int64())
		return VCqlDur(m, d, randInt64(r))
	case id == 0x0C || id == 0x0F:
		b := r.Bytes(16)
		if id == 0x0F || r.Bool() {
			b[6] = b[6]&0x0f | 0x10
			b[8] = b[8]&0x3f | 0x80
		}
		switch r.Intn(6) {
		case 0:
			return VArr16(b)
		case 1:
			return VBytes(false, b)
		case 2:
			return VBytes(false, r.Bytes([]int{0, 15, 17, 4}[r.Intn(4)]))
		case 3:
			return VStr(false, uuidString(r, b))
		}
		return VUUID(b)
	case id == 0x10:
		if r.Chance(35) {
			return VStr(r.Chance(5), InetString(r))
		}
		switch r.Intn(6) {
		case 0:
			return VIP(r.Bytes(4))
		case 1:
			b := make([]byte, 16)
			b[10], b[11] = 0xff, 0xff
			copy(b[12:], r.Bytes(4))
			return VIP(b) // IPv4-mapped
		case 2:
			return VIP(r.Bytes([]int{0, 1, 5, 15, 17}[r.Intn(5)]))
		case 3:
			return VIP(nil)
		}
		return VIP(r.Bytes(16))
	}
	return VNil()
}

func uuidString(r *hlib.Rng, b []byte) string {
	const hex = "0123456789abcdef"
	s := ""
	for i, x := range b {
		if (i == 4 || i == 6 || i == 8 || i == 10) && !r.Chance(10) {
			s += "-"
		}
		s += string(hex[x>>4]) + string(hex[x&15])
	}
	switch r.Intn(10) {
	case 0:
		return s[:len(s)-1]
	case 1:
		return s + "0"
	case 2:
		return "g" + s[1:]
	}
	return s
}

type gocqlTypeT = gocql.Type
func gocqlType(id int) gocqlTypeT { return gocqlTypeT(id) }

// GenVal: a Go value for a column of type t.  top: multi-entry maps allowed (order is recovered from
// the implementation's output); nested maps have at most one entry.
func GenVal(r *hlib.Rng, t *Ty, mode int, top bool) *Val {
	v := genVal(r, t, mode, top)
	return wrapPtr(r, v)
}

func elemType(vs []*Val) *GTy {
	// the common Go type of the elements if they agree, else interface{}
	if len(vs) == 0 {
		return nil
	}
	t := vs[0].T
	for _, v := range vs[1:] {
		if v.T.Coq() != t.Coq() {
			return nil
		}
	}
	if vs[0].K == "nil" || vs[0].K == "unset" {
		return nil
	}
	return t
}

func genVal(r *hlib.Rng, t *Ty, mode int, top bool) *Val {
	switch t.K {
	case "native":
		return GenNative(r, t.ID, mode)
	case "list", "set":
		if r.Chance(5) {
			return VNil()
		}
		n := r.Intn(4)
		if r.Chance(5) {
			n = 0
		}
		items := make([]*Val, n)
		for i := range items {
			items[i] = GenVal(r, t.E, mode, false)
		}
		// homogeneous typed slice when the elements happen to share a Go type, else []interface{}
		if et := elemType(items); et != nil {
			switch r.Intn(5) {
			case 0:
				return VArray(et, items)
			case 1:
				if n <= 1 && hashable(et) {
					return VSetMap(et, items)
				}
			}
			return VSlice(et, items)
		}
		if n == 0 {
			et := GoTypeOf(t.E)
			if et == nil {
				et = TK("iface")
			}
			if r.Chance(30) {
				return VSlice(et, nil)
			}
			return VSlice(et, []*Val{})
		}
		return VIfaces(items)
	case "map":
		if r.Chance(5) {
			return VNil()
		}
		n := r.Intn(3)
		if !top && n > 1 {
			n = 1
		}
		kt := hashableGoType(r, t.Key)
		var kv [][2]*Val
		seen := map[string]bool{}
		var vt *GTy
		for i := 0; i < n; i++ {
			k := genOfType(r, t.Key, kt)
			if seen[k.Coq()] {
				continue
			}
			seen[k.Coq()] = true
			val := genVal(r, t.E, 0, false)
			if val.K == "nil" || val.K == "unset" {
				continue
			}
			if n == 1 {
				val = wrapPtr(r, val) // pointer / pointer-to-pointer / typed nil pointer as a map value
			}
			if vt == nil {
				vt = val.T
			} else if vt.Coq() != val.T.Coq() {
				continue
			}
			kv = append(kv, [2]*Val{k, val})
		}
		if vt == nil {
			vt = GoTypeOf(t.E)
			if vt == nil {
				vt = TK("str")
			}
		}
		if len(kv) == 0 && r.Chance(30) {
			return VMapOf(kt, vt, nil, true)
		}
		return VMapOf(kt, vt, kv, false)
	case "tuple":
		if r.Chance(3) {
			return VNil()
		}
		n := len(t.Es)
		if r.Chance(6) {
			n += r.Intn(3) - 1
			if n < 0 {
				n = 0
			}
		}
		items := make([]*Val, n)
		for i := range items {
			et := t.Es[i%len(t.Es)]
			switch r.Intn(10) {
			case 0:
				items[i] = VNil()
			case 1:
				x := genVal(r, et, 0, false)
				if x.K != "nil" && x.K != "unset" {
					items[i] = VPtr(x.T, nil) // typed nil pointer
				} else {
					items[i] = VNil()
				}
			default:
				items[i] = GenVal(r, et, mode, false)
			}
		}
		switch r.Intn(3) {
		case 0:
			names, tags := make([]string, n), make([]string, n)
			for i := range names {
				names[i] = fmt.Sprintf("F%d", i)
				if items[i].K == "nil" || items[i].K == "unset" {
					items[i] = VPtr(TK("str"), nil)
				}
			}
			return VStruct(names, tags, items)
		case 1:
			if et := elemType(items); et != nil {
				if r.Bool() {
					return VArray(et, items)
				}
				return VSlice(et, items)
			}
		}
		return VIfaces(items)
	case "udt":
		if r.Chance(3) {
			return VNil()
		}
		var keys []string
		var vals []*Val
		for i, name := range t.Names {
			if r.Chance(20) {
				continue // absent field
			}
			x := GenVal(r, t.Es[i], mode, false)
			keys = append(keys, name)
			vals = append(vals, x)
		}
		if r.Bool() {
			if r.Chance(15) {
				keys = append(keys, "zz_extra")
				vals = append(vals, VStr(false, "x"))
			}
			return VStrMap(keys, vals, false)
		}
		names, tags := make([]string, len(keys)), make([]string, len(keys))
		for i, k := range keys {
			if vals[i].K == "nil" || vals[i].K == "unset" {
				vals[i] = VPtr(TK("str"), nil)
			}
			names[i] = fmt.Sprintf("G%d", i)
			if isExported(k) && r.Bool() {
				names[i] = k // found by FieldByName
			} else if r.Chance(90) {
				tags[i] = k
			}
		}
		if len(keys) >= 2 && r.Chance(10) {
			tags[1] = tags[0] // duplicate tag: the later field wins
		}
		return VStruct(names, tags, vals)
	}
	return VNil()
}

func isExported(s string) bool { return len(s) > 0 && s[0] >= 'A' && s[0] <= 'Z' }

func hashable(t *GTy) bool {
	switch t.K {
	case "int", "str", "bool", "uuid", "arr16", "f64", "f32", "dur", "cqldur":
		return true
	}
	return false
}

func hashableGoType(r *hlib.Rng, t *Ty) *GTy {
	switch {
	case isIntID(t.ID):
		ks := []IK{IInt, I64, I32, I16, I8, U8, U32}
		return TInt(ks[r.Intn(len(ks))], r.Chance(20))
	case t.ID == 0x04:
		return TK("bool")
	case t.ID == 0x0C:
		return TK("uuid")
	}
	return TKN("str", r.Chance(20))
}

func genOfType(r *hlib.Rng, t *Ty, gt *GTy) *Val {
	switch gt.K {
	case "int":
		z := RandInKind(r, gt.IK)
		if t.ID == 0x14 && !inRange(I8, z) || t.ID == 0x13 && !inRange(I16, z) || t.ID == 0x09 && !inRange(I32, z) {
			z = big.NewInt(int64(r.Intn(100)))
		}
		return VInt(gt.IK, gt.Named, z)
	case "bool":
		return VBool(false, r.Bool())
	case "uuid":
		return VUUID(r.Bytes(16))
	}
	return VStr(gt.Named, randUTF8(r))
}

// ---- Unmarshal targets ----------------------------------------------------------------------------------------

var scalarTargets = []*GTy{TK("str"), TKN("str", true), TK("bytes"), TKN("bytes", true), TK("bool"), TKN("bool", true),
	TK("f32"), TKN("f32", true), TK("f64"), TKN("f64", true), TK("big"), TK("dec"), TK("time"), TK("dur"), TK("cqldur"),
	TK("uuid"), TK("arr16"), TK("ip"), TK("iface")}

func AnyScalarTarget(r *hlib.Rng) *GTy {
	if r.Chance(40) {
		return TInt(IK(r.Intn(10)), r.Chance(30))
	}
	return scalarTargets[r.Intn(len(scalarTargets))]
}

// NativeTargets: the documented target types for a native column (mode 0) or anything (mode 1)
func NativeTarget(r *hlib.Rng, id int, mode int) *GTy {
	if mode == 1 && r.Chance(30) {
		return AnyScalarTarget(r)
	}
	named := r.Chance(25)
	switch {
	case IsTextID(id):
		if r.Bool() {
			return TKN("str", named)
		}
		return TKN("bytes", named)
	case id == 0x04:
		return TKN("bool", named)
	case isIntID(id):
		switch r.Intn(8) {
		case 0:
			return TK("big")
		case 1:
			return TK("str")
		}
		return TInt(IK(r.Intn(10)), named)
	case id == 0x08:
		return TKN("f32", named)
	case id == 0x07:
		return TKN("f64", named)
	case id == 0x06:
		return TK("dec")
	case id == 0x12:
		if r.Bool() {
			return TK("dur")
		}
		return TInt(I64, named)
	case id == 0x0B:
		if r.Bool() {
			return TK("time")
		}
		return TInt(I64, named)
	case id == 0x11:
		return TK("time")
	case id == 0x15:
		return TK("cqldur")
	case id == 0x0C || id == 0x0F:
		switch r.Intn(5) {
		case 0:
			return TK("str")
		case 1:
			return TK("bytes")
		case 2:
			return TK("arr16")
		case 3:
			if id == 0x0F {
				return TK("time")
			}
		}
		return TK("uuid")
	case id == 0x10:
		return TK("ip")
	}
	return TK("str")
}

// GenTarget: top = the target handed to Unmarshal directly (only there can a tuple be read into a
// []interface{} of pointers)
func GenTarget(r *hlib.Rng, t *Ty, mode int) *GTy { return genTargetP(r, t, mode, true) }

func genTargetP(r *hlib.Rng, t *Ty, mode int, top bool) *GTy {
	g := genTarget(r, t, mode, top)
	if g.K == "ifaces" {
		return g
	}
	switch r.Intn(10) {
	case 0:
		return TPtr(g)
	case 1:
		if r.Chance(30) {
			return TPtr(TPtr(g))
		}
	}
	return g
}

func genTarget(r *hlib.Rng, t *Ty, mode int, top bool) *GTy {
	switch t.K {
	case "native":
		return NativeTarget(r, t.ID, mode)
	case "list", "set":
		e := genTargetP(r, t.E, mode, false)
		if r.Chance(15) {
			return TArray(r.Intn(4), e)
		}
		return TSlice(e)
	case "map":
		k := NativeTarget(r, t.Key.ID, 0)
		for !hashable(k) {
			k = NativeTarget(r, t.Key.ID, 0)
		}
		return TMapOf(k, genTargetP(r, t.E, mode, false))
	case "tuple":
		n := len(t.Es)
		simple := true // struct / slice targets need goType(elem) to be a non-pointer type
		for _, e := range t.Es {
			g := GoTypeOf(e)
			if g == nil || g.K == "ptr" {
				simple = false
			}
		}
		if simple && r.Chance(40) {
			names, tags, ts := make([]string, n), make([]string, n), make([]*GTy, n)
			for i, e := range t.Es {
				names[i] = fmt.Sprintf("F%d", i)
				ts[i] = GoTypeOf(e)
				if r.Chance(30) {
					ts[i] = TPtr(ts[i])
				}
			}
			if r.Chance(8) {
				names, tags, ts = append(names, "Fx"), append(tags, ""), append(ts, TK("str"))
			}
			return TStruct(names, tags, ts)
		}
		if simple && r.Chance(25) || !top {
			return TSlice(TK("iface"))
		}
		m := n
		if r.Chance(5) {
			m = n - 1
		}
		ts := make([]*GTy, m)
		for i := range ts {
			ts[i] = genTargetP(r, t.Es[i], mode, false)
		}
		return TIfaces(ts)
	case "udt":
		if r.Chance(40) {
			return TK("strmap")
		}
		var names, tags []string
		var ts []*GTy
		for i, e := range t.Es {
			if r.Chance(15) {
				continue // field missing in the struct: skipped by the decoder
			}
			name, tag := fmt.Sprintf("G%d", i), ""
			if isExported(t.Names[i]) && r.Bool() {
				name = t.Names[i]
			} else if r.Chance(90) {
				tag = t.Names[i]
			}
			names, tags, ts = append(names, name), append(tags, tag), append(ts, genTargetP(r, e, mode, false))
		}
		return TStruct(names, tags, ts)
	}
	return TK("str")
}

// ---- documentation tables as data: every documented Unmarshal target and Marshal source per native type ----

// DocTargets: the target Go types the documentation of gocql.Unmarshal lists for a native column type
// (varint is absent from that table; the integer targets are used for it)
func DocTargets(id int) []*GTy {
	switch {
	case IsTextID(id):
		return []*GTy{TK("str"), TK("bytes"), TKN("str", true), TKN("bytes", true)}
	case id == 0x04:
		return []*GTy{TK("bool"), TKN("bool", true)}
	case isIntID(id):
		ts := []*GTy{TK("big"), TK("str")}
		for k := IK(0); k < 10; k++ {
			ts = append(ts, TInt(k, k%3 == 0))
		}
		return ts
	case id == 0x08:
		return []*GTy{TK("f32"), TKN("f32", true)}
	case id == 0x07:
		return []*GTy{TK("f64"), TKN("f64", true)}
	case id == 0x06:
		return []*GTy{TK("dec")}
	case id == 0x12:
		return []*GTy{TInt(I64, false), TK("dur"), TInt(I64, true)}
	case id == 0x0B:
		return []*GTy{TInt(I64, false), TK("time")}
	case id == 0x0C:
		return []*GTy{TK("str"), TK("bytes"), TK("uuid"), TK("arr16")}
	case id == 0x0F:
		return []*GTy{TK("str"), TK("bytes"), TK("uuid"), TK("arr16"), TK("time")}
	case id == 0x10:
		return []*GTy{TK("ip"), TK("str")}
	case id == 0x11:
		return []*GTy{TK("time"), TK("str")}
	case id == 0x15:
		return []*GTy{TK("cqldur")}
	}
	return nil
}

// DocSources: one generated value for each Go source type the documentation of gocql.Marshal lists for
// a native column type (string sources for inet / date / duration excepted: outside the model)
func DocSources(r *hlib.Rng, id int) []*Val {
	fit := func(k IK) *big.Int { // a value of kind k that fits the column
		for i := 0; i < 50; i++ {
			z := RandInKind(r, k)
			if _, ok := specNative(id, &CV{K: "int", Z: z}); ok {
				return z
			}
		}
		return big.NewInt(int64(r.Intn(100)))
	}
	switch {
	case IsTextID(id):
		return []*Val{VStr(false, randUTF8(r)), VBytes(false, r.Bytes(r.Intn(9))), VStr(true, randUTF8(r)), VBytes(true, r.Bytes(1+r.Intn(9)))}
	case id == 0x04:
		return []*Val{VBool(false, r.Bool()), VBool(true, r.Bool())}
	case isIntID(id):
		var vs []*Val
		for j := 0; j < 3; j++ {
			k := IK(r.Intn(10))
			vs = append(vs, VInt(k, r.Chance(30), fit(k)))
		}
		vs = append(vs, VStr(false, fit(I64).String()))
		if id == 0x02 || id == 0x05 || id == 0x0E {
			vs = append(vs, VBig(fit(I64)))
		}
		return vs
	case id == 0x08:
		return []*Val{VF32(false, uint32(r.U64())), VF32(true, f32Specials[r.Intn(len(f32Specials))])}
	case id == 0x07:
		return []*Val{VF64(false, r.U64()), VF64(true, f64Specials[r.Intn(len(f64Specials))])}
	case id == 0x06:
		return []*Val{VDec(RandBigInt(r), int32(r.Intn(40)-10))}
	case id == 0x12:
		return []*Val{VInt64(I64, false, int64(r.U64()%86400000000000)), VDur(int64(r.U64() % 86400000000000))}
	case id == 0x0B:
		return []*Val{VInt64(I64, false, randInt64(r)), RandTime(r), PreEpochTime(r)}
	case id == 0x0C, id == 0x0F:
		b := r.Bytes(16)
		b[6], b[8] = b[6]&0x0f|0x10, b[8]&0x3f|0x80
		return []*Val{VUUID(b), VArr16(b), VBytes(false, b), VStr(false, uuidString(hlib.NewRng(7), b))}
	case id == 0x10:
		m := make([]byte, 16)
		m[10], m[11] = 0xff, 0xff
		copy(m[12:], r.Bytes(4))
		return []*Val{VIP(r.Bytes(4)), VIP(r.Bytes(16)), VIP(m), VStr(false, InetString(r)), VStr(false, InetString(r))}
	case id == 0x11:
		return []*Val{VInt64(I64, false, int64(r.Intn(400000000)-200000000)*1000+int64(r.Intn(1000))), RandTime(r), PreEpochTime(r)}
	case id == 0x15:
		return []*Val{VInt64(I64, false, randInt64(r)), VDur(randInt64(r)), VCqlDur(int32(RandInKind(r, I32).Int64()), int32(RandInKind(r, I32).Int64()), randInt64(r))}
	}
	return nil
}

// PreEpochTime: an instant before 1970 with a sub-day and a sub-second part
func PreEpochTime(r *hlib.Rng) *Val {
	sec := -int64(r.Pick(1, 59, 3599, 3600, 43200, 86399, 86401, 172799, 31535999, 1000000007, 2208988800))
	if r.Chance(30) {
		sec = -int64(r.Intn(2000000000)) - 1
	}
	v := VTime(sec, r.Pick(0, 1, 999999, 1000000, 1000001, 500000000, 999000000, 999999999))
	if r.Chance(30) {
		v.Zone = int(r.Pick(3600, -7200, 19800, -43200))
	}
	return v
}

// BytesCase: a value containing byte strings and target types in which every byte-slice-kinded position
// ([]byte, defined []byte types, pointers to them; as column, list / set element, map value, tuple and UDT
// component) is decoded: the positions where a decoder could hand out memory of the input buffer.
type BytesCase struct {
	T  *Ty
	V  *Val
	Gs []*GTy
}

func BytesCases(r *hlib.Rng) []BytesCase {
	B, NB, S := TK("bytes"), TKN("bytes", true), TK("str")
	nb := func() []byte { return r.Bytes(1 + r.Intn(12)) }
	blob, text := Native(gocql.TypeBlob), Native(gocql.TypeText)
	var cs []BytesCase
	for _, t := range []*Ty{blob, text, Native(gocql.TypeAscii), Native(gocql.TypeVarchar)} {
		cs = append(cs, BytesCase{t, VBytes(r.Bool(), nb()), []*GTy{B, NB, TPtr(NB), TPtr(TPtr(NB)), TPtr(B), S, TKN("str", true)}})
	}
	cs = append(cs,
		BytesCase{&Ty{K: "list", E: blob}, VSlice(NB, []*Val{VBytes(true, nb()), VBytes(true, nb())}),
			[]*GTy{TSlice(NB), TSlice(B), TSlice(TPtr(NB)), TArray(2, NB), TPtr(TSlice(TPtr(B)))}},
		BytesCase{&Ty{K: "set", E: text}, VSlice(B, []*Val{VBytes(false, nb())}),
			[]*GTy{TSlice(NB), TSlice(B), TSlice(TPtr(NB)), TArray(1, B)}},
		BytesCase{&Ty{K: "map", Key: text, E: blob}, VMapOf(S, B, [][2]*Val{{VStr(false, "k"), VBytes(false, nb())}}, false),
			[]*GTy{TMapOf(S, NB), TMapOf(S, B), TMapOf(S, TPtr(NB)), TMapOf(TKN("str", true), TPtr(B))}},
		BytesCase{&Ty{K: "list", E: &Ty{K: "list", E: blob}}, VSlice(TSlice(B), []*Val{VSlice(B, []*Val{VBytes(false, nb())})}),
			[]*GTy{TSlice(TSlice(NB)), TSlice(TSlice(B))}},
		BytesCase{&Ty{K: "tuple", Es: []*Ty{blob, text}}, VIfaces([]*Val{VBytes(false, nb()), VBytes(true, nb())}),
			[]*GTy{TIfaces([]*GTy{NB, TPtr(NB)}), TIfaces([]*GTy{TPtr(B), B}), TStruct([]string{"F0", "F1"}, []string{"", ""}, []*GTy{B, S}), TSlice(TK("iface"))}},
		BytesCase{&Ty{K: "udt", Es: []*Ty{blob, text}, Names: []string{"a", "b"}}, VStrMap([]string{"a", "b"}, []*Val{VBytes(false, nb()), VBytes(true, nb())}, false),
			[]*GTy{TK("strmap"), TStruct([]string{"G0", "G1"}, []string{"a", "b"}, []*GTy{NB, TPtr(NB)}), TStruct([]string{"G0", "G1"}, []string{"a", "b"}, []*GTy{B, TPtr(B)})}},
	)
	return cs
}

// InetString: textual IP addresses as users write them: dotted IPv4, full and compressed IPv6 in either
// case, IPv4-mapped IPv6 in both spellings, IPv6 with an embedded IPv4 tail; and strings that are not
// addresses (leading zeros, too many / too few fields, zones, ports, stray characters)
func InetString(r *hlib.Rng) string {
	hexd := func(v int, upper bool) string {
		if upper {
			return fmt.Sprintf("%X", v)
		}
		return fmt.Sprintf("%x", v)
	}
	v4 := func() string {
		return fmt.Sprintf("%d.%d.%d.%d", r.Pick(0, 1, 10, 127, 192, 255, int64(r.Intn(256))), r.Intn(256), r.Pick(0, 9, 168, int64(r.Intn(256))), r.Intn(256))
	}
	upper := r.Chance(30)
	groups := make([]int, 8)
	for i := range groups {
		switch r.Intn(4) {
		case 0:
			groups[i] = 0
		case 1:
			groups[i] = r.Intn(16)
		default:
			groups[i] = r.Intn(65536)
		}
	}
	full := func(gs []int, pad bool) string {
		ss := make([]string, len(gs))
		for i, g := range gs {
			ss[i] = hexd(g, upper)
			if pad {
				ss[i] = fmt.Sprintf("%04x", g)
			}
		}
		return strings.Join(ss, ":")
	}
	switch r.Intn(14) {
	case 0, 1:
		return v4()
	case 2:
		return full(groups, r.Chance(30))
	case 3: // compressed: a run of zero groups written as ::
		a, n := r.Intn(7), 1+r.Intn(4)
		if a+n > 8 {
			n = 8 - a
		}
		left, right := full(groups[:a], false), full(groups[a+n:], false)
		return left + "::" + right
	case 4:
		return []string{"::", "::1", "1::", "::ffff:0:0", "fe80::1", "2001:db8::", "0:0:0:0:0:0:0:0", "::0.0.0.0", "1:2:3:4:5:6:7::", "::2:3:4:5:6:7:8"}[r.Intn(10)]
	case 5: // IPv4-mapped, dotted tail
		return []string{"::ffff:", "::FFFF:", "0:0:0:0:0:ffff:", "::0:ffff:", "0::ffff:"}[r.Intn(5)] + v4()
	case 6: // IPv4-mapped, hex tail
		return fmt.Sprintf("%s%s:%s", []string{"::ffff:", "::FFFF:", "0:0:0:0:0:FFFF:"}[r.Intn(3)], hexd(r.Intn(65536), upper), hexd(r.Intn(65536), upper))
	case 7: // other embedded IPv4 tails
		return []string{"64:ff9b::", "::", "1:2:3:4:5:6:", "::1:", "2001:db8::"}[r.Intn(5)] + v4()
	case 8:
		return []string{"", " ", "1.2.3", "1.2.3.4.5", "01.2.3.4", "1.2.3.256", "1.2.3.4 ", " 1.2.3.4", "1..3.4", ".1.2.3", "1.2.3.", "1.2.3.4:80", "a.b.c.d", "0x1.2.3.4", "1.2.3.+4"}[r.Intn(15)]
	case 9:
		return []string{":", ":::", "1:2", "1:2:3:4:5:6:7", "1:2:3:4:5:6:7:8:9", "::1::", "1::2::3", "12345::", "g::", "fe80::1%eth0", "::1%", "[::1]", "1:2:3:4:5:6:7:8:", ":1:2:3:4:5:6:7:8", "1:2:3:4:5:6:7:1.2.3.4", "::1.2.3", "::ffff:1.2.3.04", "1:2:3:4:5:6:7:8::", "::1:2:3:4:5:6:7:8", "localhost"}[r.Intn(20)]
	}
	return v4()
}

// ---- deterministic systematic cases shared by BOTH harnesses (no PRNG: the same in every run and seed) ----

type SharedCase struct {
	Kind string
	T    *Ty
	V    *Val
	Gs   []*GTy
}

// VintBoundaries: every length boundary of the vint encoding (2^(7k)-1, 2^(7k), k = 1..9, both signs), the
// ends of int64 and the values whose zig-zag form needs 63 / 64 bits
func VintBoundaries() []int64 {
	seen := map[int64]bool{}
	var out []int64
	add := func(v int64) {
		if !seen[v] {
			seen[v] = true
			out = append(out, v)
		}
	}
	for _, v := range []int64{0, 1, -1, 63, 64, -64, -65} {
		add(v)
	}
	for k := uint(1); k <= 9; k++ {
		if 7*k < 63 {
			p := int64(1) << (7 * k)
			add(p - 1)
			add(p)
			add(-p)
			add(-p + 1)
			add(-p - 1)
			add(p/2 - 1) // zig-zag boundary: 2v reaches 2^(7k)
			add(p / 2)
			add(-p / 2)
			add(-p/2 - 1)
		}
	}
	for _, v := range []int64{1 << 62, 1<<62 - 1, -(1 << 62), -(1 << 62) + 1, -(1 << 62) - 1, 1<<63 - 1, 1<<63 - 2, -1 << 63, -1<<63 + 1} {
		add(v)
	}
	return out
}

// IntStrings: string sources for integer-like columns: canonical, zero-padded, signed, blanks, other bases,
// exponents, empty, very long.  The documented meaning is the base-10 number (or an error).
func IntStrings() []string {
	return []string{"0", "7", "-7", "100", "-100", "127", "128", "-128", "-129", "255", "32767", "32768", "-32768", "2147483647", "2147483648",
		"-2147483648", "9223372036854775807", "9223372036854775808", "-9223372036854775808", "-9223372036854775809",
		"0100", "-0100", "0010", "0128", "007", "00", "-00", "0000000000000000000000000000000000000001", "+5", "+0100", "-0", "+0",
		" 1", "1 ", "\t1", "1\n", "0x10", "0X10", "0b11", "0o17", "1e3", "1E3", "1.0", "1_000", "", "+", "-", "--1", "0x", "١٢",
		"99999999999999999999999999999999", "-99999999999999999999999999999999"}
}

func SharedSystematic() []SharedCase {
	var cs []SharedCase
	// (1) strings into every integer-like column
	for _, id := range IntIDs {
		t := Native(gocqlType(id))
		for _, s := range IntStrings() {
			cs = append(cs, SharedCase{"sys-int-string", t, VStr(false, s), []*GTy{TK("big"), TInt(I64, false), TK("str")}})
		}
	}
	// (2) duration at every vint length boundary, from every documented source type
	dt := Native(gocql.TypeDuration)
	dg := []*GTy{TK("cqldur"), TPtr(TK("cqldur"))}
	clip := func(v int64) int32 {
		if v > 2147483647 {
			return 2147483647
		}
		if v < -2147483648 {
			return -2147483648
		}
		return int32(v)
	}
	vb := VintBoundaries()
	for i, n := range vb {
		cs = append(cs, SharedCase{"sys-duration", dt, VCqlDur(0, 0, n), dg})
		cs = append(cs, SharedCase{"sys-duration", dt, VDur(n), dg})
		cs = append(cs, SharedCase{"sys-duration", dt, VInt64(I64, false, n), dg})
		cs = append(cs, SharedCase{"sys-duration", dt, VInt64(I64, true, n), dg})
		m, d := clip(vb[(i*3+1)%len(vb)]), clip(vb[(i*5+2)%len(vb)])
		cs = append(cs, SharedCase{"sys-duration", dt, VCqlDur(m, d, n), dg})
		cs = append(cs, SharedCase{"sys-duration", dt, VCqlDur(clip(n), clip(-n), 0), dg})
	}
	// the same boundaries as time (nanoseconds) and bigint / varint values (8-byte and minimal encodings)
	for _, n := range vb {
		cs = append(cs, SharedCase{"sys-int64-boundary", Native(gocql.TypeBigInt), VInt64(I64, false, n), []*GTy{TInt(I64, false), TK("big")}})
		cs = append(cs, SharedCase{"sys-int64-boundary", Native(gocql.TypeVarint), VInt64(I64, true, n), []*GTy{TInt(I64, false), TK("big")}})
	}
	// varint byte-length boundaries from big.Int (both harnesses)
	for _, z := range VarintBoundaries() {
		cs = append(cs, SharedCase{"sys-varint-boundary", Native(gocql.TypeVarint), VBig(z), []*GTy{TK("big"), TInt(I64, false), TInt(U64, false)}})
	}
	return cs
}
