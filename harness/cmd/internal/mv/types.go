// Package mv: shared by the C12 and C02 harness programs.  Descriptors of CQL types (Ty), Go types
// (GTy) and Go values (Val) that can be (a) printed as terms of the Coq model's cqlty / gty / gval,
// (b) built as real Go values with package reflect and handed to gocql.Marshal / gocql.Unmarshal,
// (c) read back from what gocql.Unmarshal stored.
package mv

import (
	"fmt"
	"math/big"
	"net"
	"reflect"
	"sort"
	"strings"
	"time"
	"unsafe"

	"github.com/gocql/gocql"
	"gocqlverif/hlib"
	"gopkg.in/inf.v0"
)

type IK int

const (
	I8 IK = iota
	I16
	I32
	I64
	IInt
	U8
	U16
	U32
	U64
	UInt
)

var IKNames = []string{"I8", "I16", "I32", "I64", "IInt", "U8", "U16", "U32", "U64", "UInt"}

func (k IK) Signed() bool { return k <= IInt }
func (k IK) Min() *big.Int {
	switch k {
	case I8:
		return big.NewInt(-128)
	case I16:
		return big.NewInt(-32768)
	case I32:
		return big.NewInt(-2147483648)
	case I64, IInt:
		return big.NewInt(-9223372036854775808)
	}
	return big.NewInt(0)
}
func (k IK) Max() *big.Int {
	switch k {
	case I8:
		return big.NewInt(127)
	case I16:
		return big.NewInt(32767)
	case I32:
		return big.NewInt(2147483647)
	case I64, IInt:
		return big.NewInt(9223372036854775807)
	case U8:
		return big.NewInt(255)
	case U16:
		return big.NewInt(65535)
	case U32:
		return big.NewInt(4294967295)
	}
	return new(big.Int).SetUint64(18446744073709551615)
}

// defined types with each underlying kind (the reflect path of marshal.go)
type (
	NI8    int8
	NI16   int16
	NI32   int32
	NI64   int64
	NInt   int
	NU8    uint8
	NU16   uint16
	NU32   uint32
	NU64   uint64
	NUInt  uint
	NStr   string
	NBytes []byte
	NBool  bool
	NF32   float32
	NF64   float64
)

var intTypes = [2][10]reflect.Type{
	{reflect.TypeOf(int8(0)), reflect.TypeOf(int16(0)), reflect.TypeOf(int32(0)), reflect.TypeOf(int64(0)), reflect.TypeOf(int(0)),
		reflect.TypeOf(uint8(0)), reflect.TypeOf(uint16(0)), reflect.TypeOf(uint32(0)), reflect.TypeOf(uint64(0)), reflect.TypeOf(uint(0))},
	{reflect.TypeOf(NI8(0)), reflect.TypeOf(NI16(0)), reflect.TypeOf(NI32(0)), reflect.TypeOf(NI64(0)), reflect.TypeOf(NInt(0)),
		reflect.TypeOf(NU8(0)), reflect.TypeOf(NU16(0)), reflect.TypeOf(NU32(0)), reflect.TypeOf(NU64(0)), reflect.TypeOf(NUInt(0))},
}

var (
	tIface   = reflect.TypeOf((*interface{})(nil)).Elem()
	tTime    = reflect.TypeOf(time.Time{})
	tDur     = reflect.TypeOf(time.Duration(0))
	tCqlDur  = reflect.TypeOf(gocql.Duration{})
	tUUID    = reflect.TypeOf(gocql.UUID{})
	tArr16   = reflect.TypeOf([16]byte{})
	tIP      = reflect.TypeOf(net.IP{})
	tBig     = reflect.TypeOf(big.Int{})
	tDec     = reflect.TypeOf(inf.Dec{})
	tStrMap  = reflect.TypeOf(map[string]interface{}{})
	tIfaces  = reflect.TypeOf([]interface{}{})
	tEmpty   = reflect.TypeOf(struct{}{})
	tStr     = reflect.TypeOf("")
	tNStr    = reflect.TypeOf(NStr(""))
	tBytes   = reflect.TypeOf([]byte{})
	tNBytes  = reflect.TypeOf(NBytes{})
	tBool    = reflect.TypeOf(false)
	tNBool   = reflect.TypeOf(NBool(false))
	tF32     = reflect.TypeOf(float32(0))
	tNF32    = reflect.TypeOf(NF32(0))
	tF64     = reflect.TypeOf(float64(0))
	tNF64    = reflect.TypeOf(NF64(0))
)

// ---- Go type descriptors -------------------------------------------------------------------------

type GTy struct {
	K     string // int str bytes bool f32 f64 big dec time dur cqldur uuid arr16 ip slice array map ifaces strmap struct ptr iface setmap
	IK    IK
	Named bool
	E     *GTy // slice / array / ptr element, setmap key, map value
	Key   *GTy
	N     int
	Ts    []*GTy // ifaces: pointee types; struct: field types
	Names []string
	Tags  []string
}

func TInt(k IK, named bool) *GTy { return &GTy{K: "int", IK: k, Named: named} }
func TK(k string) *GTy          { return &GTy{K: k} }
func TKN(k string, named bool) *GTy { return &GTy{K: k, Named: named} }
func TSlice(e *GTy) *GTy        { return &GTy{K: "slice", E: e} }
func TArray(n int, e *GTy) *GTy { return &GTy{K: "array", N: n, E: e} }
func TMapOf(k, v *GTy) *GTy     { return &GTy{K: "map", Key: k, E: v} }
func TPtr(e *GTy) *GTy          { return &GTy{K: "ptr", E: e} }
func TSetMap(k *GTy) *GTy       { return &GTy{K: "setmap", E: k} }
func TIfaces(ts []*GTy) *GTy    { return &GTy{K: "ifaces", Ts: ts} }
func TStruct(names, tags []string, ts []*GTy) *GTy {
	return &GTy{K: "struct", Names: names, Tags: tags, Ts: ts}
}

func pick2(named bool, a, b reflect.Type) reflect.Type {
	if named {
		return b
	}
	return a
}

func (t *GTy) RType() reflect.Type {
	switch t.K {
	case "int":
		n := 0
		if t.Named {
			n = 1
		}
		return intTypes[n][t.IK]
	case "str":
		return pick2(t.Named, tStr, tNStr)
	case "bytes":
		return pick2(t.Named, tBytes, tNBytes)
	case "bool":
		return pick2(t.Named, tBool, tNBool)
	case "f32":
		return pick2(t.Named, tF32, tNF32)
	case "f64":
		return pick2(t.Named, tF64, tNF64)
	case "big":
		return tBig
	case "dec":
		return tDec
	case "time":
		return tTime
	case "dur":
		return tDur
	case "cqldur":
		return tCqlDur
	case "uuid":
		return tUUID
	case "arr16":
		return tArr16
	case "ip":
		return tIP
	case "slice":
		return reflect.SliceOf(t.E.RType())
	case "array":
		return reflect.ArrayOf(t.N, t.E.RType())
	case "map":
		return reflect.MapOf(t.Key.RType(), t.E.RType())
	case "setmap":
		return reflect.MapOf(t.E.RType(), tEmpty)
	case "ifaces":
		return tIfaces
	case "strmap":
		return tStrMap
	case "iface":
		return tIface
	case "ptr":
		return reflect.PtrTo(t.E.RType())
	case "struct":
		fs := make([]reflect.StructField, len(t.Ts))
		for i := range t.Ts {
			fs[i] = reflect.StructField{Name: t.Names[i], Type: t.Ts[i].RType()}
			if t.Tags[i] != "" {
				fs[i].Tag = reflect.StructTag(`cql:"` + t.Tags[i] + `"`)
			}
		}
		return reflect.StructOf(fs)
	}
	panic("RType: " + t.K)
}

func cb(b bool) string { return hlib.Bool(b) }
func cstr(s string) string { return hlib.ZList([]byte(s)) }

// Coq term of type gty
func (t *GTy) Coq() string {
	switch t.K {
	case "int":
		return fmt.Sprintf("(YInt %s %s)", IKNames[t.IK], cb(t.Named))
	case "str":
		return "(YStr " + cb(t.Named) + ")"
	case "bytes":
		return "(YBytes " + cb(t.Named) + ")"
	case "bool":
		return "(YBool " + cb(t.Named) + ")"
	case "f32":
		return "(YF32 " + cb(t.Named) + ")"
	case "f64":
		return "(YF64 " + cb(t.Named) + ")"
	case "big":
		return "YBig"
	case "dec":
		return "YDec"
	case "time":
		return "YTime"
	case "dur":
		return "YDur"
	case "cqldur":
		return "YCqlDur"
	case "uuid":
		return "YUUID"
	case "arr16":
		return "YArr16"
	case "ip":
		return "YIP"
	case "slice":
		return "(YSlice " + t.E.Coq() + ")"
	case "array":
		return fmt.Sprintf("(YArray %d%%nat %s)", t.N, t.E.Coq())
	case "map":
		return "(YMap " + t.Key.Coq() + " " + t.E.Coq() + ")"
	case "ifaces":
		ss := make([]string, len(t.Ts))
		for i, x := range t.Ts {
			ss[i] = x.Coq()
		}
		return "(YIfaces " + hlib.List(ss) + ")"
	case "strmap":
		return "YStrMap"
	case "setmap": // source-only type: never a target, used as a type key
		return "(YSetMap " + t.E.Coq() + ")"
	case "iface":
		return "YIface"
	case "ptr":
		return "(YPtr " + t.E.Coq() + ")"
	case "struct":
		ss := make([]string, len(t.Ts))
		for i, x := range t.Ts {
			ss[i] = fmt.Sprintf("(%s, %s, %s)", cstr(t.Names[i]), cstr(t.Tags[i]), x.Coq())
		}
		return "(YStruct " + hlib.List(ss) + ")"
	}
	panic("GTy.Coq: " + t.K)
}

// ---- Go value descriptors ------------------------------------------------------------------------

type Val struct {
	T     *GTy
	K     string   // "nil", "unset", or T.K
	Z     *big.Int // int value; big; dur ns; f32/f64 bits; dec unscaled
	Scale int64
	S     []byte // str, bytes, uuid, arr16, ip
	Nil   bool   // nil slice / nil []byte / nil map / nil net.IP
	B     bool
	Sec   int64
	Nsec  int64
	M, D  int64
	N     int64
	L     []*Val    // slice, ifaces, array, setmap keys, struct fields (in order)
	KV    [][2]*Val // map entries
	SK    []string  // strmap keys (values in L)
	P     *Val      // ptr target (nil = nil pointer)
	Zone  int       // time: offset in seconds of the location used when building the Go value
}

func VNil() *Val   { return &Val{K: "nil", T: TK("iface")} }
func VUnset() *Val { return &Val{K: "unset", T: TK("iface")} }
func VInt(k IK, named bool, z *big.Int) *Val {
	return &Val{K: "int", T: TInt(k, named), Z: z}
}
func VInt64(k IK, named bool, z int64) *Val { return VInt(k, named, big.NewInt(z)) }
func VStr(named bool, s string) *Val       { return &Val{K: "str", T: TKN("str", named), S: []byte(s)} }
func VBytes(named bool, b []byte) *Val {
	return &Val{K: "bytes", T: TKN("bytes", named), S: b, Nil: b == nil}
}
func VBool(named, b bool) *Val { return &Val{K: "bool", T: TKN("bool", named), B: b} }
func VF32(named bool, bits uint32) *Val {
	return &Val{K: "f32", T: TKN("f32", named), Z: new(big.Int).SetUint64(uint64(bits))}
}
func VF64(named bool, bits uint64) *Val {
	return &Val{K: "f64", T: TKN("f64", named), Z: new(big.Int).SetUint64(bits)}
}
func VBig(z *big.Int) *Val               { return &Val{K: "big", T: TK("big"), Z: z} }
func VDec(u *big.Int, scale int32) *Val  { return &Val{K: "dec", T: TK("dec"), Z: u, Scale: int64(scale)} }
func VTime(sec, nsec int64) *Val         { return &Val{K: "time", T: TK("time"), Sec: sec, Nsec: nsec} }
func VDur(ns int64) *Val                 { return &Val{K: "dur", T: TK("dur"), Z: big.NewInt(ns)} }
func VCqlDur(m, d int32, n int64) *Val   { return &Val{K: "cqldur", T: TK("cqldur"), M: int64(m), D: int64(d), N: n} }
func VUUID(b []byte) *Val                { return &Val{K: "uuid", T: TK("uuid"), S: b} }
func VArr16(b []byte) *Val               { return &Val{K: "arr16", T: TK("arr16"), S: b} }
func VIP(b []byte) *Val                  { return &Val{K: "ip", T: TK("ip"), S: b, Nil: len(b) == 0} } // the empty IP is always the nil IP
func VSlice(e *GTy, l []*Val) *Val       { return &Val{K: "slice", T: TSlice(e), L: l, Nil: l == nil} }
func VIfaces(l []*Val) *Val              { return &Val{K: "ifaces", T: TIfaces(nil), L: l} }
func VArray(e *GTy, l []*Val) *Val       { return &Val{K: "array", T: TArray(len(l), e), L: l} }
func VMapOf(k, v *GTy, kv [][2]*Val, isnil bool) *Val {
	return &Val{K: "map", T: TMapOf(k, v), KV: kv, Nil: isnil}
}
func VSetMap(k *GTy, keys []*Val) *Val { return &Val{K: "setmap", T: TSetMap(k), L: keys} }
func VStrMap(keys []string, vals []*Val, isnil bool) *Val {
	return &Val{K: "strmap", T: TK("strmap"), SK: keys, L: vals, Nil: isnil}
}
func VStruct(names, tags []string, vals []*Val) *Val {
	ts := make([]*GTy, len(vals))
	for i, v := range vals {
		ts[i] = v.T
	}
	return &Val{K: "struct", T: TStruct(names, tags, ts), L: vals}
}
func VPtr(e *GTy, p *Val) *Val { return &Val{K: "ptr", T: TPtr(e), P: p} }

// Iface: the interface{} to hand to gocql.Marshal
func (v *Val) Iface() interface{} {
	switch v.K {
	case "nil":
		return nil
	case "unset":
		return gocql.UnsetValue
	}
	return v.Build().Interface()
}

func setInto(dst reflect.Value, v *Val) {
	if v.K == "nil" {
		return // zero interface
	}
	if v.K == "unset" {
		dst.Set(reflect.ValueOf(gocql.UnsetValue))
		return
	}
	dst.Set(v.Build())
}

// Build the Go value described by v (a reflect.Value of type v.T.RType()).
func (v *Val) Build() reflect.Value {
	rt := v.T.RType()
	rv := reflect.New(rt).Elem()
	switch v.K {
	case "int":
		if v.T.IK.Signed() {
			rv.SetInt(v.Z.Int64())
		} else {
			rv.SetUint(v.Z.Uint64())
		}
	case "str":
		rv.SetString(string(v.S))
	case "bytes":
		if !v.Nil {
			rv.SetBytes(append([]byte{}, v.S...))
		}
	case "bool":
		rv.SetBool(v.B)
	case "f32":
		*(*uint32)(unsafe.Pointer(rv.UnsafeAddr())) = uint32(v.Z.Uint64())
	case "f64":
		*(*uint64)(unsafe.Pointer(rv.UnsafeAddr())) = v.Z.Uint64()
	case "big":
		rv.Set(reflect.ValueOf(*new(big.Int).Set(v.Z)))
	case "dec":
		rv.Set(reflect.ValueOf(*inf.NewDecBig(new(big.Int).Set(v.Z), inf.Scale(v.Scale))))
	case "time":
		t := time.Unix(v.Sec, v.Nsec).UTC()
		if v.Zone != 0 {
			t = t.In(time.FixedZone("z", v.Zone))
		}
		rv.Set(reflect.ValueOf(t))
	case "dur":
		rv.SetInt(v.Z.Int64())
	case "cqldur":
		rv.Set(reflect.ValueOf(gocql.Duration{Months: int32(v.M), Days: int32(v.D), Nanoseconds: v.N}))
	case "uuid", "arr16":
		for i := 0; i < 16 && i < len(v.S); i++ {
			rv.Index(i).SetUint(uint64(v.S[i]))
		}
	case "ip":
		if !v.Nil {
			rv.SetBytes(append([]byte{}, v.S...))
		}
	case "slice", "ifaces":
		if !v.Nil {
			s := reflect.MakeSlice(rt, len(v.L), len(v.L))
			for i, e := range v.L {
				setInto(s.Index(i), e)
			}
			rv.Set(s)
		}
	case "array":
		for i, e := range v.L {
			setInto(rv.Index(i), e)
		}
	case "map":
		if !v.Nil {
			m := reflect.MakeMap(rt)
			for _, kv := range v.KV {
				val := reflect.New(rt.Elem()).Elem()
				setInto(val, kv[1])
				key := reflect.New(rt.Key()).Elem()
				setInto(key, kv[0])
				m.SetMapIndex(key, val)
			}
			rv.Set(m)
		}
	case "setmap":
		m := reflect.MakeMap(rt)
		for _, k := range v.L {
			m.SetMapIndex(k.Build(), reflect.ValueOf(struct{}{}))
		}
		rv.Set(m)
	case "strmap":
		if !v.Nil {
			m := map[string]interface{}{}
			for i, k := range v.SK {
				m[k] = v.L[i].Iface()
			}
			rv.Set(reflect.ValueOf(m))
		}
	case "struct":
		for i, e := range v.L {
			setInto(rv.Field(i), e)
		}
	case "ptr":
		if v.P != nil {
			p := reflect.New(rt.Elem())
			setInto(p.Elem(), v.P)
			rv.Set(p)
		}
	default:
		panic("Build: " + v.K)
	}
	return rv
}

func zs(z *big.Int) string { return hlib.ZStr(z.String()) }

func coqList(l []*Val) string {
	ss := make([]string, len(l))
	for i, e := range l {
		ss[i] = e.Coq()
	}
	return hlib.List(ss)
}

// Coq term of type gval
func (v *Val) Coq() string {
	switch v.K {
	case "nil":
		return "GNil"
	case "unset":
		return "GUnset"
	case "int":
		return fmt.Sprintf("(GInt %s %s %s)", IKNames[v.T.IK], cb(v.T.Named), zs(v.Z))
	case "str":
		return fmt.Sprintf("(GStr %s %s)", cb(v.T.Named), hlib.ZList(v.S))
	case "bytes":
		if v.Nil {
			return fmt.Sprintf("(GBytes %s None)", cb(v.T.Named))
		}
		return fmt.Sprintf("(GBytes %s (Some %s))", cb(v.T.Named), hlib.ZList(v.S))
	case "bool":
		return fmt.Sprintf("(GBool %s %s)", cb(v.T.Named), cb(v.B))
	case "f32":
		return fmt.Sprintf("(GF32 %s %s)", cb(v.T.Named), zs(v.Z))
	case "f64":
		return fmt.Sprintf("(GF64 %s %s)", cb(v.T.Named), zs(v.Z))
	case "big":
		return "(GBig " + zs(v.Z) + ")"
	case "dec":
		return fmt.Sprintf("(GDec %s %s)", zs(v.Z), hlib.Z(v.Scale))
	case "time":
		return fmt.Sprintf("(GTime %s %s)", hlib.Z(v.Sec), hlib.Z(v.Nsec))
	case "dur":
		return "(GDur " + zs(v.Z) + ")"
	case "cqldur":
		return fmt.Sprintf("(GCqlDur %s %s %s)", hlib.Z(v.M), hlib.Z(v.D), hlib.Z(v.N))
	case "uuid":
		return "(GUUID " + hlib.ZList(v.S) + ")"
	case "arr16":
		return "(GArr16 " + hlib.ZList(v.S) + ")"
	case "ip":
		return "(GIP " + hlib.ZList(v.S) + ")"
	case "slice":
		if v.Nil {
			return "(GSlice None)"
		}
		return "(GSlice (Some " + coqList(v.L) + "))"
	case "ifaces":
		return "(GIfaces " + coqList(v.L) + ")"
	case "array":
		return "(GArray " + coqList(v.L) + ")"
	case "map":
		if v.Nil {
			return "(GMap None)"
		}
		ss := make([]string, len(v.KV))
		for i, kv := range v.KV {
			ss[i] = hlib.Pair(kv[0].Coq(), kv[1].Coq())
		}
		return "(GMap (Some " + hlib.List(ss) + "))"
	case "setmap":
		return "(GSetMap " + coqList(v.L) + ")"
	case "strmap":
		if v.Nil {
			return "(GStrMap None)"
		}
		ss := make([]string, len(v.SK))
		for i, k := range v.SK {
			ss[i] = hlib.Pair(cstr(k), v.L[i].Coq())
		}
		return "(GStrMap (Some " + hlib.List(ss) + "))"
	case "struct":
		ss := make([]string, len(v.L))
		for i, e := range v.L {
			ss[i] = fmt.Sprintf("(%s, %s, %s)", cstr(v.T.Names[i]), cstr(v.T.Tags[i]), e.Coq())
		}
		return "(GStruct " + hlib.List(ss) + ")"
	case "ptr":
		if v.P == nil {
			return "(GPtr None)"
		}
		return "(GPtr (Some " + v.P.Coq() + "))"
	}
	panic("Val.Coq: " + v.K)
}

// ---- reading Go values back ----------------------------------------------------------------------

func addressable(rv reflect.Value) reflect.Value {
	if rv.CanAddr() {
		return rv
	}
	t := reflect.New(rv.Type()).Elem()
	t.Set(rv)
	return t
}

// GTyOf: descriptor of a dynamic Go type (what goType produces, plus the harness's own types)
func GTyOf(rt reflect.Type) *GTy {
	switch rt {
	case tTime:
		return TK("time")
	case tDur:
		return TK("dur")
	case tCqlDur:
		return TK("cqldur")
	case tUUID:
		return TK("uuid")
	case tArr16:
		return TK("arr16")
	case tIP:
		return TK("ip")
	case tBig:
		return TK("big")
	case tDec:
		return TK("dec")
	case tStrMap:
		return TK("strmap")
	case tIface:
		return TK("iface")
	case tStr, tNStr:
		return TKN("str", rt == tNStr)
	case tBytes, tNBytes:
		return TKN("bytes", rt == tNBytes)
	case tBool, tNBool:
		return TKN("bool", rt == tNBool)
	case tF32, tNF32:
		return TKN("f32", rt == tNF32)
	case tF64, tNF64:
		return TKN("f64", rt == tNF64)
	}
	for n := 0; n < 2; n++ {
		for k := 0; k < 10; k++ {
			if intTypes[n][k] == rt {
				return TInt(IK(k), n == 1)
			}
		}
	}
	switch rt.Kind() {
	case reflect.Slice:
		return TSlice(GTyOf(rt.Elem()))
	case reflect.Array:
		return TArray(rt.Len(), GTyOf(rt.Elem()))
	case reflect.Map:
		return TMapOf(GTyOf(rt.Key()), GTyOf(rt.Elem()))
	case reflect.Ptr:
		return TPtr(GTyOf(rt.Elem()))
	}
	panic("GTyOf: " + rt.String())
}

// FromGo reads the Go value rv of static type t back into a descriptor.
func FromGo(rv reflect.Value, t *GTy) *Val {
	v := &Val{T: t, K: t.K}
	switch t.K {
	case "iface":
		if rv.IsNil() {
			return VNil()
		}
		e := rv.Elem()
		return FromGo(e, GTyOf(e.Type()))
	case "int":
		if t.IK.Signed() {
			v.Z = big.NewInt(rv.Int())
		} else {
			v.Z = new(big.Int).SetUint64(rv.Uint())
		}
	case "str":
		v.S = []byte(rv.String())
	case "bytes", "ip":
		if rv.IsNil() {
			v.Nil = true
		} else {
			v.S = append([]byte{}, rv.Bytes()...)
		}
	case "bool":
		v.B = rv.Bool()
	case "f32":
		a := addressable(rv)
		v.Z = new(big.Int).SetUint64(uint64(*(*uint32)(unsafe.Pointer(a.UnsafeAddr()))))
	case "f64":
		a := addressable(rv)
		v.Z = new(big.Int).SetUint64(*(*uint64)(unsafe.Pointer(a.UnsafeAddr())))
	case "big":
		x := rv.Interface().(big.Int)
		v.Z = new(big.Int).Set(&x)
	case "dec":
		x := rv.Interface().(inf.Dec)
		v.Z = new(big.Int).Set(x.UnscaledBig())
		v.Scale = int64(x.Scale())
	case "time":
		x := rv.Interface().(time.Time)
		v.Sec, v.Nsec = x.Unix(), int64(x.Nanosecond())
	case "dur":
		v.Z = big.NewInt(rv.Int())
	case "cqldur":
		x := rv.Interface().(gocql.Duration)
		v.M, v.D, v.N = int64(x.Months), int64(x.Days), x.Nanoseconds
	case "uuid", "arr16":
		v.S = make([]byte, 16)
		for i := range v.S {
			v.S[i] = byte(rv.Index(i).Uint())
		}
	case "slice":
		if rv.IsNil() {
			v.Nil = true
		} else {
			v.L = make([]*Val, rv.Len())
			for i := range v.L {
				v.L[i] = FromGo(rv.Index(i), t.E)
			}
		}
	case "array":
		v.L = make([]*Val, rv.Len())
		for i := range v.L {
			v.L[i] = FromGo(rv.Index(i), t.E)
		}
	case "map":
		if rv.IsNil() {
			v.Nil = true
		} else {
			for _, k := range rv.MapKeys() {
				v.KV = append(v.KV, [2]*Val{FromGo(k, t.Key), FromGo(rv.MapIndex(k), t.E)})
			}
			sort.Slice(v.KV, func(i, j int) bool { return v.KV[i][0].Coq() < v.KV[j][0].Coq() })
		}
	case "strmap":
		if rv.IsNil() {
			v.Nil = true
		} else {
			m := rv.Interface().(map[string]interface{})
			for k := range m {
				v.SK = append(v.SK, k)
			}
			sort.Strings(v.SK)
			for _, k := range v.SK {
				x := m[k]
				if x == nil {
					v.L = append(v.L, VNil())
				} else {
					e := reflect.ValueOf(x)
					v.L = append(v.L, FromGo(e, GTyOf(e.Type())))
				}
			}
		}
	case "struct":
		v.L = make([]*Val, len(t.Ts))
		for i := range t.Ts {
			v.L[i] = FromGo(rv.Field(i), t.Ts[i])
		}
	case "ptr":
		if !rv.IsNil() {
			v.P = FromGo(rv.Elem(), t.E)
		}
	default:
		panic("FromGo: " + t.K)
	}
	return v
}

// ---- CQL types -------------------------------------------------------------------------------------

type Ty struct {
	K     string // native list set map tuple udt
	ID    int
	E     *Ty
	Key   *Ty
	Es    []*Ty
	Names []string
}

func Native(id gocql.Type) *Ty { return &Ty{K: "native", ID: int(id)} }

func (t *Ty) Info(pv byte) gocql.TypeInfo {
	switch t.K {
	case "native":
		return gocql.NewNativeType(pv, gocql.Type(t.ID), "")
	case "list":
		return gocql.CollectionType{NativeType: gocql.NewNativeType(pv, gocql.TypeList, ""), Elem: t.E.Info(pv)}
	case "set":
		return gocql.CollectionType{NativeType: gocql.NewNativeType(pv, gocql.TypeSet, ""), Elem: t.E.Info(pv)}
	case "map":
		return gocql.CollectionType{NativeType: gocql.NewNativeType(pv, gocql.TypeMap, ""), Key: t.Key.Info(pv), Elem: t.E.Info(pv)}
	case "tuple":
		es := make([]gocql.TypeInfo, len(t.Es))
		for i, e := range t.Es {
			es[i] = e.Info(pv)
		}
		return gocql.TupleTypeInfo{NativeType: gocql.NewNativeType(pv, gocql.TypeTuple, ""), Elems: es}
	case "udt":
		fs := make([]gocql.UDTField, len(t.Es))
		for i, e := range t.Es {
			fs[i] = gocql.UDTField{Name: t.Names[i], Type: e.Info(pv)}
		}
		return gocql.UDTTypeInfo{NativeType: gocql.NewNativeType(pv, gocql.TypeUDT, ""), KeySpace: "ks", Name: "u", Elements: fs}
	}
	panic("Info: " + t.K)
}

func (t *Ty) Coq() string {
	switch t.K {
	case "native":
		return fmt.Sprintf("(TNative %d)", t.ID)
	case "list":
		return "(TList " + t.E.Coq() + ")"
	case "set":
		return "(TSet " + t.E.Coq() + ")"
	case "map":
		return "(TMap " + t.Key.Coq() + " " + t.E.Coq() + ")"
	case "tuple":
		ss := make([]string, len(t.Es))
		for i, e := range t.Es {
			ss[i] = e.Coq()
		}
		return "(TTuple " + hlib.List(ss) + ")"
	case "udt":
		ss := make([]string, len(t.Es))
		for i, e := range t.Es {
			ss[i] = hlib.Pair(cstr(t.Names[i]), e.Coq())
		}
		return "(TUdt " + hlib.List(ss) + ")"
	}
	panic("Ty.Coq")
}

func (t *Ty) String() string { return strings.ReplaceAll(t.Coq(), "%nat", "") }

// ---- running the implementation ----------------------------------------------------------------------

const (
	ClsOk = iota
	ClsErr
	ClsPanic
)

func DoMarshal(info gocql.TypeInfo, v interface{}) (out []byte, cls int, msg string) {
	defer func() {
		if r := recover(); r != nil {
			out, cls, msg = nil, ClsPanic, fmt.Sprint(r)
		}
	}()
	b, err := gocql.Marshal(info, v)
	if err != nil {
		return nil, ClsErr, err.Error()
	}
	return b, ClsOk, ""
}

// NewTarget: the value to pass to gocql.Unmarshal for target type t, and a function reading the result.
// Prefill stores an arbitrary NON-zero value of type t into rv: the destination of a decode that already
// holds a different value from an earlier decode (a Scan loop reusing its variables): non-nil maps with
// other keys, slices longer than most decoded values, set pointers, structs with every field set.
func Prefill(rv reflect.Value, t *GTy, ty *Ty) {
	sub := func(f func(*Ty) *Ty) *Ty {
		if ty == nil {
			return nil
		}
		return f(ty)
	}
	switch t.K {
	case "int":
		if t.IK.Signed() {
			rv.SetInt(77)
		} else {
			rv.SetUint(77)
		}
	case "str":
		rv.SetString("old-value")
	case "bytes", "ip":
		rv.SetBytes([]byte{9, 8, 7, 6, 5, 4, 3, 2, 1, 0, 9, 8, 7, 6, 5, 4, 3, 2})
	case "bool":
		rv.SetBool(true)
	case "f32", "f64":
		rv.SetFloat(1.5)
	case "big":
		rv.Set(reflect.ValueOf(*big.NewInt(-123456789)))
	case "dec":
		rv.Set(reflect.ValueOf(*inf.NewDec(12345, 2)))
	case "time":
		rv.Set(reflect.ValueOf(time.Unix(1234567890, 123000000).UTC()))
	case "dur":
		rv.SetInt(123456789)
	case "cqldur":
		rv.Set(reflect.ValueOf(gocql.Duration{Months: 1, Days: 2, Nanoseconds: 3}))
	case "uuid", "arr16":
		for i := 0; i < 16; i++ {
			rv.Index(i).SetUint(uint64(0xf0 + i))
		}
	case "slice":
		n := 5
		sl := reflect.MakeSlice(rv.Type(), n, n)
		for i := 0; i < n; i++ {
			Prefill(sl.Index(i), t.E, sub(func(y *Ty) *Ty { return y.E }))
		}
		rv.Set(sl)
	case "array":
		for i := 0; i < rv.Len(); i++ {
			Prefill(rv.Index(i), t.E, sub(func(y *Ty) *Ty { return y.E }))
		}
	case "map":
		m := reflect.MakeMap(rv.Type())
		k, v := reflect.New(rv.Type().Key()).Elem(), reflect.New(rv.Type().Elem()).Elem()
		Prefill(k, t.Key, sub(func(y *Ty) *Ty { return y.Key }))
		Prefill(v, t.E, sub(func(y *Ty) *Ty { return y.E }))
		m.SetMapIndex(k, v)
		rv.Set(m)
	case "strmap":
		rv.Set(reflect.ValueOf(map[string]interface{}{"zz_old_key": "old-value", "a": int64(77)}))
	case "struct":
		for j := range t.Ts {
			var fty *Ty
			if ty != nil && ty.K == "udt" {
				// a struct field that no UDT field is decoded into keeps its value by design: leave it zero
				later := false
				for k := j + 1; k < len(t.Ts); k++ {
					if t.Tags[j] != "" && t.Tags[k] == t.Tags[j] {
						later = true
					}
				}
				tagged := map[string]bool{}
				for _, tg := range t.Tags {
					if tg != "" {
						tagged[tg] = true
					}
				}
				found := false
				for i, name := range ty.Names {
					if !later && (t.Tags[j] == name || !tagged[name] && t.Names[j] == name) {
						found, fty = true, ty.Es[i]
					}
				}
				if !found {
					continue
				}
			} else if ty != nil && ty.K == "tuple" && j < len(ty.Es) {
				fty = ty.Es[j]
			}
			Prefill(rv.Field(j), t.Ts[j], fty)
		}
	case "ptr":
		p := reflect.New(rv.Type().Elem())
		Prefill(p.Elem(), t.E, ty)
		rv.Set(p)
	case "iface":
		rv.Set(reflect.ValueOf("old-value"))
	}
}

func NewTarget(t *GTy) (interface{}, func() *Val) { return newTarget(t, false, nil) }

// NewTargetPrefilled: as NewTarget, but the destination already holds a value (Prefill)
func NewTargetPrefilled(t *GTy, ty *Ty) (interface{}, func() *Val) { return newTarget(t, true, ty) }

func newTarget(t *GTy, prefill bool, ty *Ty) (interface{}, func() *Val) {
	if t.K == "ifaces" {
		s := make([]interface{}, len(t.Ts))
		ps := make([]reflect.Value, len(t.Ts))
		for i, e := range t.Ts {
			ps[i] = reflect.New(e.RType())
			if prefill {
				var ety *Ty
				if ty != nil && ty.K == "tuple" && i < len(ty.Es) {
					ety = ty.Es[i]
				}
				Prefill(ps[i].Elem(), e, ety)
			}
			s[i] = ps[i].Interface()
		}
		return s, func() *Val {
			v := &Val{K: "ifaces", T: t, L: make([]*Val, len(ps))}
			for i := range ps {
				v.L[i] = FromGo(ps[i].Elem(), t.Ts[i])
			}
			return v
		}
	}
	p := reflect.New(t.RType())
	if prefill {
		Prefill(p.Elem(), t, ty)
	}
	return p.Interface(), func() *Val { return FromGo(p.Elem(), t) }
}

// DoUnmarshal runs gocql.Unmarshal on a private copy of data, then OVERWRITES that copy (0xAA) before the
// decoded value is read back: a decoded value that shares memory with the input buffer (which the framer
// reuses for the next frame) shows up as a changed value.  reread reads the target again later (retained-
// output recheck at the end of the run).
func DoUnmarshal(info gocql.TypeInfo, data []byte, t *GTy) (res *Val, cls int, msg string, reread func() *Val) {
	return doUnmarshal(info, data, t, false, nil)
}

// DoUnmarshalInto: the same into a destination that already holds a different value of the same type
func DoUnmarshalInto(info gocql.TypeInfo, data []byte, t *GTy, ty *Ty) (res *Val, cls int, msg string, reread func() *Val) {
	return doUnmarshal(info, data, t, true, ty)
}

func doUnmarshal(info gocql.TypeInfo, data []byte, t *GTy, prefill bool, ty *Ty) (res *Val, cls int, msg string, reread func() *Val) {
	defer func() {
		if r := recover(); r != nil {
			res, cls, msg, reread = nil, ClsPanic, fmt.Sprint(r), nil
		}
	}()
	var buf []byte
	if data != nil {
		// spare capacity behind the value, as in a frame buffer where other cells follow
		buf = make([]byte, len(data), len(data)+8)
		copy(buf, data)
	}
	tgt, read := newTarget(t, prefill, ty)
	err := gocql.Unmarshal(info, buf, tgt)
	full := buf[:cap(buf)]
	for i := range full {
		full[i] = 0xAA
	}
	if err != nil {
		return nil, ClsErr, err.Error(), nil
	}
	return read(), ClsOk, "", read
}

func MResCoq(out []byte, cls int) string {
	switch cls {
	case ClsErr:
		return "Err"
	case ClsPanic:
		return "Panic"
	}
	if out == nil {
		return "(Ok None)"
	}
	return "(Ok (Some " + hlib.ZList(out) + "))"
}

func UResCoq(v *Val, cls int) string {
	switch cls {
	case ClsErr:
		return "Err"
	case ClsPanic:
		return "Panic"
	}
	return "(Ok " + v.Coq() + ")"
}

func OptBytesCoq(b []byte) string {
	if b == nil {
		return "None"
	}
	return "(Some " + hlib.ZList(b) + ")"
}
