package main

// Seed-independent streams that drive specific sites of the real code with the hostile input that once made them
// panic; a panic is a violation tagged with the finding id, so that a lost fix is reported again.
//
//   typestring-composite-only-collections  compileMetadata / compileV1Metadata with validator, comparator,
//                                          default_validator strings whose parseType result used to have no types
//   scanner-later-page-more-columns        a paged result through Iter.Scanner() whose later page has more /
//                                          fewer columns than the first
//   prepared-pk-index-past-bind-columns    v4 PREPARED with a partition-key index beyond the bind columns, and
//                                          NO_METADATA bind metadata, then Query.GetRoutingKey
//   aggregate-unknown-function             an aggregate row naming a function that is not among the function rows
//   token strings                          system.local / peers rows with malformed tokens for every
//                                          partitioner through hostInfoFromIter and newTokenRing

import (
	"fmt"
	"io/ioutil"
	"log"
	"strings"
	"sync"
	"time"

	"github.com/gocql/gocql"
	"gocqlverif/c04lib"
	"gocqlverif/hlib"
	"gocqlverif/node"
)

// aggregateStreamActive: the aggregate-unknown-function stream reports a violation on the unrepaired tree; it is
// switched on together with the fix work/fixes/aggregate-unknown-function.diff.
var aggregateStreamActive = true

func (h *harness) guarded(entry, finding, input string, f func()) {
	defer func() {
		if p := recover(); p != nil {
			pn := c04lib.Classify(p)
			h.panics[pn.Site+" in "+pn.Func]++
			h.o.Violate(-1, "panic:"+entry, finding, fmt.Sprintf("%s panicked in %s: %s", entry, pn.Func, pn.Value), input)
		}
	}()
	f()
}

func siteStreams(h *harness) {
	o := h.o
	P := c04lib.MarshalPrefix

	// ---- A: schema rows with type strings that have no component type -----------------------------------------
	defs := []string{
		P + "CompositeType(" + P + "ColumnToCollectionType(6162:" + P + "Int32Type))",
		P + "CompositeType(" + P + "ColumnToCollectionType(" + P + "Int32Type))",
		P + "CompositeType(" + P + "ColumnToCollectionType())",
		P + "CompositeType(" + P + "ColumnToCollectionType)",
		P + "CompositeType(" + P + "ColumnToCollectionType(6162:" + P + "ListType(" + P + "Int32Type),6163:" + P + "SetType(" + P + "UTF8Type)))",
		P + "CompositeType(" + P + "ColumnToCollectionType(zz:" + P + "MapType(" + P + "Int32Type)))",
		P + "CompositeType()", P + "CompositeType", P + "CompositeType(", P + "CompositeType(,)", P + "CompositeType(" + P + "ReversedType)",
		P + "CompositeType(" + P + "ReversedType(" + P + "ColumnToCollectionType(61:" + P + "Int32Type)))",
		P + "ReversedType(" + P + "CompositeType(" + P + "ColumnToCollectionType(61:" + P + "Int32Type)))",
		P + "ReversedType()", P + "ReversedType", P + "ListType()", P + "MapType(" + P + "Int32Type)", P + "SetType", P + "ColumnToCollectionType()",
		"CompositeType(ColumnToCollectionType(61:Int32Type))", "", " ", "(", ")", "A(", "A(B:", ",", ":",
		P + "CompositeType(" + P + "UTF8Type," + P + "ColumnToCollectionType(6162:" + P + "ListType(" + P + "Int32Type)))", // well-formed
		P + "CompositeType(" + P + "UTF8Type," + P + "Int32Type)", P + "UTF8Type",
	}
	for _, def := range defs {
		for _, proto := range []int{1, 2, 3, 4} {
			for site := 0; site <= 4; site++ {
				o.Count("schema-row-typestring(monitor-only)")
				h.guarded("compileMetadata", "typestring-composite-only-collections", fmt.Sprintf("protocol %d, site %d (0 column validator, 1 default_validator, 2 comparator, 3 key_validator, 4 all), definition %q", proto, site, def),
					func() { gocql.VerifC05CompileMetadata(proto, site, def) })
			}
		}
	}

	// ---- aggregate rows naming unknown functions ----------------------------------------------------------------
	if aggregateStreamActive {
		for _, c := range []struct {
			funcs        []string
			state, final string
		}{{nil, "s", "f"}, {[]string{"s"}, "s", "f"}, {[]string{"f"}, "s", "f"}, {[]string{"s", "f"}, "s", "f"}, {[]string{"s"}, "s", ""}, {nil, "", ""}, {[]string{"S"}, "s", "s"}} {
			o.Count("schema-row-aggregate(monitor-only)")
			h.guarded("compileMetadata", "aggregate-unknown-function", fmt.Sprintf("function rows %q, aggregate with state_func %q final_func %q", c.funcs, c.state, c.final),
				func() { gocql.VerifC05CompileAggregate(c.funcs, c.state, c.final) })
		}
	}

	// ---- token strings for every partitioner -------------------------------------------------------------------
	tokenSets := [][]string{
		{"0", "42"}, {"-9223372036854775808", "9223372036854775807"}, {"x", "y"}, {"", ""}, {"12", "x"}, {"x", "12"}, {"1.5", "2"}, {"0x10", "7"},
		{"9223372036854775808", "1"}, {"-9223372036854775809", "1"}, {strings.Repeat("9", 400), "1"}, {"170141183460469231731687303715884105728", "5"},
		{"-1", "-2"}, {" 1", "2 "}, {"+1", "2"}, {"١٢", "3"}, {"zz", "00ff", "0g"}, {"abc", "ABC", "6162"}, {"\x00", "\xff\xfe"}, {"1"}, {},
		{"nan", "inf"}, {"1e3", "2"}, {"1_000", "2"}, {"x", "x", "x", "x"},
	}
	parts := []string{"org.apache.cassandra.dht.Murmur3Partitioner", "org.apache.cassandra.dht.RandomPartitioner", "org.apache.cassandra.dht.ByteOrderedPartitioner",
		"org.apache.cassandra.dht.OrderPreservingPartitioner", "com.example.UnknownPartitioner", ""}
	nat := func(id int) *c04lib.SType { return &c04lib.SType{Kind: c04lib.KNative, ID: id} }
	for _, part := range parts {
		for _, toks := range tokenSets {
			set := c04lib.EncInt(len(toks))
			for _, t := range toks {
				set = append(append(set, c04lib.EncInt(len(t))...), t...)
			}
			m := c04lib.SMeta{Global: true, GKS: "system", GTab: "local", Count: 4, Cols: []c04lib.SCol{
				{Name: "rpc_address", Type: nat(16)}, {Name: "host_id", Type: nat(12)}, {Name: "partitioner", Type: nat(13)},
				{Name: "tokens", Type: &c04lib.SType{Kind: c04lib.KSet, Elems: []*c04lib.SType{nat(13)}}}}}
			row := []c04lib.SCell{{Val: c04lib.OptBytes{Val: []byte{10, 0, 0, 7}}}, {Val: c04lib.OptBytes{Val: []byte{1, 2, 3, 4, 5, 6, 0x47, 8, 0x89, 10, 11, 12, 13, 14, 15, 16}}},
				{Val: c04lib.OptBytes{Val: []byte(part)}}, {Val: c04lib.OptBytes{Val: set}}}
			body := (&c04lib.Response{Op: c04lib.OpResult, Result: c04lib.SResult{Kind: c04lib.RRows, Meta: m, Rows: [][]c04lib.SCell{row}}}).EncodeBody(4)
			out := c04lib.Parse(4, 0x84, 0, c04lib.OpResult, body)
			if out.Class != "ok" {
				o.Violate(-1, "host-row-parse", "", "the harness built a rows frame the driver does not parse: "+out.ErrMsg, hlib.ZList(body))
				continue
			}
			o.Count("host-row-tokens(monitor-only)")
			h.guarded("newTokenRing", "", fmt.Sprintf("partitioner %q, tokens %q", part, toks), func() {
				gocql.VerifC05HostRing(out.Framer.Iter(out.Frame), "org.apache.cassandra.dht.Murmur3Partitioner")
			})
		}
	}

	// ---- B and C: a real session against the scripted node -------------------------------------------------------
	intCol := func(name string) c04lib.SCol { return c04lib.SCol{Name: name, Type: nat(9)} }
	intCell := func(x byte) c04lib.SCell { return c04lib.SCell{Val: c04lib.OptBytes{Val: []byte{0, 0, 0, x}}} }
	cols := func(n int) c04lib.SMeta {
		m := c04lib.SMeta{Global: true, GKS: "ks", GTab: "tb", Count: n}
		for i := 0; i < n; i++ {
			m.Cols = append(m.Cols, intCol(fmt.Sprintf("c%d", i)))
		}
		return m
	}
	rowOf := func(n int) []c04lib.SCell {
		r := make([]c04lib.SCell, n)
		for i := range r {
			r[i] = intCell(byte(i))
		}
		return r
	}
	type pagedScen struct{ widths []int } // columns of page 1, 2, ...
	type prepScen struct {
		name string
		req  c04lib.SMeta
		pk   []int
	}
	paged := []pagedScen{{[]int{1, 3}}, {[]int{3, 1}}, {[]int{2, 2}}, {[]int{1, 2, 5}}, {[]int{4, 0, 2}}, {[]int{0, 3}}, {[]int{1, 1000}}}
	preps := []prepScen{
		{"pk-index-1-of-1", cols(1), []int{1}}, {"pk-index-5-of-2", cols(2), []int{0, 5}}, {"pk-index-65535", cols(1), []int{65535}},
		{"pk-index-32768", cols(3), []int{32768, 0}}, {"no-metadata-2-pk-0", c04lib.SMeta{NoMeta: true, Count: 2}, nil},
		{"no-metadata-2-pk-1", c04lib.SMeta{NoMeta: true, Count: 2}, []int{1}}, {"no-metadata-0", c04lib.SMeta{NoMeta: true, Count: 0}, []int{0}},
		{"zero-columns-pk-0", cols(0), []int{0}}, {"well-formed", cols(2), []int{1, 0}},
	}
	const v = 4
	n := node.NewNet()
	nd := n.AddNode("10.0.0.1:9042")
	var mu sync.Mutex
	pagedBy := map[string]*pagedScen{}
	prepBy := map[string]*prepScen{}
	nd.SetHandler(func(c *node.ServerConn, req *node.Request) {
		mu.Lock()
		defer mu.Unlock()
		switch {
		case req.Prepare != nil:
			if sc := prepBy[req.Prepare.Statement]; sc != nil {
				prep := &c04lib.Response{Op: c04lib.OpResult, Result: c04lib.SResult{Kind: c04lib.RPrepared, ID: []byte("id-" + sc.name), Meta: sc.req, PK: sc.pk, RespMeta: c04lib.SMeta{Global: true, GKS: "ks", GTab: "tb"}}}
				c.Reply(req, node.RawMessage{Opcode: node.OpResult, Body: prep.EncodeBody(v)})
				return
			}
			if sc := pagedBy[req.Prepare.Statement]; sc != nil {
				prep := &c04lib.Response{Op: c04lib.OpResult, Result: c04lib.SResult{Kind: c04lib.RPrepared, ID: []byte(req.Prepare.Statement), Meta: c04lib.SMeta{Global: true, GKS: "ks", GTab: "tb"}, RespMeta: cols(sc.widths[0])}}
				c.Reply(req, node.RawMessage{Opcode: node.OpResult, Body: prep.EncodeBody(v)})
				return
			}
		case req.Execute != nil:
			if strings.HasPrefix(string(req.Execute.ID), "id-") { // a prepared scenario: nothing to return
				c.Reply(req, node.Void{})
				return
			}
			if sc := pagedBy[string(req.Execute.ID)]; sc != nil {
				page := 0
				if req.Execute.Params.HasPagingState && len(req.Execute.Params.PagingState) == 1 {
					page = int(req.Execute.Params.PagingState[0])
				}
				if page >= len(sc.widths) {
					page = len(sc.widths) - 1
				}
				m := cols(sc.widths[page])
				if page+1 < len(sc.widths) {
					m.HasPaging, m.Paging = true, []byte{byte(page + 1)}
				}
				rows := [][]c04lib.SCell{rowOf(sc.widths[page]), rowOf(sc.widths[page])}
				if sc.widths[page] == 0 {
					rows = nil
				}
				body := (&c04lib.Response{Op: c04lib.OpResult, Result: c04lib.SResult{Kind: c04lib.RRows, Meta: m, Rows: rows}}).EncodeBody(v)
				c.Reply(req, node.RawMessage{Opcode: node.OpResult, Body: body})
				return
			}
		}
		nd.Default(c, req)
	})
	cfg := gocql.NewCluster("10.0.0.1:9042")
	cfg.Dialer = n.Dialer()
	cfg.ProtoVersion = v
	cfg.Timeout = 2 * time.Second
	cfg.ConnectTimeout = 2 * time.Second
	cfg.NumConns = 1
	cfg.DisableInitialHostLookup = true
	cfg.Consistency = gocql.One
	cfg.Logger = log.New(ioutil.Discard, "", 0)
	s, err := gocql.NewSession(*cfg)
	if err != nil {
		o.Violate(-1, "child-failed", "", fmt.Sprintf("NewSession against the scripted node: %v", err), nil)
		return
	}
	defer s.Close()
	for i := range paged {
		sc := &paged[i]
		stmt := fmt.Sprintf("SELECT * FROM ks.paged%d", i)
		mu.Lock()
		pagedBy[stmt] = sc
		mu.Unlock()
		for _, consumer := range []string{"Scanner", "Scan", "MapScan", "SliceMap"} {
			o.Count("paged-column-count(monitor-only)")
			h.guarded("Iter."+consumer, "scanner-later-page-more-columns", fmt.Sprintf("pages with %v columns (full metadata on every page), consumer %s", sc.widths, consumer), func() {
				it := s.Query(stmt).NoSkipMetadata().PageSize(2).Iter()
				defer it.Close()
				switch consumer {
				case "Scanner":
					// the Scanner moves to the Iter of the next page by itself: the number of destinations of a row
					// is the column count of the page it comes from (two rows per page, none for a page without columns)
					var widthOfRow []int
					for _, w := range sc.widths {
						if w > 0 {
							widthOfRow = append(widthOfRow, w, w)
						}
					}
					scn := it.Scanner()
					for i := 0; i < len(widthOfRow) && scn.Next(); i++ {
						dests := make([]interface{}, widthOfRow[i])
						for j := range dests {
							dests[j] = new(int)
						}
						scn.Scan(dests...)
					}
					scn.Err()
				case "Scan":
					for i := 0; i < 64; i++ {
						rd, err := it.RowData()
						if err != nil || !it.Scan(rd.Values...) {
							break
						}
					}
				case "MapScan":
					for i := 0; i < 64 && it.MapScan(map[string]interface{}{}); i++ {
					}
				default:
					it.SliceMap()
				}
			})
		}
	}
	for i := range preps {
		sc := &preps[i]
		stmt := fmt.Sprintf("SELECT * FROM ks.tb WHERE scenario = '%s' AND a = ? AND b = ?", sc.name)
		mu.Lock()
		prepBy[stmt] = sc
		mu.Unlock()
		// the application binds as many values as the PREPARED response counts columns (fewer is the caller's own
		// error: createRoutingKey indexes the values it was given), or one more
		for nvals := sc.req.Count; nvals <= sc.req.Count+1; nvals++ {
			vals := make([]interface{}, nvals)
			for j := range vals {
				vals[j] = j
			}
			o.Count("routing-key(monitor-only)")
			h.guarded("Query.GetRoutingKey", "prepared-pk-index-past-bind-columns", fmt.Sprintf("PREPARED %s (pk indexes %v), %d values bound", sc.name, sc.pk, nvals), func() {
				s.Query(stmt, vals...).GetRoutingKey()
			})
			h.guarded("Query.Exec", "prepared-pk-index-past-bind-columns", fmt.Sprintf("PREPARED %s (pk indexes %v), %d values bound, Exec", sc.name, sc.pk, nvals), func() {
				s.Query(stmt, vals...).Exec()
			})
		}
	}
}
