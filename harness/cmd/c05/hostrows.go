package main

// The host-row decoders: system.local / system.peers rows as column values from the network.
//
// hostInfoFromIter / hostInfoFromMap (host_source.go) run on the NewSession caller's goroutine, on the ring
// refresh and on control-connection reconnects; cassVersion parses the release_version column.  Rows frames with
// every column the driver reads are built by the spec encoder and fed through the real parseFrame + SliceMap +
// hostInfoFromMap (shim verif_shim_c05.go) under recover: NULL in every column, every column with a value of a
// wrong CQL type, inet columns of every wrong length, release_version strings with 0..6 components, non-numeric
// parts, huge numbers, suffixes, empty; tokens null / empty / huge; columns left out.  Monitor: no panic.
// A sample goes through a real NewSession against the scripted node in a child process.

import (
	"fmt"
	"net"
	"strings"
	"time"

	"github.com/gocql/gocql"
	"gocqlverif/c04lib"
	"gocqlverif/hlib"
	"gocqlverif/node"
)

var releaseVersions = func() []string {
	vs := []string{"", " ", ".", "..", "...", "v", "v.", "-SNAPSHOT", "3", "3.", ".3", "3.11", "3.11.", "3.11.10", "3.11.10.", "4.0.0.2284",
		"1.2.3.4.5", "1.2.3.4.5.6", "1.2.3.4.5.6.7", "v3.11.10", "vv3.11", "3.11.10-SNAPSHOT", "3.11-SNAPSHOT", "4.0-rc1", "4.0.0-beta4", "4.0.0~alpha",
		"a.b.c", "3.x", "x.11", "3.11.x", "3.11.10.x", "3,11,10", "3 .11", "+3.-11", "-1.-1.-1", "0.0.0", "00.00.00",
		"99999999999999999999.1.1", "1.99999999999999999999", "1.1.99999999999999999999", "1.1.1.99999999999999999999", "2147483648.0.0",
		"9223372036854775807.9223372036854775807.9223372036854775807", "3.11.10\x00", "\xff.\xfe", "3.11.10 ", "٣.١١", "3..10", "3.11..", "...."}
	for n := 0; n <= 8; n++ { // n components
		parts := make([]string, n)
		for i := range parts {
			parts[i] = fmt.Sprint(i + 1)
		}
		vs = append(vs, strings.Join(parts, "."), strings.Join(parts, ".")+"-SNAPSHOT", "v"+strings.Join(parts, "."))
	}
	vs = append(vs, strings.Repeat("1.", 1000)+"1", strings.Repeat("9", 5000)+".1", "1."+strings.Repeat("x", 5000))
	return vs
}()

func hostRows(h *harness) {
	o := h.o
	g := h.g
	nat := func(id int) *c04lib.SType { return &c04lib.SType{Kind: c04lib.KNative, ID: id} }
	coll := func(kind int, es ...*c04lib.SType) *c04lib.SType { return &c04lib.SType{Kind: kind, Elems: es} }
	const (
		tVarchar, tInt, tBool, tUUID, tInet, tBlob, tBigint, tTimeuuid = 13, 9, 4, 12, 16, 3, 2, 15
	)
	type column struct {
		name string
		typ  *c04lib.SType
		val  []byte
	}
	text := func(s string) []byte { return []byte(s) }
	uuid := []byte{0x8d, 0x5e, 0x6b, 0x1c, 0x11, 0x22, 0x43, 0x44, 0x85, 0x66, 0x77, 0x88, 0x99, 0xaa, 0xbb, 0xcc}
	setOf := func(ss ...string) []byte {
		out := c04lib.EncInt(len(ss))
		for _, s := range ss {
			out = append(append(out, c04lib.EncInt(len(s))...), s...)
		}
		return out
	}
	base := []column{
		{"key", nat(tVarchar), text("local")},
		{"peer", nat(tInet), []byte{10, 0, 0, 2}},
		{"preferred_ip", nat(tInet), []byte{10, 0, 0, 3}},
		{"broadcast_address", nat(tInet), []byte{10, 0, 0, 4}},
		{"listen_address", nat(tInet), []byte{10, 0, 0, 5}},
		{"rpc_address", nat(tInet), []byte{10, 0, 0, 6}},
		{"native_address", nat(tInet), []byte{0x20, 1, 0xd, 0xb8, 0, 0, 0, 0, 0, 0, 0, 0, 0, 0, 0, 1}},
		{"native_port", nat(tInt), []byte{0, 0, 0x23, 0x52}},
		{"cluster_name", nat(tVarchar), text("Test Cluster")},
		{"data_center", nat(tVarchar), text("dc1")},
		{"rack", nat(tVarchar), text("rack1")},
		{"host_id", nat(tUUID), uuid},
		{"schema_version", nat(tUUID), uuid},
		{"partitioner", nat(tVarchar), text("org.apache.cassandra.dht.Murmur3Partitioner")},
		{"release_version", nat(tVarchar), text("3.11.10")},
		{"dse_version", nat(tVarchar), text("6.8.1")},
		{"workload", nat(tVarchar), text("Cassandra")},
		{"graph", nat(tBool), []byte{1}},
		{"tokens", coll(c04lib.KSet, nat(tVarchar)), setOf("-9223372036854775808", "0", "42")},
	}
	// a value of every "wrong" type
	wrong := []column{
		{"", nat(tVarchar), text("text")}, {"", nat(tInt), []byte{0, 0, 0, 7}}, {"", nat(tBool), []byte{0}}, {"", nat(tUUID), uuid},
		{"", nat(tInet), []byte{1, 2, 3, 4}}, {"", nat(tBlob), []byte{1, 2, 3}}, {"", nat(tBigint), []byte{0, 0, 0, 0, 0, 0, 0, 9}},
		{"", nat(tTimeuuid), uuid}, {"", coll(c04lib.KSet, nat(tVarchar)), setOf("a")}, {"", coll(c04lib.KList, nat(tInt)), append(c04lib.EncInt(1), 0, 0, 0, 4, 0, 0, 0, 1)},
		{"", coll(c04lib.KMap, nat(tVarchar), nat(tVarchar)), append(c04lib.EncInt(1), 0, 0, 0, 1, 'k', 0, 0, 0, 1, 'v')},
		{"", coll(c04lib.KTuple, nat(tInt), nat(tVarchar)), []byte{0, 0, 0, 4, 0, 0, 0, 1, 0, 0, 0, 1, 'x'}},
	}
	nrows := 0
	try := func(label string, cols []column, nulls map[string]bool, extraRows int) {
		m := c04lib.SMeta{Global: true, GKS: "system", GTab: "local", Count: len(cols)}
		row := make([]c04lib.SCell, len(cols))
		for i, c := range cols {
			m.Cols = append(m.Cols, c04lib.SCol{Name: c.name, Type: c.typ})
			switch {
			case nulls[c.name]:
				row[i] = c04lib.SCell{Val: c04lib.OptBytes{Null: true}}
				if c.typ.Kind == c04lib.KTuple {
					row[i] = c04lib.SCell{IsTuple: true, Null: true}
				}
			case c.typ.Kind == c04lib.KTuple:
				// the value bytes are the concatenated [bytes] of the components: keep them as given
				row[i] = c04lib.SCell{IsTuple: true, Comps: []c04lib.OptBytes{{Val: []byte{0, 0, 0, 1}}, {Val: []byte("x")}}}
			default:
				v := c.val
				if v == nil {
					v = []byte{}
				}
				row[i] = c04lib.SCell{Val: c04lib.OptBytes{Val: v}}
			}
		}
		rows := [][]c04lib.SCell{row}
		for i := 0; i < extraRows; i++ {
			rows = append(rows, row)
		}
		for _, v := range []int{3, 4} {
			body := (&c04lib.Response{Op: c04lib.OpResult, Result: c04lib.SResult{Kind: c04lib.RRows, Meta: m, Rows: rows}}).EncodeBody(v)
			out := c04lib.Parse(v, 0x80|v, 0, c04lib.OpResult, body)
			if out.Class != "ok" {
				o.Violate(-1, "host-row-parse", "", "the harness built a rows frame the driver does not parse: "+out.ErrMsg, hlib.ZList(body))
				return
			}
			nrows++
			o.Count("host-row(monitor-only)")
			func() {
				defer func() {
					if p := recover(); p != nil {
						h.reportPanic(-1, "hostInfoFromIter", c04lib.Classify(p), fmt.Sprintf("%s (protocol %d) body %s", label, v, hlib.ZList(body)))
					}
				}()
				_, err := gocql.VerifC05HostFromIter(out.Framer.Iter(out.Frame))
				if err != nil {
					o.Count("host-row-result:error")
				} else {
					o.Count("host-row-result:ok")
				}
			}()
		}
	}
	with := func(name string, c column) []column {
		out := make([]column, len(base))
		copy(out, base)
		for i := range out {
			if out[i].name == name {
				out[i].typ, out[i].val = c.typ, c.val
			}
		}
		return out
	}
	try("all columns", base, nil, 0)
	try("all columns, three rows", base, nil, 2)
	all := map[string]bool{}
	for i, c := range base {
		all[c.name] = true
		try("NULL in "+c.name, base, map[string]bool{c.name: true}, 0)
		try("without "+c.name, append(append([]column{}, base[:i]...), base[i+1:]...), nil, 0)
		try("only "+c.name, []column{c}, nil, 0)
		for _, w := range wrong {
			try(fmt.Sprintf("%s with a value of type %s", c.name, c04lib.CoqTInfo(c04lib.TypeInfoOf(4, w.typ))), with(c.name, w), nil, 0)
		}
		if c.typ.Kind == c04lib.KNative && c.typ.ID == tInet {
			for _, n := range []int{0, 1, 3, 5, 8, 15, 17, 32} {
				try(fmt.Sprintf("%s of %d bytes", c.name, n), with(c.name, column{typ: c.typ, val: make([]byte, n)}), nil, 0)
			}
			for _, ip := range [][]byte{{0, 0, 0, 0}, make([]byte, 16), {255, 255, 255, 255}} {
				try(fmt.Sprintf("%s = %v", c.name, net.IP(ip)), with(c.name, column{typ: c.typ, val: ip}), nil, 0)
			}
		}
		if c.typ.Kind == c04lib.KNative && c.typ.ID == tUUID {
			for _, n := range []int{0, 1, 15, 17} {
				try(fmt.Sprintf("%s of %d bytes", c.name, n), with(c.name, column{typ: c.typ, val: make([]byte, n)}), nil, 0)
			}
		}
	}
	try("every column NULL", base, all, 0)
	try("no columns", nil, nil, 0)
	for _, rv := range releaseVersions {
		try(fmt.Sprintf("release_version %q", rv), with("release_version", column{typ: nat(tVarchar), val: text(rv)}), nil, 0)
		try(fmt.Sprintf("dse_version %q", rv), with("dse_version", column{typ: nat(tVarchar), val: text(rv)}), nil, 0)
		o.Count("release-version(monitor-only)")
		func() {
			defer func() {
				if p := recover(); p != nil {
					h.reportPanic(-1, "cassVersion.Set", c04lib.Classify(p), fmt.Sprintf("release_version %q", rv))
				}
			}()
			gocql.VerifC05ParseVersion(rv)
		}()
	}
	for _, tk := range [][]byte{setOf(), setOf(""), setOf(strings.Repeat("9", 10000)), setOf("x", "y", "-"), c04lib.EncInt(1000000), {0, 0}, {}} {
		try(fmt.Sprintf("tokens %x", tk[:min(len(tk), 24)]), with("tokens", column{typ: coll(c04lib.KSet, nat(tVarchar)), val: tk}), nil, 0)
	}
	for i := 0; i < 60*o.Scale; i++ { // random combinations
		cols := make([]column, 0, len(base))
		nulls := map[string]bool{}
		for _, c := range base {
			switch g.R.Intn(8) {
			case 0:
				continue
			case 1:
				nulls[c.name] = true
			case 2:
				w := wrong[g.R.Intn(len(wrong))]
				c.typ, c.val = w.typ, w.val
			case 3:
				c.val = g.R.Bytes(g.R.Intn(20))
			}
			if c.name == "release_version" && g.R.Chance(50) {
				c.typ, c.val = nat(tVarchar), text(releaseVersions[g.R.Intn(len(releaseVersions))])
			}
			cols = append(cols, c)
		}
		try("random combination", cols, nulls, g.R.Intn(2))
	}
	// hostInfoFromMap with Go values a MapScan can never produce but a caller of the exported API could (defensive)
	for _, row := range []map[string]interface{}{{}, {"peer": nil}, {"tokens": nil}, {"release_version": nil}, {"host_id": "x"}, {"native_port": int64(1)}, {"rpc_address": "not an address"}} {
		func() {
			defer func() {
				if p := recover(); p != nil {
					h.reportPanic(-1, "hostInfoFromMap", c04lib.Classify(p), fmt.Sprintf("%v", row))
				}
			}()
			gocql.VerifC05HostFromMap(row)
			o.Count("host-map(monitor-only)")
		}()
	}
	o.Extra["host_rows"] = fmt.Sprintf("%d rows frames through hostInfoFromIter, %d release_version strings", nrows, len(releaseVersions))
}

func min(a, b int) int {
	if a < b {
		return a
	}
	return b
}

// childHostVersion: NewSession against a node whose system.local (and one extra system.peers row) announce the
// given release_version; then a ring refresh through a query.
func childHostVersion(local, peer string) {
	n := node.NewNet()
	nd := n.AddNode("10.0.0.1:9042")
	nd.Update(func(cfg *node.Config) {
		cfg.ReleaseVersion = local
		cfg.ExtraPeers = []node.Peer{{Peer: net.IPv4(10, 0, 0, 9), RPCAddress: net.IPv4(10, 0, 0, 9), DataCenter: "dc1", Rack: "r1",
			HostID: "8d5e6b1c-1122-4344-8566-778899aabbcc", Tokens: []string{"77"}, ReleaseVersion: peer, SchemaVersion: "8d5e6b1c-1122-4344-8566-778899aabbcd"}}
	})
	cfg := childCluster(n, nil)
	cfg.DisableInitialHostLookup = false
	cfg.Timeout = time.Second
	s, err := gocql.NewSession(*cfg)
	if err != nil {
		say("OUT error %v", err)
		return
	}
	err = s.Query("SELECT key FROM system.local").Exec()
	say("OUT ok query=%v", err)
	s.Close()
}
