package main

// Connection-level part of C05: what the driver's own goroutines do with a frame KIND they do not expect.
//
// The startup coordinator (conn.go: options -> startup -> authenticateHandshake) and Conn.heartBeat run on
// goroutines without a recover, so a panic there ends the process.  Each scenario therefore runs in a child
// process (this binary re-executed with C05_CHILD set): a scripted node answers the handshake requests of the
// first connection (or the first heartbeat OPTIONS of an established connection) with a given sequence of frame
// kinds, the child reports what NewSession returned, and the parent classifies exit status and stderr.

import (
	"bytes"
	"context"
	"errors"
	"fmt"
	"io/ioutil"
	"log"
	"net"
	"os"
	"os/exec"
	"strings"
	"sync"
	"time"

	"github.com/gocql/gocql"
	"gocqlverif/hlib"
	"gocqlverif/node"
)

// frame kinds a node can answer with (Coq: C05.Conn.fkind)
var connKinds = []string{"ready", "authenticate", "authenticate-x", "challenge", "success", "supported", "error", "result", "event", "bad"}

var kindCoq = map[string]string{"ready": "KReady", "authenticate": "(KAuthenticate true)", "authenticate-x": "(KAuthenticate false)",
	"challenge": "KAuthChallenge", "success": "KAuthSuccess", "supported": "KSupported", "error": "KErrorF", "result": "KOther",
	"event": "KOther", "bad": "KBad"}

const passwordClass = "org.apache.cassandra.auth.PasswordAuthenticator"

func kindMsg(k string) node.Message {
	switch k {
	case "ready":
		return node.Ready{}
	case "authenticate":
		return node.Authenticate{Class: passwordClass}
	case "authenticate-x":
		return node.Authenticate{Class: "com.example.NoSuchAuthenticator"}
	case "challenge":
		return node.AuthChallenge{Token: []byte("again")}
	case "success":
		return node.AuthSuccess{}
	case "supported":
		return node.Supported{Options: map[string][]string{"CQL_VERSION": {"3.4.4"}, "COMPRESSION": {"snappy"}}}
	case "error":
		return node.Error{Code: 0x0000, Message: "scripted"}
	case "result":
		return node.Void{}
	case "event":
		return node.StatusChangeEvent{Change: "UP", IP: net.IPv4(10, 0, 0, 9), Port: 9042}
	case "bad":
		return node.RawMessage{Opcode: node.OpSupported, Body: []byte{0, 3, 0}} // a multimap that ends early
	}
	panic("kind " + k)
}

// ---- authenticators ---------------------------------------------------------------------------------------

// scriptAuth: the Authenticator a user could write.  chal0: the first Challenge returns a challenger;
// next: the challenger's Challenge returns a challenger again; chalOK / succOK: those callbacks return no error.
type scriptAuth struct{ initOK, chal0, next, chalOK, succOK bool }

func (a scriptAuth) Challenge(req []byte) ([]byte, gocql.Authenticator, error) {
	if !a.initOK {
		return nil, nil, errors.New("scriptAuth: class refused")
	}
	if a.chal0 {
		return []byte("r0"), scriptChallenger(a), nil
	}
	return []byte("r0"), nil, nil
}
func (a scriptAuth) Success([]byte) error { return nil }

type scriptChallenger scriptAuth

func (a scriptChallenger) Challenge(req []byte) ([]byte, gocql.Authenticator, error) {
	if !a.chalOK {
		return nil, nil, errors.New("scriptAuth: challenge refused")
	}
	if a.next {
		return []byte("r"), a, nil
	}
	return []byte("r"), nil, nil
}
func (a scriptChallenger) Success([]byte) error {
	if !a.succOK {
		return errors.New("scriptAuth: final token refused")
	}
	return nil
}

func bit(b bool) byte {
	if b {
		return '1'
	}
	return '0'
}

// authOf: "none", "password", "custom-<initOK><chal0><next><chalOK><succOK>"
func authOf(name string) gocql.Authenticator {
	switch {
	case name == "none":
		return nil
	case name == "password":
		return gocql.PasswordAuthenticator{Username: "u", Password: "p"}
	case strings.HasPrefix(name, "custom-"):
		b := name[len("custom-"):]
		return scriptAuth{b[0] == '1', b[1] == '1', b[2] == '1', b[3] == '1', b[4] == '1'}
	}
	panic("auth " + name)
}

// authCoq: the model's view of an authenticator.  For PasswordAuthenticator the class check is what decides
// init (the node's "authenticate" kind announces the approved class, "authenticate-x" an unknown one).
func authCoq(name string) string {
	switch {
	case name == "none":
		return "NoAuth"
	case name == "password":
		return "PasswordAuth"
	}
	b := name[len("custom-"):]
	f := func(i int) string { return hlib.Bool(b[i] == '1') }
	return fmt.Sprintf("(CustomAuth %s %s %s %s %s)", f(0), f(1), f(2), f(3), f(4))
}

// ---- the child ----------------------------------------------------------------------------------------------

func childCluster(n *node.Net, auth gocql.Authenticator) *gocql.ClusterConfig {
	cfg := gocql.NewCluster("10.0.0.1:9042")
	cfg.Dialer = n.Dialer()
	cfg.ProtoVersion = 4
	cfg.Timeout = 400 * time.Millisecond
	cfg.ConnectTimeout = 400 * time.Millisecond
	cfg.NumConns = 1
	cfg.DisableInitialHostLookup = true
	cfg.Authenticator = auth
	cfg.Logger = log.New(ioutil.Discard, "", 0)
	cfg.ReconnectInterval = 0
	return cfg
}

var errMu sync.Mutex

func say(format string, args ...interface{}) {
	errMu.Lock()
	fmt.Fprintf(os.Stderr, format+"\n", args...)
	errMu.Unlock()
}

func isHandshakeOp(op byte) bool {
	return op == node.OpOptions || op == node.OpStartup || op == node.OpAuthResponse
}

// childHandshake: the i-th handshake request of connection 0 is answered with script[i]; once the script is used
// up handshake requests stay unanswered (the driver's connect timeout ends the attempt).
func childHandshake(auth string, script []string) {
	n := node.NewNet()
	nd := n.AddNode("10.0.0.1:9042")
	var mu sync.Mutex
	idx := 0
	nd.SetHandler(func(c *node.ServerConn, req *node.Request) {
		if c.Index() == 0 && isHandshakeOp(req.Op()) {
			say("REQ %s", node.OpName(req.Op()))
			mu.Lock()
			i := idx
			idx++
			mu.Unlock()
			if i < len(script) {
				c.Reply(req, kindMsg(script[i]))
			}
			return
		}
		nd.Default(c, req)
	})
	s, err := gocql.NewSession(*childCluster(n, authOf(auth)))
	if err != nil {
		say("OUT error %v", err)
		return
	}
	say("OUT ok")
	s.Close()
}

// childHeartbeat: a session is established against the default node; then the first heartbeat round (1 s after a
// connection was made) is answered with the given kind: on the control connection (connection 0, which is
// pinged by Conn.heartBeat and by controlConn.heartBeat: both OPTIONS of the round get the kind) or on the pool
// connection (Conn.heartBeat only).  Later rounds get SUPPORTED.  The child reports whether the session still works.
func childHeartbeat(target, kind string) {
	n := node.NewNet()
	nd := n.AddNode("10.0.0.1:9042")
	var mu sync.Mutex
	beats := map[int]int{}
	nd.SetHandler(func(c *node.ServerConn, req *node.Request) {
		if req.Op() == node.OpOptions && c.StartupOptions() != nil {
			mu.Lock()
			k := beats[c.Index()]
			beats[c.Index()]++
			mu.Unlock()
			say("HB %d %d", c.Index(), k)
			if (target == "control" && c.Index() == 0 && k < 2) || (target == "pool" && c.Index() == 1 && k < 1) {
				c.Reply(req, kindMsg(kind))
				return
			}
		}
		nd.Default(c, req)
	})
	cfg := childCluster(n, nil)
	cfg.Timeout = 2 * time.Second
	s, err := gocql.NewSession(*cfg)
	if err != nil {
		say("OUT error %v", err)
		return
	}
	time.Sleep(1600 * time.Millisecond)
	closed := nd.ClosedConns()
	err = s.Query("SELECT key FROM system.local").Exec()
	say("OUT alive closed=%d query=%v", closed, err)
	s.Close()
}

func childMain(spec string) {
	p := strings.Split(spec, ":")
	switch p[0] {
	case "hs":
		var script []string
		if p[2] != "" {
			script = strings.Split(p[2], ",")
		}
		childHandshake(p[1], script)
	case "hb":
		childHeartbeat(p[1], p[2])
	case "host":
		childHostVersion(p[1], p[2])
	default:
		say("OUT badspec")
		os.Exit(3)
	}
	os.Exit(0)
}

// ---- the parent ---------------------------------------------------------------------------------------------

type childResult struct {
	spec    string
	outcome string // ok | error | alive | crash | hang | broken
	detail  string
	reqs    []string // handshake requests seen by the node on connection 0
	closed  int      // heartbeat: connections the driver closed
}

func runChild(spec string, timeout time.Duration) childResult {
	res := childResult{spec: spec}
	exe, err := os.Executable()
	if err != nil {
		res.outcome, res.detail = "broken", err.Error()
		return res
	}
	ctx, cancel := context.WithTimeout(context.Background(), timeout)
	defer cancel()
	cmd := exec.CommandContext(ctx, exe)
	cmd.Env = append(os.Environ(), "C05_CHILD="+spec)
	var stderr bytes.Buffer
	cmd.Stderr = &stderr
	runErr := cmd.Run()
	text := stderr.String()
	for _, ln := range strings.Split(text, "\n") {
		switch {
		case strings.HasPrefix(ln, "REQ "):
			res.reqs = append(res.reqs, ln[4:])
		case strings.HasPrefix(ln, "OUT ok"):
			res.outcome = "ok"
		case strings.HasPrefix(ln, "OUT error"):
			res.outcome, res.detail = "error", ln[len("OUT error "):]
		case strings.HasPrefix(ln, "OUT alive"):
			res.outcome, res.detail = "alive", ln[len("OUT alive "):]
			fmt.Sscanf(res.detail, "closed=%d", &res.closed)
		}
	}
	if ctx.Err() != nil {
		res.outcome, res.detail = "hang", "child did not finish within "+timeout.String()
		return res
	}
	if runErr != nil {
		// a Go process that dies of an unrecovered panic exits with status 2 after printing "panic: ..." and the stacks
		if i := strings.Index(text, "panic: "); i >= 0 {
			end := strings.Index(text[i:], "\n\n")
			if end < 0 || end > 1500 {
				end = len(text[i:])
				if end > 1500 {
					end = 1500
				}
			}
			res.outcome, res.detail = "crash", text[i:i+end]
			if j := strings.Index(text, "gocql.(*"); j >= 0 {
				k := strings.IndexAny(text[j:], "(\n ")
				if k2 := strings.Index(text[j:], ")"); k2 > 0 {
					k = k2 + 1 + strings.IndexAny(text[j+k2+1:], "(\n ")
				}
				res.detail += " [in " + text[j:j+k] + "]"
			}
		} else {
			res.outcome, res.detail = "broken", runErr.Error()+": "+text
		}
	}
	return res
}

func runChildren(specs []string, timeout time.Duration, par int) []childResult {
	out := make([]childResult, len(specs))
	sem := make(chan struct{}, par)
	var wg sync.WaitGroup
	for i, sp := range specs {
		wg.Add(1)
		sem <- struct{}{}
		go func(i int, sp string) {
			defer wg.Done()
			out[i] = runChild(sp, timeout)
			<-sem
		}(i, sp)
	}
	wg.Wait()
	return out
}

// ---- scenarios ------------------------------------------------------------------------------------------------

func procCoq(outcome string) string {
	switch outcome {
	case "ok", "alive":
		return "PEstablished"
	case "error":
		return "PError"
	}
	return "PCrashed"
}

func kindsCoq(ks []string) string {
	out := make([]string, len(ks))
	for i, k := range ks {
		out[i] = kindCoq[k]
	}
	return hlib.List(out)
}

// connScenarios runs the handshake and heartbeat scenarios, each in a child process.  Monitor: the child must
// neither die of a panic nor hang, and the handshake requests must be OPTIONS, STARTUP, AUTH_RESPONSE*.
// Every scenario is also a Coq case: the state machines of C05/Conn.v must predict the outcome (established /
// error / crashed), the number of handshake requests, and whether a heartbeat reply costs a connection.
func connScenarios(o *hlib.Out) {
	r := hlib.NewRng(o.Seed + 4242)
	type hsc struct {
		auth   string
		script []string
	}
	var hs []hsc
	add := func(auth string, prefix []string, last string) {
		hs = append(hs, hsc{auth, append(append([]string{}, prefix...), last)})
	}
	for _, k := range connKinds {
		add("none", nil, k)
		for _, a := range []string{"none", "password"} {
			add(a, []string{"supported"}, k)
		}
		for _, a := range []string{"password", "custom-11111", "custom-10111"} {
			add(a, []string{"supported", "authenticate"}, k)
		}
		for _, a := range []string{"custom-11111", "custom-11011"} {
			add(a, []string{"supported", "authenticate", "challenge"}, k)
		}
	}
	hs = append(hs, hsc{"password", nil}, hsc{"password", []string{"supported"}}, hsc{"password", []string{"supported", "authenticate"}})
	// every callback of a user authenticator failing once: first Challenge, challenger.Challenge, Success
	for _, a := range []string{"custom-01111", "custom-11101", "custom-11110", "custom-10110", "custom-11010"} {
		hs = append(hs, hsc{a, []string{"supported", "authenticate", "success"}},
			hsc{a, []string{"supported", "authenticate", "challenge", "success"}},
			hsc{a, []string{"supported", "authenticate", "challenge", "challenge", "success"}})
	}
	randAuth := func() string {
		switch r.Intn(4) {
		case 0:
			return "none"
		case 1:
			return "password"
		}
		b := []byte("custom-11111")
		for i := 7; i < 12; i++ {
			b[i] = bit(!r.Chance(25))
		}
		return string(b)
	}
	for i := 0; i < 24*o.Scale; i++ {
		// a plausible conversation with one or two kinds replaced
		sc := []string{"supported", "authenticate"}
		for j := r.Intn(4); j > 0; j-- {
			sc = append(sc, "challenge")
		}
		sc = append(sc, "success")
		if r.Chance(30) {
			sc = []string{"supported", "ready"}
		}
		for j := 0; j < 1+r.Intn(2); j++ {
			sc[r.Intn(len(sc))] = connKinds[r.Intn(len(connKinds))]
		}
		hs = append(hs, hsc{randAuth(), sc})
	}
	specs := make([]string, len(hs))
	for i, s := range hs {
		specs[i] = "hs:" + s.auth + ":" + strings.Join(s.script, ",")
	}
	type hbc struct{ target, kind string }
	var hb []hbc
	for _, t := range []string{"pool", "control"} {
		for _, k := range connKinds {
			hb = append(hb, hbc{t, k})
		}
	}
	for _, b := range hb {
		specs = append(specs, "hb:"+b.target+":"+b.kind)
	}
	res := runChildren(specs, 30*time.Second, 12)
	crashes := 0
	for i, cr := range res {
		var idx int
		if i < len(hs) {
			idx = o.Case("handshake", true, fmt.Sprintf("CHandshake %s %s %s %s", authCoq(hs[i].auth), kindsCoq(hs[i].script), procCoq(cr.outcome), hlib.Nat(len(cr.reqs))))
		} else {
			b := hb[i-len(hs)]
			idx = o.Case("heartbeat", true, fmt.Sprintf("CHeartbeat %s %s %s %s", hlib.Bool(b.target == "control"), kindCoq[b.kind], procCoq(cr.outcome), hlib.Bool(cr.closed > 0 || cr.outcome == "crash")))
		}
		switch cr.outcome {
		case "crash":
			crashes++
			what := "handshake"
			if i >= len(hs) {
				what = "heartbeat"
			}
			o.Violate(idx, "panic:"+what, "", "the process died of a panic on a driver goroutine: "+cr.detail, cr.spec)
		case "hang", "broken", "":
			o.Violate(idx, "child-failed", "", fmt.Sprintf("scenario child: %s %s", cr.outcome, cr.detail), cr.spec)
		}
		if i < len(hs) {
			for j, rq := range cr.reqs {
				want := "AUTH_RESPONSE"
				if j == 0 {
					want = "OPTIONS"
				} else if j == 1 {
					want = "STARTUP"
				}
				if rq != want {
					o.Violate(idx, "handshake-request-order", "", fmt.Sprintf("request %d of the handshake is %s, expected %s", j, rq, want), cr.spec)
					break
				}
			}
		}
	}
	o.Extra["conn_scenarios"] = fmt.Sprintf("%d child processes (%d handshake, %d heartbeat), %d died of a panic", len(res), len(hs), len(hb), crashes)
}

// hostChildScenarios: a sample of release_version values through a real NewSession (system.local of the contact
// point, a system.peers row, the ring refresh), each in a child process: a panic in hostInfoFromMap kills it.
func hostChildScenarios(o *hlib.Out) {
	var specs []string
	for _, v := range []string{"3.11.10", "4.0.0.2284", "", "x", "3", "1.2.3.4.5", "3.11.10-SNAPSHOT", "v4.1", "2.1.99999999999999999999"} {
		specs = append(specs, "host:"+v+":3.11.10", "host:3.11.10:"+v)
	}
	crashes := 0
	for _, cr := range runChildren(specs, 30*time.Second, 12) {
		o.Count("host-version-session(monitor-only)")
		switch cr.outcome {
		case "crash":
			crashes++
			o.Violate(-1, "panic:NewSession", "", "the process died of a panic while reading system.local / system.peers: "+cr.detail, cr.spec)
		case "hang", "broken", "":
			o.Violate(-1, "child-failed", "", fmt.Sprintf("scenario child: %s %s", cr.outcome, cr.detail), cr.spec)
		}
	}
	o.Extra["host_version_sessions"] = fmt.Sprintf("%d child processes, %d died of a panic", len(specs), crashes)
}
