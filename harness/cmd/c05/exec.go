package main

// Replies to PREPARE / EXECUTE / BATCH that the application-facing layers above parseFrame must survive:
// executed on a real Session against the scripted node, on the caller's goroutine, under recover().
//
//   - a PREPARED reply whose request metadata has NO_METADATA with a column count > 0, or a tuple-typed bind
//     marker: Conn.executeQuery / executeBatch index info.request.columns[i] for i < actualColCount;
//   - a rows reply to a conditional statement without a boolean "[applied]" column, or with its first row cut
//     short: Query.MapScanCAS / Session.MapExecuteBatchCAS (and ScanCAS / ExecuteBatchCAS);
// Monitor: no panic; an error (or a value) is reported.

import (
	"fmt"
	"io/ioutil"
	"log"
	"os"
	"sync"
	"time"

	"github.com/gocql/gocql"
	"gocqlverif/c04lib"
	"gocqlverif/hlib"
	"gocqlverif/node"
)

func execScenarios(h *harness) {
	o := h.o
	nat := func(id int) *c04lib.SType { return &c04lib.SType{Kind: c04lib.KNative, ID: id} }
	col := func(name string, t *c04lib.SType) c04lib.SCol { return c04lib.SCol{Name: name, Type: t} }
	tuple2 := &c04lib.SType{Kind: c04lib.KTuple, Elems: []*c04lib.SType{nat(9), nat(9)}}
	intCell := func(x byte) c04lib.SCell { return c04lib.SCell{Val: c04lib.OptBytes{Val: []byte{0, 0, 0, x}}} }
	boolCell := func(b byte) c04lib.SCell { return c04lib.SCell{Val: c04lib.OptBytes{Val: []byte{b}}} }

	type scen struct {
		name    string
		reqMeta c04lib.SMeta // PREPARED: bind columns
		nvals   int          // values the application binds
		rows    *c04lib.SResult
		cut     int // bytes cut off the end of the rows body
	}
	global := func(cols ...c04lib.SCol) c04lib.SMeta {
		return c04lib.SMeta{Global: true, GKS: "ks", GTab: "tb", Count: len(cols), Cols: cols}
	}
	rowsOf := func(m c04lib.SMeta, rows ...[]c04lib.SCell) *c04lib.SResult {
		return &c04lib.SResult{Kind: c04lib.RRows, Meta: m, Rows: rows}
	}
	applied := global(col("[applied]", nat(4)), col("v", nat(9)))
	scens := []scen{
		{name: "bind-no-metadata-1", reqMeta: c04lib.SMeta{NoMeta: true, Count: 1}, nvals: 1},
		{name: "bind-no-metadata-3", reqMeta: c04lib.SMeta{NoMeta: true, Count: 3}, nvals: 3},
		{name: "bind-tuple-marker", reqMeta: global(col("k", nat(9)), col("t", tuple2)), nvals: 3},
		{name: "bind-tuple-marker-first", reqMeta: global(col("t", tuple2), col("k", nat(9))), nvals: 3},
		{name: "bind-plain", reqMeta: global(col("k", nat(9)), col("v", nat(9))), nvals: 2},
		{name: "cas-applied", reqMeta: global(), rows: rowsOf(applied, []c04lib.SCell{boolCell(1), intCell(7)})},
		{name: "cas-no-applied-column", reqMeta: global(), rows: rowsOf(global(col("v", nat(9))), []c04lib.SCell{intCell(7)})},
		{name: "cas-applied-not-boolean", reqMeta: global(), rows: rowsOf(global(col("[applied]", nat(9)), col("v", nat(9))), []c04lib.SCell{intCell(1), intCell(7)})},
		{name: "cas-applied-null", reqMeta: global(), rows: rowsOf(applied, []c04lib.SCell{{Val: c04lib.OptBytes{Null: true}}, intCell(7)})},
		{name: "cas-first-row-cut", reqMeta: global(), rows: rowsOf(applied, []c04lib.SCell{boolCell(1), intCell(7)}), cut: 3},
		{name: "cas-row-missing", reqMeta: global(), rows: rowsOf(applied, []c04lib.SCell{boolCell(1), intCell(7)}), cut: 13},
		{name: "cas-no-columns", reqMeta: global(), rows: rowsOf(global(), []c04lib.SCell{})},
	}

	for _, v := range []int{3, 4} {
		n := node.NewNet()
		nd := n.AddNode("10.0.0.1:9042")
		var mu sync.Mutex
		byStmt := map[string]*scen{}
		byID := map[string]*scen{}
		rowsBody := func(sc *scen) []byte {
			if sc.rows == nil {
				return (&c04lib.Response{Op: c04lib.OpResult, Result: c04lib.SResult{Kind: c04lib.RVoid}}).EncodeBody(v)
			}
			b := (&c04lib.Response{Op: c04lib.OpResult, Result: *sc.rows}).EncodeBody(v)
			return b[:len(b)-sc.cut]
		}
		nd.SetHandler(func(c *node.ServerConn, req *node.Request) {
			mu.Lock()
			defer mu.Unlock()
			switch {
			case req.Prepare != nil:
				if sc := byStmt[req.Prepare.Statement]; sc != nil {
					id := []byte("id-" + sc.name)
					byID[string(id)] = sc
					prep := &c04lib.Response{Op: c04lib.OpResult, Result: c04lib.SResult{Kind: c04lib.RPrepared, ID: id, Meta: sc.reqMeta, RespMeta: c04lib.SMeta{Global: true, GKS: "ks", GTab: "tb"}}}
					c.Reply(req, node.RawMessage{Opcode: node.OpResult, Body: prep.EncodeBody(v)})
					return
				}
			case req.Execute != nil:
				if sc := byID[string(req.Execute.ID)]; sc != nil {
					c.Reply(req, node.RawMessage{Opcode: node.OpResult, Body: rowsBody(sc)})
					return
				}
			case req.Batch != nil:
				for _, st := range req.Batch.Statements {
					sc := byID[string(st.ID)]
					if sc == nil {
						sc = byStmt[st.Statement] // a statement without values is sent as text
					}
					if sc != nil {
						c.Reply(req, node.RawMessage{Opcode: node.OpResult, Body: rowsBody(sc)})
						return
					}
				}
			}
			nd.Default(c, req)
		})
		cfg := gocql.NewCluster("10.0.0.1:9042")
		cfg.Dialer = n.Dialer()
		cfg.ProtoVersion = v
		cfg.Timeout = 2 * time.Second
		cfg.ConnectTimeout = 2 * time.Second
		cfg.NumConns = 1
		cfg.DisableInitialHostLookup = true
		cfg.Consistency = gocql.One
		cfg.Logger = log.New(ioutil.Discard, "", 0)
		s, err := gocql.NewSession(*cfg)
		if err != nil {
			o.Violate(-1, "child-failed", "", fmt.Sprintf("NewSession against the scripted node: %v", err), nil)
			continue
		}
		run := func(sc *scen, api string, f func() string) {
			input := fmt.Sprintf("protocol %d, scenario %s, API %s", v, sc.name, api)
			o.Count("exec-scenario(monitor-only)")
			func() {
				defer func() {
					if p := recover(); p != nil {
						pn := c04lib.Classify(p)
						h.reportPanic(-1, api, pn, input)
					}
				}()
				res := f()
				o.Count("exec-scenario-result:" + res)
				if os.Getenv("C05_DEBUG") != "" {
					fmt.Fprintln(os.Stderr, input, "->", res)
				}
			}()
		}
		class := func(err error) string {
			if err != nil {
				if os.Getenv("C05_DEBUG") != "" {
					fmt.Fprintln(os.Stderr, "   error:", err)
				}
				return "error"
			}
			return "ok"
		}
		for i := range scens {
			sc := &scens[i]
			stmt := fmt.Sprintf("UPDATE ks.tb SET v = 1 WHERE scenario = '%s-%d' IF v = 0", sc.name, v)
			mu.Lock()
			byStmt[stmt] = sc
			mu.Unlock()
			// one value per bind column (a two-element slice for a tuple marker), then plain ints up to the
			// number of values the driver asks for (it counts a tuple marker as one value per component)
			vals := make([]interface{}, 0, sc.nvals)
			for _, bc := range sc.reqMeta.Cols {
				if bc.Type.Kind == c04lib.KTuple {
					vals = append(vals, []interface{}{1, 2})
				} else {
					vals = append(vals, len(vals))
				}
			}
			for len(vals) < sc.nvals {
				vals = append(vals, len(vals))
			}
			run(sc, "Query.Exec", func() string { return class(s.Query(stmt, vals...).Exec()) })
			run(sc, "Query.MapScanCAS", func() string {
				_, err := s.Query(stmt, vals...).MapScanCAS(map[string]interface{}{})
				return class(err)
			})
			run(sc, "Query.ScanCAS", func() string {
				var x int
				_, err := s.Query(stmt, vals...).ScanCAS(&x)
				return class(err)
			})
			run(sc, "Query.MapScan", func() string {
				return class(s.Query(stmt, vals...).MapScan(map[string]interface{}{}))
			})
			run(sc, "Query.SliceMap", func() string {
				_, err := s.Query(stmt, vals...).Iter().SliceMap()
				return class(err)
			})
			batch := func() *gocql.Batch {
				b := s.NewBatch(gocql.LoggedBatch)
				b.Query(stmt, vals...)
				return b
			}
			run(sc, "Session.ExecuteBatch", func() string { return class(s.ExecuteBatch(batch())) })
			run(sc, "Session.MapExecuteBatchCAS", func() string {
				_, it, err := s.MapExecuteBatchCAS(batch(), map[string]interface{}{})
				if it != nil {
					it.Close()
				}
				return class(err)
			})
			run(sc, "Session.ExecuteBatchCAS", func() string {
				var x int
				_, it, err := s.ExecuteBatchCAS(batch(), &x)
				if it != nil {
					it.Close()
				}
				return class(err)
			})
		}
		s.Close()
	}
	_ = hlib.Bool
}
