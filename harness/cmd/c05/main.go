// C05 harness: bytes from the network must never crash the application.
//
// Well-formed frames (the C04 generators) are truncated at every offset, every 2- and 4-byte window is
// overwritten with boundary values (-1, 0, n-1, n+1, 2^15, 2^31-1), bytes are flipped, inserted and deleted,
// and random bodies are tried for every opcode; the real parseFrame / Iter.Scan / Iter.RowData / Unmarshal /
// getCassandraType / parseType run on them under recover().  Monitor: no panic of any kind, allocation in
// proportion to the input.  A sample of the inputs is emitted as Coq correspondence cases: the model must
// predict the same outcome class (ok / error class / crash site) and the same decoded value.
package main

import (
	"fmt"
	"os"
	"runtime"
	"strings"

	"github.com/gocql/gocql"
	"gocqlverif/c04lib"
	"gocqlverif/hlib"
)

// Since the fix phase no C05 finding is open: every panic, whatever function raises it, is a violation.
var findingOf = map[string]string{}

type harness struct {
	o      *hlib.Out
	g      *c04lib.Gen
	kept   map[string]int // violations recorded per (entry, finding): the first 40 of each are kept, all are counted
	panics map[string]int
	emit   int // emit every emit-th input of the dense streams as a Coq case
	ctr    int
}

func (h *harness) sample() bool {
	h.ctr++
	return h.ctr%h.emit == 0
}

func (h *harness) reportPanic(idx int, entry string, p c04lib.Panic, input interface{}) {
	h.panics[p.Site+" in "+p.Func]++
	fid := findingOf[p.Site]
	key := entry + "/" + fid
	h.kept[key]++
	if h.kept[key] > 40 && fid != "" {
		return // counted in panics_by_site; keeping every one of them would need gigabytes in the thorough tier
	}
	if h.kept[key] > 400 {
		return
	}
	h.o.Violate(idx, "panic:"+entry, fid, fmt.Sprintf("%s panicked in %s: %s", entry, p.Func, p.Value), input)
}

// sizeTooBig walks a value the way Unmarshal does, up to the first thing Unmarshal would reject, and reports
// whether a list / set / map size above 2^16 would be reached.  Since the fixes list-length-negative and
// alloc-map-count such a size is rejected before anything is allocated; this walker is only used when the
// allocation sweep of Unmarshal found otherwise (then such inputs are not run in-process).
func sizeTooBig(proto int, t *c04lib.SType, data []byte, isNil bool) bool {
	const limit = 1 << 16
	size := func(d []byte) (int, []byte, bool) {
		if proto > 2 {
			if len(d) < 4 {
				return 0, nil, false
			}
			return int(int32(uint32(d[0])<<24 | uint32(d[1])<<16 | uint32(d[2])<<8 | uint32(d[3]))), d[4:], true
		}
		if len(d) < 2 {
			return 0, nil, false
		}
		return int(d[0])<<8 | int(d[1]), d[2:], true
	}
	elem := func(d []byte) ([]byte, bool, []byte, bool) { // value, isNil, rest, ok
		m, rest, ok := size(d)
		if !ok {
			return nil, false, nil, false
		}
		if m < 0 {
			return nil, true, rest, true
		}
		if len(rest) < m {
			return nil, false, nil, false
		}
		return rest[:m], false, rest[m:], true
	}
	field := func(d []byte) ([]byte, bool, []byte, bool) { // marshal.go readBytes on >= 4 bytes
		m := int(int32(uint32(d[0])<<24 | uint32(d[1])<<16 | uint32(d[2])<<8 | uint32(d[3])))
		d = d[4:]
		if m < 0 {
			return nil, true, d, true
		}
		if m > len(d) {
			return nil, false, nil, false // the driver panics here
		}
		return d[:m], false, d[m:], true
	}
	switch t.Kind {
	case c04lib.KList, c04lib.KSet, c04lib.KMap:
		if isNil {
			return false
		}
		n, rest, ok := size(data)
		if !ok || n < 0 {
			return false
		}
		if n > limit {
			return true
		}
		for i := 0; i < n; i++ {
			for j := 0; j < len(t.Elems); j++ {
				v, vnil, r2, ok := elem(rest)
				if !ok {
					return false
				}
				if sizeTooBig(proto, t.Elems[j], v, vnil) {
					return true
				}
				rest = r2
			}
		}
		return false
	case c04lib.KTuple, c04lib.KUDT:
		if isNil && t.Kind == c04lib.KUDT {
			return false
		}
		d := data
		for _, e := range t.Elems {
			if t.Kind == c04lib.KUDT && len(d) < 4 {
				return false
			}
			var v []byte
			vnil := true
			if len(d) >= 4 {
				var ok bool
				v, vnil, d, ok = field(d)
				if !ok {
					return false
				}
			}
			if sizeTooBig(proto, e, v, vnil) {
				return true
			}
		}
		return false
	}
	return false
}

// one body through parseFrame (+ Scan / RowData when it is a rows frame)
func (h *harness) tryBody(kind string, proto, hver, hflags, op int, body []byte, emit bool) {
	out := c04lib.Parse(proto, hver, hflags, op, body)
	idx := -1
	if emit {
		idx = h.o.Case(kind, len(body) > 0, fmt.Sprintf("CF (CParse %d %d %d %d %s %s)", proto, hver, hflags, op, hlib.ZList(body), out.Pres(proto)))
	} else {
		h.o.Count(kind + "(monitor-only)")
	}
	if out.Class == "panic" {
		h.reportPanic(idx, "parseFrame", out.Panic, hlib.ZList(body))
		return
	}
	if out.Class != "ok" || out.Frame.Kind != "rows" {
		return
	}
	// RowData (MapScan / SliceMap) and Scan over whatever is left of the body
	it := out.Framer.Iter(out.Frame)
	names, np := c04lib.RowDataOutcome(it)
	if np != nil {
		h.reportPanic(idx, "Iter.RowData", *np, hlib.ZList(body))
	}
	if np != nil {
		h.kept["names-panic"]++
	}
	if hflags == 0 && op == c04lib.OpResult && hver == 0x80|proto && (emit || (np != nil && h.kept["names-panic"] <= 20)) {
		h.o.Case(kind+":names", true, fmt.Sprintf("CF (CNames %d %s %s)", proto, hlib.ZList(body), names))
	}
	nd := out.Frame.Meta.ActualColCount
	if nd < 0 || nd > 64 {
		return
	}
	k := out.Frame.NumRows + 1
	if k > 6 {
		k = 6
	}
	scans := c04lib.Scans(it, nd, k)
	sidx := -1
	if emit {
		sidx = h.o.Case(kind+":scan", true, fmt.Sprintf("CF (CScan %d %d %d %d %s %d %s %s)", proto, hver, hflags, op, hlib.ZList(body), nd, hlib.Nat(k), c04lib.CoqScans(scans)))
	}
	for _, s := range scans {
		if s.Kind == "panic" {
			h.reportPanic(sidx, "Iter.Scan", s.Panic, hlib.ZList(body))
		}
	}
	// the same body through the Scanner API
	o2 := c04lib.Parse(proto, hver, hflags, op, body)
	if o2.Class != "ok" {
		return
	}
	ss := c04lib.ScannerSteps(o2.Framer.Iter(o2.Frame), nd, k)
	scidx := -1
	if emit {
		scidx = h.o.Case(kind+":scanner", true, fmt.Sprintf("CF (CScanner %d %d %d %d %s %d %s %s)", proto, hver, hflags, op, hlib.ZList(body), nd, hlib.Nat(k), c04lib.CoqScans(ss)))
	}
	for _, s := range ss {
		if s.Kind == "panic" {
			h.reportPanic(scidx, "Scanner", s.Panic, hlib.ZList(body))
		}
	}
}

var boundary = []int64{-1, 0, 1 << 15, 1<<31 - 1}

func put(b []byte, off, width int, v int64) []byte {
	c := append([]byte{}, b...)
	for i := 0; i < width; i++ {
		c[off+width-1-i] = byte(v >> (8 * uint(i)))
	}
	return c
}

func get(b []byte, off, width int) int64 {
	var v int64
	for i := 0; i < width; i++ {
		v = v<<8 | int64(b[off+i])
	}
	if width == 4 {
		return int64(int32(v))
	}
	return v
}

func (h *harness) malform(label string, proto, hver, hflags, op int, body []byte, dense bool) {
	r := h.o.Rng
	// every prefix
	for cut := 0; cut <= len(body); cut++ {
		h.tryBody("prefix:"+label, proto, hver, hflags, op, body[:cut], dense || h.sample())
	}
	// every 2- and 4-byte window overwritten with boundary values and with its own value +-1
	for _, w := range []int{2, 4} {
		for off := 0; off+w <= len(body); off++ {
			cur := get(body, off, w)
			for _, v := range append([]int64{cur - 1, cur + 1}, boundary...) {
				if v == cur {
					continue
				}
				h.tryBody("field:"+label, proto, hver, hflags, op, put(body, off, w, v), h.sample())
			}
		}
	}
	// random mutations
	for i := 0; i < 30; i++ {
		c := append([]byte{}, body...)
		for j := 0; j <= r.Intn(3); j++ {
			if len(c) == 0 {
				break
			}
			switch r.Intn(3) {
			case 0:
				c[r.Intn(len(c))] = byte(r.U64())
			case 1:
				p := r.Intn(len(c))
				c = append(c[:p], c[p+1:]...)
			default:
				p := r.Intn(len(c) + 1)
				c = append(c[:p], append([]byte{byte(r.U64())}, c[p:]...)...)
			}
		}
		h.tryBody("mutate:"+label, proto, hver, hflags, op, c, h.sample())
	}
}

// allocDelta: bytes allocated by f (cumulative counter, no collection forced)
func allocDelta(f func()) uint64 {
	var a, b runtime.MemStats
	runtime.ReadMemStats(&a)
	f()
	runtime.ReadMemStats(&b)
	return b.TotalAlloc - a.TotalAlloc
}

// allocSweep: every 4-byte window of a well-formed body overwritten with 10^6 and 4*10^6 -- count fields of
// that size on a body of a few dozen bytes.  A parser that sizes an allocation by such a field before it has
// seen the elements allocates 8..256 MB here (survivable in-process); anything above 64 bytes per received
// byte + 4 MiB is reported with the input.  The two open allocation findings stay narrow: the partition-key
// count of a PREPARED body (recognised by walking the body) and nested tuple/UDT arities (tested separately).
// Returns false when an unexplained allocation was seen: the dense sweep (which also tries 2^31-1) is then
// not run, because the same site would ask for hundreds of gigabytes and kill the process.
func (h *harness) allocSweep(label string, proto, hver, hflags, op int, body []byte) bool {
	ok := true
	for off := 0; off+4 <= len(body); off++ {
		for _, v := range []int64{1000000, 4000000} {
			c := put(body, off, 4, v)
			alloc := allocDelta(func() { c04lib.Parse(proto, hver, hflags, op, c) })
			h.o.Count("alloc-count-field(monitor-only)")
			if alloc <= uint64(64*len(c)+4<<20) {
				if op == c04lib.OpResult && !h.consumerAllocCheck(fmt.Sprintf("%s with %d written at offset %d", label, v, off), proto, hver, hflags, op, c) {
					return false
				}
				continue
			}
			ok = false
			h.kept["alloc-unexplained"]++
			if h.kept["alloc-unexplained"] <= 5 {
				h.o.Violate(-1, "allocation-out-of-proportion", "", fmt.Sprintf("a %d-byte %s body (protocol %d, op %d, header flags %d) whose 4 bytes at offset %d are set to %d made parseFrame allocate %d bytes", len(c), label, proto, op, hflags, off, v, alloc), hlib.ZList(c))
			}
			return false // one concrete input is enough; further windows of this body could ask for much more
		}
	}
	return ok
}

// iterConsumers: what an application (and the driver itself, for system.local / system.peers) does with a rows
// frame -- SliceMap, a MapScan loop, a RowData+Scan loop, the Scanner, RowData -- each on a fresh parse of the body.
// Loops are cut after 64 rows: what is measured is what the driver allocates per call, not what a caller
// accumulates.  Returns the consumer that allocated most and its bytes; panics are reported.
func (h *harness) iterConsumers(proto, hver, hflags, op int, body []byte) (worstName string, worst uint64) {
	consumers := []struct {
		name string
		f    func(it *gocql.Iter)
	}{
		{"Iter.SliceMap", func(it *gocql.Iter) { it.SliceMap() }},
		{"Iter.MapScan", func(it *gocql.Iter) {
			for i := 0; i < 64 && it.MapScan(map[string]interface{}{}); i++ {
			}
		}},
		{"Iter.Scan", func(it *gocql.Iter) {
			for i := 0; i < 64; i++ {
				rd, err := it.RowData()
				if err != nil || !it.Scan(rd.Values...) {
					return
				}
			}
		}},
		{"Scanner", func(it *gocql.Iter) {
			sc := it.Scanner()
			for i := 0; i < 64 && sc.Next(); i++ {
				rd, err := it.RowData()
				if err != nil || sc.Scan(rd.Values...) != nil {
					return
				}
			}
		}},
		{"Iter.RowData", func(it *gocql.Iter) { it.RowData() }},
	}
	for _, c := range consumers {
		out := c04lib.Parse(proto, hver, hflags, op, body)
		if out.Class != "ok" || out.Frame.Kind != "rows" {
			return
		}
		if out.Frame.NumRows > 5000000 {
			// an unaligned window can make the row count 2^28: a consumer that allocates per claimed row would
			// take the machine down rather than fail a check; 10^6 and 4*10^6 in the count itself are enough
			h.o.Count("alloc-iter-consumer-skipped-huge-row-count")
			return
		}
		it := out.Framer.Iter(out.Frame)
		alloc := allocDelta(func() {
			defer func() {
				if p := recover(); p != nil {
					h.reportPanic(-1, c.name, c04lib.Classify(p), hlib.ZList(body))
				}
			}()
			c.f(it)
		})
		h.o.Count("alloc-iter-consumer(monitor-only)")
		if alloc > worst {
			worstName, worst = c.name, alloc
		}
	}
	return
}

// consumerAllocCheck reports a consumer that allocates out of proportion to the body; false = found one.
func (h *harness) consumerAllocCheck(label string, proto, hver, hflags, op int, body []byte) bool {
	name, alloc := h.iterConsumers(proto, hver, hflags, op, body)
	if alloc <= uint64(64*len(body)+4<<20) {
		return true
	}
	h.kept["alloc-consumer"]++
	if h.kept["alloc-consumer"] <= 5 {
		h.o.Violate(-1, "allocation-out-of-proportion", "", fmt.Sprintf("a %d-byte %s body (protocol %d) made %s allocate %d bytes", len(body), label, proto, name, alloc), hlib.ZList(body))
	}
	return false
}

func measureAlloc(f func()) uint64 {
	var a, b runtime.MemStats
	runtime.GC()
	runtime.ReadMemStats(&a)
	f()
	runtime.ReadMemStats(&b)
	return b.TotalAlloc - a.TotalAlloc
}

func main() {
	if spec := os.Getenv("C05_CHILD"); spec != "" {
		childMain(spec) // connection-level scenario in a process of its own (conn.go); does not return
	}
	o := hlib.Init("C05")
	r := o.Rng
	g := &c04lib.Gen{R: r}
	h := &harness{o: o, g: g, panics: map[string]int{}, kept: map[string]int{}, emit: 70}
	if o.Tier == "thorough" {
		h.emit = 400
	}
	o.Rule = "well-formed frames of all 25 families x versions 1-5, each cut at every offset, each 2/4-byte window overwritten with " +
		"-1, 0, n-1, n+1, 2^15, 2^31-1, random byte flips/insertions/deletions, random bodies per opcode, rows bodies scanned past their end, " +
		"(type, bytes) pairs for Unmarshal likewise, type strings from two grammars with all prefixes; a case is non-trivial when the input is non-empty; " +
		"a sample (every prefix of selected frames, 1 in 40 of the rest) is emitted as Coq cases, the rest is monitor-only"

	// ---- allocation in proportion to the input, first: count fields of 10^6 and 4*10^6 on small bodies -------
	if o.Only < 0 {
		ar := hlib.NewRng(o.Seed + 977)
		ag := &c04lib.Gen{R: ar}
		safe := true
		for v := 1; v <= 5; v++ {
			for kind := 0; kind < c04lib.NKinds; kind++ {
				resp := ag.ResponseOfKind(v, kind)
				env := ag.Envelope(v)
				body := c04lib.EncodeBody(v, env, resp)
				if len(body) > 100 || (o.Scale == 1 && (kind+v)%2 == 0) {
					continue
				}
				if !h.allocSweep(resp.Describe(), v, 0x80|v, env.Flags(), resp.Op, body) {
					safe = false
				}
			}
		}
		// the smallest rows frames: flags, column count, (row count)
		for _, cc := range []int{1000, 1000000, 4000000} {
			b := append(append(c04lib.EncInt(2), c04lib.EncInt(0)...), c04lib.EncInt(cc)...)
			b = append(b, c04lib.EncInt(0)...)
			alloc := allocDelta(func() { c04lib.Parse(4, 0x84, 0, c04lib.OpResult, b) })
			if alloc > uint64(64*len(b)+4<<20) {
				safe = false
				o.Violate(-1, "allocation-out-of-proportion", "", fmt.Sprintf("a %d-byte RESULT rows body claiming %d columns made parseFrame allocate %d bytes", len(b), cc, alloc), hlib.ZList(b))
			}
		}
		// rows frames that claim far more rows than they hold: one int column / no column / NO_METADATA, no row content
		for _, rc := range []int{1000000, 4000000, 4194304} {
			// metadata: flags (1 global spec, 4 no metadata), column count, [ks, table, name, type int]
			oneCol := append(append(c04lib.EncInt(1), c04lib.EncInt(1)...), append(append(c04lib.EncString("ks"), c04lib.EncString("tb")...), append(c04lib.EncString("c"), 0, 9)...)...)
			for _, pre := range [][]byte{oneCol, append(c04lib.EncInt(0), c04lib.EncInt(0)...), append(c04lib.EncInt(4), c04lib.EncInt(1)...), append(c04lib.EncInt(4), c04lib.EncInt(0)...)} {
				b := append(append(c04lib.EncInt(2), pre...), c04lib.EncInt(rc)...)
				if !h.consumerAllocCheck(fmt.Sprintf("RESULT rows (row count %d, no row content)", rc), 4, 0x84, 0, c04lib.OpResult, b) {
					safe = false
				}
			}
		}
		if !safe {
			o.Extra["sweep_not_run"] = "an allocation out of proportion was found at a site other than the known ones; the dense sweep (with 2^31-1 in every count field) was not run"
			o.Finish("From GocqlV Require Import Lib.Base C04.Model C04.Spec C04.Corr C05.Model C05.Conn C05.Corr.", "C05.Corr.case", "C05.Corr.run")
			return
		}
	}

	// ---- frames -------------------------------------------------------------------------------
	// quick: every family in two or three of the five versions; thorough: ten rounds of everything
	reps := 1
	if o.Scale > 1 {
		reps = o.Scale / 2
	}
	for rep := 0; rep < reps; rep++ {
		for v := 1; v <= 5; v++ {
			for kind := 0; kind < c04lib.NKinds; kind++ {
				if o.Scale == 1 && (kind+v)%2 == 1 {
					continue
				}
				resp := g.ResponseOfKind(v, kind)
				if resp.Op == c04lib.OpResult && resp.Result.Kind == c04lib.RRows && len(resp.Result.Meta.Cols) > 20 {
					continue // the 1000-column frames are C04's
				}
				env := g.Envelope(v)
				body := c04lib.EncodeBody(v, env, resp)
				dense := rep == 0 && (v == 4 || v == 5) && len(body) < 100 && kind%3 == 0
				h.malform(resp.Describe(), v, 0x80|v, env.Flags(), resp.Op, body, dense)
			}
		}
	}
	// random bodies for every opcode, request direction, unknown opcodes
	for i := 0; i < 300*o.Scale; i++ {
		v := 1 + r.Intn(5)
		op := int(r.Pick(0, 2, 3, 6, 8, 12, 14, 16, 1, 5, 7, 9, 11, 0x11, 0xff))
		hver := 0x80 | v
		if r.Chance(3) {
			hver = v
		}
		body := r.Bytes(r.Intn(40))
		if r.Chance(50) && len(body) >= 4 { // a plausible first int
			copy(body, c04lib.EncInt(int(r.Pick(1, 2, 3, 4, 5, 0x1000, 0x1300, 0x1500, 0x2400, 0))))
		}
		h.tryBody("random", v, hver, int(r.Pick(0, 0, 2, 4, 8, 14, 0xfe)), op, body, h.sample()) // never the compression bit: C18
	}

	// ---- the known crash sites, each with its minimal input (also the Refuted.v witnesses) -------
	ev := append(append(c04lib.EncString("STATUS_CHANGE"), c04lib.EncString("UP")...), 16, 1, 2)
	h.tryBody("witness:inet-short", 4, 0x84, 0, c04lib.OpEvent, ev, true)
	prep := append(append(append(c04lib.EncInt(4), c04lib.EncShortBytes([]byte("x"))...), c04lib.EncInt(0)...), append(c04lib.EncInt(0), c04lib.EncInt(-5)...)...)
	h.tryBody("witness:pk-negative", 4, 0x84, 0, c04lib.OpResult, prep, true)
	{ // rows: 3 rows claimed, 1 present
		m := c04lib.SMeta{Count: 1, Cols: []c04lib.SCol{{KS: "k", Table: "t", Name: "c", Type: &c04lib.SType{Kind: c04lib.KNative, ID: 9}}}}
		body := append(append(c04lib.EncInt(2), m.EncodeResult()...), c04lib.EncInt(3)...)
		body = append(body, c04lib.EncBytes(c04lib.OptBytes{Val: []byte{0, 0, 0, 1}})...)
		h.tryBody("witness:scan-short", 4, 0x84, 0, c04lib.OpResult, body, true)
	}
	{ // a trailing zero-arity tuple column
		m := c04lib.SMeta{Count: 1, Cols: []c04lib.SCol{{KS: "k", Table: "t", Name: "c", Type: &c04lib.SType{Kind: c04lib.KTuple}}}}
		body := append(append(c04lib.EncInt(2), m.EncodeResult()...), c04lib.EncInt(1)...)
		body = append(body, c04lib.EncBytes(c04lib.OptBytes{Null: true})...)
		h.tryBody("witness:scan-empty-tuple", 4, 0x84, 0, c04lib.OpResult, body, true)
	}
	{ // a tuple cell whose first component claims 9 bytes with 1 present
		m := c04lib.SMeta{Count: 1, Cols: []c04lib.SCol{{KS: "k", Table: "t", Name: "c", Type: &c04lib.SType{Kind: c04lib.KTuple, Elems: []*c04lib.SType{{Kind: c04lib.KNative, ID: 9}}}}}}
		body := append(append(c04lib.EncInt(2), m.EncodeResult()...), c04lib.EncInt(1)...)
		body = append(body, c04lib.EncBytes(c04lib.OptBytes{Val: []byte{0, 0, 0, 9, 7}})...)
		h.tryBody("witness:tuple-field", 4, 0x84, 0, c04lib.OpResult, body, true)
	}
	{ // a well-formed row of (tuple<int,int>, int) through the Scanner API
		i9 := &c04lib.SType{Kind: c04lib.KNative, ID: 9}
		m := c04lib.SMeta{Count: 2, Cols: []c04lib.SCol{{KS: "k", Table: "t", Name: "t", Type: &c04lib.SType{Kind: c04lib.KTuple, Elems: []*c04lib.SType{i9, i9}}}, {KS: "k", Table: "t", Name: "c", Type: i9}}}
		row := []c04lib.SCell{{IsTuple: true, Comps: []c04lib.OptBytes{{Val: []byte{0, 0, 0, 1}}, {Val: []byte{0, 0, 0, 2}}}}, {Val: c04lib.OptBytes{Val: []byte{0, 0, 0, 3}}}}
		resp := &c04lib.Response{Op: c04lib.OpResult, Result: c04lib.SResult{Kind: c04lib.RRows, Meta: m, Rows: [][]c04lib.SCell{row}}}
		h.tryBody("witness:scanner-tuple", 4, 0x84, 0, c04lib.OpResult, resp.EncodeBody(4), true)
	}
	{ // a map column keyed by blob: RowData / MapScan / SliceMap
		mt := &c04lib.SType{Kind: c04lib.KMap, Elems: []*c04lib.SType{{Kind: c04lib.KNative, ID: 3}, {Kind: c04lib.KNative, ID: 9}}}
		m := c04lib.SMeta{Count: 1, Cols: []c04lib.SCol{{KS: "k", Table: "t", Name: "c", Type: mt}}}
		body := append(append(c04lib.EncInt(2), m.EncodeResult()...), c04lib.EncInt(0)...)
		h.tryBody("witness:map-key", 4, 0x84, 0, c04lib.OpResult, body, true)
	}

	// ---- allocation: in proportion to the bytes received ------------------------------------------
	if o.Only < 0 {
		// nested tuple types of arity 0xFFFF: 4 bytes per level, 1 MiB allocated per level
		body := append(c04lib.EncInt(2), append(c04lib.EncInt(0), c04lib.EncInt(1)...)...)
		body = append(body, c04lib.EncString("k")...)
		body = append(body, c04lib.EncString("t")...)
		body = append(body, c04lib.EncString("c")...)
		for i := 0; i < 200; i++ {
			body = append(body, 0, 0x31, 0xff, 0xff)
		}
		alloc := measureAlloc(func() { c04lib.Parse(4, 0x84, 0, c04lib.OpResult, body) })
		o.Extra["alloc_nested_tuple_bytes"] = alloc
		o.Extra["alloc_nested_tuple_input"] = len(body)
		o.Count("alloc-nested-tuple")
		if alloc > uint64(64*len(body)+4<<20) {
			o.Violate(-1, "allocation-out-of-proportion", "", fmt.Sprintf("a %d-byte RESULT body made parseFrame allocate %d bytes", len(body), alloc), hlib.ZList(body))
		}
		// a partition-key count of 2^22 in a 19-byte PREPARED body
		pb := append(append(append(c04lib.EncInt(4), c04lib.EncShortBytes([]byte("x"))...), c04lib.EncInt(0)...), append(c04lib.EncInt(0), c04lib.EncInt(1<<22)...)...)
		alloc = measureAlloc(func() { c04lib.Parse(4, 0x84, 0, c04lib.OpResult, pb) })
		o.Extra["alloc_pk_count_bytes"] = alloc
		o.Count("alloc-pk-count")
		if alloc > uint64(64*len(pb)+4<<20) {
			o.Violate(-1, "allocation-out-of-proportion", "", fmt.Sprintf("a %d-byte PREPARED body made parseFrame allocate %d bytes", len(pb), alloc), hlib.ZList(pb))
		}
		// the well-formed frames of this run: generous linear bound
		worst := 0.0
		for i := 0; i < 200; i++ {
			v := 1 + r.Intn(5)
			resp := g.ResponseOfKind(v, r.Intn(c04lib.NKinds))
			env := g.Envelope(v)
			b := c04lib.EncodeBody(v, env, resp)
			a := measureAlloc(func() { c04lib.Parse(v, 0x80|v, env.Flags(), resp.Op, b) })
			ratio := float64(a) / float64(len(b)+512)
			if ratio > worst {
				worst = ratio
			}
			if a > uint64(256*len(b)+1<<20) {
				o.Violate(-1, "allocation-out-of-proportion", "", fmt.Sprintf("a well-formed %d-byte %s body made parseFrame allocate %d bytes", len(b), resp.Describe(), a), hlib.ZList(b))
			}
		}
		o.Extra["alloc_wellformed_worst_bytes_per_input_byte"] = worst
	}

	// ---- Unmarshal: (type, bytes) pairs ------------------------------------------------------------
	// allocation in proportion to the input, for Unmarshal: every 4-byte (protocol 2: 2-byte) window of small
	// well-formed collection values overwritten with 10^6 and 4*10^6 (65535); the list / set / map decoders
	// must not size anything by such a field before they have seen that many elements
	umSafe := true
	if o.Only < 0 {
		ar := hlib.NewRng(o.Seed + 1977)
		ag := &c04lib.Gen{R: ar}
		done, worst := 0, 0.0
		for tries := 0; tries < 4000 && done < 30*o.Scale; tries++ {
			proto := int(ar.Pick(2, 3, 4, 5))
			t := ag.ValueType(2)
			if t.Kind != c04lib.KList && t.Kind != c04lib.KSet && t.Kind != c04lib.KMap {
				continue
			}
			data := ag.Value(proto, t)
			if data == nil || len(data) > 60 {
				continue
			}
			done++
			ti := c04lib.TypeInfoOf(proto, t)
			w, vals := 4, []int64{1000000, 4000000}
			if proto == 2 {
				w, vals = 2, []int64{65535}
			}
			for off := 0; off+w <= len(data); off++ {
				for _, v := range vals {
					c := put(data, off, w, v)
					alloc := allocDelta(func() { c04lib.UnmarshalOutcome(ti, c) })
					o.Count("unmarshal-alloc-count-field(monitor-only)")
					if x := float64(alloc) / float64(len(c)); x > worst {
						worst = x
					}
					if alloc > uint64(64*len(c)+1<<20) {
						if umSafe {
							o.Violate(-1, "allocation-out-of-proportion", "", fmt.Sprintf("a %d-byte %s value with %d written at offset %d made Unmarshal allocate %d bytes",
								len(c), c04lib.CoqTInfo(ti), v, off, alloc), fmt.Sprintf("proto %d %s %x", proto, c04lib.CoqTInfo(ti), c))
						}
						umSafe = false
					}
				}
			}
		}
		o.Extra["unmarshal_alloc_worst_bytes_per_input_byte"] = worst
		if !umSafe {
			o.Extra["unmarshal_huge_sizes_not_run"] = "Unmarshal sized an allocation by a count field; collection values announcing more than 2^16 elements are not run in-process by the streams below"
		}
	}
	tryUnmarshal := func(kind string, proto int, t *c04lib.SType, data []byte, emit bool) {
		ti := c04lib.TypeInfoOf(proto, t)
		// only when the sweep above found Unmarshal allocating by a count field: sizes above 2^16 are not run in-process
		if !umSafe && sizeTooBig(proto, t, data, data == nil) {
			o.Count("skipped-huge-collection-size")
			return
		}
		term, pn := c04lib.UnmarshalOutcome(ti, data)
		idx := -1
		if emit {
			d := "None"
			if data != nil {
				d = hlib.Some(hlib.ZList(data))
			}
			idx = o.Case(kind, len(data) > 0, fmt.Sprintf("CUnmarshal %d %s %s %s", proto, c04lib.CoqTInfo(ti), d, term))
		} else {
			o.Count(kind + "(monitor-only)")
		}
		if pn != nil {
			h.reportPanic(idx, "Unmarshal", *pn, fmt.Sprintf("%s %x", c04lib.CoqTInfo(ti), data))
		}
	}
	nestedHuge := func(t *c04lib.SType) bool { return false }
	_ = nestedHuge
	for i := 0; i < 40*o.Scale; i++ {
		proto := int(r.Pick(2, 3, 4, 4, 5))
		t := g.ValueType(2)
		data := g.Value(proto, t)
		tryUnmarshal("unmarshal-valid", proto, t, data, true)
		if data == nil {
			continue
		}
		// the leading size / length field of the value, systematically (always compared with the model)
		for _, w := range []int{2, 4} {
			if len(data) >= w {
				cur := get(data, 0, w)
				for _, v := range []int64{-1, -2, 0, cur - 1, cur + 1, 1 << 15, 65535} {
					if v != cur {
						tryUnmarshal("unmarshal-size-field", proto, t, put(data, 0, w, v), true)
					}
				}
			}
		}
		for cut := 0; cut < len(data); cut++ {
			tryUnmarshal("unmarshal-prefix", proto, t, data[:cut], h.sample() || i < 4)
		}
		for _, w := range []int{2, 4} {
			for off := 0; off+w <= len(data); off++ {
				cur := get(data, off, w)
				for _, v := range append([]int64{cur - 1, cur + 1}, -1, 0, 1<<15, 65535) {
					if v == cur {
						continue
					}
					// nested sizes: keep every size below 2^20 (allocation guard), except negative ones
					if v > 1<<16 {
						continue
					}
					tryUnmarshal("unmarshal-field", proto, t, put(data, off, w, v), h.sample())
				}
			}
		}
	}
	// leaf lengths 0..17 for every native type
	for id := 1; id <= 21; id++ {
		for n := 0; n <= 17; n++ {
			tryUnmarshal("unmarshal-leaf-length", 4, &c04lib.SType{Kind: c04lib.KNative, ID: id}, r.Bytes(n), n <= 5 || n == 8 || n >= 16)
		}
		tryUnmarshal("unmarshal-leaf-length", 4, &c04lib.SType{Kind: c04lib.KNative, ID: id}, nil, true)
	}
	tryUnmarshal("witness:list-negative", 4, &c04lib.SType{Kind: c04lib.KList, Elems: []*c04lib.SType{{Kind: c04lib.KNative, ID: 9}}}, []byte{0xff, 0xff, 0xff, 0xfe}, true)
	tryUnmarshal("witness:date-short", 4, &c04lib.SType{Kind: c04lib.KNative, ID: 17}, []byte{1, 2}, true)
	tryUnmarshal("witness:udt-field", 4, &c04lib.SType{Kind: c04lib.KUDT, KS: "k", Name: "u", Elems: []*c04lib.SType{{Kind: c04lib.KNative, ID: 9}}, FieldNames: []string{"f"}}, []byte{0, 0, 0, 9, 7}, true)

	// ---- type strings --------------------------------------------------------------------------------
	tryCQL := func(kind, s string, emit bool) {
		term, pn := c04lib.GetTypeOutcome(s)
		idx := -1
		if emit && c04lib.IsASCII(s) {
			idx = o.Case(kind, s != "", fmt.Sprintf("CGetType %s %s", c04lib.CoqStr(s), term))
			if sp, pn2 := c04lib.SplitOutcome(s); pn2 == nil && r.Chance(30) {
				o.Case(kind+":split", s != "", fmt.Sprintf("CSplit %s %s", c04lib.CoqStr(s), sp))
			}
		} else {
			o.Count(kind + "(monitor-only)")
		}
		if pn != nil {
			h.reportPanic(idx, "getCassandraType", *pn, s)
		}
	}
	tryMarshal := func(kind, s string, emit bool) {
		term, pn := c04lib.ParseTypeOutcome(s)
		idx := -1
		if emit {
			idx = o.Case(kind, s != "", fmt.Sprintf("CParseType %s %s", c04lib.CoqStr(s), term))
		} else {
			o.Count(kind + "(monitor-only)")
		}
		if pn != nil {
			h.reportPanic(idx, "parseType", *pn, s)
		}
	}
	for i := 0; i < 40*o.Scale; i++ {
		s := g.CQLTypeString(3)
		tryCQL("cql-type", s, true)
		for cut := 0; cut < len(s); cut++ {
			tryCQL("cql-type-prefix", s[:cut], h.sample() || i < 3)
		}
		m := g.MarshalTypeString(3, true)
		tryMarshal("marshal-type", m, true)
		for cut := 0; cut < len(m); cut++ {
			tryMarshal("marshal-type-prefix", m[:cut], h.sample() || i < 2)
		}
		// character-level damage
		for j := 0; j < 6; j++ {
			b := []byte(m)
			if len(b) > 0 {
				b[r.Intn(len(b))] = "(),: \t<>&xA0"[r.Intn(12)]
			}
			tryMarshal("marshal-type-mutate", string(b), h.sample())
			c := []byte(s)
			if len(c) > 0 {
				c[r.Intn(len(c))] = "<>, \tx\xff\xc3"[r.Intn(8)]
			}
			tryCQL("cql-type-mutate", string(c), h.sample())
		}
	}
	// the character classes of both parsers, one ASCII character at a time
	for c := 0; c < 128; c++ {
		ch := string(rune(c))
		tryMarshal("marshal-type-charclass", "x"+ch+"y", true)
		tryMarshal("marshal-type-charclass", "A("+ch+"B"+ch+")", c%2 == 0)
		tryCQL("cql-type-charclass", "map<int,"+ch+"int"+ch+">", true)
	}
	for _, s := range []string{"A(", "A(B", "A(B:", "A(B,", "A( ", "org.apache.cassandra.db.marshal.CompositeType", "org.apache.cassandra.db.marshal.ListType",
		"org.apache.cassandra.db.marshal.ReversedType", "org.apache.cassandra.db.marshal.MapType(org.apache.cassandra.db.marshal.Int32Type)",
		"org.apache.cassandra.db.marshal.CompositeType(org.apache.cassandra.db.marshal.ColumnToCollectionType(org.apache.cassandra.db.marshal.Int32Type))",
		"org.apache.cassandra.db.marshal.CompositeType()", "", " ", "A", "A()", "A(B)x"} {
		tryMarshal("marshal-type-edge", s, true)
	}
	// ---- length boundaries of every variable-length token of the class-name grammar, systematically -----------
	// (not sampled: the same strings for every seed)
	{
		P := c04lib.MarshalPrefix
		seen := map[string]bool{}
		var all []string
		add := func(s string) {
			if !seen[s] {
				seen[s] = true
				all = append(all, s)
			}
		}
		rep := func(unit string, n int) string { return strings.Repeat(unit, n) }
		lens := []int{0, 1, 2, 23, 24, 25, 47, 48, 49, 64, 100, 200, 1000}
		// collection names of ColumnToCollectionType(<hex>:<type>): n bytes of hex (lower / upper case), odd-length
		// hex, non-hex of the same length, as the only / second / third named parameter, for list, set and map
		for _, n := range lens {
			names := []string{rep("6b", n), rep("4B", n), rep("6b", n) + "6", rep("zy", n), rep("6b", n) + "zz"}
			for ni, name := range names {
				for ci, coll := range []string{"ListType(" + P + "Int32Type)", "SetType(" + P + "UTF8Type)", "MapType(" + P + "Int32Type," + P + "BytesType)"} {
					if ni > 0 && ci > 0 && n != 49 && n != 100 {
						continue
					}
					one := name + ":" + P + coll
					add(P + "CompositeType(" + P + "Int32Type," + P + "ColumnToCollectionType(" + one + "))")
					if ci == 0 {
						add(P + "CompositeType(" + P + "ColumnToCollectionType(" + one + "))")
						add(P + "CompositeType(" + P + "UTF8Type," + P + "ColumnToCollectionType(61:" + P + coll + "," + one + "))")
						add(P + "CompositeType(" + P + "UTF8Type," + P + "ColumnToCollectionType(" + one + ",62:" + P + coll + "," + one + "x))")
						add(P + "ColumnToCollectionType(" + one + ")")                                            // not inside a composite
						add(P + "CompositeType(" + P + "ColumnToCollectionType(" + one + ")," + P + "Int32Type)") // not last
					}
				}
			}
		}
		// parameter counts 0..5 for every class name the parser knows (and two it does not), named and unnamed
		for _, cls := range []string{"ReversedType", "CompositeType", "ColumnToCollectionType", "ListType", "SetType", "MapType", "TupleType", "UserType", "FrozenType", "Int32Type"} {
			add(P + cls)
			for n := 0; n <= 5; n++ {
				ps, named := make([]string, n), make([]string, n)
				for i := range ps {
					ps[i] = P + "Int32Type"
					named[i] = fmt.Sprintf("6%d:", i) + P + "UTF8Type"
				}
				add(P + cls + "(" + strings.Join(ps, ",") + ")")
				add(P + cls + "(" + strings.Join(named, ",") + ")")
				add(P + "CompositeType(" + P + "BytesType," + P + cls + "(" + strings.Join(named, ",") + "))")
				add(P + "ReversedType(" + P + cls + "(" + strings.Join(ps, ",") + "))")
			}
		}
		// nesting depths
		for _, d := range []int{1, 2, 3, 5, 10, 50, 200, 1000} {
			for _, cls := range []string{"ListType", "ReversedType", "CompositeType", "MapType"} {
				add(rep(P+cls+"(", d) + P + "Int32Type" + rep(")", d))
			}
			add(rep(P+"ListType(", d) + P + "Int32Type" + rep(")", d-1)) // one ")" short
			add(P + "CompositeType(" + rep(P+"ColumnToCollectionType(61:", d) + P + "Int32Type" + rep(")", d) + ")")
		}
		// very long identifiers: class names, parameter names, white space runs
		for _, n := range []int{1, 47, 48, 49, 255, 256, 1000, 10000, 70000} {
			add(rep("A", n))
			add(P + rep("x", n))
			add(P + "ListType(" + rep("y", n) + ")")
			add(P + "CompositeType(" + P + "ColumnToCollectionType(" + rep("a", n) + ":" + rep("B", n) + "))")
			add(P + "MapType(" + rep(" ", n) + P + "Int32Type" + rep("\t", n) + "," + P + "UTF8Type)")
			add(rep("(", n))
			add("A(" + rep(",", n) + ")")
			add("A(" + rep(":", n) + ")")
		}
		nb, np := 0, 0
		for _, s := range all {
			short := len(s) <= 400
			// (a Coq case only up to 2500 bytes: a list literal of 70000 numbers overflows coqc's stack)
			tryMarshal("marshal-type-boundary", s, short || (nb%5 == 0 && len(s) <= 2500))
			nb++
			// every prefix (all of them for strings up to 2500 bytes; for the longer ones the first and last 400 cuts)
			for cut := 0; cut < len(s); cut++ {
				if len(s) > 2500 && cut > 400 && cut < len(s)-400 {
					continue
				}
				np++
				tryMarshal("marshal-type-boundary-prefix", s[:cut], short && np%150 == 0)
			}
		}
		o.Extra["marshal_type_boundary_strings"] = len(all)
	}
	for _, s := range []string{"frozen<", "set<", "list<", "map<", "tuple<", "map<int>", "map<int, int, int>", "frozen<>", "tuple<>", "", "<", ">", "map<,>"} {
		tryCQL("cql-type-edge", s, true)
	}

	o.Extra["panics_by_site"] = h.panics
	// ---- system.local / system.peers rows through the host-row decoders -----------------------------------------
	hostRows(h)
	hostChildScenarios(o)
	// ---- sites of repaired defects, driven with the input that made them panic ----------------------------------
	siteStreams(h)
	// ---- PREPARED / rows replies the layers above parseFrame must survive, on a real session -------------------
	execScenarios(h)
	// ---- the driver's own goroutines: handshake and heartbeat against a scripted node, in child processes ------
	connScenarios(o)
	o.Finish("From GocqlV Require Import Lib.Base C04.Model C04.Spec C04.Corr C05.Model C05.Conn C05.Corr.", "C05.Corr.case", "C05.Corr.run")
}

var _ = gocql.ErrNotFound
