// C01 harness: every response reaches the request that caused it, and only that one.
// Histories against the scripted in-memory node (see c01lib): unique token per request, echoed by the
// node; monitors on what the callers were handed; the per-connection event logs are emitted as Coq
// cases and replayed through the connection model (C01.Corr.check).
package main

import (
	"gocqlverif/c01lib"
	"gocqlverif/hlib"
)

func main() {
	o := hlib.Init("C01")
	o.Rule = "one case = one session history (1..64 concurrent callers + follow-up wave, protocol 1..5, scripted server fates / answer order / " +
		"cancellations / one connection fault); distinct = distinct event logs; non-trivial = at least one token request completed a caller"
	n := 200 * o.Scale
	if o.Search {
		n = 60 * o.Scale
	}
	var hs []*c01lib.Hist
	// the F-C01-1 scenario (mid-body stall across five read timeouts; fixed finding body-timeout-misroute), on both header widths
	hs = append(hs, c01lib.StallHist(0, 4), c01lib.StallHist(1, 2))
	// cancellation inside the write-coalescing window, then id reuse while the answers are late
	for v, proto := range []int{2, 4, 2, 3, 2, 1} {
		hs = append(hs, c01lib.CoalCancelHist(len(hs), proto, v))
	}
	for i := len(hs); i < n; i++ {
		hs = append(hs, c01lib.Gen(o.Rng, i, c01lib.Routing))
	}
	reps := c01lib.RunAll(hs, 6, 5)
	c01lib.Emit(o, reps)
	o.Finish("From GocqlV Require Import Lib.Base C01.Corr.", "C01.Corr.case", "C01.Corr.run")
}
