// C01 harness: every response reaches the request that caused it, and only that one.
// Histories against the scripted in-memory node (see c01lib): unique token per request, echoed by the
// node; monitors on what the callers were handed; the per-connection event logs are emitted as Coq
// cases and replayed through the connection model (C01.Corr.check).
package main

import (
	"gocqlverif/c01lib"
	"gocqlverif/hlib"
)

func main() {
	o := hlib.Init("C01")
	o.Rule = "one case = one session history (1..64 concurrent callers + follow-up wave, protocol 1..5, scripted server fates / answer order / " +
		"cancellations / one connection fault); distinct = distinct event logs; non-trivial = at least one token request completed a caller"
	n := 200 * o.Scale
	if o.Search {
		n = 60 * o.Scale
	}
	var hs []*c01lib.Hist
	// the F-C01-1 scenario (mid-body stall across five read timeouts; fixed finding body-timeout-misroute), on both header widths
	hs = append(hs, c01lib.StallHist(0, 4), c01lib.StallHist(1, 2))
	// cancellation inside the write-coalescing window, then id reuse while the answers are late
	for v, proto := range []int{2, 4, 2, 3, 2, 1} {
		hs = append(hs, c01lib.CoalCancelHist(len(hs), proto, v))
	}
	// ... and contexts that expire while the Write call itself is in progress (slow client->server link)
	for v, proto := range []int{2, 4, 2, 1} {
		hs = append(hs, c01lib.WriteStallCancelHist(len(hs), proto, v, v != 3))
	}
	// a response body interrupted by 1..4 temporary read errors (fewer than Conn.Read's retries) at every cut
	// class, with the other callers' responses following on the wire
	for nerr := 1; nerr <= 4; nerr++ {
		for cut := 0; cut < 3; cut++ {
			k := len(hs)
			hs = append(hs, c01lib.TempErrHist(k, []int{4, 2, 3, 1, 5}[k%5], nerr, cut, (nerr+cut)%4, 5))
		}
	}
	// the heartbeat's OPTIONS answered with an ERROR frame while other requests are outstanding; and answers
	// whose header carries another valid protocol version (exec refuses them and must still release the id)
	for v, proto := range []int{4, 2} {
		hs = append(hs, c01lib.HeartbeatErrHist(len(hs), proto, 3+v))
	}
	for _, proto := range []int{4, 2, 3, 5, 1} {
		hs = append(hs, c01lib.WrongVersionHist(len(hs), proto, 6))
	}
	// a per-request framing error must consume the frame: compress-flagged answers without a compressor
	for variant := 1; variant <= 3; variant++ {
		for _, proto := range []int{4, 2} {
			hs = append(hs, c01lib.FlagBodyHist(len(hs), proto, variant))
		}
	}
	for i := len(hs); i < n; i++ {
		hs = append(hs, c01lib.Gen(o.Rng, i, c01lib.Routing))
	}
	reps := c01lib.RunAll(hs, 6, 5)
	// the deprecated TimeoutLimit knob: more than TimeoutLimit timeouts close the connection from inside exec
	for _, limit := range []int{1, 2} {
		g := []*c01lib.Hist{c01lib.TimeoutLimitHist(len(reps), 4, limit, limit+2, 0)}
		reps = append(reps, c01lib.RunAllLimit(g, 6, 5, int64(limit))...)
	}
	c01lib.Emit(o, reps)
	o.Finish("From GocqlV Require Import Lib.Base C01.Corr.", "C01.Corr.case", "C01.Corr.run")
}
