package main

import (
	"bytes"
	"crypto/tls"
	"fmt"
	"net"
	"sync"
	"time"

	"context"

	"github.com/gocql/gocql"
	"gocqlverif/hlib"
)

// multiDialer: every dial gets its own scripted responder (the pool may dial more than once)
type multiDialer struct {
	mu     sync.Mutex
	frames []FrameSpec
	cert   *serverCert // nil: plaintext
	resps  []*responder
	wg     sync.WaitGroup
}

func (d *multiDialer) DialContext(ctx context.Context, network, addr string) (net.Conn, error) {
	c, s := newPipe()
	r := &responder{frames: d.frames}
	d.mu.Lock()
	d.resps = append(d.resps, r)
	d.mu.Unlock()
	d.wg.Add(1)
	go func() {
		defer d.wg.Done()
		if d.cert == nil {
			r.serve(s)
			return
		}
		tc := tls.Server(s, &tls.Config{Certificates: []tls.Certificate{d.cert.cert}, MinVersion: tls.VersionTLS12})
		if tc.Handshake() != nil {
			s.Close()
			return
		}
		r.serve(tc)
		s.Close()
	}()
	return c, nil
}

// sessionRuns: the public result of session creation (NewSession through the real connection pool) for a
// few decisive configurations.  Monitors only: the error detail is not visible at this level.
func sessionRuns(o *hlib.Out, p *pki, okClass, badClass []byte, plainToken func(u, p []byte) []byte) {
	svs := p.serverCerts()
	right, wrongName := &svs[0], &svs[1]
	pw := AuthSpec{Kind: 1, User: []byte("cassandra"), Pass: []byte("s3cr3t-pass-sess")}
	authOK := []FrameSpec{{Kind: fSupported}, {Kind: fAuthenticate, Data: okClass}, {Kind: fAuthSuccess, Data: []byte{}}}
	authBad := []FrameSpec{{Kind: fSupported}, {Kind: fAuthenticate, Data: badClass}, {Kind: fAuthSuccess, Data: []byte{}}}
	ready := []FrameSpec{{Kind: fSupported}, {Kind: fReady}}
	caPath := ""
	for _, c := range p.caVariants() {
		if c.kind == "valid-1" {
			caPath = c.path
		}
	}
	type run struct {
		name       string
		auth       AuthSpec
		frames     []FrameSpec
		ssl        *gocql.SslOptions
		cert       *serverCert
		wantOK     bool
		wantTokens int
	}
	runs := []run{
		{"no-authenticator/ready", AuthSpec{}, ready, nil, nil, true, 0},
		{"no-authenticator/authenticate", AuthSpec{}, authOK, nil, nil, false, 0},
		{"password/approved", pw, authOK, nil, nil, true, 1},
		{"password/unapproved", pw, authBad, nil, nil, false, 0},
		{"tls-verify/right-certificate", pw, authOK, &gocql.SslOptions{EnableHostVerification: true, CaPath: caPath}, right, true, 1},
		{"tls-verify/wrong-name", pw, authOK, &gocql.SslOptions{EnableHostVerification: true, CaPath: caPath}, wrongName, false, 0},
		{"tls-no-verify/wrong-name", pw, authOK, &gocql.SslOptions{EnableHostVerification: false}, wrongName, true, 1},
		{"tls-user-config/wrong-name", pw, authOK, &gocql.SslOptions{Config: &tls.Config{}, CaPath: caPath}, wrongName, false, 0},
	}
	// the runs are independent; failing session creation takes ~3 s inside the driver, so run them side by side
	type result struct {
		d    *multiDialer
		sess bool
		err  error
		hung bool
	}
	results := make([]result, len(runs))
	var wg sync.WaitGroup
	for i, rn := range runs {
		wg.Add(1)
		go func(i int, rn run) {
			defer wg.Done()
			d := &multiDialer{frames: rn.frames, cert: rn.cert}
			cfg := newCluster(Scenario{Auth: rn.auth, Frames: rn.frames, Proto: 4}, d)
			cfg.SslOpts = rn.ssl
			cfg.NumConns = 1
			cfg.ReconnectInterval = 0
			cfg.DisableInitialHostLookup = true
			sess, err := gocql.VerifC20NewSession(*cfg)
			if sess != nil {
				sess.Close()
			}
			done := make(chan struct{})
			go func() { d.wg.Wait(); close(done) }()
			hung := false
			select {
			case <-done:
			case <-time.After(30 * time.Second):
				hung = true
			}
			results[i] = result{d, sess != nil, err, hung}
		}(i, rn)
	}
	wg.Wait()
	n := 0
	for i, rn := range runs {
		d, err := results[i].d, results[i].err
		if results[i].hung {
			o.Violate(-1, "session-server-hang", "", rn.name, nil)
		}
		n++
		o.Count("session/" + rn.name)
		in := map[string]interface{}{"run": rn.name, "error": fmt.Sprint(err)}
		created := err == nil && results[i].sess
		if created != rn.wantOK {
			kind := "session-refused"
			if created {
				kind = "session-created-unexpectedly"
			}
			o.Violate(-1, kind, "", fmt.Sprintf("%s: NewSession error = %v", rn.name, err), in)
		}
		d.mu.Lock()
		toks := 0
		for _, r := range d.resps {
			for _, t := range r.res.Toks {
				toks++
				if !bytes.Equal(t, plainToken(rn.auth.User, rn.auth.Pass)) {
					o.Violate(-1, "token-is-sasl-plain", "", fmt.Sprintf("%s: AUTH_RESPONSE %x", rn.name, t), in)
				}
			}
		}
		d.mu.Unlock()
		if rn.wantTokens == 0 && toks > 0 {
			o.Violate(-1, "token-only-if-approved", "", fmt.Sprintf("%s: %d AUTH_RESPONSE frame(s) received", rn.name, toks), in)
		}
		if rn.wantTokens > 0 && created && toks == 0 {
			o.Violate(-1, "session-without-authentication", "", rn.name+": session created, no AUTH_RESPONSE seen", in)
		}
	}
	o.Extra["session_level_runs"] = n
}
