package main

import (
	"bytes"
	"crypto/tls"
	"fmt"
	"net"
	"os"
	"os/exec"
	"strconv"
	"strings"

	"github.com/gocql/gocql"
	"gocqlverif/hlib"
)

// Contact points go through the driver's own resolution (addrsToHosts / hostInfo) before anything is dialled:
// names that resolve offline and IP literals, with GOCQL_HOST_LOOKUP_PREFER_V4 off and on.  The name the
// connection is dialled (and its certificate verified) under must be the contact point's.

func splitContact(cp string, defaultPort int) (string, int) {
	host, portStr, err := net.SplitHostPort(cp)
	if err != nil {
		return cp, defaultPort
	}
	port, _ := strconv.Atoi(portStr)
	return host, port
}

func bracketed(h string) string {
	if strings.Contains(h, ":") {
		return "[" + h + "]"
	}
	return h
}

// child process: reports the package variable as initialised from the environment and the resolution of "localhost"
func resolveChildMain() {
	pv4 := gocql.VerifC20PreferV4()
	hosts, err := gocql.VerifC20ResolveContactPoints([]string{"localhost"}, 9042, pv4)
	fmt.Printf("PREFERV4 %v\n", pv4)
	if err != nil {
		fmt.Printf("ERR %v\n", err)
		return
	}
	for _, h := range hosts {
		fmt.Printf("HOST %s %s\n", h.ConnectAddress().String(), h.HostnameAndPort())
	}
}

func contactPointCases(o *hlib.Out, p *pki, approvedBy func([]byte, [][]byte) bool, plainToken func(u, p []byte) []byte, okClass []byte) {
	contactPoints := []string{"localhost", "localhost:9142", "127.0.0.1", "127.0.0.1:9043", "::1", "[::1]:9044", "10.1.2.3", "fd00::1:2", "[fd00::1:2]:9045"}
	resolvedN := 0
	for _, pv4 := range []bool{false, true} {
		for _, cp := range contactPoints {
			host, port := splitContact(cp, 9042)
			lit := net.ParseIP(host)
			var ips []net.IP
			if lit == nil {
				var lerr error
				ips, lerr = gocql.LookupIP(host)
				if lerr != nil || len(ips) == 0 {
					o.Count("resolve-unavailable")
					continue
				}
			}
			hosts, err := gocql.VerifC20ResolveContactPoints([]string{cp}, 9042, pv4)
			in := map[string]interface{}{"contact_point": cp, "GOCQL_HOST_LOOKUP_PREFER_V4": pv4}
			if err != nil {
				o.Violate(-1, "contact-point-not-resolved", "", fmt.Sprintf("%q: %v", cp, err), in)
				continue
			}
			resolvedN++
			litTerm := "None"
			if lit != nil {
				litTerm = hlib.Some(hlib.ZList([]byte(lit.String())))
			}
			var ipTerms, outTerms []string
			for _, ip := range ips {
				ipTerms = append(ipTerms, hlib.Pair(hlib.ZList([]byte(ip.String())), hlib.Bool(ip.To4() != nil)))
			}
			for _, h := range hosts {
				outTerms = append(outTerms, hlib.Pair(hlib.ZList([]byte(h.ConnectAddress().String())), hlib.ZList([]byte(h.HostnameAndPort()))))
			}
			idx := o.Case("resolve", true, fmt.Sprintf("CResolve %s %s %s %s %s %s", hlib.ZList([]byte(host)), hlib.ZList([]byte(strconv.Itoa(port))), litTerm,
				hlib.List(ipTerms), hlib.Bool(pv4), hlib.List(outTerms)))
			if len(hosts) == 0 {
				o.Violate(idx, "contact-point-not-resolved", "", "no host", in)
			}
			for _, h := range hosts {
				want := net.JoinHostPort(host, strconv.Itoa(port))
				if got := h.HostnameAndPort(); got != want {
					o.Violate(idx, "dialled-name-is-contact-point", "", fmt.Sprintf("contact point %q is dialled as %q, want %q", cp, got, want), in)
				}
				// the name a verifying configuration without ServerName checks the certificate against
				res := gocql.VerifC20TLSConfigForAddr(&tls.Config{}, h.HostnameAndPort())
				o.Case("for-addr", true, fmt.Sprintf("CForAddr (mkObs false [] None 0 0) %s (mkObs false %s None 0 0) false (mkObs false [] None 0 0)",
					hlib.ZList([]byte(h.HostnameAndPort())), hlib.ZList([]byte(res.ServerName))))
				if res.ServerName != bracketed(host) {
					o.Violate(idx, "server-name-is-dialled-host", "", fmt.Sprintf("contact point %q: ServerName %q, want %q", cp, res.ServerName, bracketed(host)), in)
				}
			}
		}
	}
	o.Extra["contact_points_resolved"] = resolvedN

	// the environment variable really reaches the package variable (it is read once, at package initialisation)
	for _, val := range []string{"", "true"} {
		cmd := exec.Command(os.Args[0])
		cmd.Env = append(os.Environ(), "C20_RESOLVE=1", "GOCQL_HOST_LOOKUP_PREFER_V4="+val)
		var stdout bytes.Buffer
		cmd.Stdout = &stdout
		err := cmd.Run()
		out := stdout.String()
		in := map[string]interface{}{"GOCQL_HOST_LOOKUP_PREFER_V4": val, "output": out}
		o.Count("resolve-env-process")
		if err != nil || !strings.Contains(out, fmt.Sprintf("PREFERV4 %v", val == "true")) {
			o.Violate(-1, "prefer-v4-env-not-read", "", fmt.Sprintf("child with GOCQL_HOST_LOOKUP_PREFER_V4=%q: %v %s", val, err, out), in)
		}
		for _, line := range strings.Split(out, "\n") {
			if strings.HasPrefix(line, "HOST ") {
				f := strings.Fields(line)
				if len(f) != 3 || f[2] != "localhost:9042" {
					o.Violate(-1, "dialled-name-is-contact-point", "", fmt.Sprintf("GOCQL_HOST_LOOKUP_PREFER_V4=%q: contact point \"localhost\" is dialled as %q", val, line), in)
				}
			}
		}
	}

	// whole chain from the contact point "localhost": verification on, no ServerName.  A certificate for another
	// name that also carries the IP SAN of the resolved address must be refused; one for "localhost" accepted.
	var validCA caFile
	for _, c := range p.caVariants() {
		if c.kind == "valid-1" {
			validCA = c
		}
	}
	mk := func(kind string, dns []string, ips []string) serverCert {
		var nips []net.IP
		names := append([]string{}, dns...)
		for _, s := range ips {
			nips = append(nips, net.ParseIP(s))
			names = append(names, net.ParseIP(s).String())
		}
		c, _, _ := p.leaf(1, dns, nips, false)
		return serverCert{kind: kind, issuer: 1, names: names, cert: c}
	}
	certs := []serverCert{mk("other-name+resolved-ip", []string{"db.internal.example"}, []string{"127.0.0.1", "::1"}), mk("localhost-only", []string{"localhost"}, nil)}
	fs := []FrameSpec{{Kind: fSupported}, {Kind: fReady}}
	chains := 0
	for _, pv4 := range []bool{false, true} {
		hosts, err := gocql.VerifC20ResolveContactPoints([]string{"localhost"}, 9042, pv4)
		if err != nil || len(hosts) == 0 {
			o.Count("resolve-unavailable")
			continue
		}
		for _, configNil := range []bool{true, false} {
			for _, sv := range certs {
				sc := sslCase{configNil: configNil, hv: true, ca: validCA, kp: kpFile{kind: "absent"}}
				runChainHost(o, p, &sc, "localhost", hosts[0].ConnectAddress(), hosts[0], sv, AuthSpec{}, fs, 0, approvedBy, plainToken)
				chains++
			}
		}
	}
	o.Extra["contact_point_chain_runs"] = chains
}
