package main

import (
	"crypto/ecdsa"
	"crypto/elliptic"
	"crypto/rand"
	"crypto/tls"
	"crypto/x509"
	"crypto/x509/pkix"
	"encoding/pem"
	"fmt"
	"math/big"
	"os"
	"time"

	"github.com/gocql/gocql"
)

func main() {
	key, _ := ecdsa.GenerateKey(elliptic.P256(), rand.Reader)
	tmpl := &x509.Certificate{SerialNumber: big.NewInt(1), Subject: pkix.Name{CommonName: "ca1"}, NotBefore: time.Now().Add(-time.Hour), NotAfter: time.Now().Add(time.Hour), IsCA: true, BasicConstraintsValid: true, KeyUsage: x509.KeyUsageCertSign}
	der, _ := x509.CreateCertificate(rand.Reader, tmpl, tmpl, &key.PublicKey, key)
	os.WriteFile("/verif/work/C20-scratch/ca.pem", pem.EncodeToMemory(&pem.Block{Type: "CERTIFICATE", Bytes: der}), 0o644)
	pool := x509.NewCertPool()
	cfg := &tls.Config{RootCAs: pool}
	fmt.Println("before", len(pool.Subjects()))
	out, err := gocql.VerifC20SetupTLSConfig(&gocql.SslOptions{Config: cfg, CaPath: "/verif/work/C20-scratch/ca.pem"})
	fmt.Println("after", len(pool.Subjects()), err, out.RootCAs == pool, out == cfg)
}
