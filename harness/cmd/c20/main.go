// C20 harness: TLS verification and credential disclosure.
//
// Runs the real implementation (package gocql, via public API and the add-only verif_shim_c20.go) on
//   - every combination of the TLS configuration options (setupTLSConfig, tlsConfigForAddr, WrapTLS), with
//     CA / key-pair files written at run time (valid, unreadable, garbage) and real TLS handshakes against an
//     in-process server over an in-memory connection;
//   - connection set-up (OPTIONS / STARTUP / authentication) against a tiny scripted responder with its own
//     frame writer, for every authenticator configuration;
//
// records (input, implementation output) as Coq correspondence cases for C20/Corr.v and evaluates the
// property monitors (the documented table, "caller's config untouched", "file errors are errors",
// "token only to an approved class, and it is SASL PLAIN", "no authenticator => no session") on the
// implementation's own outputs.
package main

import (
	"bufio"
	"bytes"
	"context"
	"crypto/tls"
	"crypto/x509"
	"encoding/binary"
	"encoding/json"
	"errors"
	"fmt"
	"io"
	"log"
	"net"
	"os"
	"os/exec"
	"path/filepath"
	"strconv"
	"strings"
	"time"

	"github.com/gocql/gocql"
	"gocqlverif/hlib"
)

// ---------------------------------------------------------------------------------------------
// scenarios of the CQL handshake (JSON-serialisable: they run in a worker process)

const (
	fSupported = iota
	fReady
	fAuthenticate
	fAuthChallenge
	fAuthSuccess
	fError
	fOther
)

type FrameSpec struct {
	Kind int
	Data []byte // class / challenge / success data
	Code int    // error code
}

type ReplySpec struct {
	Err  bool
	Data []byte
	Next bool
}

type AuthSpec struct {
	Kind    int // 0 none, 1 password, 2 scripted
	User    []byte
	Pass    []byte
	Allowed [][]byte
	Script  []ReplySpec
	SuccOK  bool
}

type Scenario struct {
	Auth   AuthSpec
	Frames []FrameSpec
	Proto  int
}

type HsResult struct {
	Code, Srv int
	Toks      [][]byte
	NOpt      int
	NStart    int
	Sent      int      // frames the responder actually sent
	OtherReqs [][]byte // bodies of every request that is not AUTH_RESPONSE
	ErrText   string
}

// record one request the responder received
func (res *HsResult) record(op byte, body []byte) {
	switch op {
	case 0x05:
		res.NOpt++
		res.OtherReqs = append(res.OtherReqs, body)
	case 0x01:
		res.NStart++
		res.OtherReqs = append(res.OtherReqs, body)
	case 0x0F:
		tok := []byte{}
		if len(body) >= 4 {
			l := int32(binary.BigEndian.Uint32(body))
			if l >= 0 && int(l) <= len(body)-4 {
				tok = body[4 : 4+l]
			}
		}
		res.Toks = append(res.Toks, tok)
	default:
		res.OtherReqs = append(res.OtherReqs, body)
	}
}

func frameTerm(f FrameSpec) string {
	switch f.Kind {
	case fSupported:
		return "FSupported"
	case fReady:
		return "FReady"
	case fAuthenticate:
		return "FAuthenticate " + hlib.ZList(f.Data)
	case fAuthChallenge:
		return "FAuthChallenge " + hlib.ZList(f.Data)
	case fAuthSuccess:
		return "FAuthSuccess " + hlib.ZList(f.Data)
	case fError:
		return "FError " + hlib.Z(int64(f.Code))
	}
	return "FOther"
}

func framesTerm(fs []FrameSpec) string {
	ss := make([]string, len(fs))
	for i, f := range fs {
		ss[i] = frameTerm(f)
	}
	return hlib.List(ss)
}

func bytesListTerm(l [][]byte) string {
	ss := make([]string, len(l))
	for i, b := range l {
		ss[i] = hlib.ZList(b)
	}
	return hlib.List(ss)
}

func authTerm(a AuthSpec) string {
	switch a.Kind {
	case 0:
		return "ANone"
	case 1:
		return fmt.Sprintf("(APassword %s %s %s)", hlib.ZList(a.User), hlib.ZList(a.Pass), bytesListTerm(a.Allowed))
	}
	ss := make([]string, len(a.Script))
	for i, r := range a.Script {
		if r.Err {
			ss[i] = "RErr"
		} else {
			ss[i] = fmt.Sprintf("RResp %s %s", hlib.ZList(r.Data), hlib.Bool(r.Next))
		}
	}
	return fmt.Sprintf("(AScript %s %s)", hlib.List(ss), hlib.Bool(a.SuccOK))
}

// scripted user Authenticator: answers successive Challenge calls from a list
type scriptAuth struct {
	replies []ReplySpec
	pos     int
	succOK  bool
}

func (a *scriptAuth) Challenge(req []byte) ([]byte, gocql.Authenticator, error) {
	if a.pos >= len(a.replies) {
		return nil, nil, errors.New("scripted authenticator: no more replies")
	}
	r := a.replies[a.pos]
	a.pos++
	if r.Err {
		return nil, nil, errors.New("scripted authenticator: error")
	}
	var next gocql.Authenticator
	if r.Next {
		next = a
	}
	d := r.Data
	if d == nil {
		d = []byte{}
	}
	return d, next, nil
}

func (a *scriptAuth) Success(data []byte) error {
	if a.succOK {
		return nil
	}
	return errors.New("scripted authenticator: success rejected")
}

func strs(l [][]byte) []string {
	var out []string
	for _, b := range l {
		out = append(out, string(b))
	}
	return out
}

func authenticatorOf(a AuthSpec) gocql.Authenticator {
	switch a.Kind {
	case 1:
		return gocql.PasswordAuthenticator{Username: string(a.User), Password: string(a.Pass), AllowedAuthenticators: strs(a.Allowed)}
	case 2:
		return &scriptAuth{replies: a.Script, succOK: a.SuccOK}
	}
	return nil
}

// ---------------------------------------------------------------------------------------------
// the scripted responder: own minimal frame reader/writer (9-byte v3/v4 header + body)

type responder struct {
	frames []FrameSpec
	res    HsResult
	onReq  func(op byte, body []byte) // called as soon as a request has been read (the worker process prints it)
}

func appendString(b []byte, s []byte) []byte {
	b = append(b, byte(len(s)>>8), byte(len(s)))
	return append(b, s...)
}

func appendBytes(b []byte, d []byte) []byte {
	var l [4]byte
	binary.BigEndian.PutUint32(l[:], uint32(len(d)))
	b = append(b, l[:]...)
	return append(b, d...)
}

func encodeFrame(f FrameSpec, proto byte, stream uint16) []byte {
	var op byte
	var body []byte
	switch f.Kind {
	case fSupported:
		op = 0x06
		body = append(body, 0, 1)
		body = appendString(body, []byte("CQL_VERSION"))
		body = append(body, 0, 1)
		body = appendString(body, []byte("3.0.0"))
	case fReady:
		op = 0x02
	case fAuthenticate:
		op = 0x03
		body = appendString(body, f.Data)
	case fAuthChallenge:
		op = 0x0E
		body = appendBytes(body, f.Data)
	case fAuthSuccess:
		op = 0x10
		body = appendBytes(body, f.Data)
	case fError:
		op = 0x00
		var c [4]byte
		binary.BigEndian.PutUint32(c[:], uint32(f.Code))
		body = append(body, c[:]...)
		body = appendString(body, []byte("scripted error"))
	default: // RESULT void
		op = 0x08
		body = append(body, 0, 0, 0, 1)
	}
	h := []byte{0x80 | proto, 0, byte(stream >> 8), byte(stream), op, 0, 0, 0, 0}
	binary.BigEndian.PutUint32(h[5:], uint32(len(body)))
	return append(h, body...)
}

// serve answers each request with the next scripted frame on the request's stream; when the script is
// exhausted it closes the connection.
func (r *responder) serve(c net.Conn) {
	defer c.Close()
	next := 0
	for {
		var h [9]byte
		if _, err := io.ReadFull(c, h[:]); err != nil {
			return
		}
		n := binary.BigEndian.Uint32(h[5:])
		if n > 1<<20 {
			return
		}
		body := make([]byte, n)
		if _, err := io.ReadFull(c, body); err != nil {
			return
		}
		if r.onReq != nil {
			r.onReq(h[4], body)
		}
		r.res.record(h[4], body)
		if next >= len(r.frames) {
			return
		}
		stream := uint16(h[2])<<8 | uint16(h[3])
		if _, err := c.Write(encodeFrame(r.frames[next], h[0]&0x7f, stream)); err != nil {
			return
		}
		next++
		r.res.Sent = next
	}
}

// ---------------------------------------------------------------------------------------------
// driving gocql's connection set-up

var silent = log.New(io.Discard, "", 0)

type pipeDialer struct {
	server func(net.Conn) // run in a goroutine on the server end
	dialed int
	done   chan struct{}
}

func (d *pipeDialer) DialContext(ctx context.Context, network, addr string) (net.Conn, error) {
	c, s := newPipe()
	d.dialed++
	d.done = make(chan struct{})
	done := d.done
	go func() {
		defer close(done)
		d.server(s)
	}()
	return c, nil
}

func (d *pipeDialer) wait() bool {
	if d.done == nil {
		return true
	}
	select {
	case <-d.done:
		return true
	case <-time.After(20 * time.Second):
		return false
	}
}

func classify(established bool, err error) (int, int) {
	if err == nil {
		if established {
			return 0, 0
		}
		return 4, 0
	}
	msg := err.Error()
	if strings.HasPrefix(msg, "authentication required (using") {
		return 1, 0
	}
	if strings.HasPrefix(msg, "unexpected authenticator") {
		return 2, 0
	}
	var re gocql.RequestError
	if errors.As(err, &re) {
		return 3, re.Code()
	}
	return 4, 0
}

func newCluster(s Scenario, d gocql.Dialer) *gocql.ClusterConfig {
	cfg := gocql.NewCluster("10.1.2.3")
	cfg.ProtoVersion = s.Proto
	cfg.ConnectTimeout = 10 * time.Second
	cfg.Timeout = 10 * time.Second
	cfg.Dialer = d
	cfg.Logger = silent
	if a := authenticatorOf(s.Auth); a != nil {
		cfg.Authenticator = a
	}
	return cfg
}

// runScenario: plain (no TLS) connection set-up against the scripted responder
func runScenario(s Scenario, onReq func(byte, []byte)) HsResult {
	r := &responder{frames: s.Frames, onReq: onReq}
	d := &pipeDialer{server: r.serve}
	cfg := newCluster(s, d)
	ok, err := gocql.VerifC20Connect(context.Background(), cfg, "", net.ParseIP("10.1.2.3"), 9042)
	if !d.wait() {
		r.res.ErrText = "responder did not terminate"
	}
	r.res.Code, r.res.Srv = classify(ok, err)
	if err != nil {
		r.res.ErrText += err.Error()
	}
	return r.res
}

// A panic on a driver goroutine (e.g. the nil challenger dereferenced in authenticateHandshake) cannot be
// recovered in-process, so all handshake scenarios run in a worker process: it reports every request the
// responder receives and every result as it happens; when it dies, the scenario it was running is the
// crashing one, and a new worker continues after it.
func workerMain(path string) {
	data, err := os.ReadFile(path)
	if err != nil {
		fmt.Println("BAD", err)
		os.Exit(3)
	}
	var scns []Scenario
	if err := json.Unmarshal(data, &scns); err != nil {
		fmt.Println("BAD", err)
		os.Exit(3)
	}
	w := bufio.NewWriter(os.Stdout)
	for i, s := range scns {
		fmt.Fprintf(w, "BEGIN %d\n", i)
		w.Flush()
		res := runScenario(s, func(op byte, body []byte) {
			fmt.Fprintf(w, "REQ %d %d %x\n", i, op, body)
			w.Flush()
		})
		js, _ := json.Marshal(res)
		fmt.Fprintf(w, "RES %d %s\n", i, js)
		w.Flush()
	}
	os.Exit(0)
}

func runBatch(dir string, scns []Scenario) (results []HsResult, workers int) {
	results = make([]HsResult, len(scns))
	start := 0
	for start < len(scns) {
		workers++
		path := filepath.Join(dir, "batch.json")
		js, _ := json.Marshal(scns[start:])
		must(os.WriteFile(path, js, 0o644))
		cmd := exec.Command(os.Args[0])
		cmd.Env = append(os.Environ(), "C20_WORKER="+path)
		var stdout, stderr bytes.Buffer
		cmd.Stdout, cmd.Stderr = &stdout, &stderr
		runErr := cmd.Run()
		done := 0
		var partial HsResult
		begun := -1
		sc := bufio.NewScanner(&stdout)
		sc.Buffer(make([]byte, 1<<20), 1<<26)
		for sc.Scan() {
			line := sc.Text()
			switch {
			case strings.HasPrefix(line, "BEGIN "):
				fmt.Sscanf(line[6:], "%d", &begun)
				partial = HsResult{}
			case strings.HasPrefix(line, "REQ "):
				var i, op int
				var body []byte
				parts := strings.SplitN(line[4:], " ", 3)
				i, _ = strconv.Atoi(parts[0])
				op, _ = strconv.Atoi(parts[1])
				if len(parts) > 2 {
					fmt.Sscanf(parts[2], "%x", &body)
				}
				if body == nil {
					body = []byte{}
				}
				if i == begun {
					partial.record(byte(op), body)
				}
			case strings.HasPrefix(line, "RES "):
				sp := strings.IndexByte(line[4:], ' ')
				i, _ := strconv.Atoi(line[4 : 4+sp])
				var r HsResult
				if json.Unmarshal([]byte(line[4+sp+1:]), &r) == nil && start+i < len(results) {
					results[start+i] = r
					done = i + 1
				}
			}
		}
		if start+done >= len(scns) {
			break
		}
		// the worker died while running scenario start+done
		r := partial
		if begun != done {
			r = HsResult{}
		}
		r.Sent = len(scns[start+done].Frames)
		if runErr != nil && strings.Contains(stderr.String(), "nil pointer dereference") {
			r.Code = 5
		} else {
			r.Code = 6 // unclassifiable: reported, and will not match the model
		}
		r.ErrText = "worker process: " + firstLines(stderr.String(), 6)
		results[start+done] = r
		start += done + 1
	}
	return results, workers
}

func firstLines(s string, n int) string {
	l := strings.SplitN(s, "\n", n+1)
	if len(l) > n {
		l = l[:n]
	}
	return strings.Join(l, " | ")
}

// ---------------------------------------------------------------------------------------------
// observing tls.Config values

type cfgObs struct {
	Insecure bool
	Name     string
	Roots    []int // nil: RootCAs == nil ; otherwise ids of the harness authorities in the pool
	HasRoots bool
	NCerts   int
	Other    int // bit mask of the other tls.Config fields that are set (see other.go)
}

func (p *pki) obs(c *tls.Config) *cfgObs {
	if c == nil {
		return nil
	}
	o := &cfgObs{Insecure: c.InsecureSkipVerify, Name: c.ServerName, NCerts: len(c.Certificates), Other: otherMask(c)}
	if c.RootCAs != nil {
		o.HasRoots = true
		o.Roots = p.poolIDs(c.RootCAs)
	}
	return o
}

func obsTerm(o *cfgObs) string {
	if o == nil {
		return "None"
	}
	return hlib.Some(obsTermBare(o))
}

func obsTermBare(o *cfgObs) string {
	roots := "None"
	if o.HasRoots {
		ids := make([]int64, len(o.Roots))
		for i, x := range o.Roots {
			ids[i] = int64(x)
		}
		roots = hlib.Some(hlib.ZListI(ids))
	}
	return fmt.Sprintf("(mkObs %s %s %s %d %d)", hlib.Bool(o.Insecure), hlib.ZList([]byte(o.Name)), roots, o.NCerts, o.Other)
}

func obsEq(a, b *cfgObs) bool {
	if a == nil || b == nil {
		return a == b
	}
	if a.Insecure != b.Insecure || a.Name != b.Name || a.HasRoots != b.HasRoots || a.NCerts != b.NCerts || a.Other != b.Other || len(a.Roots) != len(b.Roots) {
		return false
	}
	for i := range a.Roots {
		if a.Roots[i] != b.Roots[i] {
			return false
		}
	}
	return true
}

// the documented table (doc.go "Transport layer security"), transcribed row by row: result true = "verify host"
func documented(configNil bool, insecureSkipVerify bool, enableHostVerification bool) bool {
	type row struct {
		cfg string
		hv  bool
		res bool
	}
	rows := []row{
		{"nil", false, false},
		{"nil", true, true},
		{"false", false, true},
		{"true", false, false},
		{"false", true, true},
		{"true", true, true},
	}
	col := "nil"
	if !configNil {
		col = strconv.FormatBool(insecureSkipVerify)
	}
	for _, r := range rows {
		if r.cfg == col && r.hv == enableHostVerification {
			return r.res
		}
	}
	panic("row missing")
}

// ---------------------------------------------------------------------------------------------
// file fixtures

type caFile struct {
	path   string
	set    bool
	read   bool  // ReadFile succeeds
	certs  []int // authorities in the file
	kind   string
	class  int // 0 absent, 1 valid, 2 unreadable, 3 garbage
	fcaStr string
}

type kpFile struct {
	cert, key string
	ok        bool
	kind      string
	class     int // 0 absent, 1 cert only, 2 key only, 3 both valid, 4 both set invalid
}

func (c caFile) fcaTerm() string {
	if !c.read {
		return "None"
	}
	ids := make([]int64, len(c.certs))
	for i, x := range c.certs {
		ids[i] = int64(x)
	}
	return hlib.Some(hlib.ZListI(ids))
}

type sslCase struct {
	configNil bool
	insecure  bool
	name      string
	hasRoots  bool
	roots     []int
	ncerts    int
	hv        bool
	ca        caFile
	kp        kpFile
	other     int // other tls.Config fields set on the caller's config
}

func (p *pki) buildConfig(sc sslCase) *tls.Config {
	if sc.configNil {
		return nil
	}
	c := &tls.Config{InsecureSkipVerify: sc.insecure, ServerName: sc.name}
	applyOther(c, sc.other)
	if sc.hasRoots {
		c.RootCAs = x509.NewCertPool()
		for _, id := range sc.roots {
			c.RootCAs.AddCert(p.cas[id].cert)
		}
	}
	for i := 0; i < sc.ncerts; i++ {
		c.Certificates = append(c.Certificates, p.clientCert)
	}
	return c
}

func (p *pki) sslOptions(sc sslCase) (*gocql.SslOptions, *tls.Config) {
	c := p.buildConfig(sc)
	return &gocql.SslOptions{Config: c, EnableHostVerification: sc.hv, CaPath: sc.ca.path, CertPath: sc.kp.cert, KeyPath: sc.kp.key}, c
}

func (p *pki) sslTerm(sc sslCase, before *cfgObs) string {
	return fmt.Sprintf("(mkSsl %s %s %s %s %s %s %s)", obsTerm(before), hlib.Bool(sc.hv), hlib.Bool(sc.ca.path != ""),
		hlib.Bool(sc.kp.cert != ""), hlib.Bool(sc.kp.key != ""), sc.ca.fcaTerm(), hlib.Bool(sc.kp.ok))
}

func setupErrCode(err error) int {
	if err == nil {
		return 0
	}
	m := err.Error()
	switch {
	case strings.Contains(m, "unable to open CA certs"):
		return 1
	case strings.Contains(m, "failed parsing or CA certs"):
		return 2
	case strings.Contains(m, "unable to load X509 key pair"):
		return 3
	}
	return 9
}

func contains(l []int, x int) bool {
	for _, y := range l {
		if y == x {
			return true
		}
	}
	return false
}

// ---------------------------------------------------------------------------------------------

func main() {
	if os.Getenv("C20_RESOLVE") != "" {
		resolveChildMain()
		return
	}
	if path := os.Getenv("C20_WORKER"); path != "" {
		workerMain(path)
		return
	}
	o := hlib.Init("C20")
	go func() { // watchdog: a hang must not look like a pass
		time.Sleep(25 * time.Minute)
		fmt.Fprintln(os.Stderr, "c20 harness: watchdog expired")
		os.Exit(4)
	}()
	r := o.Rng
	o.Rule = "TLS: every combination of {Config nil | InsecureSkipVerify x ServerName x RootCAs} x EnableHostVerification x CA file {absent, valid, unreadable, garbage} x " +
		"key pair {absent, cert only, key only, valid, invalid} (concrete variants of files/pools drawn per combination; all variants in the thorough tier), " +
		"addresses as name/IPv4/IPv6 with port and malformed, real TLS handshakes with right / wrong-name / untrusted certificates; " +
		"authentication: all server scripts up to length 2 (3 in thorough) over {SUPPORTED, READY, AUTHENTICATE(class), AUTH_CHALLENGE, AUTH_SUCCESS, ERROR, RESULT} " +
		"x 10 authenticator configurations + random longer scripts, class names from the default list / custom lists / near misses / arbitrary bytes, " +
		"user names and passwords empty, ASCII, UTF-8, with NUL; non-trivial = some option set or Config present (TLS), script longer than one frame (authentication)"
	fixdir := filepath.Join(o.Dir, "fixtures")
	os.RemoveAll(fixdir)
	os.MkdirAll(fixdir, 0o755)
	p := newPKI(fixdir, r)
	thorough := o.Scale > 1

	// ===== 1. setupTLSConfig over the whole option domain =========================================
	caVariants := p.caVariants()
	kpVariants := p.kpVariants()
	byClassCA := map[int][]caFile{}
	for _, c := range caVariants {
		byClassCA[c.class] = append(byClassCA[c.class], c)
	}
	byClassKP := map[int][]kpFile{}
	for _, k := range kpVariants {
		byClassKP[k.class] = append(byClassKP[k.class], k)
	}
	poolChoices := [][]int{{}, {1}, {2}, {1, 2}}
	var sslCases []sslCase
	type cfgShape struct {
		configNil, insecure, named, hasRoots bool
	}
	shapes := []cfgShape{{configNil: true}}
	for _, ins := range []bool{false, true} {
		for _, named := range []bool{false, true} {
			for _, hr := range []bool{false, true} {
				shapes = append(shapes, cfgShape{false, ins, named, hr})
			}
		}
	}
	for _, sh := range shapes {
		for _, hv := range []bool{false, true} {
			for cac := 0; cac < 4; cac++ {
				for kpc := 0; kpc < 5; kpc++ {
					var cas []caFile
					var kps []kpFile
					var pools [][]int
					var ncs []int
					if thorough {
						cas, kps = byClassCA[cac], byClassKP[kpc]
						pools, ncs = poolChoices, []int{0, 1}
						if !sh.hasRoots {
							pools = [][]int{nil}
						}
						if sh.configNil {
							ncs = []int{0}
						}
					} else {
						// two concrete variants per abstract combination
						for k := 0; k < 2; k++ {
							cas = append(cas, byClassCA[cac][r.Intn(len(byClassCA[cac]))])
						}
						kps = []kpFile{byClassKP[kpc][r.Intn(len(byClassKP[kpc]))]}
						pools = [][]int{poolChoices[r.Intn(len(poolChoices))]}
						ncs = []int{r.Intn(2)}
						if sh.configNil {
							ncs = []int{0}
						}
					}
					seen := map[string]bool{}
					for _, ca := range cas {
						for _, kp := range kps {
							for _, pl := range pools {
								for _, nc := range ncs {
									key := fmt.Sprint(ca.kind, kp.kind, pl, nc)
									if seen[key] {
										continue
									}
									seen[key] = true
									sc := sslCase{configNil: sh.configNil, insecure: sh.insecure, hasRoots: sh.hasRoots, hv: hv, ca: ca, kp: kp, ncerts: nc}
									if sh.named {
										sc.name = "explicit.example"
									}
									if sh.hasRoots {
										sc.roots = pl
									}
									if !sh.configNil && r.Chance(50) {
										sc.other = randMask(r)
									}
									sslCases = append(sslCases, sc)
								}
							}
						}
					}
				}
			}
		}
	}
	// the OTHER fields of the caller's tls.Config: the decision must not consult any of them.  Every
	// (InsecureSkipVerify x ServerName x RootCAs x EnableHostVerification) combination with each other field
	// set alone, with all of them set, and with two random subsets.
	nOtherCases := 0
	for _, sh := range shapes {
		if sh.configNil {
			continue
		}
		for _, hv := range []bool{false, true} {
			masks := []int{}
			for b := 0; b < nOther; b++ {
				masks = append(masks, 1<<b)
			}
			masks = append(masks, 1<<nOther-1, randMask(r), randMask(r))
			caClasses := []int{r.Intn(2)} // absent or valid
			if thorough {
				caClasses = []int{0, 1, 2, 3}
			}
			for _, m := range masks {
				for _, cac := range caClasses {
					sc := sslCase{insecure: sh.insecure, hasRoots: sh.hasRoots, hv: hv, other: m,
						ca: byClassCA[cac][r.Intn(len(byClassCA[cac]))], kp: byClassKP[0][0]}
					if r.Chance(20) {
						sc.kp = byClassKP[3][0]
					}
					if sh.named {
						sc.name = "explicit.example"
					}
					if sh.hasRoots {
						sc.roots = poolChoices[r.Intn(len(poolChoices))]
					}
					sslCases = append(sslCases, sc)
					nOtherCases++
				}
			}
		}
	}
	o.Extra["exhaustive"] = true
	o.Extra["tls_option_combinations"] = len(shapes) * 2 * 4 * 5
	o.Extra["other_tls_config_fields_varied"] = otherNames
	o.Extra["other_field_cases"] = nOtherCases
	for _, sc := range sslCases {
		opts, caller := p.sslOptions(sc)
		before := p.obs(caller)
		var callerPool *x509.CertPool
		if caller != nil {
			callerPool = caller.RootCAs
		}
		res, err := gocql.VerifC20SetupTLSConfig(opts)
		after := p.obs(caller)
		code := setupErrCode(err)
		aliased := res != nil && res == caller
		resObs := p.obs(res)
		nontrivial := !sc.configNil || sc.ca.path != "" || sc.kp.cert != "" || sc.kp.key != ""
		idx := o.Case("setup/ca-"+[]string{"absent", "valid", "unreadable", "garbage"}[sc.ca.class]+"/keypair-"+[]string{"absent", "cert-only", "key-only", "valid", "invalid"}[sc.kp.class], nontrivial, fmt.Sprintf("CSetup %s %d %s %s %s", p.sslTerm(sc, before), code, obsTerm(resObs), hlib.Bool(aliased), obsTerm(after)))
		in := map[string]interface{}{"config_nil": sc.configNil, "insecure_skip_verify": sc.insecure, "server_name": sc.name, "root_cas": sc.roots, "has_root_cas": sc.hasRoots,
			"enable_host_verification": sc.hv, "ca": sc.ca.kind, "keypair": sc.kp.kind, "other_fields_set": otherFieldNames(sc.other)}
		// --- monitors (spec side, on the implementation's outputs only)
		if code == 9 {
			o.Violate(idx, "setup-unknown-error", "", fmt.Sprintf("unclassified error %v", err), in)
		}
		if err == nil {
			if res == nil {
				o.Violate(idx, "setup-nil-config", "", "no error and no configuration", in)
				continue
			}
			if want := documented(sc.configNil, sc.insecure, sc.hv); (!res.InsecureSkipVerify) != want {
				o.Violate(idx, "documented-table", "", fmt.Sprintf("documented result verify=%v, effective InsecureSkipVerify=%v", want, res.InsecureSkipVerify), in)
			}
			// the fields the table does not mention travel unchanged (none set when Config is nil)
			if caller != nil {
				if otherMask(res) != otherMask(caller) {
					o.Violate(idx, "other-fields-copied", "", fmt.Sprintf("other fields set on the caller's config %v, on the result %v", otherFieldNames(otherMask(caller)), otherFieldNames(otherMask(res))), in)
				} else if d := otherValuesDiff(caller, res); d != "" {
					o.Violate(idx, "other-fields-copied", "", d, in)
				}
			} else if otherMask(res) != 0 {
				o.Violate(idx, "other-fields-copied", "", fmt.Sprintf("Config is nil, yet the result has %v set", otherFieldNames(otherMask(res))), in)
			}
			if res.ServerName != sc.name {
				o.Violate(idx, "setup-server-name", "", fmt.Sprintf("ServerName %q became %q", sc.name, res.ServerName), in)
			}
			if aliased {
				o.Violate(idx, "setup-returns-callers-config", "", "the returned configuration is the caller's own object", in)
			}
			// files that were named must really have been loaded
			if sc.ca.path != "" {
				if !sc.ca.read || len(sc.ca.certs) == 0 {
					o.Violate(idx, "ca-error-swallowed", "", "CaPath names an unreadable / certificate-free file and no error was returned", in)
				} else if res.RootCAs == nil {
					o.Violate(idx, "ca-not-loaded", "", "CaPath set, no error, RootCAs is nil", in)
				} else {
					got := p.poolIDs(res.RootCAs)
					for _, id := range sc.ca.certs {
						if !contains(got, id) {
							o.Violate(idx, "ca-not-loaded", "", fmt.Sprintf("authority %d of the CA file is not in RootCAs %v", id, got), in)
						}
					}
				}
			}
			if sc.kp.cert != "" || sc.kp.key != "" {
				if !sc.kp.ok {
					o.Violate(idx, "keypair-error-swallowed", "", "invalid key pair files and no error", in)
				} else if len(res.Certificates) != sc.ncerts+1 {
					o.Violate(idx, "keypair-not-loaded", "", fmt.Sprintf("len(Certificates) = %d, want %d", len(res.Certificates), sc.ncerts+1), in)
				}
			}
		} else {
			// an error must have a cause in the files
			caBad := sc.ca.path != "" && (!sc.ca.read || len(sc.ca.certs) == 0)
			kpBad := (sc.kp.cert != "" || sc.kp.key != "") && !sc.kp.ok
			if !caBad && !kpBad {
				o.Violate(idx, "setup-spurious-error", "", fmt.Sprintf("error %v with valid files", err), in)
			}
		}
		// the caller's own tls.Config
		if caller != nil {
			if caller.RootCAs != callerPool {
				o.Violate(idx, "caller-config-untouched", "", "the caller's RootCAs pointer changed", in)
			}
			callerUntouched(o, idx, sc, before, after, in)
		}
	}

	// ===== 2. tlsConfigForAddr ====================================================================
	addrs := []string{"node1.cass.example:9042", "10.1.2.3:9042", "[fd00::1:2]:9042", "node1", "", ":9042", "fd00::1:2", "a:b:c", "host:", "[::1]", "x:1:", "näme.example:1"}
	for i := 0; i < 12*o.Scale; i++ {
		n := r.Intn(12)
		b := make([]byte, n)
		for j := range b {
			b[j] = "ab:.[]1\xc3"[r.Intn(8)]
		}
		addrs = append(addrs, string(b))
	}
	for _, ins := range []bool{false, true} {
		for _, name := range []string{"", "explicit.example", "x"} {
			for _, hr := range []bool{false, true} {
				for _, addr := range addrs {
					sc := sslCase{insecure: ins, name: name, hasRoots: hr, roots: []int{1}, ncerts: 1}
					if r.Chance(50) {
						sc.other = randMask(r)
					}
					caller := p.buildConfig(sc)
					before := p.obs(caller)
					res := gocql.VerifC20TLSConfigForAddr(caller, addr)
					after := p.obs(caller)
					same := res == caller
					idx := o.Case("for-addr", addr != "", fmt.Sprintf("CForAddr %s %s %s %s %s", obsTermBare(before), hlib.ZList([]byte(addr)), obsTermBare(p.obs(res)), hlib.Bool(same), obsTermBare(after)))
					in := map[string]interface{}{"insecure_skip_verify": ins, "server_name": name, "addr": addr}
					if !obsEq(before, after) {
						o.Violate(idx, "caller-config-untouched", "", fmt.Sprintf("tlsConfigForAddr changed its argument: %+v -> %+v", *before, *after), in)
					}
					if otherMask(res) != sc.other || otherValuesDiff(caller, res) != "" {
						o.Violate(idx, "other-fields-copied", "", fmt.Sprintf("tlsConfigForAddr: other fields %v became %v", otherFieldNames(sc.other), otherFieldNames(otherMask(res))), in)
					}
					if res.InsecureSkipVerify != ins {
						o.Violate(idx, "for-addr-verification-changed", "", "InsecureSkipVerify differs from the input's", in)
					}
					if name != "" && res.ServerName != name {
						o.Violate(idx, "explicit-server-name-kept", "", fmt.Sprintf("ServerName %q replaced by %q", name, res.ServerName), in)
					}
					if ins && res.ServerName != name {
						o.Violate(idx, "name-set-when-not-verifying", "", fmt.Sprintf("ServerName became %q", res.ServerName), in)
					}
					if !ins && name == "" {
						// the host part of host:port as net.SplitHostPort sees it (where it is well-formed)
						// (only addresses net.JoinHostPort produces: "[a]:1" is not the dialled form of host "a")
						if h, pt, err := net.SplitHostPort(addr); err == nil && net.JoinHostPort(h, pt) == addr {
							want := h
							if strings.Contains(h, ":") {
								want = "[" + h + "]"
							}
							if res.ServerName != want {
								o.Violate(idx, "server-name-is-dialled-host", "", fmt.Sprintf("addr %q: ServerName %q, want %q", addr, res.ServerName, want), in)
							}
						}
					}
				}
			}
		}
	}

	// ===== 3. HostnameAndPort (ties Spec.join_host_port to net.JoinHostPort) ====================
	type hostForm struct {
		hostname string
		ip       net.IP
		names    []string // what the dialled name is expected to be matched against
	}
	hostForms := []hostForm{
		{"node1.cass.example", net.ParseIP("10.1.2.3"), nil},
		{"", net.ParseIP("10.1.2.3"), nil},
		{"", net.ParseIP("fd00::1:2"), nil},
	}
	joinHosts := []hostForm{{"localhost", net.ParseIP("127.0.0.1"), nil}, {"", net.ParseIP("::1"), nil}, {"h-" + string(rune('a'+r.Intn(26))), net.ParseIP("192.168.0.9"), nil}, {"fe80::1", net.ParseIP("10.0.0.1"), nil}}
	for _, hf := range append(append([]hostForm{}, hostForms...), joinHosts...) {
		for _, port := range []int{9042, 1, 65535, 19142} {
			out := gocql.VerifC20HostnameAndPort(hf.hostname, hf.ip, port)
			hn := hf.hostname
			if hn == "" {
				hn = hf.ip.String()
			}
			o.Case("join", true, fmt.Sprintf("CJoin %s %s %s", hlib.ZList([]byte(hn)), hlib.ZList([]byte(strconv.Itoa(port))), hlib.ZList([]byte(out))))
		}
	}

	// ===== 4. WrapTLS against an in-process TLS server ============================================
	serverCerts := p.serverCerts()
	wrapN := 0
	for _, ins := range []bool{false, true} {
		for _, name := range []string{"", "node1.cass.example", "other.example"} {
			for _, roots := range [][]int{nil, {1}, {2}, {1, 2}} {
				for _, hf := range hostForms {
					for _, sv := range serverCerts {
						if !thorough && r.Intn(100) >= 45 {
							continue
						}
						sc := sslCase{insecure: ins, name: name, hasRoots: roots != nil, roots: roots}
						if r.Chance(40) {
							sc.other = randMask(r)
						}
						caller := p.buildConfig(sc)
						before := p.obs(caller)
						addr := gocql.VerifC20HostnameAndPort(hf.hostname, hf.ip, 9042)
						ok, wrapped, _ := wrapOnce(caller, addr, sv)
						after := p.obs(caller)
						wrapN++
						idx := o.Case("wrap-tls", true, fmt.Sprintf("CWrap %s %s %d %s %s %s %s", obsTerm(before), hlib.ZList([]byte(addr)), sv.issuer, strListTerm(sv.names), hlib.Bool(ok), hlib.Bool(wrapped), obsTerm(after)))
						in := map[string]interface{}{"insecure_skip_verify": ins, "server_name": name, "root_cas": roots, "addr": addr, "server_cert": sv.kind, "other_fields_set": otherFieldNames(sc.other)}
						if !obsEq(before, after) {
							o.Violate(idx, "caller-config-untouched", "", fmt.Sprintf("WrapTLS changed the caller's config %+v -> %+v", *before, *after), in)
						}
						// verification really happened when the configuration says so
						if !ins && ok {
							expect := name
							if expect == "" {
								expect = hf.hostname
								if expect == "" {
									expect = hf.ip.String()
								}
							}
							if !contains(roots, sv.issuer) || !containsStr(sv.names, expect) {
								o.Violate(idx, "handshake-accepted-unverified", "", fmt.Sprintf("handshake succeeded with certificate %s (issuer %d, names %v) for %q with roots %v", sv.kind, sv.issuer, sv.names, expect, roots), in)
							}
						}
						if ins && !ok {
							o.Violate(idx, "handshake-rejected-insecure", "", "InsecureSkipVerify handshake failed", in)
						}
						if !ins && !ok {
							expect := name
							if expect == "" {
								expect = hf.hostname
								if expect == "" {
									expect = hf.ip.String()
								}
							}
							if contains(roots, sv.issuer) && containsStr(sv.names, expect) {
								o.Violate(idx, "valid-server-rejected", "", fmt.Sprintf("certificate %s is valid for %q under authorities %v, yet the handshake failed", sv.kind, expect, roots), in)
							}
						}
					}
				}
			}
		}
	}
	{ // nil config: the connection is not wrapped
		ok, wrapped, _ := wrapOnce(nil, "node1.cass.example:9042", serverCerts[0])
		o.Case("wrap-tls", true, fmt.Sprintf("CWrap None %s %d %s %s %s None", hlib.ZList([]byte("node1.cass.example:9042")), serverCerts[0].issuer, strListTerm(serverCerts[0].names), hlib.Bool(ok), hlib.Bool(wrapped)))
	}
	o.Extra["tls_handshakes"] = wrapN

	// ===== 5. approve / PasswordAuthenticator.Challenge ===========================================
	defaults := gocql.VerifC20DefaultApproved()
	{
		var l [][]byte
		for _, s := range defaults {
			l = append(l, []byte(s))
		}
		o.Case("defaults", true, "CDefaults "+bytesListTerm(l))
	}
	classGen := func() []byte {
		switch r.Intn(9) {
		case 0, 1:
			return []byte(defaults[r.Intn(len(defaults))])
		case 2:
			d := []byte(defaults[r.Intn(len(defaults))])
			switch r.Intn(5) {
			case 0:
				return d[:len(d)-1]
			case 1:
				return append(d, 'x')
			case 2:
				return bytes.ToLower(d)
			case 3:
				d[r.Intn(len(d))] ^= 1
				return d
			}
			return append([]byte(" "), d...)
		case 3:
			return []byte("com.example.auth.CustomAuthenticator")
		case 4:
			return []byte("org.example.Other")
		case 5:
			return []byte{}
		case 6:
			return []byte("PasswordAuthenticator")
		case 7:
			return r.Bytes(1 + r.Intn(6))
		}
		return []byte("org.apache.cassandra.auth.AllowAllAuthenticator")
	}
	allowedGen := func(cls []byte) [][]byte {
		switch r.Intn(6) {
		case 0, 1:
			return nil // default list
		case 2:
			return [][]byte{cls}
		case 3:
			return [][]byte{[]byte("com.example.auth.CustomAuthenticator"), []byte("org.example.Other")}
		case 4:
			return [][]byte{[]byte("x"), cls, []byte("")}
		}
		return [][]byte{[]byte(defaults[r.Intn(len(defaults))])}
	}
	credGen := func() []byte {
		switch r.Intn(8) {
		case 0:
			return []byte{}
		case 1:
			return []byte("cassandra")
		case 2:
			return []byte("пароль-密碼-🔑")
		case 3:
			return []byte("a\x00b")
		case 4:
			return r.Bytes(1 + r.Intn(20))
		case 5:
			return []byte("s3cr3t-" + strconv.Itoa(r.Intn(100000)))
		case 6:
			return bytes.Repeat([]byte("L"), 300)
		}
		return []byte("user@example.com")
	}
	approvedBy := func(cls []byte, allowed [][]byte) bool { // the property's words
		list := allowed
		if len(list) == 0 {
			list = nil
			for _, d := range defaults {
				list = append(list, []byte(d))
			}
		}
		for _, a := range list {
			if bytes.Equal(a, cls) {
				return true
			}
		}
		return false
	}
	plainToken := func(u, pw []byte) []byte { // RFC 4616 with empty authzid
		t := []byte{0}
		t = append(t, u...)
		t = append(t, 0)
		return append(t, pw...)
	}
	for i := 0; i < 120*o.Scale; i++ {
		cls := classGen()
		allowed := allowedGen(cls)
		got := gocql.VerifC20Approve(string(cls), strs(allowed))
		idx := o.Case("approve", true, fmt.Sprintf("CApprove %s %s %s", hlib.ZList(cls), bytesListTerm(allowed), hlib.Bool(got)))
		if got != approvedBy(cls, allowed) {
			o.Violate(idx, "approve-is-list-membership", "", fmt.Sprintf("approve(%q, %q) = %v", cls, allowed, got), nil)
		}
		u, pw := credGen(), credGen()
		tok, next, err := gocql.PasswordAuthenticator{Username: string(u), Password: string(pw), AllowedAuthenticators: strs(allowed)}.Challenge(cls)
		out := "None"
		if err == nil {
			out = hlib.Some(hlib.ZList(tok))
		}
		idx = o.Case("challenge", true, fmt.Sprintf("CChallenge %s %s %s %s %s", hlib.ZList(u), hlib.ZList(pw), bytesListTerm(allowed), hlib.ZList(cls), out))
		in := map[string]interface{}{"class": string(cls), "allowed": strs(allowed)}
		if err == nil && !approvedBy(cls, allowed) {
			o.Violate(idx, "token-only-if-approved", "", fmt.Sprintf("Challenge(%q) produced a token although the class is not approved", cls), in)
		}
		if err != nil && approvedBy(cls, allowed) {
			o.Violate(idx, "approved-class-rejected", "", fmt.Sprintf("Challenge(%q) = %v", cls, err), in)
		}
		if err == nil && (!bytes.Equal(tok, plainToken(u, pw)) || next != nil) {
			o.Violate(idx, "token-is-sasl-plain", "", fmt.Sprintf("token %x for user %x password %x", tok, u, pw), in)
		}
	}

	// ===== 6. the connection handshake against the scripted responder ============================
	okClass := []byte(defaults[0])
	customClass := []byte("com.example.auth.CustomAuthenticator")
	badClass := []byte("org.apache.cassandra.auth.AllowAllAuthenticator")
	nearClass := append([]byte(defaults[0]), ' ')
	auths := []AuthSpec{
		{Kind: 0},
		{Kind: 1, User: []byte("cassandra"), Pass: []byte("s3cr3t-pass-0001")},
		{Kind: 1, User: []byte("пользователь"), Pass: []byte("密碼-🔑-0002"), Allowed: [][]byte{customClass}},
		{Kind: 1, User: []byte{}, Pass: []byte{}},
		{Kind: 1, User: []byte("u\x00v"), Pass: []byte("s3cr3t-pass-0003"), Allowed: [][]byte{[]byte("x"), badClass}},
		{Kind: 2, Script: []ReplySpec{{Data: []byte("r1"), Next: true}, {Data: []byte("r2"), Next: true}, {Data: []byte{}, Next: true}}, SuccOK: true},
		{Kind: 2, Script: []ReplySpec{{Data: []byte("r1"), Next: false}}, SuccOK: true},
		{Kind: 2, Script: []ReplySpec{{Data: []byte("r1"), Next: true}, {Err: true}}, SuccOK: false},
		{Kind: 2, Script: []ReplySpec{{Err: true}}, SuccOK: true},
		{Kind: 2, Script: []ReplySpec{{Data: []byte("r1"), Next: true}, {Data: []byte("r2"), Next: false}}, SuccOK: true},
	}
	alphabet := []FrameSpec{
		{Kind: fSupported}, {Kind: fReady}, {Kind: fAuthenticate, Data: okClass}, {Kind: fAuthenticate, Data: customClass},
		{Kind: fAuthenticate, Data: badClass}, {Kind: fAuthChallenge, Data: []byte("ch")}, {Kind: fAuthSuccess, Data: []byte{}},
		{Kind: fError, Code: 0x0100}, {Kind: fOther},
	}
	var scenarios []Scenario
	maxLen := 2
	if thorough {
		maxLen = 3
	}
	var gen func(prefix []FrameSpec, depth int, a AuthSpec)
	gen = func(prefix []FrameSpec, depth int, a AuthSpec) {
		scenarios = append(scenarios, Scenario{Auth: a, Frames: append([]FrameSpec(nil), prefix...), Proto: 4})
		if depth == 0 {
			return
		}
		for _, f := range alphabet {
			gen(append(prefix, f), depth-1, a)
		}
	}
	for _, a := range auths {
		gen(nil, maxLen, a)
	}
	// directed: SUPPORTED, AUTHENTICATE(c), then every pair from the alphabet (the authentication loop)
	for _, a := range auths {
		for _, c := range [][]byte{okClass, customClass} {
			for _, f1 := range alphabet {
				for _, f2 := range alphabet {
					if !thorough && r.Intn(100) >= 35 {
						continue
					}
					scenarios = append(scenarios, Scenario{Auth: a, Proto: 3 + r.Intn(2), Frames: []FrameSpec{{Kind: fSupported}, {Kind: fAuthenticate, Data: c}, f1, f2}})
				}
			}
		}
	}
	// random: arbitrary class names, credentials, allowed lists, error codes, longer challenge loops
	errCodes := []int{0x0000, 0x000A, 0x0100, 0x1001, 0x1002, 0x1003, 0x2000, 0x2100, 0x2200, 0x2300}
	for i := 0; i < 250*o.Scale; i++ {
		var a AuthSpec
		cls := classGen()
		if r.Chance(20) {
			cls = [][]byte{okClass, nearClass, customClass}[r.Intn(3)]
		}
		switch r.Intn(5) {
		case 0:
			a = AuthSpec{Kind: 0}
		case 1, 2, 3:
			a = AuthSpec{Kind: 1, User: credGen(), Pass: credGen(), Allowed: allowedGen(cls)}
		default:
			a = AuthSpec{Kind: 2, SuccOK: r.Chance(80)}
			for k := r.Intn(5); k >= 0; k-- {
				a.Script = append(a.Script, ReplySpec{Err: r.Chance(10), Data: r.Bytes(r.Intn(5)), Next: r.Chance(85)})
			}
		}
		fs := []FrameSpec{{Kind: fSupported}}
		if r.Chance(8) {
			fs = nil
		}
		switch r.Intn(6) {
		case 0:
			fs = append(fs, FrameSpec{Kind: fReady})
		case 1:
			fs = append(fs, FrameSpec{Kind: fError, Code: errCodes[r.Intn(len(errCodes))]})
		default:
			fs = append(fs, FrameSpec{Kind: fAuthenticate, Data: cls})
			for k := r.Intn(5); k > 0; k-- {
				if r.Chance(75) {
					fs = append(fs, FrameSpec{Kind: fAuthChallenge, Data: r.Bytes(r.Intn(6))})
				} else {
					fs = append(fs, alphabet[r.Intn(len(alphabet))])
				}
			}
			switch r.Intn(5) {
			case 0:
				fs = append(fs, FrameSpec{Kind: fError, Code: errCodes[r.Intn(len(errCodes))]})
			case 1:
			default:
				fs = append(fs, FrameSpec{Kind: fAuthSuccess, Data: r.Bytes(r.Intn(4))})
			}
		}
		if r.Chance(15) {
			fs = append(fs, alphabet[r.Intn(len(alphabet))])
		}
		scenarios = append(scenarios, Scenario{Auth: a, Frames: fs, Proto: 3 + r.Intn(2)})
	}
	outcomes := map[int]int{}
	results, workers := runBatch(o.Dir, scenarios)
	for i, s := range scenarios {
		res := results[i]
		outcomes[res.Code]++
		kind := fmt.Sprintf("handshake/auth%d", s.Auth.Kind)
		idx := o.Case(kind, len(s.Frames) > 1, fmt.Sprintf("CHandshake %s %s %d %d %s %d %d", authTerm(s.Auth), framesTerm(s.Frames), res.Code, res.Srv, bytesListTerm(res.Toks), res.NOpt, res.NStart))
		handshakeMonitors(o, idx, s, res, approvedBy, plainToken)
	}
	o.Extra["handshake_worker_processes"] = workers
	o.Extra["handshake_outcomes"] = fmt.Sprint(outcomes)

	// ===== 7. the whole chain: ClusterConfig.SslOpts -> connConfig -> dial -> WrapTLS -> handshake
	chainN := 0
	chainScripts := []struct {
		a  AuthSpec
		fs []FrameSpec
	}{
		{AuthSpec{Kind: 0}, []FrameSpec{{Kind: fSupported}, {Kind: fReady}}},
		{AuthSpec{Kind: 0}, []FrameSpec{{Kind: fSupported}, {Kind: fAuthenticate, Data: okClass}, {Kind: fAuthSuccess}}},
		{auths[1], []FrameSpec{{Kind: fSupported}, {Kind: fAuthenticate, Data: okClass}, {Kind: fAuthSuccess, Data: []byte{}}}},
		{auths[1], []FrameSpec{{Kind: fSupported}, {Kind: fAuthenticate, Data: badClass}, {Kind: fAuthSuccess, Data: []byte{}}}},
	}
	var chainSSL []*sslCase
	chainSSL = append(chainSSL, nil)
	validCA, garbageCA, missingCA := byClassCA[1][0], byClassCA[3][0], byClassCA[2][0]
	absentCA, absentKP := byClassCA[0][0], byClassKP[0][0]
	for _, sh := range shapes {
		for _, hv := range []bool{false, true} {
			for _, ca := range []caFile{absentCA, validCA, garbageCA, missingCA} {
				sc := sslCase{configNil: sh.configNil, insecure: sh.insecure, hasRoots: sh.hasRoots, hv: hv, ca: ca, kp: absentKP}
				if sh.named {
					sc.name = "node1.cass.example"
				}
				if sh.hasRoots {
					sc.roots = poolChoices[r.Intn(len(poolChoices))]
				}
				if r.Chance(15) {
					sc.kp = kpVariants[r.Intn(len(kpVariants))]
				}
				if !sh.configNil && r.Chance(50) {
					sc.other = randMask(r)
				}
				c := sc
				chainSSL = append(chainSSL, &c)
			}
		}
	}
	for _, sc := range chainSSL {
		for _, hf := range hostForms {
			for _, sv := range serverCerts {
				for si, cs := range chainScripts {
					keep := 12
					if thorough {
						keep = 100
					}
					if sc != nil && r.Intn(100) >= keep {
						continue
					}
					if sc == nil && (sv.kind != serverCerts[0].kind) {
						continue
					}
					chainN++
					runChain(o, p, sc, hf.hostname, hf.ip, sv, cs.a, cs.fs, si, approvedBy, plainToken)
				}
			}
		}
	}
	o.Extra["chain_runs"] = chainN

	// ===== 7b. contact points through the driver's own resolution =================================
	contactPointCases(o, p, approvedBy, plainToken, okClass)

	// ===== 8. session creation through the public constructor and the real connection pool ======
	sessionRuns(o, p, okClass, badClass, plainToken)

	o.Finish("From GocqlV Require Import Lib.Base C20.Model C20.Corr.", "C20.Corr.case", "C20.Corr.run")
}

// a random subset of the other tls.Config fields; the callbacks (which users combine with InsecureSkipVerify)
// are over-represented
func randMask(r *hlib.Rng) int {
	m := 0
	switch r.Intn(4) {
	case 0:
		m = 1 << r.Intn(nOther)
	case 1:
		m = r.Intn(1 << nOther)
	case 2:
		m = 1<<0 | r.Intn(1<<nOther)
	default:
		m = (1 + r.Intn(3)) | (r.Intn(1<<nOther) & r.Intn(1<<nOther))
	}
	return m
}

func sortInts(l []int) {
	for i := 1; i < len(l); i++ {
		for j := i; j > 0 && l[j-1] > l[j]; j-- {
			l[j-1], l[j] = l[j], l[j-1]
		}
	}
}

func containsStr(l []string, x string) bool {
	for _, y := range l {
		if y == x {
			return true
		}
	}
	return false
}

func strListTerm(l []string) string {
	ss := make([]string, len(l))
	for i, s := range l {
		ss[i] = hlib.ZList([]byte(s))
	}
	return hlib.List(ss)
}

// property monitors of the authentication handshake, from the property text, evaluated on what the
// scripted server sent and received
func handshakeMonitors(o *hlib.Out, idx int, s Scenario, res HsResult, approvedBy func([]byte, [][]byte) bool, plainToken func(u, p []byte) []byte) {
	in := map[string]interface{}{"auth_kind": s.Auth.Kind, "frames": framesTerm(s.Frames), "result_code": res.Code, "error": res.ErrText}
	sent := s.Frames
	if res.Code != 5 && res.Sent <= len(sent) {
		sent = sent[:res.Sent]
	}
	var classes [][]byte
	sawAuthenticate := false
	for _, f := range sent {
		if f.Kind == fAuthenticate {
			sawAuthenticate = true
			classes = append(classes, f.Data)
		}
	}
	if res.Code == 6 {
		o.Violate(idx, "handshake-unclassified", "", res.ErrText, in)
	}
	if s.Auth.Kind == 1 {
		tok := plainToken(s.Auth.User, s.Auth.Pass)
		for _, t := range res.Toks {
			if !bytes.Equal(t, tok) {
				o.Violate(idx, "token-is-sasl-plain", "", fmt.Sprintf("AUTH_RESPONSE %x, want %x", t, tok), in)
			}
			ok := false
			for _, c := range classes {
				if approvedBy(c, s.Auth.Allowed) {
					ok = true
				}
			}
			if !ok {
				o.Violate(idx, "token-only-if-approved", "", fmt.Sprintf("password token sent; AUTHENTICATE classes offered %q, allowed %q", classes, s.Auth.Allowed), in)
			}
		}
		if len(res.Toks) > 1 {
			o.Violate(idx, "token-sent-twice", "", fmt.Sprintf("%d AUTH_RESPONSE frames from PasswordAuthenticator", len(res.Toks)), in)
		}
		// the password appears nowhere else on the wire
		if len(s.Auth.Pass) >= 8 {
			for _, b := range res.OtherReqs {
				if bytes.Contains(b, s.Auth.Pass) {
					o.Violate(idx, "password-outside-auth-response", "", "the password occurs in a request other than AUTH_RESPONSE", in)
				}
			}
		}
	}
	if s.Auth.Kind == 0 {
		if len(res.Toks) > 0 {
			o.Violate(idx, "no-auth-no-token", "", "AUTH_RESPONSE sent without an authenticator", in)
		}
		if sawAuthenticate && res.Code == 0 {
			o.Violate(idx, "no-auth-no-session", "", "server demanded authentication, no authenticator configured, connection established", in)
		}
	}
	if res.Code == 0 {
		// established: the server's last word was READY (and it never asked for authentication) or AUTH_SUCCESS
		if len(sent) == 0 {
			o.Violate(idx, "established-without-ready", "", "established although the server sent nothing", in)
		} else {
			last := sent[len(sent)-1]
			if !(last.Kind == fReady && !sawAuthenticate) && !(last.Kind == fAuthSuccess && sawAuthenticate) {
				o.Violate(idx, "unauthenticated-session", "", fmt.Sprintf("established after %s", framesTerm(sent)), in)
			}
		}
	}
}
