package main

import (
	"context"
	"crypto/tls"
	"fmt"
	"io"
	"net"
	"time"

	"github.com/gocql/gocql"
	"gocqlverif/hlib"
)

// wrapOnce: the public WrapTLS on one end of an in-memory connection, a TLS server presenting sv on the other
func wrapOnce(caller *tls.Config, addr string, sv serverCert) (ok bool, wrapped bool, err error) {
	c, s := newPipe()
	done := make(chan struct{})
	if caller != nil {
		go func() {
			defer close(done)
			defer s.Close()
			tc := tls.Server(s, &tls.Config{Certificates: []tls.Certificate{sv.cert}, MinVersion: tls.VersionTLS12})
			if tc.Handshake() != nil {
				return
			}
			io.Copy(io.Discard, tc)
		}()
	} else {
		close(done)
	}
	dh, err := gocql.WrapTLS(context.Background(), c, addr, caller)
	if err == nil && dh != nil {
		wrapped = dh.DisableCoalesce
		dh.Conn.Close()
	}
	c.Close()
	select {
	case <-done:
	case <-time.After(20 * time.Second):
		return false, wrapped, fmt.Errorf("tls server did not terminate")
	}
	return err == nil, wrapped, err
}

// callerUntouched: the caller's own tls.Config must read the same before and after.  The one known
// exception (finding caller-rootcas-pool-grows) is recognised by its narrow trigger.
func callerUntouched(o *hlib.Out, idx int, sc sslCase, before, after *cfgObs, in interface{}) {
	if before == nil || obsEq(before, after) {
		return
	}
	finding := ""
	// trigger: Config != nil, Config.RootCAs != nil, CaPath readable with a certificate the pool lacks;
	// and the only difference is exactly those certificates having been added to the caller's pool
	adds := false
	for _, id := range sc.ca.certs {
		if !contains(sc.roots, id) {
			adds = true
		}
	}
	if !sc.configNil && sc.hasRoots && sc.ca.path != "" && sc.ca.read && adds && after != nil {
		want := *before
		want.Roots = append([]int(nil), before.Roots...)
		for _, id := range sc.ca.certs {
			if !contains(want.Roots, id) {
				want.Roots = append(want.Roots, id)
			}
		}
		sortInts(want.Roots)
		if obsEq(&want, after) {
			finding = "caller-rootcas-pool-grows"
		}
	}
	o.Violate(idx, "caller-config-untouched", finding, fmt.Sprintf("caller's tls.Config before %+v after %+v", *before, *after), in)
}

// runChain: ClusterConfig.SslOpts -> connConfig (setupTLSConfig) -> Session.dial -> defaultHostDialer.DialHost
// (HostnameAndPort, WrapTLS, tlsConfigForAddr, TLS handshake) -> Conn.init (CQL handshake)
func runChain(o *hlib.Out, p *pki, sc *sslCase, hostname string, ip net.IP, sv serverCert, a AuthSpec, fs []FrameSpec, si int,
	approvedBy func([]byte, [][]byte) bool, plainToken func(u, p []byte) []byte) {
	runChainHost(o, p, sc, hostname, ip, nil, sv, a, fs, si, approvedBy, plainToken)
}

// resolved != nil: the host comes from the driver's own contact-point resolution (hostname is then the
// contact point's name, which is what the model dials)
func runChainHost(o *hlib.Out, p *pki, sc *sslCase, hostname string, ip net.IP, resolved *gocql.HostInfo, sv serverCert, a AuthSpec, fs []FrameSpec, si int,
	approvedBy func([]byte, [][]byte) bool, plainToken func(u, p []byte) []byte) {
	s := Scenario{Auth: a, Frames: fs, Proto: 4}
	r := &responder{frames: fs}
	tlsServerOK := false
	d := &pipeDialer{server: func(conn net.Conn) {
		if sc == nil {
			r.serve(conn)
			return
		}
		tc := tls.Server(conn, &tls.Config{Certificates: []tls.Certificate{sv.cert}, MinVersion: tls.VersionTLS12})
		if tc.Handshake() != nil {
			conn.Close()
			return
		}
		tlsServerOK = true
		r.serve(tc)
		conn.Close()
	}}
	cfg := newCluster(s, d)
	var caller *tls.Config
	if sc != nil {
		cfg.SslOpts, caller = p.sslOptions(*sc)
	}
	before := p.obs(caller)
	var ok bool
	var err error
	if resolved != nil {
		ok, err = gocql.VerifC20ConnectHost(context.Background(), cfg, resolved)
	} else {
		ok, err = gocql.VerifC20Connect(context.Background(), cfg, hostname, ip, 9042)
	}
	hung := !d.wait()
	after := p.obs(caller)

	stage, code, srv := 3, 0, 0
	switch {
	case d.dialed == 0:
		stage, code = 1, setupErrCode(err)
	case sc != nil && !tlsServerOK && r.res.NOpt == 0:
		stage = 2
	default:
		code, srv = classify(ok, err)
	}
	r.res.Code, r.res.Srv = code, srv
	if err != nil {
		r.res.ErrText = err.Error()
	}
	host := hostname
	if host == "" {
		host = ip.String()
	}
	sslTerm := "None"
	kind := "chain/plain"
	if sc != nil {
		sslTerm = hlib.Some(p.sslTerm(*sc, before))
		kind = "chain/tls"
	}
	if resolved != nil {
		kind = "chain/contact-point"
	}
	idx := o.Case(kind, true, fmt.Sprintf("CChain %s %s %s %d %s %s %s %d %d %d %s", sslTerm, hlib.ZList([]byte(host)), hlib.ZList([]byte("9042")),
		sv.issuer, strListTerm(sv.names), authTerm(a), framesTerm(fs), stage, code, srv, bytesListTerm(r.res.Toks)))
	in := map[string]interface{}{"host": host, "server_cert": sv.kind, "script": si, "stage": stage, "code": code, "error": r.res.ErrText}
	if sc != nil {
		in["ssl"] = map[string]interface{}{"config_nil": sc.configNil, "insecure_skip_verify": sc.insecure, "server_name": sc.name, "root_cas": sc.roots,
			"has_root_cas": sc.hasRoots, "enable_host_verification": sc.hv, "ca": sc.ca.kind, "keypair": sc.kp.kind, "other_fields_set": otherFieldNames(sc.other)}
	}
	if hung {
		o.Violate(idx, "chain-server-hang", "", "server side did not terminate", in)
	}
	if sc != nil {
		callerUntouched(o, idx, *sc, before, after, in)
		caBad := sc.ca.path != "" && (!sc.ca.read || len(sc.ca.certs) == 0)
		kpBad := (sc.kp.cert != "" || sc.kp.key != "") && !sc.kp.ok
		if (caBad || kpBad) && (stage != 1 || d.dialed != 0) {
			o.Violate(idx, "connected-despite-file-error", "", fmt.Sprintf("CA/key-pair files are unusable (%s, %s) but the driver dialled", sc.ca.kind, sc.kp.kind), in)
		}
		if stage == 1 && !caBad && !kpBad {
			o.Violate(idx, "setup-spurious-error", "", fmt.Sprintf("configuration error %v with usable files", err), in)
		}
		if stage == 3 && documented(sc.configNil, sc.insecure, sc.hv) {
			// a TLS session exists although the table says "verify host": then the certificate must verify
			roots := append([]int{}, sc.roots...)
			roots = append(roots, sc.ca.certs...)
			expect := sc.name
			if expect == "" {
				expect = host
			}
			if !contains(roots, sv.issuer) || !containsStr(sv.names, expect) {
				o.Violate(idx, "session-with-unverified-server", "", fmt.Sprintf("TLS session with certificate %s (issuer %d, names %v) for %q, trusted authorities %v", sv.kind, sv.issuer, sv.names, expect, roots), in)
			}
		}
		if stage == 2 && documented(sc.configNil, sc.insecure, sc.hv) {
			// verifying: a server whose certificate is issued by a trusted authority and valid for the explicit
			// ServerName, else for the host being dialled, must be accepted
			roots := append([]int{}, sc.roots...)
			roots = append(roots, sc.ca.certs...)
			expect := sc.name
			if expect == "" {
				expect = host
			}
			if contains(roots, sv.issuer) && containsStr(sv.names, expect) {
				o.Violate(idx, "valid-server-rejected", "", fmt.Sprintf("certificate %s (issuer %d, names %v) is valid for the dialled host %q under authorities %v, yet the TLS handshake failed: %v", sv.kind, sv.issuer, sv.names, expect, roots, err), in)
			}
		}
		if stage == 2 && !documented(sc.configNil, sc.insecure, sc.hv) {
			o.Violate(idx, "handshake-rejected-insecure", "", "the table says do not verify, yet the TLS handshake failed", in)
		}
	}
	if stage == 3 {
		handshakeMonitors(o, idx, s, r.res, approvedBy, plainToken)
	} else if len(r.res.Toks) > 0 {
		o.Violate(idx, "token-before-tls", "", "AUTH_RESPONSE received although the connection was not set up", in)
	}
}
