package main

import (
	"io"
	"net"
	"sync"
	"time"
)

// A buffered in-memory full-duplex connection (net.Pipe is unbuffered: two sides writing at the same
// time, as in a TLS 1.3 handshake followed by application data, would deadlock).  Deadlines are accepted
// and ignored: nothing in the harness depends on timing; Close unblocks readers on both ends.

type half struct {
	mu     sync.Mutex
	cond   *sync.Cond
	buf    []byte
	closed bool
}

func newHalf() *half {
	h := &half{}
	h.cond = sync.NewCond(&h.mu)
	return h
}

type memConn struct {
	r, w *half
}

type memAddr string

func (a memAddr) Network() string { return "mem" }
func (a memAddr) String() string  { return string(a) }

func newPipe() (net.Conn, net.Conn) {
	a, b := newHalf(), newHalf()
	return &memConn{r: a, w: b}, &memConn{r: b, w: a}
}

func (c *memConn) Read(p []byte) (int, error) {
	c.r.mu.Lock()
	defer c.r.mu.Unlock()
	for len(c.r.buf) == 0 && !c.r.closed {
		c.r.cond.Wait()
	}
	if len(c.r.buf) == 0 {
		return 0, io.EOF
	}
	n := copy(p, c.r.buf)
	c.r.buf = c.r.buf[n:]
	return n, nil
}

func (c *memConn) Write(p []byte) (int, error) {
	c.w.mu.Lock()
	defer c.w.mu.Unlock()
	if c.w.closed {
		return 0, io.ErrClosedPipe
	}
	c.w.buf = append(c.w.buf, p...)
	c.w.cond.Broadcast()
	return len(p), nil
}

func (c *memConn) Close() error {
	for _, h := range []*half{c.r, c.w} {
		h.mu.Lock()
		h.closed = true
		h.cond.Broadcast()
		h.mu.Unlock()
	}
	return nil
}

func (c *memConn) LocalAddr() net.Addr                { return memAddr("mem-local") }
func (c *memConn) RemoteAddr() net.Addr               { return memAddr("mem-remote") }
func (c *memConn) SetDeadline(t time.Time) error      { return nil }
func (c *memConn) SetReadDeadline(t time.Time) error  { return nil }
func (c *memConn) SetWriteDeadline(t time.Time) error { return nil }
