package main

import (
	"crypto/tls"
	"crypto/x509"
	"fmt"
	"reflect"
	"time"
)

// The fields of tls.Config other than the documented inputs (InsecureSkipVerify, ServerName, RootCAs,
// Certificates).  The TLS decision must not depend on any of them and the driver must hand them on
// unchanged; the systematic stream sets each of them in turn (and all together) on the caller's config.
var otherNames = []string{"VerifyPeerCertificate", "VerifyConnection", "ClientAuth", "MinVersion", "NextProtos", "GetClientCertificate",
	"MaxVersion", "CipherSuites", "SessionTicketsDisabled", "ClientSessionCache", "Renegotiation", "CurvePreferences", "GetCertificate", "Time"}

const nOther = 14

var sharedSessionCache = tls.NewLRUClientSessionCache(4)

// every value is chosen so that a handshake with the harness server still works and custom callbacks accept
func applyOther(c *tls.Config, mask int) {
	if mask&(1<<0) != 0 {
		c.VerifyPeerCertificate = func(rawCerts [][]byte, verifiedChains [][]*x509.Certificate) error { return nil }
	}
	if mask&(1<<1) != 0 {
		c.VerifyConnection = func(tls.ConnectionState) error { return nil }
	}
	if mask&(1<<2) != 0 {
		c.ClientAuth = tls.RequireAndVerifyClientCert
	}
	if mask&(1<<3) != 0 {
		c.MinVersion = tls.VersionTLS12
	}
	if mask&(1<<4) != 0 {
		c.NextProtos = []string{"cql"}
	}
	if mask&(1<<5) != 0 {
		c.GetClientCertificate = func(*tls.CertificateRequestInfo) (*tls.Certificate, error) { return &tls.Certificate{}, nil }
	}
	if mask&(1<<6) != 0 {
		c.MaxVersion = tls.VersionTLS13
	}
	if mask&(1<<7) != 0 {
		c.CipherSuites = []uint16{tls.TLS_ECDHE_ECDSA_WITH_AES_128_GCM_SHA256, tls.TLS_ECDHE_ECDSA_WITH_AES_256_GCM_SHA384, tls.TLS_ECDHE_RSA_WITH_AES_128_GCM_SHA256}
	}
	if mask&(1<<8) != 0 {
		c.SessionTicketsDisabled = true
	}
	if mask&(1<<9) != 0 {
		c.ClientSessionCache = sharedSessionCache
	}
	if mask&(1<<10) != 0 {
		c.Renegotiation = tls.RenegotiateOnceAsClient
	}
	if mask&(1<<11) != 0 {
		c.CurvePreferences = []tls.CurveID{tls.X25519, tls.CurveP256}
	}
	if mask&(1<<12) != 0 {
		c.GetCertificate = func(*tls.ClientHelloInfo) (*tls.Certificate, error) { return nil, nil }
	}
	if mask&(1<<13) != 0 {
		c.Time = func() time.Time { return time.Now() }
	}
}

func otherMask(c *tls.Config) int {
	m := 0
	set := []bool{c.VerifyPeerCertificate != nil, c.VerifyConnection != nil, c.ClientAuth != 0, c.MinVersion != 0, len(c.NextProtos) > 0,
		c.GetClientCertificate != nil, c.MaxVersion != 0, len(c.CipherSuites) > 0, c.SessionTicketsDisabled, c.ClientSessionCache != nil,
		c.Renegotiation != 0, len(c.CurvePreferences) > 0, c.GetCertificate != nil, c.Time != nil}
	for i, b := range set {
		if b {
			m |= 1 << i
		}
	}
	return m
}

func otherFieldNames(mask int) []string {
	l := []string{}
	for i := 0; i < nOther; i++ {
		if mask&(1<<i) != 0 {
			l = append(l, otherNames[i])
		}
	}
	return l
}

// the comparable ones must also carry the same values
func otherValuesDiff(a, b *tls.Config) string {
	type v struct {
		name string
		x, y interface{}
	}
	for _, f := range []v{{"ClientAuth", a.ClientAuth, b.ClientAuth}, {"MinVersion", a.MinVersion, b.MinVersion}, {"MaxVersion", a.MaxVersion, b.MaxVersion},
		{"NextProtos", a.NextProtos, b.NextProtos}, {"CipherSuites", a.CipherSuites, b.CipherSuites}, {"SessionTicketsDisabled", a.SessionTicketsDisabled, b.SessionTicketsDisabled},
		{"Renegotiation", a.Renegotiation, b.Renegotiation}, {"CurvePreferences", a.CurvePreferences, b.CurvePreferences}} {
		if !reflect.DeepEqual(f.x, f.y) {
			return fmt.Sprintf("%s: %v vs %v", f.name, f.x, f.y)
		}
	}
	if a.ClientSessionCache != b.ClientSessionCache {
		return "ClientSessionCache differs"
	}
	return ""
}
