package main

import (
	"crypto/ecdsa"
	"crypto/elliptic"
	"crypto/rand"
	"crypto/tls"
	"crypto/x509"
	"crypto/x509/pkix"
	"encoding/pem"
	"math/big"
	"net"
	"os"
	"path/filepath"
	"time"

	"gocqlverif/hlib"
)

// Certificate authorities 1..3 generated at run time (ECDSA P-256).  Authority 3 is never put into a
// pool or a CA file: certificates issued by it are "untrusted".
type authority struct {
	cert *x509.Certificate
	key  *ecdsa.PrivateKey
	pem  []byte
}

type pki struct {
	dir        string
	cas        map[int]*authority
	clientCert tls.Certificate
	clientPEM  []byte
	clientKey  []byte
	otherKey   []byte
	rng        *hlib.Rng
	serial     int64
}

func must(err error) {
	if err != nil {
		panic(err)
	}
}

func (p *pki) nextSerial() *big.Int {
	p.serial++
	return big.NewInt(p.serial)
}

func newPKI(dir string, rng *hlib.Rng) *pki {
	p := &pki{dir: dir, cas: map[int]*authority{}, rng: rng}
	for id := 1; id <= 3; id++ {
		key, err := ecdsa.GenerateKey(elliptic.P256(), rand.Reader)
		must(err)
		tmpl := &x509.Certificate{
			SerialNumber: p.nextSerial(), Subject: pkix.Name{CommonName: "verif-ca-" + string(rune('0'+id)), Organization: []string{"gocqlverif"}},
			NotBefore: time.Now().Add(-24 * time.Hour), NotAfter: time.Now().Add(24 * time.Hour),
			IsCA: true, BasicConstraintsValid: true, KeyUsage: x509.KeyUsageCertSign | x509.KeyUsageDigitalSignature,
		}
		der, err := x509.CreateCertificate(rand.Reader, tmpl, tmpl, &key.PublicKey, key)
		must(err)
		cert, err := x509.ParseCertificate(der)
		must(err)
		p.cas[id] = &authority{cert: cert, key: key, pem: pem.EncodeToMemory(&pem.Block{Type: "CERTIFICATE", Bytes: der})}
	}
	// a client key pair (CertPath/KeyPath), issued by authority 1
	c, certPEM, keyPEM := p.leaf(1, []string{"client.example"}, nil, true)
	p.clientCert, p.clientPEM, p.clientKey = c, certPEM, keyPEM
	_, _, p.otherKey = p.leaf(1, []string{"other-client.example"}, nil, true)
	return p
}

func (p *pki) leaf(issuer int, dns []string, ips []net.IP, client bool) (tls.Certificate, []byte, []byte) {
	key, err := ecdsa.GenerateKey(elliptic.P256(), rand.Reader)
	must(err)
	eku := x509.ExtKeyUsageServerAuth
	if client {
		eku = x509.ExtKeyUsageClientAuth
	}
	tmpl := &x509.Certificate{
		SerialNumber: p.nextSerial(), Subject: pkix.Name{CommonName: "leaf"},
		NotBefore: time.Now().Add(-24 * time.Hour), NotAfter: time.Now().Add(24 * time.Hour),
		KeyUsage: x509.KeyUsageDigitalSignature, ExtKeyUsage: []x509.ExtKeyUsage{eku},
		DNSNames: dns, IPAddresses: ips,
	}
	ca := p.cas[issuer]
	der, err := x509.CreateCertificate(rand.Reader, tmpl, ca.cert, &key.PublicKey, ca.key)
	must(err)
	kb, err := x509.MarshalECPrivateKey(key)
	must(err)
	certPEM := pem.EncodeToMemory(&pem.Block{Type: "CERTIFICATE", Bytes: der})
	keyPEM := pem.EncodeToMemory(&pem.Block{Type: "EC PRIVATE KEY", Bytes: kb})
	c, err := tls.X509KeyPair(certPEM, keyPEM)
	must(err)
	return c, certPEM, keyPEM
}

// which of the harness authorities a pool contains (ascending)
func (p *pki) poolIDs(pool *x509.CertPool) []int {
	ids := []int{}
	subjects := pool.Subjects() //nolint: deprecated but exact for pools not derived from the system pool
	for id := 1; id <= 3; id++ {
		for _, s := range subjects {
			if string(s) == string(p.cas[id].cert.RawSubject) {
				ids = append(ids, id)
				break
			}
		}
	}
	return ids
}

func (p *pki) write(name string, data []byte) string {
	path := filepath.Join(p.dir, name)
	must(os.WriteFile(path, data, 0o644))
	return path
}

func (p *pki) caVariants() []caFile {
	garbage := p.rng.Bytes(300)
	for i := range garbage { // no accidental PEM armour
		if garbage[i] == '-' {
			garbage[i] = '_'
		}
	}
	badDER := pem.EncodeToMemory(&pem.Block{Type: "CERTIFICATE", Bytes: p.rng.Bytes(120)})
	nonCert := pem.EncodeToMemory(&pem.Block{Type: "PUBLIC KEY", Bytes: p.rng.Bytes(64)})
	dirPath := filepath.Join(p.dir, "a-directory")
	must(os.MkdirAll(dirPath, 0o755))
	l := []caFile{
		{path: "", kind: "absent", class: 0},
		{path: p.write("ca1.pem", p.cas[1].pem), read: true, certs: []int{1}, kind: "valid-1", class: 1},
		{path: p.write("ca2.pem", p.cas[2].pem), read: true, certs: []int{2}, kind: "valid-2", class: 1},
		{path: p.write("ca12.pem", append(append([]byte{}, p.cas[1].pem...), p.cas[2].pem...)), read: true, certs: []int{1, 2}, kind: "valid-1+2", class: 1},
		{path: p.write("ca-mixed.pem", append(append(append([]byte("leading text\n"), nonCert...), p.cas[2].pem...), badDER...)), read: true, certs: []int{2}, kind: "valid-mixed", class: 1},
		{path: filepath.Join(p.dir, "does-not-exist.pem"), read: false, kind: "missing", class: 2},
		{path: dirPath, read: false, kind: "directory", class: 2},
		{path: p.write("ca-garbage.pem", garbage), read: true, certs: nil, kind: "garbage-bytes", class: 3},
		{path: p.write("ca-empty.pem", nil), read: true, certs: nil, kind: "garbage-empty", class: 3},
		{path: p.write("ca-noncert.pem", nonCert), read: true, certs: nil, kind: "garbage-pem-not-a-certificate", class: 3},
		{path: p.write("ca-badder.pem", badDER), read: true, certs: nil, kind: "garbage-bad-der", class: 3},
		{path: p.write("ca-truncated.pem", p.cas[1].pem[:len(p.cas[1].pem)/2]), read: true, certs: nil, kind: "garbage-truncated", class: 3},
	}
	if os.Geteuid() != 0 { // permission bits do not stop root
		path := p.write("ca-unreadable.pem", p.cas[1].pem)
		must(os.Chmod(path, 0))
		l = append(l, caFile{path: path, read: false, kind: "no-permission", class: 2})
	}
	for i := range l {
		l[i].set = l[i].path != ""
	}
	return l
}

func (p *pki) kpVariants() []kpFile {
	cert := p.write("client.crt", p.clientPEM)
	key := p.write("client.key", p.clientKey)
	other := p.write("other.key", p.otherKey)
	garbage := p.write("kp-garbage.pem", p.rng.Bytes(200))
	missing := filepath.Join(p.dir, "no-such-file.pem")
	return []kpFile{
		{kind: "absent", class: 0, ok: false},
		{cert: cert, kind: "cert-only", class: 1, ok: false},
		{cert: garbage, kind: "cert-only-garbage", class: 1, ok: false},
		{key: key, kind: "key-only", class: 2, ok: false},
		{key: missing, kind: "key-only-missing", class: 2, ok: false},
		{cert: cert, key: key, kind: "valid", class: 3, ok: true},
		{cert: cert, key: other, kind: "mismatched", class: 4, ok: false},
		{cert: garbage, key: key, kind: "garbage-cert", class: 4, ok: false},
		{cert: cert, key: garbage, kind: "garbage-key", class: 4, ok: false},
		{cert: missing, key: key, kind: "missing-cert", class: 4, ok: false},
		{cert: key, key: cert, kind: "swapped", class: 4, ok: false},
	}
}

type serverCert struct {
	kind   string
	issuer int
	names  []string // DNS names and IP addresses (canonical text) the certificate is valid for
	cert   tls.Certificate
}

func (p *pki) serverCerts() []serverCert {
	mk := func(kind string, issuer int, dns []string, ips []string) serverCert {
		var nips []net.IP
		names := append([]string{}, dns...)
		for _, s := range ips {
			ip := net.ParseIP(s)
			nips = append(nips, ip)
			names = append(names, ip.String())
		}
		c, _, _ := p.leaf(issuer, dns, nips, false)
		return serverCert{kind: kind, issuer: issuer, names: names, cert: c}
	}
	return []serverCert{
		mk("right", 1, []string{"node1.cass.example"}, []string{"10.1.2.3", "fd00::1:2"}),
		mk("wrong-name", 1, []string{"other.example"}, []string{"10.9.9.9"}),
		mk("untrusted", 3, []string{"node1.cass.example"}, []string{"10.1.2.3", "fd00::1:2"}),
		mk("name-only", 1, []string{"node1.cass.example"}, nil),
		mk("ip-only", 1, nil, []string{"10.1.2.3", "fd00::1:2"}),
	}
}
