// C06 harness: every request ends exactly once; closing never hangs; streams are never leaked.
// Same engine as C01 (c01lib), with the lifecycle profile: a connection fault in most histories (write
// failure / write stall / server->client cut / node closes / Conn.Close / Session.Close while requests are
// outstanding), cancellations before and after the write, deadlines, stream exhaustion on the 128-id
// protocols, handshake failures. Monitors: every caller returns (watchdog) with a documented outcome,
// closes return (watchdog), reserved stream ids at quiescence = requests the node received and never
// answered, StreamObserver callbacks pair up; the event logs are replayed through the connection model.
package main

import (
	"gocqlverif/c01lib"
	"gocqlverif/hlib"
)

func main() {
	o := hlib.Init("C06")
	o.Rule = "one case = one session history with the lifecycle profile (faults at every phase, cancellations, closes, exhaustion, handshake failures); " +
		"distinct = distinct event logs; non-trivial = at least one token request completed a caller or the handshake failed as scripted"
	n := 200 * o.Scale
	if o.Search {
		n = 60 * o.Scale
	}
	var hs []*c01lib.Hist
	// cancellation inside the write-coalescing window (a written frame must keep its stream id reserved)
	for v, proto := range []int{2, 4, 2, 5} {
		hs = append(hs, c01lib.CoalCancelHist(len(hs), proto, v+1))
	}
	// the direct writer's select with both the context and the free semaphore ready: 48 requests per history
	for _, proto := range []int{4, 2, 3} {
		hs = append(hs, c01lib.CancelInBuildHist(len(hs), proto, 48))
	}
	for v, proto := range []int{2, 4, 2} {
		hs = append(hs, c01lib.WriteStallCancelHist(len(hs), proto, v+1, v != 2))
	}
	for nerr := 1; nerr <= 4; nerr++ {
		k := len(hs)
		hs = append(hs, c01lib.TempErrHist(k, []int{2, 4}[nerr%2], nerr, nerr%3, nerr%3, 4))
	}
	// the heartbeat's OPTIONS answered with an ERROR frame while other requests are outstanding; and answers
	// whose header carries another valid protocol version (exec refuses them and must still release the id)
	for v, proto := range []int{4, 2} {
		hs = append(hs, c01lib.HeartbeatErrHist(len(hs), proto, 3+v))
	}
	for _, proto := range []int{4, 2, 3, 5, 1} {
		hs = append(hs, c01lib.WrongVersionHist(len(hs), proto, 6))
	}
	// a per-request framing error must consume the frame: compress-flagged answers without a compressor
	for variant := 1; variant <= 3; variant++ {
		for _, proto := range []int{4, 2} {
			hs = append(hs, c01lib.FlagBodyHist(len(hs), proto, variant))
		}
	}
	for i := len(hs); i < n; i++ {
		hs = append(hs, c01lib.Gen(o.Rng, i, c01lib.Lifecycle))
	}
	reps := c01lib.RunAll(hs, 6, 5)
	// gocql.TimeoutLimit = 1 and 2 (package variable: these histories run as groups of their own): silent node,
	// sequential callers whose timeouts exceed the limit, and callers + idle heartbeat timeouts
	for _, limit := range []int{1, 2} {
		var g []*c01lib.Hist
		k := len(reps)
		g = append(g, c01lib.TimeoutLimitHist(k, 4, limit, limit+2, 0), c01lib.TimeoutLimitHist(k+1, 2, limit, limit+1, 0),
			c01lib.TimeoutLimitHist(k+2, 3, limit, limit, 1500), c01lib.TimeoutLimitHist(k+3, 4, limit, 1, 1300*limit+300))
		reps = append(reps, c01lib.RunAllLimit(g, 6, 5, int64(limit))...)
	}
	c01lib.Emit(o, reps)
	o.Finish("From GocqlV Require Import Lib.Base C01.Corr.", "C01.Corr.case", "C01.Corr.run")
}
