// Bodies whose COMPRESSED length sits around the powers of two of the block length (monitor only): a length
// computation on the block that wraps or loses bits (a shift in uint32, a 24-bit field, an int16 ...) rejects or
// mangles valid bodies only in a narrow window next to such a boundary, which round body sizes never hit.
package main

import (
	"bytes"
	"fmt"

	"gocqlverif/hlib"
)

// encodedLen: the length of the compressor's output for body (for lz4 the block, without the 4-byte prefix).
func encodedLen(k int, body []byte) int {
	enc, err := compressorOf(k).Encode(body)
	if err != nil {
		return -1
	}
	if k == kLz4 {
		return len(enc) - 4
	}
	return len(enc)
}

// bodyForBlockLen finds a body (a prefix of the incompressible pool, optionally followed by a compressible
// tail) whose encoded length is target, or as close as the format allows.
func bodyForBlockLen(k int, pool []byte, target int, tail int) []byte {
	mk := func(n int) []byte {
		if n < 0 {
			n = 0
		}
		if n > len(pool) {
			n = len(pool)
		}
		if tail == 0 {
			return pool[:n]
		}
		return append(append([]byte{}, pool[:n]...), bytes.Repeat([]byte("compressible tail "), tail/18+1)[:tail]...)
	}
	n := target - target/250 - 8
	body := mk(n)
	for it := 0; it < 5; it++ {
		got := encodedLen(k, body)
		if got == target || got < 0 {
			break
		}
		n += target - got
		body = mk(n)
	}
	return body
}

func boundaryCheck(o *hlib.Out, r *hlib.Rng) {
	ms := []int{1 << 16, 1 << 20, 1 << 24}
	if o.Tier == "thorough" || o.Search {
		ms = append(ms, 2<<24, 1<<26, 1<<27)
	}
	top := ms[len(ms)-1]
	pool := make([]byte, top+80000)
	for i := 0; i+8 <= len(pool); i += 8 { // incompressible
		v := r.U64()
		for j := 0; j < 8; j++ {
			pool[i+j] = byte(v >> (8 * uint(j)))
		}
	}
	checked := 0
	for _, m := range ms {
		targets := []int{m - 1, m, m + 1, m + 255, m + 256, m + 65535, m + 65536}
		nsweep := 20
		if m >= 1<<24 && o.Tier != "thorough" && !o.Search {
			nsweep = 12
		}
		for i := 0; i < nsweep; i++ { // a sweep just below and just above the boundary
			targets = append(targets, m-70000+r.Intn(70000), m+r.Intn(70000))
		}
		for ti, target := range targets {
			if target < 16 {
				continue
			}
			for _, k := range []int{kLz4, kSnappy} {
				if k == kSnappy && m >= 1<<24 && ti%3 != 0 && o.Tier != "thorough" {
					continue
				}
				tail := 0
				if ti%4 == 3 {
					tail = 1 + r.Intn(5000) // mixed body
				}
				body := bodyForBlockLen(k, pool, target, tail)
				before := len(o.Violations)
				lawCheck(o, k, body)
				for vi := before; vi < len(o.Violations); vi++ {
					o.Violations[vi].Detail += fmt.Sprintf(" [body of %d bytes whose %s encoding is %d bytes long, next to the block-length boundary %d]", len(body), kindName[k], encodedLen(k, body), m)
				}
				checked++
			}
		}
	}
	o.Extra["block_length_boundary_bodies"] = checked
}
