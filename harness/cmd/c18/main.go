// C18 harness: compression is transparent and only used as negotiated.
//
// Runs the real framer (newFramer / finish / request builders / readHeader / readFrame), the real
// SnappyCompressor and LZ4Compressor, and real connections (startup negotiation against a scripted
// in-memory peer with its own frame codec) through /repo/verif_shim_c18.go, records
// (input, implementation output) as Coq correspondence cases and runs property monitors on the
// implementation's outputs.  The peer-side codec in this file is written from the native protocol
// specification and calls the snappy / lz4 libraries directly, never gocql's framer or wrappers.
package main

import (
	"bytes"
	"encoding/binary"
	"errors"
	"fmt"
	"io"
	"net"
	"runtime"
	"sort"
	"strings"
	"sync"
	"time"

	"github.com/gocql/gocql"
	glz4 "github.com/gocql/gocql/lz4"
	"github.com/golang/snappy"
	plz4 "github.com/pierrec/lz4/v4"
	"gocqlverif/hlib"
)

const flagCompress = 0x01 // native protocol spec, frame header flags

// ---- small compressors with behaviour fixed in C18/Model.v --------------------------------------

type identC struct{}

func (identC) Name() string                    { return "id" }
func (identC) Encode(b []byte) ([]byte, error) { return append([]byte{}, b...), nil }
func (identC) Decode(b []byte) ([]byte, error) { return append([]byte{}, b...), nil }

type prefixC struct{}

func (prefixC) Name() string { return "pfx" }
func (prefixC) Encode(b []byte) ([]byte, error) {
	out := make([]byte, 4, 4+len(b))
	binary.BigEndian.PutUint32(out, uint32(len(b)))
	return append(out, b...), nil
}
func (prefixC) Decode(z []byte) ([]byte, error) {
	if len(z) < 4 || int(binary.BigEndian.Uint32(z)) != len(z)-4 {
		return nil, errors.New("pfx: bad length")
	}
	return append([]byte{}, z[4:]...), nil
}

type revC struct{}

func reverse(b []byte) []byte {
	out := make([]byte, len(b))
	for i := range b {
		out[len(b)-1-i] = b[i]
	}
	return out
}
func (revC) Name() string                    { return "rev" }
func (revC) Encode(b []byte) ([]byte, error) { return append(reverse(b), 0xAB), nil }
func (revC) Decode(z []byte) ([]byte, error) {
	if len(z) == 0 || z[len(z)-1] != 0xAB {
		return nil, errors.New("rev: bad trailer")
	}
	return reverse(z[:len(z)-1]), nil
}

type failEncC struct{}

func (failEncC) Name() string                    { return "fe" }
func (failEncC) Encode(b []byte) ([]byte, error) { return nil, errors.New("fe: encode fails") }
func (failEncC) Decode(b []byte) ([]byte, error) { return append([]byte{}, b...), nil }

type failDecC struct{}

func (failDecC) Name() string                    { return "fd" }
func (failDecC) Encode(b []byte) ([]byte, error) { return append([]byte{}, b...), nil }
func (failDecC) Decode(b []byte) ([]byte, error) { return nil, errors.New("fd: decode fails") }

// compressor kinds
const (
	kNone = iota
	kIdent
	kPrefix
	kRev
	kFailEnc
	kFailDec
	kSnappy
	kLz4
	nKinds
)

var kindName = []string{"none", "ident", "prefix", "rev", "failenc", "faildec", "snappy", "lz4"}

func compressorOf(k int) gocql.Compressor {
	switch k {
	case kIdent:
		return identC{}
	case kPrefix:
		return prefixC{}
	case kRev:
		return revC{}
	case kFailEnc:
		return failEncC{}
	case kFailDec:
		return failDecC{}
	case kSnappy:
		return gocql.SnappyCompressor{}
	case kLz4:
		return glz4.LZ4Compressor{}
	}
	return nil
}

// ---- the libraries, called directly (the "trusted algorithm" side of the tables) -------------------

func rawLz4Enc(b []byte) ([]byte, bool) {
	var c plz4.Compressor
	buf := make([]byte, plz4.CompressBlockBound(len(b)))
	n, err := c.CompressBlock(b, buf)
	if err != nil {
		return nil, false
	}
	return buf[:n], true
}

func rawLz4Dec(src []byte, n int) ([]byte, bool) {
	buf := make([]byte, n)
	m, err := plz4.UncompressBlock(src, buf)
	if err != nil {
		return nil, false
	}
	return buf[:m], true
}

// independent peer-side codecs (Cassandra's formats): snappy block; lz4 = 4-byte big-endian
// uncompressed length followed by the block, which must decode to exactly that many bytes
func peerEncode(k int, body []byte) []byte {
	switch k {
	case kSnappy:
		return snappy.Encode(nil, body)
	case kLz4:
		blk, _ := rawLz4Enc(body)
		out := make([]byte, 4, 4+len(blk))
		binary.BigEndian.PutUint32(out, uint32(len(body)))
		return append(out, blk...)
	case kIdent, kFailEnc, kFailDec:
		return append([]byte{}, body...)
	case kPrefix:
		z, _ := prefixC{}.Encode(body)
		return z
	case kRev:
		z, _ := revC{}.Encode(body)
		return z
	}
	return body
}

func peerDecode(k int, wire []byte) ([]byte, error) {
	switch k {
	case kSnappy:
		return snappy.Decode(nil, wire)
	case kLz4:
		if len(wire) < 4 {
			return nil, errors.New("lz4: short")
		}
		n := int(binary.BigEndian.Uint32(wire))
		if n > 1<<28 {
			return nil, errors.New("lz4: too long")
		}
		if n == 0 { // LZ4 of the empty input is the single token 0x00 (lz4-java checks exactly this)
			if len(wire) == 5 && wire[4] == 0 {
				return []byte{}, nil
			}
			return nil, errors.New("lz4: bad empty block")
		}
		buf := make([]byte, n)
		m, err := plz4.UncompressBlock(wire[4:], buf)
		if err != nil {
			return nil, err
		}
		if m != n {
			return nil, fmt.Errorf("lz4: declared %d decoded %d", n, m)
		}
		return buf, nil
	case kIdent, kFailEnc:
		return wire, nil
	case kPrefix:
		return prefixC{}.Decode(wire)
	case kRev:
		return revC{}.Decode(wire)
	case kFailDec:
		return wire, nil
	}
	return nil, errors.New("no codec")
}

// ---- Coq printers ----------------------------------------------------------------------------------

func optB(b []byte, ok bool) string { return hlib.OptBytes(b, ok) }

type encPair struct {
	in  []byte
	out []byte
	ok  bool
}
type decTriple struct {
	src []byte
	n   int
	out []byte
	ok  bool
}

// ckTerm prints the Coq [ckind] for compressor kind k; encIn: bodies whose Encode result the model
// needs; decIn: wire bodies whose Decode result the model needs.
func ckTerm(k int, encIn [][]byte, decIn [][]byte) string {
	switch k {
	case kNone:
		return "KNone"
	case kIdent:
		return "KIdent"
	case kPrefix:
		return "KPrefix"
	case kRev:
		return "KRev"
	case kFailEnc:
		return "KFailEnc"
	case kFailDec:
		return "KFailDec"
	case kSnappy:
		var e, d []string
		for _, b := range encIn {
			e = append(e, hlib.Pair(hlib.ZList(b), hlib.Some(hlib.ZList(snappy.Encode(nil, b)))))
		}
		for _, w := range decIn {
			if !declaredOK(kSnappy, w) {
				continue
			}
			out, err := snappy.Decode(nil, w)
			d = append(d, hlib.Pair(hlib.ZList(w), optB(out, err == nil)))
		}
		return fmt.Sprintf("(KTable %s %s %s)", hlib.ZList([]byte("snappy")), hlib.List(e), hlib.List(d))
	case kLz4:
		var e, d []string
		for _, b := range encIn {
			blk, ok := rawLz4Enc(b)
			e = append(e, hlib.Pair(hlib.ZList(b), optB(blk, ok)))
		}
		for _, w := range decIn {
			if len(w) < 4 {
				continue
			}
			n := int(binary.BigEndian.Uint32(w))
			if n == 0 || !declaredOK(kLz4, w) {
				continue
			}
			out, ok := rawLz4Dec(w[4:], n)
			d = append(d, fmt.Sprintf("(%s, %d, %s)", hlib.ZList(w[4:]), n, optB(out, ok)))
		}
		return fmt.Sprintf("(KLz4 %s %s)", hlib.List(e), hlib.List(d))
	}
	return "KNone"
}

var reqNames = []string{"RStartup", "ROptions", "RPrepare", "RAuthResponse", "RQuery", "RExecute", "RBatch", "RRegister"}
var reqOps = []byte{0x01, 0x05, 0x09, 0x0F, 0x07, 0x0A, 0x0D, 0x0B} // native protocol spec opcodes

func kindOfOp(op byte) int {
	for i, x := range reqOps {
		if x == op {
			return i
		}
	}
	return -1
}

// finish / build outcome as a Coq [res bytes]
func resTerm(out []byte, err error, panicked interface{}) string {
	if panicked != nil {
		return "Crash"
	}
	if err != nil {
		if err == gocql.ErrFrameTooBig {
			return "(Err EFrameTooBig)"
		}
		return "(Err EEncode)"
	}
	return "(Ok " + hlib.ZList(out) + ")"
}

func readErrClass(err error) string {
	msg := err.Error()
	switch {
	case err == gocql.ErrFrameTooBig:
		return "EFrameTooBig"
	case strings.HasPrefix(msg, "frame body length can not be less than 0"):
		return "ENegLength"
	case strings.HasPrefix(msg, "error whilst trying to discard frame"):
		return "EDiscard"
	case strings.HasPrefix(msg, "unable to read frame body"):
		return "EShortBody"
	case strings.Contains(msg, "no compressor available with compressed frame body"):
		return "ENoCompressor"
	case strings.Contains(msg, "unsupported protocol response version"):
		return "EBadVersion"
	case err == io.EOF || err == io.ErrUnexpectedEOF:
		return "EHeaderRead"
	}
	return "EDecode"
}

// ---- spec-side frame codec (native protocol spec section 2) -----------------------------------------

func specHeadSize(version byte) int {
	if version&0x7f >= 3 {
		return 9
	}
	return 8
}

func specFrame(version, flags byte, stream int, op byte, body []byte) []byte {
	var h []byte
	if version&0x7f >= 3 {
		h = []byte{version, flags, byte(stream >> 8), byte(stream), op}
	} else {
		h = []byte{version, flags, byte(stream), op}
	}
	var l [4]byte
	binary.BigEndian.PutUint32(l[:], uint32(len(body)))
	return append(append(h, l[:]...), body...)
}

type specView struct {
	version, flags, op byte
	stream             int // raw unsigned
	length             int
	body               []byte
}

func specParse(frame []byte) (v specView, ok bool) {
	if len(frame) < 1 {
		return v, false
	}
	hs := specHeadSize(frame[0])
	if len(frame) < hs {
		return v, false
	}
	v.version, v.flags = frame[0], frame[1]
	if hs == 9 {
		v.stream = int(frame[2])<<8 | int(frame[3])
		v.op = frame[4]
	} else {
		v.stream = int(frame[2])
		v.op = frame[3]
	}
	v.length = int(binary.BigEndian.Uint32(frame[hs-4 : hs]))
	v.body = frame[hs:]
	return v, true
}

// ---- generators -----------------------------------------------------------------------------------------

func genBody(r *hlib.Rng, max int) []byte {
	if max < 1 {
		max = 1
	}
	switch r.Intn(12) {
	case 0:
		return []byte{}
	case 1:
		return []byte{byte(r.U64())}
	case 2: // incompressible
		return r.Bytes(1 + r.Intn(max))
	case 3: // one byte repeated
		return bytes.Repeat([]byte{byte(r.Pick(0, 0xff, 'a', 0x80))}, 1+r.Intn(max))
	case 4: // short pattern repeated
		p := r.Bytes(1 + r.Intn(7))
		n := 1 + r.Intn(max)
		return bytes.Repeat(p, n/len(p)+1)[:n]
	case 5: // text-like
		words := []string{"SELECT ", "FROM ", "system.local ", "WHERE ", "key=", "?", "peer", " AND ", "INSERT INTO ", "values"}
		var sb bytes.Buffer
		n := 1 + r.Intn(max)
		for sb.Len() < n {
			sb.WriteString(words[r.Intn(len(words))])
		}
		return sb.Bytes()[:n]
	case 6: // boundary sizes
		n := int(r.Pick(3, 4, 5, 11, 12, 13, 15, 16, 59, 60, 61, 64, 127, 128, 254, 255, 256, 257))
		if n > max {
			n = max
		}
		if r.Bool() {
			return r.Bytes(n)
		}
		return bytes.Repeat([]byte{byte(r.U64())}, n)
	case 7: // random prefix then long run then random suffix
		a, b := r.Bytes(r.Intn(20)), r.Bytes(r.Intn(20))
		run := bytes.Repeat([]byte{byte(r.U64())}, r.Intn(max))
		return append(append(a, run...), b...)
	case 8: // bytes that look like a length prefix / flags
		return append([]byte{0, 0, 0, byte(r.Intn(5))}, r.Bytes(r.Intn(16))...)
	default:
		n := r.Intn(max)
		b := r.Bytes(n)
		for i := range b {
			if r.Chance(60) {
				b[i] = byte('a' + r.Intn(4))
			}
		}
		return b
	}
}

func genStream(r *hlib.Rng) int {
	if r.Chance(50) {
		return int(r.Pick(0, 1, -1, 127, 128, 255, 256, 32767, 32768, 65535, 65536, -32768, 0x1234))
	}
	return r.Intn(32768)
}

var versionsValid = []byte{1, 2, 3, 4, 5}

func genVersion(r *hlib.Rng) byte {
	if r.Chance(85) {
		return versionsValid[r.Intn(5)]
	}
	return byte(r.Pick(0, 6, 0x7f, 0x80, 0x81, 0x83, 0x84, 0x85, 0xff, 0x45))
}

func corrupt(r *hlib.Rng, z []byte) []byte {
	out := append([]byte{}, z...)
	switch r.Intn(6) {
	case 0: // truncate
		if len(out) > 0 {
			out = out[:r.Intn(len(out))]
		}
	case 1: // flip a byte
		if len(out) > 0 {
			out[r.Intn(len(out))] ^= byte(1 << uint(r.Intn(8)))
		}
	case 2: // change the first bytes (length headers)
		for i := 0; i < 4 && i < len(out); i++ {
			if r.Bool() {
				out[i] = byte(r.Pick(0, 1, 0x7f, 0x80, 0xff, int64(out[i])+1))
			}
		}
	case 3: // append garbage
		out = append(out, r.Bytes(1+r.Intn(8))...)
	case 4: // random bytes
		out = r.Bytes(r.Intn(24))
	case 5: // small declared length change (lz4 prefix low byte / snappy varint)
		if len(out) > 3 {
			out[3] += byte(r.Pick(1, 2, 255, 16))
		} else if len(out) > 0 {
			out[0] += byte(r.Pick(1, 255))
		}
	}
	return out
}

// maxDeclared caps the uncompressed length a body fed to the real Decode may declare: both Decodes allocate
// the declared length before looking at the block (observation reported in the evidence, see below), so
// without a cap a corrupted 6-byte body would make the harness allocate 4 GiB.
const maxDeclared = 1 << 26

func declaredOK(k int, w []byte) bool {
	switch k {
	case kLz4:
		return len(w) < 4 || binary.BigEndian.Uint32(w) <= maxDeclared
	case kSnappy:
		dl, err := snappy.DecodedLen(w)
		return err != nil || dl <= maxDeclared
	}
	return true
}

// tame brings the declared length of a (corrupted) compressed body under maxDeclared.
func tame(k int, w []byte) []byte {
	if declaredOK(k, w) {
		return w
	}
	switch k {
	case kLz4:
		w[0], w[1] = 0, w[1]&0x03
	case kSnappy:
		w[0] &= 0x7f
	}
	return w
}

// ---- requests ---------------------------------------------------------------------------------------------

func genReq(r *hlib.Rng, kind int, version byte, max int) (*gocql.VerifC18Req, bool) {
	req := &gocql.VerifC18Req{}
	pl := false
	text := func() string { return string(genText(r, max)) }
	switch kind {
	case gocql.VerifC18Startup:
		req.Opts = map[string]string{}
		if r.Bool() {
			req.Opts["CQL_VERSION"] = "3.0." + fmt.Sprint(r.Intn(10))
		}
	case gocql.VerifC18Options:
	case gocql.VerifC18Prepare:
		req.Statement = text()
	case gocql.VerifC18AuthResponse:
		req.Data = genBody(r, max)
	case gocql.VerifC18Query:
		req.Statement = text()
		for i := r.Intn(3); i > 0; i-- {
			req.Values = append(req.Values, genBody(r, max/2))
		}
		if r.Bool() {
			req.PageSize = r.Intn(5000)
		}
	case gocql.VerifC18Execute:
		req.PreparedID = r.Bytes(16)
		for i := r.Intn(3); i > 0; i-- {
			req.Values = append(req.Values, genBody(r, max/2))
		}
	case gocql.VerifC18Batch:
		req.Statement = text()
		for i := r.Intn(3); i > 0; i-- {
			req.Values = append(req.Values, genBody(r, max/2))
		}
	case gocql.VerifC18Register:
		for i := r.Intn(4); i > 0; i-- {
			req.Events = append(req.Events, []string{"TOPOLOGY_CHANGE", "STATUS_CHANGE", "SCHEMA_CHANGE"}[r.Intn(3)])
		}
	}
	takes := kind == gocql.VerifC18Prepare || kind == gocql.VerifC18Query || kind == gocql.VerifC18Execute || kind == gocql.VerifC18Batch
	if takes && version&0x7f >= 4 && r.Chance(30) {
		req.CustomPayload = map[string][]byte{"k": genBody(r, 12)}
		pl = true
	}
	return req, pl
}

func genText(r *hlib.Rng, max int) []byte {
	words := []string{"SELECT ", "* ", "FROM ", "ks.tbl ", "WHERE ", "id = ? ", "AND ", "INSERT INTO ", "VALUES (?, ?) ", "USING TTL 10 "}
	var sb bytes.Buffer
	n := 1 + r.Intn(max+1)
	for sb.Len() < n {
		sb.WriteString(words[r.Intn(len(words))])
	}
	return sb.Bytes()[:n]
}

// ---- scripted peer for real connections ---------------------------------------------------------------------

type script struct {
	version     byte
	supported   map[string][]string
	auth        bool // AUTHENTICATE after STARTUP
	challenges  int  // AUTH_CHALLENGE rounds before AUTH_SUCCESS
	failStartup bool // answer STARTUP with ERROR
	// how responses to ordinary requests are encoded, per request ordinal:
	// 0 = as negotiated (compressed iff STARTUP carried COMPRESSION), 1 = plain although negotiated,
	// 2 = compressed with the driver's configured algorithm although NOT negotiated, 3 = corrupt compressed body
	respMode []int
	peerKind int // codec the peer uses when it compresses (the configured compressor's algorithm)
}

type gotFrame struct {
	raw         []byte
	view        specView
	startupComp string
	hasComp     bool
	startupKeys []string
}

type peer struct {
	sc         script
	mu         sync.Mutex
	frames     []gotFrame
	negotiated bool
	nreq       int
	sentBodies [][]byte // plain bodies of the responses sent to ordinary requests
	sentWire   [][]byte // their bodies as sent
	sentModes  []int
	done       chan struct{}
}

func writeString(b *bytes.Buffer, s string) {
	b.Write([]byte{byte(len(s) >> 8), byte(len(s))})
	b.WriteString(s)
}

func (p *peer) supportedBody() []byte {
	var b bytes.Buffer
	keys := make([]string, 0, len(p.sc.supported))
	for k := range p.sc.supported {
		keys = append(keys, k)
	}
	sort.Strings(keys)
	b.Write([]byte{byte(len(keys) >> 8), byte(len(keys))})
	for _, k := range keys {
		writeString(&b, k)
		vs := p.sc.supported[k]
		b.Write([]byte{byte(len(vs) >> 8), byte(len(vs))})
		for _, v := range vs {
			writeString(&b, v)
		}
	}
	return b.Bytes()
}

// parse a [string map] body (spec section 3)
func parseStringMap(body []byte) (map[string]string, []string, bool) {
	m := map[string]string{}
	var keys []string
	if len(body) < 2 {
		return nil, nil, false
	}
	n := int(body[0])<<8 | int(body[1])
	body = body[2:]
	rd := func() (string, bool) {
		if len(body) < 2 {
			return "", false
		}
		l := int(body[0])<<8 | int(body[1])
		if len(body) < 2+l {
			return "", false
		}
		s := string(body[2 : 2+l])
		body = body[2+l:]
		return s, true
	}
	for i := 0; i < n; i++ {
		k, ok1 := rd()
		v, ok2 := rd()
		if !ok1 || !ok2 {
			return nil, nil, false
		}
		m[k] = v
		keys = append(keys, k)
	}
	if len(body) != 0 {
		return nil, nil, false
	}
	sort.Strings(keys)
	return m, keys, true
}

func (p *peer) serve(c net.Conn) {
	defer close(p.done)
	defer c.Close()
	challengesLeft := p.sc.challenges
	for {
		var h [9]byte
		if _, err := io.ReadFull(c, h[:1]); err != nil {
			return
		}
		hs := specHeadSize(h[0])
		if _, err := io.ReadFull(c, h[1:hs]); err != nil {
			return
		}
		ln := int(binary.BigEndian.Uint32(h[hs-4 : hs]))
		body := make([]byte, ln)
		if _, err := io.ReadFull(c, body); err != nil {
			return
		}
		raw := append(append([]byte{}, h[:hs]...), body...)
		v, _ := specParse(raw)
		g := gotFrame{raw: raw, view: v}
		rv := p.sc.version | 0x80
		var resp []byte
		switch v.op {
		case 0x05: // OPTIONS -> SUPPORTED
			resp = specFrame(rv, 0, v.stream, 0x06, p.supportedBody())
		case 0x01: // STARTUP
			if m, keys, ok := parseStringMap(v.body); ok {
				g.startupComp, g.hasComp = m["COMPRESSION"]
				g.startupKeys = keys
				p.negotiated = g.hasComp
			}
			switch {
			case p.sc.failStartup:
				var b bytes.Buffer
				b.Write([]byte{0, 0, 0, 0x0a}) // protocol error
				writeString(&b, "scripted failure")
				resp = specFrame(rv, 0, v.stream, 0x00, b.Bytes())
			case p.sc.auth:
				var b bytes.Buffer
				writeString(&b, "org.apache.cassandra.auth.PasswordAuthenticator")
				resp = specFrame(rv, 0, v.stream, 0x03, b.Bytes())
			default:
				resp = specFrame(rv, 0, v.stream, 0x02, nil)
			}
		case 0x0F: // AUTH_RESPONSE: after STARTUP, so the peer may compress as negotiated
			var plain []byte
			op := byte(0x10)
			if challengesLeft > 0 {
				challengesLeft--
				op = 0x0E
				plain = []byte{0, 0, 0, 2, 'c', 'h'}
			} else {
				plain = []byte{0xff, 0xff, 0xff, 0xff}
			}
			if p.negotiated {
				resp = specFrame(rv, flagCompress, v.stream, op, peerEncode(p.sc.peerKind, plain))
			} else {
				resp = specFrame(rv, 0, v.stream, op, plain)
			}
		default: // ordinary request -> RESULT
			mode := 0
			if p.nreq < len(p.sc.respMode) {
				mode = p.sc.respMode[p.nreq]
			}
			p.nreq++
			// RESULT Void, or RESULT SetKeyspace with a name derived from the ordinal (so bodies differ)
			var b bytes.Buffer
			if p.nreq%2 == 0 {
				b.Write([]byte{0, 0, 0, 1})
			} else {
				b.Write([]byte{0, 0, 0, 3})
				writeString(&b, strings.Repeat("ks", p.nreq)+fmt.Sprint(p.nreq))
			}
			plain := b.Bytes()
			compress := p.negotiated
			switch mode {
			case 1:
				compress = false
			case 2:
				compress = true
			}
			wireBody := plain
			if compress && p.sc.peerKind != kNone {
				wireBody = peerEncode(p.sc.peerKind, plain)
				if mode == 3 {
					wireBody = wireBody[:len(wireBody)/2]
				}
				resp = specFrame(rv, flagCompress, v.stream, 0x08, wireBody)
			} else if mode == 2 { // no algorithm known to the peer: still claims compression
				resp = specFrame(rv, flagCompress, v.stream, 0x08, plain)
			} else {
				resp = specFrame(rv, 0, v.stream, 0x08, plain)
			}
			p.mu.Lock()
			p.sentBodies = append(p.sentBodies, plain)
			p.sentWire = append(p.sentWire, wireBody)
			p.sentModes = append(p.sentModes, mode)
			p.mu.Unlock()
		}
		p.mu.Lock()
		p.frames = append(p.frames, g)
		p.mu.Unlock()
		if _, err := c.Write(resp); err != nil {
			return
		}
	}
}

type challengeAuth struct{}

func (challengeAuth) Challenge(req []byte) ([]byte, gocql.Authenticator, error) {
	return append([]byte("resp:"), req[:min(len(req), 8)]...), challengeAuth{}, nil
}
func (challengeAuth) Success(data []byte) error { return nil }

func min(a, b int) int {
	if a < b {
		return a
	}
	return b
}

func strList(ss []string) string {
	items := make([]string, len(ss))
	for i, s := range ss {
		items[i] = hlib.ZList([]byte(s))
	}
	return hlib.List(items)
}

func smapTerm(m map[string][]string) string {
	keys := make([]string, 0, len(m))
	for k := range m {
		keys = append(keys, k)
	}
	sort.Strings(keys)
	items := make([]string, len(keys))
	for i, k := range keys {
		items[i] = hlib.Pair(hlib.ZList([]byte(k)), strList(m[k]))
	}
	return hlib.List(items)
}

func contains(ss []string, s string) bool {
	for _, x := range ss {
		if x == s {
			return true
		}
	}
	return false
}

// ---- main -------------------------------------------------------------------------------------------------------

func main() {
	o := hlib.Init("C18")
	r := o.Rng
	o.Rule = "inputs: framer versions x compressors (none, 5 small model compressors, real snappy, real lz4) x header flags x streams x bodies " +
		"(empty, 1 byte, incompressible, runs, repeated patterns, text, boundary sizes); all 8 request kinds through the real builders; " +
		"response frames and corrupted/truncated compressed bodies through readHeader/readFrame; real connections against a scripted peer " +
		"with generated SUPPORTED sets; distinct = distinct Coq case term; non-trivial = a compressor is configured or the compress flag is set " +
		"or (for negotiation) a compressor is configured"
	n := 40 * o.Scale
	maxBody := 160
	if o.Tier == "thorough" {
		maxBody = 400
	}

	violate := func(idx int, kind, finding, detail string) { o.Violate(idx, kind, finding, detail, nil) }

	// -- names and the lz4 bound ---------------------------------------------------------------------------
	o.Case("name", true, fmt.Sprintf("CName 0 %s", hlib.ZList([]byte(gocql.SnappyCompressor{}.Name()))))
	o.Case("name", true, fmt.Sprintf("CName 1 %s", hlib.ZList([]byte(glz4.LZ4Compressor{}.Name()))))
	for _, v := range []int{0, 1, 2, 254, 255, 256, 509, 510, 511, 65535, 1 << 20, 1<<28 - 9, 1 << 28} {
		o.Case("lz4-bound", true, fmt.Sprintf("CLz4Bound %d %d", v, plz4.CompressBlockBound(v)))
	}
	for i := 0; i < n/4; i++ {
		v := r.Intn(1 << 28)
		o.Case("lz4-bound", true, fmt.Sprintf("CLz4Bound %d %d", v, plz4.CompressBlockBound(v)))
	}

	// -- newFramer -----------------------------------------------------------------------------------------------
	for _, v := range []int{0, 1, 2, 3, 4, 5, 6, 0x7f, 0x80, 0x81, 0x82, 0x83, 0x84, 0x85, 0x86, 0xff} {
		for _, k := range []int{kNone, kIdent, kSnappy} {
			for tp := 0; tp < 4; tp++ {
				tr, pl := tp&1 == 1, tp&2 == 2
				f := gocql.VerifC18NewFramer(compressorOf(k), byte(v))
				if tr {
					f.Trace()
				}
				if pl {
					f.Payload()
				}
				proto, flags, hs, has := f.Info()
				idx := o.Case("new-framer", k != kNone, fmt.Sprintf("CNewFramer %s %d %s %s %d %d %s %s", ckTerm(k, nil, nil), v,
					hlib.Bool(tr), hlib.Bool(pl), proto, flags, hlib.Nat(hs), hlib.Bool(has)))
				if (flags&flagCompress != 0) != (k != kNone) {
					violate(idx, "framer-flag-iff-compressor", "", fmt.Sprintf("newFramer(%s,%d): flags %#x", kindName[k], v, flags))
				}
			}
		}
	}

	// -- finish on explicit header flags -------------------------------------------------------------------------
	for i := 0; i < 6*n; i++ {
		k := r.Intn(nKinds)
		version := genVersion(r)
		hflags := byte(r.U64())
		if r.Chance(40) {
			hflags = byte(r.Pick(0, 1, 2, 3, 0x10, 0x11, 0xfe, 0xff, 4, 5))
		}
		op := byte(r.Pick(0x01, 0x05, 0x07, 0x09, 0x0A, 0x0B, 0x0D, 0x0F, 0x00, 0xff, int64(r.Intn(256))))
		stream := genStream(r)
		body := genBody(r, maxBody)
		f := gocql.VerifC18NewFramer(compressorOf(k), version)
		out, _, err, pan := f.FinishRaw(hflags, op, stream, body, true)
		nontrivial := k != kNone || hflags&flagCompress != 0
		idx := o.Case("finish/"+kindName[k], nontrivial, fmt.Sprintf("CFinish %s %d %d %d %s %s %s", ckTerm(k, [][]byte{body}, nil),
			version, hflags, op, hlib.Z(int64(stream)), hlib.ZList(body), resTerm(out, err, pan)))
		checkWritten(o, idx, "finish", k, hflags, body, out, err, pan)
	}

	// -- the real request builders -----------------------------------------------------------------------------------
	for i := 0; i < 8*n; i++ {
		k := r.Intn(nKinds)
		if i%3 == 0 {
			k = []int{kSnappy, kLz4, kNone}[r.Intn(3)]
		}
		version := versionsValid[r.Intn(5)]
		if r.Chance(8) {
			version |= 0x80
		}
		kind := i % 8
		tr := r.Chance(30)
		stream := genStream(r)
		req, pl := genReq(r, kind, version, maxBody)
		// the serialised body: what the same builder writes when no compressor is configured
		pf := gocql.VerifC18NewFramer(nil, version)
		if tr {
			pf.Trace()
		}
		pout, perr, ppan := pf.Build(kind, stream, req)
		if perr != nil || ppan != nil {
			violate(-1, "build-panics", "", fmt.Sprintf("%s v%d without compressor: error %v panic %v", reqNames[kind], version, perr, ppan))
			continue
		}
		_, _, hs, _ := pf.Info()
		plain := pout[hs:]
		f := gocql.VerifC18NewFramer(compressorOf(k), version)
		if tr {
			f.Trace()
		}
		out, err, pan := f.Build(kind, stream, req)
		idx := o.Case("build/"+reqNames[kind]+"/"+kindName[k], k != kNone, fmt.Sprintf("CBuild %s %d %s %s %s %s %s %s",
			ckTerm(k, [][]byte{plain}, nil), version, hlib.Bool(tr), reqNames[kind], hlib.Bool(pl), hlib.Z(int64(stream)),
			hlib.ZList(plain), resTerm(out, err, pan)))
		if pan != nil {
			violate(idx, "build-panics", "", fmt.Sprintf("%s with %s: panic %v", reqNames[kind], kindName[k], pan))
			continue
		}
		if err != nil {
			if k != kFailEnc || kind == gocql.VerifC18Startup || kind == gocql.VerifC18Options {
				violate(idx, "build-error", "", fmt.Sprintf("%s with %s: %v", reqNames[kind], kindName[k], err))
			}
			continue
		}
		v, ok := specParse(out)
		if !ok {
			violate(idx, "frame-shape", "", "frame shorter than its header")
			continue
		}
		wantFlag := k != kNone && kind != gocql.VerifC18Startup && kind != gocql.VerifC18Options
		if (v.flags&flagCompress != 0) != wantFlag {
			violate(idx, "flag-rule", "", fmt.Sprintf("%s with compressor %s: header flags %#x (OPTIONS/STARTUP never compressed; others iff a compressor is configured)",
				reqNames[kind], kindName[k], v.flags))
		}
		if v.op != reqOps[kind] {
			violate(idx, "opcode", "", fmt.Sprintf("%s: opcode %#x", reqNames[kind], v.op))
		}
		checkWritten(o, idx, "build", k, v.flags, plain, out, err, pan)
	}

	// -- systematic: EVERY request kind x protocol 3, 4, 5 x {no compressor, snappy, lz4, ident} through the real builders ------------
	// (independent of the seed) decompressing the wire body ONCE gives exactly the body the same builder writes
	// without compressor; the flag is set iff the body is compressed; the model must produce the same frame
	for _, version := range []byte{3, 4, 5} {
		for _, k := range []int{kNone, kSnappy, kLz4, kIdent} {
			for kind := 0; kind <= 8; kind++ { // 8 = PREPARE with a keyspace (protocol 5 only)
				if kind == 8 && version < 5 {
					continue
				}
				long := strings.Repeat("SELECT a, b, c FROM ks.tbl WHERE id = ? AND x = ? ", 6)
				req := &gocql.VerifC18Req{Statement: long, Values: [][]byte{[]byte("value-one-value-one"), {1, 2, 3, 4}}, PreparedID: []byte("0123456789abcdef"),
					Opts: map[string]string{"CQL_VERSION": "3.0.0"}, Events: []string{"TOPOLOGY_CHANGE", "STATUS_CHANGE"}, Data: []byte("\x00user\x00password-password"), PageSize: 100}
				build := func(f *gocql.VerifC18Framer) ([]byte, error, interface{}) {
					if kind == 8 {
						return f.BuildPrepare(7, long, "keyspace_name_keyspace_name")
					}
					return f.Build(kind, 7, req)
				}
				mk, name := kind, "/"+kindName[k]
				if kind == 8 {
					mk, name = gocql.VerifC18Prepare, "+keyspace/"+kindName[k]
				}
				pout, perr, ppan := build(gocql.VerifC18NewFramer(nil, version))
				if perr != nil || ppan != nil || len(pout) < 9 {
					violate(-1, "build-panics", "", fmt.Sprintf("systematic %s v%d without compressor: error %v panic %v", reqNames[mk], version, perr, ppan))
					continue
				}
				plain := pout[9:]
				out, err, pan := build(gocql.VerifC18NewFramer(compressorOf(k), version))
				idx := o.Case("build-systematic/"+reqNames[mk]+name, true, fmt.Sprintf("CBuild %s %d false %s false 7 %s %s",
					ckTerm(k, [][]byte{plain}, nil), version, reqNames[mk], hlib.ZList(plain), resTerm(out, err, pan)))
				if err != nil || pan != nil {
					violate(idx, "build-error", "", fmt.Sprintf("systematic %s v%d with %s: error %v panic %v", reqNames[mk], version, kindName[k], err, pan))
					continue
				}
				v, ok := specParse(out)
				if !ok {
					violate(idx, "frame-shape", "", "frame shorter than its header")
					continue
				}
				wantFlag := k != kNone && mk != gocql.VerifC18Startup && mk != gocql.VerifC18Options
				if (v.flags&flagCompress != 0) != wantFlag {
					violate(idx, "flag-rule", "", fmt.Sprintf("systematic %s v%d with %s: header flags %#x", reqNames[mk], version, kindName[k], v.flags))
				}
				checkWritten(o, idx, fmt.Sprintf("systematic %s%s v%d", reqNames[mk], name, version), k, v.flags, plain, out, err, pan)
			}
		}
	}

	// -- frame size limit of finish ------------------------------------------------------------------------------------
	{
		limit := gocql.VerifC18MaxFrameSize
		sizes := []int{limit, limit + 1}
		if o.Tier == "thorough" {
			sizes = append(sizes, limit-1, limit+2)
		}
		for _, total := range sizes {
			for _, k := range []int{kNone, kIdent} {
				f := gocql.VerifC18NewFramer(compressorOf(k), 4)
				body := make([]byte, total-9)
				hflags := byte(0)
				if k == kIdent {
					hflags = flagCompress
				}
				_, ln, err, pan := f.FinishRaw(hflags, 0x07, 1, body, false)
				tooBig := err == gocql.ErrFrameTooBig
				idx := o.Case("finish-limit", true, fmt.Sprintf("CFinishBig %d %s", total, hlib.Bool(tooBig)))
				if pan != nil || (err != nil && !tooBig) {
					violate(idx, "finish-limit", "", fmt.Sprintf("finish on %d bytes: err %v panic %v", total, err, pan))
				}
				if (total > 1<<28) != tooBig { // spec: frames are limited to 256 MB
					violate(idx, "finish-limit", "", fmt.Sprintf("finish on %d bytes: too big = %v", total, tooBig))
				}
				if !tooBig && ln != total {
					violate(idx, "finish-limit", "", fmt.Sprintf("finish on %d bytes left %d", total, ln))
				}
			}
		}
	}

	// -- readHeader ---------------------------------------------------------------------------------------------------------
	for i := 0; i < 4*n; i++ {
		var wire []byte
		switch r.Intn(5) {
		case 0:
			wire = r.Bytes(r.Intn(14))
		case 1:
			v := genVersion(r)
			wire = specFrame(v, byte(r.U64()), genStream(r), byte(r.U64()), r.Bytes(r.Intn(6)))
			wire = wire[:r.Intn(len(wire)+1)]
		default:
			v := genVersion(r)
			if r.Bool() {
				v |= 0x80
			}
			wire = specFrame(v, byte(r.U64()), genStream(r), byte(r.U64()), r.Bytes(r.Intn(6)))
			if r.Chance(30) { // negative / huge lengths
				hs := specHeadSize(v)
				copy(wire[hs-4:hs], [][]byte{{0xff, 0xff, 0xff, 0xff}, {0x80, 0, 0, 0}, {0x7f, 0xff, 0xff, 0xff}, {0x10, 0, 0, 1}}[r.Intn(4)])
			}
		}
		rd := bytes.NewReader(wire)
		h, err := gocql.VerifC18ReadHeader(rd)
		used := len(wire) - rd.Len()
		var term string
		if err != nil {
			term = fmt.Sprintf("(Err %s)", readErrClass(err))
		} else {
			term = fmt.Sprintf("(Ok ([%d;%d;%s;%d;%s], %s))", h.Version, h.Flags, hlib.Z(int64(h.Stream)), h.Op, hlib.Z(int64(h.Length)), hlib.Nat(used))
		}
		idx := o.Case("read-header", len(wire) > 0, fmt.Sprintf("CReadHeader %s %s", hlib.ZList(wire), term))
		if err == nil {
			if v, ok := specParse(wire); !ok || v.flags != h.Flags || v.op != h.Op || int32(uint32(v.length)) != int32(h.Length) {
				violate(idx, "header-fields", "", fmt.Sprintf("readHeader(%x) = %+v; spec parse %+v", wire, h, v))
			}
		}
	}

	// -- readFrame -------------------------------------------------------------------------------------------------------------
	for i := 0; i < 8*n; i++ {
		k := r.Intn(nKinds)
		version := versionsValid[r.Intn(5)]
		body := genBody(r, maxBody)
		hflags := byte(r.Pick(0, 1, 1, 1, 2, 3, 0x0f, 0xfe, 0xff))
		compressed := hflags&flagCompress != 0
		wire := body
		valid := true
		if compressed {
			wire = peerEncode(k, body)
			if r.Chance(35) {
				wire = tame(k, corrupt(r, wire))
				valid = false
			}
		}
		length := len(wire)
		avail := wire
		switch r.Intn(10) {
		case 0:
			length = -1 - r.Intn(5)
			valid = false
		case 1:
			length = len(wire) + 1 + r.Intn(4)
			valid = false
		case 2:
			if len(wire) > 0 {
				length = r.Intn(len(wire))
				valid = false
			}
		case 3:
			avail = append(append([]byte{}, wire...), r.Bytes(1+r.Intn(5))...)
		}
		f := gocql.VerifC18NewFramer(compressorOf(k), version)
		var decIn [][]byte
		if length >= 0 && length <= len(avail) {
			decIn = [][]byte{avail[:length]}
		}
		got, err, pan := f.ReadFrame(bytes.NewReader(avail), gocql.VerifC18Header{Version: version | 0x80, Flags: hflags, Stream: 1, Op: 0x08, Length: length})
		var term string
		switch {
		case pan != nil:
			term = "Crash"
		case err != nil:
			term = fmt.Sprintf("(Err %s)", readErrClass(err))
		default:
			term = "(Ok " + hlib.ZList(got) + ")"
		}
		idx := o.Case("read-frame/"+kindName[k], compressed || k != kNone, fmt.Sprintf("CReadFrame %s %d %d %s %s %s",
			ckTerm(k, nil, decIn), version, hflags, hlib.Z(int64(length)), hlib.ZList(avail), term))
		if pan != nil {
			violate(idx, "read-panics", "", fmt.Sprintf("readFrame panicked: %v", pan))
			continue
		}
		if compressed && k == kNone && length >= 0 && err == nil {
			violate(idx, "compressed-without-compressor", "", "a compressed body was accepted on a framer without compressor")
		}
		if valid && k != kFailDec && !(compressed && k == kNone) {
			if err != nil || !bytes.Equal(got, body) {
				violate(idx, "read-transparency", "", fmt.Sprintf("%s: body %x read back as %x, %v", kindName[k], body, got, err))
			}
		}
		if compressed && err == nil && (k == kSnappy || k == kLz4) && length >= 0 && length <= len(avail) {
			declaredLengthMonitor(o, idx, k, avail[:length], got)
		}
	}

	// -- whole response frames: header + body, as recv does -----------------------------------------------------------------------
	for i := 0; i < 4*n; i++ {
		k := []int{kSnappy, kLz4, kIdent, kPrefix, kRev, kNone}[r.Intn(6)]
		version := versionsValid[r.Intn(5)]
		body := genBody(r, maxBody)
		compressed := r.Chance(70)
		var frame []byte
		if compressed {
			frame = specFrame(version|0x80, flagCompress|byte(r.Pick(0, 2, 8)), genStream(r)&0x7fff, 0x08, peerEncode(k, body))
		} else {
			frame = specFrame(version|0x80, byte(r.Pick(0, 2, 8)), genStream(r)&0x7fff, 0x08, body)
		}
		rd := bytes.NewReader(frame)
		h, herr := gocql.VerifC18ReadHeader(rd)
		var got []byte
		var err error
		var pan interface{}
		if herr == nil {
			f := gocql.VerifC18NewFramer(compressorOf(k), version)
			got, err, pan = f.ReadFrame(rd, h)
		} else {
			err = herr
		}
		var term string
		switch {
		case pan != nil:
			term = "Crash"
		case err != nil:
			term = fmt.Sprintf("(Err %s)", readErrClass(err))
		default:
			term = "(Ok " + hlib.ZList(got) + ")"
		}
		hs := specHeadSize(version)
		idx := o.Case("recv/"+kindName[k], compressed, fmt.Sprintf("CRecv %s %d %s %s", ckTerm(k, nil, [][]byte{frame[hs:]}), version, hlib.ZList(frame), term))
		if pan != nil {
			violate(idx, "read-panics", "", fmt.Sprintf("readFrame panicked: %v", pan))
		} else if compressed && k == kNone {
			if err == nil {
				violate(idx, "compressed-without-compressor", "", "a compressed response was accepted without compressor")
			}
		} else if err != nil || !bytes.Equal(got, body) {
			violate(idx, "read-transparency", "", fmt.Sprintf("%s: response body %x read back as %x, %v", kindName[k], body, got, err))
		}
	}

	// -- length checks of readFrame against large lengths (synthetic reader) ---------------------------------------------------------
	{
		limit := gocql.VerifC18MaxFrameSize
		pairs := [][2]int{{limit + 1, limit + 1}, {limit + 1, limit}, {limit + 1, 0}, {limit, limit}, {limit, limit - 1}, {1 << 30, 10}, {-1, 10}, {0, 0}, {1, 0}}
		if o.Tier == "thorough" {
			pairs = append(pairs, [2]int{limit + 2, limit + 5}, [2]int{limit - 1, limit - 1}, [2]int{1<<31 - 1, 5})
		}
		for _, p := range pairs {
			f := gocql.VerifC18NewFramer(nil, 4)
			_, err, pan := f.ReadFrame(io.LimitReader(zeroReader{}, int64(p[1])), gocql.VerifC18Header{Version: 0x84, Flags: 0, Stream: 1, Op: 0x08, Length: p[0]})
			term := "None"
			if err != nil {
				term = "(Some " + readErrClass(err) + ")"
			}
			idx := o.Case("read-limit", true, fmt.Sprintf("CReadLen %s %d %s", hlib.Z(int64(p[0])), p[1], term))
			if pan != nil {
				violate(idx, "read-panics", "", fmt.Sprintf("readFrame panicked: %v", pan))
			}
			if (p[0] > 1<<28 || p[0] < 0) && err == nil {
				violate(idx, "read-limit", "", fmt.Sprintf("frame body length %d accepted", p[0]))
			}
			if p[0] >= 0 && p[0] <= 1<<28 && p[1] >= p[0] && err != nil { // spec: bodies up to 256 MB are legal
				violate(idx, "read-limit", "", fmt.Sprintf("frame body of %d bytes (all available) rejected: %v", p[0], err))
			}
		}
	}

	// -- LZ4Compressor directly: the length prefix ---------------------------------------------------------------------------------------
	for i := 0; i < 4*n; i++ {
		body := genBody(r, maxBody)
		enc, err := glz4.LZ4Compressor{}.Encode(body)
		raw, rok := rawLz4Enc(body)
		idx := o.Case("lz4-encode", true, fmt.Sprintf("CLz4Enc %s %s %s", hlib.ZList(body), optB(raw, rok), optB(enc, err == nil)))
		if err != nil {
			violate(idx, "lz4-encode-error", "", err.Error())
			continue
		}
		if len(enc) < 4 || int(binary.BigEndian.Uint32(enc)) != len(body) {
			violate(idx, "lz4-prefix", "", fmt.Sprintf("Encode(%d bytes) starts % x", len(body), enc[:min(4, len(enc))]))
		}
		if dec, derr := peerDecode(kLz4, enc); derr != nil || !bytes.Equal(dec, body) {
			violate(idx, "lz4-peer-decodes", "", fmt.Sprintf("Cassandra-style decoding of Encode(%x) gives %x, %v", body, dec, derr))
		}
		// Decode on valid, corrupted and truncated data
		data := enc
		switch r.Intn(4) {
		case 0:
			data = tame(kLz4, corrupt(r, enc))
		case 1:
			data = peerEncode(kLz4, body)
		}
		dec, derr := glz4.LZ4Compressor{}.Decode(data)
		var rawres []byte
		rawok := false
		if len(data) >= 4 {
			if nn := int(binary.BigEndian.Uint32(data)); nn != 0 {
				rawres, rawok = rawLz4Dec(data[4:], nn)
			}
		}
		idx = o.Case("lz4-decode", true, fmt.Sprintf("CLz4Dec %s %s %s", hlib.ZList(data), optB(rawres, rawok), optB(dec, derr == nil)))
		if bytes.Equal(data, enc) && (derr != nil || !bytes.Equal(dec, body)) {
			violate(idx, "lz4-roundtrip", "", fmt.Sprintf("Decode(Encode(%x)) = %x, %v", body, dec, derr))
		}
		if derr == nil {
			declaredLengthMonitor(o, idx, kLz4, data, dec)
		}
	}
	// the LZ4 block format decoder of Spec.v against the library, on blocks the library's compressor made
	for i := 0; i < 2*n; i++ {
		body := genBody(r, maxBody)
		if len(body) == 0 {
			// the library's decoder rejects the block its own compressor makes for the empty input ([0x00]);
			// LZ4Compressor never asks it to (zero prefix => empty body), see C18_lz4_empty
			body = []byte{byte(r.U64())}
		}
		blk, _ := rawLz4Enc(body)
		nn := len(body) + int(r.Pick(0, 0, 0, 1, 7, 300, -1, -2))
		if nn <= 0 {
			nn = len(body) + 1
		}
		out, ok := rawLz4Dec(blk, nn)
		idx := o.Case("lz4-block-format", true, fmt.Sprintf("CLz4Block %s %d %s", hlib.ZList(blk), nn, optB(out, ok)))
		if nn >= len(body) && (!ok || !bytes.Equal(out, body)) {
			violate(idx, "lz4-block-law", "", fmt.Sprintf("UncompressBlock(CompressBlock(%x), %d) = %x, %v", body, nn, out, ok))
		}
	}
	// systematic lz4 prefixes around the true length
	for _, body := range [][]byte{{}, {'a'}, []byte("abcabcabcabcabcabcabcabc"), bytes.Repeat([]byte{7}, 300)} {
		blk, _ := rawLz4Enc(body)
		for _, d := range []int{-2, -1, 0, 1, 2, 255, 256} {
			nn := len(body) + d
			if nn < 0 {
				continue
			}
			data := make([]byte, 4, 4+len(blk))
			binary.BigEndian.PutUint32(data, uint32(nn))
			data = append(data, blk...)
			for _, cut := range []int{len(data), 4, 5} {
				if cut > len(data) {
					continue
				}
				dd := data[:cut]
				dec, derr := glz4.LZ4Compressor{}.Decode(dd)
				var rawres []byte
				rawok := false
				if nn != 0 {
					rawres, rawok = rawLz4Dec(dd[4:], nn)
				}
				idx := o.Case("lz4-decode-prefix", true, fmt.Sprintf("CLz4Dec %s %s %s", hlib.ZList(dd), optB(rawres, rawok), optB(dec, derr == nil)))
				if derr == nil {
					declaredLengthMonitor(o, idx, kLz4, dd, dec)
				}
			}
		}
	}
	// the witness of C18/Refuted.v (fixed finding lz4-length-prefix-unchecked) on the real code: directly,
	// and as a compressed response body through readFrame; both must be errors
	{
		w := []byte{0, 0, 0, 10, 0x10, 'a'}
		dec, derr := glz4.LZ4Compressor{}.Decode(w)
		rawres, rawok := rawLz4Dec(w[4:], 10)
		idx := o.Case("lz4-finding-witness", true, fmt.Sprintf("CLz4Dec %s %s %s", hlib.ZList(w), optB(rawres, rawok), optB(dec, derr == nil)))
		if derr == nil {
			declaredLengthMonitor(o, idx, kLz4, w, dec)
		}
		f := gocql.VerifC18NewFramer(glz4.LZ4Compressor{}, 4)
		got, err, pan := f.ReadFrame(bytes.NewReader(w), gocql.VerifC18Header{Version: 0x84, Flags: flagCompress, Stream: 1, Op: 0x08, Length: len(w)})
		term := "Crash"
		if pan == nil && err != nil {
			term = fmt.Sprintf("(Err %s)", readErrClass(err))
		} else if pan == nil {
			term = "(Ok " + hlib.ZList(got) + ")"
		}
		idx = o.Case("lz4-finding-witness", true, fmt.Sprintf("CReadFrame %s 4 1 %d %s %s", ckTerm(kLz4, nil, [][]byte{w}), len(w), hlib.ZList(w), term))
		if pan == nil && err == nil {
			declaredLengthMonitor(o, idx, kLz4, w, got)
		}
		o.Extra["lz4_prefix_witness_rejected"] = derr != nil && err != nil
	}
	// the witness of the open finding lz4-offset-zero-accepted (Refuted.lz4_offset_zero_rejected_by_format)
	{
		w := append([]byte{0, 0, 0, 60, 0x1f, 0x8e, 0, 0, 0x12, 0x00, 0x02, 0, 0, 0x02, 0x00, 0xe0}, bytes.Repeat([]byte{0x8e}, 14)...)
		out, derr, pan := safeDecode(glz4.LZ4Compressor{}, w)
		idx := o.Case("lz4-offset-zero-witness", true, fmt.Sprintf("CLz4Invalid %s", hlib.ZList(w)))
		if pan != nil {
			violate(idx, "decode-panics", "", fmt.Sprintf("lz4 Decode(% x) panicked: %v", w, pan))
		} else if derr == nil {
			violate(idx, "lz4-invalid-block-accepted", "lz4-offset-zero-accepted", fmt.Sprintf("lz4 body % x has a match with offset 0 and is accepted as % x", w, out))
		}
		o.Extra["lz4_offset_zero_witness_accepted"] = derr == nil && pan == nil
	}
	for _, short := range [][]byte{{}, {0}, {0, 0}, {0, 0, 0}, {1, 2, 3}} {
		dec, derr := glz4.LZ4Compressor{}.Decode(short)
		idx := o.Case("lz4-decode-short", true, fmt.Sprintf("CLz4Dec %s None %s", hlib.ZList(short), optB(dec, derr == nil)))
		if derr == nil {
			violate(idx, "lz4-short-accepted", "", fmt.Sprintf("Decode(%x) = %x without error", short, dec))
		}
	}

	// -- corruption stream: single-byte corruptions of real lz4 bodies against the LZ4 format decoder of Spec.v -----------------------------
	{
		nb := 6
		perBody := 40
		if o.Tier == "thorough" {
			nb, perBody = 30, 1<<30 // every position
		}
		for i := 0; i < nb; i++ {
			body := genBody(r, maxBody)
			if len(body) < 2 {
				body = []byte("abcabcabcabcabcabcabcabcabcabcabc")
			}
			enc, _ := glz4.LZ4Compressor{}.Encode(body)
			step := 1
			if len(enc) > perBody {
				step = len(enc)/perBody + 1
			}
			for pos := i % step; pos < len(enc); pos += step {
				for _, val := range []byte{enc[pos] ^ 0x01, enc[pos] ^ 0x80, enc[pos] + 1, 0x00, 0xff, enc[pos] ^ 0x10} {
					if val == enc[pos] {
						continue
					}
					if !(o.Tier == "thorough") && r.Chance(50) {
						continue
					}
					data := append([]byte{}, enc...)
					data[pos] = val
					if !declaredOK(kLz4, data) {
						continue
					}
					out, derr, pan := safeDecode(glz4.LZ4Compressor{}, data)
					if derr == nil && pan == nil && len(data) > 4 && binary.BigEndian.Uint32(data) != 0 {
						if _, reason := specLz4(data[4:]); reason == "offset-zero" {
							// known finding lz4-offset-zero-accepted: the library accepts a match offset of 0, which the
							// format declares invalid; the model side checks that the format decoder does reject the bytes
							idx := o.Case("lz4-corrupt-offset-zero", true, fmt.Sprintf("CLz4Invalid %s", hlib.ZList(data)))
							violate(idx, "lz4-invalid-block-accepted", "lz4-offset-zero-accepted", fmt.Sprintf("lz4 body % x has a match with offset 0 and is accepted as % x", data[:min(len(data), 40)], out[:min(len(out), 40)]))
							continue
						}
					}
					idx := o.Case("lz4-corrupt", true, fmt.Sprintf("CLz4Corrupt %s %s", hlib.ZList(data), optB(out, derr == nil && pan == nil)))
					if pan != nil {
						violate(idx, "decode-panics", "", fmt.Sprintf("lz4 Decode(% x) panicked: %v", data, pan))
					}
					if derr == nil && pan == nil {
						declaredLengthMonitor(o, idx, kLz4, data, out)
					}
				}
			}
		}
		// snappy: an accepted corrupted body has the declared length, nothing panics (the algorithm itself is the library's)
		for i := 0; i < nb; i++ {
			body := genBody(r, maxBody)
			enc, _ := gocql.SnappyCompressor{}.Encode(body)
			for pos := 0; pos < len(enc); pos++ {
				if !(o.Tier == "thorough") && !r.Chance(60) {
					continue
				}
				data := append([]byte{}, enc...)
				data[pos] ^= byte(1 << uint(r.Intn(8)))
				if !declaredOK(kSnappy, data) {
					continue
				}
				out, derr, pan := safeDecode(gocql.SnappyCompressor{}, data)
				l, e := snappy.Decode(nil, data)
				lib, libok := l, e == nil
				idx := o.Case("snappy-corrupt", true, fmt.Sprintf("CSnappyDec %s %s %s", hlib.ZList(data), optB(lib, libok), optB(out, derr == nil && pan == nil)))
				if pan != nil {
					violate(idx, "decode-panics", "", fmt.Sprintf("snappy Decode(% x) panicked: %v", data, pan))
				}
				if derr == nil && pan == nil {
					declaredLengthMonitor(o, idx, kSnappy, data, out)
				}
			}
		}
	}

	// -- snappy's length header and the allocation guards ---------------------------------------------------------------------------------
	{
		maxAlloc := map[int]uint64{}
		var heads [][]byte
		for _, v := range []uint64{0, 1, 127, 128, 300, 16383, 16384, 1 << 21, 1<<28 - 1, 1 << 28, 1<<32 - 1, 1 << 32, 1<<35 + 5, 1<<63 - 1, 1 << 63, 1<<64 - 1} {
			var b [binary.MaxVarintLen64]byte
			heads = append(heads, append([]byte{}, b[:binary.PutUvarint(b[:], v)]...))
		}
		heads = append(heads, []byte{}, []byte{0x80}, []byte{0xff, 0xff}, bytes.Repeat([]byte{0x80}, 9), bytes.Repeat([]byte{0x80}, 10), bytes.Repeat([]byte{0xff}, 11),
			append(bytes.Repeat([]byte{0xff}, 9), 0x01), append(bytes.Repeat([]byte{0xff}, 9), 0x02), append(bytes.Repeat([]byte{0x80}, 10), 0x01), []byte{0x80, 0x00}, []byte{0xff, 0x00, 0x00})
		for i := 0; i < n/2; i++ {
			heads = append(heads, r.Bytes(1+r.Intn(11)))
		}
		for _, h := range heads {
			for _, tail := range [][]byte{nil, {0x00, 'a'}, r.Bytes(r.Intn(6))} {
				src := append(append([]byte{}, h...), tail...)
				dl, err := snappy.DecodedLen(src)
				term := "None"
				if err == nil {
					term = hlib.Some(hlib.Z(int64(dl)))
				}
				o.Case("snappy-decoded-len", len(src) > 0, fmt.Sprintf("CSnappyLen %s %s", hlib.ZList(src), term))
				// bodies that declare far more than they can hold: an error; the allocation they cause is measured
				// (an observation, reported in the evidence: both Decodes allocate the declared length first)
				for _, kk := range []int{kSnappy, kLz4} {
					data := src
					if kk == kLz4 {
						data = append([]byte{byte(r.Pick(0, 1, 3)), byte(r.U64()), byte(r.U64()), byte(r.U64())}, tail...)
					}
					if !declaredOK(kk, data) {
						continue
					}
					var lib []byte
					libok := false
					if kk == kSnappy {
						l, e := snappy.Decode(nil, data)
						lib, libok = l, e == nil
					}
					if kk == kLz4 && len(data) >= 4 && binary.BigEndian.Uint32(data) != 0 {
						lib, libok = rawLz4Dec(data[4:], int(binary.BigEndian.Uint32(data)))
					}
					var m0, m1 runtime.MemStats
					runtime.ReadMemStats(&m0)
					out, derr, pan := safeDecode(compressorOf(kk), data)
					runtime.ReadMemStats(&m1)
					okk := derr == nil && pan == nil
					var idx int
					if kk == kSnappy {
						idx = o.Case("snappy-declared", true, fmt.Sprintf("CSnappyDec %s %s %s", hlib.ZList(data), optB(lib, libok), optB(out, okk)))
					} else {
						idx = o.Case("lz4-declared", true, fmt.Sprintf("CLz4Dec %s %s %s", hlib.ZList(data), optB(lib, libok), optB(out, okk)))
					}
					if pan != nil {
						violate(idx, "decode-panics", "", fmt.Sprintf("%s Decode(% x) panicked: %v", kindName[kk], data, pan))
					}
					if okk {
						declaredLengthMonitor(o, idx, kk, data, out)
					}
					if alloc := m1.TotalAlloc - m0.TotalAlloc; alloc > maxAlloc[kk] {
						maxAlloc[kk] = alloc
						o.Extra["decode_allocation_observed_"+kindName[kk]] = fmt.Sprintf("Decode of a %d-byte body allocated %d bytes (declared lengths fed to Decode are capped at %d by the harness)", len(data), alloc, maxDeclared)
					}
				}
			}
		}
	}

	// -- retained outputs of the real compressors ------------------------------------------------------------------------------------------
	if o.Only < 0 {
		retainedCodecCheck(o, hlib.NewRng(o.Seed+4242))
		retainedFrameCheck(o, hlib.NewRng(o.Seed+4243))
		boundaryCheck(o, hlib.NewRng(o.Seed+4244))
	}

	// -- live traffic: real Sessions against the scripted node -----------------------------------------------------------------------------
	if o.Only < 0 {
		protos := []int{4, 3}
		if o.Tier == "thorough" || o.Search {
			protos = []int{1, 2, 3, 4, 5}
		}
		advs := []struct {
			key bool
			l   []string
		}{{false, nil}, {true, []string{"snappy"}}, {true, []string{"lz4"}}, {true, []string{"snappy", "lz4"}}}
		ci := 0
		for _, proto := range protos {
			for _, k := range []int{kNone, kSnappy, kLz4} {
				for _, a := range advs {
					ci++
					auth := ci%5 == 0
					if proto == 1 && auth {
						auth = false // v1 authenticates with CREDENTIALS
					}
					if o.Tier != "thorough" && !o.Search && proto == 3 && ci%2 == 0 {
						continue
					}
					runLive(o, k, a.l, a.key, proto, auth)
				}
			}
		}
	}

	// -- real connections: negotiation -------------------------------------------------------------------------------------------------------
	// (a panic on one of the driver's own goroutines cannot be recovered here: when the framer-level cases
	// above already saw readFrame / buildFrame panic, the failing input is known and the connection
	// scenarios, which would take the process down, are skipped)
	panicSeen := false
	for _, v := range o.Violations {
		if v.Kind == "read-panics" || v.Kind == "build-panics" {
			panicSeen = true
		}
	}
	nconn := 3 * n
	for i := 0; i < nconn && !panicSeen && connTrouble < 2; i++ {
		runConn(o, r, i, maxBody)
	}
	o.Extra["connections_abandoned_after_timeouts"] = connTrouble >= 2
	o.Extra["connections_skipped_after_panic"] = panicSeen

	// -- the codec law on larger bodies (monitor only) ---------------------------------------------------------------------------------------------
	if o.Only < 0 {
		sizes := []int{0, 1, 2, 1000, 65535, 65536, 65537, 1 << 20}
		if o.Tier == "thorough" || o.Search {
			sizes = append(sizes, 1<<24, 1<<26+3)
		}
		nl := 0
		for _, sz := range sizes {
			for variant := 0; variant < 4; variant++ {
				var body []byte
				switch variant {
				case 0:
					body = r.Bytes(sz)
				case 1:
					body = bytes.Repeat([]byte{byte(r.U64())}, sz)
				case 2:
					p := r.Bytes(1 + r.Intn(40))
					body = bytes.Repeat(p, sz/len(p)+1)[:sz]
				case 3:
					body = r.Bytes(sz)
					for j := range body {
						body[j] = 'a' + body[j]%3
					}
				}
				for _, k := range []int{kSnappy, kLz4} {
					lawCheck(o, k, body)
					nl++
				}
				// the same body through finish and back through readFrame (length field of large frames)
				if variant < 2 && sz >= 1000 {
					for _, k := range []int{kSnappy, kLz4, kNone} {
						hf := byte(flagCompress)
						if k == kNone {
							hf = 0
						}
						f := gocql.VerifC18NewFramer(compressorOf(k), 4)
						out, _, err, pan := f.FinishRaw(hf, 0x07, 1, body, true)
						if err != nil || pan != nil {
							violate(-1, "large-body", "", fmt.Sprintf("%s: finish on %d bytes: %v %v", kindName[k], sz, err, pan))
							continue
						}
						checkWritten(o, -1, "large-body", k, hf, body, out, err, pan)
						out[0] |= 0x80
						rd := bytes.NewReader(out)
						h, herr := gocql.VerifC18ReadHeader(rd)
						if herr != nil {
							violate(-1, "large-body", "", fmt.Sprintf("readHeader: %v", herr))
							continue
						}
						got, rerr, rpan := gocql.VerifC18NewFramer(compressorOf(k), 4).ReadFrame(rd, h)
						if rerr != nil || rpan != nil || !bytes.Equal(got, body) {
							violate(-1, "read-transparency", "", fmt.Sprintf("%s: %d-byte body written by finish is read back as %d bytes (%v %v)", kindName[k], sz, len(got), rerr, rpan))
						}
						o.Count("large-body/" + kindName[k])
					}
				}
			}
		}
		if o.Tier == "thorough" { // one body at the frame size limit through finish with the real compressors
			limit := gocql.VerifC18MaxFrameSize
			body := bytes.Repeat([]byte("0123456789abcdef"), limit/16)[:limit-9]
			for _, k := range []int{kSnappy, kLz4} {
				f := gocql.VerifC18NewFramer(compressorOf(k), 4)
				out, _, err, pan := f.FinishRaw(flagCompress, 0x07, 1, body, true)
				if err != nil || pan != nil {
					violate(-1, "limit-body", "", fmt.Sprintf("%s: finish on a body at the frame limit: %v %v", kindName[k], err, pan))
					continue
				}
				checkWritten(o, -1, "limit-body", k, flagCompress, body, out, err, pan)
				nl++
			}
		}
		o.Extra["codec_law_checks"] = nl
	}

	liveRecheck(o)
	o.Finish("From GocqlV Require Import Lib.Base C18.Model C18.Corr.", "C18.Corr.case", "C18.Corr.run")
}

// connTrouble counts connection scenarios in which the driver ran into its own timeout (a response it
// did not match, a frame it never sent): each costs seconds, so after two the remaining scenarios are
// skipped (the violations recorded for the first two name the input).
var connTrouble int

// specLz4: Go mirror of Spec.lz4_block_decode that also says why a block is rejected; used only to recognise
// the trigger region of the known finding lz4-offset-zero-accepted (the comparison itself is made by Coq).
func specLz4(src []byte) ([]byte, string) {
	var out []byte
	for {
		if len(src) == 0 {
			return nil, "no-token"
		}
		tok := src[0]
		src = src[1:]
		ll := int(tok >> 4)
		if ll == 15 {
			for {
				if len(src) == 0 {
					return nil, "literal-length"
				}
				b := src[0]
				src = src[1:]
				ll += int(b)
				if b != 255 {
					break
				}
			}
		}
		if len(src) < ll {
			return nil, "literals"
		}
		out = append(out, src[:ll]...)
		src = src[ll:]
		if len(src) == 0 {
			return out, ""
		}
		if len(src) == 1 {
			return nil, "offset"
		}
		off := int(src[0]) | int(src[1])<<8
		src = src[2:]
		if off == 0 {
			return nil, "offset-zero"
		}
		if off > len(out) {
			return nil, "offset-far"
		}
		ml := int(tok & 15)
		if ml == 15 {
			for {
				if len(src) == 0 {
					return nil, "match-length"
				}
				b := src[0]
				src = src[1:]
				ml += int(b)
				if b != 255 {
					break
				}
			}
		}
		for i := 0; i < ml+4; i++ {
			out = append(out, out[len(out)-off])
		}
	}
}

// safeDecode calls Decode and recovers a panic.
func safeDecode(c gocql.Compressor, data []byte) (out []byte, err error, panicked interface{}) {
	defer func() {
		if r := recover(); r != nil {
			panicked = r
		}
	}()
	out, err = c.Decode(data)
	return
}

type zeroReader struct{}

func (zeroReader) Read(p []byte) (int, error) {
	for i := range p {
		p[i] = 0
	}
	return len(p), nil
}

// checkWritten: monitors on a frame produced by finish (spec-side reading of the wire bytes).
func checkWritten(o *hlib.Out, idx int, what string, k int, hflags byte, body, out []byte, err error, pan interface{}) {
	if pan != nil || err != nil {
		return
	}
	v, ok := specParse(out)
	if !ok {
		o.Violate(idx, "frame-shape", "", what+": frame shorter than its header", nil)
		return
	}
	if v.flags != hflags {
		o.Violate(idx, "header-flags", "", fmt.Sprintf("%s: header flags %#x, writeHeader was given %#x", what, v.flags, hflags), nil)
	}
	if v.length != len(v.body) {
		o.Violate(idx, "length-field", "", fmt.Sprintf("%s: length field %d, body has %d bytes", what, v.length, len(v.body)), nil)
	}
	if v.flags&flagCompress != 0 {
		dec, derr := peerDecode(k, v.body)
		if k == kFailDec {
			dec, derr = v.body, nil
		}
		if derr != nil || !bytes.Equal(dec, body) {
			o.Violate(idx, "write-transparency", "", fmt.Sprintf("%s with %s: compress flag set, peer decodes %d wire bytes to %d bytes (%v), body had %d",
				what, kindName[k], len(v.body), len(dec), derr, len(body)), nil)
		}
		if k == kSnappy || k == kLz4 {
			// compressed exactly when flagged: the wire body is the algorithm's encoding, not the plain body
			if bytes.Equal(v.body, body) {
				o.Violate(idx, "flag-without-compression", "", what+": compress flag set but the body is plain", nil)
			}
		}
	} else if !bytes.Equal(v.body, body) {
		o.Violate(idx, "plain-body-changed", "", fmt.Sprintf("%s with %s: compress flag clear but wire body differs from the body written", what, kindName[k]), nil)
	}
}

// declaredLengthMonitor: both formats carry the uncompressed length; an accepted body must have it.
func declaredLengthMonitor(o *hlib.Out, idx int, k int, wire, got []byte) {
	switch k {
	case kLz4:
		if len(wire) < 4 {
			return
		}
		nn := int(binary.BigEndian.Uint32(wire))
		if nn != len(got) {
			o.Violate(idx, "lz4-declared-length", "", fmt.Sprintf("lz4 body % x declares %d bytes, Decode returned %d bytes without error", wire[:min(len(wire), 24)], nn, len(got)), nil)
		}
	case kSnappy:
		if dl, err := snappy.DecodedLen(wire); err == nil && dl != len(got) {
			o.Violate(idx, "snappy-declared-length", "", fmt.Sprintf("snappy body declares %d bytes, Decode returned %d", dl, len(got)), nil)
		}
	}
}

// lawCheck: Decode(Encode b) = b through gocql's wrappers, and the peer's independent decoder agrees.
func lawCheck(o *hlib.Out, k int, body []byte) {
	c := compressorOf(k)
	o.Count("law/" + kindName[k])
	enc, err := c.Encode(body)
	if err != nil {
		o.Violate(-1, "codec-law", "", fmt.Sprintf("%s.Encode(%d bytes): %v", kindName[k], len(body), err), nil)
		return
	}
	dec, err := c.Decode(enc)
	if err != nil || !bytes.Equal(dec, body) {
		o.Violate(-1, "codec-law", "", fmt.Sprintf("%s: Decode(Encode(b)) != b for %d bytes (%v)", kindName[k], len(body), err), nil)
	}
	pd, err := peerDecode(k, enc)
	if err != nil || !bytes.Equal(pd, body) {
		o.Violate(-1, "codec-law-peer", "", fmt.Sprintf("%s: peer decoding of Encode(b) differs for %d bytes (%v)", kindName[k], len(body), err), nil)
	}
	pe := peerEncode(k, body)
	dec, err = c.Decode(pe)
	if err != nil || !bytes.Equal(dec, body) {
		o.Violate(-1, "codec-law-peer", "", fmt.Sprintf("%s: Decode(peer encoding of b) differs for %d bytes (%v)", kindName[k], len(body), err), nil)
	}
	bound := snappy.MaxEncodedLen(len(body))
	if k == kLz4 {
		bound = 4 + plz4.CompressBlockBound(len(body))
	}
	if len(enc) > bound || len(enc) >= 1<<31 {
		o.Violate(-1, "codec-expansion", "", fmt.Sprintf("%s: %d bytes encode to %d > bound %d", kindName[k], len(body), len(enc), bound), nil)
	}
}

// runConn: one real connection against a scripted peer.
func runConn(o *hlib.Out, r *hlib.Rng, ordinal int, maxBody int) {
	k := []int{kNone, kSnappy, kLz4, kSnappy, kLz4, kIdent, kPrefix, kRev}[r.Intn(8)]
	comp := compressorOf(k)
	name := ""
	if comp != nil {
		name = comp.Name()
	}
	version := versionsValid[r.Intn(5)]
	// SUPPORTED sets: compressor absent, present, several, near misses, COMPRESSION key absent
	sup := map[string][]string{"CQL_VERSION": {"3.4.4"}}
	others := []string{"snappy", "lz4", "SNAPPY", "snappy ", " lz4", "lz4hc", "", "deflate", "lz", "Lz4", "id", "pfx", "rev", "snapp", "snappyy"}
	switch r.Intn(8) {
	case 0: // no COMPRESSION key
	case 1:
		sup["COMPRESSION"] = []string{}
	case 2:
		if name != "" {
			sup["COMPRESSION"] = []string{name}
		} else {
			sup["COMPRESSION"] = []string{"snappy", "lz4"}
		}
	case 3:
		sup["COMPRESSION"] = []string{"snappy", "lz4"}
	case 4: // near misses only
		var l []string
		for j := 1 + r.Intn(4); j > 0; j-- {
			s := others[r.Intn(len(others))]
			if s != name {
				l = append(l, s)
			}
		}
		sup["COMPRESSION"] = l
	default:
		var l []string
		for j := r.Intn(5); j > 0; j-- {
			l = append(l, others[r.Intn(len(others))])
		}
		if name != "" && r.Bool() {
			pos := r.Intn(len(l) + 1)
			l = append(l[:pos], append([]string{name}, l[pos:]...)...)
			if r.Chance(20) {
				l = append(l, name)
			}
		}
		sup["COMPRESSION"] = l
	}
	if r.Chance(20) { // a key that only looks like COMPRESSION
		sup["compression"] = []string{"snappy", "lz4", "id", "pfx", "rev"}
	}
	sc := script{version: version, supported: sup, auth: r.Chance(35), peerKind: k}
	if sc.auth {
		sc.challenges = r.Intn(3)
	}
	sc.failStartup = r.Chance(6)
	nreq := 1 + r.Intn(4)
	type plannedReq struct {
		kind  int
		trace bool
		req   *gocql.VerifC18Req
		pl    bool
	}
	var plan []plannedReq
	for j := 0; j < nreq; j++ {
		kind := []int{gocql.VerifC18Query, gocql.VerifC18Prepare, gocql.VerifC18Execute, gocql.VerifC18Batch, gocql.VerifC18Register, gocql.VerifC18Options, gocql.VerifC18Query}[r.Intn(7)]
		req, pl := genReq(r, kind, version, maxBody/2)
		plan = append(plan, plannedReq{kind, r.Chance(25), req, pl})
		mode := 0
		if r.Chance(30) {
			mode = 1 + r.Intn(3)
		}
		if kind == gocql.VerifC18Options {
			mode = 0
		}
		sc.respMode = append(sc.respMode, mode)
	}

	cli, srv := net.Pipe()
	p := &peer{sc: sc, done: make(chan struct{})}
	go p.serve(srv)
	var auth gocql.Authenticator
	if sc.auth {
		auth = challengeAuth{}
	}
	conn, derr := gocql.VerifC18Dial(cli, comp, int(version), auth, 5*time.Second)
	finalName := ""
	type execRes struct {
		op   int
		body []byte
		err  error
	}
	var results []execRes
	if derr == nil {
		finalName = conn.CompressorName()
		for _, pr := range plan {
			op, body, err := conn.Exec(pr.kind, pr.req, pr.trace)
			results = append(results, execRes{op, body, err})
			if err == gocql.ErrTimeoutNoResponse {
				for len(results) < len(plan) {
					results = append(results, execRes{-1, nil, err})
				}
				break
			}
		}
		finalName = conn.CompressorName()
		conn.Close()
	}
	cli.Close()
	<-p.done
	// the scripted peer answers every frame at once: a timeout means the driver lost a response
	timedOut := derr != nil && strings.Contains(derr.Error(), "no response to connection startup within timeout")
	for _, res := range results {
		if res.err == gocql.ErrTimeoutNoResponse {
			timedOut = true
		}
	}
	if timedOut {
		connTrouble++
		o.Violate(-1, "conn-timeout", "", fmt.Sprintf("conn %d (%s v%d): the driver ran into its timeout although the peer answered every frame (dial error %v)", ordinal, kindName[k], version, derr), nil)
	}

	// ---- labels and observations for the model ----
	advertised := name != "" && contains(sup["COMPRESSION"], name)
	var labels, obs []string
	var encIn [][]byte
	ok := true
	fi := 0
	frames := p.frames
	next := func(op byte) *gotFrame {
		if fi < len(frames) && frames[fi].view.op == op {
			fi++
			return &frames[fi-1]
		}
		ok = false
		return nil
	}
	obsTerm := func(g *gotFrame) string {
		scomp := "None"
		if g.view.op == 0x01 && g.hasComp {
			scomp = hlib.Some(hlib.ZList([]byte(g.startupComp)))
		}
		return fmt.Sprintf("(%s, %s, %s)", reqNames[kindOfOp(g.view.op)], hlib.ZList(g.raw), scomp)
	}
	var startup *gotFrame
	if g := next(0x05); g != nil {
		labels = append(labels, fmt.Sprintf("LSendOptions %d", g.view.stream))
		obs = append(obs, obsTerm(g))
	}
	if g := next(0x01); ok && g != nil {
		startup = g
		labels = append(labels, fmt.Sprintf("LSupported %s %d %s", smapTerm(sup), g.view.stream, hlib.ZList(g.view.body)))
		obs = append(obs, obsTerm(g))
	}
	if ok {
		switch {
		case sc.failStartup:
			labels = append(labels, "LFail")
		case sc.auth:
			g := next(0x0F)
			if g != nil {
				plain := authPlain(g, k)
				encIn = append(encIn, plain)
				labels = append(labels, fmt.Sprintf("LAuthenticate %d %s", g.view.stream, hlib.ZList(plain)))
				obs = append(obs, obsTerm(g))
				for c := 0; c < sc.challenges && ok; c++ {
					g = next(0x0F)
					if g != nil {
						plain := authPlain(g, k)
						encIn = append(encIn, plain)
						labels = append(labels, fmt.Sprintf("LAuthChallenge %d %s", g.view.stream, hlib.ZList(plain)))
						obs = append(obs, obsTerm(g))
					}
				}
				labels = append(labels, "LAuthSuccess")
			}
		default:
			labels = append(labels, "LReady")
		}
	}
	// the driver's own keep-alive (Conn.heartBeat sends OPTIONS through Conn.exec after one second; only on a
	// very slow run does one fall into a scenario): an exec like any other for the model
	heartbeats := func() {
		for fi < len(frames) && frames[fi].view.op == 0x05 {
			g := &frames[fi]
			fi++
			labels = append(labels, fmt.Sprintf("LExec ROptions false false %d []", g.view.stream))
			obs = append(obs, obsTerm(g))
			o.Count("conn-heartbeat")
		}
	}
	if ok && derr == nil {
		for j, pr := range plan {
			if results[j].err != nil && fi >= len(frames) {
				break
			}
			if pr.kind != gocql.VerifC18Options {
				heartbeats()
			}
			g := next(reqOps[pr.kind])
			if g == nil {
				break
			}
			pf := gocql.VerifC18NewFramer(nil, version)
			if pr.trace {
				pf.Trace()
			}
			pout, perr, ppan := pf.Build(pr.kind, g.view.stream, pr.req)
			if perr != nil || ppan != nil || len(pout) < specHeadSize(version) {
				o.Violate(-1, "build-panics", "", fmt.Sprintf("conn %d: %s v%d without compressor: error %v panic %v", ordinal, reqNames[pr.kind], version, perr, ppan), nil)
				ok = false
				break
			}
			plain := pout[specHeadSize(version):]
			encIn = append(encIn, plain)
			labels = append(labels, fmt.Sprintf("LExec %s %s %s %d %s", reqNames[pr.kind], hlib.Bool(pr.trace), hlib.Bool(pr.pl), g.view.stream, hlib.ZList(plain)))
			obs = append(obs, obsTerm(g))
			// monitors on the request as the peer saw it
			wantFlag := advertised && pr.kind != gocql.VerifC18Options
			if (g.view.flags&flagCompress != 0) != wantFlag {
				o.Violate(o.NCases(), "conn-flag-rule", "", fmt.Sprintf("conn %d: %s sent with flags %#x; compressor %q advertised=%v", ordinal, reqNames[pr.kind], g.view.flags, name, advertised), nil)
			}
			body := g.view.body
			if g.view.flags&flagCompress != 0 {
				var e error
				body, e = peerDecode(k, g.view.body)
				if e != nil {
					o.Violate(o.NCases(), "conn-write-transparency", "", fmt.Sprintf("conn %d: peer cannot decode %s body: %v", ordinal, reqNames[pr.kind], e), nil)
				}
			}
			if !bytes.Equal(body, plain) {
				o.Violate(o.NCases(), "conn-write-transparency", "", fmt.Sprintf("conn %d: peer decodes %s body to %x, request body is %x", ordinal, reqNames[pr.kind], body, plain), nil)
			}
		}
	}
	if ok && derr == nil {
		heartbeats()
	}
	if fi != len(frames) {
		ok = false
	}
	final := "None" // not observed (dial failed)
	if derr == nil {
		final = "(Some None)"
		if finalName != "" {
			final = hlib.Some(hlib.Some(hlib.ZList([]byte(finalName))))
		}
	}
	idx := -1
	if ok {
		idx = o.Case("conn/"+kindName[k], k != kNone, fmt.Sprintf("CConn %s %d %s %s %s", ckTerm(k, encIn, nil), version, hlib.List(labels), hlib.List(obs), final))
	} else {
		o.Count("conn-unmodelled")
		o.Violate(-1, "conn-scenario", "", fmt.Sprintf("conn %d: unexpected frame sequence from the driver (%d frames, dial error %v)", ordinal, len(frames), derr), nil)
	}

	// ---- monitors on what the peer saw and what the driver returned ----
	for _, g := range frames {
		if (g.view.op == 0x05 || g.view.op == 0x01) && g.view.flags&flagCompress != 0 {
			o.Violate(idx, "options-startup-compressed", "", fmt.Sprintf("conn %d: opcode %#x sent with the compress flag", ordinal, g.view.op), nil)
		}
		if g.view.length != len(g.view.body) {
			o.Violate(idx, "length-field", "", fmt.Sprintf("conn %d: opcode %#x length field %d body %d", ordinal, g.view.op, g.view.length, len(g.view.body)), nil)
		}
	}
	if startup != nil {
		if startup.startupKeys == nil {
			o.Violate(idx, "startup-not-plain", "", fmt.Sprintf("conn %d: STARTUP body is not a plain string map: %x", ordinal, startup.view.body), nil)
		}
		if startup.hasComp != advertised || (startup.hasComp && startup.startupComp != name) {
			o.Violate(idx, "negotiation", "", fmt.Sprintf("conn %d: compressor %q, SUPPORTED COMPRESSION %q, STARTUP COMPRESSION %q (present=%v)", ordinal, name, sup["COMPRESSION"], startup.startupComp, startup.hasComp), nil)
		}
		if derr == nil {
			if (finalName != "") != advertised || (finalName != "" && finalName != name) {
				o.Violate(idx, "compressor-only-if-advertised", "", fmt.Sprintf("conn %d: compressor after startup %q, configured %q, advertised %v", ordinal, finalName, name, sup["COMPRESSION"]), nil)
			}
		}
	}
	for _, g := range frames {
		if g.view.flags&flagCompress != 0 && !advertised {
			o.Violate(idx, "compressed-but-not-advertised", "", fmt.Sprintf("conn %d: opcode %#x compressed, server advertised %q", ordinal, g.view.op, sup["COMPRESSION"]), nil)
		}
	}
	if derr != nil && !sc.failStartup {
		o.Violate(idx, "conn-dial", "", fmt.Sprintf("conn %d (%s v%d auth=%v): dial failed: %v", ordinal, kindName[k], version, sc.auth, derr), nil)
	}
	if derr == nil {
		ri := 0
		for j, pr := range plan {
			if pr.kind == gocql.VerifC18Options {
				if results[j].err != nil {
					o.Violate(idx, "conn-response", "", fmt.Sprintf("conn %d: OPTIONS failed: %v", ordinal, results[j].err), nil)
				}
				continue
			}
			if ri >= len(p.sentBodies) {
				break
			}
			mode, sent, sentWire := p.sentModes[ri], p.sentBodies[ri], p.sentWire[ri]
			ri++
			res := results[j]
			peerCompressed := (advertised && mode != 1) || mode == 2
			switch {
			case mode == 3 && advertised: // truncated compressed body: an error, not a crash, not data
				if res.err == nil && k != kIdent {
					o.Violate(idx, "corrupt-body-accepted", "", fmt.Sprintf("conn %d: truncated %s body % x accepted as %x", ordinal, kindName[k], sentWire, res.body), nil)
				}
			case peerCompressed && !advertised: // compressed response on a connection without a compressor
				if res.err == nil {
					o.Violate(idx, "compressed-without-compressor", "", fmt.Sprintf("conn %d: compressed response accepted although nothing was negotiated", ordinal), nil)
				}
			default:
				if res.err != nil || !bytes.Equal(res.body, sent) {
					o.Violate(idx, "conn-read-transparency", "", fmt.Sprintf("conn %d (%s, mode %d): peer sent body %x, driver has %x, %v", ordinal, kindName[k], mode, sent, res.body, res.err), nil)
				}
			}
		}
	}
}

// the plain AUTH_RESPONSE body: the peer's own decoding when the frame was compressed
func authPlain(g *gotFrame, k int) []byte {
	if g.view.flags&flagCompress != 0 {
		if b, err := peerDecode(k, g.view.body); err == nil {
			return b
		}
	}
	return g.view.body
}
