// Retained-output recheck for the real compressors: whatever Encode / Decode handed to a caller must not
// change afterwards.  Every result is kept (the very slice that was returned) together with a private copy
// and the input it came from; further Encode / Decode calls follow - bodies of smaller and equal sizes, so
// that a compressor reusing a scratch buffer would fit them into it - on the same goroutine and
// concurrently; then everything is compared again.  A one-body-at-a-time Decode(Encode(x)) check cannot see
// an Encode result that a later Encode overwrites; the framer depends on it not happening, because the one
// stateless compressor value is shared by every framer of every connection.
package main

import (
	"bytes"
	"fmt"
	"sync"

	"github.com/gocql/gocql"
	"gocqlverif/hlib"
)

type keptOutput struct {
	what  string
	k     int
	live  []byte // the slice the compressor returned
	copy  []byte // its content at the time
	input []byte // Encode: the body; Decode: the compressed bytes
	enc   bool
}

type keeper struct {
	mu   sync.Mutex
	kept []keptOutput
}

func (kp *keeper) keep(what string, k int, enc bool, live, input []byte) {
	kp.mu.Lock()
	kp.kept = append(kp.kept, keptOutput{what, k, live, append([]byte{}, live...), append([]byte{}, input...), enc})
	kp.mu.Unlock()
}

// keepAs keeps an output whose content at the time it was returned is given separately.
func (kp *keeper) keepAs(what string, k int, enc bool, live, was, input []byte) {
	kp.mu.Lock()
	kp.kept = append(kp.kept, keptOutput{what, k, live, was, append([]byte{}, input...), enc})
	kp.mu.Unlock()
}

// recheck compares every kept output with its copy and, for Encode results, decodes it with the
// independent peer-side reader.  Returns the number of outputs that changed.
func (kp *keeper) recheck(o *hlib.Out, when string) int {
	kp.mu.Lock()
	defer kp.mu.Unlock()
	bad := 0
	for i := range kp.kept {
		e := &kp.kept[i]
		if !bytes.Equal(e.live, e.copy) {
			bad++
			if bad <= 3 {
				kind := "decode-output-changed"
				detail := fmt.Sprintf("%s (%s): the %d bytes Decode returned changed %s", e.what, kindName[e.k], len(e.copy), when)
				if e.enc {
					kind = "encode-output-changed"
					dec, derr := peerDecode(e.k, e.live)
					detail = fmt.Sprintf("%s (%s): the %d bytes Encode returned for a %d-byte body changed %s; the peer now decodes %d bytes (%v)",
						e.what, kindName[e.k], len(e.copy), len(e.input), when, len(dec), derr)
				}
				o.Violate(-1, kind, "", detail, map[string]interface{}{"body": fmt.Sprintf("%x", e.input[:min(len(e.input), 64)])})
			}
			e.copy = append([]byte{}, e.live...) // report each change once
			continue
		}
		if e.enc {
			if dec, derr := peerDecode(e.k, e.live); derr != nil || !bytes.Equal(dec, e.input) {
				bad++
				o.Violate(-1, "encode-output-changed", "", fmt.Sprintf("%s (%s): retained Encode result no longer decodes to its body %s (%v)", e.what, kindName[e.k], when, derr), nil)
			}
		}
	}
	return bad
}

// retainedCodecCheck: the API-level part.
func retainedCodecCheck(o *hlib.Out, r *hlib.Rng) {
	total := 0
	for _, k := range []int{kSnappy, kLz4} {
		c := compressorOf(k)
		kp := &keeper{}
		// sizes: a large body first, then equal and smaller ones (a reused scratch buffer fits them), then growing again
		sizes := []int{3000, 3000, 2999, 1500, 64, 17, 1, 0, 64, 64, 700, 3000, 5000, 100, 100, 4999, 12}
		for i := 0; i < 6*o.Scale && i < 40; i++ {
			sizes = append(sizes, r.Intn(1+r.Intn(4000)))
		}
		bad := 0
		for i, sz := range sizes {
			var body []byte
			switch i % 3 {
			case 0:
				body = []byte(fmt.Sprintf("SELECT a, b, c FROM ks.tbl WHERE id = %06d /* %d */ ", i, sz))
				body = bytes.Repeat(body, sz/len(body)+1)[:sz]
			case 1:
				body = r.Bytes(sz)
			default:
				body = bytes.Repeat([]byte{byte(i), 0xff ^ byte(i), 'x'}, sz/3+1)[:sz]
			}
			enc, err := c.Encode(body)
			if err != nil {
				o.Violate(-1, "codec-law", "", fmt.Sprintf("%s.Encode(%d bytes): %v", kindName[k], sz, err), nil)
				continue
			}
			kp.keep(fmt.Sprintf("Encode #%d", i), k, true, enc, body)
			dec, err := c.Decode(enc)
			if err != nil || !bytes.Equal(dec, body) {
				o.Violate(-1, "codec-law", "", fmt.Sprintf("%s: Decode(Encode(b)) != b for %d bytes (%v)", kindName[k], sz, err), nil)
			} else {
				kp.keep(fmt.Sprintf("Decode #%d", i), k, false, dec, enc)
			}
			// every earlier result must have survived this pair of calls
			bad += kp.recheck(o, fmt.Sprintf("after Encode/Decode call #%d on the same goroutine", i))
		}
		// concurrently: several goroutines encode and decode bodies of the sizes already seen while the
		// results above are still held; each goroutine also holds its own results across its next calls
		var wg sync.WaitGroup
		for g := 0; g < 8; g++ {
			wg.Add(1)
			gr := hlib.NewRng(o.Seed*1000 + uint64(g) + uint64(k)*17)
			go func(g int, gr *hlib.Rng) {
				defer wg.Done()
				var prevEnc, prevCopy, prevBody []byte
				for i := 0; i < 60; i++ {
					sz := []int{3000, 64, 1500, 17, 700, 3000, 100}[(i+g)%7]
					body := bytes.Repeat([]byte{byte(g), byte(i), 'q', byte(gr.U64())}, sz/4+1)[:sz]
					enc, err := c.Encode(body)
					if err != nil {
						continue
					}
					if prevEnc != nil && !bytes.Equal(prevEnc, prevCopy) {
						kp.keepAs(fmt.Sprintf("concurrent Encode g%d #%d", g, i-1), k, true, prevEnc, prevCopy, prevBody)
					}
					prevEnc, prevCopy, prevBody = enc, append([]byte{}, enc...), body
					if i%10 == 0 {
						kp.keep(fmt.Sprintf("concurrent Encode g%d #%d", g, i), k, true, enc, body)
					}
					if dec, err := c.Decode(enc); err == nil && i%10 == 5 {
						kp.keep(fmt.Sprintf("concurrent Decode g%d #%d", g, i), k, false, dec, enc)
					}
				}
			}(g, gr)
		}
		wg.Wait()
		bad += kp.recheck(o, "after concurrent Encode/Decode calls of equal and smaller bodies")
		total += len(kp.kept)
		o.Count("retained-codec/" + kindName[k])
		_ = bad
	}
	o.Extra["codec_outputs_retained_and_rechecked"] = total
}

// retainedFrameCheck: framer level - two (and more) compressed frames are built before any of them is read;
// each must still decode to its own body afterwards.
func retainedFrameCheck(o *hlib.Out, r *hlib.Rng) {
	type built struct {
		k     int
		frame []byte
		body  []byte
	}
	n := 0
	for _, k := range []int{kSnappy, kLz4} {
		var frames []built
		for i, sz := range []int{2000, 2000, 900, 40, 1999, 17, 0, 2000} {
			body := bytes.Repeat([]byte(fmt.Sprintf("frame %d of %s;", i, kindName[k])), sz/12+1)[:sz]
			f := gocql.VerifC18NewFramer(compressorOf(k), 4)
			out, _, err, pan := f.FinishRaw(flagCompress, 0x07, i+1, body, true)
			if err != nil || pan != nil {
				o.Violate(-1, "build-error", "", fmt.Sprintf("%s: finish: %v %v", kindName[k], err, pan), nil)
				continue
			}
			frames = append(frames, built{k, out, body})
		}
		for i, b := range frames { // only now are they read
			v, ok := specParse(b.frame)
			dec, derr := []byte(nil), error(nil)
			if ok {
				dec, derr = peerDecode(k, v.body)
			}
			if !ok || derr != nil || !bytes.Equal(dec, b.body) || v.stream != i+1 {
				o.Violate(-1, "write-transparency", "", fmt.Sprintf("%s: frame %d of %d built before any was read decodes to %d bytes (%v), body had %d", kindName[k], i, len(frames), len(dec), derr, len(b.body)), nil)
			}
			n++
		}
	}
	o.Extra["frames_built_before_read"] = n
}
