// Live traffic: real gocql Sessions (public API) against the scripted node of gocqlverif/node, which
// speaks the protocol with its own codec.  For every configured compressor x advertised COMPRESSION set the
// requests the node received and the responses it sent are checked against the specification's rules
// (flag iff negotiated and not OPTIONS/STARTUP, bodies decode to what was meant, both directions), and every
// value handed to the caller is retained and compared again at the end of the run.
package main

import (
	"bytes"
	"fmt"
	"io"
	"log"
	"strings"
	"sync"
	"time"

	"github.com/gocql/gocql"
	glz4 "github.com/gocql/gocql/lz4"
	"gocqlverif/hlib"
	"gocqlverif/node"
)

type retained struct {
	what string
	got  []string
	want []string
}

var liveRetained []retained

func liveTable() *node.Table {
	t := &node.Table{Keyspace: "demo", Name: "kv", PartitionKey: []string{"k"},
		Columns: []node.Column{node.Col("k", node.Varchar), node.Col("v", node.Varchar)}}
	for i := 0; i < 12; i++ {
		v := strings.Repeat(fmt.Sprintf("value-%d/", i), 1+i*7)
		if i%4 == 3 {
			v = "" // empty cells too
		}
		t.Rows = append(t.Rows, [][]byte{node.TextV(fmt.Sprintf("key%02d", i)), node.TextV(v)})
	}
	return t
}

func liveCompressor(k int) gocql.Compressor {
	switch k {
	case kSnappy:
		return gocql.SnappyCompressor{}
	case kLz4:
		return glz4.LZ4Compressor{}
	}
	return nil
}

// runLive: one Session.  adv: the node's COMPRESSION list (nil = key absent).
func runLive(o *hlib.Out, k int, adv []string, advKey bool, proto int, auth bool) {
	name := ""
	if c := liveCompressor(k); c != nil {
		name = c.Name()
	}
	tag := fmt.Sprintf("live %s adv=%v proto=%d auth=%v", kindName[k], adv, proto, auth)
	viol := func(kind, detail string) { o.Violate(-1, kind, "", tag+": "+detail, nil) }
	n := node.NewNet()
	defer n.Close()
	nd := n.AddNode("10.0.0.1:9042")
	nd.Update(func(c *node.Config) {
		sup := map[string][]string{"CQL_VERSION": {"3.4.4"}}
		if advKey {
			sup["COMPRESSION"] = adv
		}
		c.Supported = sup
		if auth {
			c.Auth = &node.Auth{Challenges: [][]byte{[]byte("more")}} // every token accepted
		}
	})
	n.SetKeyspace("demo", node.Keyspace{Replication: node.SimpleStrategy(1), DurableWrites: true})
	tbl := liveTable()
	n.SetTable(tbl)

	cfg := gocql.NewCluster("10.0.0.1")
	cfg.Dialer = n.Dialer()
	cfg.ProtoVersion = proto
	cfg.Timeout = 5 * time.Second
	cfg.ConnectTimeout = 5 * time.Second
	cfg.NumConns = 2
	cfg.Keyspace = "demo"
	cfg.Consistency = gocql.One
	cfg.Compressor = liveCompressor(k)
	cfg.Logger = log.New(io.Discard, "", 0)
	cfg.DisableSkipMetadata = proto == 1 // protocol 1 has no skip-metadata flag (node README)
	if auth {
		cfg.Authenticator = challengeAuth{}
	}
	s, err := gocql.NewSession(*cfg)
	if err != nil {
		viol("live-session", fmt.Sprintf("NewSession: %v", err))
		return
	}
	// reads: every row, paged, through PREPARE + EXECUTE; responses are compressed by the node when negotiated
	var got, want []string
	for _, row := range tbl.Rows {
		want = append(want, string(row[0][:])+"="+string(row[1][:]))
	}
	iter := s.Query(`SELECT k, v FROM kv`).PageSize(5).Iter()
	var kk, vv string
	for iter.Scan(&kk, &vv) {
		got = append(got, kk+"="+vv)
	}
	if err := iter.Close(); err != nil {
		viol("live-read", fmt.Sprintf("SELECT: %v", err))
	}
	liveRetained = append(liveRetained, retained{tag + " SELECT all", got, want})
	for _, i := range []int{0, 5, 11} {
		var v string
		key := fmt.Sprintf("key%02d", i)
		if err := s.Query(`SELECT v FROM kv WHERE k = ?`, key).Scan(&v); err != nil {
			viol("live-read", fmt.Sprintf("SELECT %s: %v", key, err))
		}
		liveRetained = append(liveRetained, retained{tag + " SELECT " + key, []string{v}, []string{string(tbl.Rows[i][1])}})
	}
	// writes: EXECUTE with values (a compressible and an incompressible one), BATCH
	big := strings.Repeat("abcdefgh", 600)
	if err := s.Query(`INSERT INTO kv (k, v) VALUES (?, ?)`, "w1", big).Exec(); err != nil {
		viol("live-write", fmt.Sprintf("INSERT: %v", err))
	}
	rnd := hlib.NewRng(uint64(proto*131 + k)).Bytes(700)
	if err := s.Query(`INSERT INTO kv (k, v) VALUES (?, ?)`, "w2", string(rnd)).Exec(); err != nil {
		viol("live-write", fmt.Sprintf("INSERT: %v", err))
	}
	if proto >= 2 {
		b := s.NewBatch(gocql.LoggedBatch)
		b.Query(`INSERT INTO kv (k, v) VALUES (?, ?)`, "b1", big[:100])
		b.Query(`INSERT INTO kv (k, v) VALUES ('b2', 'x')`)
		if err := s.ExecuteBatch(b); err != nil {
			viol("live-write", fmt.Sprintf("BATCH: %v", err))
		}
	}
	// concurrent requests with compressible bodies of mixed sizes (smaller after larger): what the node decodes
	// for each key must be what that caller sent
	sentByKey := map[string]string{}
	{
		var wg sync.WaitGroup
		var mu sync.Mutex
		for g := 0; g < 8; g++ {
			wg.Add(1)
			go func(g int) {
				defer wg.Done()
				for i := 0; i < 12; i++ {
					sz := []int{2400, 60, 1200, 20, 2400, 300}[(i+g)%6]
					key := fmt.Sprintf("c%d-%d", g, i)
					val := strings.Repeat(fmt.Sprintf("<%s>", key), sz/len(key)+1)[:sz]
					mu.Lock()
					sentByKey[key] = val
					mu.Unlock()
					if err := s.Query(`INSERT INTO kv (k, v) VALUES (?, ?)`, key, val).Exec(); err != nil {
						mu.Lock()
						viol("live-write", fmt.Sprintf("concurrent INSERT %s (%d bytes): %v", key, sz, err))
						mu.Unlock()
					}
				}
			}(g)
		}
		wg.Wait()
	}
	s.Close()

	// ---- what the node saw ----
	negotiated := name != "" && advKey && contains(adv, name)
	seen := map[byte]int{}
	for _, req := range nd.Requests() {
		seen[req.Header.Opcode]++
		v, ok := specParse(req.Raw)
		if !ok || v.length != len(v.body) {
			viol("live-frame", fmt.Sprintf("opcode %#x: malformed frame / length field", req.Header.Opcode))
			continue
		}
		isSO := v.op == 0x01 || v.op == 0x05
		want := negotiated && !isSO
		// before STARTUP has been answered nothing but OPTIONS/STARTUP is sent, so the rule is uniform
		if (v.flags&flagCompress != 0) != want {
			viol("live-flag-rule", fmt.Sprintf("opcode %#x sent with flags %#x, negotiated=%v", v.op, v.flags, negotiated))
		}
		body := v.body
		if v.flags&flagCompress != 0 {
			var e error
			body, e = peerDecode(k, v.body)
			if e != nil {
				viol("live-write-transparency", fmt.Sprintf("opcode %#x: independent decoding fails: %v", v.op, e))
				continue
			}
			if len(v.body) > 0 && bytes.Equal(body, v.body) {
				viol("live-write-transparency", fmt.Sprintf("opcode %#x: flagged body is not compressed", v.op))
			}
		}
		if !bytes.Equal(body, req.Body) {
			viol("live-write-transparency", fmt.Sprintf("opcode %#x: independent decoding and the node's differ", v.op))
		}
		if req.ParseErr != nil {
			viol("live-write-transparency", fmt.Sprintf("opcode %#x: the decoded body is not a valid request: %v", v.op, req.ParseErr))
		}
		if req.Startup != nil {
			c, has := req.Startup.Options["COMPRESSION"]
			if has != negotiated || (has && c != name) {
				viol("live-negotiation", fmt.Sprintf("STARTUP COMPRESSION=%q present=%v, compressor %q, advertised %v", c, has, name, adv))
			}
		}
		if req.Execute != nil && len(req.Execute.Params.Values) == 2 {
			val := string(req.Execute.Params.Values[1].Bytes)
			key := string(req.Execute.Params.Values[0].Bytes)
			if (key == "w1" && val != big) || (key == "w2" && val != string(rnd)) {
				viol("live-write-transparency", "bound value of "+key+" arrived changed")
			}
			if want, ok := sentByKey[key]; ok {
				if val != want {
					viol("live-write-transparency", fmt.Sprintf("concurrent request %s: the node decodes a %d-byte value, the caller sent %d bytes", key, len(val), len(want)))
				}
				delete(sentByKey, key)
			}
		}
	}
	if len(sentByKey) != 0 {
		viol("live-write-transparency", fmt.Sprintf("%d concurrent requests never reached the node as sent", len(sentByKey)))
	}
	for _, op := range []byte{0x05, 0x01, 0x07, 0x09, 0x0A, 0x0B} {
		if seen[op] == 0 {
			viol("live-coverage", fmt.Sprintf("no request with opcode %#x in the session", op))
		}
	}
	if proto >= 2 && seen[0x0D] == 0 {
		viol("live-coverage", "no BATCH in the session")
	}
	if auth && seen[0x0F] == 0 {
		viol("live-coverage", "no AUTH_RESPONSE in the session")
	}
	// ---- what the node sent: compressed exactly when negotiated (never the answer to STARTUP, never empty bodies) ----
	ncomp := 0
	for _, sent := range nd.Sent() {
		v, ok := specParse(sent.Raw)
		if !ok {
			continue
		}
		if v.flags&flagCompress != 0 {
			ncomp++
			if !negotiated {
				viol("live-node", "the node compressed a response although nothing was negotiated")
			}
		}
	}
	if negotiated && ncomp == 0 {
		viol("live-coverage", "negotiated, but the node sent no compressed response")
	}
	o.Count(fmt.Sprintf("live/%s/%v", kindName[k], negotiated))
}

// liveRecheck: every value handed to a caller during the run, compared again at the end.
func liveRecheck(o *hlib.Out) {
	for _, r := range liveRetained {
		if len(r.got) != len(r.want) {
			o.Violate(-1, "live-read-transparency", "", fmt.Sprintf("%s: %d values, expected %d", r.what, len(r.got), len(r.want)), nil)
			continue
		}
		for i := range r.got {
			if r.got[i] != r.want[i] {
				o.Violate(-1, "live-read-transparency", "", fmt.Sprintf("%s: value %d is %q, the node sent %q", r.what, i, r.got[i], r.want[i]), nil)
				break
			}
		}
	}
	o.Extra["live_values_rechecked"] = len(liveRetained)
}
