module gocqlverif

go 1.19

require (
	github.com/gocql/gocql v0.0.0
	github.com/gocql/gocql/lz4 v0.0.0
	github.com/golang/snappy v0.0.3
	github.com/pierrec/lz4/v4 v4.1.8
	gopkg.in/inf.v0 v0.9.1
)

require github.com/hailocab/go-hostpool v0.0.0-20160125115350-e80d13ce29ed // indirect

replace github.com/gocql/gocql => /repo

replace github.com/gocql/gocql/lz4 => /repo/lz4
