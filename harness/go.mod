module gocqlverif

go 1.19

require (
	github.com/gocql/gocql v0.0.0
	github.com/gocql/gocql/lz4 v0.0.0
)

require (
	github.com/golang/snappy v0.0.3 // indirect
	github.com/hailocab/go-hostpool v0.0.0-20160125115350-e80d13ce29ed // indirect
	gopkg.in/inf.v0 v0.9.1 // indirect
)

replace github.com/gocql/gocql => /repo

replace github.com/gocql/gocql/lz4 => /repo/lz4
