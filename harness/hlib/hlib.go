// Package hlib: shared plumbing for the per-property harness programs (PRNG, Coq term printers,
// case/violation collection, output files).
package hlib

import (
	"crypto/sha256"
	"encoding/json"
	"flag"
	"fmt"
	"os"
	"path/filepath"
	"sort"
	"strconv"
	"strings"
)

// ---- PRNG: splitmix64, the only source of randomness ----------------------------------------

type Rng struct{ s uint64 }

// NewRng hashes the seed first, so that seeds 1, 2, 3 give unrelated streams (with a plain
// splitmix64 state, seed k would be seed 1's stream shifted by k-1 draws).
func NewRng(seed uint64) *Rng {
	z := seed + 0x632BE59BD9B4E019
	z = (z ^ (z >> 30)) * 0xBF58476D1CE4E5B9
	z = (z ^ (z >> 27)) * 0x94D049BB133111EB
	return &Rng{s: z ^ (z >> 31)}
}
func (r *Rng) U64() uint64 {
	r.s += 0x9E3779B97F4A7C15
	z := r.s
	z = (z ^ (z >> 30)) * 0xBF58476D1CE4E5B9
	z = (z ^ (z >> 27)) * 0x94D049BB133111EB
	return z ^ (z >> 31)
}
func (r *Rng) Intn(n int) int {
	if n <= 0 {
		return 0
	}
	return int(r.U64() % uint64(n))
}
func (r *Rng) I64() int64      { return int64(r.U64()) }
func (r *Rng) Bool() bool      { return r.U64()&1 == 1 }
func (r *Rng) Chance(p int) bool { return r.Intn(100) < p } // p percent
func (r *Rng) Bytes(n int) []byte {
	b := make([]byte, n)
	for i := range b {
		b[i] = byte(r.U64())
	}
	return b
}
func (r *Rng) Pick(xs ...int64) int64 { return xs[r.Intn(len(xs))] }

// ---- Coq term printers ----------------------------------------------------------------------

func Z(v int64) string {
	if v < 0 {
		return "(" + strconv.FormatInt(v, 10) + ")"
	}
	return strconv.FormatInt(v, 10)
}
func ZU(v uint64) string { return strconv.FormatUint(v, 10) }
func ZStr(s string) string { // decimal string of any size, possibly negative
	if strings.HasPrefix(s, "-") {
		return "(" + s + ")"
	}
	return s
}
func Nat(v int) string { return strconv.Itoa(v) + "%nat" }
func Bool(b bool) string {
	if b {
		return "true"
	}
	return "false"
}
func ZList(b []byte) string {
	var sb strings.Builder
	sb.WriteString("[")
	for i, x := range b {
		if i > 0 {
			sb.WriteString(";")
		}
		sb.WriteString(strconv.Itoa(int(x)))
	}
	sb.WriteString("]")
	return sb.String()
}
func ZListI(xs []int64) string {
	ss := make([]string, len(xs))
	for i, x := range xs {
		ss[i] = Z(x)
	}
	return "[" + strings.Join(ss, ";") + "]"
}
func RuneList(s string) string { // code points as Go's range yields them
	var ss []string
	for _, r := range s {
		ss = append(ss, strconv.Itoa(int(r)))
	}
	return "[" + strings.Join(ss, ";") + "]"
}
func List(items []string) string { return "[" + strings.Join(items, "; ") + "]" }
func Some(s string) string       { return "(Some " + s + ")" }
func OptBytes(b []byte, ok bool) string {
	if !ok {
		return "None"
	}
	return Some(ZList(b))
}
func Pair(a, b string) string { return "(" + a + ", " + b + ")" }

// ---- collection -----------------------------------------------------------------------------

type Violation struct {
	Case    int         `json:"case"`    // index of the case it was observed on (-1: none)
	Kind    string      `json:"kind"`    // which monitor
	Finding string      `json:"finding"` // id in known_findings.json this matches, "" if none
	Detail  string      `json:"detail"`
	Input   interface{} `json:"input,omitempty"`
}

type Out struct {
	Prop       string
	Dir        string
	Seed       uint64
	Tier       string
	Only       int // -1: all; otherwise keep only this case index
	Search     bool
	Scale      int
	Rng        *Rng
	terms      []string
	kinds      map[string]int
	distinct   map[[32]byte]bool
	nontrivial map[[32]byte]bool
	Samples    []interface{}
	Violations []Violation
	Extra      map[string]interface{}
	Rule       string
	vcount     map[string]int
}

// Init parses the common flags. scaleQuick/scaleThorough are the property's case-count scales.
func Init(prop string) *Out {
	o := &Out{Prop: prop, kinds: map[string]int{}, distinct: map[[32]byte]bool{}, nontrivial: map[[32]byte]bool{}, Extra: map[string]interface{}{}}
	seed := flag.Uint64("seed", 1, "PRNG seed")
	flag.StringVar(&o.Dir, "out", ".", "output directory")
	flag.StringVar(&o.Tier, "tier", "quick", "quick|thorough")
	flag.IntVar(&o.Only, "only", -1, "emit only this case index (replay)")
	flag.BoolVar(&o.Search, "search", false, "failing-input search: larger sweep, monitors only")
	flag.Parse()
	o.Seed = *seed
	o.Rng = NewRng(o.Seed)
	o.Scale = 1
	if o.Tier == "thorough" {
		o.Scale = 20
	}
	if o.Search {
		o.Scale *= 5
	}
	os.MkdirAll(o.Dir, 0o755)
	return o
}

// Case records one correspondence case (a Coq term of the property's [case] type) and returns its index.
func (o *Out) Case(kind string, nontrivial bool, term string) int {
	idx := len(o.terms)
	o.terms = append(o.terms, term)
	o.kinds[kind]++
	h := sha256.Sum256([]byte(term))
	o.distinct[h] = true
	if nontrivial {
		o.nontrivial[h] = true
	}
	if len(o.Samples) < 12 && o.kinds[kind] <= 2 {
		o.Samples = append(o.Samples, map[string]interface{}{"kind": kind, "case": idx, "term": trunc(term, 600)})
	}
	return idx
}

func (o *Out) NCases() int { return len(o.terms) }

func trunc(s string, n int) string {
	if len(s) > n {
		return s[:n] + "..."
	}
	return s
}

func (o *Out) Violate(caseIdx int, kind, finding, detail string, input interface{}) {
	// keep at most 40 per (kind, finding); count all of them
	if o.vcount == nil {
		o.vcount = map[string]int{}
	}
	key := kind + "|" + finding
	o.vcount[key]++
	if o.vcount[key] > 40 {
		return
	}
	o.Violations = append(o.Violations, Violation{caseIdx, kind, finding, trunc(detail, 2000), input})
}

func (o *Out) Count(kind string) { o.kinds[kind]++ }

// Finish writes cases.txt, Cases_<k>.v shards and impl.json.
// importLine e.g. "From GocqlV Require Import Lib.Base C19.Corr."; runFn e.g. "C19.Corr.run".
func (o *Out) Finish(importLine, caseType, runFn string) {
	shard := 200
	var keep []int
	for i := range o.terms {
		if o.Only < 0 || o.Only == i {
			keep = append(keep, i)
		}
	}
	// cases.txt: index<TAB>term
	var sb strings.Builder
	for _, i := range keep {
		fmt.Fprintf(&sb, "%d\t%s\n", i, o.terms[i])
	}
	os.WriteFile(filepath.Join(o.Dir, "cases.txt"), []byte(sb.String()), 0o644)
	old, _ := filepath.Glob(filepath.Join(o.Dir, "Cases_*.v"))
	for _, f := range old {
		os.Remove(f)
	}
	nshards := 0
	if !o.Search {
		for s := 0; s*shard < len(keep); s++ {
			lo, hi := s*shard, (s+1)*shard
			if hi > len(keep) {
				hi = len(keep)
			}
			var b strings.Builder
			b.WriteString(importLine + "\nOpen Scope Z_scope.\n")
			fmt.Fprintf(&b, "Definition cases : list %s := [\n", caseType)
			idxs := make([]string, 0, hi-lo)
			for k, i := range keep[lo:hi] {
				if k > 0 {
					b.WriteString(";\n")
				}
				b.WriteString(o.terms[i])
				idxs = append(idxs, strconv.Itoa(i)+"%N")
			}
			b.WriteString("\n].\n")
			fmt.Fprintf(&b, "Definition idx : list N := [%s].\n", strings.Join(idxs, ";"))
			fmt.Fprintf(&b, "Definition M := Eval vm_compute in (map (fun i => nth (N.to_nat i) idx 0%%N) (%s cases)).\nPrint M.\n", runFn)
			os.WriteFile(filepath.Join(o.Dir, fmt.Sprintf("Cases_%d.v", s)), []byte(b.String()), 0o644)
			nshards++
		}
	}
	kinds := map[string]int{}
	var names []string
	for k, v := range o.kinds {
		kinds[k] = v
		names = append(names, k)
	}
	sort.Strings(names)
	res := map[string]interface{}{
		"property":            o.Prop,
		"seed":                o.Seed,
		"tier":                o.Tier,
		"evaluations":         len(o.terms),
		"distinct":            len(o.distinct),
		"distinct_nontrivial": len(o.nontrivial),
		"kinds":               kinds,
		"samples":             o.Samples,
		"violations":          o.Violations,
		"shards":              nshards,
		"rule":                o.Rule,
		"extra":               o.Extra,
		"violation_counts":    o.vcount,
	}
	if o.Violations == nil {
		res["violations"] = []Violation{}
	}
	js, _ := json.MarshalIndent(res, "", " ")
	os.WriteFile(filepath.Join(o.Dir, "impl.json"), js, 0o644)
}
