package c01lib

import (
	"context"
	"errors"
	"fmt"
	"net"
	"sync"
	"time"

	"github.com/gocql/gocql"
	"gocqlverif/node"
)

type violFn func(kind, finding, format string, a ...interface{})

// allowed outcome classes of a request (the six documented ones, spelled out)
var documented = map[string]bool{"ok": true, "errframe": true, "timeout": true, "ctx": true, "connclosed": true,
	"nostreams": true, "nohosts": true, "readerr": true, "writeerr": true, "protoerr": true}

func (r *run) checkResult(res CallerResult, rep *Report, viol violFn, finding string) {
	rep.Classes[res.Class]++
	switch res.Class {
	case "ok", "errframe":
		if res.Seen != res.Token {
			viol("token", finding, "caller %s was handed %q (class %s): the response of another request", res.Token, res.Seen, res.Class)
		}
	case "ok-empty":
		viol("token", finding, "caller %s was handed a rows result without its row", res.Token)
	default:
		if !documented[res.Class] {
			viol("outcome", "", "caller %s ended with an undocumented outcome: %s", res.Token, res.Err)
		}
	}
}

// waves: first wave of concurrent callers with scripted fates, the connection-level event, release of
// held answers in the scripted order, then a second wave that reuses stream ids while late answers arrive.
func (r *run) waves(s *gocql.Session, pool *node.ServerConn, poolConn *gocql.Conn, rep *Report, viol violFn, closeSession func()) {
	h := r.h
	K := len(h.Fates)
	results := make([]CallerResult, K)
	cancels := make([]context.CancelFunc, K)
	ctxs := make([]context.Context, K)
	for i := 0; i < K; i++ {
		switch h.CModes[i] {
		case CNone:
			ctxs[i] = context.Background()
		case CCancelBefore:
			c, cancel := context.WithCancel(context.Background())
			cancel()
			ctxs[i] = c
		case CCancelWait:
			ctxs[i], cancels[i] = context.WithCancel(context.Background())
		case CDeadline:
			ctxs[i], cancels[i] = context.WithTimeout(context.Background(), time.Duration(h.TimeoutMs/3+1)*time.Millisecond)
		}
	}
	defer func() {
		for _, c := range cancels {
			if c != nil {
				c()
			}
		}
	}()

	// the fault on the request path is installed before the first frame is written
	frameLen := int64(0)
	{
		// all token requests have the same length: measure it from the protocol version
		hdr := int64(9)
		if h.Proto < 3 {
			hdr = 8
		}
		stmt := int64(len(stmtPrefix) + len(tokenOf(0, 0)))
		body := 4 + stmt + 2 + 1 // [long string] + consistency + flags
		if h.Proto == 1 {
			body = 4 + stmt + 2
		}
		if h.Proto >= 5 {
			body = 4 + stmt + 2 + 4
		}
		frameLen = hdr + body
	}
	base := pool.Link().C2S.Written()
	switch h.Event {
	case EvWriteFail:
		pool.Link().C2S.FailWriteAt(base+int64(h.EventArg)*frameLen+3, errors.New("injected: connection reset by peer"))
	case EvWriteStall:
		pool.Link().C2S.StallWriteAt(base+int64(h.EventArg)*frameLen+5, 0)
	}

	var wg sync.WaitGroup
	for i := 0; i < K; i++ {
		wg.Add(1)
		go func(i int) {
			defer wg.Done()
			results[i] = doQuery(s, ctxs[i], tokenOf(h.Index, i))
		}(i)
	}

	// barrier: the node has every request that can reach it (bounded wait; no verdict depends on it)
	expect := 0
	for i := 0; i < K; i++ {
		if h.CModes[i] != CCancelBefore {
			expect++
		}
	}
	if h.Proto < 3 && expect > 127 {
		expect = 127
	}
	wait := 3 * time.Second
	if h.Event == EvWriteFail || h.Event == EvWriteStall {
		wait = 80 * time.Millisecond
	}
	if h.TimeoutMs < 1000 {
		wait = time.Duration(h.TimeoutMs/2) * time.Millisecond // callers must not time out before the script acts
	}
	r.n.WaitFor(wait, func() bool {
		r.mu.Lock()
		defer r.mu.Unlock()
		return len(r.received) >= expect
	})

	if h.PushEvents {
		// EVENT frames arrive on stream -1 between the responses: recv hands them to the session and goes on
		pool.PushEvent(node.StatusChangeEvent{Change: "UP", IP: net.ParseIP("10.0.0.1"), Port: 9042})
		pool.PushEvent(node.TopologyChangeEvent{Change: "NEW_NODE", IP: net.ParseIP("10.0.0.1"), Port: 9042})
	}

	if h.HoldMs > 0 {
		// the held answers stay held while the heartbeat timer fires
		time.Sleep(time.Duration(h.HoldMs) * time.Millisecond)
	}

	// cancellations, the connection event and the release of the held answers, in a scripted order
	closeDone := make(chan bool, 1)
	closeDone <- true
	act := func(k int) {
		switch k {
		case 0:
			for i := 0; i < K; i++ {
				if h.CModes[i] == CCancelWait {
					cancels[i]()
				}
			}
		case 1:
			switch h.Event {
			case EvCutS2C:
				pool.Link().S2C.CutAt(pool.Link().S2C.Written(), nil)
			case EvServerClose:
				pool.Close()
			case EvClientClose:
				<-closeDone
				ok := watchdog(15*time.Second, poolConn.Close)
				closeDone <- ok
				if !ok {
					viol("close-hang", "", "Conn.Close did not return within 15s\n%s", goroutineDump())
				}
			case EvSessionClose:
				closeSession()
			}
		case 2:
			r.mu.Lock()
			hs := append([]string(nil), r.heldSeq...)
			r.heldDone = true
			r.mu.Unlock()
			r.release(order(hs, h.Order, h.OrderSeed))
			r.releaseStragglers(FHeld)
		}
	}
	perm := [][]int{{0, 1, 2}, {0, 2, 1}, {1, 0, 2}, {1, 2, 0}, {2, 0, 1}, {2, 1, 0}}[h.OrderSeed%6]
	for _, k := range perm {
		act(k)
	}

	if !watchdog(20*time.Second, wg.Wait) {
		viol("caller-hang", "", "not every caller of the first wave returned within 20s\n%s", goroutineDump())
		return
	}
	for i := range results {
		r.checkResult(results[i], rep, viol, "")
		// liveness sample: nothing was sabotaged and the timeout is generous => an answered request succeeds
		if h.Event == EvNone && h.TimeoutMs >= 1000 && h.CModes[i] == CNone && (h.Fates[i] == FOK || h.Fates[i] == FHeld) && results[i].Class != "ok" &&
			!(h.Proto < 3 && len(h.Fates) > 127) {
			viol("outcome", "", "caller %s: request answered by the node on a healthy connection ended with %s (%s)", results[i].Token, results[i].Class, results[i].Err)
		}
		if h.Event == EvNone && h.TimeoutMs >= 1000 && h.CModes[i] == CNone && h.Fates[i] == FErr && results[i].Class != "errframe" &&
			!(h.Proto < 3 && len(h.Fates) > 127) {
			viol("outcome", "", "caller %s: ERROR frame sent by the node on a healthy connection ended with %s (%s)", results[i].Token, results[i].Class, results[i].Err)
		}
		if h.Event == EvNone && h.TimeoutMs >= 1000 && h.CModes[i] == CNone && h.Fates[i] == FWrongVer && results[i].Class != "protoerr" &&
			!(h.Proto < 3 && len(h.Fates) > 127) {
			viol("outcome", "", "caller %s: a response with another protocol version in its header ended with %s (%s), not with the protocol error", results[i].Token, results[i].Class, results[i].Err)
		}
		if (h.Fates[i] == FNever || h.Fates[i] == FLate) && (results[i].Class == "ok" || results[i].Class == "errframe") {
			viol("token", "", "caller %s was handed a response (%q) although the node had not answered its request", results[i].Token, results[i].Seen)
		}
	}
	rep.Results = append(rep.Results, results...)
	rep.NonTriv = true

	// second wave: sequential requests that reuse freed stream ids, late answers arriving meanwhile
	r.mu.Lock()
	late := append([]string(nil), r.lateSeq...)
	r.mu.Unlock()
	late = order(late, h.Order, h.OrderSeed+1)
	relLate := func() {
		r.mu.Lock()
		r.lateDone = true
		r.mu.Unlock()
		r.release(late)
		r.releaseStragglers(FLate)
	}
	if !h.LateInW2 {
		relLate()
	}
	for j := 0; j < h.Wave2; j++ {
		if h.LateInW2 && j == h.Wave2/2 {
			relLate()
		}
		tok := tokenOf(h.Index, K+j)
		var res CallerResult
		if !watchdog(20*time.Second, func() { res = doQuery(s, context.Background(), tok) }) {
			viol("caller-hang", "", "second-wave caller %s did not return within 20s\n%s", tok, goroutineDump())
			return
		}
		r.checkResult(res, rep, viol, "")
		rep.Results = append(rep.Results, res)
	}
	if h.LateInW2 && h.Wave2 == 0 {
		relLate()
	}
}

// stallScenario is the F-C01-1 history: the node sends A's header and 4 body bytes, stalls until the
// client has run into five read-deadline expirations, then delivers the rest of A's body, which is
// shaped like a complete rows frame on B's stream id. Before the fix of finding body-timeout-misroute
// the driver handed B content of A's response; now the failed body read must end the connection, so B
// ends with a connection error (or its own answer), never with A's content.
func (r *run) stallScenario(s *gocql.Session, pool *node.ServerConn, rep *Report, viol violFn) {
	h := r.h
	tokA, tokB := tokenOf(h.Index, 0), tokenOf(h.Index, 1)
	r.mu.Lock()
	r.fates[tokA], r.fates[tokB] = FNever, FNever // answered by hand below
	r.mu.Unlock()
	resA := make(chan CallerResult, 1)
	go func() { resA <- doQuery(s, context.Background(), tokA) }()
	if !r.n.WaitFor(2*time.Second, func() bool { r.mu.Lock(); defer r.mu.Unlock(); return r.received[tokA] != nil }) {
		rep.Note = "stall: request A did not arrive"
		return
	}
	// B's stream id is not known before B is sent; ids are handed out first-free, so probe: B will get
	// the id the allocator hands out next. Send B first, hold it, then build A's answer around B's id.
	timeouts0 := pool.Link().S2C.ReadTimeouts()
	_ = timeouts0
	r.mu.Lock()
	reqA := r.received[tokA]
	r.mu.Unlock()
	// A's answer is written only once B's id is known; the stall needs four expirations before B starts,
	// so B is a request that is sent at once and held: its caller uses a fresh session-level call below.
	// Sequence: (1) send A's header + 4 bytes now, rest behind a gate that opens after 5 read timeouts;
	// the rest can only be built when B's id is known, so the gate is a Hold released by hand.
	hdrLen := 9
	if h.Proto < 3 {
		hdrLen = 8
	}
	// wait for four expirations inside A's body, then start B so that it is still waiting when the fifth fires
	inner := func(stream int) []byte {
		_, body := rowsFor(tokA + "-content-of-A").Encode(h.Proto)
		return node.RawFrame(0x80|byte(h.Proto), 0, stream, node.OpResult, body)
	}
	// the total length of A's body must be announced in A's header before B's id is known: the inner
	// frame's length does not depend on the id
	total := 4 + len(inner(1))
	head := node.AppendHeader(nil, node.Header{Version: 0x80 | byte(h.Proto), Stream: reqA.Header.Stream, Opcode: node.OpResult, Length: int32(total)})
	first := append(head, 0, 0, 0, 2) // kind = rows, never parsed
	if len(first) != hdrLen+4 {
		rep.Note = "stall: unexpected header length"
		return
	}
	pool.WriteRaw(first)
	if !pool.Link().S2C.WaitReadTimeouts(timeouts0+4, 5*time.Second) {
		rep.Note = "stall: the client did not run into four read timeouts"
		return
	}
	time.Sleep(time.Duration(h.TimeoutMs) * time.Millisecond * 2 / 5)
	resB := make(chan CallerResult, 1)
	go func() { resB <- doQuery(s, context.Background(), tokB) }()
	if !r.n.WaitFor(2*time.Second, func() bool { r.mu.Lock(); defer r.mu.Unlock(); return r.received[tokB] != nil }) {
		rep.Note = "stall: request B did not arrive"
		return
	}
	r.mu.Lock()
	reqB := r.received[tokB]
	r.mu.Unlock()
	// the fifth expiration ends Conn.Read's retries; the rest of A's body arrives afterwards
	pool.Link().S2C.WaitReadTimeouts(timeouts0+5, 5*time.Second)
	pool.WriteRaw(inner(reqB.Header.Stream))
	var a, b CallerResult
	if !watchdog(20*time.Second, func() { a = <-resA; b = <-resB }) {
		viol("caller-hang", "", "stall scenario: callers did not return within 20s\n%s", goroutineDump())
		return
	}
	rep.Note = fmt.Sprintf("stall: A=%s/%q B=%s/%q", a.Class, a.Seen, b.Class, b.Seen)
	// (this used to be known finding body-timeout-misroute; since its fix a foreign token here is a plain violation)
	r.checkResult(a, rep, viol, "")
	r.checkResult(b, rep, viol, "")
	rep.Results = append(rep.Results, a, b)
	rep.NonTriv = true
	// B's own answer (never sent) would otherwise stay reserved: answer it now, it must be discarded or
	// routed to nobody
	pool.Reply(reqB, rowsFor(tokB))
	time.Sleep(20 * time.Millisecond)
	r.mu.Lock()
	delete(r.received, tokA) // both were answered by hand: not "never answered"
	delete(r.received, tokB)
	r.mu.Unlock()
}

// releaseStragglers releases answers of the given fate that were parked after the scripted release
// (requests that reached the node late because the machine was busy).
func (r *run) releaseStragglers(f Fate) {
	r.mu.Lock()
	var toks []string
	for tok := range r.held {
		if r.fates[tok] == f {
			toks = append(toks, tok)
		}
	}
	r.mu.Unlock()
	r.release(toks)
}

// coalCancelScenario: write coalescing with a long window; the first CancelN callers' contexts expire
// inside the window, after their frames were handed to the flusher. Their frames are written all the
// same, so their stream ids must stay reserved until the (late) answers have arrived. A second,
// concurrent wave is then held at the node while the late answers of the first wave are sent first: if
// an id of a cancelled request had been given to a caller of the second wave, that caller would be handed
// the cancelled request's response.
func (r *run) coalCancelScenario(s *gocql.Session, pool *node.ServerConn, rep *Report, viol violFn) {
	h := r.h
	K := len(h.Fates)
	res := make([]CallerResult, K)
	var wg sync.WaitGroup
	var cancels []context.CancelFunc
	if h.WriteStallMs > 0 {
		// the Write that carries the first wave blocks after two bytes and goes on later: whatever the
		// callers' contexts do meanwhile, the frames handed to that Write are written
		l := pool.Link().C2S
		l.StallWriteAt(l.Written()+2, time.Duration(h.WriteStallMs)*time.Millisecond)
	}
	for i := 0; i < K; i++ {
		ctx := context.Background()
		if i < h.CancelN {
			c, cancel := context.WithTimeout(ctx, time.Duration(h.CancelMs)*time.Millisecond)
			ctx = c
			cancels = append(cancels, cancel)
		}
		wg.Add(1)
		go func(i int, ctx context.Context) {
			defer wg.Done()
			res[i] = doQuery(s, ctx, tokenOf(h.Index, i))
		}(i, ctx)
	}
	defer func() {
		for _, c := range cancels {
			c()
		}
	}()
	if !watchdog(20*time.Second, wg.Wait) {
		viol("caller-hang", "", "coalescer scenario: first wave did not return within 20s\n%s", goroutineDump())
		return
	}
	for i := range res {
		r.checkResult(res[i], rep, viol, "")
		if i >= h.CancelN && res[i].Class != "ok" {
			viol("outcome", "", "caller %s: request answered by the node on a healthy connection ended with %s (%s)", res[i].Token, res[i].Class, res[i].Err)
		}
		if i < h.CancelN && (res[i].Class == "ok" || res[i].Class == "errframe") {
			viol("token", "", "caller %s was handed a response (%q) although the node had not answered its request", res[i].Token, res[i].Seen)
		}
	}
	rep.Results = append(rep.Results, res...)
	rep.NonTriv = true

	// second wave, concurrent, held at the node
	M := h.Wave2
	r.mu.Lock()
	for j := 0; j < M; j++ {
		r.fates[tokenOf(h.Index, K+j)] = FHeld
	}
	r.mu.Unlock()
	res2 := make([]CallerResult, M)
	var wg2 sync.WaitGroup
	for j := 0; j < M; j++ {
		wg2.Add(1)
		go func(j int) {
			defer wg2.Done()
			res2[j] = doQuery(s, context.Background(), tokenOf(h.Index, K+j))
		}(j)
	}
	r.n.WaitFor(3*time.Second, func() bool {
		r.mu.Lock()
		defer r.mu.Unlock()
		k := 0
		for j := 0; j < M; j++ {
			if r.received[tokenOf(h.Index, K+j)] != nil {
				k++
			}
		}
		return k == M
	})
	// the late answers of the first wave leave first, then the second wave's own
	r.mu.Lock()
	late := append([]string(nil), r.lateSeq...)
	r.lateDone = true
	r.mu.Unlock()
	r.release(order(late, h.Order, h.OrderSeed))
	r.releaseStragglers(FLate)
	r.mu.Lock()
	hs := append([]string(nil), r.heldSeq...)
	r.heldDone = true
	r.mu.Unlock()
	r.release(order(hs, h.Order, h.OrderSeed+1))
	r.releaseStragglers(FHeld)
	if !watchdog(20*time.Second, wg2.Wait) {
		viol("caller-hang", "", "coalescer scenario: second wave did not return within 20s\n%s", goroutineDump())
		return
	}
	for j := range res2 {
		r.checkResult(res2[j], rep, viol, "")
		if res2[j].Class != "ok" {
			viol("outcome", "", "caller %s: request answered by the node on a healthy connection ended with %s (%s)", res2[j].Token, res2[j].Class, res2[j].Err)
		}
	}
	rep.Results = append(rep.Results, res2...)
}

// tempErrScenario: K concurrent callers; the node answers them in arrival order, but the victim's
// response is cut inside its body: the bytes after the cut stay unreadable until the reader, blocked in
// the body, has been given TempErrN temporary read errors. The other responses follow on the wire.
func (r *run) tempErrScenario(s *gocql.Session, pool *node.ServerConn, rep *Report, viol violFn) {
	h := r.h
	K := len(h.Fates)
	fc := r.fd.of(pool.Link().Client())
	if fc == nil {
		rep.Note = "temp-err: pool connection is not wrapped"
		return
	}
	hdr := 9
	if h.Proto < 3 {
		hdr = 8
	}
	// the node parks every answer; they are sent below in arrival order, the victim's with the cut
	r.mu.Lock()
	for i := 0; i < K; i++ {
		r.fates[tokenOf(h.Index, i)] = FHeld
	}
	r.mu.Unlock()
	res := make([]CallerResult, K)
	var wg sync.WaitGroup
	for i := 0; i < K; i++ {
		wg.Add(1)
		go func(i int) {
			defer wg.Done()
			res[i] = doQuery(s, context.Background(), tokenOf(h.Index, i))
		}(i)
	}
	r.n.WaitFor(3*time.Second, func() bool { r.mu.Lock(); defer r.mu.Unlock(); return len(r.heldSeq) == K })
	r.mu.Lock()
	seq := append([]string(nil), r.heldSeq...)
	reqs := map[string]*node.Request{}
	for _, t := range seq {
		reqs[t] = r.received[t]
		delete(r.held, t)
	}
	r.heldDone = true
	r.mu.Unlock()
	stalled := true
	for j, tok := range seq {
		if j != h.Victim%len(seq) {
			pool.Reply(reqs[tok], rowsFor(tok))
			continue
		}
		_, body := rowsFor(tok).Encode(h.Proto)
		cut := []int{1, len(body) / 2, len(body) - 1}[h.CutClass%3]
		barrier := pool.Link().S2C.Written() + int64(hdr+cut)
		pool.ReplySplit(reqs[tok], rowsFor(tok), node.Split{After: hdr + cut, Gate: node.Gate{Hold: true}})
		// the remaining answers queue up behind the barrier
		for _, t2 := range seq[j+1:] {
			pool.Reply(reqs[t2], rowsFor(t2))
		}
		ok := r.n.WaitFor(3*time.Second, func() bool { return pool.Link().S2C.Consumed() >= barrier })
		if ok {
			stalled = fc.stall(h.TempErrN)
		} else {
			stalled = false
		}
		pool.Link().S2C.Release()
		break
	}
	if !watchdog(20*time.Second, wg.Wait) {
		viol("caller-hang", "", "temporary-read-error scenario: callers did not return within 20s\n%s", goroutineDump())
		return
	}
	rep.Note = fmt.Sprintf("temp-err: stalled=%v errors=%d", stalled, fc.stalls())
	for i := range res {
		r.checkResult(res[i], rep, viol, "")
		if res[i].Class != "ok" {
			viol("outcome", "", "caller %s: a response body interrupted by %d temporary read error(s) (fewer than Conn.Read's retries) ended with %s (%s)", res[i].Token, fc.stalls(), res[i].Class, res[i].Err)
		}
	}
	if !stalled {
		rep.Note += " (the blocked read could not be interrupted: scenario degenerated to a plain delayed answer)"
	}
	rep.Results = append(rep.Results, res...)
	rep.NonTriv = stalled
}

// timeoutLimitScenario: gocql.TimeoutLimit = L > 0 (set by the caller of RunAll for the whole group) and
// a node that has gone silent: sequential callers time out; the (L+1)-th timeout on the connection makes
// handleTimeout close it (ErrTooManyTimeouts). Every caller must still return, the connection must be
// closed, and with IdleMs the heartbeat's own timeouts are among the counted ones.
func (r *run) timeoutLimitScenario(s *gocql.Session, pool *node.ServerConn, rep *Report, viol violFn) {
	h := r.h
	r.mu.Lock()
	r.silent = true
	r.mu.Unlock()
	for i := range h.Fates {
		tok := tokenOf(h.Index, i)
		var res CallerResult
		if !watchdog(h.wd(), func() { res = doQuery(s, context.Background(), tok) }) {
			viol("caller-hang", "", "caller %s did not return within %v (TimeoutLimit=%d, silent node)\n%s", tok, h.wd(), h.TimeoutLimit, goroutineDump())
			return
		}
		r.checkResult(res, rep, viol, "")
		if res.Class == "ok" || res.Class == "errframe" {
			viol("token", "", "caller %s was handed a response (%q) by a silent node", tok, res.Seen)
		}
		rep.Results = append(rep.Results, res)
	}
	rep.NonTriv = true
	if h.IdleMs > 0 {
		// the heartbeats (after 1 s) time out as well and are counted
		time.Sleep(time.Duration(h.IdleMs) * time.Millisecond)
	}
	// more than TimeoutLimit timeouts have happened on the first pool connection: it must be gone
	if len(h.Fates) > h.TimeoutLimit || h.IdleMs > 0 {
		if !r.n.WaitFor(3*time.Second, func() bool { return !pool.Open() }) {
			viol("too-many-timeouts-not-closed", "", "after more than TimeoutLimit=%d timeouts the connection is still open", h.TimeoutLimit)
		}
	}
	// the node answers again, so that reconnection attempts in progress do not hold up Session.Close
	r.mu.Lock()
	r.silent = false
	r.mu.Unlock()
}

// cancelInBuildScenario: on a connection that writes through the direct (non-coalescing) writer, a
// systematic stream of requests whose context ends between exec's entry check and the writer's select,
// with the write semaphore free: the select may take either ready branch. Every one of them must end
// with the context's error and leave nothing behind; a plain request afterwards must complete, and
// closing the connection must unblock whoever is still inside exec.
func (r *run) cancelInBuildScenario(s *gocql.Session, pool *node.ServerConn, poolConn *gocql.Conn, rep *Report, viol violFn) {
	h := r.h
	for i := 0; i < h.CancelInBuild; i++ {
		ctx, cancel := context.WithCancel(context.Background())
		var err error
		ok := watchdog(5*time.Second, func() { err = gocql.VerifC06ExecCancelInBuild(poolConn, ctx, cancel) })
		cancel()
		if !ok {
			viol("caller-hang", "", "request %d whose context ended inside frame building did not return within 5s\n%s", i, goroutineDump())
			return
		}
		if cl := classify(err); cl != "ctx" {
			viol("outcome", "", "request %d whose context ended inside frame building ended with %s (%v), not with the context's error", i, cl, err)
		}
	}
	rep.NonTriv = true
	// the connection must be as good as new
	for j := 0; j < 3; j++ {
		tok := tokenOf(h.Index, j)
		var res CallerResult
		done := make(chan struct{})
		go func() { res = doQuery(s, context.Background(), tok); close(done) }()
		select {
		case <-done:
		case <-time.After(5 * time.Second):
			viol("caller-hang", "", "after %d requests cancelled inside frame building, a plain request did not complete within 5s (it is blocked inside exec)\n%s", h.CancelInBuild, goroutineDump())
			// closing the connection must unblock it
			poolConn.Close()
			select {
			case <-done:
			case <-time.After(5 * time.Second):
				viol("close-does-not-unblock", "", "Conn.Close did not unblock the caller within 5s")
			}
			return
		}
		r.checkResult(res, rep, viol, "")
		if res.Class != "ok" {
			viol("outcome", "", "caller %s: plain request after the cancelled ones ended with %s (%s)", tok, res.Class, res.Err)
		}
		rep.Results = append(rep.Results, res)
	}
}

// flagBodyScenario: a per-request framing error (compress flag on a connection without compressor) must
// consume the frame's body: the victim gets the error, everybody else its own answer, and nothing of the
// victim's body is ever parsed as a frame.
func (r *run) flagBodyScenario(s *gocql.Session, pool *node.ServerConn, rep *Report, viol violFn) {
	h := r.h
	K := len(h.Fates)
	r.mu.Lock()
	for i := 0; i < K; i++ {
		r.fates[tokenOf(h.Index, i)] = FHeld
	}
	r.mu.Unlock()
	res := make([]CallerResult, K)
	var wg sync.WaitGroup
	for i := 0; i < K; i++ {
		wg.Add(1)
		go func(i int) {
			defer wg.Done()
			res[i] = doQuery(s, context.Background(), tokenOf(h.Index, i))
		}(i)
	}
	r.n.WaitFor(3*time.Second, func() bool { r.mu.Lock(); defer r.mu.Unlock(); return len(r.heldSeq) == K })
	r.mu.Lock()
	seq := append([]string(nil), r.heldSeq...)
	reqs := map[string]*node.Request{}
	for _, t := range seq {
		reqs[t] = r.received[t]
		delete(r.held, t)
	}
	r.heldDone = true
	r.mu.Unlock()
	if len(seq) < 2 {
		rep.Note = "flag-body: requests did not arrive"
		return
	}
	victim := seq[0]
	ver := 0x80 | byte(h.Proto)
	var body []byte
	switch h.FlagBody {
	case 1:
		_, b := rowsFor(victim + "-content-of-A").Encode(h.Proto)
		body = node.RawFrame(ver, 0, reqs[seq[1]].Header.Stream, node.OpResult, b)
	case 2:
		_, b := rowsFor(victim + "-content-of-A").Encode(h.Proto)
		body = node.RawFrame(ver, 0, 100, node.OpResult, b)
	default:
		body = []byte{0xff, 0xfe, 0x00, 0x13, 0x37, 0xff, 0xff, 0xff, 0xff, 0x01, 0x02, 0x03}
	}
	pool.WriteRaw(node.RawFrame(ver, 0x01, reqs[victim].Header.Stream, node.OpResult, body))
	for _, t := range seq[1:] {
		pool.Reply(reqs[t], rowsFor(t))
	}
	if !watchdog(20*time.Second, wg.Wait) {
		viol("caller-hang", "", "compress-flag scenario: callers did not return within 20s\n%s", goroutineDump())
		return
	}
	for i := range res {
		r.checkResult(res[i], rep, viol, "")
		if res[i].Token == victim {
			if res[i].Class == "ok" || res[i].Class == "errframe" {
				viol("token", "", "caller %s was handed a response although its answer was a compress-flagged frame on a connection without compressor", victim)
			}
		} else if res[i].Class != "ok" {
			viol("outcome", "", "caller %s: its own well-formed answer followed another request's per-request framing error and ended with %s (%s): the connection lost its framing", res[i].Token, res[i].Class, res[i].Err)
		}
	}
	rep.Results = append(rep.Results, res...)
	rep.NonTriv = true
	// the connection is still in step: further requests get their answers
	for j := 0; j < 2; j++ {
		rr := doQuery(s, context.Background(), tokenOf(h.Index, K+j))
		r.checkResult(rr, rep, viol, "")
		if rr.Class != "ok" {
			viol("outcome", "", "caller %s: request after the framing error ended with %s (%s)", rr.Token, rr.Class, rr.Err)
		}
		rep.Results = append(rep.Results, rr)
	}
}
