package c01lib

import (
	"fmt"
	"sort"
	"strings"
	"sync"

	"github.com/gocql/gocql"
	"gocqlverif/hlib"
	"gocqlverif/node"
)

// Profile selects the mix of histories: "routing" (C01: answer orders, late answers, id reuse) or
// "lifecycle" (C06: faults at every phase, cancellations, closes, exhaustion, handshake failures).
type Profile int

const (
	Routing Profile = iota
	Lifecycle
)

// Gen draws the script of history idx.
func Gen(r *hlib.Rng, idx int, p Profile) *Hist {
	h := &Hist{Index: idx}
	h.Proto = []int{2, 2, 2, 3, 4, 4, 4, 5, 1}[r.Intn(9)]
	h.Coalesce = r.Chance(50)
	h.Perturb = r.Chance(50)
	h.Order = node.Order(r.Intn(3))
	h.OrderSeed = r.U64() % 1000003
	K := 1 + r.Intn(8)
	switch r.Intn(6) {
	case 0:
		K = 1 + r.Intn(64)
	case 1:
		K = 1
	case 2:
		K = 16 + r.Intn(49)
	}
	timeouts := r.Chance(55)
	h.TimeoutMs = 5000
	if timeouts {
		h.TimeoutMs = 40 + 10*r.Intn(4)
	}
	if p == Lifecycle && r.Chance(7) {
		h.Handshake = 1 + r.Intn(3)
		return h
	}
	if p == Lifecycle && h.Proto <= 2 && r.Chance(12) {
		// stream exhaustion on the 128-id protocols: more callers than ids, answers held
		K = 128 + r.Intn(40)
		timeouts = false
		h.TimeoutMs = 4000
	}
	h.Fates = make([]Fate, K)
	h.CModes = make([]CMode, K)
	for i := range h.Fates {
		x := r.Intn(100)
		switch {
		case x < 30:
			h.Fates[i] = FOK
		case x < 37:
			h.Fates[i] = FErr
		case x < 40:
			h.Fates[i] = FWrongVer
		case x < 70 || !timeouts:
			h.Fates[i] = FHeld
		case x < 90:
			h.Fates[i] = FLate
		default:
			h.Fates[i] = FNever
		}
		if K > 127 {
			h.Fates[i] = FHeld
		}
		y := r.Intn(100)
		cm := 8
		if p == Lifecycle {
			cm = 30
		}
		switch {
		case y < cm/3:
			h.CModes[i] = CCancelBefore
		case y < 2*cm/3:
			h.CModes[i] = CCancelWait
		case y < cm:
			h.CModes[i] = CDeadline
		}
	}
	ev := 12
	if p == Lifecycle {
		ev = 60
	}
	if r.Chance(ev) && K <= 127 {
		h.Event = Event(1 + r.Intn(6))
		h.EventArg = r.Intn(K)
		if h.Event == EvWriteStall && !timeouts {
			h.TimeoutMs = 60 // the stalled Write ends at its deadline
		}
	}
	h.Wave2 = r.Intn(12)
	if p == Routing && r.Chance(50) {
		h.Wave2 = 4 + r.Intn(20)
	}
	if h.Proto <= 2 && r.Chance(8) && K <= 127 {
		h.Wave2 = 130 + r.Intn(40) // more follow-ups than the protocol has ids
	}
	h.LateInW2 = r.Chance(60)
	h.PushEvents = r.Chance(20)
	if r.Chance(3) {
		h.IdleMs = 1300
	}
	return h
}

// StallHist is the F-C01-1 scenario.
func StallHist(idx, proto int) *Hist {
	return &Hist{Index: idx, Proto: proto, TimeoutMs: 150, Stall: true, Fates: []Fate{FNever, FNever}, CModes: []CMode{CNone, CNone}}
}

// CoalCancelHist is one history of the coalescer-cancellation family (variant selects sizes and order).
func CoalCancelHist(idx, proto, variant int) *Hist {
	k := 4 + 3*(variant%3)
	h := &Hist{Index: idx, Proto: proto, Coalesce: true, CoalCancel: true, CoalesceMs: 40, CancelMs: 8 + 4*(variant%2),
		CancelN: 2 + variant%3, TimeoutMs: 5000, Order: node.Order(variant % 3), OrderSeed: uint64(17 + variant), Wave2: 6 + 2*(variant%3)}
	h.Fates = make([]Fate, k)
	h.CModes = make([]CMode, k)
	for i := range h.Fates {
		if i < h.CancelN {
			h.Fates[i] = FLate
			h.CModes[i] = CDeadline
		}
	}
	return h
}

// TempErrHist is one history of the temporary-read-error family.
func TempErrHist(idx, proto, nerr, cutClass, victim, callers int) *Hist {
	h := &Hist{Index: idx, Proto: proto, TimeoutMs: 5000, TempErr: true, TempErrN: nerr, CutClass: cutClass, Victim: victim,
		Coalesce: idx%2 == 0}
	h.Fates = make([]Fate, callers)
	h.CModes = make([]CMode, callers)
	return h
}

// TimeoutLimitHist is one history run with gocql.TimeoutLimit = limit (see RunAllLimit).
func TimeoutLimitHist(idx, proto, limit, callers, idleMs int) *Hist {
	h := &Hist{Index: idx, Proto: proto, TimeoutMs: 50, TimeoutLimit: limit, IdleMs: idleMs, WatchdogMs: 6000}
	h.Fates = make([]Fate, callers)
	h.CModes = make([]CMode, callers)
	for i := range h.Fates {
		h.Fates[i] = FNever
	}
	return h
}

// RunAllLimit runs a group of histories with the package variable gocql.TimeoutLimit set to limit.
func RunAllLimit(hs []*Hist, par, perturb int, limit int64) []*Report {
	old := gocql.TimeoutLimit
	gocql.TimeoutLimit = limit
	defer func() { gocql.TimeoutLimit = old }()
	return runAll(hs, par, perturb, false)
}

// WriteStallCancelHist: as CoalCancelHist, but the contexts expire while the Write that carries the frames is
// blocked on a slow link (coalescer: inside the flush; direct writer: the first caller inside Write, the others
// waiting for the writer's semaphore).
func WriteStallCancelHist(idx, proto, variant int, coalesce bool) *Hist {
	h := CoalCancelHist(idx, proto, variant)
	h.Coalesce = coalesce
	h.CoalesceMs = 5
	h.CancelMs = 25 + 5*(variant%2)
	h.WriteStallMs = 70
	return h
}

// HeartbeatErrHist: answers held for 1.3 s while the node answers the heartbeat's OPTIONS with an ERROR frame.
func HeartbeatErrHist(idx, proto, callers int) *Hist {
	h := &Hist{Index: idx, Proto: proto, TimeoutMs: 5000, HeartbeatErr: true, HoldMs: 1300, Order: node.Order(idx % 3), OrderSeed: 2, Wave2: 3}
	h.Fates = make([]Fate, callers)
	h.CModes = make([]CMode, callers)
	for i := range h.Fates {
		h.Fates[i] = FHeld
	}
	return h
}

// WrongVersionHist: every answer of the first wave carries another valid protocol version in its header.
func WrongVersionHist(idx, proto, callers int) *Hist {
	h := &Hist{Index: idx, Proto: proto, TimeoutMs: 5000, Order: node.Order(idx % 3), OrderSeed: 2, Wave2: 4}
	h.Fates = make([]Fate, callers)
	h.CModes = make([]CMode, callers)
	for i := range h.Fates {
		h.Fates[i] = FWrongVer
		if i%3 == 2 {
			h.Fates[i] = FOK
		}
	}
	return h
}

// CancelInBuildHist: n requests that cancel themselves inside frame building, on the direct writer.
func CancelInBuildHist(idx, proto, n int) *Hist {
	return &Hist{Index: idx, Proto: proto, TimeoutMs: 5000, Coalesce: false, CancelInBuild: n, Fates: []Fate{FOK, FOK, FOK}, CModes: []CMode{CNone, CNone, CNone}}
}

// FlagBodyHist: compress-flagged answer on a connection without compressor (variant 1..3, see Hist.FlagBody).
func FlagBodyHist(idx, proto, variant int) *Hist {
	return &Hist{Index: idx, Proto: proto, TimeoutMs: 5000, Coalesce: idx%2 == 0, FlagBody: variant,
		Fates: []Fate{FOK, FOK, FOK}, CModes: []CMode{CNone, CNone, CNone}}
}

// Term prints the report's logs as a Coq term of type C01.Corr.case.
func (rep *Report) Term() string {
	var logs []string
	for i, t := range rep.Traces {
		var sb strings.Builder
		fmt.Fprintf(&sb, "L %d [", t.Streams)
		prevKeys := map[int]bool{}
		for j, e := range t.Events {
			if j > 0 {
				sb.WriteString(";")
			}
			if e.Closed < 0 {
				fmt.Fprintf(&sb, "V %d %d %s %d %d", e.Kind, e.Call, hlib.Z(int64(e.A)), e.B, e.InUse)
				continue
			}
			// the key set as the difference to the previous trace point that held c.mu
			cur := map[int]bool{}
			var add, rem []int64
			for _, k := range e.Keys {
				cur[k] = true
				if !prevKeys[k] {
					add = append(add, int64(k))
				}
			}
			for k := range prevKeys {
				if !cur[k] {
					rem = append(rem, int64(k))
				}
			}
			sort.Slice(rem, func(a, b int) bool { return rem[a] < rem[b] })
			prevKeys = cur
			fmt.Fprintf(&sb, "E %d %d %s %d %s %d %s %s", e.Kind, e.Call, hlib.Z(int64(e.A)), e.B, hlib.Z(int64(e.Closed)), e.InUse, hlib.ZListI(add), hlib.ZListI(rem))
		}
		fmt.Fprintf(&sb, "] %s %s", hlib.Z(int64(rep.PrefixLen[i])), hlib.Z(int64(rep.Final[i])))
		logs = append(logs, sb.String())
	}
	// what every caller got (retained until the end of the history): request number, class, number seen
	var rs []string
	for _, r := range rep.Results {
		rs = append(rs, fmt.Sprintf("R %d %d %s", r.Num, ClassCode[r.Class], hlib.Z(int64(r.SeenN))))
	}
	return "CHist " + hlib.List(logs) + " " + hlib.List(rs)
}

// NEvents is the total number of recorded events.
func (rep *Report) NEvents() int {
	n := 0
	for _, t := range rep.Traces {
		n += len(t.Events)
	}
	return n
}

// RunAll runs the histories with bounded parallelism and returns the reports in order.
func RunAll(hs []*Hist, par, perturb int) []*Report { return runAll(hs, par, perturb, true) }

func runAll(hs []*Hist, par, perturb int, start bool) []*Report {
	if start {
		gocql.VerifConnTraceStart(perturb)
	}
	out := make([]*Report, len(hs))
	sem := make(chan struct{}, par)
	var wg sync.WaitGroup
	for i, h := range hs {
		wg.Add(1)
		sem <- struct{}{}
		go func(i int, h *Hist) {
			defer wg.Done()
			defer func() { <-sem }()
			out[i] = Run(h)
		}(i, h)
	}
	wg.Wait()
	return out
}

// Emit records the reports as cases and violations.
func Emit(o *hlib.Out, reps []*Report) {
	classes := map[string]int{}
	events, setupErrs, wall := 0, 0, int64(0)
	kindsOfEvents := map[int]int{}
	for _, rep := range reps {
		h := rep.Hist
		kind := "history"
		switch {
		case h.Stall:
			kind = "stall-midbody"
		case h.CoalCancel:
			kind = "coalescer-cancel"
		case h.TempErr:
			kind = "temp-read-error"
		case h.HeartbeatErr:
			kind = "heartbeat-error-frame"
		case h.CancelInBuild > 0:
			kind = "cancel-in-build"
		case h.FlagBody > 0:
			kind = "compress-flag-no-compressor"
		case h.TimeoutLimit > 0:
			kind = "timeout-limit"
		case h.Handshake != 0:
			kind = "handshake-failure"
		case h.Event != EvNone:
			kind = "fault-" + EventNames[h.Event]
		case h.TimeoutMs < 1000:
			kind = "timeouts"
		}
		if rep.SetupErr != "" {
			setupErrs++
			kind = "setup-failed"
		}
		idx := o.Case(kind, rep.NonTriv, rep.Term())
		for _, v := range rep.Viols {
			o.Violate(idx, v.Kind, v.Finding, v.Detail, h.String())
		}
		for k, v := range rep.Classes {
			classes[k] += v
		}
		for _, t := range rep.Traces {
			for _, e := range t.Events {
				kindsOfEvents[e.Kind]++
			}
		}
		events += rep.NEvents()
		wall += rep.WallMs
	}
	var notes []string
	for _, rep := range reps {
		if rep.Note != "" && len(notes) < 40 {
			notes = append(notes, fmt.Sprintf("hist %d: %s", rep.Hist.Index, rep.Note))
		}
	}
	o.Extra["scenario_notes"] = notes
	o.Extra["outcome_classes"] = classes
	o.Extra["events_replayed"] = events
	o.Extra["setup_failed"] = setupErrs
	var ks []int
	for k := range kindsOfEvents {
		ks = append(ks, k)
	}
	sort.Ints(ks)
	ek := map[string]int{}
	for _, k := range ks {
		ek[fmt.Sprintf("kind%02d", k)] = kindsOfEvents[k]
	}
	o.Extra["event_kinds"] = ek
	o.Extra["history_wall_ms_total"] = wall
}
