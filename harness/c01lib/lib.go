// Package c01lib: the history engine shared by the C01 and C06 harness programs.
//
// One history = one gocql.Session (one node, one pool connection) against a scripted in-memory node.
// Every request carries a unique token in its statement ("TRUNCATE tok_<h>_<i>": a statement the driver
// sends as a plain QUERY, without PREPARE); the node echoes the token as the single cell of a rows
// result or in the message of an ERROR frame. The engine scripts per-request fates on the server side
// (answer now / error frame / held and released in some order / late, after the caller gave up /
// never), per-caller behaviour (context cancelled before the call, while waiting, deadline), and one
// connection-level fault, then drives the history to quiescence and evaluates the monitors:
//
//	token        a caller that was handed a response or an error frame got its own token
//	outcome      every caller returned (watchdog), with an outcome of a documented class
//	streams      at quiescence on an open connection the number of reserved stream ids equals the number
//	             of requests the node received and never answered
//	observer     StreamObserver: at most one Finished/Abandoned per Started, none without Started,
//	             started - ended = reserved ids at quiescence
//	close        Conn.Close / Session.Close return under a watchdog and unblock every waiting caller
//
// and returns the recorded per-connection event logs (conn.go trace points) for the replay through the
// Coq model.
package c01lib

import (
	"context"
	"errors"
	"fmt"
	"io"
	"log"
	"runtime"
	"strings"
	"sync"
	"sync/atomic"
	"time"

	"github.com/gocql/gocql"
	"gocqlverif/hlib"
	"gocqlverif/node"
)

type Fate int

const (
	FOK       Fate = iota // answered at once with a rows result carrying the token
	FErr                  // answered at once with an ERROR frame carrying the token
	FHeld                 // held, released (in the history's order) while the caller still waits
	FLate                 // held, released after the caller has given up
	FNever                // never answered
	FWrongVer             // answered at once, but the frame header carries another (valid) protocol version
)

type CMode int

const (
	CNone         CMode = iota
	CCancelBefore       // context cancelled before the call
	CCancelWait         // context cancelled while the request is outstanding
	CDeadline           // context with a short deadline
)

type Event int

const (
	EvNone         Event = iota
	EvWriteFail          // a Write of a request frame accepts 3 bytes and fails
	EvCutS2C             // the client reads EOF after what the server has sent so far
	EvServerClose        // the node closes the connection
	EvClientClose        // Conn.Close() while requests are outstanding
	EvSessionClose       // Session.Close() while requests are outstanding
	EvWriteStall         // a Write stalls until its deadline
)

var EventNames = []string{"none", "writefail", "cut-s2c", "server-close", "client-close", "session-close", "write-stall"}

// Hist is the script of one history. Everything is decided up front from the seed.
type Hist struct {
	Index     int
	Proto     int
	Coalesce  bool
	TimeoutMs int // cfg.Timeout
	Fates     []Fate
	CModes    []CMode
	Order     node.Order
	OrderSeed uint64
	Event     Event
	EventArg  int  // EvWriteFail/EvWriteStall: which frame (ordinal among the token requests)
	Wave2     int  // sequential follow-up requests after the first wave
	LateInW2  bool // release the late answers in the middle of wave 2 (otherwise before it)
	Perturb   bool
	Stall     bool // the F-C01-1 scenario (mid-body stall across five read timeouts)
	// the coalescer-cancellation family: write coalescing with a window of CoalesceMs, the first CancelN
	// callers cancel their context CancelMs after calling (inside the window, after their frame was handed
	// to the flusher), their answers come late, and a second concurrent wave reuses stream ids meanwhile
	CoalCancel bool
	CoalesceMs int
	CancelMs   int
	CancelN    int
	// with WriteStallMs > 0 the client->server link stalls inside the first frame of the first wave for that long:
	// the contexts then expire DURING the Write call (after the flusher took the frames), not before it
	WriteStallMs int
	// the temporary-read-error family: the victim's response body is interrupted after CutClass (0: one
	// byte, 1: the middle, 2: all but the last byte) by TempErrN (1..4) temporary read errors, then goes on;
	// the responses of the other requests follow it on the wire. Everybody must get its own answer.
	TempErr  bool
	TempErrN int
	CutClass int
	Victim   int
	// gocql.TimeoutLimit for this history (set by RunAll around the group; the node stays silent)
	TimeoutLimit int
	WatchdogMs   int // caller / close watchdog (default 20000)
	// the node answers the heartbeat's OPTIONS on the pool connection with an ERROR frame while token requests
	// are held for HoldMs (> 1000: at least one heartbeat falls into the hold)
	HeartbeatErr bool
	HoldMs       int
	// CancelInBuild requests on the non-coalescing writer end their own context inside frame building (after
	// exec's entry check, before writeContext); then a plain request must complete and Conn.Close must unblock
	CancelInBuild int
	// FlagBody > 0: no compressor on the connection; the first request is answered with a compress-flagged frame
	// whose body is 1: a well-formed frame for another outstanding stream, 2: one for an idle stream, 3: garbage
	FlagBody   int
	PushEvents bool // the node pushes EVENT frames (stream -1) on the pool connection while requests are outstanding
	IdleMs     int  // stay idle this long before quiescence (> 1000: the heartbeat's OPTIONS exec appears in the logs)
	Handshake  int  // 0: normal; 1: node never answers STARTUP; 2: node closes during the handshake; 3: cut mid-header of SUPPORTED
}

func (h *Hist) wd() time.Duration {
	if h.WatchdogMs > 0 {
		return time.Duration(h.WatchdogMs) * time.Millisecond
	}
	return 20 * time.Second
}

func (h *Hist) String() string {
	return fmt.Sprintf("hist %d: proto=%d coalesce=%v timeout=%dms callers=%d fates=%v cmodes=%v order=%d event=%s/%d wave2=%d lateInW2=%v stall=%v handshake=%d",
		h.Index, h.Proto, h.Coalesce, h.TimeoutMs, len(h.Fates), h.Fates, h.CModes, h.Order, EventNames[h.Event], h.EventArg, h.Wave2, h.LateInW2, h.Stall, h.Handshake)
}

type Viol struct {
	Kind    string
	Finding string
	Detail  string
}

// CallerResult is what one caller observed.
type CallerResult struct {
	Token string // the caller's own token
	Class string // ok | errframe | timeout | ctx | connclosed | nostreams | nohosts | readerr | writeerr | other
	Seen  string // the token inside the response / error frame ("" if none)
	Err   string
	Num   int // the request number carried to exec in the context (index within the history + 1)
	SeenN int // the request number inside Seen (-1: nothing seen, -2: not a token of this history)
}

type Report struct {
	Hist      *Hist
	Results   []CallerResult
	Traces    []gocql.VerifConnTrace
	Final     []int // per trace: observed in-use count at quiescence, -1 if not observed
	PrefixLen []int // per trace: number of events recorded when Final was observed (-1: none)
	Viols     []Viol
	SetupErr  string
	Leaked    int // requests received and never answered on the open pool connection
	Note      string
	WallMs    int64
	Classes   map[string]int
	NonTriv   bool
	observers *obsSet
}

// ---------------------------------------------------------------------------------------------

type obsCtx struct {
	set                          *obsSet
	started, finished, abandoned int32
}

func (o *obsCtx) StreamStarted(gocql.ObservedStream)   { atomic.AddInt32(&o.started, 1) }
func (o *obsCtx) StreamFinished(gocql.ObservedStream)  { atomic.AddInt32(&o.finished, 1) }
func (o *obsCtx) StreamAbandoned(gocql.ObservedStream) { atomic.AddInt32(&o.abandoned, 1) }

type obsSet struct {
	mu   sync.Mutex
	ctxs []*obsCtx
}

func (s *obsSet) StreamContext(ctx context.Context) gocql.StreamObserverContext {
	c := &obsCtx{set: s}
	s.mu.Lock()
	s.ctxs = append(s.ctxs, c)
	s.mu.Unlock()
	return c
}

// totals: started, ended, and anomalies (ended twice, ended without start, started twice)
func (s *obsSet) totals() (started, ended int, anomalies []string) {
	s.mu.Lock()
	defer s.mu.Unlock()
	for i, c := range s.ctxs {
		st, fi, ab := atomic.LoadInt32(&c.started), atomic.LoadInt32(&c.finished), atomic.LoadInt32(&c.abandoned)
		started += int(st)
		ended += int(fi + ab)
		if st > 1 {
			anomalies = append(anomalies, fmt.Sprintf("stream context %d: started %d times", i, st))
		}
		if fi+ab > 1 {
			anomalies = append(anomalies, fmt.Sprintf("stream context %d: finished %d + abandoned %d", i, fi, ab))
		}
		if fi+ab > 0 && st == 0 {
			anomalies = append(anomalies, fmt.Sprintf("stream context %d: ended (finished %d, abandoned %d) but never started", i, fi, ab))
		}
	}
	return
}

// ---------------------------------------------------------------------------------------------

const stmtPrefix = "TRUNCATE "

func tokenOf(h, i int) string { return fmt.Sprintf("tok_%04d_%04d", h, i) }

// numOf is the request number (index + 1) of token s if s is a token of the same history as own, else -2.
func numOf(s, own string) int {
	var h, i, ho, io int
	if n, _ := fmt.Sscanf(own, "tok_%04d_%04d", &ho, &io); n != 2 {
		return -2
	}
	if n, _ := fmt.Sscanf(s, "tok_%04d_%04d", &h, &i); n != 2 || h != ho || s != tokenOf(h, i) {
		return -2
	}
	return i + 1
}

// ClassCode is the number of an outcome class in C01/Corr.v (result).
var ClassCode = map[string]int{"ok": 0, "errframe": 1, "timeout": 2, "ctx": 3, "connclosed": 4, "nostreams": 5, "nohosts": 6,
	"readerr": 7, "writeerr": 8, "other": 9, "ok-empty": 10, "protoerr": 11}

func rowsFor(tok string) node.Rows {
	return node.Rows{Keyspace: "ks", Table: "t", GlobalSpec: true,
		Columns: []node.Column{node.Col("tok", node.Varchar)}, Rows: [][][]byte{{node.TextV(tok)}}}
}

type run struct {
	h  *Hist
	n  *node.Net
	nd *node.Node

	mu       sync.Mutex
	received map[string]*node.Request // token -> request as the node saw it
	held     map[string]*node.Held    // token -> parked answer
	heldSeq  []string                 // tokens in arrival order (FHeld)
	lateSeq  []string                 // tokens in arrival order (FLate)
	fates    map[string]Fate
	fd       *faultDialer
	poolSC   *node.ServerConn // the pool connection, once the session is up
	silent   bool             // the node no longer answers anything on the pool connection (TimeoutLimit histories)
	heldDone bool             // the held answers have been released: a held request arriving later is answered at once
	lateDone bool             // likewise for the late answers
}

func (r *run) handler(c *node.ServerConn, req *node.Request) {
	r.mu.Lock()
	silent := r.silent
	r.mu.Unlock()
	if silent {
		r.mu.Lock()
		if req.Query != nil && strings.HasPrefix(req.Query.Statement, stmtPrefix+"tok_") {
			r.received[strings.TrimPrefix(req.Query.Statement, stmtPrefix)] = req
		}
		r.mu.Unlock()
		return
	}
	if r.h.HeartbeatErr && req.Op() == node.OpOptions {
		r.mu.Lock()
		isPool := r.poolSC != nil && c == r.poolSC
		r.mu.Unlock()
		if isPool {
			// the heartbeat's OPTIONS is answered with an ERROR frame: it belongs to the heartbeat alone
			c.Reply(req, node.Error{Code: node.ErrOverloaded, Message: "heartbeat-marker: this error answers the OPTIONS ping"})
			return
		}
	}
	if req.Query == nil || !strings.HasPrefix(req.Query.Statement, stmtPrefix+"tok_") {
		if r.h.Handshake == 1 && req.Startup != nil {
			return // never answered
		}
		if r.h.Handshake == 2 && req.Startup != nil {
			c.Close()
			return
		}
		r.nd.Default(c, req)
		return
	}
	tok := strings.TrimPrefix(req.Query.Statement, stmtPrefix)
	r.mu.Lock()
	fate, ok := r.fates[tok]
	r.received[tok] = req
	r.mu.Unlock()
	if !ok {
		fate = FOK
	}
	switch fate {
	case FOK:
		c.Reply(req, rowsFor(tok))
	case FErr:
		c.Reply(req, node.Error{Code: node.ErrInvalid, Message: tok})
	case FWrongVer:
		// same header size, other version: exec must refuse the frame and still give the stream id back
		other := map[int]int{1: 2, 2: 1, 3: 4, 4: 3, 5: 4}[r.h.Proto]
		c.Reply(req, node.Envelope{Msg: rowsFor(tok), Version: 0x80 | byte(other)})
	case FHeld, FLate:
		// the decision and the parking are one critical section with the scripted release
		r.mu.Lock()
		now := (fate == FHeld && r.heldDone) || (fate == FLate && r.lateDone)
		if !now {
			r.held[tok] = c.Hold(req, rowsFor(tok))
			if fate == FHeld {
				r.heldSeq = append(r.heldSeq, tok)
			} else {
				r.lateSeq = append(r.lateSeq, tok)
			}
		}
		r.mu.Unlock()
		if now {
			c.Reply(req, rowsFor(tok))
		}
	case FNever:
	}
}

func order(toks []string, o node.Order, seed uint64) []string {
	out := append([]string(nil), toks...)
	switch o {
	case node.LIFO:
		for i, j := 0, len(out)-1; i < j; i, j = i+1, j-1 {
			out[i], out[j] = out[j], out[i]
		}
	case node.Shuffle:
		rng := hlib.NewRng(seed)
		for i := len(out) - 1; i > 0; i-- {
			j := rng.Intn(i + 1)
			out[i], out[j] = out[j], out[i]
		}
	}
	return out
}

func (r *run) release(toks []string) {
	for _, t := range toks {
		r.mu.Lock()
		hd := r.held[t]
		delete(r.held, t)
		r.mu.Unlock()
		if hd != nil {
			hd.Release()
		}
	}
}

func classify(err error) string {
	switch {
	case err == nil:
		return "ok"
	case errors.Is(err, gocql.ErrTimeoutNoResponse):
		return "timeout"
	case errors.Is(err, context.Canceled), errors.Is(err, context.DeadlineExceeded):
		return "ctx"
	case errors.Is(err, gocql.ErrConnectionClosed):
		return "connclosed"
	case errors.Is(err, gocql.ErrNoStreams):
		return "nostreams"
	case errors.Is(err, gocql.ErrNoConnections), errors.Is(err, gocql.ErrSessionClosed):
		return "nohosts"
	}
	if _, ok := err.(gocql.RequestError); ok {
		return "errframe"
	}
	s := err.Error()
	switch {
	case strings.Contains(s, "unexpected protocol version in response"):
		return "protoerr"
	case strings.Contains(s, "unable to read frame body"), strings.Contains(s, "no compressor available"):
		return "readerr"
	case strings.Contains(s, "injected"), strings.Contains(s, "i/o timeout"), strings.Contains(s, "closed pipe"), strings.Contains(s, "broken pipe"),
		strings.Contains(s, "use of closed"), errors.Is(err, io.EOF), strings.Contains(s, "EOF"):
		return "writeerr"
	case strings.Contains(s, "no hosts available"), strings.Contains(s, "no connections"):
		return "nohosts"
	}
	return "other"
}

// one request through the public API
func doQuery(s *gocql.Session, ctx context.Context, tok string) (res CallerResult) {
	res = CallerResult{Token: tok, Num: numOf(tok, tok), SeenN: -1}
	defer func() {
		if res.Seen != "" {
			res.SeenN = numOf(res.Seen, tok)
		}
	}()
	if ctx == nil {
		ctx = context.Background()
	}
	q := s.Query(stmtPrefix + tok).WithContext(gocql.VerifWithToken(ctx, res.Num))
	iter := q.Iter()
	var cell string
	got := iter.Scan(&cell)
	err := iter.Close()
	res.Class = classify(err)
	if err != nil {
		res.Err = err.Error()
		if re, ok := err.(gocql.RequestError); ok {
			res.Seen = re.Message()
		}
		return res
	}
	if got {
		res.Seen = cell
	} else {
		res.Class = "ok-empty"
	}
	return res
}

func watchdog(d time.Duration, fn func()) bool {
	done := make(chan struct{})
	go func() { fn(); close(done) }()
	select {
	case <-done:
		return true
	case <-time.After(d):
		return false
	}
}

func goroutineDump() string {
	buf := make([]byte, 1<<20)
	n := runtime.Stack(buf, true)
	s := string(buf[:n])
	if len(s) > 6000 {
		s = s[:6000]
	}
	return s
}

// Run executes one history.
func Run(h *Hist) *Report {
	t0 := time.Now()
	rep := &Report{Hist: h, Classes: map[string]int{}}
	defer func() { rep.WallMs = time.Since(t0).Milliseconds() }()
	viol := func(kind, finding, format string, a ...interface{}) {
		rep.Viols = append(rep.Viols, Viol{kind, finding, h.String() + ": " + fmt.Sprintf(format, a...)})
	}

	n := node.NewNet()
	defer n.Close()
	nd := n.AddNode("10.0.0.1:9042")
	r := &run{h: h, n: n, nd: nd, received: map[string]*node.Request{}, held: map[string]*node.Held{}, fates: map[string]Fate{}}
	for i, f := range h.Fates {
		r.fates[tokenOf(h.Index, i)] = f
	}
	nd.SetHandler(r.handler)
	if h.Handshake == 3 {
		nd.OnConnect(func(c *node.ServerConn) { c.Link().S2C.CutAt(4, nil) })
	}

	obs := &obsSet{}
	rep.observers = obs
	cfg := gocql.NewCluster("10.0.0.1")
	d := n.Dialer()
	d.DisableCoalesce = !h.Coalesce
	cfg.HostDialer = d
	if h.TempErr {
		r.fd = &faultDialer{inner: d}
		cfg.HostDialer = r.fd
	}
	cfg.ProtoVersion = h.Proto
	cfg.Timeout = time.Duration(h.TimeoutMs) * time.Millisecond
	cfg.ConnectTimeout = 3 * time.Second
	if h.Handshake != 0 {
		cfg.ConnectTimeout = 150 * time.Millisecond
	}
	cfg.NumConns = 1
	cfg.Consistency = gocql.One
	cfg.RetryPolicy = &gocql.SimpleRetryPolicy{NumRetries: 0}
	cfg.DisableInitialHostLookup = true
	cfg.ReconnectInterval = 0
	cfg.StreamObserver = obs
	cfg.Logger = log.New(io.Discard, "", 0)
	if !h.Coalesce {
		cfg.WriteCoalesceWaitTime = 0
	} else if h.CoalesceMs > 0 {
		cfg.WriteCoalesceWaitTime = time.Duration(h.CoalesceMs) * time.Millisecond
	}

	var s *gocql.Session
	var err error
	if h.Handshake != 0 {
		// the session must fail to come up, and must do so in bounded time
		ok := watchdog(20*time.Second, func() { s, err = gocql.NewSession(*cfg) })
		if !ok {
			viol("handshake-hang", "", "NewSession did not return within 20s\n%s", goroutineDump())
			return rep
		}
		if err == nil {
			viol("handshake-accepted", "", "NewSession succeeded although the handshake was sabotaged")
			s.Close()
			return rep
		}
		rep.Note = "handshake failure: " + err.Error()
		rep.NonTriv = true
		// the connections of the failed NewSession are found by the in-memory network they ran over; their
		// logs (startup coordinator's own receive loop, exec of OPTIONS/STARTUP, the closing) are replayed too
		time.Sleep(20 * time.Millisecond)
		rep.Traces = gocql.VerifConnTracesOf(func(c *gocql.Conn) bool {
			nc := gocql.VerifConnNetConn(c)
			for _, l := range n.Links() {
				if l.Client() == nc {
					return true
				}
			}
			return false
		}, true)
		for range rep.Traces {
			rep.Final = append(rep.Final, -1)
			rep.PrefixLen = append(rep.PrefixLen, -1)
		}
		return rep
	}
	for attempt := 0; attempt < 3; attempt++ {
		s, err = gocql.NewSession(*cfg)
		if err == nil {
			break
		}
	}
	if err != nil {
		rep.SetupErr = err.Error()
		viol("setup", "", "NewSession against a healthy node failed three times: %v", err)
		return rep
	}
	sessionClosed := false
	closeSession := func() {
		if sessionClosed {
			return
		}
		sessionClosed = true
		if !watchdog(20*time.Second, s.Close) {
			viol("close-hang", "", "Session.Close did not return within its watchdog\n%s", goroutineDump())
		}
	}
	defer closeSession()

	if !nd.WaitOpenConns(2, 3*time.Second) {
		rep.SetupErr = "pool connection did not come up"
		viol("setup", "", "the pool connection to a healthy node did not come up within 3s")
		return rep
	}
	pool := nd.Conns()[len(nd.Conns())-1]
	r.mu.Lock()
	r.poolSC = pool
	r.mu.Unlock()
	var poolConn *gocql.Conn
	conns, isCtl := gocql.VerifConnList(s)
	for i, c := range conns {
		if !isCtl[i] {
			poolConn = c
		}
	}
	if poolConn == nil {
		rep.SetupErr = "pool connection not found in the recorder"
		return rep
	}

	if h.Stall {
		r.stallScenario(s, pool, rep, viol)
	} else if h.CoalCancel {
		r.coalCancelScenario(s, pool, rep, viol)
	} else if h.CancelInBuild > 0 {
		r.cancelInBuildScenario(s, pool, poolConn, rep, viol)
	} else if h.FlagBody > 0 {
		r.flagBodyScenario(s, pool, rep, viol)
	} else if h.TempErr {
		r.tempErrScenario(s, pool, rep, viol)
	} else if h.TimeoutLimit > 0 {
		r.timeoutLimitScenario(s, pool, rep, viol)
	} else {
		r.waves(s, pool, poolConn, rep, viol, closeSession)
	}

	if h.IdleMs > 0 && !sessionClosed && h.TimeoutLimit == 0 {
		time.Sleep(time.Duration(h.IdleMs) * time.Millisecond)
	}

	// ---- quiescence --------------------------------------------------------------------------
	leaked := 0
	r.mu.Lock()
	for tok, req := range r.received {
		if r.fates[tok] == FNever && req.Conn == pool {
			leaked++
		}
	}
	r.mu.Unlock()
	rep.Leaked = leaked
	if !sessionClosed && !poolConn.Closed() && pool.Open() {
		// everything the node sent has been consumed, then the count settles
		deadline := time.Now().Add(5 * time.Second)
		for time.Now().Before(deadline) {
			if pool.Link().S2C.Consumed() == pool.Link().S2C.Written() && gocql.VerifConnInUse(poolConn) == leaked {
				break
			}
			time.Sleep(2 * time.Millisecond)
		}
		if !poolConn.Closed() {
			if got := gocql.VerifConnInUse(poolConn); got != leaked {
				viol("streams-at-quiescence", "", "open connection at quiescence has %d stream ids reserved; the node received and never answered %d requests (AvailableStreams=%d)",
					got, leaked, poolConn.AvailableStreams())
			}
			st, en, anom := obs.totals()
			for _, a := range anom {
				viol("observer", "", "%s", a)
			}
			// every connection of the session: started - ended = ids still reserved (control connection: 0)
			if st-en != leaked && len(anom) == 0 {
				// a heartbeat may be in flight on either connection: the count has to settle, not to be
				// right at one instant (no verdict depends on the machine's speed)
				for dl := time.Now().Add(3 * time.Second); st-en != leaked && time.Now().Before(dl); {
					time.Sleep(10 * time.Millisecond)
					st, en, _ = obs.totals()
				}
				if st-en != leaked {
					viol("observer", "", "StreamObserver at quiescence: started %d, ended %d, but %d ids are legitimately reserved", st, en, leaked)
				}
			}
		}
	} else {
		_, _, anom := obs.totals()
		for _, a := range anom {
			viol("observer", "", "%s", a)
		}
	}

	// ---- snapshot of the logs ------------------------------------------------------------------
	var traces []gocql.VerifConnTrace
	final := map[*gocql.Conn]int{}
	for try := 0; try < 5; try++ {
		t1 := gocql.VerifConnTraces(s, false)
		cur := map[*gocql.Conn]int{}
		for _, t := range t1 {
			// only the pool connection was driven to quiescence by the script; the control connection and
			// connections being re-dialled may be in the middle of a request
			if !sessionClosed && !t.Conn.Closed() && t.Conn == poolConn {
				cur[t.Conn] = gocql.VerifConnInUse(t.Conn)
			} else {
				cur[t.Conn] = -1
			}
		}
		t2 := gocql.VerifConnTraces(s, false)
		same := len(t1) == len(t2)
		for i := range t1 {
			if same && len(t1[i].Events) != len(t2[i].Events) {
				same = false
			}
		}
		traces, final = t2, cur
		if same {
			break
		}
		if try == 4 {
			for c := range final {
				final[c] = -1
			}
		}
		time.Sleep(5 * time.Millisecond)
	}
	for _, t := range traces {
		if t.Conn.Closed() {
			final[t.Conn] = -1
		}
	}
	closeSession()
	// after Session.Close: the full logs (the close itself is part of them); the in-use count observed
	// at quiescence refers to the prefix of the log that existed then
	rep.Traces = gocql.VerifConnTraces(s, true)
	for _, t := range rep.Traces {
		f, pl := -1, -1
		for _, t0 := range traces {
			if t0.Conn == t.Conn && final[t0.Conn] >= 0 {
				f, pl = final[t0.Conn], len(t0.Events)
			}
		}
		rep.Final = append(rep.Final, f)
		rep.PrefixLen = append(rep.PrefixLen, pl)
	}
	// every frame the node received whole on the pool connection was written by a write that exec was told
	// succeeded (or that is still in progress): a request on the wire that the driver believes unwritten
	// keeps no stream id reserved for its answer
	for _, t := range rep.Traces {
		if t.Conn != poolConn {
			continue
		}
		streamOf := map[int]int{}
		allowed := map[int]int{}
		for _, e := range t.Events {
			switch e.Kind {
			case 1: // vcAlloc
				streamOf[e.Call] = e.A
			case 6: // vcWriteBegin
				allowed[streamOf[e.Call]]++
			case 7: // vcWriteEnd
				if e.A != 0 {
					allowed[streamOf[e.Call]]--
				}
			}
		}
		// frames that arrived after a torn write are not comparable (the byte stream is out of step there)
		cutoff := int64(-1)
		for _, w := range pool.Link().C2S.Writes() {
			if w.Err != nil || w.N < w.Len {
				cutoff = w.Offset + int64(w.N)
				break
			}
		}
		got := map[int]int{}
		for _, rq := range pool.Requests() {
			if rq.ParseErr == nil && (cutoff < 0 || rq.Offset+int64(len(rq.Raw)) <= cutoff) {
				got[rq.Header.Stream]++
			}
		}
		for sid, k := range got {
			if k > allowed[sid] {
				viol("unwritten-request-on-wire", "", "the node received %d complete request frame(s) on stream %d of the pool connection, but only %d write(s) on that stream were reported to exec as successful: a frame the driver treats as never written (stream id released) reached the server", k, sid, allowed[sid])
			}
		}
	}
	if !n.WaitFor(3*time.Second, func() bool { return n.OpenConns() == 0 }) {
		viol("close-leaves-connections", "", "after Session.Close %d connections are still open", n.OpenConns())
	}
	return rep
}
