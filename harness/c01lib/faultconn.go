package c01lib

import (
	"context"
	"net"
	"sync"
	"time"

	"github.com/gocql/gocql"
)

// faultConn wraps the net.Conn the driver reads from: on request it makes the next Read calls return a
// temporary net.Error (like a read-deadline expiry) without consuming anything, a number of times, and
// then goes on delivering the byte stream unchanged. This is the non-fatal case of a stall inside a frame
// body: Conn.Read retries and must continue where it stopped.
type faultConn struct {
	net.Conn
	mu     sync.Mutex
	target int // temporary errors to return in the current stall (real deadline expirations included)
	count  int
}

type tempErr struct{}

func (tempErr) Error() string   { return "injected: temporary read error" }
func (tempErr) Timeout() bool   { return true }
func (tempErr) Temporary() bool { return true }

func (f *faultConn) Read(p []byte) (int, error) {
	f.mu.Lock()
	if f.count < f.target && f.count > 0 {
		// the stall has begun (the kick got through): the remaining errors come without waiting
		f.count++
		f.mu.Unlock()
		return 0, &net.OpError{Op: "read", Net: "tcp", Err: tempErr{}}
	}
	f.mu.Unlock()
	n, err := f.Conn.Read(p)
	if ne, ok := err.(net.Error); ok && ne.Timeout() && n == 0 {
		f.mu.Lock()
		if f.target > 0 {
			f.count++
		}
		f.mu.Unlock()
	}
	return n, err
}

func (f *faultConn) stalls() int { f.mu.Lock(); defer f.mu.Unlock(); return f.count }

// stall makes the Read that is blocked right now (and the following ones) fail n times in all with a
// temporary error. It returns false if the blocked Read could not be interrupted in time.
func (f *faultConn) stall(n int) bool {
	f.mu.Lock()
	f.target, f.count = n, 0
	f.mu.Unlock()
	for dl := time.Now().Add(3 * time.Second); time.Now().Before(dl); {
		f.Conn.SetReadDeadline(time.Now()) // expires the deadline of the Read in progress
		for i := 0; i < 10; i++ {
			if f.stalls() >= 1 {
				return true
			}
			time.Sleep(500 * time.Microsecond)
		}
	}
	return false
}

// faultDialer hands the driver faultConns and remembers them by the connection they wrap.
type faultDialer struct {
	inner gocql.HostDialer
	mu    sync.Mutex
	conns map[net.Conn]*faultConn
}

func (d *faultDialer) DialHost(ctx context.Context, host *gocql.HostInfo) (*gocql.DialedHost, error) {
	dh, err := d.inner.DialHost(ctx, host)
	if err != nil {
		return dh, err
	}
	fc := &faultConn{Conn: dh.Conn}
	d.mu.Lock()
	if d.conns == nil {
		d.conns = map[net.Conn]*faultConn{}
	}
	d.conns[dh.Conn] = fc
	d.mu.Unlock()
	dh.Conn = fc
	return dh, nil
}

func (d *faultDialer) of(c net.Conn) *faultConn { d.mu.Lock(); defer d.mu.Unlock(); return d.conns[c] }
