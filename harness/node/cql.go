package node

import (
	"strconv"
	"strings"
)

// A deliberately small reader of CQL text: enough to recognise the statements the driver issues by
// itself and the simple shapes tests use (SELECT cols FROM t WHERE c = x AND ..., INSERT INTO t
// (cols) VALUES (...), UPDATE/DELETE ... WHERE c = ?, USE ks). Everything else is "unknown".

type tokKind int

const (
	tkIdent tokKind = iota
	tkString
	tkNumber
	tkPunct
	tkMarker // ? or :name
)

type token struct {
	kind tokKind
	text string // identifiers lower-cased unless quoted; strings without quotes
}

func tokenize(s string) []token {
	var out []token
	i := 0
	for i < len(s) {
		c := s[i]
		switch {
		case c == ' ' || c == '\t' || c == '\n' || c == '\r':
			i++
		case c == '\'':
			j := i + 1
			var sb strings.Builder
			for j < len(s) {
				if s[j] == '\'' {
					if j+1 < len(s) && s[j+1] == '\'' {
						sb.WriteByte('\'')
						j += 2
						continue
					}
					break
				}
				sb.WriteByte(s[j])
				j++
			}
			out = append(out, token{tkString, sb.String()})
			i = j + 1
		case c == '"':
			j := strings.IndexByte(s[i+1:], '"')
			if j < 0 {
				j = len(s) - i - 1
			}
			name := s[i+1 : i+1+j]
			i += j + 2
			// quoted identifier possibly followed by .part
			out = append(out, token{tkIdent, name})
		case c == '?':
			out = append(out, token{tkMarker, ""})
			i++
		case c == ':' && i+1 < len(s) && isIdentStart(s[i+1]):
			j := i + 1
			for j < len(s) && isIdentChar(s[j]) {
				j++
			}
			out = append(out, token{tkMarker, strings.ToLower(s[i+1 : j])})
			i = j
		case isIdentStart(c):
			j := i
			for j < len(s) && isIdentChar(s[j]) {
				j++
			}
			out = append(out, token{tkIdent, strings.ToLower(s[i:j])})
			i = j
		case c >= '0' && c <= '9' || (c == '-' && i+1 < len(s) && s[i+1] >= '0' && s[i+1] <= '9'):
			j := i + 1
			for j < len(s) && (s[j] >= '0' && s[j] <= '9' || s[j] == '.') {
				j++
			}
			out = append(out, token{tkNumber, s[i:j]})
			i = j
		case (c == '<' || c == '>' || c == '!') && i+1 < len(s) && s[i+1] == '=':
			out = append(out, token{tkPunct, s[i : i+2]})
			i += 2
		default:
			out = append(out, token{tkPunct, string(c)})
			i++
		}
	}
	// join ident . ident into one dotted identifier
	var joined []token
	for k := 0; k < len(out); k++ {
		t := out[k]
		for t.kind == tkIdent && k+2 < len(out) && out[k+1].kind == tkPunct && out[k+1].text == "." && out[k+2].kind == tkIdent {
			t.text += "." + out[k+2].text
			k += 2
		}
		joined = append(joined, t)
	}
	return joined
}

func isIdentStart(c byte) bool { return c == '_' || c >= 'a' && c <= 'z' || c >= 'A' && c <= 'Z' }
func isIdentChar(c byte) bool  { return isIdentStart(c) || c >= '0' && c <= '9' }

func (t token) is(kind tokKind, text string) bool { return t.kind == kind && t.text == text }
func (t token) kw(word string) bool               { return t.kind == tkIdent && t.text == word }

// cond is one "column op operand" of a WHERE clause; only "=" conditions filter rows.
type cond struct {
	col    string
	op     string
	marker int    // index of the bind marker, -1 if a literal
	lit    string // literal text
	isStr  bool   // literal was a quoted string
}

// stmtInfo is what the default handler knows about a statement.
type stmtInfo struct {
	verb  string   // first keyword, lower case: select, insert, update, delete, use, begin, create, ...
	table string   // "ks.table" or "table" as written (lower-cased unless quoted), "" if none found
	cols  []string // SELECT: projected columns (nil with star); INSERT: the column list
	star  bool
	count bool // SELECT count(*)
	conds []cond
	// markers: one entry per bind marker, in order: the column it binds ("[limit]", "[ttl]",
	// "[timestamp]" for those clauses, "" if unknown)
	markers     []string
	limit       int // literal LIMIT, 0 if none
	limitMarker int // marker index of LIMIT ?, -1 if none
	selectOK    bool
}

func analyze(stmt string) *stmtInfo {
	toks := tokenize(stmt)
	si := &stmtInfo{limitMarker: -1}
	if len(toks) == 0 || toks[0].kind != tkIdent {
		return si
	}
	si.verb = toks[0].text
	// markers first: a generic backward scan that works for every statement kind
	for i, t := range toks {
		if t.kind != tkMarker {
			continue
		}
		name := markerColumn(toks, i)
		if name == "" {
			name = t.text // ":name" markers bind under their own name
		}
		si.markers = append(si.markers, name)
	}
	switch si.verb {
	case "use":
		if len(toks) > 1 && toks[1].kind == tkIdent {
			si.table = toks[1].text
		}
	case "select":
		parseSelect(toks, si)
	case "insert":
		parseInsert(toks, si)
	case "update":
		if len(toks) > 1 && toks[1].kind == tkIdent {
			si.table = toks[1].text
		}
		parseWhere(toks, si)
	case "delete":
		for i, t := range toks {
			if t.kw("from") && i+1 < len(toks) {
				si.table = toks[i+1].text
				break
			}
		}
		parseWhere(toks, si)
	}
	return si
}

func markerIndex(toks []token, pos int) int {
	n := 0
	for i := 0; i < pos; i++ {
		if toks[i].kind == tkMarker {
			n++
		}
	}
	return n
}

// markerColumn guesses which column the marker at toks[pos] binds.
func markerColumn(toks []token, pos int) string {
	if pos == 0 {
		return ""
	}
	p := toks[pos-1]
	switch {
	case p.kw("limit"):
		return "[limit]"
	case p.kw("ttl"):
		return "[ttl]"
	case p.kw("timestamp"):
		return "[timestamp]"
	case p.kw("in") || p.kw("contains"):
		if pos >= 2 && toks[pos-2].kind == tkIdent {
			return toks[pos-2].text
		}
	case p.kind == tkPunct && (p.text == "=" || p.text == "<" || p.text == ">" || p.text == "<=" || p.text == ">=" || p.text == "!=" || p.text == "+" || p.text == "-"):
		// walk back to the identifier on the left of the nearest comparison
		for j := pos - 2; j >= 0; j-- {
			if toks[j].kind == tkIdent && !toks[j].kw("and") && !toks[j].kw("where") && !toks[j].kw("set") && !toks[j].kw("if") {
				// "c = c + ?" : take the leftmost identifier of the assignment
				if j >= 2 && toks[j-1].is(tkPunct, "=") && toks[j-2].kind == tkIdent {
					return toks[j-2].text
				}
				return toks[j].text
			}
			if toks[j].kind == tkPunct && (toks[j].text == "," || toks[j].text == "(") {
				break
			}
		}
	case p.kind == tkPunct && (p.text == "(" || p.text == ","):
		// IN (?, ?) or VALUES (?, ?): INSERT is resolved by parseInsert; here handle IN
		depth := 0
		for j := pos - 1; j >= 0; j-- {
			if toks[j].is(tkPunct, ")") {
				depth++
			}
			if toks[j].is(tkPunct, "(") {
				if depth == 0 {
					if j >= 2 && toks[j-1].kw("in") && toks[j-2].kind == tkIdent {
						return toks[j-2].text
					}
					break
				}
				depth--
			}
		}
	}
	return ""
}

func parseSelect(toks []token, si *stmtInfo) {
	i := 1
	if i < len(toks) && (toks[i].kw("distinct") || toks[i].kw("json")) {
		i++
	}
	ok := true
	// projection
	for i < len(toks) && !toks[i].kw("from") {
		t := toks[i]
		switch {
		case t.is(tkPunct, "*"):
			si.star = true
			i++
		case t.kw("count") && i+3 < len(toks) && toks[i+1].is(tkPunct, "(") && toks[i+3].is(tkPunct, ")"):
			si.count = true
			i += 4
		case t.kind == tkIdent:
			if i+1 < len(toks) && toks[i+1].is(tkPunct, "(") {
				ok = false // function call: not understood
			}
			si.cols = append(si.cols, t.text)
			i++
			if i+1 < len(toks) && toks[i].kw("as") {
				i += 2
			}
		case t.is(tkPunct, ","):
			i++
		default:
			ok = false
			i++
		}
	}
	if i+1 >= len(toks) || toks[i+1].kind != tkIdent {
		return
	}
	si.table = toks[i+1].text
	si.selectOK = ok && (si.star || si.count || len(si.cols) > 0)
	parseWhere(toks, si)
	for j := i; j+1 < len(toks); j++ {
		if toks[j].kw("limit") {
			if toks[j+1].kind == tkNumber {
				si.limit, _ = strconv.Atoi(toks[j+1].text)
			} else if toks[j+1].kind == tkMarker {
				si.limitMarker = markerIndex(toks, j+1)
			}
		}
	}
}

func parseWhere(toks []token, si *stmtInfo) {
	start := -1
	for i, t := range toks {
		if t.kw("where") {
			start = i + 1
			break
		}
	}
	if start < 0 {
		return
	}
	for i := start; i+2 < len(toks); i++ {
		t := toks[i]
		if t.kw("limit") || t.kw("allow") || t.kw("order") || t.kw("if") || t.kw("group") {
			break
		}
		if t.kind != tkIdent || t.kw("and") {
			continue
		}
		op := toks[i+1]
		if op.kind != tkPunct && !op.kw("in") {
			continue
		}
		c := cond{col: t.text, op: op.text, marker: -1}
		v := toks[i+2]
		switch v.kind {
		case tkMarker:
			c.marker = markerIndex(toks, i+2)
		case tkString:
			c.lit, c.isStr = v.text, true
		case tkNumber, tkIdent:
			c.lit = v.text
		default:
			continue
		}
		si.conds = append(si.conds, c)
		i += 2
	}
}

func parseInsert(toks []token, si *stmtInfo) {
	// insert into T ( c1, c2 ) values ( v1, v2 )
	i := 1
	if i < len(toks) && toks[i].kw("into") {
		i++
	}
	if i >= len(toks) || toks[i].kind != tkIdent {
		return
	}
	si.table = toks[i].text
	i++
	if i >= len(toks) || !toks[i].is(tkPunct, "(") {
		return
	}
	i++
	for i < len(toks) && !toks[i].is(tkPunct, ")") {
		if toks[i].kind == tkIdent {
			si.cols = append(si.cols, toks[i].text)
		}
		i++
	}
	for i < len(toks) && !toks[i].kw("values") {
		i++
	}
	i++
	if i >= len(toks) || !toks[i].is(tkPunct, "(") {
		return
	}
	i++
	// walk the value list at depth 0, one entry per comma
	col, depth := 0, 0
	for ; i < len(toks); i++ {
		t := toks[i]
		switch {
		case t.is(tkPunct, "(") || t.is(tkPunct, "[") || t.is(tkPunct, "{"):
			depth++
		case t.is(tkPunct, ")") || t.is(tkPunct, "]") || t.is(tkPunct, "}"):
			if depth == 0 {
				return
			}
			depth--
		case t.is(tkPunct, ",") && depth == 0:
			col++
		case t.kind == tkMarker && depth == 0:
			if m := markerIndex(toks, i); m < len(si.markers) && col < len(si.cols) {
				si.markers[m] = si.cols[col]
			}
		}
	}
}
