package node

import (
	"fmt"
	"net"
)

// Message is a response (or event) body. Encode returns the opcode and the uncompressed body for
// protocol version v, without the tracing / warning / payload prefix (Envelope adds that).
type Message interface {
	Encode(v int) (opcode byte, body []byte)
}

// Envelope wraps a Message with the optional frame-level decorations. It is itself a Message; the
// frame builder recognises it and sets header flags and body prefix accordingly.
type Envelope struct {
	Msg Message
	// TracingID, when non-nil, sets header flag 0x02 and prefixes the body with these bytes
	// (16 for a well-formed frame).
	TracingID []byte
	// Warnings (flag 0x08, v4+) and Payload (flag 0x04, v4+); nil means absent.
	Warnings []string
	Payload  map[string][]byte
	// ExtraFlags is OR-ed into the header flags as is.
	ExtraFlags byte
	// Version, if not 0, replaces the raw version byte of the frame (e.g. 0x84); Stream, if not
	// nil, replaces the stream id.
	Version byte
	Stream  *int
	// NoCompress sends this frame uncompressed even when compression was negotiated.
	NoCompress bool
}

func (e Envelope) Encode(v int) (byte, []byte) { return e.Msg.Encode(v) }

// BuildFrame encodes msg as a response frame for protocol version v on the given stream. codec, if
// not nil, compresses the body and sets flag 0x01 (never for an Envelope with NoCompress).
func BuildFrame(v int, stream int, msg Message, codec BodyCodec) ([]byte, error) {
	var env Envelope
	switch m := msg.(type) {
	case Envelope:
		env = m
	case *Envelope:
		env = *m
	default:
		env = Envelope{Msg: msg}
	}
	if env.Msg == nil {
		return nil, fmt.Errorf("node: nil message")
	}
	for {
		switch m := env.Msg.(type) {
		case Envelope:
			env.Msg = m.Msg
			continue
		case *Envelope:
			env.Msg = m.Msg
			continue
		}
		break
	}
	op, body := env.Msg.Encode(v)
	flags := env.ExtraFlags
	var pre Buf
	if env.TracingID != nil {
		flags |= FlagTracing
		pre.Raw(env.TracingID)
	}
	if env.Warnings != nil {
		flags |= FlagWarning
		pre.StringList(env.Warnings)
	}
	if env.Payload != nil {
		flags |= FlagCustomPayload
		pre.BytesMap(env.Payload)
	}
	if len(pre.B) > 0 {
		body = append(pre.B, body...)
	}
	if codec != nil && !env.NoCompress && len(body) > 0 {
		c, err := codec.Encode(body)
		if err != nil {
			return nil, err
		}
		body = c
		flags |= FlagCompression
	}
	ver := byte(v) | 0x80
	if env.Version != 0 {
		ver = env.Version
	}
	if env.Stream != nil {
		stream = *env.Stream
	}
	return RawFrame(ver, flags, stream, op, body), nil
}

// RawMessage is a Message with a literal opcode and body (for malformed or exotic responses).
type RawMessage struct {
	Opcode byte
	Body   []byte
}

func (m RawMessage) Encode(int) (byte, []byte) { return m.Opcode, m.Body }

// Ready is READY.
type Ready struct{}

func (Ready) Encode(int) (byte, []byte) { return OpReady, nil }

// Supported is SUPPORTED with an arbitrary multimap.
type Supported struct{ Options map[string][]string }

func (m Supported) Encode(int) (byte, []byte) {
	return OpSupported, new(Buf).StringMultimap(m.Options).B
}

// Authenticate is AUTHENTICATE.
type Authenticate struct{ Class string }

func (m Authenticate) Encode(int) (byte, []byte) { return OpAuthenticate, new(Buf).String(m.Class).B }

// AuthChallenge is AUTH_CHALLENGE (nil token = null).
type AuthChallenge struct{ Token []byte }

func (m AuthChallenge) Encode(int) (byte, []byte) { return OpAuthChallenge, new(Buf).Bytes(m.Token).B }

// AuthSuccess is AUTH_SUCCESS (nil token = null).
type AuthSuccess struct{ Token []byte }

func (m AuthSuccess) Encode(int) (byte, []byte) { return OpAuthSuccess, new(Buf).Bytes(m.Token).B }

// FailureReason is one entry of the v5 reason map of READ_FAILURE / WRITE_FAILURE.
type FailureReason struct {
	IP   net.IP
	Code uint16
}

// Error is ERROR. Only the fields that belong to Code are encoded:
//
//	Unavailable      Consistency Required Alive
//	WriteTimeout     Consistency Received BlockFor WriteType
//	ReadTimeout      Consistency Received BlockFor DataPresent
//	ReadFailure      Consistency Received BlockFor NumFailures|Reasons(v5) DataPresent
//	WriteFailure     Consistency Received BlockFor NumFailures|Reasons(v5) WriteType
//	CASWriteUnknown  Consistency Received BlockFor
//	FunctionFailure  Keyspace Function ArgTypes
//	AlreadyExists    Keyspace Table
//	Unprepared       ID
//
// Any other code (known or not) has no extra fields; Extra is appended verbatim in all cases.
type Error struct {
	Code    int32
	Message string

	Consistency uint16
	Required    int32
	Alive       int32
	Received    int32
	BlockFor    int32
	WriteType   string
	DataPresent bool
	NumFailures int32
	Reasons     []FailureReason
	Keyspace    string
	Table       string
	Function    string
	ArgTypes    []string
	ID          []byte

	Extra []byte
}

func (m Error) Encode(v int) (byte, []byte) {
	b := new(Buf).Int(m.Code).String(m.Message)
	failures := func() {
		if v >= 5 {
			b.Int(int32(len(m.Reasons)))
			for _, r := range m.Reasons {
				b.InetAddr(r.IP).Short(r.Code)
			}
		} else {
			b.Int(m.NumFailures)
		}
	}
	bit := func(x bool) byte {
		if x {
			return 1
		}
		return 0
	}
	switch m.Code {
	case ErrUnavailable:
		b.Short(m.Consistency).Int(m.Required).Int(m.Alive)
	case ErrWriteTimeout:
		b.Short(m.Consistency).Int(m.Received).Int(m.BlockFor).String(m.WriteType)
	case ErrReadTimeout:
		b.Short(m.Consistency).Int(m.Received).Int(m.BlockFor).Byte(bit(m.DataPresent))
	case ErrReadFailure:
		b.Short(m.Consistency).Int(m.Received).Int(m.BlockFor)
		failures()
		b.Byte(bit(m.DataPresent))
	case ErrWriteFailure:
		b.Short(m.Consistency).Int(m.Received).Int(m.BlockFor)
		failures()
		b.String(m.WriteType)
	case ErrCASWriteUnknown:
		b.Short(m.Consistency).Int(m.Received).Int(m.BlockFor)
	case ErrFunctionFailure:
		b.String(m.Keyspace).String(m.Function).StringList(m.ArgTypes)
	case ErrAlreadyExists:
		b.String(m.Keyspace).String(m.Table)
	case ErrUnprepared:
		b.ShortBytes(m.ID)
	}
	b.Raw(m.Extra)
	return OpError, b.B
}

// Unprepared is the ERROR a node sends for an EXECUTE / BATCH with an unknown prepared id.
func Unprepared(id []byte) Error {
	return Error{Code: ErrUnprepared, Message: fmt.Sprintf("Prepared query with ID %x not found (either the query was not prepared on this host (maybe the host has been restarted?) or you have prepared too many queries and it has been evicted from the internal cache)", id), ID: id}
}

// Void is RESULT void.
type Void struct{}

func (Void) Encode(int) (byte, []byte) { return OpResult, new(Buf).Int(KindVoid).B }

// SetKeyspace is RESULT set_keyspace.
type SetKeyspace struct{ Keyspace string }

func (m SetKeyspace) Encode(int) (byte, []byte) {
	return OpResult, new(Buf).Int(KindSetKeyspace).String(m.Keyspace).B
}

// Rows is RESULT rows.
type Rows struct {
	// Columns are the column specifications. A column with empty Keyspace/Table takes them from
	// the fields below.
	Columns         []Column
	Keyspace, Table string
	// Rows are the cells, one []byte per column; a nil cell is null (length -1). Rows shorter or
	// longer than Columns are written as they are.
	Rows [][][]byte

	// GlobalSpec sets flag 0x01 and writes Keyspace/Table (or the first column's) once.
	GlobalSpec bool
	// NoMetadata sets flag 0x04: only flags, column count (and paging state) are written.
	NoMetadata bool
	// PagingState non-nil sets flag 0x02 (has more pages) and is written after the column count.
	PagingState []byte

	// Overrides for malformed frames: when non-nil they replace the computed values.
	FlagsOverride       *int32
	ColumnCountOverride *int32
	RowCountOverride    *int32
}

func (m Rows) metadata(b *Buf) {
	var flags int32
	if m.GlobalSpec {
		flags |= RFGlobalTableSpec
	}
	if m.PagingState != nil {
		flags |= RFHasMorePages
	}
	if m.NoMetadata {
		flags |= RFNoMetadata
	}
	if m.FlagsOverride != nil {
		flags = *m.FlagsOverride
	}
	count := int32(len(m.Columns))
	if m.ColumnCountOverride != nil {
		count = *m.ColumnCountOverride
	}
	b.Int(flags).Int(count)
	if flags&RFHasMorePages != 0 {
		b.Bytes(m.PagingState)
	}
	if flags&RFNoMetadata != 0 {
		return
	}
	writeColumns(b, m.Columns, m.Keyspace, m.Table, flags&RFGlobalTableSpec != 0)
}

func writeColumns(b *Buf, cols []Column, ks, table string, global bool) {
	fill := func(c Column) Column {
		if c.Keyspace == "" {
			c.Keyspace = ks
		}
		if c.Table == "" {
			c.Table = table
		}
		return c
	}
	if global {
		gk, gt := ks, table
		if gk == "" && gt == "" && len(cols) > 0 {
			gk, gt = cols[0].Keyspace, cols[0].Table
		}
		b.String(gk).String(gt)
	}
	for _, c := range cols {
		c = fill(c)
		if !global {
			b.String(c.Keyspace).String(c.Table)
		}
		b.String(c.Name).Option(c.Type)
	}
}

func (m Rows) Encode(v int) (byte, []byte) {
	b := new(Buf).Int(KindRows)
	m.metadata(b)
	n := int32(len(m.Rows))
	if m.RowCountOverride != nil {
		n = *m.RowCountOverride
	}
	b.Int(n)
	for _, row := range m.Rows {
		for _, cell := range row {
			b.Bytes(cell)
		}
	}
	return OpResult, b.B
}

// Prepared is RESULT prepared.
type Prepared struct {
	ID []byte
	// Bind metadata. PKIndexes is written for v4+ only.
	Bind            []Column
	PKIndexes       []uint16
	Keyspace, Table string // defaults for Bind and Result columns
	GlobalSpec      bool
	// Result metadata (v2+). ResultNoMetadata sets flag 0x04 there (as for a non-SELECT).
	Result           []Column
	ResultNoMetadata bool
	// ResultMetadataID, when non-nil and v >= 5, is written after ID as the final v5
	// specification says. The driver under test speaks the v5 beta without it: leave nil for it.
	ResultMetadataID []byte

	// Overrides for malformed frames.
	BindCountOverride *int32
	PKCountOverride   *int32
}

func (m Prepared) Encode(v int) (byte, []byte) {
	b := new(Buf).Int(KindPrepared).ShortBytes(m.ID)
	if v >= 5 && m.ResultMetadataID != nil {
		b.ShortBytes(m.ResultMetadataID)
	}
	var flags int32
	if m.GlobalSpec {
		flags |= RFGlobalTableSpec
	}
	n := int32(len(m.Bind))
	if m.BindCountOverride != nil {
		n = *m.BindCountOverride
	}
	b.Int(flags).Int(n)
	if v >= 4 {
		pk := int32(len(m.PKIndexes))
		if m.PKCountOverride != nil {
			pk = *m.PKCountOverride
		}
		b.Int(pk)
		for _, i := range m.PKIndexes {
			b.Short(i)
		}
	}
	writeColumns(b, m.Bind, m.Keyspace, m.Table, m.GlobalSpec)
	if v >= 2 {
		Rows{Columns: m.Result, Keyspace: m.Keyspace, Table: m.Table, GlobalSpec: m.GlobalSpec && len(m.Result) > 0,
			NoMetadata: m.ResultNoMetadata || len(m.Result) == 0}.metadata(b)
	}
	return OpResult, b.B
}

// SchemaChange is RESULT schema_change. Target is "KEYSPACE", "TABLE", "TYPE", "FUNCTION" or
// "AGGREGATE" (v3+; v1-2 write <change><keyspace><table>, Name being the table, "" for keyspaces).
type SchemaChange struct {
	Change   string // CREATED, UPDATED, DROPPED
	Target   string
	Keyspace string
	Name     string
	Args     []string // FUNCTION / AGGREGATE
}

func (m SchemaChange) body(b *Buf, v int) {
	if v <= 2 {
		b.String(m.Change).String(m.Keyspace).String(m.Name)
		return
	}
	b.String(m.Change).String(m.Target)
	switch m.Target {
	case "KEYSPACE":
		b.String(m.Keyspace)
	case "FUNCTION", "AGGREGATE":
		b.String(m.Keyspace).String(m.Name).StringList(m.Args)
	default:
		b.String(m.Keyspace).String(m.Name)
	}
}

func (m SchemaChange) Encode(v int) (byte, []byte) {
	b := new(Buf).Int(KindSchemaChange)
	m.body(b, v)
	return OpResult, b.B
}

// SchemaChangeEvent is EVENT SCHEMA_CHANGE.
type SchemaChangeEvent SchemaChange

func (m SchemaChangeEvent) Encode(v int) (byte, []byte) {
	b := new(Buf).String("SCHEMA_CHANGE")
	SchemaChange(m).body(b, v)
	return OpEvent, b.B
}

// StatusChangeEvent is EVENT STATUS_CHANGE (Change "UP" or "DOWN").
type StatusChangeEvent struct {
	Change string
	IP     net.IP
	Port   int32
}

func (m StatusChangeEvent) Encode(int) (byte, []byte) {
	return OpEvent, new(Buf).String("STATUS_CHANGE").String(m.Change).Inet(m.IP, m.Port).B
}

// TopologyChangeEvent is EVENT TOPOLOGY_CHANGE (Change "NEW_NODE", "REMOVED_NODE", "MOVED_NODE").
type TopologyChangeEvent struct {
	Change string
	IP     net.IP
	Port   int32
}

func (m TopologyChangeEvent) Encode(int) (byte, []byte) {
	return OpEvent, new(Buf).String("TOPOLOGY_CHANGE").String(m.Change).Inet(m.IP, m.Port).B
}

// EventType returns "STATUS_CHANGE", "TOPOLOGY_CHANGE" or "SCHEMA_CHANGE" for the event messages
// of this package (looking through an Envelope), "" for anything else.
func EventType(m Message) string {
	switch x := m.(type) {
	case StatusChangeEvent:
		return "STATUS_CHANGE"
	case TopologyChangeEvent:
		return "TOPOLOGY_CHANGE"
	case SchemaChangeEvent:
		return "SCHEMA_CHANGE"
	case Envelope:
		return EventType(x.Msg)
	case *Envelope:
		return EventType(x.Msg)
	}
	return ""
}
