package node

import (
	"crypto/md5"
	"encoding/hex"
	"fmt"
	"math"
	"net"
	"strings"

	"github.com/golang/snappy"
)

// Cell encoders: the serialised form of CQL values (specification section 6), for building rows.
// A nil []byte is a null cell.

// TextV encodes ascii / text / varchar.
func TextV(s string) []byte { return []byte(s) }

// IntV encodes int.
func IntV(v int32) []byte { return new(Buf).Int(v).B }

// BigintV encodes bigint / counter / timestamp (ms) / time (ns).
func BigintV(v int64) []byte { return new(Buf).Long(v).B }

// SmallintV and TinyintV encode the 2- and 1-byte integers.
func SmallintV(v int16) []byte { return new(Buf).Short(uint16(v)).B }
func TinyintV(v int8) []byte   { return []byte{byte(v)} }

// BoolV encodes boolean.
func BoolV(v bool) []byte {
	if v {
		return []byte{1}
	}
	return []byte{0}
}

// DoubleV and FloatV encode IEEE-754 values.
func DoubleV(v float64) []byte { return new(Buf).Long(int64(math.Float64bits(v))).B }
func FloatV(v float32) []byte  { return new(Buf).Int(int32(math.Float32bits(v))).B }

// UUIDV encodes a uuid / timeuuid given in the usual text form (hyphens optional); it panics on
// anything that is not 32 hex digits.
func UUIDV(s string) []byte {
	b, err := hex.DecodeString(strings.ReplaceAll(s, "-", ""))
	if err != nil || len(b) != 16 {
		panic(fmt.Sprintf("node: bad uuid %q", s))
	}
	return b
}

// InetV encodes inet (4 or 16 bytes).
func InetV(ip net.IP) []byte {
	if v4 := ip.To4(); v4 != nil {
		return []byte(v4)
	}
	return []byte(ip.To16())
}

// ListV encodes a list or set for protocol version v: element count and element lengths are [int]
// in v3+ and [short] in v1-2. A nil element is written as null (v3+).
func ListV(v int, elems ...[]byte) []byte {
	b := new(Buf)
	collLen(b, v, len(elems))
	for _, e := range elems {
		collElem(b, v, e)
	}
	return b.B
}

// TextListV encodes list<text> / set<text>.
func TextListV(v int, elems ...string) []byte {
	bs := make([][]byte, len(elems))
	for i, e := range elems {
		bs[i] = []byte(e)
	}
	return ListV(v, bs...)
}

// MapV encodes a map from alternating keys and values.
func MapV(v int, kv ...[]byte) []byte {
	b := new(Buf)
	collLen(b, v, len(kv)/2)
	for _, e := range kv {
		collElem(b, v, e)
	}
	return b.B
}

// TextMapV encodes map<text,text> with keys in sorted order.
func TextMapV(v int, m map[string]string) []byte {
	var kv [][]byte
	for _, k := range sortedKeys(m) {
		kv = append(kv, []byte(k), []byte(m[k]))
	}
	return MapV(v, kv...)
}

// TupleV encodes a tuple or UDT value: one [bytes] per component, nil = null.
func TupleV(fields ...[]byte) []byte {
	b := new(Buf)
	for _, f := range fields {
		b.Bytes(f)
	}
	return b.B
}

func collLen(b *Buf, v, n int) {
	if v >= 3 {
		b.Int(int32(n))
	} else {
		b.Short(uint16(n))
	}
}

func collElem(b *Buf, v int, e []byte) {
	if v >= 3 {
		b.Bytes(e)
	} else {
		b.ShortBytes(e)
	}
}

// DeterministicUUID derives a well-formed (version 3 style) UUID string from a seed string; used for
// default host ids and schema versions.
func DeterministicUUID(seed string) string {
	h := md5.Sum([]byte(seed))
	h[6] = h[6]&0x0F | 0x30
	h[8] = h[8]&0x3F | 0x80
	x := hex.EncodeToString(h[:])
	return x[0:8] + "-" + x[8:12] + "-" + x[12:16] + "-" + x[16:20] + "-" + x[20:32]
}

// PreparedID is the id the default handler gives a statement prepared in keyspace ks: MD5 of
// keyspace and statement text, as Cassandra does.
func PreparedID(ks, stmt string) []byte {
	h := md5.Sum([]byte(ks + stmt))
	return h[:]
}

// Snappy is the "snappy" body compression of the protocol (raw snappy block format).
type Snappy struct{}

func (Snappy) Name() string                       { return "snappy" }
func (Snappy) Encode(data []byte) ([]byte, error) { return snappy.Encode(nil, data), nil }
func (Snappy) Decode(data []byte) ([]byte, error) { return snappy.Decode(nil, data) }
