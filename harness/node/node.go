// Package node is a scripted, in-memory Cassandra node (or cluster of nodes) for driving the real
// gocql driver without sockets: an in-memory network (Net, Dialer, Link) with fault injection, an
// independent CQL native-protocol codec (v1-v5 legacy framing), a per-node request handler with a
// default good enough for gocql.NewSession, and an observation API. See README.md.
package node

import (
	"context"
	"crypto/tls"
	"errors"
	"fmt"
	"io"
	"net"
	"sort"
	"strconv"
	"sync"
	"sync/atomic"
	"time"
)

// ---------------------------------------------------------------------------------------------
// Net
// ---------------------------------------------------------------------------------------------

// Net is an in-memory network holding nodes by address. Create one with NewNet, add nodes, hand
// Net.Dialer() to the driver, and Close it at the end (that stops every goroutine of the package).
type Net struct {
	mu      sync.Mutex
	nodes   map[string]*Node
	order   []*Node
	links   []*Link
	closed  bool
	done    chan struct{}
	wg      sync.WaitGroup
	seq     int64
	changed chan struct{}

	clientIP net.IP

	// cluster-wide state used by the default handler (guarded by mu)
	clusterName   string
	partitioner   string
	schemaVersion string
	keyspaces     map[string]Keyspace
	tables        map[string]*Table
	prepSpecs     map[string]PreparedSpec
	prepared      map[string]*PreparedStatement

	perturbOn   bool
	perturbSeed uint64
	perturbMax  time.Duration
}

// NewNet makes an empty network.
func NewNet() *Net {
	return &Net{
		nodes:         make(map[string]*Node),
		done:          make(chan struct{}),
		changed:       make(chan struct{}),
		clientIP:      net.IPv4(10, 255, 255, 1),
		clusterName:   "verif-cluster",
		partitioner:   "org.apache.cassandra.dht.Murmur3Partitioner",
		schemaVersion: DeterministicUUID("schema-v1"),
		keyspaces:     make(map[string]Keyspace),
		tables:        make(map[string]*Table),
		prepSpecs:     make(map[string]PreparedSpec),
		prepared:      make(map[string]*PreparedStatement),
	}
}

func (n *Net) nextSeq() int64 { return atomic.AddInt64(&n.seq, 1) - 1 }

// notify wakes everybody blocked in WaitFor.
func (n *Net) notify() {
	n.mu.Lock()
	close(n.changed)
	n.changed = make(chan struct{})
	n.mu.Unlock()
}

// WaitFor blocks until cond() is true or the timeout has passed and returns cond's last value.
// cond is re-evaluated whenever something happens on the Net (a request arrives, a frame is sent, a
// connection opens or closes) and at least every 10ms.
func (n *Net) WaitFor(timeout time.Duration, cond func() bool) bool {
	end := time.Now().Add(timeout)
	for {
		n.mu.Lock()
		ch := n.changed
		n.mu.Unlock()
		if cond() {
			return true
		}
		left := time.Until(end)
		if left <= 0 {
			return false
		}
		if left > 10*time.Millisecond {
			left = 10 * time.Millisecond
		}
		t := time.NewTimer(left)
		select {
		case <-ch:
		case <-t.C:
		}
		t.Stop()
	}
}

// AddNode adds a node listening on addr ("10.0.0.1:9042", an IP literal and a port) with the default
// configuration (see Config) and the default handler. It panics on a malformed or duplicate address.
func (n *Net) AddNode(addr string) *Node {
	host, portStr, err := net.SplitHostPort(addr)
	ip := net.ParseIP(host)
	port, perr := strconv.Atoi(portStr)
	if err != nil || ip == nil || perr != nil {
		panic(fmt.Sprintf("node: AddNode(%q): need ip:port", addr))
	}
	if v4 := ip.To4(); v4 != nil {
		ip = v4
	}
	nd := &Node{net: n, addr: addr, ip: ip, port: port, counters: make(map[string]int), knownIDs: make(map[string]bool)}
	nd.cfg = defaultConfig(addr)
	n.mu.Lock()
	defer n.mu.Unlock()
	if _, dup := n.nodes[addr]; dup {
		panic(fmt.Sprintf("node: AddNode(%q): duplicate", addr))
	}
	nd.ordinal = len(n.order)
	n.nodes[addr] = nd
	n.order = append(n.order, nd)
	return nd
}

// RemoveNode takes the node off the network: its connections are closed, dials are refused and it
// disappears from the other nodes' system.peers.
func (n *Net) RemoveNode(addr string) {
	n.mu.Lock()
	nd := n.nodes[addr]
	delete(n.nodes, addr)
	for i, x := range n.order {
		if x == nd {
			n.order = append(n.order[:i:i], n.order[i+1:]...)
			break
		}
	}
	n.mu.Unlock()
	if nd != nil {
		nd.CloseConns()
	}
}

// Node returns the node at addr, or nil.
func (n *Net) Node(addr string) *Node {
	n.mu.Lock()
	defer n.mu.Unlock()
	return n.nodes[addr]
}

// Nodes returns the nodes in the order they were added.
func (n *Net) Nodes() []*Node {
	n.mu.Lock()
	defer n.mu.Unlock()
	return append([]*Node(nil), n.order...)
}

// Links returns every connection ever made on the network, in dial order.
func (n *Net) Links() []*Link {
	n.mu.Lock()
	defer n.mu.Unlock()
	return append([]*Link(nil), n.links...)
}

// OpenConns is the number of connections of which neither end has been closed.
func (n *Net) OpenConns() int {
	c := 0
	for _, l := range n.Links() {
		if l.Open() {
			c++
		}
	}
	return c
}

// Perturb switches on seeded schedule perturbation: every response frame may be split at a
// pseudo-random offset and its tail delayed by a pseudo-random pause below maxPause. The choices of
// a connection depend only on seed, the node address and the connection's ordinal on its node.
func (n *Net) Perturb(seed uint64, maxPause time.Duration) {
	n.mu.Lock()
	n.perturbOn, n.perturbSeed, n.perturbMax = true, seed, maxPause
	n.mu.Unlock()
}

// Close closes every connection, refuses further dials, and waits until every goroutine started by
// the package has returned. Idempotent.
func (n *Net) Close() {
	n.mu.Lock()
	if n.closed {
		n.mu.Unlock()
		n.wg.Wait()
		return
	}
	n.closed = true
	close(n.done)
	links := append([]*Link(nil), n.links...)
	n.mu.Unlock()
	for _, l := range links {
		l.Close()
	}
	n.wg.Wait()
	n.notify()
}

// goFunc runs fn on a tracked goroutine; it reports false (and does not run fn) after Close.
func (n *Net) goFunc(fn func()) bool {
	n.mu.Lock()
	if n.closed {
		n.mu.Unlock()
		return false
	}
	n.wg.Add(1)
	n.mu.Unlock()
	go func() {
		defer n.wg.Done()
		fn()
	}()
	return true
}

// after runs fn after d unless the Net (or the connection, if stop is non-nil) is closed first.
func (n *Net) after(d time.Duration, stop <-chan struct{}, fn func()) {
	n.goFunc(func() {
		t := time.NewTimer(d)
		defer t.Stop()
		select {
		case <-t.C:
			fn()
		case <-n.done:
		case <-stop:
		}
	})
}

// ---------------------------------------------------------------------------------------------
// Dialer
// ---------------------------------------------------------------------------------------------

// Dialer connects to the nodes of a Net. It implements gocql.Dialer (DialContext) and
// gocql.HostDialer (DialHost, see hostdialer.go): set ClusterConfig.Dialer or .HostDialer to it.
type Dialer struct {
	net *Net
	// DisableCoalesce is reported to the driver by DialHost (it switches the driver's write
	// coalescing off for the connection, so that every frame is one Write call).
	DisableCoalesce bool
}

// Dialer returns a dialler for the network.
func (n *Net) Dialer() *Dialer { return &Dialer{net: n} }

// DialFault scripts the outcome of dials to a node. Delay is waited first (the dial context is
// honoured); then Hang blocks until the context is done, Refuse yields "connection refused", Err
// yields Err; with none of them the dial succeeds after the delay.
type DialFault struct {
	Delay  time.Duration
	Refuse bool
	Hang   bool
	Err    error
	// Count limits the fault to the next Count dials (0 = until replaced).
	Count int
}

// DialRecord is one dial attempt at a node.
type DialRecord struct {
	Seq int64
	Err error // nil if a connection was made
}

var errRefused = errors.New("connect: connection refused")

func dialErr(addr string, err error) error {
	return &net.OpError{Op: "dial", Net: "tcp", Addr: strAddr(addr), Err: err}
}

type strAddr string

func (a strAddr) Network() string { return "tcp" }
func (a strAddr) String() string  { return string(a) }

// DialContext connects to the node at addr. network is ignored.
func (d *Dialer) DialContext(ctx context.Context, network, addr string) (net.Conn, error) {
	n := d.net
	if err := ctx.Err(); err != nil {
		return nil, dialErr(addr, err)
	}
	n.mu.Lock()
	closed := n.closed
	nd := n.nodes[addr]
	n.mu.Unlock()
	if closed {
		return nil, dialErr(addr, errors.New("network is down"))
	}
	if nd == nil {
		return nil, dialErr(addr, errRefused)
	}
	seq := n.nextSeq()
	fail := func(err error) (net.Conn, error) {
		err = dialErr(addr, err)
		nd.mu.Lock()
		nd.dials = append(nd.dials, DialRecord{Seq: seq, Err: err})
		nd.mu.Unlock()
		n.notify()
		return nil, err
	}
	if f := nd.takeDialFault(); f != nil {
		if f.Delay > 0 {
			t := time.NewTimer(f.Delay)
			select {
			case <-t.C:
			case <-ctx.Done():
				t.Stop()
				return fail(ctx.Err())
			case <-n.done:
				t.Stop()
				return fail(errors.New("network is down"))
			}
		}
		switch {
		case f.Hang:
			select {
			case <-ctx.Done():
				return fail(ctx.Err())
			case <-n.done:
				return fail(errors.New("network is down"))
			}
		case f.Refuse:
			return fail(errRefused)
		case f.Err != nil:
			return fail(f.Err)
		}
	}
	n.mu.Lock()
	if n.closed {
		n.mu.Unlock()
		return fail(errors.New("network is down"))
	}
	id := len(n.links)
	l := NewLink(&net.TCPAddr{IP: n.clientIP, Port: 40000 + id%20000}, &net.TCPAddr{IP: nd.ip, Port: nd.port})
	l.ID = id
	l.Addr = addr
	n.links = append(n.links, l)
	n.mu.Unlock()

	c := nd.accept(l, seq)
	if c == nil {
		l.Close()
		return fail(errors.New("network is down"))
	}
	n.notify()
	return l.client, nil
}

// ---------------------------------------------------------------------------------------------
// Node
// ---------------------------------------------------------------------------------------------

// Handler answers one request. It runs on the connection's goroutine, in arrival order; it may
// reply (now, later, several times, or never) through the methods of ServerConn. Call
// c.Node().Default(c, req) to let the default behaviour handle a request.
type Handler func(c *ServerConn, req *Request)

// Rule is one entry of a node's script: the first rule whose Match accepts a request (and whose
// Skip/Times window is open) handles it instead of the node's handler.
type Rule struct {
	// Match selects requests (nil matches every request).
	Match func(req *Request) bool
	// Skip lets that many matching requests pass before the rule starts to apply; Times is the
	// number of matching requests it then applies to (0 = no limit).
	Skip, Times int
	// Do handles the request.
	Do Handler

	seen int
}

// MatchOp matches requests with the given opcode.
func MatchOp(op byte) func(*Request) bool {
	return func(r *Request) bool { return r.Header.Opcode == op }
}

// MatchStatement matches QUERY, PREPARE and EXECUTE requests whose statement text contains substr
// (for EXECUTE: the text the id was prepared from), optionally restricted to some opcodes.
func MatchStatement(substr string, ops ...byte) func(*Request) bool {
	return func(r *Request) bool {
		if len(ops) > 0 {
			ok := false
			for _, op := range ops {
				ok = ok || r.Header.Opcode == op
			}
			if !ok {
				return false
			}
		}
		s := r.Statement()
		return s != "" && containsFold(s, substr)
	}
}

// Node is one scripted CQL node.
type Node struct {
	net     *Net
	addr    string
	ip      net.IP
	port    int
	ordinal int

	mu        sync.Mutex
	cfg       Config
	handler   Handler
	rules     []*Rule
	onConnect func(c *ServerConn)
	dialFault *DialFault
	dials     []DialRecord
	conns     []*ServerConn
	requests  []*Request
	sent      []*Sent
	counters  map[string]int
	knownIDs  map[string]bool // prepared ids this node has seen a PREPARE for
	held      []*Held
}

// Addr is the address the node listens on; IP and Port its parts.
func (nd *Node) Addr() string { return nd.addr }
func (nd *Node) IP() net.IP   { return nd.ip }
func (nd *Node) Port() int    { return nd.port }

// Net is the network the node is on.
func (nd *Node) Net() *Net { return nd.net }

// Config returns a copy of the node's configuration; Update changes it under the node's lock (safe
// while connections are being served).
func (nd *Node) Config() Config {
	nd.mu.Lock()
	defer nd.mu.Unlock()
	return nd.cfg.clone()
}

func (nd *Node) Update(fn func(cfg *Config)) {
	nd.mu.Lock()
	fn(&nd.cfg)
	nd.mu.Unlock()
}

// SetHandler installs the handler for requests no Rule takes; nil restores the default handler.
func (nd *Node) SetHandler(h Handler) {
	nd.mu.Lock()
	nd.handler = h
	nd.mu.Unlock()
}

// AddRule appends a rule to the node's script; ClearRules empties the script.
func (nd *Node) AddRule(r Rule) {
	nd.mu.Lock()
	nd.rules = append(nd.rules, &r)
	nd.mu.Unlock()
}

func (nd *Node) ClearRules() {
	nd.mu.Lock()
	nd.rules = nil
	nd.mu.Unlock()
}

// OnConnect registers a hook that runs inside the dial, before the dialler gets its net.Conn and
// before any byte flows: the place to script the connection's faults (c.Link().C2S / S2C).
func (nd *Node) OnConnect(fn func(c *ServerConn)) {
	nd.mu.Lock()
	nd.onConnect = fn
	nd.mu.Unlock()
}

// SetDialFault scripts the following dials (nil: dials succeed again).
func (nd *Node) SetDialFault(f *DialFault) {
	nd.mu.Lock()
	if f != nil {
		g := *f
		f = &g
	}
	nd.dialFault = f
	nd.mu.Unlock()
}

func (nd *Node) takeDialFault() *DialFault {
	nd.mu.Lock()
	defer nd.mu.Unlock()
	f := nd.dialFault
	if f == nil {
		return nil
	}
	g := *f
	if f.Count > 0 {
		f.Count--
		if f.Count == 0 {
			nd.dialFault = nil
		}
	}
	return &g
}

func (nd *Node) accept(l *Link, seq int64) *ServerConn {
	nd.mu.Lock()
	c := &ServerConn{node: nd, link: l, wire: l.server, index: len(nd.conns), done: make(chan struct{}), registered: make(map[string]bool)}
	if nd.cfg.TLS != nil {
		c.wire = tls.Server(l.server, nd.cfg.TLS)
	}
	nd.net.mu.Lock()
	if nd.net.perturbOn {
		h := nd.net.perturbSeed
		for _, b := range []byte(nd.addr) {
			h = h*1099511628211 + uint64(b)
		}
		c.rng = &rng{s: h + uint64(c.index)*0x9E3779B97F4A7C15}
		c.perturbMax = nd.net.perturbMax
	}
	nd.net.mu.Unlock()
	nd.conns = append(nd.conns, c)
	nd.dials = append(nd.dials, DialRecord{Seq: seq})
	hook := nd.onConnect
	nd.mu.Unlock()
	if hook != nil {
		hook(c)
	}
	if !nd.net.goFunc(c.serve) {
		return nil
	}
	return c
}

// Requests returns every request the node has received, in arrival order.
func (nd *Node) Requests() []*Request {
	nd.mu.Lock()
	defer nd.mu.Unlock()
	return append([]*Request(nil), nd.requests...)
}

// Sent returns every frame (and raw write) the node has sent, in order.
func (nd *Node) Sent() []*Sent {
	nd.mu.Lock()
	defer nd.mu.Unlock()
	return append([]*Sent(nil), nd.sent...)
}

// Count returns how many requests with the given key have arrived. Keys are opcode names
// ("OPTIONS", "QUERY", "EXECUTE", ...) counting every request of that kind, and Request.Key()
// values ("QUERY:<statement>", "PREPARE:<statement>", "EXECUTE:<hex id>").
func (nd *Node) Count(key string) int {
	nd.mu.Lock()
	defer nd.mu.Unlock()
	return nd.counters[key]
}

// CountStatement counts the QUERY, PREPARE and EXECUTE requests whose statement contains substr
// (case-insensitively), optionally restricted to the given opcodes.
func (nd *Node) CountStatement(substr string, ops ...byte) int {
	m := MatchStatement(substr, ops...)
	c := 0
	for _, r := range nd.Requests() {
		if m(r) {
			c++
		}
	}
	return c
}

// Counters returns a copy of all counters (see Count).
func (nd *Node) Counters() map[string]int {
	nd.mu.Lock()
	defer nd.mu.Unlock()
	m := make(map[string]int, len(nd.counters))
	for k, v := range nd.counters {
		m[k] = v
	}
	return m
}

// Conns returns every connection the node has accepted, in accept order.
func (nd *Node) Conns() []*ServerConn {
	nd.mu.Lock()
	defer nd.mu.Unlock()
	return append([]*ServerConn(nil), nd.conns...)
}

// Dials returns the record of every dial attempt at the node.
func (nd *Node) Dials() []DialRecord {
	nd.mu.Lock()
	defer nd.mu.Unlock()
	return append([]DialRecord(nil), nd.dials...)
}

// TotalConns, OpenConns, ClosedConns count accepted connections; a connection is open while
// neither end has been closed.
func (nd *Node) TotalConns() int { return len(nd.Conns()) }
func (nd *Node) OpenConns() int {
	c := 0
	for _, sc := range nd.Conns() {
		if sc.link.Open() {
			c++
		}
	}
	return c
}
func (nd *Node) ClosedConns() int { return nd.TotalConns() - nd.OpenConns() }

// CloseConns closes every connection of the node from the server side.
func (nd *Node) CloseConns() {
	for _, c := range nd.Conns() {
		c.Close()
	}
}

// WaitRequests waits until at least n requests accepted by match (nil: all) have arrived and been
// handled (their handler has returned, so whatever it does - reply, Hold, ... - has happened).
func (nd *Node) WaitRequests(n int, match func(*Request) bool, timeout time.Duration) bool {
	return nd.net.WaitFor(timeout, func() bool {
		c := 0
		for _, r := range nd.Requests() {
			if r.Handled() && (match == nil || match(r)) {
				c++
			}
		}
		return c >= n
	})
}

// WaitOpenConns waits until the node has exactly n open connections.
func (nd *Node) WaitOpenConns(n int, timeout time.Duration) bool {
	return nd.net.WaitFor(timeout, func() bool { return nd.OpenConns() == n })
}

// PushEvent sends the event on every open connection that REGISTERed for its type (every open
// connection that registered for anything, if the type is not one of the three known ones). It
// returns the number of connections it was sent on.
func (nd *Node) PushEvent(ev Message) int {
	typ := EventType(ev)
	sent := 0
	for _, c := range nd.Conns() {
		if !c.link.Open() {
			continue
		}
		c.mu.Lock()
		ok := c.registered[typ] || (typ == "" && len(c.registered) > 0)
		c.mu.Unlock()
		if ok && c.PushEvent(ev) == nil {
			sent++
		}
	}
	return sent
}

// ForgetPrepared makes the node forget every prepared statement (as after a restart): the default
// handler then answers EXECUTE / BATCH with UNPREPARED until the statement is prepared again.
func (nd *Node) ForgetPrepared() {
	nd.mu.Lock()
	nd.knownIDs = make(map[string]bool)
	nd.mu.Unlock()
}

func (nd *Node) record(req *Request) {
	nd.mu.Lock()
	req.NodeIndex = len(nd.requests)
	nd.requests = append(nd.requests, req)
	nd.counters[OpName(req.Header.Opcode)]++
	if k := req.Key(); k != OpName(req.Header.Opcode) {
		nd.counters[k]++
	}
	nd.mu.Unlock()
}

func (nd *Node) pick(req *Request) Handler {
	nd.mu.Lock()
	rules := append([]*Rule(nil), nd.rules...)
	h := nd.handler
	nd.mu.Unlock()
	for _, r := range rules {
		// Match runs without the node's lock, so it may use the observation API
		if r.Match != nil && !r.Match(req) {
			continue
		}
		nd.mu.Lock()
		r.seen++
		seen := r.seen
		nd.mu.Unlock()
		if seen <= r.Skip || (r.Times > 0 && seen > r.Skip+r.Times) {
			continue
		}
		if r.Do != nil {
			return r.Do
		}
	}
	if h != nil {
		return h
	}
	return nd.Default
}

// ---------------------------------------------------------------------------------------------
// ServerConn
// ---------------------------------------------------------------------------------------------

// Sent is one thing the node wrote to a connection.
type Sent struct {
	Seq     int64
	Conn    *ServerConn
	Request *Request // the request it answers; nil for events and raw writes
	Stream  int
	Opcode  byte
	Msg     Message // nil for raw writes
	Raw     []byte  // the bytes written
	Offset  int64   // absolute offset of Raw in the server->client stream

	mu  sync.Mutex
	err error
}

// Err is the error of the write (non-nil when the connection was already closed). The record is
// published just before the bytes are written, so that whoever has read a response finds it in
// Sent; Err is meaningful once the write has returned.
func (s *Sent) Err() error {
	s.mu.Lock()
	defer s.mu.Unlock()
	return s.err
}

// Split asks for a barrier inside a frame being sent: the bytes after the first After bytes of the
// frame stay unreadable for the client until Gate opens.
type Split struct {
	After int
	Gate  Gate
}

// Order is the order in which held answers are released.
type Order int

const (
	FIFO Order = iota
	LIFO
	Shuffle // pseudo-random, from the seed given to ReleaseHeld
)

// Held is an answer parked by ServerConn.Hold.
type Held struct {
	conn     *ServerConn
	req      *Request
	msg      Message
	released bool
}

// Release sends the held answer (once).
func (h *Held) Release() error {
	if h == nil {
		return nil
	}
	nd := h.conn.node
	nd.mu.Lock()
	if h.released {
		nd.mu.Unlock()
		return nil
	}
	h.released = true
	for i, x := range nd.held {
		if x == h {
			nd.held = append(nd.held[:i:i], nd.held[i+1:]...)
			break
		}
	}
	nd.mu.Unlock()
	return h.conn.Reply(h.req, h.msg)
}

// ReleaseHeld releases every held answer of the node in the given order and returns their number.
func (nd *Node) ReleaseHeld(order Order, seed uint64) int {
	nd.mu.Lock()
	hs := append([]*Held(nil), nd.held...)
	nd.mu.Unlock()
	return releaseAll(hs, order, seed)
}

func releaseAll(hs []*Held, order Order, seed uint64) int {
	switch order {
	case LIFO:
		for i, j := 0, len(hs)-1; i < j; i, j = i+1, j-1 {
			hs[i], hs[j] = hs[j], hs[i]
		}
	case Shuffle:
		r := &rng{s: seed}
		for i := len(hs) - 1; i > 0; i-- {
			j := int(r.next() % uint64(i+1))
			hs[i], hs[j] = hs[j], hs[i]
		}
	}
	for _, h := range hs {
		h.Release()
	}
	return len(hs)
}

type waiting struct {
	n     int // release once n requests beyond the first since have been handled
	since int
	req   *Request
	msg   Message
}

// ServerConn is the node's side of one connection.
type ServerConn struct {
	node  *Node
	link  *Link
	wire  net.Conn // link.server, or a TLS server connection on top of it
	index int
	done  chan struct{}

	sendMu sync.Mutex // serialises writes to the link

	mu            sync.Mutex
	proto         int
	keyspace      string
	codec         BodyCodec
	startup       map[string]string
	registered    map[string]bool
	authenticated bool
	authTokens    [][]byte
	requests      []*Request
	sent          []*Sent
	waiting       []*waiting
	unparsed      []byte
	badFrames     int

	rng        *rng
	perturbMax time.Duration
}

// Node, Link, Index: the node, the underlying connection, the ordinal among the node's connections.
func (c *ServerConn) Node() *Node { return c.node }
func (c *ServerConn) Link() *Link { return c.link }
func (c *ServerConn) Index() int  { return c.index }

// Open reports whether neither end of the connection has been closed.
func (c *ServerConn) Open() bool { return c.link.Open() }

// Proto is the protocol version of the first frame received (0 before that).
func (c *ServerConn) Proto() int { c.mu.Lock(); defer c.mu.Unlock(); return c.proto }

// Keyspace is the keyspace set by the last USE the default handler answered.
func (c *ServerConn) Keyspace() string { c.mu.Lock(); defer c.mu.Unlock(); return c.keyspace }

// SetKeyspace sets what Keyspace reports (for handlers that answer USE themselves).
func (c *ServerConn) SetKeyspace(ks string) { c.mu.Lock(); c.keyspace = ks; c.mu.Unlock() }

// Compression is the name of the body compression negotiated by STARTUP ("" if none).
func (c *ServerConn) Compression() string {
	c.mu.Lock()
	defer c.mu.Unlock()
	if c.codec == nil {
		return ""
	}
	return c.codec.Name()
}

// SetCodec sets the body codec used to decode later request frames and to compress responses
// (nil: none). The default handler calls it when STARTUP names a compression it has a codec for.
func (c *ServerConn) SetCodec(codec BodyCodec) { c.mu.Lock(); c.codec = codec; c.mu.Unlock() }

// StartupOptions returns the options of the STARTUP request (nil before it).
func (c *ServerConn) StartupOptions() map[string]string {
	c.mu.Lock()
	defer c.mu.Unlock()
	return c.startup
}

// Registered returns the event types the connection REGISTERed for, sorted.
func (c *ServerConn) Registered() []string {
	c.mu.Lock()
	defer c.mu.Unlock()
	var l []string
	for k := range c.registered {
		l = append(l, k)
	}
	sort.Strings(l)
	return l
}

// Register marks the connection as registered for the event types (the default handler does this
// for REGISTER requests).
func (c *ServerConn) Register(events ...string) {
	c.mu.Lock()
	for _, e := range events {
		c.registered[e] = true
	}
	c.mu.Unlock()
}

// Requests returns the requests received on this connection; Sent what was written to it.
func (c *ServerConn) Requests() []*Request {
	c.mu.Lock()
	defer c.mu.Unlock()
	return append([]*Request(nil), c.requests...)
}

func (c *ServerConn) Sent() []*Sent {
	c.mu.Lock()
	defer c.mu.Unlock()
	return append([]*Sent(nil), c.sent...)
}

// Unparsed returns the client bytes that were received after the last complete frame (a torn
// frame, for instance after an injected short write) - complete only once the connection is closed.
func (c *ServerConn) Unparsed() []byte {
	c.mu.Lock()
	defer c.mu.Unlock()
	return append([]byte(nil), c.unparsed...)
}

// BadFrames counts frames whose header was not a request header of a known version (the
// connection is closed after the handler has seen such a frame, framing being lost).
func (c *ServerConn) BadFrames() int { c.mu.Lock(); defer c.mu.Unlock(); return c.badFrames }

// Done is closed once the connection has ended and the node has processed everything it received
// on it (after that Requests and Unparsed are final).
func (c *ServerConn) Done() <-chan struct{} { return c.done }

// WaitDone waits for Done for at most d.
func (c *ServerConn) WaitDone(d time.Duration) bool {
	t := time.NewTimer(d)
	defer t.Stop()
	select {
	case <-c.done:
		return true
	case <-t.C:
		return false
	}
}

// Close closes the connection from the server side.
func (c *ServerConn) Close() {
	c.link.server.Close()
	c.node.net.notify()
}

func (c *ServerConn) String() string { return fmt.Sprintf("%s#%d", c.node.addr, c.index) }

// ---- sending ----------------------------------------------------------------------------------------

func (c *ServerConn) responseCodec(msg Message) BodyCodec {
	c.mu.Lock()
	codec := c.codec
	c.mu.Unlock()
	if codec == nil {
		return nil
	}
	c.node.mu.Lock()
	on := c.node.cfg.CompressResponses
	c.node.mu.Unlock()
	if !on {
		return nil
	}
	return codec
}

func (c *ServerConn) write(s *Sent, splits []Split) error {
	c.sendMu.Lock()
	st := c.link.S2C
	base := st.Written()
	s.Offset = base
	if len(splits) == 0 && c.rng != nil && len(s.Raw) > 1 {
		// seeded perturbation: split about half of the frames at a pseudo-random offset
		if c.rng.next()&1 == 1 {
			k := 1 + int(c.rng.next()%uint64(len(s.Raw)-1))
			var d time.Duration
			if c.perturbMax > 0 {
				d = time.Duration(c.rng.next() % uint64(c.perturbMax))
			}
			splits = []Split{{After: k, Gate: Gate{Delay: d}}}
		}
	}
	for _, sp := range splits {
		st.BarrierAt(base+int64(sp.After), sp.Gate)
	}
	// publish the record before the bytes can be seen by the client
	s.Seq = c.node.net.nextSeq()
	c.mu.Lock()
	c.sent = append(c.sent, s)
	c.mu.Unlock()
	c.node.mu.Lock()
	c.node.sent = append(c.node.sent, s)
	c.node.mu.Unlock()
	_, err := c.wire.Write(s.Raw)
	s.mu.Lock()
	s.err = err
	s.mu.Unlock()
	c.sendMu.Unlock()
	c.node.net.notify()
	return err
}

// Send writes msg as a frame of protocol version proto on the given stream, whether or not a
// request is outstanding on it. req is only recorded (may be nil).
func (c *ServerConn) Send(proto, stream int, msg Message, req *Request, splits ...Split) error {
	raw, err := BuildFrame(proto, stream, msg, c.responseCodec(msg))
	if err != nil {
		return err
	}
	h, _ := ParseHeader(raw)
	return c.write(&Sent{Conn: c, Request: req, Stream: h.Stream, Opcode: h.Opcode, Msg: msg, Raw: raw}, splits)
}

// Reply answers req with msg now (same protocol version, same stream). It may be called from any
// goroutine, any number of times per request.
func (c *ServerConn) Reply(req *Request, msg Message) error {
	return c.Send(req.Proto(), req.Header.Stream, msg, req)
}

// ReplySplit is Reply with barriers inside the frame: e.g. Split{After: 13, Gate: Gate{Timeouts: 5}}
// delivers the header and 4 body bytes of a v4 frame, lets the client run into 5 read timeouts and
// then delivers the rest.
func (c *ServerConn) ReplySplit(req *Request, msg Message, splits ...Split) error {
	return c.Send(req.Proto(), req.Header.Stream, msg, req, splits...)
}

// ReplyAfter answers req after d (unless the connection or the Net is closed first).
func (c *ServerConn) ReplyAfter(d time.Duration, req *Request, msg Message) {
	c.node.net.after(d, c.done, func() { c.Reply(req, msg) })
}

// ReplyAfterRequests answers req after n further requests have arrived on this connection and
// their handlers have returned (so with n = 1 and the next request answered at once, the two
// responses leave in swapped order).
func (c *ServerConn) ReplyAfterRequests(n int, req *Request, msg Message) {
	if n <= 0 {
		c.Reply(req, msg)
		return
	}
	c.mu.Lock()
	c.waiting = append(c.waiting, &waiting{n: n, since: len(c.requests), req: req, msg: msg})
	c.mu.Unlock()
}

// Hold parks the answer until Held.Release, ServerConn.ReleaseHeld or Node.ReleaseHeld.
func (c *ServerConn) Hold(req *Request, msg Message) *Held {
	h := &Held{conn: c, req: req, msg: msg}
	c.node.mu.Lock()
	c.node.held = append(c.node.held, h)
	c.node.mu.Unlock()
	return h
}

// ReleaseHeld releases the held answers of this connection in the given order.
func (c *ServerConn) ReleaseHeld(order Order, seed uint64) int {
	c.node.mu.Lock()
	var hs []*Held
	for _, h := range c.node.held {
		if h.conn == c {
			hs = append(hs, h)
		}
	}
	c.node.mu.Unlock()
	return releaseAll(hs, order, seed)
}

// WriteRaw writes arbitrary bytes to the client (optionally with barriers inside them).
func (c *ServerConn) WriteRaw(b []byte, splits ...Split) error {
	s := &Sent{Conn: c, Raw: append([]byte(nil), b...)}
	if h, err := ParseHeader(b); err == nil {
		s.Stream, s.Opcode = h.Stream, h.Opcode
	}
	return c.write(s, splits)
}

// PushEvent sends an EVENT frame (stream -1) in the connection's protocol version, whether or not
// the connection registered for it.
func (c *ServerConn) PushEvent(ev Message) error {
	p := c.Proto()
	if p == 0 {
		p = 4
	}
	return c.Send(p, -1, ev, nil)
}

// ---- receiving --------------------------------------------------------------------------------------

const maxBodyLen = 256 << 20

func (c *ServerConn) serve() {
	defer func() {
		close(c.done)
		c.link.server.Close()
		c.node.net.notify()
	}()
	srv := c.wire
	var off int64
	for {
		first := make([]byte, 1)
		if _, err := io.ReadFull(srv, first); err != nil {
			return
		}
		proto := int(first[0] & 0x7F)
		bad := first[0]&0x80 != 0 || proto < 1 || proto > 5
		hs := 9
		if !bad {
			hs = HeaderSize(proto)
		}
		head := make([]byte, hs)
		head[0] = first[0]
		if n, err := io.ReadFull(srv, head[1:]); err != nil {
			c.setUnparsed(head[:1+n])
			return
		}
		h, _ := ParseHeader(head)
		if h.Length < 0 || h.Length > maxBodyLen {
			bad = true
		}
		frame := head
		if !bad {
			frame = make([]byte, hs+int(h.Length))
			copy(frame, head)
			if n, err := io.ReadFull(srv, frame[hs:]); err != nil {
				c.setUnparsed(frame[:hs+n])
				return
			}
		}
		var req *Request
		if bad {
			req = &Request{Raw: frame, Header: h, ParseErr: fmt.Errorf("node: not a request header: % x", head)}
		} else {
			c.mu.Lock()
			codec := c.codec
			c.mu.Unlock()
			req = ParseRequest(frame, codec)
		}
		req.Conn = c
		req.Offset = off
		off += int64(len(frame))
		req.Seq = c.node.net.nextSeq()
		c.mu.Lock()
		if c.proto == 0 && !bad {
			c.proto = proto
		}
		if bad {
			c.badFrames++
		}
		req.ConnIndex = len(c.requests)
		c.requests = append(c.requests, req)
		c.mu.Unlock()
		c.node.record(req)
		c.node.net.notify()

		c.node.pick(req)(c, req)

		c.afterRequest()
		atomic.StoreInt32(&req.handled, 1)
		c.node.net.notify()
		if bad {
			return
		}
	}
}

func (c *ServerConn) setUnparsed(b []byte) {
	c.mu.Lock()
	c.unparsed = append([]byte(nil), b...)
	c.mu.Unlock()
}

func (c *ServerConn) afterRequest() {
	c.mu.Lock()
	var due []*waiting
	keep := c.waiting[:0]
	for _, w := range c.waiting {
		if len(c.requests)-w.since >= w.n {
			due = append(due, w)
		} else {
			keep = append(keep, w)
		}
	}
	c.waiting = keep
	c.mu.Unlock()
	for _, w := range due {
		c.Reply(w.req, w.msg)
	}
}

// ---------------------------------------------------------------------------------------------
// small helpers
// ---------------------------------------------------------------------------------------------

// rng is splitmix64.
type rng struct{ s uint64 }

func (r *rng) next() uint64 {
	r.s += 0x9E3779B97F4A7C15
	z := r.s
	z = (z ^ (z >> 30)) * 0xBF58476D1CE4E5B9
	z = (z ^ (z >> 27)) * 0x94D049BB133111EB
	return z ^ (z >> 31)
}

func containsFold(s, sub string) bool {
	if sub == "" {
		return true
	}
	ls, lsub := []byte(s), []byte(sub)
	lower := func(b []byte) {
		for i, c := range b {
			if c >= 'A' && c <= 'Z' {
				b[i] = c + 32
			}
		}
	}
	lower(ls)
	lower(lsub)
	return indexBytes(ls, lsub) >= 0
}

func indexBytes(s, sub []byte) int {
	for i := 0; i+len(sub) <= len(s); i++ {
		if string(s[i:i+len(sub)]) == string(sub) {
			return i
		}
	}
	return -1
}
