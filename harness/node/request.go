package node

import (
	"encoding/hex"
	"fmt"
	"strings"
	"sync/atomic"
)

// Value is one bound value of a QUERY / EXECUTE / BATCH request.
type Value struct {
	Name  string // only with named values (v3+)
	Bytes []byte // nil for null / not set
	Null  bool   // declared length -1 (or any negative length other than -2)
	Unset bool   // declared length -2 (v4+)
}

// QueryParams are the <query_parameters> of QUERY and EXECUTE.
type QueryParams struct {
	Consistency uint16
	Flags       uint32 // raw flags (0 in v1)

	Values            []Value
	Named             bool // flag 0x40
	SkipMetadata      bool // flag 0x02
	PageSize          int32
	HasPageSize       bool
	PagingState       []byte
	HasPagingState    bool
	SerialConsistency uint16
	HasSerial         bool
	Timestamp         int64
	HasTimestamp      bool
	Keyspace          string // v5, flag 0x80
}

// Startup is the body of STARTUP.
type Startup struct{ Options map[string]string }

// AuthResponse is the body of AUTH_RESPONSE (Token nil = null).
type AuthResponse struct{ Token []byte }

// Credentials is the body of the v1 CREDENTIALS message.
type Credentials struct{ Credentials map[string]string }

// Register is the body of REGISTER.
type Register struct{ Events []string }

// Query is the body of QUERY.
type Query struct {
	Statement string
	Params    QueryParams
}

// Prepare is the body of PREPARE.
type Prepare struct {
	Statement string
	Flags     uint32 // v5
	Keyspace  string // v5, flag 0x01
}

// Execute is the body of EXECUTE.
type Execute struct {
	ID     []byte
	Params QueryParams
}

// BatchStatement is one statement of a BATCH.
type BatchStatement struct {
	Kind      byte   // 0: Statement is set, 1: ID is set
	Statement string // kind 0
	ID        []byte // kind 1
	Values    []Value
}

// Batch is the body of BATCH.
type Batch struct {
	Type              byte // 0 logged, 1 unlogged, 2 counter
	Statements        []BatchStatement
	Consistency       uint16
	Flags             uint32 // v3+
	SerialConsistency uint16
	HasSerial         bool
	Timestamp         int64
	HasTimestamp      bool
	Keyspace          string // v5 flag 0x80
}

// Request is one request frame as the node received it.
type Request struct {
	// Seq is the position of the request in the Net-wide arrival order; NodeIndex the position
	// among the requests of its node, ConnIndex among those of its connection (all from 0).
	Seq       int64
	NodeIndex int
	ConnIndex int
	Conn      *ServerConn

	Header Header
	// Raw is the whole frame as received, Body the body after decompression (including the custom
	// payload prefix, if any).
	Raw  []byte
	Body []byte
	// Offset is the absolute offset of the frame's first byte in the connection's client->server
	// byte stream.
	Offset int64

	CustomPayload map[string][]byte // header flag 0x04
	Tracing       bool              // header flag 0x02

	// Exactly one of these is set, according to Header.Opcode (none for OPTIONS, unknown opcodes,
	// or when ParseErr is set).
	Startup      *Startup
	AuthResponse *AuthResponse
	Credentials  *Credentials
	Register     *Register
	Query        *Query
	Prepare      *Prepare
	Execute      *Execute
	Batch        *Batch

	// ParseErr is set when the body could not be decoded (the handler is still called).
	// Trailing is the number of body bytes left over after decoding.
	ParseErr error
	Trailing int

	handled int32
}

// Handled reports whether the handler (rule, custom handler or default) has returned for this
// request. Requests appear in Node.Requests as soon as they are received, i.e. possibly before.
func (r *Request) Handled() bool { return atomic.LoadInt32(&r.handled) == 1 }

// Proto is the request's protocol version.
func (r *Request) Proto() int { return r.Header.Proto() }

// Op is the request's opcode.
func (r *Request) Op() byte { return r.Header.Opcode }

// Stream is the request's stream id.
func (r *Request) Stream() int { return r.Header.Stream }

// Statement returns the CQL text of a QUERY or PREPARE, or of an EXECUTE whose id was prepared on
// this Net; "" otherwise.
func (r *Request) Statement() string {
	switch {
	case r.Query != nil:
		return r.Query.Statement
	case r.Prepare != nil:
		return r.Prepare.Statement
	case r.Execute != nil && r.Conn != nil:
		if p := r.Conn.node.net.preparedByID(r.Execute.ID); p != nil {
			return p.Statement
		}
	}
	return ""
}

// Key is the counter key of the request: "OPTIONS", "QUERY:<statement>", "PREPARE:<statement>",
// "EXECUTE:<hex id>", "BATCH", ...
func (r *Request) Key() string {
	switch {
	case r.Query != nil:
		return "QUERY:" + r.Query.Statement
	case r.Prepare != nil:
		return "PREPARE:" + r.Prepare.Statement
	case r.Execute != nil:
		return "EXECUTE:" + hex.EncodeToString(r.Execute.ID)
	}
	return OpName(r.Header.Opcode)
}

func (r *Request) String() string {
	s := fmt.Sprintf("#%d v%d stream=%d %s", r.NodeIndex, r.Proto(), r.Header.Stream, OpName(r.Header.Opcode))
	switch {
	case r.ParseErr != nil:
		s += " PARSE-ERROR " + r.ParseErr.Error()
	case r.Query != nil:
		s += fmt.Sprintf(" %q values=%d", oneLine(r.Query.Statement), len(r.Query.Params.Values))
	case r.Prepare != nil:
		s += fmt.Sprintf(" %q", oneLine(r.Prepare.Statement))
	case r.Execute != nil:
		s += fmt.Sprintf(" id=%x values=%d", r.Execute.ID, len(r.Execute.Params.Values))
		if st := r.Statement(); st != "" {
			s += fmt.Sprintf(" (%q)", oneLine(st))
		}
	case r.Batch != nil:
		s += fmt.Sprintf(" type=%d statements=%d", r.Batch.Type, len(r.Batch.Statements))
	case r.Register != nil:
		s += fmt.Sprintf(" %v", r.Register.Events)
	case r.Startup != nil:
		s += fmt.Sprintf(" %v", r.Startup.Options)
	}
	return s
}

func oneLine(s string) string { return strings.Join(strings.Fields(s), " ") }

// BodyCodec compresses and decompresses frame bodies; gocql.SnappyCompressor and the lz4
// compressor satisfy it, as does the package's own Snappy.
type BodyCodec interface {
	Name() string
	Encode(data []byte) ([]byte, error)
	Decode(data []byte) ([]byte, error)
}

// ParseRequest decodes one complete request frame (header and body). codec is used when the
// compression flag is set (nil: such a frame yields ParseErr). The result is never nil; structural
// problems are reported in ParseErr.
func ParseRequest(frame []byte, codec BodyCodec) *Request {
	req := &Request{Raw: frame}
	h, err := ParseHeader(frame)
	req.Header = h
	if err != nil {
		req.ParseErr = err
		return req
	}
	hs := HeaderSize(h.Proto())
	body := frame[hs:]
	if int(h.Length) != len(body) {
		req.ParseErr = fmt.Errorf("node: header length %d but %d body bytes", h.Length, len(body))
		return req
	}
	if h.Flags&FlagCompression != 0 && len(body) > 0 {
		if codec == nil {
			req.ParseErr = fmt.Errorf("node: compressed frame but no codec negotiated")
			return req
		}
		body, err = codec.Decode(body)
		if err != nil {
			req.ParseErr = fmt.Errorf("node: decompress: %v", err)
			return req
		}
	}
	req.Body = body
	req.Tracing = h.Flags&FlagTracing != 0
	parseBody(req)
	return req
}

func parseBody(req *Request) {
	v := req.Proto()
	r := &Reader{B: req.Body}
	if req.Header.Flags&FlagCustomPayload != 0 && v >= 4 {
		req.CustomPayload = r.BytesMap()
	}
	switch req.Header.Opcode {
	case OpStartup:
		req.Startup = &Startup{Options: r.StringMap()}
	case OpOptions:
	case OpAuthResponse:
		tok, _ := r.Bytes()
		req.AuthResponse = &AuthResponse{Token: tok}
	case OpCredentials:
		req.Credentials = &Credentials{Credentials: r.StringMap()}
	case OpRegister:
		req.Register = &Register{Events: r.StringList()}
	case OpQuery:
		q := &Query{Statement: r.LongString()}
		q.Params = readQueryParams(r, v)
		req.Query = q
	case OpPrepare:
		p := &Prepare{Statement: r.LongString()}
		if v >= 5 {
			p.Flags = uint32(r.Int())
			if p.Flags&0x01 != 0 {
				p.Keyspace = r.String()
			}
		}
		req.Prepare = p
	case OpExecute:
		e := &Execute{ID: r.ShortBytes()}
		if v == 1 {
			e.Params.Values = readValues(r, v, false)
			e.Params.Consistency = r.Short()
		} else {
			e.Params = readQueryParams(r, v)
		}
		req.Execute = e
	case OpBatch:
		req.Batch = readBatch(r, v)
	default:
		req.ParseErr = fmt.Errorf("node: opcode 0x%02x is not a request", req.Header.Opcode)
		return
	}
	if r.Err != nil {
		req.ParseErr = r.Err
		return
	}
	req.Trailing = r.Left()
}

func readValues(r *Reader, v int, named bool) []Value {
	n := int(r.Short())
	vals := make([]Value, 0, n)
	for i := 0; i < n && r.Err == nil; i++ {
		var val Value
		if named {
			val.Name = r.String()
		}
		p, l := r.Bytes()
		switch {
		case l == -2 && v >= 4:
			val.Unset = true
		case l < 0:
			val.Null = true
		default:
			val.Bytes = p
		}
		vals = append(vals, val)
	}
	return vals
}

func readQueryParams(r *Reader, v int) QueryParams {
	var p QueryParams
	p.Consistency = r.Short()
	if v == 1 {
		return p
	}
	if v >= 5 {
		p.Flags = uint32(r.Int())
	} else {
		p.Flags = uint32(r.Byte())
	}
	p.Named = p.Flags&QFNamedValues != 0
	p.SkipMetadata = p.Flags&QFSkipMetadata != 0
	if p.Flags&QFValues != 0 {
		p.Values = readValues(r, v, p.Named)
	}
	if p.Flags&QFPageSize != 0 {
		p.HasPageSize = true
		p.PageSize = r.Int()
	}
	if p.Flags&QFPagingState != 0 {
		p.HasPagingState = true
		p.PagingState, _ = r.Bytes()
	}
	if p.Flags&QFSerialConsistency != 0 {
		p.HasSerial = true
		p.SerialConsistency = r.Short()
	}
	if p.Flags&QFTimestamp != 0 {
		p.HasTimestamp = true
		p.Timestamp = r.Long()
	}
	if p.Flags&QFKeyspace != 0 && v >= 5 {
		p.Keyspace = r.String()
	}
	return p
}

func readBatch(r *Reader, v int) *Batch {
	b := &Batch{Type: r.Byte()}
	n := int(r.Short())
	// In v3+ the flags (and with them the "named values" bit) come after the statements; the
	// specification notes that names in batches are unusable (CASSANDRA-10246), so values are read
	// unnamed, as every server does.
	for i := 0; i < n && r.Err == nil; i++ {
		var s BatchStatement
		s.Kind = r.Byte()
		if s.Kind == 0 {
			s.Statement = r.LongString()
		} else {
			s.ID = r.ShortBytes()
		}
		s.Values = readValues(r, v, false)
		b.Statements = append(b.Statements, s)
	}
	b.Consistency = r.Short()
	if v >= 3 {
		if v >= 5 {
			b.Flags = uint32(r.Int())
		} else {
			b.Flags = uint32(r.Byte())
		}
		if b.Flags&QFSerialConsistency != 0 {
			b.HasSerial = true
			b.SerialConsistency = r.Short()
		}
		if b.Flags&QFTimestamp != 0 {
			b.HasTimestamp = true
			b.Timestamp = r.Long()
		}
		if b.Flags&QFKeyspace != 0 && v >= 5 {
			b.Keyspace = r.String()
		}
	}
	return b
}
