package node

import (
	"context"
	"fmt"

	"github.com/gocql/gocql"
)

// DialHost implements gocql.HostDialer: it dials the host's connect address and port on the Net.
// (This file is the only place where the package touches gocql, and only for these two types.)
func (d *Dialer) DialHost(ctx context.Context, host *gocql.HostInfo) (dh *gocql.DialedHost, err error) {
	defer func() {
		// HostInfo.ConnectAddressAndPort panics on a host without a usable address
		if r := recover(); r != nil {
			dh, err = nil, fmt.Errorf("node: DialHost: %v", r)
		}
	}()
	conn, err := d.DialContext(ctx, "tcp", host.ConnectAddressAndPort())
	if err != nil {
		return nil, err
	}
	return &gocql.DialedHost{Conn: conn, DisableCoalesce: d.DisableCoalesce}, nil
}

var (
	_ gocql.Dialer     = (*Dialer)(nil)
	_ gocql.HostDialer = (*Dialer)(nil)
)
