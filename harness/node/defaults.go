package node

import (
	"bytes"
	"crypto/tls"
	"encoding/binary"
	"fmt"
	"net"
	"sort"
	"strconv"
	"strings"
)

// ---------------------------------------------------------------------------------------------
// Configuration
// ---------------------------------------------------------------------------------------------

// Auth makes the default handler demand authentication: STARTUP is answered with
// AUTHENTICATE(Class); each AUTH_RESPONSE is answered with the next of Challenges while there are
// any, then with AUTH_SUCCESS(SuccessToken) or ERROR bad-credentials.
type Auth struct {
	// Class is the authenticator class announced (default
	// "org.apache.cassandra.auth.PasswordAuthenticator").
	Class string
	// Users maps user names to passwords; the last AUTH_RESPONSE token must be the SASL PLAIN
	// form "\x00user\x00password". With Users and Check both nil every token is accepted.
	Users map[string]string
	// Check, if set, decides instead of Users; it gets every token received on the connection.
	Check func(tokens [][]byte) bool
	// Challenges are sent as AUTH_CHALLENGE, one per AUTH_RESPONSE, before the verdict.
	Challenges [][]byte
	// SuccessToken is the body of AUTH_SUCCESS (nil = null).
	SuccessToken []byte
}

// Peer is a row of system.peers that does not come from a node of the Net (see Config.ExtraPeers).
// Zero-valued fields are written as null, which lets tests present incomplete peers.
type Peer struct {
	Peer           net.IP
	RPCAddress     net.IP
	PreferredIP    net.IP
	HostID         string
	DataCenter     string
	Rack           string
	Tokens         []string
	ReleaseVersion string
	SchemaVersion  string
	NativePort     int // peers_v2 only
}

// Config is the configuration of a node's default handler. AddNode fills in defaults; change it with
// Node.Update.
type Config struct {
	// ---- what the node says about itself in system.local, and the others say in system.peers ----
	HostID           string   // default: DeterministicUUID("host " + addr)
	DataCenter, Rack string   // default "dc1", "rack1"
	Tokens           []string // default (nil): evenly spaced Murmur3 tokens, one per ring node
	ReleaseVersion   string   // default "3.11.10" (>= 4: the driver tries system.peers_v2; < 3: legacy schema tables)
	CQLVersion       string   // default "3.4.4"
	RPCAddress       net.IP   // default: the node's IP; likewise BroadcastAddress, ListenAddress
	BroadcastAddress net.IP
	ListenAddress    net.IP
	PreferredIP      net.IP // default nil (null)
	SchemaVersion    string // default "": the Net's (SetSchemaVersion)
	// InRing: the node is listed in the other nodes' system.peers (default true).
	InRing bool
	// PeersV2: system.peers_v2 exists (default false: the query fails with "unconfigured table",
	// code Invalid, and the driver falls back to system.peers).
	PeersV2 bool
	// ExtraPeers are appended to this node's system.peers / peers_v2 rows.
	ExtraPeers []Peer
	// HidePeers lists node addresses left out of this node's system.peers.
	HidePeers []string

	// ---- protocol ----
	// MinProto..MaxProto are the protocol versions accepted (default 1..5). A frame of another
	// version is answered, on stream 0 in version MaxProto, with the ERROR Cassandra sends
	// ("Invalid or unsupported protocol version (N); the lowest supported version is A and the
	// greatest is B") and the connection is closed.
	MinProto, MaxProto int
	// Supported is the body of SUPPORTED.
	Supported map[string][]string
	// Codecs are the body compressions STARTUP may select (default: "snappy" and "lz4"). A STARTUP naming
	// another one gets a protocol ERROR.
	Codecs map[string]BodyCodec
	// CompressResponses: once compression is negotiated, compress response bodies (default true;
	// empty bodies are never compressed).
	CompressResponses bool
	// Auth, if not nil, switches authentication on.
	Auth *Auth
	// TLS, if not nil when a connection is accepted, makes the node speak TLS on it (server side,
	// handshake on the first read). Offsets of faults, Splits and the recorded streams then refer
	// to the encrypted bytes; Request.Offset still counts plaintext frame bytes.
	TLS *tls.Config

	// ---- data requests ----
	// UnknownError, if not nil, is the answer to statements the default handler does not
	// understand (default: an empty rows result for SELECT, void for anything else).
	UnknownError *Error
}

func (c Config) clone() Config {
	d := c
	d.Tokens = append([]string(nil), c.Tokens...)
	d.ExtraPeers = append([]Peer(nil), c.ExtraPeers...)
	d.HidePeers = append([]string(nil), c.HidePeers...)
	if c.Supported != nil {
		d.Supported = make(map[string][]string, len(c.Supported))
		for k, v := range c.Supported {
			d.Supported[k] = append([]string(nil), v...)
		}
	}
	if c.Codecs != nil {
		d.Codecs = make(map[string]BodyCodec, len(c.Codecs))
		for k, v := range c.Codecs {
			d.Codecs[k] = v
		}
	}
	if c.Tokens == nil {
		d.Tokens = nil
	}
	return d
}

func defaultConfig(addr string) Config {
	return Config{
		HostID:         DeterministicUUID("host " + addr),
		DataCenter:     "dc1",
		Rack:           "rack1",
		ReleaseVersion: "3.11.10",
		CQLVersion:     "3.4.4",
		InRing:         true,
		MinProto:       1,
		MaxProto:       5,
		Supported: map[string][]string{
			"CQL_VERSION":       {"3.4.4"},
			"COMPRESSION":       {"snappy", "lz4"},
			"PROTOCOL_VERSIONS": {"3/v3", "4/v4", "5/v5-beta"},
		},
		Codecs:            map[string]BodyCodec{"snappy": Snappy{}, "lz4": LZ4{}},
		CompressResponses: true,
	}
}

// Keyspace is the cluster-wide definition of a keyspace (system_schema.keyspaces).
type Keyspace struct {
	// Replication is the replication map including "class", e.g. SimpleStrategy(3).
	Replication   map[string]string
	DurableWrites bool
}

// SimpleStrategy and NetworkTopologyStrategy build replication maps.
func SimpleStrategy(rf int) map[string]string {
	return map[string]string{"class": "org.apache.cassandra.locator.SimpleStrategy", "replication_factor": strconv.Itoa(rf)}
}

func NetworkTopologyStrategy(rfByDC map[string]int) map[string]string {
	m := map[string]string{"class": "org.apache.cassandra.locator.NetworkTopologyStrategy"}
	for dc, rf := range rfByDC {
		m[dc] = strconv.Itoa(rf)
	}
	return m
}

// Table is a table the default handler can answer SELECTs from (and take bind metadata from).
type Table struct {
	Keyspace, Name string
	Columns        []Column // Keyspace/Table of the columns are filled in
	// PartitionKey and Clustering name key columns: used for the pk indexes of PREPARE results and
	// for the rows of system_schema.columns.
	PartitionKey []string
	Clustering   []string
	// Rows: one []byte per column, nil = null.
	Rows [][][]byte
}

func (t *Table) colIndex(name string) int {
	for i, c := range t.Columns {
		if c.Name == name {
			return i
		}
	}
	return -1
}

// PreparedSpec is the metadata the default handler returns for PREPARE of a given statement.
type PreparedSpec struct {
	ID              []byte // default: PreparedID(keyspace, statement)
	Bind            []Column
	PKIndexes       []uint16
	Result          []Column
	Keyspace, Table string
}

// PreparedStatement is a statement some node of the Net has prepared.
type PreparedStatement struct {
	ID        []byte
	Statement string
	Keyspace  string // the connection's keyspace when it was prepared
	Spec      PreparedSpec
}

// SetClusterName, SetPartitioner and SetSchemaVersion set what every node reports in system.local
// (defaults: "verif-cluster", Murmur3Partitioner, a fixed UUID).
func (n *Net) SetClusterName(s string)   { n.mu.Lock(); n.clusterName = s; n.mu.Unlock() }
func (n *Net) SetPartitioner(s string)   { n.mu.Lock(); n.partitioner = s; n.mu.Unlock() }
func (n *Net) SetSchemaVersion(s string) { n.mu.Lock(); n.schemaVersion = s; n.mu.Unlock() }

// SetKeyspace defines (or redefines) a keyspace for the schema tables of every node.
func (n *Net) SetKeyspace(name string, ks Keyspace) {
	n.mu.Lock()
	n.keyspaces[name] = ks
	n.mu.Unlock()
}

// DropKeyspace removes a keyspace definition.
func (n *Net) DropKeyspace(name string) {
	n.mu.Lock()
	delete(n.keyspaces, name)
	n.mu.Unlock()
}

// SetTable defines (or replaces) a table: the default handler of every node answers SELECTs on it,
// derives bind metadata from it, and lists it in system_schema.tables / columns.
func (n *Net) SetTable(t *Table) {
	cp := *t
	cp.Columns = append([]Column(nil), t.Columns...)
	for i := range cp.Columns {
		cp.Columns[i].Keyspace, cp.Columns[i].Table = t.Keyspace, t.Name
	}
	n.mu.Lock()
	n.tables[t.Keyspace+"."+t.Name] = &cp
	n.mu.Unlock()
}

// SetPrepared fixes the metadata returned for PREPARE of stmt (compared after collapsing white
// space) instead of the inferred one.
func (n *Net) SetPrepared(stmt string, spec PreparedSpec) {
	n.mu.Lock()
	n.prepSpecs[oneLine(stmt)] = spec
	n.mu.Unlock()
}

// Prepared returns the statement registered under a prepared id by some node of the Net, or nil.
func (n *Net) Prepared(id []byte) *PreparedStatement { return n.preparedByID(id) }

func (n *Net) preparedByID(id []byte) *PreparedStatement {
	n.mu.Lock()
	defer n.mu.Unlock()
	return n.prepared[string(id)]
}

// ---------------------------------------------------------------------------------------------
// System tables
// ---------------------------------------------------------------------------------------------

func ipCell(ip net.IP) []byte {
	if ip == nil {
		return nil
	}
	return InetV(ip)
}

func textCell(s string) []byte {
	if s == "" {
		return nil
	}
	return TextV(s)
}

func uuidCell(s string) []byte {
	if s == "" {
		return nil
	}
	return UUIDV(s)
}

func major(version string) int {
	i := strings.IndexByte(version, '.')
	if i < 0 {
		i = len(version)
	}
	m, _ := strconv.Atoi(version[:i])
	return m
}

// ringTokens returns the tokens of node nd: configured ones, or one evenly spaced Murmur3 token.
func (nd *Node) ringTokens(cfg Config) []string {
	if cfg.Tokens != nil {
		return cfg.Tokens
	}
	var ring []*Node
	for _, x := range nd.net.Nodes() {
		x.mu.Lock()
		in := x.cfg.InRing
		x.mu.Unlock()
		if in || x == nd {
			ring = append(ring, x)
		}
	}
	idx := 0
	for i, x := range ring {
		if x == nd {
			idx = i
		}
	}
	step := ^uint64(0) / uint64(len(ring))
	return []string{strconv.FormatInt(int64(uint64(idx)*step+1<<63), 10)}
}

func (nd *Node) effective(cfg Config) (rpc, bcast, listen net.IP, schema, cluster, part string) {
	rpc, bcast, listen = cfg.RPCAddress, cfg.BroadcastAddress, cfg.ListenAddress
	if rpc == nil {
		rpc = nd.ip
	}
	if bcast == nil {
		bcast = nd.ip
	}
	if listen == nil {
		listen = nd.ip
	}
	nd.net.mu.Lock()
	schema, cluster, part = nd.net.schemaVersion, nd.net.clusterName, nd.net.partitioner
	nd.net.mu.Unlock()
	if cfg.SchemaVersion != "" {
		schema = cfg.SchemaVersion
	}
	return
}

func cols(ks, table string, spec ...interface{}) []Column {
	var out []Column
	for i := 0; i+1 < len(spec); i += 2 {
		out = append(out, Column{Keyspace: ks, Table: table, Name: spec[i].(string), Type: spec[i+1].(Type)})
	}
	return out
}

func rowOf(t *Table, m map[string][]byte) [][]byte {
	row := make([][]byte, len(t.Columns))
	for i, c := range t.Columns {
		row[i] = m[c.Name]
	}
	return row
}

// systemTable builds the named system table as node nd presents it in protocol version v.
// found is false for a table that does not exist on this node.
func (nd *Node) systemTable(name string, v int) (t *Table, found bool) {
	cfg := nd.Config()
	maj := major(cfg.ReleaseVersion)
	dot := strings.IndexByte(name, '.')
	ks, tn := name[:dot], name[dot+1:]
	mk := func(pk []string, spec ...interface{}) *Table {
		return &Table{Keyspace: ks, Name: tn, Columns: cols(ks, tn, spec...), PartitionKey: pk}
	}
	textMap := Map(Varchar, Varchar)
	switch name {
	case "system.local":
		rpc, bcast, listen, schema, cluster, part := nd.effective(cfg)
		t = mk([]string{"key"}, "key", Varchar, "bootstrapped", Varchar, "broadcast_address", Inet, "cluster_name", Varchar,
			"cql_version", Varchar, "data_center", Varchar, "host_id", UUID, "listen_address", Inet,
			"native_protocol_version", Varchar, "partitioner", Varchar, "rack", Varchar, "release_version", Varchar,
			"rpc_address", Inet, "schema_version", UUID, "tokens", Set(Varchar))
		t.Rows = [][][]byte{rowOf(t, map[string][]byte{
			"key": TextV("local"), "bootstrapped": TextV("COMPLETED"), "broadcast_address": ipCell(bcast),
			"cluster_name": textCell(cluster), "cql_version": textCell(cfg.CQLVersion), "data_center": textCell(cfg.DataCenter),
			"host_id": uuidCell(cfg.HostID), "listen_address": ipCell(listen), "native_protocol_version": TextV(strconv.Itoa(v)),
			"partitioner": textCell(part), "rack": textCell(cfg.Rack), "release_version": textCell(cfg.ReleaseVersion),
			"rpc_address": ipCell(rpc), "schema_version": uuidCell(schema), "tokens": TextListV(v, nd.ringTokens(cfg)...),
		})}
		return t, true
	case "system.peers", "system.peers_v2":
		v2 := name == "system.peers_v2"
		if v2 && !cfg.PeersV2 {
			return nil, false
		}
		if v2 {
			t = mk([]string{"peer"}, "peer", Inet, "peer_port", Int, "data_center", Varchar, "host_id", UUID, "native_address", Inet,
				"native_port", Int, "preferred_ip", Inet, "preferred_port", Int, "rack", Varchar, "release_version", Varchar,
				"schema_version", UUID, "tokens", Set(Varchar))
		} else {
			t = mk([]string{"peer"}, "peer", Inet, "data_center", Varchar, "host_id", UUID, "preferred_ip", Inet, "rack", Varchar,
				"release_version", Varchar, "rpc_address", Inet, "schema_version", UUID, "tokens", Set(Varchar))
		}
		hidden := map[string]bool{}
		for _, a := range cfg.HidePeers {
			hidden[a] = true
		}
		var peers []Peer
		for _, o := range nd.net.Nodes() {
			if o == nd || hidden[o.addr] {
				continue
			}
			oc := o.Config()
			if !oc.InRing {
				continue
			}
			rpc, bcast, _, schema, _, _ := o.effective(oc)
			peers = append(peers, Peer{Peer: bcast, RPCAddress: rpc, PreferredIP: oc.PreferredIP, HostID: oc.HostID, DataCenter: oc.DataCenter,
				Rack: oc.Rack, Tokens: o.ringTokens(oc), ReleaseVersion: oc.ReleaseVersion, SchemaVersion: schema, NativePort: o.port})
		}
		peers = append(peers, cfg.ExtraPeers...)
		for _, p := range peers {
			var tokens []byte
			if p.Tokens != nil {
				tokens = TextListV(v, p.Tokens...)
			}
			m := map[string][]byte{"peer": ipCell(p.Peer), "data_center": textCell(p.DataCenter), "host_id": uuidCell(p.HostID),
				"preferred_ip": ipCell(p.PreferredIP), "rack": textCell(p.Rack), "release_version": textCell(p.ReleaseVersion),
				"schema_version": uuidCell(p.SchemaVersion), "tokens": tokens}
			if v2 {
				m["peer_port"] = IntV(7000)
				m["native_address"] = ipCell(p.RPCAddress)
				if p.NativePort != 0 {
					m["native_port"] = IntV(int32(p.NativePort))
				}
				m["preferred_port"] = nil
			} else {
				m["rpc_address"] = ipCell(p.RPCAddress)
			}
			t.Rows = append(t.Rows, rowOf(t, m))
		}
		return t, true
	}

	nd.net.mu.Lock()
	kss := make(map[string]Keyspace, len(nd.net.keyspaces))
	for k, v := range nd.net.keyspaces {
		kss[k] = v
	}
	var tabs []*Table
	for _, tb := range nd.net.tables {
		tabs = append(tabs, tb)
	}
	nd.net.mu.Unlock()
	sort.Slice(tabs, func(i, j int) bool { return tabs[i].Keyspace+"."+tabs[i].Name < tabs[j].Keyspace+"."+tabs[j].Name })
	ksNames := sortedKeys(kss)

	if ks == "system_schema" && maj >= 3 {
		switch tn {
		case "keyspaces":
			t = mk([]string{"keyspace_name"}, "keyspace_name", Varchar, "durable_writes", Boolean, "replication", textMap)
			for _, k := range ksNames {
				t.Rows = append(t.Rows, [][]byte{TextV(k), BoolV(kss[k].DurableWrites), TextMapV(v, kss[k].Replication)})
			}
		case "tables":
			t = mk([]string{"keyspace_name"}, "keyspace_name", Varchar, "table_name", Varchar, "id", UUID, "comment", Varchar)
			for _, tb := range tabs {
				t.Rows = append(t.Rows, [][]byte{TextV(tb.Keyspace), TextV(tb.Name), UUIDV(DeterministicUUID("table " + tb.Keyspace + "." + tb.Name)), TextV("")})
			}
		case "columns":
			t = mk([]string{"keyspace_name"}, "keyspace_name", Varchar, "table_name", Varchar, "column_name", Varchar,
				"clustering_order", Varchar, "column_name_bytes", Blob, "kind", Varchar, "position", Int, "type", Varchar)
			for _, tb := range tabs {
				for _, c := range tb.Columns {
					kind, pos, order := "regular", int32(-1), "none"
					for i, p := range tb.PartitionKey {
						if p == c.Name {
							kind, pos = "partition_key", int32(i)
						}
					}
					for i, p := range tb.Clustering {
						if p == c.Name {
							kind, pos, order = "clustering", int32(i), "asc"
						}
					}
					t.Rows = append(t.Rows, [][]byte{TextV(tb.Keyspace), TextV(tb.Name), TextV(c.Name), TextV(order), []byte(c.Name),
						TextV(kind), IntV(pos), TextV(TypeName(c.Type))})
				}
			}
		case "views":
			t = mk([]string{"keyspace_name"}, "keyspace_name", Varchar, "view_name", Varchar, "base_table_id", UUID, "base_table_name", Varchar,
				"bloom_filter_fp_chance", Double, "caching", textMap, "cdc", Boolean, "comment", Varchar, "compaction", textMap,
				"compression", textMap, "crc_check_chance", Double, "dclocal_read_repair_chance", Double, "default_time_to_live", Int,
				"extensions", Map(Varchar, Blob), "gc_grace_seconds", Int, "id", UUID, "include_all_columns", Boolean,
				"max_index_interval", Int, "memtable_flush_period_in_ms", Int, "min_index_interval", Int, "read_repair_chance", Double,
				"speculative_retry", Varchar, "where_clause", Varchar)
		case "types":
			t = mk([]string{"keyspace_name"}, "keyspace_name", Varchar, "type_name", Varchar, "field_names", List(Varchar), "field_types", List(Varchar))
		case "functions":
			t = mk([]string{"keyspace_name"}, "keyspace_name", Varchar, "function_name", Varchar, "argument_types", List(Varchar),
				"argument_names", List(Varchar), "body", Varchar, "called_on_null_input", Boolean, "language", Varchar, "return_type", Varchar)
		case "aggregates":
			t = mk([]string{"keyspace_name"}, "keyspace_name", Varchar, "aggregate_name", Varchar, "argument_types", List(Varchar),
				"final_func", Varchar, "initcond", Varchar, "return_type", Varchar, "state_func", Varchar, "state_type", Varchar)
		case "indexes":
			t = mk([]string{"keyspace_name"}, "keyspace_name", Varchar, "table_name", Varchar, "index_name", Varchar, "kind", Varchar, "options", textMap)
		case "triggers":
			t = mk([]string{"keyspace_name"}, "keyspace_name", Varchar, "table_name", Varchar, "trigger_name", Varchar, "options", textMap)
		case "dropped_columns":
			t = mk([]string{"keyspace_name"}, "keyspace_name", Varchar, "table_name", Varchar, "column_name", Varchar, "dropped_time", Timestamp, "type", Varchar)
		}
		return t, t != nil
	}
	if ks == "system" && maj < 3 {
		switch tn {
		case "schema_keyspaces":
			t = mk([]string{"keyspace_name"}, "keyspace_name", Varchar, "durable_writes", Boolean, "strategy_class", Varchar, "strategy_options", Varchar)
			for _, k := range ksNames {
				var opts []string
				for _, o := range sortedKeys(kss[k].Replication) {
					if o != "class" {
						opts = append(opts, strconv.Quote(o)+":"+strconv.Quote(kss[k].Replication[o]))
					}
				}
				t.Rows = append(t.Rows, [][]byte{TextV(k), BoolV(kss[k].DurableWrites), TextV(kss[k].Replication["class"]),
					TextV("{" + strings.Join(opts, ",") + "}")})
			}
		case "schema_columnfamilies":
			t = mk([]string{"keyspace_name"}, "keyspace_name", Varchar, "columnfamily_name", Varchar, "key_validator", Varchar, "comparator", Varchar,
				"default_validator", Varchar, "key_aliases", Varchar, "column_aliases", Varchar, "value_alias", Varchar)
			for _, tb := range tabs {
				classes := func(names []string) (cl []string) {
					for _, n := range names {
						if k := tb.colIndex(n); k >= 0 {
							cl = append(cl, MarshalClass(tb.Columns[k].Type))
						}
					}
					return cl
				}
				jsonList := func(names []string) string {
					q := make([]string, len(names))
					for i, n := range names {
						q[i] = strconv.Quote(n)
					}
					return "[" + strings.Join(q, ",") + "]"
				}
				keyVal := strings.Join(classes(tb.PartitionKey), ",")
				if len(tb.PartitionKey) != 1 {
					keyVal = marshalPrefix + "CompositeType(" + keyVal + ")"
				}
				comparator := marshalPrefix + "CompositeType(" + strings.Join(append(classes(tb.Clustering), marshalPrefix+"UTF8Type"), ",") + ")"
				t.Rows = append(t.Rows, [][]byte{TextV(tb.Keyspace), TextV(tb.Name), TextV(keyVal), TextV(comparator), TextV(marshalPrefix + "BytesType"),
					TextV(jsonList(tb.PartitionKey)), TextV(jsonList(tb.Clustering)), nil})
			}
		case "schema_columns":
			t = mk([]string{"keyspace_name"}, "keyspace_name", Varchar, "columnfamily_name", Varchar, "column_name", Varchar, "component_index", Int,
				"validator", Varchar, "index_name", Varchar, "index_type", Varchar, "index_options", Varchar, "type", Varchar)
			for _, tb := range tabs {
				for _, c := range tb.Columns {
					kind, pos := "regular", int32(len(tb.Clustering))
					for i, p := range tb.PartitionKey {
						if p == c.Name {
							kind, pos = "partition_key", int32(i)
						}
					}
					for i, p := range tb.Clustering {
						if p == c.Name {
							kind, pos = "clustering_key", int32(i)
						}
					}
					t.Rows = append(t.Rows, [][]byte{TextV(tb.Keyspace), TextV(tb.Name), TextV(c.Name), IntV(pos), TextV(MarshalClass(c.Type)),
						nil, nil, nil, TextV(kind)})
				}
			}
		case "schema_usertypes":
			t = mk([]string{"keyspace_name"}, "keyspace_name", Varchar, "type_name", Varchar, "field_names", List(Varchar), "field_types", List(Varchar))
		case "schema_functions":
			t = mk([]string{"keyspace_name"}, "keyspace_name", Varchar, "function_name", Varchar, "argument_types", List(Varchar),
				"argument_names", List(Varchar), "body", Varchar, "called_on_null_input", Boolean, "language", Varchar, "return_type", Varchar)
		case "schema_aggregates":
			t = mk([]string{"keyspace_name"}, "keyspace_name", Varchar, "aggregate_name", Varchar, "argument_types", List(Varchar),
				"final_func", Varchar, "initcond", Varchar, "return_type", Varchar, "state_func", Varchar, "state_type", Varchar)
		}
		return t, t != nil
	}
	return nil, false
}

// TypeName is the CQL name of a column type as system_schema.columns spells it.
func TypeName(t Type) string {
	names := map[uint16]string{TAscii: "ascii", TBigint: "bigint", TBlob: "blob", TBoolean: "boolean", TCounter: "counter",
		TDecimal: "decimal", TDouble: "double", TFloat: "float", TInt: "int", TText: "text", TTimestamp: "timestamp", TUUID: "uuid",
		TVarchar: "text", TVarint: "varint", TTimeuuid: "timeuuid", TInet: "inet", TDate: "date", TTime: "time",
		TSmallint: "smallint", TTinyint: "tinyint", TDuration: "duration"}
	if s, ok := names[t.ID]; ok {
		return s
	}
	var parts []string
	for _, e := range t.Elems {
		parts = append(parts, TypeName(e))
	}
	switch t.ID {
	case TCustom:
		return "'" + t.Custom + "'"
	case TList:
		return "list<" + TypeName(t.elem(0)) + ">"
	case TSet:
		return "set<" + TypeName(t.elem(0)) + ">"
	case TMap:
		return "map<" + TypeName(t.elem(0)) + ", " + TypeName(t.elem(1)) + ">"
	case TTuple:
		return "frozen<tuple<" + strings.Join(parts, ", ") + ">>"
	case TUDT:
		return "frozen<" + t.Name + ">"
	}
	return fmt.Sprintf("type_0x%04x", t.ID)
}

const marshalPrefix = "org.apache.cassandra.db.marshal."

// MarshalClass is the Java marshal class name of a column type, as the pre-3.0 schema tables (and
// custom types) spell it.
func MarshalClass(t Type) string {
	names := map[uint16]string{TAscii: "AsciiType", TBigint: "LongType", TBlob: "BytesType", TBoolean: "BooleanType",
		TCounter: "CounterColumnType", TDecimal: "DecimalType", TDouble: "DoubleType", TFloat: "FloatType", TInt: "Int32Type",
		TText: "UTF8Type", TTimestamp: "TimestampType", TUUID: "UUIDType", TVarchar: "UTF8Type", TVarint: "IntegerType",
		TTimeuuid: "TimeUUIDType", TInet: "InetAddressType", TDate: "SimpleDateType", TTime: "TimeType", TSmallint: "ShortType",
		TTinyint: "ByteType", TDuration: "DurationType"}
	if s, ok := names[t.ID]; ok {
		return marshalPrefix + s
	}
	var parts []string
	for _, e := range t.Elems {
		parts = append(parts, MarshalClass(e))
	}
	switch t.ID {
	case TCustom:
		return t.Custom
	case TList:
		return marshalPrefix + "ListType(" + strings.Join(parts, ",") + ")"
	case TSet:
		return marshalPrefix + "SetType(" + strings.Join(parts, ",") + ")"
	case TMap:
		return marshalPrefix + "MapType(" + strings.Join(parts, ",") + ")"
	case TTuple:
		return marshalPrefix + "TupleType(" + strings.Join(parts, ",") + ")"
	}
	return marshalPrefix + "BytesType"
}

// lookupTable resolves a table name as written in a statement, for a connection.
// system: the name is in a system keyspace (so that "not found" is an error, not an empty result).
func (nd *Node) lookupTable(name, keyspace string, v int) (t *Table, found, system bool) {
	if name == "" {
		return nil, false, false
	}
	if !strings.Contains(name, ".") {
		if keyspace == "" {
			return nil, false, false
		}
		name = keyspace + "." + name
	}
	ks := name[:strings.IndexByte(name, '.')]
	if ks == "system" || ks == "system_schema" {
		t, found = nd.systemTable(name, v)
		return t, found, true
	}
	nd.net.mu.Lock()
	t = nd.net.tables[name]
	nd.net.mu.Unlock()
	return t, t != nil, false
}

// ---------------------------------------------------------------------------------------------
// The default handler
// ---------------------------------------------------------------------------------------------

// Default is the default request handler (see README.md for what it understands). Custom handlers
// and rules call it for the requests they do not want to treat themselves.
func (nd *Node) Default(c *ServerConn, req *Request) {
	cfg := nd.Config()
	v := req.Proto()
	if req.Header.IsResponse() || v < 1 || v > 5 || req.Header.Length < 0 || req.Header.Length > maxBodyLen {
		// framing is lost; the connection loop closes the connection after this handler
		return
	}
	if v < cfg.MinProto || v > cfg.MaxProto {
		zero := 0
		c.Send(cfg.MaxProto, 0, Envelope{Stream: &zero, Msg: Error{Code: ErrProtocol, Message: fmt.Sprintf(
			"Invalid or unsupported protocol version (%d); the lowest supported version is %d and the greatest is %d", v, cfg.MinProto, cfg.MaxProto)}}, req)
		c.Close()
		return
	}
	if req.ParseErr != nil {
		c.Reply(req, Error{Code: ErrProtocol, Message: req.ParseErr.Error()})
		return
	}
	c.mu.Lock()
	authed := c.authenticated
	c.mu.Unlock()
	needAuth := cfg.Auth != nil && !authed

	switch req.Header.Opcode {
	case OpOptions:
		c.Reply(req, Supported{Options: cfg.Supported})
	case OpStartup:
		opts := req.Startup.Options
		c.mu.Lock()
		c.startup = opts
		c.mu.Unlock()
		var codec BodyCodec
		if name, ok := opts["COMPRESSION"]; ok {
			codec = cfg.Codecs[name]
			if codec == nil {
				c.Reply(req, Error{Code: ErrProtocol, Message: "Unknown compression algorithm: " + name})
				return
			}
		}
		if cfg.Auth != nil {
			class := cfg.Auth.Class
			if class == "" {
				class = "org.apache.cassandra.auth.PasswordAuthenticator"
			}
			c.Reply(req, Envelope{Msg: Authenticate{Class: class}, NoCompress: true})
		} else {
			c.Reply(req, Envelope{Msg: Ready{}, NoCompress: true})
		}
		if codec != nil {
			c.SetCodec(codec)
		}
	case OpCredentials:
		if cfg.Auth != nil && !checkUsers(cfg.Auth, req.Credentials.Credentials["username"], req.Credentials.Credentials["password"], nil) {
			c.Reply(req, Error{Code: ErrBadCredentials, Message: "Provided username and/or password are incorrect"})
			return
		}
		c.mu.Lock()
		c.authenticated = true
		c.mu.Unlock()
		c.Reply(req, Ready{})
	case OpAuthResponse:
		if cfg.Auth == nil {
			c.Reply(req, Error{Code: ErrProtocol, Message: "Unexpected message AUTH_RESPONSE"})
			return
		}
		c.mu.Lock()
		c.authTokens = append(c.authTokens, req.AuthResponse.Token)
		tokens := append([][]byte(nil), c.authTokens...)
		c.mu.Unlock()
		if n := len(tokens); n <= len(cfg.Auth.Challenges) {
			c.Reply(req, AuthChallenge{Token: cfg.Auth.Challenges[n-1]})
			return
		}
		user, pass := plainToken(req.AuthResponse.Token)
		if !checkUsers(cfg.Auth, user, pass, tokens) {
			c.Reply(req, Error{Code: ErrBadCredentials, Message: fmt.Sprintf("Provided username %s and/or password are incorrect", user)})
			return
		}
		c.mu.Lock()
		c.authenticated = true
		c.mu.Unlock()
		c.Reply(req, AuthSuccess{Token: cfg.Auth.SuccessToken})
	case OpRegister:
		if needAuth {
			c.Reply(req, Error{Code: ErrUnauthorized, Message: "You have not logged in"})
			return
		}
		c.Register(req.Register.Events...)
		c.Reply(req, Ready{})
	case OpQuery:
		if needAuth {
			c.Reply(req, Error{Code: ErrUnauthorized, Message: "You have not logged in"})
			return
		}
		ks := c.Keyspace()
		if req.Query.Params.Keyspace != "" {
			ks = req.Query.Params.Keyspace
		}
		c.Reply(req, nd.execute(c, cfg, v, req.Query.Statement, ks, req.Query.Params, nil))
	case OpPrepare:
		if needAuth {
			c.Reply(req, Error{Code: ErrUnauthorized, Message: "You have not logged in"})
			return
		}
		ks := c.Keyspace()
		if req.Prepare.Keyspace != "" {
			ks = req.Prepare.Keyspace
		}
		c.Reply(req, nd.prepare(v, req.Prepare.Statement, ks))
	case OpExecute:
		if needAuth {
			c.Reply(req, Error{Code: ErrUnauthorized, Message: "You have not logged in"})
			return
		}
		p := nd.knownPrepared(req.Execute.ID)
		if p == nil {
			c.Reply(req, Unprepared(req.Execute.ID))
			return
		}
		c.Reply(req, nd.execute(c, cfg, v, p.Statement, p.Keyspace, req.Execute.Params, p))
	case OpBatch:
		if needAuth {
			c.Reply(req, Error{Code: ErrUnauthorized, Message: "You have not logged in"})
			return
		}
		for _, s := range req.Batch.Statements {
			if s.Kind == 1 && nd.knownPrepared(s.ID) == nil {
				c.Reply(req, Unprepared(s.ID))
				return
			}
		}
		c.Reply(req, Void{})
	default:
		c.Reply(req, Error{Code: ErrProtocol, Message: fmt.Sprintf("Unknown opcode %d", req.Header.Opcode)})
	}
}

func plainToken(tok []byte) (user, pass string) {
	parts := bytes.Split(tok, []byte{0})
	if len(parts) == 3 {
		return string(parts[1]), string(parts[2])
	}
	return "", ""
}

func checkUsers(a *Auth, user, pass string, tokens [][]byte) bool {
	if a.Check != nil {
		return a.Check(tokens)
	}
	if a.Users == nil {
		return true
	}
	p, ok := a.Users[user]
	return ok && p == pass
}

func (nd *Node) knownPrepared(id []byte) *PreparedStatement {
	nd.mu.Lock()
	known := nd.knownIDs[string(id)]
	nd.mu.Unlock()
	if !known {
		return nil
	}
	return nd.net.preparedByID(id)
}

func splitTable(name, keyspace string) (ks, tbl string) {
	if i := strings.IndexByte(name, '.'); i >= 0 {
		return name[:i], name[i+1:]
	}
	return keyspace, name
}

// inferSpec derives prepared metadata from the statement text (and a known table, if any).
func (nd *Node) inferSpec(v int, stmt, keyspace string) PreparedSpec {
	si := analyze(stmt)
	t, found, _ := nd.lookupTable(si.table, keyspace, v)
	var spec PreparedSpec
	spec.Keyspace, spec.Table = splitTable(si.table, keyspace)
	inMarker := map[int]bool{}
	for _, c := range si.conds {
		if c.op == "in" && c.marker >= 0 {
			inMarker[c.marker] = true
		}
	}
	for i, name := range si.markers {
		col := Column{Keyspace: spec.Keyspace, Table: spec.Table, Name: name, Type: Varchar}
		switch name {
		case "":
			col.Name = "arg" + strconv.Itoa(i)
		case "[limit]", "[ttl]":
			col.Type = Int
		case "[timestamp]":
			col.Type = Bigint
		default:
			if found {
				if k := t.colIndex(name); k >= 0 {
					col.Type = t.Columns[k].Type
				}
			}
		}
		if inMarker[i] {
			col.Type = List(col.Type)
			col.Name = "in(" + col.Name + ")"
		}
		spec.Bind = append(spec.Bind, col)
	}
	if found && len(t.PartitionKey) > 0 {
		var pk []uint16
		for _, p := range t.PartitionKey {
			idx := -1
			for i, name := range si.markers {
				if name == p && !inMarker[i] {
					idx = i
					break
				}
			}
			if idx < 0 {
				pk = nil
				break
			}
			pk = append(pk, uint16(idx))
		}
		spec.PKIndexes = pk
	}
	if si.verb == "select" && found && si.selectOK {
		if colsOut, _, err := project(t, si); err == nil {
			spec.Result = colsOut
		}
	}
	return spec
}

func (nd *Node) prepare(v int, stmt, keyspace string) Message {
	nd.net.mu.Lock()
	spec, fixed := nd.net.prepSpecs[oneLine(stmt)]
	nd.net.mu.Unlock()
	if !fixed {
		spec = nd.inferSpec(v, stmt, keyspace)
	}
	id := spec.ID
	if id == nil {
		id = PreparedID(keyspace, stmt)
	}
	ps := &PreparedStatement{ID: id, Statement: stmt, Keyspace: keyspace, Spec: spec}
	nd.net.mu.Lock()
	nd.net.prepared[string(id)] = ps
	nd.net.mu.Unlock()
	nd.mu.Lock()
	nd.knownIDs[string(id)] = true
	nd.mu.Unlock()
	return Prepared{ID: id, Bind: spec.Bind, PKIndexes: spec.PKIndexes, Result: spec.Result, Keyspace: spec.Keyspace, Table: spec.Table,
		GlobalSpec: len(spec.Bind) > 0 && sameTable(spec.Bind, spec.Keyspace, spec.Table)}
}

func sameTable(cs []Column, ks, tbl string) bool {
	for _, c := range cs {
		if (c.Keyspace != "" && c.Keyspace != ks) || (c.Table != "" && c.Table != tbl) {
			return false
		}
	}
	return true
}

// project returns the output columns of a SELECT on t and, per output column, the index of the
// source column (-1 for count).
func project(t *Table, si *stmtInfo) ([]Column, []int, error) {
	if si.count {
		return []Column{{Keyspace: t.Keyspace, Table: t.Name, Name: "count", Type: Bigint}}, []int{-1}, nil
	}
	if si.star {
		idx := make([]int, len(t.Columns))
		for i := range idx {
			idx[i] = i
		}
		return t.Columns, idx, nil
	}
	var out []Column
	var idx []int
	for _, name := range si.cols {
		k := t.colIndex(name)
		if k < 0 {
			return nil, nil, fmt.Errorf("Undefined column name %s", name)
		}
		out = append(out, t.Columns[k])
		idx = append(idx, k)
	}
	return out, idx, nil
}

// literalCell encodes a literal of a WHERE clause for comparison with cells of type t; ok is false
// when the package does not know how.
func literalCell(t Type, lit string, isStr bool) (cell []byte, ok bool) {
	switch t.ID {
	case TAscii, TText, TVarchar:
		return []byte(lit), true
	case TInt:
		n, err := strconv.ParseInt(lit, 10, 32)
		return IntV(int32(n)), err == nil
	case TBigint, TCounter, TTimestamp:
		n, err := strconv.ParseInt(lit, 10, 64)
		return BigintV(n), err == nil
	case TSmallint:
		n, err := strconv.ParseInt(lit, 10, 16)
		return SmallintV(int16(n)), err == nil
	case TTinyint:
		n, err := strconv.ParseInt(lit, 10, 8)
		return TinyintV(int8(n)), err == nil
	case TBoolean:
		return BoolV(lit == "true"), lit == "true" || lit == "false"
	case TUUID, TTimeuuid:
		if len(strings.ReplaceAll(lit, "-", "")) != 32 {
			return nil, false
		}
		defer func() {
			if recover() != nil {
				cell, ok = nil, false
			}
		}()
		return UUIDV(lit), true
	case TInet:
		ip := net.ParseIP(lit)
		return ipCell(ip), ip != nil
	}
	return nil, false
}

// execute answers a statement (from QUERY, or from EXECUTE with the prepared statement p).
func (nd *Node) execute(c *ServerConn, cfg Config, v int, stmt, keyspace string, params QueryParams, p *PreparedStatement) Message {
	si := analyze(stmt)
	unknown := func(sel bool) Message {
		if cfg.UnknownError != nil {
			return *cfg.UnknownError
		}
		if sel {
			return Rows{NoMetadata: params.SkipMetadata}
		}
		return Void{}
	}
	switch si.verb {
	case "use":
		if si.table == "" {
			return Error{Code: ErrSyntax, Message: "line 1:3 no viable alternative at input '<EOF>'"}
		}
		c.SetKeyspace(si.table)
		return SetKeyspace{Keyspace: si.table}
	case "select":
		t, found, system := nd.lookupTable(si.table, keyspace, v)
		if !found {
			if system {
				return Error{Code: ErrInvalid, Message: "unconfigured table " + si.table[strings.IndexByte(si.table, '.')+1:]}
			}
			return unknown(true)
		}
		if !si.selectOK {
			return unknown(true)
		}
		outCols, idx, err := project(t, si)
		if err != nil {
			return Error{Code: ErrInvalid, Message: err.Error()}
		}
		// bound value of marker i
		value := func(i int, col string) (Value, bool) {
			if params.Named {
				for _, val := range params.Values {
					if val.Name == col {
						return val, true
					}
				}
				return Value{}, false
			}
			if i < len(params.Values) {
				return params.Values[i], true
			}
			return Value{}, false
		}
		var rows [][][]byte
		for _, row := range t.Rows {
			keep := true
			for _, cd := range si.conds {
				k := t.colIndex(cd.col)
				if k < 0 || cd.op != "=" || k >= len(row) {
					continue
				}
				var want []byte
				if cd.marker >= 0 {
					val, ok := value(cd.marker, cd.col)
					if !ok || val.Unset {
						continue
					}
					want = val.Bytes
				} else {
					cell, ok := literalCell(t.Columns[k].Type, cd.lit, cd.isStr)
					if !ok {
						continue
					}
					want = cell
				}
				if !bytes.Equal(row[k], want) || (row[k] == nil) != (want == nil) {
					keep = false
					break
				}
			}
			if keep {
				rows = append(rows, row)
			}
		}
		limit := si.limit
		if si.limitMarker >= 0 {
			if val, ok := value(si.limitMarker, "[limit]"); ok && len(val.Bytes) == 4 {
				limit = int(int32(binary.BigEndian.Uint32(val.Bytes)))
			}
		}
		if limit > 0 && len(rows) > limit {
			rows = rows[:limit]
		}
		res := Rows{Columns: outCols, Keyspace: t.Keyspace, Table: t.Name, GlobalSpec: true, NoMetadata: params.SkipMetadata}
		if si.count {
			res.Rows = [][][]byte{{BigintV(int64(len(rows)))}}
			return res
		}
		// paging: the state is the 8-byte big-endian index of the next row
		start := 0
		if params.HasPagingState && len(params.PagingState) == 8 {
			start = int(binary.BigEndian.Uint64(params.PagingState))
		}
		if start > len(rows) {
			start = len(rows)
		}
		end := len(rows)
		if params.HasPageSize && params.PageSize > 0 && start+int(params.PageSize) < end {
			end = start + int(params.PageSize)
			res.PagingState = BigintV(int64(end))
		}
		for _, row := range rows[start:end] {
			out := make([][]byte, len(idx))
			for j, k := range idx {
				if k < len(row) {
					out[j] = row[k]
				}
			}
			res.Rows = append(res.Rows, out)
		}
		return res
	case "insert", "update", "delete", "begin", "truncate", "create", "alter", "drop", "grant", "revoke", "list", "apply":
		if cfg.UnknownError != nil && si.verb != "insert" && si.verb != "update" && si.verb != "delete" && si.verb != "begin" {
			return *cfg.UnknownError
		}
		return Void{}
	}
	return unknown(false)
}
