package node

import (
	"errors"
	"fmt"
	"net"
	"sort"
)

// This file and request.go / response.go are a CQL native-protocol codec written from the protocol
// specifications (native_protocol_v1.spec .. v5.spec, v5 in its pre-4.0 "beta" form: same framing
// as v4, header flag 0x10). Nothing here calls into package gocql.

// Opcodes.
const (
	OpError         byte = 0x00
	OpStartup       byte = 0x01
	OpReady         byte = 0x02
	OpAuthenticate  byte = 0x03
	OpCredentials   byte = 0x04 // v1 only
	OpOptions       byte = 0x05
	OpSupported     byte = 0x06
	OpQuery         byte = 0x07
	OpResult        byte = 0x08
	OpPrepare       byte = 0x09
	OpExecute       byte = 0x0A
	OpRegister      byte = 0x0B
	OpEvent         byte = 0x0C
	OpBatch         byte = 0x0D
	OpAuthChallenge byte = 0x0E
	OpAuthResponse  byte = 0x0F
	OpAuthSuccess   byte = 0x10
)

// OpName returns the specification's name of an opcode.
func OpName(op byte) string {
	names := map[byte]string{OpError: "ERROR", OpStartup: "STARTUP", OpReady: "READY", OpAuthenticate: "AUTHENTICATE",
		OpCredentials: "CREDENTIALS", OpOptions: "OPTIONS", OpSupported: "SUPPORTED", OpQuery: "QUERY", OpResult: "RESULT",
		OpPrepare: "PREPARE", OpExecute: "EXECUTE", OpRegister: "REGISTER", OpEvent: "EVENT", OpBatch: "BATCH",
		OpAuthChallenge: "AUTH_CHALLENGE", OpAuthResponse: "AUTH_RESPONSE", OpAuthSuccess: "AUTH_SUCCESS"}
	if s, ok := names[op]; ok {
		return s
	}
	return fmt.Sprintf("OP_0x%02X", op)
}

// Header flags.
const (
	FlagCompression   byte = 0x01
	FlagTracing       byte = 0x02
	FlagCustomPayload byte = 0x04 // v4+
	FlagWarning       byte = 0x08 // v4+, responses
	FlagBeta          byte = 0x10 // v5
)

// Query flags (the <flags> of QUERY / EXECUTE parameters; one byte in v2-v4, [int] in v5).
const (
	QFValues            uint32 = 0x01
	QFSkipMetadata      uint32 = 0x02
	QFPageSize          uint32 = 0x04
	QFPagingState       uint32 = 0x08
	QFSerialConsistency uint32 = 0x10
	QFTimestamp         uint32 = 0x20 // v3+
	QFNamedValues       uint32 = 0x40 // v3+
	QFKeyspace          uint32 = 0x80 // v5
)

// Rows metadata flags.
const (
	RFGlobalTableSpec int32 = 0x01
	RFHasMorePages    int32 = 0x02
	RFNoMetadata      int32 = 0x04
)

// Result kinds.
const (
	KindVoid         int32 = 1
	KindRows         int32 = 2
	KindSetKeyspace  int32 = 3
	KindPrepared     int32 = 4
	KindSchemaChange int32 = 5
)

// Consistency levels.
const (
	Any         uint16 = 0x0000
	One         uint16 = 0x0001
	Two         uint16 = 0x0002
	Three       uint16 = 0x0003
	Quorum      uint16 = 0x0004
	All         uint16 = 0x0005
	LocalQuorum uint16 = 0x0006
	EachQuorum  uint16 = 0x0007
	Serial      uint16 = 0x0008
	LocalSerial uint16 = 0x0009
	LocalOne    uint16 = 0x000A
)

// Error codes.
const (
	ErrServer          int32 = 0x0000
	ErrProtocol        int32 = 0x000A
	ErrBadCredentials  int32 = 0x0100
	ErrUnavailable     int32 = 0x1000
	ErrOverloaded      int32 = 0x1001
	ErrBootstrapping   int32 = 0x1002
	ErrTruncate        int32 = 0x1003
	ErrWriteTimeout    int32 = 0x1100
	ErrReadTimeout     int32 = 0x1200
	ErrReadFailure     int32 = 0x1300
	ErrFunctionFailure int32 = 0x1400
	ErrWriteFailure    int32 = 0x1500
	ErrCDCWriteFailure int32 = 0x1600
	ErrCASWriteUnknown int32 = 0x1700
	ErrSyntax          int32 = 0x2000
	ErrUnauthorized    int32 = 0x2100
	ErrInvalid         int32 = 0x2200
	ErrConfig          int32 = 0x2300
	ErrAlreadyExists   int32 = 0x2400
	ErrUnprepared      int32 = 0x2500
)

// ---------------------------------------------------------------------------------------------
// Frame header
// ---------------------------------------------------------------------------------------------

// Header is a frame header. Version is the raw first byte (bit 0x80 = response).
type Header struct {
	Version byte
	Flags   byte
	Stream  int // int8 in v1-2, int16 in v3+ (sign-extended)
	Opcode  byte
	Length  int32
}

// Proto is the protocol version without the direction bit.
func (h Header) Proto() int { return int(h.Version & 0x7F) }

// IsResponse reports the direction bit.
func (h Header) IsResponse() bool { return h.Version&0x80 != 0 }

func (h Header) String() string {
	return fmt.Sprintf("[v%d%s flags=0x%02x stream=%d %s len=%d]", h.Proto(), map[bool]string{true: " resp", false: ""}[h.IsResponse()],
		h.Flags, h.Stream, OpName(h.Opcode), h.Length)
}

// HeaderSize is 8 for protocol versions 1-2 and 9 for 3 and later.
func HeaderSize(proto int) int {
	if proto < 3 {
		return 8
	}
	return 9
}

// ParseHeader decodes a header from the front of b; it needs HeaderSize(version) bytes.
func ParseHeader(b []byte) (Header, error) {
	if len(b) < 1 {
		return Header{}, errors.New("node: empty header")
	}
	h := Header{Version: b[0]}
	n := HeaderSize(h.Proto())
	if len(b) < n {
		return h, fmt.Errorf("node: short header: %d of %d bytes", len(b), n)
	}
	h.Flags = b[1]
	if n == 8 {
		h.Stream = int(int8(b[2]))
		h.Opcode = b[3]
		h.Length = int32(uint32(b[4])<<24 | uint32(b[5])<<16 | uint32(b[6])<<8 | uint32(b[7]))
	} else {
		h.Stream = int(int16(uint16(b[2])<<8 | uint16(b[3])))
		h.Opcode = b[4]
		h.Length = int32(uint32(b[5])<<24 | uint32(b[6])<<16 | uint32(b[7])<<8 | uint32(b[8]))
	}
	return h, nil
}

// AppendHeader appends the wire form of h (whatever its Length says).
func AppendHeader(dst []byte, h Header) []byte {
	dst = append(dst, h.Version, h.Flags)
	if h.Proto() < 3 {
		dst = append(dst, byte(h.Stream))
	} else {
		dst = append(dst, byte(h.Stream>>8), byte(h.Stream))
	}
	return append(dst, h.Opcode, byte(h.Length>>24), byte(h.Length>>16), byte(h.Length>>8), byte(h.Length))
}

// RawFrame builds a frame from its parts with Length = len(body). version is the raw first byte
// (use 0x80|v for a response). Nothing is validated: this is the tool for malformed frames.
func RawFrame(version, flags byte, stream int, opcode byte, body []byte) []byte {
	return RawFrameLen(version, flags, stream, opcode, int32(len(body)), body)
}

// RawFrameLen is RawFrame with an explicit (possibly untrue) length field.
func RawFrameLen(version, flags byte, stream int, opcode byte, length int32, body []byte) []byte {
	b := AppendHeader(make([]byte, 0, 9+len(body)), Header{Version: version, Flags: flags, Stream: stream, Opcode: opcode, Length: length})
	return append(b, body...)
}

// ---------------------------------------------------------------------------------------------
// Buf: body writer for the protocol's primitive notations
// ---------------------------------------------------------------------------------------------

// Buf builds a frame body. The methods append one notation of the specification each and return
// the receiver so that calls chain: new(node.Buf).Int(2).String("x").B
type Buf struct{ B []byte }

func (b *Buf) Raw(p []byte) *Buf { b.B = append(b.B, p...); return b }
func (b *Buf) Byte(v byte) *Buf  { b.B = append(b.B, v); return b }
func (b *Buf) Short(v uint16) *Buf {
	b.B = append(b.B, byte(v>>8), byte(v))
	return b
}
func (b *Buf) Int(v int32) *Buf {
	b.B = append(b.B, byte(v>>24), byte(v>>16), byte(v>>8), byte(v))
	return b
}
func (b *Buf) Long(v int64) *Buf {
	b.B = append(b.B, byte(v>>56), byte(v>>48), byte(v>>40), byte(v>>32), byte(v>>24), byte(v>>16), byte(v>>8), byte(v))
	return b
}

// String: [string] = [short] n + n bytes.
func (b *Buf) String(s string) *Buf { b.Short(uint16(len(s))); b.B = append(b.B, s...); return b }

// LongString: [long string] = [int] n + n bytes.
func (b *Buf) LongString(s string) *Buf { b.Int(int32(len(s))); b.B = append(b.B, s...); return b }

// Bytes: [bytes] = [int] n + n bytes; nil is encoded as length -1 (null).
func (b *Buf) Bytes(p []byte) *Buf {
	if p == nil {
		return b.Int(-1)
	}
	b.Int(int32(len(p)))
	b.B = append(b.B, p...)
	return b
}

// ShortBytes: [short bytes] = [short] n + n bytes.
func (b *Buf) ShortBytes(p []byte) *Buf { b.Short(uint16(len(p))); b.B = append(b.B, p...); return b }

// StringList: [string list].
func (b *Buf) StringList(l []string) *Buf {
	b.Short(uint16(len(l)))
	for _, s := range l {
		b.String(s)
	}
	return b
}

// StringMap: [string map], keys in sorted order.
func (b *Buf) StringMap(m map[string]string) *Buf {
	b.Short(uint16(len(m)))
	for _, k := range sortedKeys(m) {
		b.String(k).String(m[k])
	}
	return b
}

// StringMultimap: [string multimap], keys in sorted order.
func (b *Buf) StringMultimap(m map[string][]string) *Buf {
	b.Short(uint16(len(m)))
	for _, k := range sortedKeys(m) {
		b.String(k).StringList(m[k])
	}
	return b
}

// BytesMap: [bytes map], keys in sorted order.
func (b *Buf) BytesMap(m map[string][]byte) *Buf {
	b.Short(uint16(len(m)))
	for _, k := range sortedKeys(m) {
		b.String(k).Bytes(m[k])
	}
	return b
}

// UUID: 16 raw bytes.
func (b *Buf) UUID(u [16]byte) *Buf { b.B = append(b.B, u[:]...); return b }

// InetAddr: [inetaddr] = one byte size (4 or 16) + address.
func (b *Buf) InetAddr(ip net.IP) *Buf {
	if v4 := ip.To4(); v4 != nil {
		ip = v4
	}
	b.Byte(byte(len(ip)))
	b.B = append(b.B, ip...)
	return b
}

// Inet: [inet] = [inetaddr] + [int] port.
func (b *Buf) Inet(ip net.IP, port int32) *Buf { return b.InetAddr(ip).Int(port) }

// Option: the [option] encoding of a column type.
func (b *Buf) Option(t Type) *Buf {
	b.Short(t.ID)
	switch t.ID {
	case TCustom:
		b.String(t.Custom)
	case TList, TSet:
		b.Option(t.elem(0))
	case TMap:
		b.Option(t.elem(0)).Option(t.elem(1))
	case TUDT:
		b.String(t.Keyspace).String(t.Name).Short(uint16(len(t.Elems)))
		for i, e := range t.Elems {
			name := ""
			if i < len(t.FieldNames) {
				name = t.FieldNames[i]
			}
			b.String(name).Option(e)
		}
	case TTuple:
		b.Short(uint16(len(t.Elems)))
		for _, e := range t.Elems {
			b.Option(e)
		}
	}
	return b
}

func sortedKeys[V any](m map[string]V) []string {
	ks := make([]string, 0, len(m))
	for k := range m {
		ks = append(ks, k)
	}
	sort.Strings(ks)
	return ks
}

// ---------------------------------------------------------------------------------------------
// Reader: body reader with a sticky error
// ---------------------------------------------------------------------------------------------

// Reader decodes the primitive notations from B. After the first failure Err is set and every
// method returns a zero value.
type Reader struct {
	B   []byte
	Err error
}

func (r *Reader) fail(what string, need int) {
	if r.Err == nil {
		r.Err = fmt.Errorf("node: short body reading %s: need %d, have %d", what, need, len(r.B))
	}
	r.B = nil
}

func (r *Reader) take(what string, n int) []byte {
	if r.Err != nil {
		return nil
	}
	if n < 0 || len(r.B) < n {
		r.fail(what, n)
		return nil
	}
	p := r.B[:n:n]
	r.B = r.B[n:]
	return p
}

// Left is the number of undecoded bytes.
func (r *Reader) Left() int { return len(r.B) }

func (r *Reader) Byte() byte {
	p := r.take("byte", 1)
	if p == nil {
		return 0
	}
	return p[0]
}

func (r *Reader) Short() uint16 {
	p := r.take("short", 2)
	if p == nil {
		return 0
	}
	return uint16(p[0])<<8 | uint16(p[1])
}

func (r *Reader) Int() int32 {
	p := r.take("int", 4)
	if p == nil {
		return 0
	}
	return int32(uint32(p[0])<<24 | uint32(p[1])<<16 | uint32(p[2])<<8 | uint32(p[3]))
}

func (r *Reader) Long() int64 {
	p := r.take("long", 8)
	if p == nil {
		return 0
	}
	var v uint64
	for _, c := range p {
		v = v<<8 | uint64(c)
	}
	return int64(v)
}

func (r *Reader) String() string { return string(r.take("string", int(r.Short()))) }

func (r *Reader) LongString() string {
	n := r.Int()
	if n < 0 {
		r.fail("long string", int(n))
		return ""
	}
	return string(r.take("long string", int(n)))
}

// Bytes reads [bytes]; n is the declared length (negative: no bytes follow; -1 null, -2 not set).
func (r *Reader) Bytes() (p []byte, n int32) {
	n = r.Int()
	if n < 0 || r.Err != nil {
		return nil, n
	}
	p = r.take("bytes", int(n))
	if p == nil && r.Err == nil {
		p = []byte{}
	}
	return p, n
}

func (r *Reader) ShortBytes() []byte {
	p := r.take("short bytes", int(r.Short()))
	if p == nil && r.Err == nil {
		p = []byte{}
	}
	return p
}

func (r *Reader) StringList() []string {
	n := int(r.Short())
	var l []string
	for i := 0; i < n && r.Err == nil; i++ {
		l = append(l, r.String())
	}
	return l
}

func (r *Reader) StringMap() map[string]string {
	n := int(r.Short())
	m := make(map[string]string)
	for i := 0; i < n && r.Err == nil; i++ {
		k := r.String()
		m[k] = r.String()
	}
	return m
}

func (r *Reader) StringMultimap() map[string][]string {
	n := int(r.Short())
	m := make(map[string][]string)
	for i := 0; i < n && r.Err == nil; i++ {
		k := r.String()
		m[k] = r.StringList()
	}
	return m
}

func (r *Reader) BytesMap() map[string][]byte {
	n := int(r.Short())
	m := make(map[string][]byte)
	for i := 0; i < n && r.Err == nil; i++ {
		k := r.String()
		m[k], _ = r.Bytes()
	}
	return m
}

// ---------------------------------------------------------------------------------------------
// Column types ([option])
// ---------------------------------------------------------------------------------------------

// Type ids of the [option] notation.
const (
	TCustom    uint16 = 0x0000
	TAscii     uint16 = 0x0001
	TBigint    uint16 = 0x0002
	TBlob      uint16 = 0x0003
	TBoolean   uint16 = 0x0004
	TCounter   uint16 = 0x0005
	TDecimal   uint16 = 0x0006
	TDouble    uint16 = 0x0007
	TFloat     uint16 = 0x0008
	TInt       uint16 = 0x0009
	TText      uint16 = 0x000A // v1-2 only; v3+ use varchar
	TTimestamp uint16 = 0x000B
	TUUID      uint16 = 0x000C
	TVarchar   uint16 = 0x000D
	TVarint    uint16 = 0x000E
	TTimeuuid  uint16 = 0x000F
	TInet      uint16 = 0x0010
	TDate      uint16 = 0x0011
	TTime      uint16 = 0x0012
	TSmallint  uint16 = 0x0013
	TTinyint   uint16 = 0x0014
	TDuration  uint16 = 0x0015
	TList      uint16 = 0x0020
	TMap       uint16 = 0x0021
	TSet       uint16 = 0x0022
	TUDT       uint16 = 0x0030
	TTuple     uint16 = 0x0031
)

// Type is a column type as carried in result metadata. Build simple types with T(id), the others
// with Custom, List, Set, Map, Tuple, UDT. Any id and any nesting is encodable (also invalid ones).
type Type struct {
	ID     uint16
	Custom string // TCustom: the Java class name
	// Elems: list/set element (1), map key and value (2), tuple components, UDT field types.
	Elems []Type
	// UDT only.
	Keyspace, Name string
	FieldNames     []string
}

func (t Type) elem(i int) Type {
	if i < len(t.Elems) {
		return t.Elems[i]
	}
	return Type{ID: TBlob}
}

// T makes a simple type from its id.
func T(id uint16) Type { return Type{ID: id} }

// Frequently used simple types.
var (
	Ascii     = T(TAscii)
	Bigint    = T(TBigint)
	Blob      = T(TBlob)
	Boolean   = T(TBoolean)
	Counter   = T(TCounter)
	Decimal   = T(TDecimal)
	Double    = T(TDouble)
	Float     = T(TFloat)
	Int       = T(TInt)
	Timestamp = T(TTimestamp)
	UUID      = T(TUUID)
	Varchar   = T(TVarchar)
	Varint    = T(TVarint)
	Timeuuid  = T(TTimeuuid)
	Inet      = T(TInet)
	Date      = T(TDate)
	Time      = T(TTime)
	Smallint  = T(TSmallint)
	Tinyint   = T(TTinyint)
	Duration  = T(TDuration)
)

func Custom(class string) Type { return Type{ID: TCustom, Custom: class} }
func List(e Type) Type         { return Type{ID: TList, Elems: []Type{e}} }
func Set(e Type) Type          { return Type{ID: TSet, Elems: []Type{e}} }
func Map(k, v Type) Type       { return Type{ID: TMap, Elems: []Type{k, v}} }
func Tuple(elems ...Type) Type { return Type{ID: TTuple, Elems: elems} }

// Field is one field of a user-defined type.
type Field struct {
	Name string
	Type Type
}

func UDT(keyspace, name string, fields ...Field) Type {
	t := Type{ID: TUDT, Keyspace: keyspace, Name: name}
	for _, f := range fields {
		t.FieldNames = append(t.FieldNames, f.Name)
		t.Elems = append(t.Elems, f.Type)
	}
	return t
}

// Column is one column specification of result or bind metadata.
type Column struct {
	Keyspace, Table, Name string
	Type                  Type
}

// Col is shorthand for a Column without keyspace and table (filled in from Rows.Keyspace/Table).
func Col(name string, t Type) Column { return Column{Name: name, Type: t} }
