package node

import (
	"errors"
	"io"
	"net"
	"os"
	"sort"
	"sync"
	"time"
)

// ---------------------------------------------------------------------------------------------
// Stream: one direction of an in-memory connection (an unbounded byte queue with scripted faults)
// ---------------------------------------------------------------------------------------------

// ErrInjected is the error returned by an injected write fault that names no error of its own.
var ErrInjected = errors.New("node: injected fault")

// errBrokenPipe is what a writer gets once the reading end has been closed.
var errBrokenPipe = errors.New("broken pipe")

// timeoutError is the deadline error; like the runtime's it is both Timeout and Temporary and
// matches os.ErrDeadlineExceeded.
type timeoutError struct{}

func (timeoutError) Error() string   { return "i/o timeout" }
func (timeoutError) Timeout() bool   { return true }
func (timeoutError) Temporary() bool { return true }
func (timeoutError) Is(err error) bool {
	return err == os.ErrDeadlineExceeded
}

// Gate says when a Barrier opens. All stated conditions must hold; the zero Gate is open at once.
type Gate struct {
	// Delay: the barrier stays closed for this long after it became armed (= it is the first
	// closed barrier of the stream and the writer has produced at least one byte beyond it).
	Delay time.Duration
	// Timeouts: the reader must run into this many read-deadline expirations after the barrier
	// became armed (each Read call that returns a timeout error counts once).
	Timeouts int
	// Hold: the barrier stays closed until Stream.Release is called.
	Hold bool
}

type barrier struct {
	off       int64
	gate      Gate
	armed     bool
	armedAt   time.Time
	timeouts0 int
}

// WriteFault is a scripted fault of the writing side of a Stream. It triggers when a Write call
// reaches absolute byte offset Offset (offsets count every byte accepted on this stream since the
// connection was made; the first byte has offset 0): bytes before Offset are accepted, then
//
//   - Stall == false: the Write call returns (bytesAcceptedFromThisCall, Err) at once;
//   - Stall == true: the Write call blocks, until StallFor has elapsed or Stream.ReleaseStall is
//     called (then the rest of the data is accepted as if nothing had happened), or until the
//     write deadline passes (returns a timeout net.Error) or the connection is closed.
//
// A fault fires once unless Sticky is set; a sticky non-stalling fault makes every later Write
// return (0, Err) too, a sticky stall makes every later Write stall again.
type WriteFault struct {
	Offset int64
	// Err is returned by the faulted Write; nil means ErrInjected. With NilErr the short count is
	// returned with a nil error (a violation of the io.Writer contract, on purpose).
	Err    error
	NilErr bool
	// Stall / StallFor: see above. StallFor == 0 stalls until released, deadline or close.
	Stall    bool
	StallFor time.Duration
	Sticky   bool
	// CloseAfter closes the whole connection (both ends) right after the fault fired.
	CloseAfter bool
}

// WriteRecord describes one Write call on a stream.
type WriteRecord struct {
	Offset int64 // absolute offset of the first byte of the call
	Len    int   // len(p) of the call
	N      int   // bytes accepted
	Err    error // error returned (nil on success)
}

// Stream is one direction of a Link. Data written is buffered without bound, so writers never block
// unless a stall is scripted. All methods are safe for concurrent use.
type Stream struct {
	name string
	link *Link

	mu   sync.Mutex
	wake chan struct{} // closed and replaced on every state change

	buf   []byte // written, not yet read
	rdOff int64  // absolute offset of buf[0]
	wrOff int64  // absolute offset of the next byte to be written
	log   []byte // every byte ever accepted
	calls []WriteRecord

	barriers []*barrier // sorted by offset
	cutOff   int64      // -1: none
	cutErr   error

	wfaults   []*WriteFault // sorted by offset
	stickyErr error
	stallGen  int // incremented by ReleaseStall

	rdDeadline time.Time
	wrDeadline time.Time
	rdClosed   bool
	wrClosed   bool

	readTimeouts int
}

func newStream(name string, l *Link) *Stream {
	return &Stream{name: name, link: l, wake: make(chan struct{}), cutOff: -1}
}

// broadcast wakes every waiter. Caller holds s.mu.
func (s *Stream) broadcast() {
	close(s.wake)
	s.wake = make(chan struct{})
}

// waitLocked releases the lock, sleeps until a state change or time t (zero = no limit), relocks.
func (s *Stream) waitLocked(t time.Time) {
	ch := s.wake
	s.mu.Unlock()
	if t.IsZero() {
		<-ch
	} else {
		d := time.Until(t)
		if d > 0 {
			timer := time.NewTimer(d)
			select {
			case <-ch:
			case <-timer.C:
			}
			timer.Stop()
		}
	}
	s.mu.Lock()
}

func earliest(a, b time.Time) time.Time {
	if a.IsZero() {
		return b
	}
	if b.IsZero() || a.Before(b) {
		return a
	}
	return b
}

// advance arms and opens barriers. Caller holds s.mu. Returns the time at which the front barrier's
// delay elapses (zero if no timed wait is pending).
func (s *Stream) advance(now time.Time) time.Time {
	for len(s.barriers) > 0 {
		b := s.barriers[0]
		if b.off < s.rdOff {
			// placed behind the read position: meaningless, drop
			s.barriers = s.barriers[1:]
			continue
		}
		if !b.armed {
			if s.wrOff <= b.off {
				return time.Time{} // nothing beyond it yet
			}
			b.armed = true
			b.armedAt = now
			b.timeouts0 = s.readTimeouts
		}
		if b.gate.Hold || s.readTimeouts-b.timeouts0 < b.gate.Timeouts {
			return time.Time{} // Release / the next timeout broadcasts
		}
		if t := b.armedAt.Add(b.gate.Delay); b.gate.Delay > 0 && now.Before(t) {
			return t
		}
		s.barriers = s.barriers[1:]
	}
	return time.Time{}
}

func (s *Stream) read(p []byte, op *net.OpError) (int, error) {
	s.mu.Lock()
	defer s.mu.Unlock()
	for {
		if s.rdClosed {
			return 0, opErr(op, net.ErrClosed)
		}
		if len(p) == 0 {
			return 0, nil
		}
		now := time.Now()
		openAt := s.advance(now)
		limit := int64(len(s.buf))
		if len(s.barriers) > 0 && s.barriers[0].off-s.rdOff < limit {
			limit = s.barriers[0].off - s.rdOff
		}
		if s.cutOff >= 0 && s.cutOff-s.rdOff < limit {
			limit = s.cutOff - s.rdOff
		}
		if limit < 0 {
			limit = 0
		}
		if int64(len(p)) < limit {
			limit = int64(len(p))
		}
		if limit > 0 {
			n := copy(p, s.buf[:limit])
			s.buf = s.buf[n:]
			s.rdOff += int64(n)
			if len(s.buf) == 0 {
				s.buf = nil
			}
			return n, nil
		}
		if s.cutOff >= 0 && s.rdOff >= s.cutOff {
			return 0, s.cutErr
		}
		if s.wrClosed && len(s.buf) == 0 {
			return 0, io.EOF
		}
		if !s.rdDeadline.IsZero() && !now.Before(s.rdDeadline) {
			s.readTimeouts++
			s.broadcast()
			return 0, opErr(op, timeoutError{})
		}
		s.waitLocked(earliest(s.rdDeadline, openAt))
	}
}

func opErr(op *net.OpError, err error) error {
	if op == nil {
		return err
	}
	e := *op
	e.Err = err
	return &e
}

func (s *Stream) write(p []byte, op *net.OpError) (int, error) {
	s.mu.Lock()
	start := s.wrOff
	total := 0
	n, err, closeAfter := s.writeLocked(p, op, &total)
	s.calls = append(s.calls, WriteRecord{Offset: start, Len: len(p), N: n, Err: err})
	s.broadcast()
	s.mu.Unlock()
	if closeAfter && s.link != nil {
		s.link.Close()
	}
	return n, err
}

func (s *Stream) accept(p []byte) {
	if len(p) == 0 {
		return
	}
	s.buf = append(s.buf, p...)
	s.log = append(s.log, p...)
	s.wrOff += int64(len(p))
	s.advance(time.Now())
	s.broadcast()
}

func (s *Stream) writeLocked(p []byte, op *net.OpError, total *int) (int, error, bool) {
	for {
		if s.wrClosed {
			return *total, opErr(op, net.ErrClosed), false
		}
		if s.rdClosed {
			return *total, opErr(op, errBrokenPipe), false
		}
		if s.stickyErr != nil {
			return *total, s.stickyErr, false
		}
		if !s.wrDeadline.IsZero() && !time.Now().Before(s.wrDeadline) {
			return *total, opErr(op, timeoutError{}), false
		}
		// first fault inside [wrOff, wrOff+len(p)); a fault configured behind the write position
		// fires at the write position
		var f *WriteFault
		if len(s.wfaults) > 0 && (len(p) > 0 || s.wfaults[0].Offset <= s.wrOff) {
			if c := s.wfaults[0]; c.Offset < s.wrOff+int64(len(p)) || c.Offset <= s.wrOff {
				f = c
			}
		}
		if f == nil {
			s.accept(p)
			*total += len(p)
			return *total, nil, false
		}
		k := f.Offset - s.wrOff
		if k < 0 {
			k = 0
		}
		s.accept(p[:k])
		*total += int(k)
		p = p[k:]
		if !f.Stall {
			err := f.Err
			if err == nil && !f.NilErr {
				err = ErrInjected
			}
			if f.Sticky {
				s.stickyErr = err
				if err == nil {
					s.stickyErr = ErrInjected
				}
			}
			s.wfaults = s.wfaults[1:]
			return *total, err, f.CloseAfter
		}
		// stall
		gen := s.stallGen
		var until time.Time
		if f.StallFor > 0 {
			until = time.Now().Add(f.StallFor)
		}
		for {
			if s.wrClosed {
				return *total, opErr(op, net.ErrClosed), false
			}
			if s.rdClosed {
				return *total, opErr(op, errBrokenPipe), false
			}
			now := time.Now()
			if s.stallGen != gen || (!until.IsZero() && !now.Before(until)) {
				break
			}
			if !s.wrDeadline.IsZero() && !now.Before(s.wrDeadline) {
				if !f.Sticky {
					s.removeFault(f)
				}
				return *total, opErr(op, timeoutError{}), f.CloseAfter
			}
			s.waitLocked(earliest(s.wrDeadline, until))
		}
		if !f.Sticky {
			s.removeFault(f)
		} else {
			// a sticky stall moves with the write position
			f.Offset = s.wrOff + int64(len(p))
		}
		if len(p) == 0 {
			return *total, nil, f.CloseAfter
		}
	}
}

func (s *Stream) removeFault(f *WriteFault) {
	for i, g := range s.wfaults {
		if g == f {
			s.wfaults = append(s.wfaults[:i:i], s.wfaults[i+1:]...)
			return
		}
	}
}

func (s *Stream) closeReader() {
	s.mu.Lock()
	if !s.rdClosed {
		s.rdClosed = true
		s.broadcast()
	}
	s.mu.Unlock()
}

func (s *Stream) closeWriter() {
	s.mu.Lock()
	if !s.wrClosed {
		s.wrClosed = true
		s.broadcast()
	}
	s.mu.Unlock()
}

func (s *Stream) setReadDeadline(t time.Time) {
	s.mu.Lock()
	s.rdDeadline = t
	s.broadcast()
	s.mu.Unlock()
}

func (s *Stream) setWriteDeadline(t time.Time) {
	s.mu.Lock()
	s.wrDeadline = t
	s.broadcast()
	s.mu.Unlock()
}

// ---- scripting and observation --------------------------------------------------------------------

// AddWriteFault scripts a fault of the writing side (see WriteFault).
func (s *Stream) AddWriteFault(f WriteFault) {
	s.mu.Lock()
	g := f
	s.wfaults = append(s.wfaults, &g)
	sort.SliceStable(s.wfaults, func(i, j int) bool { return s.wfaults[i].Offset < s.wfaults[j].Offset })
	s.broadcast()
	s.mu.Unlock()
}

// FailWriteAt makes the Write call that reaches absolute offset off accept only the bytes before
// off and return err (ErrInjected if nil). Later writes succeed again (one-shot).
func (s *Stream) FailWriteAt(off int64, err error) {
	s.AddWriteFault(WriteFault{Offset: off, Err: err})
}

// StallWriteAt makes the Write call that reaches off block there (see WriteFault.Stall).
func (s *Stream) StallWriteAt(off int64, d time.Duration) {
	s.AddWriteFault(WriteFault{Offset: off, Stall: true, StallFor: d})
}

// ReleaseStall ends the write stall in progress, if any.
func (s *Stream) ReleaseStall() {
	s.mu.Lock()
	s.stallGen++
	s.broadcast()
	s.mu.Unlock()
}

// CutAt makes the reader see err (io.EOF if nil) once it has consumed exactly off bytes; whatever
// the writer produces beyond off is recorded but never delivered. The writer is not told.
func (s *Stream) CutAt(off int64, err error) {
	if err == nil {
		err = io.EOF
	}
	s.mu.Lock()
	s.cutOff, s.cutErr = off, err
	s.broadcast()
	s.mu.Unlock()
}

// BarrierAt keeps the bytes at absolute offset >= off unreadable until gate g opens. Barriers open
// strictly in offset order. A barrier at or beyond the current write offset waits for data.
func (s *Stream) BarrierAt(off int64, g Gate) {
	s.mu.Lock()
	s.barriers = append(s.barriers, &barrier{off: off, gate: g})
	sort.SliceStable(s.barriers, func(i, j int) bool { return s.barriers[i].off < s.barriers[j].off })
	s.broadcast()
	s.mu.Unlock()
}

// ChunkFrom places barriers so that the bytes from absolute offset off on are delivered in pieces of
// the given sizes, each later piece becoming readable only after gate g (counted from the moment the
// previous piece's barrier opened). Bytes after the last piece flow freely.
func (s *Stream) ChunkFrom(off int64, sizes []int, g Gate) {
	for _, n := range sizes {
		off += int64(n)
		s.BarrierAt(off, g)
	}
}

// Release opens the Hold condition of the first barrier that still has one. It reports whether
// there was such a barrier.
func (s *Stream) Release() bool {
	s.mu.Lock()
	defer s.mu.Unlock()
	for _, b := range s.barriers {
		if b.gate.Hold {
			b.gate.Hold = false
			s.broadcast()
			return true
		}
	}
	return false
}

// ReleaseAll removes every barrier.
func (s *Stream) ReleaseAll() {
	s.mu.Lock()
	s.barriers = nil
	s.broadcast()
	s.mu.Unlock()
}

// Written is the number of bytes accepted so far (= the absolute offset of the next byte).
func (s *Stream) Written() int64 { s.mu.Lock(); defer s.mu.Unlock(); return s.wrOff }

// Consumed is the number of bytes the reader has taken so far.
func (s *Stream) Consumed() int64 { s.mu.Lock(); defer s.mu.Unlock(); return s.rdOff }

// Bytes returns a copy of every byte accepted on the stream since the connection was made.
func (s *Stream) Bytes() []byte {
	s.mu.Lock()
	defer s.mu.Unlock()
	return append([]byte(nil), s.log...)
}

// Writes returns the record of every Write call (boundaries, short counts, errors).
func (s *Stream) Writes() []WriteRecord {
	s.mu.Lock()
	defer s.mu.Unlock()
	return append([]WriteRecord(nil), s.calls...)
}

// ReadTimeouts is the number of Read calls that returned a deadline error.
func (s *Stream) ReadTimeouts() int { s.mu.Lock(); defer s.mu.Unlock(); return s.readTimeouts }

// WaitReadTimeouts blocks until the reader has had at least n deadline errors, or for at most d.
func (s *Stream) WaitReadTimeouts(n int, d time.Duration) bool {
	end := time.Now().Add(d)
	s.mu.Lock()
	defer s.mu.Unlock()
	for s.readTimeouts < n {
		if !time.Now().Before(end) {
			return false
		}
		s.waitLocked(end)
	}
	return true
}

// WaitWritten blocks until at least n bytes have been accepted, or for at most d.
func (s *Stream) WaitWritten(n int64, d time.Duration) bool {
	end := time.Now().Add(d)
	s.mu.Lock()
	defer s.mu.Unlock()
	for s.wrOff < n {
		if !time.Now().Before(end) {
			return false
		}
		s.waitLocked(end)
	}
	return true
}

// ---------------------------------------------------------------------------------------------
// Link: one connection = two streams and two net.Conn ends
// ---------------------------------------------------------------------------------------------

// Link is one in-memory connection between a client (the driver) and a node. C2S carries what the
// client writes, S2C what the node writes. Faults are scripted on the streams; both ends are
// ordinary net.Conn values.
type Link struct {
	// ID is the ordinal of the connection on its Net (dial order, from 0).
	ID int
	// Addr is the address that was dialled ("10.0.0.1:9042").
	Addr string

	C2S *Stream
	S2C *Stream

	client *End
	server *End
}

// Client is the end handed to the dialler; Server the end the node reads requests from.
func (l *Link) Client() net.Conn { return l.client }
func (l *Link) Server() net.Conn { return l.server }

// Close closes both ends (idempotent).
func (l *Link) Close() {
	l.client.Close()
	l.server.Close()
}

// ClientClosed / ServerClosed report whether that end has been closed locally.
func (l *Link) ClientClosed() bool { return l.client.isClosed() }
func (l *Link) ServerClosed() bool { return l.server.isClosed() }

// Open reports whether neither end has been closed.
func (l *Link) Open() bool { return !l.client.isClosed() && !l.server.isClosed() }

// NewLink makes a free-standing connection pair (no Net, no node); useful to test code that takes
// a net.Conn. clientAddr/serverAddr may be nil.
func NewLink(clientAddr, serverAddr *net.TCPAddr) *Link {
	if clientAddr == nil {
		clientAddr = &net.TCPAddr{IP: net.IPv4(10, 255, 255, 1), Port: 40000}
	}
	if serverAddr == nil {
		serverAddr = &net.TCPAddr{IP: net.IPv4(10, 0, 0, 1), Port: 9042}
	}
	l := &Link{Addr: serverAddr.String()}
	l.C2S = newStream("c2s", l)
	l.S2C = newStream("s2c", l)
	l.client = &End{link: l, rd: l.S2C, wr: l.C2S, local: clientAddr, remote: serverAddr}
	l.server = &End{link: l, rd: l.C2S, wr: l.S2C, local: serverAddr, remote: clientAddr}
	return l
}

// End is one end of a Link; it implements net.Conn. Local and remote addresses are *net.TCPAddr
// (the driver type-asserts that).
type End struct {
	link   *Link
	rd, wr *Stream
	local  *net.TCPAddr
	remote *net.TCPAddr

	mu     sync.Mutex
	closed bool
}

func (e *End) isClosed() bool { e.mu.Lock(); defer e.mu.Unlock(); return e.closed }

func (e *End) Read(p []byte) (int, error) {
	return e.rd.read(p, &net.OpError{Op: "read", Net: "tcp", Source: e.local, Addr: e.remote})
}

func (e *End) Write(p []byte) (int, error) {
	return e.wr.write(p, &net.OpError{Op: "write", Net: "tcp", Source: e.local, Addr: e.remote})
}

// Close closes this end: blocked and future Reads/Writes of this end fail with net.ErrClosed, the
// peer reads what is still buffered and then io.EOF, and the peer's Writes fail.
func (e *End) Close() error {
	e.mu.Lock()
	if e.closed {
		e.mu.Unlock()
		return &net.OpError{Op: "close", Net: "tcp", Source: e.local, Addr: e.remote, Err: net.ErrClosed}
	}
	e.closed = true
	e.mu.Unlock()
	e.rd.closeReader()
	e.wr.closeWriter()
	return nil
}

func (e *End) LocalAddr() net.Addr  { return e.local }
func (e *End) RemoteAddr() net.Addr { return e.remote }

func (e *End) SetDeadline(t time.Time) error {
	if e.isClosed() {
		return &net.OpError{Op: "set", Net: "tcp", Source: e.local, Addr: e.remote, Err: net.ErrClosed}
	}
	e.rd.setReadDeadline(t)
	e.wr.setWriteDeadline(t)
	return nil
}

func (e *End) SetReadDeadline(t time.Time) error {
	if e.isClosed() {
		return &net.OpError{Op: "set", Net: "tcp", Source: e.local, Addr: e.remote, Err: net.ErrClosed}
	}
	e.rd.setReadDeadline(t)
	return nil
}

func (e *End) SetWriteDeadline(t time.Time) error {
	if e.isClosed() {
		return &net.OpError{Op: "set", Net: "tcp", Source: e.local, Addr: e.remote, Err: net.ErrClosed}
	}
	e.wr.setWriteDeadline(t)
	return nil
}

var _ net.Conn = (*End)(nil)
