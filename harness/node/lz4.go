package node

import (
	"encoding/binary"
	"fmt"

	"github.com/pierrec/lz4/v4"
)

// LZ4 is the "lz4" body compression of the protocol: a 4-byte big-endian uncompressed length
// followed by one LZ4 block.
type LZ4 struct{}

func (LZ4) Name() string { return "lz4" }

func (LZ4) Encode(data []byte) ([]byte, error) {
	buf := make([]byte, 4+lz4.CompressBlockBound(len(data)))
	binary.BigEndian.PutUint32(buf, uint32(len(data)))
	if len(data) == 0 {
		return buf[:4], nil
	}
	var c lz4.Compressor
	n, err := c.CompressBlock(data, buf[4:])
	if err != nil {
		return nil, err
	}
	if n == 0 {
		return nil, fmt.Errorf("node: lz4: block not compressible into %d bytes", len(buf)-4)
	}
	return buf[:4+n], nil
}

func (LZ4) Decode(data []byte) ([]byte, error) {
	if len(data) < 4 {
		return nil, fmt.Errorf("node: lz4: body of %d bytes has no length prefix", len(data))
	}
	n := binary.BigEndian.Uint32(data)
	if n == 0 {
		return nil, nil
	}
	if n > maxBodyLen {
		return nil, fmt.Errorf("node: lz4: declared length %d too large", n)
	}
	dst := make([]byte, n)
	m, err := lz4.UncompressBlock(data[4:], dst)
	if err != nil {
		return nil, err
	}
	return dst[:m], nil
}
