package node

import (
	"bytes"
	"context"
	"errors"
	"io"
	"net"
	"os"
	"reflect"
	"runtime"
	"sync"
	"testing"
	"time"
)

// ---- pipe semantics ---------------------------------------------------------------------------

func TestPipeBasic(t *testing.T) {
	l := NewLink(nil, nil)
	c, s := l.Client(), l.Server()
	if _, ok := c.RemoteAddr().(*net.TCPAddr); !ok {
		t.Fatal("RemoteAddr is not *net.TCPAddr")
	}
	if c.LocalAddr().String() != s.RemoteAddr().String() || c.RemoteAddr().String() != s.LocalAddr().String() {
		t.Fatal("addresses do not mirror")
	}
	// small writes never block, even with nobody reading
	for i := 0; i < 1000; i++ {
		if n, err := c.Write([]byte("abcdefgh")); n != 8 || err != nil {
			t.Fatalf("write %d: %d %v", i, n, err)
		}
	}
	buf := make([]byte, 8000)
	if _, err := io.ReadFull(s, buf); err != nil {
		t.Fatal(err)
	}
	// full duplex
	s.Write([]byte("pong"))
	p := make([]byte, 10)
	if n, _ := c.Read(p); string(p[:n]) != "pong" {
		t.Fatalf("got %q", p[:n])
	}
	if len(l.C2S.Writes()) != 1000 || l.C2S.Written() != 8000 || !bytes.Equal(l.S2C.Bytes(), []byte("pong")) {
		t.Fatal("recording wrong")
	}
}

func isTimeout(err error) bool {
	var ne net.Error
	return errors.As(err, &ne) && ne.Timeout() && errors.Is(err, os.ErrDeadlineExceeded)
}

func TestPipeDeadlines(t *testing.T) {
	l := NewLink(nil, nil)
	c := l.Client()
	p := make([]byte, 4)
	// deadline in the past
	c.SetReadDeadline(time.Now().Add(-time.Second))
	if _, err := c.Read(p); !isTimeout(err) {
		t.Fatalf("want timeout, got %v", err)
	}
	if ne, ok := interface{}(mustErr(c.Read(p))).(net.Error); !ok || !ne.Timeout() {
		t.Fatal("timeout error is not a direct net.Error")
	}
	// deadline in the future expires
	c.SetReadDeadline(time.Now().Add(30 * time.Millisecond))
	t0 := time.Now()
	if _, err := c.Read(p); !isTimeout(err) || time.Since(t0) < 25*time.Millisecond {
		t.Fatalf("want timeout after 30ms, got %v after %v", err, time.Since(t0))
	}
	// data buffered beats an expired deadline? no: like TCP, an expired deadline fails the read only if it must wait
	l.Server().Write([]byte("xy"))
	if n, err := c.Read(p); n != 2 || err != nil {
		t.Fatalf("buffered data with expired deadline: %d %v", n, err)
	}
	// resetting the deadline while a Read is blocked wakes it
	c.SetReadDeadline(time.Time{})
	done := make(chan error, 1)
	go func() { _, err := c.Read(p); done <- err }()
	time.Sleep(20 * time.Millisecond)
	c.SetReadDeadline(time.Now().Add(-time.Millisecond))
	select {
	case err := <-done:
		if !isTimeout(err) {
			t.Fatalf("want timeout, got %v", err)
		}
	case <-time.After(time.Second):
		t.Fatal("blocked Read not woken by SetReadDeadline")
	}
	// clearing the deadline lets reads block again and succeed
	c.SetDeadline(time.Time{})
	go func() { time.Sleep(10 * time.Millisecond); l.Server().Write([]byte("z")) }()
	if n, err := c.Read(p); n != 1 || err != nil {
		t.Fatalf("%d %v", n, err)
	}
	// write deadline in the past
	c.SetWriteDeadline(time.Now().Add(-time.Second))
	if n, err := c.Write([]byte("q")); n != 0 || !isTimeout(err) {
		t.Fatalf("write past deadline: %d %v", n, err)
	}
	if l.C2S.ReadTimeouts() != 0 || l.S2C.ReadTimeouts() != 4 {
		t.Fatalf("read timeouts: %d", l.S2C.ReadTimeouts())
	}
}

func mustErr(_ int, err error) error { return err }

func TestPipeClose(t *testing.T) {
	l := NewLink(nil, nil)
	c, s := l.Client(), l.Server()
	// Close unblocks a blocked Read on both sides
	cerr, serr := make(chan error, 1), make(chan error, 1)
	go func() { _, err := c.Read(make([]byte, 1)); cerr <- err }()
	go func() { _, err := s.Read(make([]byte, 1)); serr <- err }()
	time.Sleep(20 * time.Millisecond)
	c.Write([]byte("last words"))
	// server reads what was written before the close, then EOF
	if err := <-serr; err != nil {
		t.Fatalf("server read: %v", err)
	}
	c.Close()
	if err := <-cerr; !errors.Is(err, net.ErrClosed) {
		t.Fatalf("local blocked read after Close: %v", err)
	}
	rest, err := io.ReadAll(s)
	if err != nil || string(rest) != "ast words" {
		t.Fatalf("peer after close: %q %v", rest, err)
	}
	if _, err := s.Write([]byte("x")); err == nil {
		t.Fatal("write to closed peer succeeded")
	}
	if _, err := c.Write([]byte("x")); !errors.Is(err, net.ErrClosed) {
		t.Fatalf("write after local close: %v", err)
	}
	if err := c.Close(); err == nil {
		t.Fatal("second Close returned nil")
	}
	if err := c.SetDeadline(time.Now()); err == nil {
		t.Fatal("SetDeadline after Close returned nil")
	}
	if l.Open() || !l.ClientClosed() || l.ServerClosed() {
		t.Fatal("closed flags")
	}
}

func TestPipeConcurrent(t *testing.T) {
	l := NewLink(nil, nil)
	c, s := l.Client(), l.Server()
	const N = 200000
	var wg sync.WaitGroup
	echo := func(rd io.Reader, wr io.Writer) {
		defer wg.Done()
		io.CopyN(wr, rd, N)
	}
	wg.Add(1)
	go echo(s, s) // server echoes
	src := make([]byte, N)
	for i := range src {
		src[i] = byte(i * 7)
	}
	wg.Add(1)
	go func() {
		defer wg.Done()
		for off := 0; off < N; off += 997 {
			end := off + 997
			if end > N {
				end = N
			}
			c.Write(src[off:end])
		}
	}()
	got := make([]byte, N)
	if _, err := io.ReadFull(c, got); err != nil {
		t.Fatal(err)
	}
	wg.Wait()
	if !bytes.Equal(got, src) {
		t.Fatal("echo mismatch")
	}
}

func TestWriteFaults(t *testing.T) {
	l := NewLink(nil, nil)
	c, s := l.Client(), l.Server()
	boom := errors.New("boom")
	l.C2S.FailWriteAt(10, boom)
	if n, err := c.Write(make([]byte, 8)); n != 8 || err != nil {
		t.Fatalf("%d %v", n, err)
	}
	if n, err := c.Write([]byte("abcdef")); n != 2 || err != boom {
		t.Fatalf("short write: %d %v", n, err)
	}
	// one-shot: the next write goes through
	if n, err := c.Write([]byte("gh")); n != 2 || err != nil {
		t.Fatalf("%d %v", n, err)
	}
	buf := make([]byte, 12)
	io.ReadFull(s, buf)
	if string(buf[8:]) != "abgh" {
		t.Fatalf("server saw %q", buf[8:])
	}
	ws := l.C2S.Writes()
	if len(ws) != 3 || ws[1].Offset != 8 || ws[1].Len != 6 || ws[1].N != 2 || ws[1].Err != boom || ws[2].Offset != 10 {
		t.Fatalf("records %+v", ws)
	}
	// fault exactly at a write boundary: (0, err)
	l.C2S.FailWriteAt(12, nil)
	if n, err := c.Write([]byte("zz")); n != 0 || err != ErrInjected {
		t.Fatalf("%d %v", n, err)
	}
	// short count with nil error
	l.C2S.AddWriteFault(WriteFault{Offset: 13, NilErr: true})
	if n, err := c.Write([]byte("zz")); n != 1 || err != nil {
		t.Fatalf("%d %v", n, err)
	}
	// sticky
	l.C2S.AddWriteFault(WriteFault{Offset: 13, Err: boom, Sticky: true})
	for i := 0; i < 3; i++ {
		if n, err := c.Write([]byte("y")); n != 0 || err != boom {
			t.Fatalf("sticky %d: %d %v", i, n, err)
		}
	}
}

func TestWriteStall(t *testing.T) {
	l := NewLink(nil, nil)
	c := l.Client()
	// stall ended by the write deadline
	l.C2S.StallWriteAt(3, 0)
	c.SetWriteDeadline(time.Now().Add(30 * time.Millisecond))
	n, err := c.Write([]byte("abcdef"))
	if n != 3 || !isTimeout(err) {
		t.Fatalf("%d %v", n, err)
	}
	c.SetWriteDeadline(time.Time{})
	// stall for a duration, then the rest goes through
	l.C2S.StallWriteAt(5, 30*time.Millisecond)
	t0 := time.Now()
	n, err = c.Write([]byte("ghijkl"))
	if n != 6 || err != nil || time.Since(t0) < 25*time.Millisecond {
		t.Fatalf("%d %v %v", n, err, time.Since(t0))
	}
	// stall ended by ReleaseStall
	l.C2S.StallWriteAt(9, 0)
	done := make(chan int, 1)
	go func() { n, _ := c.Write([]byte("mn")); done <- n }()
	time.Sleep(20 * time.Millisecond)
	select {
	case <-done:
		t.Fatal("stalled write returned early")
	default:
	}
	l.C2S.ReleaseStall()
	if n := <-done; n != 2 {
		t.Fatalf("n=%d", n)
	}
	// stall ended by Close
	l.C2S.StallWriteAt(l.C2S.Written(), 0)
	go func() { _, err := c.Write([]byte("op")); done <- map[bool]int{true: 1, false: 0}[err != nil] }()
	time.Sleep(20 * time.Millisecond)
	c.Close()
	if <-done != 1 {
		t.Fatal("stalled write not failed by Close")
	}
	if string(l.C2S.Bytes()) != "abcghijklmn" {
		t.Fatalf("bytes %q", l.C2S.Bytes())
	}
}

func TestBarriersAndCut(t *testing.T) {
	l := NewLink(nil, nil)
	c, s := l.Client(), l.Server()
	// header 9 + 4 body bytes, then 3 read timeouts, then 5 more bytes after a hold
	l.S2C.BarrierAt(13, Gate{Timeouts: 3})
	l.S2C.BarrierAt(18, Gate{Hold: true})
	s.Write(bytes.Repeat([]byte{'x'}, 30))
	buf := make([]byte, 64)
	if n, _ := c.Read(buf); n != 13 {
		t.Fatalf("first read %d", n)
	}
	for i := 0; i < 3; i++ {
		c.SetReadDeadline(time.Now().Add(5 * time.Millisecond))
		if _, err := c.Read(buf); !isTimeout(err) {
			t.Fatalf("timeout %d: %v", i, err)
		}
	}
	c.SetReadDeadline(time.Now().Add(50 * time.Millisecond))
	if n, err := c.Read(buf); n != 5 || err != nil {
		t.Fatalf("after 3 timeouts: %d %v", n, err)
	}
	if _, err := c.Read(buf); !isTimeout(err) {
		t.Fatalf("hold: %v", err)
	}
	if !l.S2C.Release() {
		t.Fatal("Release found no barrier")
	}
	c.SetReadDeadline(time.Time{})
	if n, err := c.Read(buf); n != 12 || err != nil {
		t.Fatalf("after release: %d %v", n, err)
	}
	// delay gate and chunking
	base := l.S2C.Written()
	l.S2C.ChunkFrom(base, []int{2, 2}, Gate{Delay: 20 * time.Millisecond})
	t0 := time.Now()
	s.Write([]byte("aabbcc"))
	var sizes []int
	for got := 0; got < 6; {
		n, err := c.Read(buf)
		if err != nil {
			t.Fatal(err)
		}
		sizes = append(sizes, n)
		got += n
	}
	if !reflect.DeepEqual(sizes, []int{2, 2, 2}) || time.Since(t0) < 35*time.Millisecond {
		t.Fatalf("chunks %v in %v", sizes, time.Since(t0))
	}
	// cut: the client sees the error after exactly 4 more bytes, the server is not told
	base = l.S2C.Written()
	cutErr := errors.New("connection reset by peer")
	l.S2C.CutAt(base+4, cutErr)
	if n, err := s.Write([]byte("0123456789")); n != 10 || err != nil {
		t.Fatalf("server write: %d %v", n, err)
	}
	if n, err := io.ReadFull(c, buf[:10]); n != 4 || err != cutErr {
		t.Fatalf("cut: %d %v", n, err)
	}
	if _, err := c.Read(buf); err != cutErr {
		t.Fatalf("cut again: %v", err)
	}
}

// ---- request decoding -------------------------------------------------------------------------------

func TestParseQueryAllVersions(t *testing.T) {
	for v := 2; v <= 5; v++ {
		flags := QFValues | QFSkipMetadata | QFPageSize | QFPagingState | QFSerialConsistency
		if v >= 3 {
			flags |= QFTimestamp | QFNamedValues
		}
		if v >= 5 {
			flags |= QFKeyspace
		}
		b := new(Buf)
		if v >= 4 {
			b.BytesMap(map[string][]byte{"pk": {1, 2}})
		}
		b.LongString("SELECT * FROM t WHERE a = :a").Short(Quorum)
		if v >= 5 {
			b.Int(int32(flags))
		} else {
			b.Byte(byte(flags))
		}
		b.Short(3)
		for i, val := range [][]byte{{7}, nil, nil} {
			if v >= 3 {
				b.String([]string{"a", "b", "c"}[i])
			}
			switch {
			case i == 1:
				b.Int(-1)
			case i == 2 && v >= 4:
				b.Int(-2)
			case i == 2:
				b.Bytes([]byte{})
			default:
				b.Bytes(val)
			}
		}
		b.Int(100).Bytes([]byte("state")).Short(LocalSerial)
		if v >= 3 {
			b.Long(1234567890123)
		}
		if v >= 5 {
			b.String("ks5")
		}
		hflags := byte(0)
		if v >= 4 {
			hflags = FlagCustomPayload
		}
		req := ParseRequest(RawFrame(byte(v), hflags|FlagTracing, 77, OpQuery, b.B), nil)
		if req.ParseErr != nil || req.Trailing != 0 {
			t.Fatalf("v%d: %v trailing %d", v, req.ParseErr, req.Trailing)
		}
		q := req.Query
		p := q.Params
		ok := q.Statement == "SELECT * FROM t WHERE a = :a" && p.Consistency == Quorum && p.SkipMetadata && p.PageSize == 100 &&
			string(p.PagingState) == "state" && p.SerialConsistency == LocalSerial && len(p.Values) == 3 && p.Values[0].Bytes[0] == 7 &&
			p.Values[1].Null && req.Header.Stream == 77 && req.Tracing
		if v >= 3 {
			ok = ok && p.Named && p.Values[2].Name == "c" && p.HasTimestamp && p.Timestamp == 1234567890123
		}
		if v >= 4 {
			ok = ok && p.Values[2].Unset && bytes.Equal(req.CustomPayload["pk"], []byte{1, 2})
		} else {
			ok = ok && !p.Values[2].Unset && !p.Values[2].Null && len(p.Values[2].Bytes) == 0
		}
		if v >= 5 {
			ok = ok && p.Keyspace == "ks5"
		}
		if !ok {
			t.Fatalf("v%d: decoded %+v", v, p)
		}
	}
	// v1: QUERY is <long string><consistency>; stream is a signed byte
	req := ParseRequest(RawFrame(1, 0, -3, OpQuery, new(Buf).LongString("USE x").Short(One).B), nil)
	if req.ParseErr != nil || req.Query.Statement != "USE x" || req.Query.Params.Consistency != One || req.Header.Stream != -3 {
		t.Fatalf("v1 %+v", req)
	}
	// v1 EXECUTE: <id><n><values><consistency>
	req = ParseRequest(RawFrame(1, 0, 5, OpExecute, new(Buf).ShortBytes([]byte{0xAB}).Short(1).Bytes([]byte("v")).Short(Two).B), nil)
	if req.ParseErr != nil || !bytes.Equal(req.Execute.ID, []byte{0xAB}) || string(req.Execute.Params.Values[0].Bytes) != "v" || req.Execute.Params.Consistency != Two {
		t.Fatalf("v1 execute %+v", req.Execute)
	}
}

func TestParseOthers(t *testing.T) {
	req := ParseRequest(RawFrame(4, 0, 1, OpStartup, new(Buf).StringMap(map[string]string{"CQL_VERSION": "3.0.0", "COMPRESSION": "lz4"}).B), nil)
	if req.Startup.Options["COMPRESSION"] != "lz4" {
		t.Fatal("startup")
	}
	req = ParseRequest(RawFrame(4, 0, 1, OpRegister, new(Buf).StringList([]string{"STATUS_CHANGE", "SCHEMA_CHANGE"}).B), nil)
	if !reflect.DeepEqual(req.Register.Events, []string{"STATUS_CHANGE", "SCHEMA_CHANGE"}) {
		t.Fatal("register")
	}
	req = ParseRequest(RawFrame(5, FlagBeta, 1, OpPrepare, new(Buf).LongString("SELECT 1").Int(1).String("ks").B), nil)
	if req.Prepare.Statement != "SELECT 1" || req.Prepare.Keyspace != "ks" || req.ParseErr != nil {
		t.Fatalf("prepare v5 %+v %v", req.Prepare, req.ParseErr)
	}
	req = ParseRequest(RawFrame(4, 0, 1, OpAuthResponse, new(Buf).Bytes([]byte("\x00u\x00p")).B), nil)
	if u, p := plainToken(req.AuthResponse.Token); u != "u" || p != "p" {
		t.Fatal("auth response")
	}
	// BATCH v4: logged, one query with 1 value, one prepared with 2 values, serial + timestamp
	b := new(Buf).Byte(0).Short(2).
		Byte(0).LongString("INSERT 1").Short(1).Bytes([]byte("a")).
		Byte(1).ShortBytes([]byte{9, 9}).Short(2).Int(-1).Int(-2).
		Short(LocalQuorum).Byte(byte(QFSerialConsistency | QFTimestamp)).Short(Serial).Long(42)
	req = ParseRequest(RawFrame(4, 0, 1, OpBatch, b.B), nil)
	bt := req.Batch
	if req.ParseErr != nil || req.Trailing != 0 || len(bt.Statements) != 2 || bt.Statements[0].Statement != "INSERT 1" || !bytes.Equal(bt.Statements[1].ID, []byte{9, 9}) ||
		!bt.Statements[1].Values[0].Null || !bt.Statements[1].Values[1].Unset || bt.Consistency != LocalQuorum || bt.SerialConsistency != Serial || bt.Timestamp != 42 {
		t.Fatalf("batch %+v err %v", bt, req.ParseErr)
	}
	// v2 BATCH has no flags
	b = new(Buf).Byte(1).Short(1).Byte(0).LongString("X").Short(0).Short(One)
	req = ParseRequest(RawFrame(2, 0, 1, OpBatch, b.B), nil)
	if req.ParseErr != nil || req.Trailing != 0 || req.Batch.Type != 1 || req.Batch.Consistency != One {
		t.Fatalf("batch v2 %+v", req.Batch)
	}
	// truncated body and trailing bytes are reported, not fatal
	req = ParseRequest(RawFrame(4, 0, 1, OpQuery, new(Buf).LongString("SELECT").B), nil)
	if req.ParseErr == nil {
		t.Fatal("truncated body accepted")
	}
	req = ParseRequest(RawFrame(4, 0, 1, OpOptions, []byte{1, 2, 3}), nil)
	if req.ParseErr != nil || req.Trailing != 3 {
		t.Fatal("trailing")
	}
	// compressed bodies
	for _, codec := range []BodyCodec{Snappy{}, LZ4{}} {
		body := new(Buf).LongString("SELECT something long long long long long long").Short(One).Byte(0).B
		comp, _ := codec.Encode(body)
		req = ParseRequest(RawFrame(4, FlagCompression, 1, OpQuery, comp), codec)
		if req.ParseErr != nil || req.Query.Statement != "SELECT something long long long long long long" {
			t.Fatalf("%s: %v", codec.Name(), req.ParseErr)
		}
		if ParseRequest(RawFrame(4, FlagCompression, 1, OpQuery, comp), nil).ParseErr == nil {
			t.Fatal("compressed frame without codec accepted")
		}
		if d, err := codec.Decode(mustBytes(codec.Encode(nil))); err != nil || len(d) != 0 {
			t.Fatalf("%s empty round trip: %v", codec.Name(), err)
		}
	}
}

func mustBytes(b []byte, _ error) []byte { return b }

func TestHeaderAndRaw(t *testing.T) {
	f := RawFrameLen(0x84, 0x0A, -1, OpEvent, 99, []byte{1})
	h, err := ParseHeader(f)
	if err != nil || !h.IsResponse() || h.Proto() != 4 || h.Stream != -1 || h.Length != 99 || h.Flags != 0x0A || len(f) != 10 {
		t.Fatalf("%v %v", h, err)
	}
	f = RawFrame(0x82, 0, -128, OpReady, nil)
	h, _ = ParseHeader(f)
	if len(f) != 8 || h.Stream != -128 || h.Opcode != OpReady {
		t.Fatalf("%v", h)
	}
	// envelope: tracing, warnings, payload, in that order
	raw, _ := BuildFrame(4, 3, Envelope{Msg: Void{}, TracingID: bytes.Repeat([]byte{7}, 16), Warnings: []string{"w"}, Payload: map[string][]byte{"k": nil}}, nil)
	h, _ = ParseHeader(raw)
	want := new(Buf).Raw(bytes.Repeat([]byte{7}, 16)).StringList([]string{"w"}).BytesMap(map[string][]byte{"k": nil}).Int(KindVoid).B
	if h.Flags != FlagTracing|FlagWarning|FlagCustomPayload || !bytes.Equal(raw[9:], want) {
		t.Fatalf("envelope % x", raw)
	}
	// prepared, v4: pk indexes present; v3: absent; v1: no result metadata
	p := Prepared{ID: []byte{1}, Bind: []Column{Col("a", Int)}, PKIndexes: []uint16{0}, Keyspace: "k", Table: "t", GlobalSpec: true, Result: []Column{Col("b", List(Varchar))}}
	_, b4 := p.Encode(4)
	_, b3 := p.Encode(3)
	_, b1 := p.Encode(1)
	if len(b4) != len(b3)+6 || len(b1) >= len(b3) {
		t.Fatalf("prepared sizes %d %d %d", len(b4), len(b3), len(b1))
	}
}

// ---- node behaviour without the driver ------------------------------------------------------------------

// miniClient speaks just enough of the protocol to test the node on its own.
type miniClient struct {
	t    *testing.T
	conn net.Conn
	v    byte
}

func (m *miniClient) send(stream int, op byte, body []byte) {
	if _, err := m.conn.Write(RawFrame(m.v, 0, stream, op, body)); err != nil {
		m.t.Fatalf("send: %v", err)
	}
}

func (m *miniClient) recv() (Header, []byte) {
	m.conn.SetReadDeadline(time.Now().Add(2 * time.Second))
	head := make([]byte, HeaderSize(int(m.v)))
	if _, err := io.ReadFull(m.conn, head); err != nil {
		m.t.Fatalf("recv header: %v", err)
	}
	h, _ := ParseHeader(head)
	body := make([]byte, h.Length)
	if _, err := io.ReadFull(m.conn, body); err != nil {
		m.t.Fatalf("recv body: %v", err)
	}
	return h, body
}

func dial(t *testing.T, n *Net, addr string) *miniClient {
	c, err := n.Dialer().DialContext(context.Background(), "tcp", addr)
	if err != nil {
		t.Fatal(err)
	}
	return &miniClient{t: t, conn: c, v: 4}
}

func TestNodeScriptingAndCleanup(t *testing.T) {
	before := runtime.NumGoroutine()
	n := NewNet()
	nd := n.AddNode("10.0.0.1:9042")
	n.AddNode("10.0.0.2:9042")
	var connected []int
	nd.OnConnect(func(c *ServerConn) { connected = append(connected, c.Index()) })
	m := dial(t, n, "10.0.0.1:9042")
	m.send(1, OpOptions, nil)
	if h, _ := m.recv(); h.Opcode != OpSupported || h.Stream != 1 || h.Version != 0x84 {
		t.Fatalf("%v", h)
	}
	m.send(2, OpStartup, new(Buf).StringMap(map[string]string{"CQL_VERSION": "3.0.0"}).B)
	if h, _ := m.recv(); h.Opcode != OpReady {
		t.Fatalf("%v", h)
	}
	m.send(3, OpRegister, new(Buf).StringList([]string{"STATUS_CHANGE"}).B)
	m.recv()
	// system.peers lists the other node
	m.send(4, OpQuery, new(Buf).LongString("SELECT peer, data_center FROM system.peers").Short(One).Byte(0).B)
	_, body := m.recv()
	r := &Reader{B: body}
	if r.Int() != KindRows || r.Int() != RFGlobalTableSpec || r.Int() != 2 || r.String() != "system" || r.String() != "peers" {
		t.Fatalf("peers result % x", body)
	}
	// held answers released LIFO; event push; raw bytes; several replies
	nd.SetHandler(func(c *ServerConn, req *Request) {
		switch {
		case req.Query != nil && req.Query.Statement == "hold":
			c.Hold(req, Void{})
		case req.Query != nil && req.Query.Statement == "twice":
			c.Reply(req, Void{})
			c.Reply(req, SetKeyspace{Keyspace: "again"})
		case req.Query != nil && req.Query.Statement == "raw":
			c.WriteRaw(RawFrame(0x84, 0, req.Stream(), 0x7F, []byte("garbage")))
		case req.Query != nil && req.Query.Statement == "bye":
			c.Close()
		default:
			nd.Default(c, req)
		}
	})
	q := func(stream int, s string) { m.send(stream, OpQuery, new(Buf).LongString(s).Short(One).Byte(0).B) }
	q(10, "hold")
	q(11, "hold")
	q(12, "hold")
	if !nd.WaitRequests(3, func(r *Request) bool { return r.Statement() == "hold" }, time.Second) {
		t.Fatal("requests did not arrive")
	}
	if got := nd.ReleaseHeld(LIFO, 0); got != 3 {
		t.Fatalf("released %d", got)
	}
	for _, want := range []int{12, 11, 10} {
		if h, _ := m.recv(); h.Stream != want {
			t.Fatalf("LIFO: got stream %d want %d", h.Stream, want)
		}
	}
	if nd.PushEvent(StatusChangeEvent{Change: "DOWN", IP: net.ParseIP("10.0.0.2"), Port: 9042}) != 1 {
		t.Fatal("event not pushed")
	}
	if nd.PushEvent(TopologyChangeEvent{Change: "NEW_NODE", IP: net.ParseIP("10.0.0.2"), Port: 9042}) != 0 {
		t.Fatal("event pushed to a connection that did not register for it")
	}
	h, body := m.recv()
	r = &Reader{B: body}
	if h.Stream != -1 || h.Opcode != OpEvent || r.String() != "STATUS_CHANGE" || r.String() != "DOWN" || r.Byte() != 4 {
		t.Fatalf("event %v % x", h, body)
	}
	q(20, "twice")
	h1, _ := m.recv()
	h2, _ := m.recv()
	if h1.Stream != 20 || h2.Stream != 20 {
		t.Fatal("two replies")
	}
	q(21, "raw")
	if h, b := m.recv(); h.Opcode != 0x7F || string(b) != "garbage" {
		t.Fatal("raw")
	}
	if nd.Count("QUERY") != 6 || nd.Count("QUERY:hold") != 3 || len(nd.Sent()) != 11 || nd.OpenConns() != 1 {
		t.Fatalf("observation: %v sent=%d", nd.Counters(), len(nd.Sent()))
	}
	q(22, "bye")
	m.conn.SetReadDeadline(time.Now().Add(time.Second))
	if _, err := m.conn.Read(make([]byte, 1)); err != io.EOF {
		t.Fatalf("after server close: %v", err)
	}
	if nd.OpenConns() != 0 || nd.ClosedConns() != 1 || !reflect.DeepEqual(connected, []int{0}) {
		t.Fatal("connection accounting")
	}
	// a frame that is not a request closes the connection after the handler saw it
	m2 := dial(t, n, "10.0.0.1:9042")
	m2.conn.Write(RawFrame(0x84, 0, 1, OpReady, nil))
	c2 := nd.Conns()[1]
	if !c2.WaitDone(time.Second) || c2.BadFrames() != 1 || c2.Requests()[0].ParseErr == nil {
		t.Fatal("bad frame handling")
	}
	// torn frame
	m3 := dial(t, n, "10.0.0.1:9042")
	m3.conn.Write(RawFrame(4, 0, 1, OpOptions, nil))
	m3.conn.Write([]byte{4, 0, 0})
	m3.conn.Close()
	c3 := nd.Conns()[2]
	if !c3.WaitDone(time.Second) || len(c3.Requests()) != 1 || !bytes.Equal(c3.Unparsed(), []byte{4, 0, 0}) {
		t.Fatalf("torn frame: %d requests, unparsed % x", len(c3.Requests()), c3.Unparsed())
	}
	// dial faults honour the context
	nd.SetDialFault(&DialFault{Hang: true})
	ctx, cancel := context.WithTimeout(context.Background(), 20*time.Millisecond)
	_, err := n.Dialer().DialContext(ctx, "tcp", "10.0.0.1:9042")
	cancel()
	if !errors.Is(err, context.DeadlineExceeded) {
		t.Fatalf("hanging dial: %v", err)
	}
	if _, err := n.Dialer().DialContext(context.Background(), "tcp", "10.9.9.9:9042"); err == nil {
		t.Fatal("dial to nowhere succeeded")
	}
	// pending timers and open connections are cleaned up by Close
	nd.SetDialFault(nil)
	m4 := dial(t, n, "10.0.0.2:9042")
	n.Node("10.0.0.2:9042").SetHandler(func(c *ServerConn, req *Request) { c.ReplyAfter(time.Hour, req, Void{}) })
	m4.send(1, OpOptions, nil)
	n.Node("10.0.0.2:9042").WaitRequests(1, nil, time.Second)
	n.Close()
	n.Close()
	if _, err := m4.conn.Read(make([]byte, 1)); err == nil {
		t.Fatal("connection survived Net.Close")
	}
	if _, err := n.Dialer().DialContext(context.Background(), "tcp", "10.0.0.1:9042"); err == nil {
		t.Fatal("dial after Net.Close succeeded")
	}
	time.Sleep(20 * time.Millisecond)
	if after := runtime.NumGoroutine(); after > before {
		buf := make([]byte, 1<<16)
		t.Fatalf("goroutines leaked: %d -> %d\n%s", before, after, buf[:runtime.Stack(buf, true)])
	}
}

func TestPerturbDeterministic(t *testing.T) {
	run := func(seed uint64) [][]int {
		n := NewNet()
		defer n.Close()
		n.AddNode("10.0.0.1:9042")
		n.Perturb(seed, time.Millisecond)
		var all [][]int
		for k := 0; k < 2; k++ {
			m := dial(t, n, "10.0.0.1:9042")
			for i := 0; i < 20; i++ {
				m.send(i+1, OpOptions, nil)
				m.recv()
			}
			// the split points chosen are visible as the sizes of the client's reads only indirectly;
			// compare the barrier offsets instead via the Sent offsets + a fresh rng replay
			var offs []int
			for _, s := range n.Node("10.0.0.1:9042").Conns()[k].Sent() {
				offs = append(offs, int(s.Offset))
			}
			all = append(all, offs)
		}
		return all
	}
	a, b := run(7), run(7)
	if !reflect.DeepEqual(a, b) {
		t.Fatal("same seed, different behaviour")
	}
	r1, r2 := &rng{s: 7}, &rng{s: 7}
	if r1.next() != r2.next() {
		t.Fatal("rng")
	}
}

func TestCQLAnalysis(t *testing.T) {
	si := analyze("SELECT a, b FROM ks.t WHERE k = ? AND c IN ? AND d = 'x' LIMIT ?")
	if si.verb != "select" || si.table != "ks.t" || !reflect.DeepEqual(si.cols, []string{"a", "b"}) ||
		!reflect.DeepEqual(si.markers, []string{"k", "c", "[limit]"}) || len(si.conds) != 3 || si.conds[2].lit != "x" || si.limitMarker != 2 || !si.selectOK {
		t.Fatalf("%+v", si)
	}
	si = analyze(`INSERT INTO "Ks".t (a, b, c) VALUES (?, 5, ?) USING TTL ?`)
	if si.table != "Ks.t" || !reflect.DeepEqual(si.markers, []string{"a", "c", "[ttl]"}) {
		t.Fatalf("%+v", si)
	}
	si = analyze("UPDATE t SET v = ?, w = w + ? WHERE k = ? AND c > ?")
	if si.table != "t" || !reflect.DeepEqual(si.markers, []string{"v", "w", "k", "c"}) {
		t.Fatalf("%+v", si)
	}
	si = analyze("SELECT count(*) FROM system.local WHERE key='local'")
	if !si.count || si.table != "system.local" || si.conds[0].col != "key" || !si.conds[0].isStr {
		t.Fatalf("%+v", si)
	}
	si = analyze("DELETE FROM t WHERE k IN (?, ?)")
	if !reflect.DeepEqual(si.markers, []string{"k", "k"}) {
		t.Fatalf("%+v", si.markers)
	}
}
