// Package c04lib: shared pieces of the C04 / C05 harness programs.
//
// wire.go: logical responses (what a server means to say) and an encoder for them written from the
// native protocol specifications v1-v5 (frame header, notations, RESULT/ERROR/EVENT/... bodies).
// It never calls gocql's framer.  Every logical value also prints itself as a Coq term of the types
// of coq/theories/C04/Spec.v, so that the Coq-side specification encoder can be compared with this
// one byte for byte.
package c04lib

import (
	"fmt"
	"strings"

	"gocqlverif/hlib"
)

// ---- section 3 notations ---------------------------------------------------------------------

func EncShort(n int) []byte { return []byte{byte(n >> 8), byte(n)} }
func EncInt(n int) []byte   { return []byte{byte(n >> 24), byte(n >> 16), byte(n >> 8), byte(n)} }
func EncString(s string) []byte {
	return append(EncShort(len(s)), s...)
}

// OptBytes is a [bytes] value: Null or Val.
type OptBytes struct {
	Null bool
	Val  []byte
}

func EncBytes(v OptBytes) []byte {
	if v.Null {
		return EncInt(-1)
	}
	return append(EncInt(len(v.Val)), v.Val...)
}
func EncShortBytes(b []byte) []byte { return append(EncShort(len(b)), b...) }
func EncStringList(l []string) []byte {
	out := EncShort(len(l))
	for _, s := range l {
		out = append(out, EncString(s)...)
	}
	return out
}

type MultiKV struct {
	K string
	V []string
}
type BytesKV struct {
	K string
	V OptBytes
}

func EncStringMultimap(m []MultiKV) []byte {
	out := EncShort(len(m))
	for _, kv := range m {
		out = append(out, EncString(kv.K)...)
		out = append(out, EncStringList(kv.V)...)
	}
	return out
}
func EncBytesMap(m []BytesKV) []byte {
	out := EncShort(len(m))
	for _, kv := range m {
		out = append(out, EncString(kv.K)...)
		out = append(out, EncBytes(kv.V)...)
	}
	return out
}
func EncInetAddr(a []byte) []byte { return append([]byte{byte(len(a))}, a...) }
func EncInet(a []byte, port int) []byte {
	return append(EncInetAddr(a), EncInt(port)...)
}

// ---- Coq printing helpers ----------------------------------------------------------------------

func CoqStr(s string) string { return hlib.ZList([]byte(s)) }
func CoqOptBytes(v OptBytes) string {
	if v.Null {
		return "None"
	}
	return hlib.Some(hlib.ZList(v.Val))
}
func CoqStrList(l []string) string {
	items := make([]string, len(l))
	for i, s := range l {
		items[i] = CoqStr(s)
	}
	return hlib.List(items)
}
func coqMulti(m []MultiKV) string {
	items := make([]string, len(m))
	for i, kv := range m {
		items[i] = hlib.Pair(CoqStr(kv.K), CoqStrList(kv.V))
	}
	return hlib.List(items)
}
func coqBytesMap(m []BytesKV) string {
	items := make([]string, len(m))
	for i, kv := range m {
		items[i] = hlib.Pair(CoqStr(kv.K), CoqOptBytes(kv.V))
	}
	return hlib.List(items)
}

// ---- [option]: type descriptors ----------------------------------------------------------------

const (
	KCustom = iota
	KNative
	KList
	KMap
	KSet
	KUDT
	KTuple
)

type SType struct {
	Kind       int
	Class      string   // custom
	ID         int      // native
	Elems      []*SType // list/set: 1, map: 2, tuple: n, udt: n
	KS, Name   string   // udt
	FieldNames []string // udt
}

func (t *SType) Encode() []byte {
	switch t.Kind {
	case KCustom:
		return append(EncShort(0x0000), EncString(t.Class)...)
	case KNative:
		return EncShort(t.ID)
	case KList:
		return append(EncShort(0x0020), t.Elems[0].Encode()...)
	case KMap:
		return append(append(EncShort(0x0021), t.Elems[0].Encode()...), t.Elems[1].Encode()...)
	case KSet:
		return append(EncShort(0x0022), t.Elems[0].Encode()...)
	case KUDT:
		out := EncShort(0x0030)
		out = append(out, EncString(t.KS)...)
		out = append(out, EncString(t.Name)...)
		out = append(out, EncShort(len(t.Elems))...)
		for i, e := range t.Elems {
			out = append(out, EncString(t.FieldNames[i])...)
			out = append(out, e.Encode()...)
		}
		return out
	case KTuple:
		out := EncShort(0x0031)
		out = append(out, EncShort(len(t.Elems))...)
		for _, e := range t.Elems {
			out = append(out, e.Encode()...)
		}
		return out
	}
	panic("bad SType")
}

func (t *SType) Coq() string {
	switch t.Kind {
	case KCustom:
		return "(SCustom " + CoqStr(t.Class) + ")"
	case KNative:
		return fmt.Sprintf("(SNative %d)", t.ID)
	case KList:
		return "(SList " + t.Elems[0].Coq() + ")"
	case KMap:
		return "(SMap " + t.Elems[0].Coq() + " " + t.Elems[1].Coq() + ")"
	case KSet:
		return "(SSet " + t.Elems[0].Coq() + ")"
	case KUDT:
		items := make([]string, len(t.Elems))
		for i, e := range t.Elems {
			items[i] = hlib.Pair(CoqStr(t.FieldNames[i]), e.Coq())
		}
		return "(SUDT " + CoqStr(t.KS) + " " + CoqStr(t.Name) + " " + hlib.List(items) + ")"
	case KTuple:
		items := make([]string, len(t.Elems))
		for i, e := range t.Elems {
			items[i] = e.Coq()
		}
		return "(STuple " + hlib.List(items) + ")"
	}
	panic("bad SType")
}

// ---- metadata --------------------------------------------------------------------------------

type SCol struct {
	KS, Table, Name string
	Type            *SType
}

type SMeta struct {
	Global    bool
	GKS, GTab string
	HasPaging bool
	Paging    []byte
	NoMeta    bool
	Count     int
	Cols      []SCol
}

func (m *SMeta) Flags() int {
	f := 0
	if m.Global {
		f |= 0x0001
	}
	if m.HasPaging {
		f |= 0x0002
	}
	if m.NoMeta {
		f |= 0x0004
	}
	return f
}

func (m *SMeta) encTail() []byte {
	var out []byte
	if m.HasPaging {
		out = append(out, EncBytes(OptBytes{Val: m.Paging})...)
	}
	if m.NoMeta {
		return out
	}
	if m.Global {
		out = append(out, EncString(m.GKS)...)
		out = append(out, EncString(m.GTab)...)
	}
	for _, c := range m.Cols {
		if !m.Global {
			out = append(out, EncString(c.KS)...)
			out = append(out, EncString(c.Table)...)
		}
		out = append(out, EncString(c.Name)...)
		out = append(out, c.Type.Encode()...)
	}
	return out
}

func (m *SMeta) EncodeResult() []byte {
	out := append(EncInt(m.Flags()), EncInt(m.Count)...)
	return append(out, m.encTail()...)
}

func (m *SMeta) EncodePrepared(v int, pk []int) []byte {
	out := append(EncInt(m.Flags()), EncInt(m.Count)...)
	if v >= 4 {
		out = append(out, EncInt(len(pk))...)
		for _, i := range pk {
			out = append(out, EncShort(i)...)
		}
	}
	return append(out, m.encTail()...)
}

func (m *SMeta) Coq() string {
	g := "None"
	if m.Global {
		g = hlib.Some(hlib.Pair(CoqStr(m.GKS), CoqStr(m.GTab)))
	}
	p := "None"
	if m.HasPaging {
		p = hlib.Some(hlib.ZList(m.Paging))
	}
	cols := make([]string, len(m.Cols))
	for i, c := range m.Cols {
		cols[i] = fmt.Sprintf("(Build_scol %s %s %s %s)", CoqStr(c.KS), CoqStr(c.Table), CoqStr(c.Name), c.Type.Coq())
	}
	return fmt.Sprintf("(Build_smeta %s %s %s %s %s)", g, p, hlib.Bool(m.NoMeta), hlib.Z(int64(m.Count)), hlib.List(cols))
}

// ---- responses ---------------------------------------------------------------------------------

type AddrCode struct {
	Addr []byte
	Code int
}
type SFail struct {
	IsMap bool
	N     int
	Map   []AddrCode
}

func (f SFail) enc() []byte {
	if !f.IsMap {
		return EncInt(f.N)
	}
	out := EncInt(len(f.Map))
	for _, ac := range f.Map {
		out = append(out, EncInetAddr(ac.Addr)...)
		out = append(out, EncShort(ac.Code)...)
	}
	return out
}
func (f SFail) Coq() string {
	if !f.IsMap {
		return fmt.Sprintf("(NumFailures %s)", hlib.Z(int64(f.N)))
	}
	items := make([]string, len(f.Map))
	for i, ac := range f.Map {
		items[i] = hlib.Pair(hlib.ZList(ac.Addr), hlib.Z(int64(ac.Code)))
	}
	return "(ReasonMap " + hlib.List(items) + ")"
}

const (
	XPlain = iota
	XUnavailable
	XWriteTimeout
	XReadTimeout
	XReadFailure
	XFunctionFailure
	XWriteFailure
	XCDCWriteFailure
	XCASWriteUnknown
	XAlreadyExists
	XUnprepared
)

var XCodes = map[int]int{XUnavailable: 0x1000, XWriteTimeout: 0x1100, XReadTimeout: 0x1200, XReadFailure: 0x1300,
	XFunctionFailure: 0x1400, XWriteFailure: 0x1500, XCDCWriteFailure: 0x1600, XCASWriteUnknown: 0x1700,
	XAlreadyExists: 0x2400, XUnprepared: 0x2500}

var PlainCodes = []int{0x0000, 0x000A, 0x0100, 0x1001, 0x1002, 0x1003, 0x2000, 0x2100, 0x2200, 0x2300}

type SErr struct {
	Kind       int
	CL, A, B   int // consistency; required/received; alive/blockfor
	S1, S2     string
	List       []string
	Fail       SFail
	DP         int // data_present byte
	ID         []byte
}

func (x SErr) enc() []byte {
	var out []byte
	head := func() {
		out = append(out, EncShort(x.CL)...)
		out = append(out, EncInt(x.A)...)
		out = append(out, EncInt(x.B)...)
	}
	switch x.Kind {
	case XPlain, XCDCWriteFailure:
	case XUnavailable, XCASWriteUnknown:
		head()
	case XWriteTimeout:
		head()
		out = append(out, EncString(x.S1)...)
	case XReadTimeout:
		head()
		out = append(out, byte(x.DP))
	case XReadFailure:
		head()
		out = append(out, x.Fail.enc()...)
		out = append(out, byte(x.DP))
	case XWriteFailure:
		head()
		out = append(out, x.Fail.enc()...)
		out = append(out, EncString(x.S1)...)
	case XFunctionFailure:
		out = append(out, EncString(x.S1)...)
		out = append(out, EncString(x.S2)...)
		out = append(out, EncStringList(x.List)...)
	case XAlreadyExists:
		out = append(out, EncString(x.S1)...)
		out = append(out, EncString(x.S2)...)
	case XUnprepared:
		out = append(out, EncShortBytes(x.ID)...)
	}
	return out
}

func (x SErr) Coq() string {
	z := func(v int) string { return hlib.Z(int64(v)) }
	switch x.Kind {
	case XPlain:
		return "XPlain"
	case XCDCWriteFailure:
		return "XCDCWriteFailure"
	case XUnavailable:
		return fmt.Sprintf("(XUnavailable %s %s %s)", z(x.CL), z(x.A), z(x.B))
	case XCASWriteUnknown:
		return fmt.Sprintf("(XCASWriteUnknown %s %s %s)", z(x.CL), z(x.A), z(x.B))
	case XWriteTimeout:
		return fmt.Sprintf("(XWriteTimeout %s %s %s %s)", z(x.CL), z(x.A), z(x.B), CoqStr(x.S1))
	case XReadTimeout:
		return fmt.Sprintf("(XReadTimeout %s %s %s %s)", z(x.CL), z(x.A), z(x.B), z(x.DP))
	case XReadFailure:
		return fmt.Sprintf("(XReadFailure %s %s %s %s %s)", z(x.CL), z(x.A), z(x.B), x.Fail.Coq(), z(x.DP))
	case XWriteFailure:
		return fmt.Sprintf("(XWriteFailure %s %s %s %s %s)", z(x.CL), z(x.A), z(x.B), x.Fail.Coq(), CoqStr(x.S1))
	case XFunctionFailure:
		return fmt.Sprintf("(XFunctionFailure %s %s %s)", CoqStr(x.S1), CoqStr(x.S2), CoqStrList(x.List))
	case XAlreadyExists:
		return fmt.Sprintf("(XAlreadyExists %s %s)", CoqStr(x.S1), CoqStr(x.S2))
	case XUnprepared:
		return fmt.Sprintf("(XUnprepared %s)", hlib.ZList(x.ID))
	}
	panic("bad SErr")
}

const (
	ScKeyspace = iota
	ScTable
	ScType
	ScFunction
	ScAggregate
)

type SChange struct {
	Kind             int
	Change, KS, Name string
	Args             []string
}

func (c SChange) enc(v int) []byte {
	out := EncString(c.Change)
	if v <= 2 {
		out = append(out, EncString(c.KS)...)
		if c.Kind == ScKeyspace {
			return append(out, EncString("")...)
		}
		return append(out, EncString(c.Name)...)
	}
	target := []string{"KEYSPACE", "TABLE", "TYPE", "FUNCTION", "AGGREGATE"}[c.Kind]
	out = append(out, EncString(target)...)
	out = append(out, EncString(c.KS)...)
	if c.Kind != ScKeyspace {
		out = append(out, EncString(c.Name)...)
	}
	if c.Kind == ScFunction || c.Kind == ScAggregate {
		out = append(out, EncStringList(c.Args)...)
	}
	return out
}

func (c SChange) Coq() string {
	switch c.Kind {
	case ScKeyspace:
		return fmt.Sprintf("(ScKeyspace %s %s)", CoqStr(c.Change), CoqStr(c.KS))
	case ScTable:
		return fmt.Sprintf("(ScTable %s %s %s)", CoqStr(c.Change), CoqStr(c.KS), CoqStr(c.Name))
	case ScType:
		return fmt.Sprintf("(ScType %s %s %s)", CoqStr(c.Change), CoqStr(c.KS), CoqStr(c.Name))
	case ScFunction:
		return fmt.Sprintf("(ScFunction %s %s %s %s)", CoqStr(c.Change), CoqStr(c.KS), CoqStr(c.Name), CoqStrList(c.Args))
	case ScAggregate:
		return fmt.Sprintf("(ScAggregate %s %s %s %s)", CoqStr(c.Change), CoqStr(c.KS), CoqStr(c.Name), CoqStrList(c.Args))
	}
	panic("bad SChange")
}

// SCell: a cell of a row.  Tuple cells are a sequence of [bytes], one per component.
type SCell struct {
	IsTuple bool
	Val     OptBytes   // plain
	Null    bool       // tuple: the whole tuple is null
	Comps   []OptBytes // tuple components (may be fewer than the type has)
}

func (c SCell) enc() []byte {
	if !c.IsTuple {
		return EncBytes(c.Val)
	}
	if c.Null {
		return EncBytes(OptBytes{Null: true})
	}
	var inner []byte
	for _, p := range c.Comps {
		inner = append(inner, EncBytes(p)...)
	}
	if inner == nil {
		inner = []byte{}
	}
	return EncBytes(OptBytes{Val: inner})
}
func (c SCell) Coq() string {
	if !c.IsTuple {
		return "(CellVal " + CoqOptBytes(c.Val) + ")"
	}
	if c.Null {
		return "(CellTuple None)"
	}
	items := make([]string, len(c.Comps))
	for i, p := range c.Comps {
		items[i] = CoqOptBytes(p)
	}
	return "(CellTuple " + hlib.Some(hlib.List(items)) + ")"
}

const (
	RVoid = iota + 1
	RRows
	RSetKeyspace
	RPrepared
	RSchemaChange
)

type SResult struct {
	Kind     int
	Meta     SMeta // rows; prepared: request metadata
	Rows     [][]SCell
	KS       string
	ID       []byte
	PK       []int
	RespMeta SMeta
	Change   SChange
}

func EncRows(rows [][]SCell) []byte {
	var out []byte
	for _, r := range rows {
		for _, c := range r {
			out = append(out, c.enc()...)
		}
	}
	return out
}

func (r *SResult) enc(v int) []byte {
	out := EncInt(r.Kind)
	switch r.Kind {
	case RVoid:
	case RRows:
		out = append(out, r.Meta.EncodeResult()...)
		out = append(out, EncInt(len(r.Rows))...)
		out = append(out, EncRows(r.Rows)...)
	case RSetKeyspace:
		out = append(out, EncString(r.KS)...)
	case RPrepared:
		out = append(out, EncShortBytes(r.ID)...)
		out = append(out, r.Meta.EncodePrepared(v, r.PK)...)
		if v >= 2 {
			out = append(out, r.RespMeta.EncodeResult()...)
		}
	case RSchemaChange:
		out = append(out, r.Change.enc(v)...)
	}
	return out
}

func (r *SResult) Coq() string {
	switch r.Kind {
	case RVoid:
		return "RVoid"
	case RRows:
		rows := make([]string, len(r.Rows))
		for i, row := range r.Rows {
			cs := make([]string, len(row))
			for j, c := range row {
				cs[j] = c.Coq()
			}
			rows[i] = hlib.List(cs)
		}
		return fmt.Sprintf("(RRows %s %s)", r.Meta.Coq(), hlib.List(rows))
	case RSetKeyspace:
		return "(RSetKeyspace " + CoqStr(r.KS) + ")"
	case RPrepared:
		pk := make([]int64, len(r.PK))
		for i, x := range r.PK {
			pk[i] = int64(x)
		}
		return fmt.Sprintf("(RPrepared %s %s %s %s)", hlib.ZList(r.ID), hlib.ZListI(pk), r.Meta.Coq(), r.RespMeta.Coq())
	case RSchemaChange:
		return "(RSchemaChange " + r.Change.Coq() + ")"
	}
	panic("bad SResult")
}

const (
	EvTopology = iota
	EvStatus
	EvSchema
)

type SEvent struct {
	Kind   int
	Change string
	Addr   []byte
	Port   int
	Schema SChange
}

func (e *SEvent) enc(v int) []byte {
	switch e.Kind {
	case EvTopology:
		return append(append(EncString("TOPOLOGY_CHANGE"), EncString(e.Change)...), EncInet(e.Addr, e.Port)...)
	case EvStatus:
		return append(append(EncString("STATUS_CHANGE"), EncString(e.Change)...), EncInet(e.Addr, e.Port)...)
	default:
		return append(EncString("SCHEMA_CHANGE"), e.Schema.enc(v)...)
	}
}
func (e *SEvent) Coq() string {
	switch e.Kind {
	case EvTopology:
		return fmt.Sprintf("(EvTopology %s %s %s)", CoqStr(e.Change), hlib.ZList(e.Addr), hlib.Z(int64(e.Port)))
	case EvStatus:
		return fmt.Sprintf("(EvStatus %s %s %s)", CoqStr(e.Change), hlib.ZList(e.Addr), hlib.Z(int64(e.Port)))
	default:
		return "(EvSchema " + e.Schema.Coq() + ")"
	}
}

const (
	OpError         = 0x00
	OpReady         = 0x02
	OpAuthenticate  = 0x03
	OpSupported     = 0x06
	OpResult        = 0x08
	OpEvent         = 0x0C
	OpAuthChallenge = 0x0E
	OpAuthSuccess   = 0x10
)

type Response struct {
	Op        int
	Code      int
	Msg       string
	Err       SErr
	Class     string
	Supported []MultiKV
	Result    SResult
	Event     SEvent
	Token     OptBytes
}

func (r *Response) EncodeBody(v int) []byte {
	switch r.Op {
	case OpError:
		out := append(EncInt(r.Code), EncString(r.Msg)...)
		return append(out, r.Err.enc()...)
	case OpReady:
		return []byte{}
	case OpAuthenticate:
		return EncString(r.Class)
	case OpSupported:
		return EncStringMultimap(r.Supported)
	case OpResult:
		return r.Result.enc(v)
	case OpEvent:
		return r.Event.enc(v)
	case OpAuthChallenge, OpAuthSuccess:
		return EncBytes(r.Token)
	}
	panic("bad Response")
}

func (r *Response) Coq() string {
	switch r.Op {
	case OpError:
		return fmt.Sprintf("(RespError %s %s %s)", hlib.Z(int64(r.Code)), CoqStr(r.Msg), r.Err.Coq())
	case OpReady:
		return "RespReady"
	case OpAuthenticate:
		return "(RespAuthenticate " + CoqStr(r.Class) + ")"
	case OpSupported:
		return "(RespSupported " + coqMulti(r.Supported) + ")"
	case OpResult:
		return "(RespResult " + r.Result.Coq() + ")"
	case OpEvent:
		return "(RespEvent " + r.Event.Coq() + ")"
	case OpAuthChallenge:
		return "(RespAuthChallenge " + CoqOptBytes(r.Token) + ")"
	case OpAuthSuccess:
		return "(RespAuthSuccess " + CoqOptBytes(r.Token) + ")"
	}
	panic("bad Response")
}

// Envelope: the flag-announced body prefixes.
type Envelope struct {
	HasTrace    bool
	Trace       []byte
	HasWarnings bool
	Warnings    []string
	HasPayload  bool
	Payload     []BytesKV
}

func (e *Envelope) Flags() int {
	f := 0
	if e.HasTrace {
		f |= 0x02
	}
	if e.HasPayload {
		f |= 0x04
	}
	if e.HasWarnings {
		f |= 0x08
	}
	return f
}

func (e *Envelope) Coq() string {
	t, w, p := "None", "None", "None"
	if e.HasTrace {
		t = hlib.Some(hlib.ZList(e.Trace))
	}
	if e.HasWarnings {
		w = hlib.Some(CoqStrList(e.Warnings))
	}
	if e.HasPayload {
		p = hlib.Some(coqBytesMap(e.Payload))
	}
	return fmt.Sprintf("(Build_envelope %s %s %s)", t, w, p)
}

// EncodeBody: tracing id, then warnings, then custom payload, then the message body.
func EncodeBody(v int, e *Envelope, r *Response) []byte {
	var out []byte
	if e.HasTrace {
		out = append(out, e.Trace...)
	}
	if e.HasWarnings {
		out = append(out, EncStringList(e.Warnings)...)
	}
	if e.HasPayload {
		out = append(out, EncBytesMap(e.Payload)...)
	}
	out = append(out, r.EncodeBody(v)...)
	if out == nil {
		out = []byte{}
	}
	return out
}

// EncodeFrame: header + body.  v1-2: version flags stream(1) opcode length(4); v3+: stream(2).
func EncodeFrame(v, stream, extraFlags int, e *Envelope, r *Response) []byte {
	body := EncodeBody(v, e, r)
	out := []byte{byte(0x80 | v), byte(e.Flags() + extraFlags)}
	if v <= 2 {
		out = append(out, byte(stream))
	} else {
		out = append(out, byte(stream>>8), byte(stream))
	}
	out = append(out, byte(r.Op))
	out = append(out, EncInt(len(body))...)
	return append(out, body...)
}

// Describe gives a short kind label for the generator distribution table.
func (r *Response) Describe() string {
	switch r.Op {
	case OpError:
		return fmt.Sprintf("error-%d", r.Err.Kind)
	case OpResult:
		return []string{"", "result-void", "result-rows", "result-keyspace", "result-prepared", "result-schema"}[r.Result.Kind]
	case OpEvent:
		return []string{"event-topology", "event-status", "event-schema"}[r.Event.Kind]
	case OpReady:
		return "ready"
	case OpAuthenticate:
		return "authenticate"
	case OpSupported:
		return "supported"
	case OpAuthChallenge:
		return "auth-challenge"
	case OpAuthSuccess:
		return "auth-success"
	}
	return "?"
}

var _ = strings.Join

func (m *SMeta) pagingOrNilInternal() []byte {
	if m.HasPaging {
		return m.Paging
	}
	return nil
}

// PagingOrNil is the paging state the metadata carries (nil when the flag is not set).
func (m *SMeta) PagingOrNil() []byte { return m.pagingOrNilInternal() }
