package c04lib

// values.go: what the map-based consumers (SliceMap, MapScan) and Scan into the canonical destinations
// hand to the caller, compared -- after iteration has finished -- with the values the frame encodes.
// The reference value of a cell is obtained by decoding the cell's bytes on their own into a fresh
// destination (so nothing is shared with the iteration under test); for blob and text columns it is
// also checked directly against the raw bytes of the frame.

import (
	"fmt"
	"math"
	"reflect"

	"github.com/gocql/gocql"
)

// Eqv: deep equality that treats nil and empty slices / maps alike and compares floats by bit pattern.
func Eqv(x, y interface{}) bool { return eqv(reflect.ValueOf(x), reflect.ValueOf(y)) }

func eqv(a, b reflect.Value) bool {
	if !a.IsValid() || !b.IsValid() {
		return a.IsValid() == b.IsValid()
	}
	if a.Type() != b.Type() {
		return false
	}
	switch a.Kind() {
	case reflect.Slice, reflect.Array:
		if a.Len() != b.Len() {
			return false
		}
		for i := 0; i < a.Len(); i++ {
			if !eqv(a.Index(i), b.Index(i)) {
				return false
			}
		}
		return true
	case reflect.Map:
		if a.Len() != b.Len() {
			return false
		}
		for _, k := range a.MapKeys() {
			bv := b.MapIndex(k)
			if !bv.IsValid() || !eqv(a.MapIndex(k), bv) {
				return false
			}
		}
		return true
	case reflect.Interface, reflect.Ptr:
		if a.IsNil() || b.IsNil() {
			return a.IsNil() == b.IsNil()
		}
		return eqv(a.Elem(), b.Elem())
	case reflect.Float32, reflect.Float64:
		return math.Float64bits(a.Float()) == math.Float64bits(b.Float())
	}
	return reflect.DeepEqual(a.Interface(), b.Interface())
}

// FreshDecode: v := ti.NewWithError(); Unmarshal(ti, data, v); *v -- on a destination of its own.
func FreshDecode(ti gocql.TypeInfo, data []byte) (val interface{}, err error) {
	defer func() {
		if r := recover(); r != nil {
			err = fmt.Errorf("panic: %v", r)
		}
	}()
	v, err := ti.NewWithError()
	if err != nil {
		return nil, err
	}
	if err := gocql.Unmarshal(ti, data, v); err != nil {
		return nil, err
	}
	return reflect.Indirect(reflect.ValueOf(v)).Interface(), nil
}

// ExpectedMaps: per row, column name -> value, as RowData names the destinations (tuple columns expand to
// name[i]); ok=false when some cell has no reference value (the frame is then not used for this monitor).
func ExpectedMaps(cols []gocql.ColumnInfo, meta *SMeta, rows [][]SCell) (out []map[string]interface{}, problem string) {
	for _, row := range rows {
		m := map[string]interface{}{}
		for i, c := range cols {
			cell := row[i]
			if tt, isTuple := c.TypeInfo.(gocql.TupleTypeInfo); isTuple {
				for j, e := range tt.Elems {
					var data []byte
					if !cell.Null && j < len(cell.Comps) && !cell.Comps[j].Null {
						data = cell.Comps[j].Val
						if data == nil {
							data = []byte{}
						}
					}
					v, err := FreshDecode(e, data)
					if err != nil {
						return nil, err.Error()
					}
					m[gocql.TupleColumnName(c.Name, j)] = v
				}
				continue
			}
			var data []byte
			if !cell.Val.Null {
				data = cell.Val.Val
				if data == nil {
					data = []byte{}
				}
			}
			v, err := FreshDecode(c.TypeInfo, data)
			if err != nil {
				return nil, err.Error()
			}
			// blob and text cells: the reference is the frame's bytes themselves
			switch x := v.(type) {
			case []byte:
				if string(x) != string(data) {
					return nil, fmt.Sprintf("VALUE column %s: a blob decoded on its own is %x, the frame has %x", c.Name, x, data)
				}
			case string:
				if meta.Cols[i].Type.Kind == KNative && (meta.Cols[i].Type.ID == 1 || meta.Cols[i].Type.ID == 10 || meta.Cols[i].Type.ID == 13) && x != string(data) {
					return nil, fmt.Sprintf("VALUE column %s: a text cell decoded on its own is %q, the frame has %q", c.Name, x, data)
				}
			}
			m[c.Name] = v
		}
		out = append(out, m)
	}
	return out, ""
}

// DiffMaps describes the first difference between what a consumer returned and the reference ("" = equal).
func DiffMaps(got, want []map[string]interface{}) string {
	if len(got) != len(want) {
		return fmt.Sprintf("%d rows returned, the frame has %d", len(got), len(want))
	}
	for i := range want {
		if len(got[i]) != len(want[i]) {
			return fmt.Sprintf("row %d: %d values returned, the frame has %d", i, len(got[i]), len(want[i]))
		}
		for k, w := range want[i] {
			g, ok := got[i][k]
			if !ok {
				return fmt.Sprintf("row %d: no value for %q", i, k)
			}
			if !Eqv(g, w) {
				return fmt.Sprintf("row %d, %q: the caller holds %#v, the frame encodes %#v", i, k, g, w)
			}
		}
	}
	return ""
}
