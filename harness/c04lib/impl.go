package c04lib

// impl.go: run the real parsers (package gocql through verif_shim_c04.go) under recover(), classify
// the outcome (ok / returned error by message class / panic by the function it was raised in) and
// print what the driver reported as Coq terms of the types of coq/theories/C04/Model.v.

import (
	"bytes"
	"fmt"
	"net"
	"runtime"
	"runtime/debug"
	"sort"
	"strings"

	"github.com/gocql/gocql"
	"gocqlverif/hlib"
)

// ---- error / panic classification -------------------------------------------------------------

var errClasses = []struct{ sub, class string }{
	{"not enough bytes in buffer", "EShort"},
	{"invalid IP size", "EInetSize"},
	{"received negative column count", "ENegCols"},
	{"received negative partition key count", "ENegPk"},
	{"invalid row_count in result frame", "ENegRows"},
	{"unknown error code", "EUnkErrCode"},
	{"unknown result kind", "EUnkResKind"},
	{"unknown op in frame header", "EUnkOp"},
	{"unknown event type", "EUnkEvent"},
	{"unknown SCHEMA_CHANGE target", "EUnkTarget"},
	{"got a request frame from server", "ERequest"},
	{"unsupported protocol response version", "EVersion"},
	{"frame body length can not be less than 0", "ENegLen"},
	{"frame length is bigger than the maximum allowed", "ETooBig"},
	{"error whilst trying to discard frame", "EDiscard"},
	{"unable to read frame body", "EBody"},
	{"no compressor available", "ENoCompressor"},
	{"not enough columns to scan into", "EScanCount"},
	{"unexpected EOF", "EUnexpEof"},
	{"EOF", "EEof"},
	{"can not unmarshal", "EUnmarshal"},
	{"cannot create Go type", "EUnmarshal"},
	{"unmarshal", "EUnmarshal"},
}

// ErrClass maps an error returned by the driver to the model's error classes (by message).
func ErrClass(err error) string {
	s := err.Error()
	for _, c := range errClasses {
		if strings.Contains(s, c.sub) {
			return c.class
		}
	}
	return "EOther"
}

// Panic describes a recovered panic.
type Panic struct {
	Runtime bool   // the value is a runtime.Error
	Value   string // fmt of the value
	Func    string // innermost gocql function on the panicking stack
	Site    string // the model's crash code for that function (CGuarded when it is none of the known ones)
}

// siteOf: crash codes of the model by the function a panic is raised in.  Since the fixes of the C05
// findings the model has no reachable crash site: every panic is reported under the model's "unreachable" code
// and therefore never agrees with the model.
var siteOf = map[string]string{}

// Classify must be called from the deferred function that recovered r.
func Classify(r interface{}) Panic {
	p := Panic{Value: fmt.Sprint(r)}
	_, p.Runtime = r.(runtime.Error)
	st := string(debug.Stack())
	// innermost panic: the last "panic(" line; the first gocql frame after it raised it
	idx := strings.LastIndex(st, "\npanic(")
	if idx >= 0 {
		for _, line := range strings.Split(st[idx+1:], "\n") {
			if strings.HasPrefix(line, "github.com/gocql/gocql.") {
				fn := strings.TrimPrefix(line, "github.com/gocql/gocql.")
				if i := strings.LastIndex(fn, "("); i > 0 {
					fn = fn[:i]
				}
				if strings.Contains(fn, ".func") { // deferred closure of parseFrame re-panicking: skip
					continue
				}
				p.Func = fn
				break
			}
		}
	}
	p.Site = "CGuarded"
	if s, ok := siteOf[p.Func]; ok {
		p.Site = s
	}
	return p
}

// ---- printing TypeInfo / metadata / frames as Model.v terms ------------------------------------

func CoqTInfo(t gocql.TypeInfo) string {
	switch x := t.(type) {
	case gocql.NativeType:
		return fmt.Sprintf("(TNative %d %s)", int(x.Type()), CoqStr(x.Custom()))
	case gocql.CollectionType:
		key := "None"
		if x.Key != nil {
			key = hlib.Some(CoqTInfo(x.Key))
		}
		return fmt.Sprintf("(TColl %d %s %s %s)", int(x.Type()), CoqStr(x.Custom()), key, CoqTInfo(x.Elem))
	case gocql.TupleTypeInfo:
		items := make([]string, len(x.Elems))
		for i, e := range x.Elems {
			items[i] = CoqTInfo(e)
		}
		return fmt.Sprintf("(TTuple %s %s)", CoqStr(x.Custom()), hlib.List(items))
	case gocql.UDTTypeInfo:
		items := make([]string, len(x.Elements))
		for i, e := range x.Elements {
			items[i] = hlib.Pair(CoqStr(e.Name), CoqTInfo(e.Type))
		}
		return fmt.Sprintf("(TUDT %s %s %s %s)", CoqStr(x.Custom()), CoqStr(x.KeySpace), CoqStr(x.Name), hlib.List(items))
	}
	return fmt.Sprintf("(TNative (-1) %s)", CoqStr(fmt.Sprintf("%T", t)))
}

func coqRMeta(m gocql.VerifC04Meta) string {
	cols := make([]string, len(m.Columns))
	for i, c := range m.Columns {
		cols[i] = fmt.Sprintf("(Build_col %s %s %s %s)", CoqStr(c.Keyspace), CoqStr(c.Table), CoqStr(c.Name), CoqTInfo(c.TypeInfo))
	}
	return fmt.Sprintf("(Build_rmeta %s %s %s %s %s)", hlib.Z(int64(m.Flags)), hlib.ZList(m.PagingState), hlib.List(cols),
		hlib.Z(int64(m.ColCount)), hlib.Z(int64(m.ActualColCount)))
}

func coqPMeta(m gocql.VerifC04Meta) string {
	pk := make([]int64, len(m.PkeyColumns))
	for i, x := range m.PkeyColumns {
		pk[i] = int64(x)
	}
	return fmt.Sprintf("(Build_pmeta %s %s %s %s)", coqRMeta(m), hlib.ZListI(pk), CoqStr(m.Keyspace), CoqStr(m.Table))
}

// CoqBytesOrNil: a Go []byte as the model's option bytes (nil = None).
func CoqBytesOrNil(b []byte) string { return coqBytesOrNil(b) }

func coqBytesOrNil(b []byte) string {
	if b == nil {
		return "None"
	}
	return hlib.Some(hlib.ZList(b))
}

// IPKey is the 4- or 16-byte form of an address printed by net.IP.String().
func IPKey(s string) []byte {
	ip := net.ParseIP(s)
	if ip == nil {
		return []byte(s)
	}
	if v4 := ip.To4(); v4 != nil {
		return v4
	}
	return ip
}

func coqErrorMap(m gocql.ErrorMap) string {
	type kv struct {
		k []byte
		v uint16
	}
	var l []kv
	for k, v := range m {
		l = append(l, kv{IPKey(k), v})
	}
	sort.Slice(l, func(i, j int) bool { return bytes.Compare(l[i].k, l[j].k) < 0 })
	items := make([]string, len(l))
	for i, e := range l {
		items[i] = hlib.Pair(hlib.ZList(e.k), hlib.Z(int64(e.v)))
	}
	return hlib.List(items)
}

// ErrView: an error a caller received, as the model's FError term (code, message, code-specific fields) --
// everything but the frame header embedded in the value; "nil" for no error, the Go type and text for an
// error that is not a server error.
func ErrView(e error) string {
	if e == nil {
		return "nil"
	}
	re, ok := e.(gocql.RequestError)
	if !ok {
		return fmt.Sprintf("(not a server error: %T %q)", e, e.Error())
	}
	return fmt.Sprintf("(FError %s %s %s)", hlib.Z(int64(re.Code())), CoqStr(re.Message()), coqErrDetail(e))
}

func coqErrDetail(e error) string {
	z := func(v int) string { return hlib.Z(int64(v)) }
	switch x := e.(type) {
	case *gocql.RequestErrUnavailable:
		return fmt.Sprintf("(DUnavailable %s %s %s)", z(int(x.Consistency)), z(x.Required), z(x.Alive))
	case *gocql.RequestErrWriteTimeout:
		return fmt.Sprintf("(DWriteTimeout %s %s %s %s)", z(int(x.Consistency)), z(x.Received), z(x.BlockFor), CoqStr(x.WriteType))
	case *gocql.RequestErrReadTimeout:
		return fmt.Sprintf("(DReadTimeout %s %s %s %s)", z(int(x.Consistency)), z(x.Received), z(x.BlockFor), z(int(x.DataPresent)))
	case *gocql.RequestErrAlreadyExists:
		return fmt.Sprintf("(DAlreadyExists %s %s)", CoqStr(x.Keyspace), CoqStr(x.Table))
	case *gocql.RequestErrUnprepared:
		return fmt.Sprintf("(DUnprepared %s)", hlib.ZList(x.StatementId))
	case *gocql.RequestErrReadFailure:
		return fmt.Sprintf("(DReadFailure %s %s %s %s %s %s)", z(int(x.Consistency)), z(x.Received), z(x.BlockFor), z(x.NumFailures),
			hlib.Bool(x.DataPresent), coqErrorMap(x.ErrorMap))
	case *gocql.RequestErrWriteFailure:
		return fmt.Sprintf("(DWriteFailure %s %s %s %s %s %s)", z(int(x.Consistency)), z(x.Received), z(x.BlockFor), z(x.NumFailures),
			CoqStr(x.WriteType), coqErrorMap(x.ErrorMap))
	case *gocql.RequestErrFunctionFailure:
		return fmt.Sprintf("(DFunctionFailure %s %s %s)", CoqStr(x.Keyspace), CoqStr(x.Function), CoqStrList(x.ArgTypes))
	case *gocql.RequestErrCDCWriteFailure:
		return "DCDCWriteFailure"
	case *gocql.RequestErrCASWriteUnknown:
		return fmt.Sprintf("(DCASWriteUnknown %s %s %s)", z(int(x.Consistency)), z(x.Received), z(x.BlockFor))
	}
	return "DPlain"
}

func sortedKeys(m map[string][]string) []string {
	ks := make([]string, 0, len(m))
	for k := range m {
		ks = append(ks, k)
	}
	sort.Strings(ks)
	return ks
}

// CoqFrame prints a parsed frame as a Model.frame term (Go maps sorted by key).
func CoqFrame(fr gocql.VerifC04Frame) string {
	switch fr.Kind {
	case "ready":
		return "FReady"
	case "authenticate":
		return "(FAuthenticate " + CoqStr(fr.Class) + ")"
	case "auth_challenge":
		return "(FAuthChallenge " + coqBytesOrNil(fr.Data) + ")"
	case "auth_success":
		return "(FAuthSuccess " + coqBytesOrNil(fr.Data) + ")"
	case "supported":
		var items []string
		for _, k := range sortedKeys(fr.Supported) {
			items = append(items, hlib.Pair(CoqStr(k), CoqStrList(fr.Supported[k])))
		}
		return "(FSupported " + hlib.List(items) + ")"
	case "void":
		return "FVoid"
	case "rows":
		return fmt.Sprintf("(FRows %s %s)", coqRMeta(fr.Meta), hlib.Z(int64(fr.NumRows)))
	case "keyspace":
		return "(FKeyspace " + CoqStr(fr.Keyspace) + ")"
	case "prepared":
		return fmt.Sprintf("(FPrepared %s %s %s)", hlib.ZList(fr.PreparedID), coqPMeta(fr.ReqMeta), "@RESP@")
	case "sc_keyspace":
		return fmt.Sprintf("(FSchemaKeyspace %s %s)", CoqStr(fr.Change), CoqStr(fr.Keyspace))
	case "sc_table":
		return fmt.Sprintf("(FSchemaTable %s %s %s)", CoqStr(fr.Change), CoqStr(fr.Keyspace), CoqStr(fr.Object))
	case "sc_type":
		return fmt.Sprintf("(FSchemaType %s %s %s)", CoqStr(fr.Change), CoqStr(fr.Keyspace), CoqStr(fr.Object))
	case "sc_function":
		return fmt.Sprintf("(FSchemaFunction %s %s %s %s)", CoqStr(fr.Change), CoqStr(fr.Keyspace), CoqStr(fr.Object), CoqStrList(fr.Args))
	case "sc_aggregate":
		return fmt.Sprintf("(FSchemaAggregate %s %s %s %s)", CoqStr(fr.Change), CoqStr(fr.Keyspace), CoqStr(fr.Object), CoqStrList(fr.Args))
	case "topology":
		return fmt.Sprintf("(FTopology %s %s %s)", CoqStr(fr.Change), hlib.ZList(fr.Host), hlib.Z(int64(fr.Port)))
	case "status":
		return fmt.Sprintf("(FStatus %s %s %s)", CoqStr(fr.Change), hlib.ZList(fr.Host), hlib.Z(int64(fr.Port)))
	case "error":
		return fmt.Sprintf("(FError %s %s %s)", hlib.Z(int64(fr.ErrCode)), CoqStr(fr.ErrMessage), coqErrDetail(fr.Err))
	}
	return "FReady (* unknown frame kind " + fr.Kind + " *)"
}

// Outcome of readFrame + parseFrame on one (header, body).
type Outcome struct {
	Class  string // "ok" "err" "panic"
	Err    string // error class when Class == "err"
	ErrMsg string
	Panic  Panic
	Frame  gocql.VerifC04Frame
	Framer *gocql.VerifC04Framer
	Rest   []byte
}

// Pres prints the outcome as a C04.Corr.pres term.  proto is needed because the prepared frame's
// response metadata is absent below protocol 2.
func (o *Outcome) Pres(proto int) string {
	switch o.Class {
	case "err":
		return "(PRErr " + o.Err + ")"
	case "panic":
		return "(PRCrash " + o.Panic.Site + ")"
	}
	fr := CoqFrame(o.Frame)
	if o.Frame.Kind == "prepared" {
		resp := "None"
		if proto >= 2 {
			resp = hlib.Some(coqRMeta(o.Frame.RespMeta))
		}
		fr = strings.Replace(fr, "@RESP@", resp, 1)
	}
	tr := "None"
	if t := o.Framer.TraceID(); t != nil {
		tr = hlib.Some(hlib.ZList(t))
	}
	wa := "None"
	if w := o.Framer.Warnings(); w != nil {
		wa = hlib.Some(CoqStrList(w))
	}
	pl := "None"
	if m := o.Framer.CustomPayload(); m != nil {
		ks := make([]string, 0, len(m))
		for k := range m {
			ks = append(ks, k)
		}
		sort.Strings(ks)
		items := make([]string, len(ks))
		for i, k := range ks {
			items[i] = hlib.Pair(CoqStr(k), coqBytesOrNil(m[k]))
		}
		pl = hlib.Some(hlib.List(items))
	}
	return fmt.Sprintf("(PROk (Build_parsed %s %s %s %s) %s)", fr, tr, wa, pl, hlib.ZList(o.Rest))
}

// Parse runs newFramer(nil, proto), readFrame over exactly the body, parseFrame.
func Parse(proto int, hver, hflags, hop int, body []byte) (o Outcome) {
	defer func() {
		if r := recover(); r != nil {
			o.Class = "panic"
			o.Panic = Classify(r)
		}
	}()
	f := gocql.VerifC04NewFramer(nil, byte(proto))
	o.Framer = f
	h := gocql.VerifC04Header{Version: byte(hver), Flags: byte(hflags), Stream: 1, Op: byte(hop), Length: len(body)}
	if err := f.ReadFrame(bytes.NewReader(body), h); err != nil {
		o.Class, o.Err, o.ErrMsg = "err", ErrClass(err), err.Error()
		return
	}
	fr, err := f.ParseFrame()
	if err != nil {
		o.Class, o.Err, o.ErrMsg = "err", ErrClass(err), err.Error()
		return
	}
	o.Class, o.Frame = "ok", fr
	o.Rest = append([]byte{}, f.Rest()...)
	return
}

// ---- row scanning ------------------------------------------------------------------------------

// RawCell records what Unmarshal hands to a destination.
type RawCell struct {
	Set   bool
	Info  gocql.TypeInfo
	Data  []byte
	IsNil bool
}

func (c *RawCell) UnmarshalCQL(info gocql.TypeInfo, data []byte) error {
	c.Set, c.Info, c.IsNil = true, info, data == nil
	c.Data = append([]byte{}, data...)
	return nil
}

type ScanOut struct {
	Kind  string // "row" "false" "panic" "err" (Scanner.Scan returned an error)
	Cells []*RawCell
	Err   string // iter.err class after a false ("" = nil)
	Panic Panic
}

func (s ScanOut) Coq() string {
	switch s.Kind {
	case "row":
		// the destinations Scan wrote to, in order (without column metadata Scan writes to none)
		items := []string{}
		for _, c := range s.Cells {
			if !c.Set {
				continue
			}
			d := "None"
			if !c.IsNil {
				d = hlib.Some(hlib.ZList(c.Data))
			}
			items = append(items, fmt.Sprintf("(Build_cell %s %s)", CoqTInfo(c.Info), d))
		}
		return "(SRow " + hlib.List(items) + ")"
	case "false":
		if s.Err == "" {
			return "(SFalse None)"
		}
		return "(SFalse (Some " + s.Err + "))"
	}
	if s.Kind == "err" {
		return "(SErr " + s.Err + ")"
	}
	return "(SPanic " + s.Panic.Site + ")"
}

func scanOnce(it *gocql.Iter, ndest int) (out ScanOut) {
	defer func() {
		if r := recover(); r != nil {
			out = ScanOut{Kind: "panic", Panic: Classify(r)}
		}
	}()
	cells := make([]*RawCell, ndest)
	dest := make([]interface{}, ndest)
	for i := range dest {
		cells[i] = &RawCell{}
		dest[i] = cells[i]
	}
	if it.Scan(dest...) {
		return ScanOut{Kind: "row", Cells: cells}
	}
	out = ScanOut{Kind: "false"}
	if err := gocql.VerifC04IterErr(it); err != nil {
		out.Err = ErrClass(err)
	}
	return
}

// Scans calls Iter.Scan k times with ndest recording destinations (stops after a panic).
func Scans(it *gocql.Iter, ndest, k int) []ScanOut {
	var outs []ScanOut
	for i := 0; i < k; i++ {
		o := scanOnce(it, ndest)
		outs = append(outs, o)
		if o.Kind == "panic" {
			break
		}
	}
	return outs
}

func CoqScans(outs []ScanOut) string {
	items := make([]string, len(outs))
	for i, o := range outs {
		items[i] = o.Coq()
	}
	return hlib.List(items)
}

// RowDataOutcome runs Iter.RowData under recover and prints it as a res (list bytes) term.
func RowDataOutcome(it *gocql.Iter) (term string, pn *Panic) {
	defer func() {
		if r := recover(); r != nil {
			p := Classify(r)
			term, pn = "(Crash "+p.Site+")", &p
		}
	}()
	rd, err := it.RowData()
	if err != nil {
		if strings.Contains(err.Error(), "cannot create Go type") {
			return "(Err EGoType)", nil
		}
		return "(Err " + ErrClass(err) + ")", nil
	}
	return "(Ok " + CoqStrList(rd.Columns) + ")", nil
}

func scannerOnce(sc gocql.Scanner, it *gocql.Iter, ndest int) (out ScanOut) {
	defer func() {
		if r := recover(); r != nil {
			out = ScanOut{Kind: "panic", Panic: Classify(r)}
		}
	}()
	if !sc.Next() {
		out = ScanOut{Kind: "false"}
		if err := gocql.VerifC04IterErr(it); err != nil {
			out.Err = ErrClass(err)
		}
		return
	}
	cells := make([]*RawCell, ndest)
	dest := make([]interface{}, ndest)
	for i := range dest {
		cells[i] = &RawCell{}
		dest[i] = cells[i]
	}
	if err := sc.Scan(dest...); err != nil {
		return ScanOut{Kind: "err", Err: ErrClass(err)}
	}
	return ScanOut{Kind: "row", Cells: cells}
}

// ScannerSteps: Iter.Scanner(), then k times Next() and (when true) Scan with ndest recording destinations.
func ScannerSteps(it *gocql.Iter, ndest, k int) []ScanOut {
	sc := it.Scanner()
	var outs []ScanOut
	for i := 0; i < k; i++ {
		o := scannerOnce(sc, it, ndest)
		outs = append(outs, o)
		if o.Kind == "panic" {
			break
		}
	}
	return outs
}
