package c04lib

// c05.go: pieces used only by the C05 harness: gocql TypeInfo values built from logical types, value
// encoders for them (written from the protocol specification, section 6), running Unmarshal and the
// type-string parsers under recover, grammar-based type-string generators.

import (
	"fmt"
	"sort"
	"strings"

	"github.com/gocql/gocql"
	"gocqlverif/hlib"
)

// TypeInfoOf builds the TypeInfo the driver would build for t when reading it with protocol version proto.
func TypeInfoOf(proto int, t *SType) gocql.TypeInfo {
	nt := func(typ gocql.Type, custom string) gocql.NativeType { return gocql.NewNativeType(byte(proto), typ, custom) }
	switch t.Kind {
	case KCustom:
		typ := gocql.VerifC04GetApacheCassandraType(t.Class)
		return nt(typ, t.Class)
	case KNative:
		return nt(gocql.Type(t.ID), "")
	case KList:
		return gocql.CollectionType{NativeType: nt(gocql.TypeList, ""), Elem: TypeInfoOf(proto, t.Elems[0])}
	case KSet:
		return gocql.CollectionType{NativeType: nt(gocql.TypeSet, ""), Elem: TypeInfoOf(proto, t.Elems[0])}
	case KMap:
		return gocql.CollectionType{NativeType: nt(gocql.TypeMap, ""), Key: TypeInfoOf(proto, t.Elems[0]), Elem: TypeInfoOf(proto, t.Elems[1])}
	case KUDT:
		u := gocql.UDTTypeInfo{NativeType: nt(gocql.TypeUDT, ""), KeySpace: t.KS, Name: t.Name}
		for i, e := range t.Elems {
			u.Elements = append(u.Elements, gocql.UDTField{Name: t.FieldNames[i], Type: TypeInfoOf(proto, e)})
		}
		return u
	default:
		tt := gocql.TupleTypeInfo{NativeType: nt(gocql.TypeTuple, "")}
		for _, e := range t.Elems {
			tt.Elems = append(tt.Elems, TypeInfoOf(proto, e))
		}
		return tt
	}
}

// leaf types whose canonical decoder the model describes exactly (every native id except custom)
func (g *Gen) LeafType() *SType {
	return &SType{Kind: KNative, ID: 1 + g.R.Intn(21)}
}

// ValueType: a type tree for Unmarshal: native leaves, no custom types (their destination cannot be created)
func (g *Gen) ValueType(depth int) *SType {
	r := g.R
	k := r.Intn(9)
	if depth <= 0 && k >= 4 {
		k = r.Intn(4)
	}
	switch {
	case k <= 3:
		return g.LeafType()
	case k == 4:
		return &SType{Kind: KList, Elems: []*SType{g.ValueType(depth - 1)}}
	case k == 5:
		return &SType{Kind: KSet, Elems: []*SType{g.ValueType(depth - 1)}}
	case k == 6:
		return &SType{Kind: KMap, Elems: []*SType{g.ValueType(depth - 1), g.ValueType(depth - 1)}}
	case k == 7:
		n := r.Intn(4)
		t := &SType{Kind: KUDT, KS: "ks", Name: "u"}
		for i := 0; i < n; i++ {
			t.Elems = append(t.Elems, g.ValueType(depth-1))
			t.FieldNames = append(t.FieldNames, fmt.Sprintf("f%d", i))
		}
		return t
	default:
		n := r.Intn(4)
		t := &SType{Kind: KTuple}
		for i := 0; i < n; i++ {
			t.Elems = append(t.Elems, g.ValueType(depth-1))
		}
		return t
	}
}

var leafLen = map[int][]int{1: {0, 3, 7}, 2: {8}, 3: {0, 5}, 4: {1}, 5: {8}, 6: {4, 5, 9}, 7: {8}, 8: {4}, 9: {4}, 10: {0, 4}, 11: {8}, 12: {16},
	13: {0, 6}, 14: {1, 2, 9}, 15: {16}, 16: {4, 16}, 17: {4}, 18: {8}, 19: {2}, 20: {1}, 21: {3, 5}}

// Value encodes a random value of type t (section 6 of the protocol specification); nil = null.
func (g *Gen) Value(proto int, t *SType) []byte {
	r := g.R
	size := func(n int) []byte {
		if proto > 2 {
			return EncInt(n)
		}
		return EncShort(n)
	}
	elem := func(e *SType) []byte {
		v := g.Value(proto, e)
		if v == nil {
			if proto > 2 {
				return size(-1)
			}
			v = []byte{}
		}
		return append(size(len(v)), v...)
	}
	switch t.Kind {
	case KNative:
		if r.Chance(10) {
			return nil
		}
		ls := leafLen[t.ID]
		n := ls[r.Intn(len(ls))]
		if t.ID == 21 { // duration: three vints
			return []byte{byte(r.Intn(128)), byte(r.Intn(128)), byte(r.Intn(128))}
		}
		return r.Bytes(n)
	case KList, KSet:
		if r.Chance(8) {
			return nil
		}
		n := r.Intn(4)
		out := size(n)
		for i := 0; i < n; i++ {
			out = append(out, elem(t.Elems[0])...)
		}
		return out
	case KMap:
		if r.Chance(8) {
			return nil
		}
		n := r.Intn(3)
		out := size(n)
		for i := 0; i < n; i++ {
			out = append(out, elem(t.Elems[0])...)
			out = append(out, elem(t.Elems[1])...)
		}
		return out
	default: // tuple, udt: one [bytes] per component; may stop early
		if r.Chance(8) {
			return nil
		}
		n := len(t.Elems)
		if r.Chance(20) {
			n = r.Intn(n + 1)
		}
		out := []byte{}
		for i := 0; i < n; i++ {
			v := g.Value(proto, t.Elems[i])
			if v == nil {
				out = append(out, EncInt(-1)...)
			} else {
				out = append(out, EncInt(len(v))...)
				out = append(out, v...)
			}
		}
		return out
	}
}

// UnmarshalOutcome: v, err := ti.NewWithError(); Unmarshal(ti, data, v) under recover, as a res unit term.
func UnmarshalOutcome(ti gocql.TypeInfo, data []byte) (term string, pn *Panic) {
	defer func() {
		if r := recover(); r != nil {
			p := Classify(r)
			term, pn = "(Crash "+p.Site+")", &p
		}
	}()
	v, err := ti.NewWithError()
	if err != nil {
		return "(Err EGoType)", nil
	}
	if err := gocql.Unmarshal(ti, data, v); err != nil {
		return "(Err EUnmarshal)", nil
	}
	return "(Ok tt)", nil
}

// ---- type strings ------------------------------------------------------------------------------

func GetTypeOutcome(name string) (term string, pn *Panic) {
	defer func() {
		if r := recover(); r != nil {
			p := Classify(r)
			term, pn = "(Crash "+p.Site+")", &p
		}
	}()
	return "(Ok " + CoqTInfo(gocql.VerifC04GetCassandraType(name)) + ")", nil
}

func SplitOutcome(name string) (term string, pn *Panic) {
	defer func() {
		if r := recover(); r != nil {
			p := Classify(r)
			term, pn = "PANIC", &p
		}
	}()
	return CoqStrList(gocql.VerifC04SplitCompositeTypes(name)), nil
}

func ParseTypeOutcome(def string) (term string, pn *Panic) {
	defer func() {
		if r := recover(); r != nil {
			p := Classify(r)
			term, pn = "(Crash "+p.Site+")", &p
		}
	}()
	comp, types, rev, colls := gocql.VerifC04ParseType(def)
	ts := make([]string, len(types))
	for i, t := range types {
		ts[i] = CoqTInfo(t)
	}
	rs := make([]string, len(rev))
	for i, b := range rev {
		rs[i] = hlib.Bool(b)
	}
	ks := make([]string, 0, len(colls))
	for k := range colls {
		ks = append(ks, k)
	}
	sort.Strings(ks)
	cs := make([]string, len(ks))
	for i, k := range ks {
		cs[i] = hlib.Pair(CoqStr(k), CoqTInfo(colls[k]))
	}
	return fmt.Sprintf("(Ok (Build_type_result %s %s %s %s))", hlib.Bool(comp), hlib.List(ts), hlib.List(rs), hlib.List(cs)), nil
}

var cqlBase = []string{"ascii", "bigint", "blob", "boolean", "counter", "date", "decimal", "double", "duration", "float", "int", "smallint",
	"tinyint", "time", "timestamp", "uuid", "varchar", "text", "varint", "timeuuid", "inet", "MapType", "ListType", "SetType", "TupleType",
	"mytype", "", "frozen", "map", "Int"}

// CQLTypeString: the textual types of system_schema (v3+ schema tables)
func (g *Gen) CQLTypeString(depth int) string {
	r := g.R
	if depth <= 0 || r.Chance(40) {
		return cqlBase[r.Intn(len(cqlBase))]
	}
	sep := ", "
	if r.Chance(25) {
		sep = []string{",", " ,", ",  ", " , "}[r.Intn(4)]
	}
	switch r.Intn(5) {
	case 0:
		return "frozen<" + g.CQLTypeString(depth-1) + ">"
	case 1:
		return "set<" + g.CQLTypeString(depth-1) + ">"
	case 2:
		return "list<" + g.CQLTypeString(depth-1) + ">"
	case 3:
		n := 2
		if r.Chance(15) {
			n = r.Intn(4)
		}
		parts := make([]string, n)
		for i := range parts {
			parts[i] = g.CQLTypeString(depth - 1)
		}
		return "map<" + strings.Join(parts, sep) + ">"
	default:
		n := r.Intn(4)
		parts := make([]string, n)
		for i := range parts {
			parts[i] = g.CQLTypeString(depth - 1)
		}
		return "tuple<" + strings.Join(parts, sep) + ">"
	}
}

var marshalLeaf = []string{"Int32Type", "UTF8Type", "LongType", "BytesType", "UUIDType", "TimeUUIDType", "BooleanType", "DateType", "TimestampType",
	"DecimalType", "InetAddressType", "CounterColumnType", "FooType", "EmptyType", "DurationType", "ShortType"}

// MarshalTypeString: the class-name type definitions of the v1/v2 schema tables (validator / comparator)
func (g *Gen) MarshalTypeString(depth int, top bool) string {
	r := g.R
	p := MarshalPrefix
	if r.Chance(10) {
		p = ""
	}
	ws := func() string {
		if r.Chance(15) {
			return []string{" ", "\t", "\n", "  "}[r.Intn(4)]
		}
		return ""
	}
	if depth <= 0 || r.Chance(35) {
		return p + marshalLeaf[r.Intn(len(marshalLeaf))]
	}
	list := func(n int) string {
		parts := make([]string, n)
		for i := range parts {
			parts[i] = ws() + g.MarshalTypeString(depth-1, false) + ws()
		}
		return "(" + strings.Join(parts, ",") + ")"
	}
	switch r.Intn(7) {
	case 0:
		return p + "ListType" + list(int(r.Pick(1, 1, 1, 0, 2)))
	case 1:
		return p + "SetType" + list(int(r.Pick(1, 1, 1, 0, 2)))
	case 2:
		return p + "MapType" + list(int(r.Pick(2, 2, 2, 0, 1, 3)))
	case 3:
		return p + "ReversedType" + list(int(r.Pick(1, 1, 1, 0, 2)))
	case 4, 5:
		if !top {
			return p + "TupleType" + list(r.Intn(3))
		}
		n := int(r.Pick(1, 2, 3, 0))
		parts := make([]string, n)
		for i := range parts {
			parts[i] = g.MarshalTypeString(depth-1, false)
		}
		if r.Chance(40) { // a ColumnToCollectionType parameter with hex-named collections
			m := r.Intn(3)
			cs := make([]string, m)
			for i := range cs {
				name := fmt.Sprintf("%x", g.NameNonEmpty())
				if r.Chance(15) {
					name = "zz"
				}
				cs[i] = name + ":" + g.MarshalTypeString(depth-1, false)
				if r.Chance(10) {
					cs[i] = g.MarshalTypeString(depth-1, false) // unnamed
				}
			}
			parts = append(parts, p+"ColumnToCollectionType("+strings.Join(cs, ",")+")")
		}
		return p + "CompositeType(" + strings.Join(parts, ",") + ")"
	default:
		return p + "UserType" + list(r.Intn(3))
	}
}

// IsASCII reports whether every byte of s is below 128 (the domain on which the model of the CQL type
// string functions is exact).
func IsASCII(s string) bool {
	for i := 0; i < len(s); i++ {
		if s[i] >= 128 {
			return false
		}
	}
	return true
}
