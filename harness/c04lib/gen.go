package c04lib

// gen.go: seeded generators of logical responses (mostly the shapes a Cassandra node produces, with
// boundary values mixed in), and Expect: what a driver has to report for a logical response, printed
// in the same canonical form as Outcome.Pres -- the Go-side oracle of property C04.

import (
	"bytes"
	"fmt"
	"sort"
	"strings"

	"gocqlverif/hlib"
)

type Gen struct {
	R *hlib.Rng
	// BigFrames counts the 1000+-column frames generated so far: at most two per run (each is several
	// hundred kilobytes of Coq term)
	BigFrames int
}

var nameAlphabet = "abcdefghijklmnopqrstuvwxyz_0123456789ABCXYZ"

func (g *Gen) Name() string {
	r := g.R
	switch r.Intn(12) {
	case 0:
		return ""
	case 1:
		return string(r.Bytes(1 + r.Intn(6))) // arbitrary bytes, not UTF-8
	case 2:
		return strings.Repeat("x", 250+r.Intn(20))
	case 3:
		return "ключ-é-日本"
	}
	n := 1 + r.Intn(10)
	b := make([]byte, n)
	for i := range b {
		b[i] = nameAlphabet[r.Intn(len(nameAlphabet))]
	}
	return string(b)
}

func (g *Gen) NameNonEmpty() string {
	for {
		if s := g.Name(); s != "" {
			return s
		}
	}
}

func (g *Gen) Names(max int) []string {
	n := g.R.Intn(max + 1)
	l := make([]string, n)
	for i := range l {
		l[i] = g.Name()
	}
	return l
}

func (g *Gen) Int32() int {
	r := g.R
	switch r.Intn(6) {
	case 0:
		return int(r.Pick(0, 1, -1, 2147483647, -2147483648, 255, 256, 65535, 65536, 1000, 999))
	case 1:
		return int(int32(r.U64()))
	}
	return r.Intn(20)
}

func (g *Gen) Consistency() int {
	r := g.R
	if r.Chance(15) {
		return int(r.Pick(0xFFFF, 0x8000, 0x0B, 0x100))
	}
	return int(r.Pick(0, 1, 2, 3, 4, 5, 6, 7, 8, 9, 10))
}

func (g *Gen) BytesVal(max int) []byte {
	r := g.R
	if r.Chance(10) {
		return []byte{}
	}
	return r.Bytes(1 + r.Intn(max))
}

func (g *Gen) Opt(max int) OptBytes {
	if g.R.Chance(20) {
		return OptBytes{Null: true}
	}
	return OptBytes{Val: g.BytesVal(max)}
}

var marshalClasses = []string{"AsciiType", "LongType", "BytesType", "BooleanType", "CounterColumnType", "DecimalType", "DoubleType",
	"FloatType", "Int32Type", "ShortType", "ByteType", "TimeType", "DateType", "TimestampType", "UUIDType", "LexicalUUIDType", "UTF8Type",
	"IntegerType", "TimeUUIDType", "InetAddressType", "DurationType", "SimpleDateType", "EmptyType", "FrozenType", "ReversedType",
	"ListType(org.apache.cassandra.db.marshal.Int32Type)", "CompositeType", "DynamicCompositeType", "UserType", "int32type", "ListTyp", "ListTypes"}

const MarshalPrefix = "org.apache.cassandra.db.marshal."

func (g *Gen) CustomClass() string {
	r := g.R
	switch r.Intn(6) {
	case 0:
		return "com.example." + g.NameNonEmpty()
	case 1:
		return marshalClasses[r.Intn(len(marshalClasses))] // bare name
	case 2:
		return MarshalPrefix
	case 3:
		return MarshalPrefix + MarshalPrefix + "Int32Type"
	}
	return MarshalPrefix + marshalClasses[r.Intn(len(marshalClasses))]
}

// Type generates a type tree of at most the given depth; tuples have at least one component.
func (g *Gen) Type(depth int) *SType {
	r := g.R
	k := r.Intn(10)
	if depth <= 0 && k >= 4 {
		k = r.Intn(4)
	}
	switch {
	case k <= 2:
		return &SType{Kind: KNative, ID: 1 + r.Intn(21)}
	case k == 3:
		return &SType{Kind: KCustom, Class: g.CustomClass()}
	case k == 4:
		return &SType{Kind: KList, Elems: []*SType{g.Type(depth - 1)}}
	case k == 5:
		return &SType{Kind: KSet, Elems: []*SType{g.Type(depth - 1)}}
	case k == 6:
		return &SType{Kind: KMap, Elems: []*SType{g.Type(depth - 1), g.Type(depth - 1)}}
	case k == 7:
		n := r.Intn(4)
		t := &SType{Kind: KUDT, KS: g.Name(), Name: g.Name()}
		for i := 0; i < n; i++ {
			t.Elems = append(t.Elems, g.Type(depth-1))
			t.FieldNames = append(t.FieldNames, g.Name())
		}
		return t
	default:
		n := 1 + r.Intn(4)
		t := &SType{Kind: KTuple}
		for i := 0; i < n; i++ {
			t.Elems = append(t.Elems, g.Type(depth-1))
		}
		return t
	}
}

// Meta generates result metadata with ncols columns.
func (g *Gen) Meta(ncols, depth int, allowNoMeta bool) SMeta {
	r := g.R
	m := SMeta{Count: ncols}
	if r.Chance(50) {
		m.Global, m.GKS, m.GTab = true, g.Name(), g.Name()
	}
	if r.Chance(35) {
		m.HasPaging, m.Paging = true, g.BytesVal(24)
	}
	if allowNoMeta && r.Chance(15) {
		m.NoMeta = true
		return m
	}
	for i := 0; i < ncols; i++ {
		c := SCol{Name: g.Name(), Type: g.Type(depth)}
		if !m.Global {
			c.KS, c.Table = g.Name(), g.Name()
		}
		m.Cols = append(m.Cols, c)
	}
	return m
}

func (g *Gen) Cell(t *SType) SCell {
	r := g.R
	if t.Kind != KTuple {
		return SCell{Val: g.Opt(12)}
	}
	c := SCell{IsTuple: true}
	if r.Chance(15) {
		c.Null = true
		return c
	}
	n := len(t.Elems)
	if r.Chance(20) {
		n = r.Intn(n + 1) // a tuple value may stop early
	}
	for i := 0; i < n; i++ {
		c.Comps = append(c.Comps, g.Opt(8))
	}
	return c
}

func (g *Gen) Rows(m *SMeta, nrows int) [][]SCell {
	rows := make([][]SCell, nrows)
	for i := range rows {
		if m.NoMeta {
			for j := 0; j < m.Count; j++ {
				rows[i] = append(rows[i], SCell{Val: g.Opt(8)})
			}
			continue
		}
		for _, c := range m.Cols {
			rows[i] = append(rows[i], g.Cell(c.Type))
		}
	}
	return rows
}

func (g *Gen) Addr() []byte {
	r := g.R
	switch r.Intn(5) {
	case 0:
		return r.Bytes(16)
	case 1:
		return append([]byte{0, 0, 0, 0, 0, 0, 0, 0, 0, 0, 0xff, 0xff}, r.Bytes(4)...) // v4-mapped
	case 2:
		return make([]byte, 16)
	}
	return r.Bytes(4)
}

func addrKey(a []byte) string {
	if len(a) == 16 && bytes.Equal(a[:12], []byte{0, 0, 0, 0, 0, 0, 0, 0, 0, 0, 0xff, 0xff}) {
		return string(a[12:])
	}
	return string(a)
}

func (g *Gen) Fail(v int) SFail {
	if v <= 4 {
		return SFail{N: g.Int32()}
	}
	f := SFail{IsMap: true}
	seen := map[string]bool{}
	n := g.R.Intn(5)
	for i := 0; i < n; i++ {
		a := g.Addr()
		if seen[addrKey(a)] {
			continue
		}
		seen[addrKey(a)] = true
		f.Map = append(f.Map, AddrCode{Addr: a, Code: g.R.Intn(65536)})
	}
	return f
}

func (g *Gen) SchemaChange(v int) SChange {
	r := g.R
	c := SChange{Change: []string{"CREATED", "UPDATED", "DROPPED", g.Name()}[r.Intn(4)], KS: g.Name()}
	if v <= 2 {
		c.Kind = r.Intn(2)
		if c.Kind == ScTable {
			c.Name = g.NameNonEmpty()
		}
		return c
	}
	c.Kind = r.Intn(5)
	if c.Kind != ScKeyspace {
		c.Name = g.Name()
	}
	if c.Kind == ScFunction || c.Kind == ScAggregate {
		c.Args = g.Names(3)
	}
	return c
}

// ResponseOfKind: kind 0..24 selects the response family (errors 0..10, then the rest).
const NKinds = 25

func (g *Gen) ResponseOfKind(v, kind int) *Response {
	r := g.R
	switch {
	case kind <= 10:
		x := SErr{Kind: kind, CL: g.Consistency(), A: g.Int32(), B: g.Int32()}
		resp := &Response{Op: OpError, Msg: g.Name()}
		switch kind {
		case XPlain:
			resp.Code = PlainCodes[r.Intn(len(PlainCodes))]
		default:
			resp.Code = XCodes[kind]
		}
		switch kind {
		case XWriteTimeout:
			x.S1 = []string{"SIMPLE", "BATCH", "UNLOGGED_BATCH", "COUNTER", "BATCH_LOG", "CAS", g.Name()}[r.Intn(7)]
		case XReadTimeout:
			x.DP = int(r.Pick(0, 1, 2, 255))
		case XReadFailure:
			x.Fail, x.DP = g.Fail(v), int(r.Pick(0, 1, 2, 255))
		case XWriteFailure:
			x.Fail, x.S1 = g.Fail(v), g.Name()
		case XFunctionFailure:
			x.S1, x.S2, x.List = g.Name(), g.Name(), g.Names(4)
		case XAlreadyExists:
			x.S1, x.S2 = g.Name(), g.Name()
		case XUnprepared:
			x.ID = g.BytesVal(20)
		}
		resp.Err = x
		return resp
	case kind == 11:
		return &Response{Op: OpReady}
	case kind == 12:
		return &Response{Op: OpAuthenticate, Class: "org.apache.cassandra.auth." + g.Name()}
	case kind == 13:
		n := r.Intn(5)
		resp := &Response{Op: OpSupported}
		for i := 0; i < n; i++ {
			k := []string{"CQL_VERSION", "COMPRESSION", "PROTOCOL_VERSIONS", g.Name()}[r.Intn(4)]
			resp.Supported = append(resp.Supported, MultiKV{K: k, V: g.Names(3)})
		}
		return resp
	case kind == 14:
		return &Response{Op: OpAuthChallenge, Token: g.Opt(30)}
	case kind == 15:
		return &Response{Op: OpAuthSuccess, Token: g.Opt(30)}
	case kind == 16:
		return &Response{Op: OpResult, Result: SResult{Kind: RVoid}}
	case kind == 17:
		return &Response{Op: OpResult, Result: SResult{Kind: RSetKeyspace, KS: g.Name()}}
	case kind == 18 || kind == 19:
		ncols := r.Intn(5)
		if r.Chance(3) && g.BigFrames < 2 {
			ncols = 1000 + r.Intn(3) // the append path of the metadata readers
			g.BigFrames++
		}
		if ncols >= 1000 {
			// short names and native types: the point is the column count, and the Coq term stays small
			m := SMeta{Count: ncols, Global: true, GKS: "k", GTab: "t"}
			for i := 0; i < ncols; i++ {
				m.Cols = append(m.Cols, SCol{Name: fmt.Sprintf("c%d", i), Type: &SType{Kind: KNative, ID: 1 + r.Intn(21)}})
			}
			var rows [][]SCell
			if r.Bool() {
				row := make([]SCell, ncols)
				for i := range row {
					row[i] = SCell{Val: OptBytes{Val: []byte{byte(i)}}}
				}
				rows = append(rows, row)
			}
			return &Response{Op: OpResult, Result: SResult{Kind: RRows, Meta: m, Rows: rows}}
		}
		m := g.Meta(ncols, 3, true)
		nrows := r.Intn(4)
		return &Response{Op: OpResult, Result: SResult{Kind: RRows, Meta: m, Rows: g.Rows(&m, nrows)}}
	case kind == 20 || kind == 21:
		req := g.Meta(r.Intn(4), 2, false)
		res := SResult{Kind: RPrepared, ID: g.BytesVal(16), Meta: req, RespMeta: g.Meta(r.Intn(4), 3, true)}
		if v >= 4 {
			n := r.Intn(4)
			for i := 0; i < n; i++ {
				res.PK = append(res.PK, int(r.Pick(0, 1, 2, 65535, 32768, 3)))
			}
		}
		return &Response{Op: OpResult, Result: res}
	case kind == 22:
		return &Response{Op: OpResult, Result: SResult{Kind: RSchemaChange, Change: g.SchemaChange(v)}}
	case kind == 23:
		e := SEvent{Kind: r.Intn(2), Addr: g.Addr(), Port: g.Int32()}
		e.Change = []string{"UP", "DOWN", "NEW_NODE", "REMOVED_NODE", "MOVED_NODE", g.Name()}[r.Intn(6)]
		return &Response{Op: OpEvent, Event: e}
	default:
		return &Response{Op: OpEvent, Event: SEvent{Kind: EvSchema, Schema: g.SchemaChange(v)}}
	}
}

func (g *Gen) Envelope(v int) *Envelope {
	r := g.R
	e := &Envelope{}
	if r.Chance(25) {
		e.HasTrace, e.Trace = true, r.Bytes(16)
	}
	if v >= 4 && r.Chance(20) {
		e.HasWarnings, e.Warnings = true, g.Names(3)
	}
	if v >= 4 && r.Chance(20) {
		e.HasPayload = true
		n := r.Intn(4)
		for i := 0; i < n; i++ {
			e.Payload = append(e.Payload, BytesKV{K: g.Name(), V: g.Opt(10)})
		}
	}
	return e
}

// ---- Expect: the Go-side view ------------------------------------------------------------------

func lookupMarshal(class string) int {
	table := map[string]int{"AsciiType": 1, "LongType": 2, "BytesType": 3, "BooleanType": 4, "CounterColumnType": 5, "DecimalType": 6,
		"DoubleType": 7, "FloatType": 8, "Int32Type": 9, "TimestampType": 11, "DateType": 11, "UUIDType": 12, "LexicalUUIDType": 12,
		"UTF8Type": 13, "IntegerType": 14, "TimeUUIDType": 15, "InetAddressType": 16, "TimeType": 18, "ShortType": 19, "ByteType": 20,
		"DurationType": 21}
	return table[strings.TrimPrefix(class, MarshalPrefix)]
}

func viewType(t *SType) string {
	switch t.Kind {
	case KCustom:
		return fmt.Sprintf("(TNative %d %s)", lookupMarshal(t.Class), CoqStr(t.Class))
	case KNative:
		return fmt.Sprintf("(TNative %d [])", t.ID)
	case KList:
		return fmt.Sprintf("(TColl 32 [] None %s)", viewType(t.Elems[0]))
	case KSet:
		return fmt.Sprintf("(TColl 34 [] None %s)", viewType(t.Elems[0]))
	case KMap:
		return fmt.Sprintf("(TColl 33 [] %s %s)", hlib.Some(viewType(t.Elems[0])), viewType(t.Elems[1]))
	case KUDT:
		items := make([]string, len(t.Elems))
		for i, e := range t.Elems {
			items[i] = hlib.Pair(CoqStr(t.FieldNames[i]), viewType(e))
		}
		return fmt.Sprintf("(TUDT [] %s %s %s)", CoqStr(t.KS), CoqStr(t.Name), hlib.List(items))
	default:
		items := make([]string, len(t.Elems))
		for i, e := range t.Elems {
			items[i] = viewType(e)
		}
		return fmt.Sprintf("(TTuple [] %s)", hlib.List(items))
	}
}

// ScanWidth: the number of destinations a row of these columns scans into.
func (m *SMeta) ScanWidth() int {
	if m.NoMeta {
		return m.Count
	}
	w := 0
	for _, c := range m.Cols {
		if c.Type.Kind == KTuple {
			w += len(c.Type.Elems)
		} else {
			w++
		}
	}
	return w
}

func viewMeta(m *SMeta) string {
	var cols []string
	if !m.NoMeta {
		for _, c := range m.Cols {
			ks, tb := c.KS, c.Table
			if m.Global {
				ks, tb = m.GKS, m.GTab
			}
			cols = append(cols, fmt.Sprintf("(Build_col %s %s %s %s)", CoqStr(ks), CoqStr(tb), CoqStr(c.Name), viewType(c.Type)))
		}
	}
	var paging []byte
	if m.HasPaging {
		paging = m.Paging
	}
	return fmt.Sprintf("(Build_rmeta %s %s %s %s %s)", hlib.Z(int64(m.Flags())), hlib.ZList(paging), hlib.List(cols),
		hlib.Z(int64(m.Count)), hlib.Z(int64(m.ScanWidth())))
}

func viewFailMap(f SFail) string {
	type kv struct {
		k []byte
		v int
	}
	var l []kv
	for _, ac := range f.Map {
		l = append(l, kv{[]byte(addrKey(ac.Addr)), ac.Code})
	}
	sort.Slice(l, func(i, j int) bool { return bytes.Compare(l[i].k, l[j].k) < 0 })
	items := make([]string, len(l))
	for i, e := range l {
		items[i] = hlib.Pair(hlib.ZList(e.k), hlib.Z(int64(e.v)))
	}
	return hlib.List(items)
}

func viewSchange(c SChange) string {
	switch c.Kind {
	case ScKeyspace:
		return fmt.Sprintf("(FSchemaKeyspace %s %s)", CoqStr(c.Change), CoqStr(c.KS))
	case ScTable:
		return fmt.Sprintf("(FSchemaTable %s %s %s)", CoqStr(c.Change), CoqStr(c.KS), CoqStr(c.Name))
	case ScType:
		return fmt.Sprintf("(FSchemaType %s %s %s)", CoqStr(c.Change), CoqStr(c.KS), CoqStr(c.Name))
	case ScFunction:
		return fmt.Sprintf("(FSchemaFunction %s %s %s %s)", CoqStr(c.Change), CoqStr(c.KS), CoqStr(c.Name), CoqStrList(c.Args))
	default:
		return fmt.Sprintf("(FSchemaAggregate %s %s %s %s)", CoqStr(c.Change), CoqStr(c.KS), CoqStr(c.Name), CoqStrList(c.Args))
	}
}

func viewFrame(v int, r *Response) string {
	z := func(x int) string { return hlib.Z(int64(x)) }
	switch r.Op {
	case OpReady:
		return "FReady"
	case OpAuthenticate:
		return "(FAuthenticate " + CoqStr(r.Class) + ")"
	case OpAuthChallenge:
		return "(FAuthChallenge " + CoqOptBytes(r.Token) + ")"
	case OpAuthSuccess:
		return "(FAuthSuccess " + CoqOptBytes(r.Token) + ")"
	case OpSupported:
		m := map[string][]string{}
		for _, kv := range r.Supported {
			m[kv.K] = kv.V
		}
		var items []string
		for _, k := range sortedKeys(m) {
			items = append(items, hlib.Pair(CoqStr(k), CoqStrList(m[k])))
		}
		return "(FSupported " + hlib.List(items) + ")"
	case OpEvent:
		e := r.Event
		switch e.Kind {
		case EvTopology:
			return fmt.Sprintf("(FTopology %s %s %s)", CoqStr(e.Change), hlib.ZList(e.Addr), z(e.Port))
		case EvStatus:
			return fmt.Sprintf("(FStatus %s %s %s)", CoqStr(e.Change), hlib.ZList(e.Addr), z(e.Port))
		}
		return viewSchange(e.Schema)
	case OpResult:
		res := r.Result
		switch res.Kind {
		case RVoid:
			return "FVoid"
		case RSetKeyspace:
			return "(FKeyspace " + CoqStr(res.KS) + ")"
		case RSchemaChange:
			return viewSchange(res.Change)
		case RRows:
			return fmt.Sprintf("(FRows %s %s)", viewMeta(&res.Meta), z(len(res.Rows)))
		case RPrepared:
			var pk []int64
			if v >= 4 {
				for _, x := range res.PK {
					pk = append(pk, int64(x))
				}
			}
			ks, tb := "", ""
			if res.Meta.Global && !res.Meta.NoMeta {
				ks, tb = res.Meta.GKS, res.Meta.GTab
			}
			resp := "None"
			if v >= 2 {
				resp = hlib.Some(viewMeta(&res.RespMeta))
			}
			return fmt.Sprintf("(FPrepared %s (Build_pmeta %s %s %s %s) %s)", hlib.ZList(res.ID), viewMeta(&res.Meta), hlib.ZListI(pk),
				CoqStr(ks), CoqStr(tb), resp)
		}
	case OpError:
		x := r.Err
		d := "DPlain"
		switch x.Kind {
		case XUnavailable:
			d = fmt.Sprintf("(DUnavailable %s %s %s)", z(x.CL), z(x.A), z(x.B))
		case XWriteTimeout:
			d = fmt.Sprintf("(DWriteTimeout %s %s %s %s)", z(x.CL), z(x.A), z(x.B), CoqStr(x.S1))
		case XReadTimeout:
			d = fmt.Sprintf("(DReadTimeout %s %s %s %s)", z(x.CL), z(x.A), z(x.B), z(x.DP))
		case XAlreadyExists:
			d = fmt.Sprintf("(DAlreadyExists %s %s)", CoqStr(x.S1), CoqStr(x.S2))
		case XUnprepared:
			d = fmt.Sprintf("(DUnprepared %s)", hlib.ZList(x.ID))
		case XReadFailure:
			n := x.Fail.N
			if x.Fail.IsMap {
				n = len(x.Fail.Map)
			}
			d = fmt.Sprintf("(DReadFailure %s %s %s %s %s %s)", z(x.CL), z(x.A), z(x.B), z(n), hlib.Bool(x.DP != 0), viewFailMap(x.Fail))
		case XWriteFailure:
			n := x.Fail.N
			if x.Fail.IsMap {
				n = len(x.Fail.Map)
			}
			d = fmt.Sprintf("(DWriteFailure %s %s %s %s %s %s)", z(x.CL), z(x.A), z(x.B), z(n), CoqStr(x.S1), viewFailMap(x.Fail))
		case XFunctionFailure:
			d = fmt.Sprintf("(DFunctionFailure %s %s %s)", CoqStr(x.S1), CoqStr(x.S2), CoqStrList(x.List))
		case XCDCWriteFailure:
			d = "DCDCWriteFailure"
		case XCASWriteUnknown:
			d = fmt.Sprintf("(DCASWriteUnknown %s %s %s)", z(x.CL), z(x.A), z(x.B))
		}
		return fmt.Sprintf("(FError %s %s %s)", z(r.Code), CoqStr(r.Msg), d)
	}
	return "?"
}

// Expect: the pres term a correct driver yields for (v, e, r): view, envelope, unconsumed rows.
func Expect(v int, e *Envelope, r *Response) string {
	tr, wa, pl := "None", "None", "None"
	if e.HasTrace {
		tr = hlib.Some(hlib.ZList(e.Trace))
	}
	if e.HasWarnings {
		wa = hlib.Some(CoqStrList(e.Warnings))
	}
	if e.HasPayload {
		m := map[string]OptBytes{}
		var ks []string
		for _, kv := range e.Payload {
			if _, ok := m[kv.K]; !ok {
				ks = append(ks, kv.K)
			}
			m[kv.K] = kv.V
		}
		sort.Strings(ks)
		items := make([]string, len(ks))
		for i, k := range ks {
			items[i] = hlib.Pair(CoqStr(k), CoqOptBytes(m[k]))
		}
		pl = hlib.Some(hlib.List(items))
	}
	var rest []byte
	if r.Op == OpResult && r.Result.Kind == RRows {
		rest = EncRows(r.Result.Rows)
	}
	return fmt.Sprintf("(PROk (Build_parsed %s %s %s %s) %s)", viewFrame(v, r), tr, wa, pl, hlib.ZList(rest))
}

// ExpectRow: the cells Scan has to deliver for one row.
func ExpectRow(m *SMeta, row []SCell) string {
	var items []string
	for i, c := range m.Cols {
		cell := row[i]
		if c.Type.Kind != KTuple {
			items = append(items, fmt.Sprintf("(Build_cell %s %s)", viewType(c.Type), CoqOptBytes(cell.Val)))
			continue
		}
		for j, e := range c.Type.Elems {
			d := "None"
			if !cell.Null && j < len(cell.Comps) {
				d = CoqOptBytes(cell.Comps[j])
			}
			items = append(items, fmt.Sprintf("(Build_cell %s %s)", viewType(e), d))
		}
	}
	return "(SRow " + hlib.List(items) + ")"
}
