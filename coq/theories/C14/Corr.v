(* C14/Corr.v -- correspondence cases.  Each constructor carries an input and what the real
   implementation did with it; [check] runs the model on the input and compares.

   CLru   an operation sequence on a real lru.Cache (via the verif shim): per operation the returned
          value / ok, Len() afterwards and the OnEvicted calls; at the end the list front-to-back.
   CKey   preparedLRU.keyFor.
   CScen  one history of a real Session talking to scripted nodes.  The harness steps the executors
          one critical section at a time (it is told when an executor leaves execIfMissing, decides
          when every PREPARE / EXECUTE / BATCH is answered and with what) and writes down the
          linearisation as model labels, interleaved with snapshots of the real session.stmtsLRU
          (keys front to back, which inflightPrepare object, done / result) taken through the shim,
          plus everything it observed from outside: PREPARE / EXECUTE / BATCH frames at the nodes
          (with the prepared ids they carry), OnEvicted calls of the real cache, and what every caller got back.
          The model must accept the labels, agree with every snapshot, and produce exactly the observed events. *)
From GocqlV Require Import Lib.Base.
From GocqlV Require Export C14.Model.

(* snapshot entry: key, flight, 0 = in flight | 1 = done with an id | 2 = done with an error, the id *)
Definition snap_entry := (key * nat * Z * list Z)%type.

Inductive sitem :=
| SLab (l : label)
| SSnap (sn : list snap_entry).

(* externally observed events, in the harness's linearisation *)
Inductive oevent :=
| OPrepare (f : nat) (host ks stmt : key)                      (* PREPARE frame seen by node [host] on a connection using keyspace ks *)
| OGone (k : key) (f : nat)                                    (* OnEvicted(k, flight f) *)
| OSend (e : nat) (batch : bool) (host : key) (items : list ((key + list Z) * Z))   (* per statement: text (unprepared) or prepared id, and the number of values on the wire *)
| OResult (e : nat) (r : result)
| OPanic.

Inductive case :=
| CLru (max : Z) (ops : list lru_op) (outs : list lru_out) (final : list (key * Z))
| CKey (h ks st out : key)
| CScen (max : Z) (items : list sitem) (obs : list oevent).

Definition kv_eqb (a b : key * Z) : bool := key_eqb (fst a) (fst b) && (snd a =? snd b).

Fixpoint list_eqb {A} (eqb : A -> A -> bool) (a b : list A) : bool :=
  match a, b with
  | [], [] => true
  | x :: a', y :: b' => eqb x y && list_eqb eqb a' b'
  | _, _ => false
  end.

Definition out_eqb (a b : lru_out) : bool :=
  opt_eqb Z.eqb (o_val a) (o_val b) && Bool.eqb (o_ok a) (o_ok b) && (o_len a =? o_len b)
  && list_eqb kv_eqb (o_evicted a) (o_evicted b).

Definition result_eqb (a b : result) : bool :=
  match a, b with
  | ROk, ROk => true
  | RErr x, RErr y => x =? y
  | RCount i w h, RCount i' w' h' => (i =? i')%nat && (w =? w') && (h =? h')
  | RCancelled, RCancelled => true
  | _, _ => false
  end.

Definition oitem_eqb (a b : (key + list Z) * Z) : bool :=
  match fst a, fst b with
  | inl x, inl y => key_eqb x y && (snd a =? snd b)
  | inr x, inr y => zlist_eqb x y && (snd a =? snd b)
  | _, _ => false
  end.

Definition oevent_eqb (a b : oevent) : bool :=
  match a, b with
  | OPrepare f h ks st, OPrepare f' h' ks' st' => (f =? f')%nat && key_eqb h h' && key_eqb ks ks' && key_eqb st st'
  | OGone k f, OGone k' f' => key_eqb k k' && (f =? f')%nat
  | OSend e b h it, OSend e' b' h' it' => (e =? e')%nat && Bool.eqb b b' && key_eqb h h' && list_eqb oitem_eqb it it'
  | OResult e r, OResult e' r' => (e =? e')%nat && result_eqb r r'
  | OPanic, OPanic => true
  | _, _ => false
  end.

(* what of a model event is visible from outside *)
Definition obs_of (ev : event) : list oevent :=
  match ev with
  | EvCreate _ _ => []
  | EvHit _ _ => []
  | EvGone k f _ => [OGone k f]
  | EvPrepare f t => [OPrepare f (t_host t) (t_ks t) (t_stmt t)]
  | EvPrepared _ _ _ _ => []
  | EvFailed _ _ => []
  | EvSend e b h ks items =>
      [OSend e b h (map (fun it => (match snd (fst it) with Some (id, _) => inr id | None => inl (fst (fst it)) end, snd it)) items)]
  | EvResult e r => [OResult e r]
  | EvPanic => [OPanic]
  end.

Definition snap_of (s : state) : list snap_entry :=
  map (fun kf =>
         match nth_error (s_flights s) (snd kf) with
         | Some fl =>
             if fl_done fl then
               match fl_status fl with
               | FOk id _ _ => (fst kf, snd kf, 1, id)
               | _ => (fst kf, snd kf, 2, [])
               end
             else (fst kf, snd kf, 0, [])
         | None => (fst kf, snd kf, 3, [])
         end) (s_cache s).

Definition snap_entry_eqb (a b : snap_entry) : bool :=
  match a, b with
  | (k, f, st, id), (k', f', st', id') => key_eqb k k' && (f =? f')%nat && (st =? st') && zlist_eqb id id'
  end.

Fixpoint run_items (s : state) (items : list sitem) : option state :=
  match items with
  | [] => Some s
  | SLab l :: r => match step s l with Some s' => run_items s' r | None => None end
  | SSnap sn :: r => if list_eqb snap_entry_eqb (snap_of s) sn then run_items s r else None
  end.

Definition check (c : case) : bool :=
  match c with
  | CLru max ops outs final =>
      let '(l, os) := lru_run max [] ops in
      list_eqb out_eqb os outs && list_eqb kv_eqb l final
  | CKey h ks st out => key_eqb (key_for (mkTriple h ks st)) out
  | CScen max items obs =>
      match run_items (init max) items with
      | Some s => list_eqb oevent_eqb (flat_map obs_of (rev (s_log s))) obs
      | None => false
      end
  end.

Definition run (cs : list case) : list N := mismatches check cs.
