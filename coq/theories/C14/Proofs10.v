(* C14/Proofs10.v -- progress under fair scheduling.  For a query executor e whose environment is not
   hostile (nobody cancels it, the server neither fails the PREPAREs of its statement nor answers its
   EXECUTE with an error / UNPREPARED, and the PREPARE answers for its statement carry its number of
   values), a natural-number rank never goes up whatever the other goroutines and the server do, and goes
   down with every step that belongs to e or to the PREPARE it waits for; such a step is always enabled.
   Hence: in every schedule that takes such steps rank-many times (which a fair scheduler does), e ends
   successfully. *)
From GocqlV Require Import Lib.Base C14.Model C14.Spec C14.Proofs1 C14.Proofs2 C14.Proofs3 C14.Proofs4 C14.Proofs5 C14.Proofs6 C14.Proofs7 C14.Proofs8.

Definition frank (fl : flight) : nat :=
  match fl_status fl with
  | FCreated => 4
  | FSent => 3
  | FOk _ _ _ => if fl_done fl then 1 else 2
  | FFailed _ => 0
  end.

Definition rank (s : state) (e : nat) : nat :=
  match nth_error (s_execs s) e with
  | Some x =>
      match x_phase x with
      | PDone _ => 0
      | PSent => 1
      | PStart => if (x_pos x <? length (x_entries x))%nat then 7 else 2
      | PWait f => match nth_error (s_flights s) f with Some fl => 2 + frank fl | None => 0 end
      end
  | None => 0
  end.

(* which executor a label is an action of *)
Definition label_exec (l : label) : option nat :=
  match l with
  | LPlain e | LLookup e | LWake e | LCancel e | LSend e | LReplyOk e | LReplyErr e _ | LReplyUnprep e _ => Some e
  | _ => None
  end.

(* the query executor e: its record, its one statement *)
Definition is_query (s : state) (e : nat) (x : exec) (en : entry) : Prop :=
  nth_error (s_execs s) e = Some x /\ x_batch x = false /\ x_entries x = [en] /\ e_prep en = true.

Definition fkey (fl : flight) : key := key_for (fl_triple fl).

(* what the environment must not do to e *)
Definition hostile (s : state) (k : key) (nv : Z) (e : nat) (l : label) : Prop :=
  match l with
  | LCancel e' => e' = e
  | LReplyErr e' _ => e' = e
  | LReplyUnprep e' _ => e' = e
  | LPrepFail f _ => exists fl, nth_error (s_flights s) f = Some fl /\ fkey fl = k
  | LPrepOk f _ cnt _ => exists fl, nth_error (s_flights s) f = Some fl /\ fkey fl = k /\ cnt <> nv
  | _ => False
  end.

(* the steps that belong to e or to the PREPARE it waits for *)
Definition helps (s : state) (x : exec) (en : entry) (e : nat) (l : label) : Prop :=
  match x_phase x with
  | PStart => if (x_pos x <? length (x_entries x))%nat then l = LLookup e else l = LSend e
  | PSent => l = LReplyOk e
  | PWait f =>
      match nth_error (s_flights s) f with
      | Some fl =>
          match fl_status fl with
          | FCreated => l = LPrepSend f
          | FSent => exists id meta, l = LPrepOk f id (e_nvals en) meta
          | FOk _ _ _ => if fl_done fl then l = LWake e else l = LClose f
          | FFailed _ => False
          end
      | None => False
      end
  | PDone _ => False
  end.

(* ---- frame lemmas ---- *)
Lemma exec_frame s l s' e x :
  step s l = Some s' -> label_exec l <> Some e -> nth_error (s_execs s) e = Some x -> nth_error (s_execs s') e = Some x.
Proof.
  intros H NE HX.
  destruct l; step_inv H; cbn [s_execs add_log set_exec set_flight with_execs with_flights with_cache]; rewrite ?evict_execs.
  all: try exact HX.
  all: try (rewrite nth_error_app1; [exact HX|apply nth_error_Some; congruence]).
  all: rewrite nth_error_upd_neq; [exact HX|]; intros ->; apply NE; reflexivity.
Qed.

Inductive flight_change (l : label) (f : nat) (fl fl' : flight) : Prop :=
| FC_same : fl' = fl -> flight_change l f fl fl'
| FC_send : l = LPrepSend f -> fl_status fl = FCreated -> fl' = mkFlight (fl_triple fl) FSent false -> flight_change l f fl fl'
| FC_ok id cnt meta : l = LPrepOk f id cnt meta -> fl_status fl = FSent -> fl' = mkFlight (fl_triple fl) (FOk id cnt meta) false -> flight_change l f fl fl'
| FC_fail err : l = LPrepFail f err -> flight_change l f fl fl'
| FC_close : l = LClose f -> fl_done fl = false -> fl' = mkFlight (fl_triple fl) (fl_status fl) true -> flight_change l f fl fl'.

Lemma flight_step s l s' f fl :
  step s l = Some s' -> nth_error (s_flights s) f = Some fl ->
  exists fl', nth_error (s_flights s') f = Some fl' /\ flight_change l f fl fl'.
Proof.
  intros H HF.
  destruct l; step_inv H; cbn [s_flights add_log set_exec set_flight with_execs with_flights with_cache]; rewrite ?evict_flights.
  all: try (exists fl; split; [exact HF|apply FC_same; reflexivity]).
  all: try (exists fl; split; [apply nth_error_app_old; exact HF|apply FC_same; reflexivity]).
  all: match goal with
       | H1 : nth_error (s_flights _) ?f1 = Some ?fl1 |- _ =>
           tryif constr_eq f1 f then fail else
             (destruct (Nat.eq_dec f1 f) as [EE|NE];
              [subst f1; assert (fl1 = fl) by congruence; subst fl1
              |exists fl; split; [rewrite nth_error_upd_neq by assumption; exact HF|apply FC_same; reflexivity]])
       end.
  all: eexists; (split; [eapply nth_error_upd_eq; eauto|]).
  - apply FC_send; auto.
  - eapply FC_ok; eauto.
  - eapply FC_fail; eauto.
  - eapply FC_fail; eauto.
  - apply FC_close; auto. name_hyps. rewrite HS. reflexivity.
  - apply FC_close; auto. name_hyps. rewrite HS. reflexivity.
Qed.

Lemma new_flight_created s l s' f fl' :
  step s l = Some s' -> nth_error (s_flights s) f = None -> nth_error (s_flights s') f = Some fl' ->
  fl_status fl' = FCreated /\ fl_done fl' = false.
Proof.
  intros H HN HF.
  destruct l; step_inv H; cbn [s_flights add_log set_exec set_flight with_execs with_flights with_cache] in HF; rewrite ?evict_flights in HF.
  all: try congruence.
  all: try (apply nth_error_app_inv in HF; destruct HF as [HF|[_ ->]]; [congruence|split; reflexivity]).
  all: exfalso; rewrite nth_error_upd in HF;
       match type of HF with (if (?a =? ?b)%nat then _ else _) = _ => destruct (Nat.eqb_spec a b) as [EE|NE] end;
       [subst; rewrite HN in HF; discriminate|congruence].
Qed.

Lemma Forall2_len {A B} (P : A -> B -> Prop) l l' : Forall2 P l l' -> length l = length l'.
Proof. intros H. induction H; simpl; congruence. Qed.

Lemma exec_ok_pos F x : exec_ok F x -> (x_pos x <= length (x_entries x))%nat.
Proof.
  intros [H1 [H2 _]]. assert (L := Forall2_len _ _ _ H2). rewrite firstn_length in L. lia.
Qed.

(* every PREPARE answer for e's statement names e's number of values (the statement has that many bind
   markers), the PREPARE e waits for has not failed, and e has not failed *)
Definition sane_a (s : state) (k : key) (nv : Z) : Prop :=
  forall f fl, nth_error (s_flights s) f = Some fl -> fkey fl = k ->
    forall id cnt meta, fl_status fl = FOk id cnt meta -> cnt = nv.

Definition sane (s : state) (x : exec) (en : entry) : Prop :=
  sane_a s (key_for (x_triple x en)) (e_nvals en) /\
  (forall f fl, x_phase x = PWait f -> nth_error (s_flights s) f = Some fl -> forall err, fl_status fl <> FFailed err) /\
  (forall r, x_phase x = PDone r -> r = ROk).

Lemma sane_a_step s l s' e k nv :
  step s l = Some s' -> ~ hostile s k nv e l -> sane_a s k nv -> sane_a s' k nv.
Proof.
  intros H NH SA f fl' HF' HK id cnt meta HS.
  destruct (nth_error (s_flights s) f) as [fl|] eqn:HF.
  - destruct (flight_step _ _ _ _ _ H HF) as [fl2 [HF2 FC]]. rewrite HF' in HF2. inversion HF2; subst fl2.
    destruct FC as [->|_ _ ->| id0 cnt0 meta0 -> HS0 ->| err -> |_ _ ->].
    + eapply SA; eauto.
    + discriminate HS.
    + cbn in HS. injection HS as E1 E2 E3. subst id0 cnt0 meta0. unfold fkey in HK. cbn in HK.
      destruct (Z.eq_dec cnt nv) as [E|N]; [exact E|]. exfalso. apply NH. cbn. exists fl. auto.
    + exfalso. apply NH. cbn.
      assert (T : fl_triple fl' = fl_triple fl).
      { destruct (step_flights_extend _ _ _ H f fl HF) as [fl3 [A [B _]]]. rewrite HF' in A. inversion A; subst fl3. exact B. }
      exists fl. split; [exact HF|]. unfold fkey in *. rewrite <- T. exact HK.
    + cbn in HS. unfold fkey in HK. cbn in HK. eapply SA; eauto.
  - destruct (new_flight_created _ _ _ _ _ H HF HF') as [E _]. rewrite E in HS. discriminate.
Qed.

Lemma nth_error_single {A} (a b : A) i : nth_error [a] i = Some b -> i = 0%nat /\ b = a.
Proof. destruct i as [|[|i]]; simpl; intros H; inversion H; auto. Qed.

Lemma waits_flight s e x en f :
  inv s -> is_query s e x en -> x_phase x = PWait f ->
  exists fl, nth_error (s_flights s) f = Some fl /\ fkey fl = key_for (x_triple x en) /\ x_pos x = 0%nat.
Proof.
  intros [_ I2 _ _ _ _ _ _] [HX [_ [HE _]]] HP.
  pose proof (Forall_nth_error _ _ _ _ I2 HX) as [_ [_ W]]. rewrite HP in W.
  destruct W as [fl [en' [A [B [_ D]]]]]. rewrite HE in B. apply nth_error_single in B. destruct B as [B1 ->].
  exists fl. auto.
Qed.

Lemma frank_change l f fl fl' : flight_change l f fl fl' -> (forall err, l <> LPrepFail f err) -> (frank fl' <= frank fl)%nat /\
  ((forall err, fl_status fl <> FFailed err) -> forall err, fl_status fl' <> FFailed err).
Proof.
  intros FC NF. destruct FC as [->|_ HS ->|id cnt meta _ HS ->|err ->|_ HD ->].
  - split; auto.
  - unfold frank. rewrite HS. cbn. split; [lia|intros _ err; discriminate].
  - unfold frank. rewrite HS. cbn. split; [lia|intros _ err; discriminate].
  - exfalso. eapply NF; reflexivity.
  - unfold frank. cbn. rewrite HD. split; [destruct (fl_status fl); lia|auto].
Qed.

Lemma fair_other s l s' e x en :
  inv s -> is_query s e x en -> sane s x en -> ~ hostile s (key_for (x_triple x en)) (e_nvals en) e l ->
  step s l = Some s' -> label_exec l <> Some e ->
  is_query s' e x en /\ sane s' x en /\ (rank s' e <= rank s e)%nat.
Proof.
  intros I Q [SA [SB SC]] NH H NE. pose proof Q as [HX [HB [HE HPr]]].
  pose proof (exec_frame _ _ _ _ _ H NE HX) as HX'.
  assert (FW : forall f, x_phase x = PWait f ->
            exists fl fl', nth_error (s_flights s) f = Some fl /\ nth_error (s_flights s') f = Some fl' /\
                           (frank fl' <= frank fl)%nat /\ forall err, fl_status fl' <> FFailed err).
  { intros f HP. destruct (waits_flight _ _ _ _ _ I Q HP) as [fl [HF [HK _]]].
    destruct (flight_step _ _ _ _ _ H HF) as [fl' [HF' FC]].
    assert (NF : forall err, l <> LPrepFail f err).
    { intros err ->. apply NH. cbn. exists fl. auto. }
    destruct (frank_change _ _ _ _ FC NF) as [R1 R2]. exists fl, fl'. repeat split; auto. apply R2. eapply SB; eauto. }
  split; [repeat split; assumption|]. split.
  - split; [eapply sane_a_step; eauto|]. split; [|assumption].
    intros f fl' HP HF'. destruct (FW f HP) as [fl [fl2 [_ [A [_ B]]]]]. rewrite HF' in A. inversion A; subst. exact B.
  - unfold rank. rewrite HX, HX'. destruct (x_phase x) eqn:HP; try lia.
    destruct (FW f eq_refl) as [fl [fl' [A [B [C _]]]]]. rewrite A, B. lia.
Qed.

Lemma rank_of s e x : nth_error (s_execs s) e = Some x ->
  rank s e = match x_phase x with
             | PDone _ => 0 | PSent => 1
             | PStart => if (x_pos x <? length (x_entries x))%nat then 7 else 2
             | PWait f => match nth_error (s_flights s) f with Some fl => 2 + frank fl | None => 0 end
             end%nat.
Proof. intros H. unfold rank. rewrite H. reflexivity. Qed.

Lemma frank_le4 fl : (frank fl <= 4)%nat.
Proof. unfold frank. destruct (fl_status fl); try lia. destruct (fl_done fl); lia. Qed.

Lemma fair_own s l s' e x en :
  inv s -> is_query s e x en -> sane s x en -> ~ hostile s (key_for (x_triple x en)) (e_nvals en) e l ->
  step s l = Some s' -> label_exec l = Some e ->
  exists x', is_query s' e x' en /\ x_triple x' en = x_triple x en /\ sane s' x' en /\ (rank s' e < rank s e)%nat.
Proof.
  intros I Q SN NH H LE. pose proof Q as [QX [QB [QE HPr]]]. pose proof SN as [SA [SB SC]].
  pose proof (sane_a_step _ _ _ e _ _ H NH SA) as SA'.
  pose proof I as [[ND _ CE CW] I2 _ _ _ _ _ _].
  pose proof (exec_ok_pos _ _ (Forall_nth_error _ _ _ _ I2 QX)) as PL. rewrite QE in PL. simpl in PL.
  destruct l; cbn in LE; try discriminate LE; injection LE as ->.
  - (* LPlain: the entry of a query is prepared *)
    exfalso. unfold step in H. rewrite QX in H. destruct (x_phase x); try discriminate.
    rewrite QE in H. destruct (nth_error [en] (x_pos x)) as [en'|] eqn:EN; try discriminate.
    apply nth_error_single in EN. destruct EN as [_ ->]. rewrite HPr in H. discriminate.
  - (* LLookup *)
    step_inv H.
    + (* hit *)
      name_hyps. assert (e0 = x) by congruence. subst e0. rewrite QE in HE. apply nth_error_single in HE. destruct HE as [P0 ->].
      exists (set_phase x (PWait n)). split; [|split; [reflexivity|split]].
      * repeat split; auto. cbn. eapply nth_error_upd_eq; eauto.
      * split; [exact SA'|]. split; [|intros r; discriminate].
        cbn. intros f fl E HF. inversion E; subst f.
        pose proof (lru_get_result _ _ _ _ HG) as L. symmetry in L. apply lookup_In in L.
        rewrite Forall_forall in CE. destruct (CE _ L) as [fl0 [A [_ C]]]. cbn in A. rewrite HF in A. inversion A; subst fl0.
        intros err E2. rewrite E2 in C. exact C.
      * rewrite (rank_of s e x HX), HP, QE, P0. cbn.
        erewrite rank_of by (cbn; eapply nth_error_upd_eq; eauto). cbn.
        destruct (nth_error (s_flights s) n) as [fl|]; [pose proof (frank_le4 fl); lia|lia].
    + (* miss *)
      name_hyps. assert (e0 = x) by congruence. subst e0. rewrite QE in HE. apply nth_error_single in HE. destruct HE as [P0 ->].
      exists (set_phase x (PWait (length (s_flights s)))). split; [|split; [reflexivity|split]].
      * repeat split; auto. cbn. eapply nth_error_upd_eq; eauto.
      * split; [exact SA'|]. split; [|intros r; discriminate].
        cbn. intros f fl E HF. inversion E; subst f. rewrite nth_error_app_last in HF. inversion HF; subst fl. intros err; discriminate.
      * rewrite (rank_of s e x HX), HP, QE, P0. cbn.
        erewrite rank_of by (cbn; eapply nth_error_upd_eq; eauto). cbn. rewrite nth_error_app_last. cbn. lia.
  - (* LWake *)
    step_inv H; name_hyps; assert (e0 = x) by congruence; subst e0;
      rewrite QE in HE; apply nth_error_single in HE; destruct HE as [P0 ->].
    + (* count ok *)
      exists (mkExec (x_batch x) (x_host x) (x_ks x) (x_entries x) (S (x_pos x)) (x_got x ++ [Some (mkGot (e_stmt en) f id cnt meta)]) PStart).
      split; [|split; [reflexivity|split]].
      * split; [cbn; eapply nth_error_upd_eq; eauto|]. repeat split; auto.
      * split; [exact SA'|]. split; intros; discriminate.
      * rewrite (rank_of s e x HX), HP, HF. unfold frank. rewrite HS, HD.
        erewrite rank_of by (cbn; eapply nth_error_upd_eq; eauto). cbn. rewrite QE, P0. cbn. lia.
    + (* count mismatch: excluded by sane_a *)
      exfalso. destruct (waits_flight _ _ _ _ _ I Q HP) as [fl [HF2 [HK _]]].
      assert (fl = f0) by congruence. subst fl. pose proof (SA _ _ HF HK _ _ _ HS). subst cnt.
      rewrite Z.eqb_refl in Heqb0. discriminate.
    + (* failed flight: excluded *)
      exfalso. eapply SB; eauto.
  - exfalso. apply NH. reflexivity.
  - (* LSend *)
    step_inv H. name_hyps. assert (e0 = x) by congruence. subst e0.
    apply andb_true_iff in Heqb. destruct Heqb as [B1 B2]. apply Nat.eqb_eq in B2.
    destruct (x_phase x) eqn:HP; try discriminate B1.
    exists (set_phase x PSent). split; [|split; [reflexivity|split]].
    + repeat split; auto. cbn. eapply nth_error_upd_eq; eauto.
    + split; [exact SA'|]. split; intros; discriminate.
    + rewrite (rank_of s e x HX), HP, B2, Nat.ltb_irrefl.
      erewrite rank_of by (cbn; eapply nth_error_upd_eq; eauto). cbn. lia.
  - (* LReplyOk *)
    step_inv H. name_hyps. assert (e0 = x) by congruence. subst e0.
    destruct (x_phase x) eqn:HP; try discriminate Heqb.
    exists (set_phase x (PDone ROk)). split; [|split; [reflexivity|split]].
    + repeat split; auto. cbn. eapply nth_error_upd_eq; eauto.
    + split; [exact SA'|]. split; [intros; discriminate|]. cbn. intros r E. inversion E. reflexivity.
    + rewrite (rank_of s e x HX), HP.
      erewrite rank_of by (cbn; eapply nth_error_upd_eq; eauto). cbn. lia.
  - exfalso. apply NH. reflexivity.
  - exfalso. apply NH. reflexivity.
Qed.

Lemma helps_not_hostile s x en e l :
  helps s x en e l -> ~ hostile s (key_for (x_triple x en)) (e_nvals en) e l.
Proof.
  unfold helps. intros HH HO. destruct (x_phase x).
  - destruct (x_pos x <? length (x_entries x))%nat; subst l; exact HO.
  - destruct (nth_error (s_flights s) f) as [fl|]; [|exact HH].
    destruct (fl_status fl).
    + subst l. exact HO.
    + destruct HH as [id [meta ->]]. cbn in HO. destruct HO as [fl0 [_ [_ N]]]. apply N. reflexivity.
    + destruct (fl_done fl); subst l; exact HO.
    + exact HH.
  - subst l. exact HO.
  - exact HH.
Qed.

(* a helping step is always enabled, and it lowers the rank *)
Lemma helps_progress s e x en l :
  inv s -> is_query s e x en -> sane s x en -> helps s x en e l ->
  exists s', step s l = Some s' /\ (rank s' e < rank s e)%nat.
Proof.
  intros I Q SN HH. pose proof Q as [QX [QB [QE HPr]]]. pose proof SN as [SA [SB SC]].
  pose proof I as [[ND _ CE CW] I2 _ _ _ _ _ _].
  pose proof (exec_ok_pos _ _ (Forall_nth_error _ _ _ _ I2 QX)) as PL. rewrite QE in PL. simpl in PL.
  pose proof (helps_not_hostile _ _ _ _ _ HH) as NH.
  assert (OWN : forall s', step s l = Some s' -> label_exec l = Some e -> (rank s' e < rank s e)%nat).
  { intros s' H LE. destruct (fair_own _ _ _ _ _ _ I Q SN NH H LE) as [x' [_ [_ [_ R]]]]. exact R. }
  unfold helps in HH. destruct (x_phase x) eqn:HP.
  - (* PStart *)
    rewrite QE in HH. simpl length in HH. destruct (x_pos x <? 1)%nat eqn:B; subst l.
    + apply Nat.ltb_lt in B. assert (P0 : x_pos x = 0%nat) by lia.
      assert (HE : nth_error (x_entries x) (x_pos x) = Some en) by (rewrite QE, P0; reflexivity).
      destruct (lookup (key_for (x_triple x en)) (s_cache s)) as [f|] eqn:L.
      * destruct (lookup_hit_lemma s e x en f ND QX HP HE HPr L) as [s' [S1 _]]. exists s'. split; [exact S1|]. apply OWN; auto.
      * destruct (fwd_lookup_miss s e x en QX HP HE HPr L) as [s' [S1 _]]. exists s'. split; [exact S1|]. apply OWN; auto.
    + apply Nat.ltb_ge in B. assert (P1 : x_pos x = length (x_entries x)) by (rewrite QE; simpl; lia).
      destruct (fwd_send s e x QX HP P1) as [s' [S1 _]]. exists s'. split; [exact S1|]. apply OWN; auto.
  - (* PWait *)
    destruct (waits_flight _ _ _ _ _ I Q HP) as [fl [HF [HK P0]]]. rewrite HF in HH.
    pose proof (Forall_nth_error _ _ _ _ CW HF) as W. unfold flight_wf in W.
    assert (HE : nth_error (x_entries x) (x_pos x) = Some en) by (rewrite QE, P0; reflexivity).
    destruct fl as [t st d]. cbn [fl_status fl_done fl_triple] in *.
    destruct st as [| |id cnt meta|err].
    + subst l. destruct d; [exfalso; apply W; reflexivity|].
      destruct (fwd_prepsend s f t HF) as [s' [S1 [F1 [X1 _]]]]. exists s'. split; [exact S1|].
      rewrite (rank_of s e x QX), HP, HF. erewrite rank_of by (rewrite X1; exact QX). rewrite HP, F1.
      erewrite nth_error_upd_eq by eauto. cbn. lia.
    + destruct HH as [id [meta ->]]. destruct d; [exfalso; apply W; reflexivity|].
      destruct (fwd_prepok s f t id (e_nvals en) meta HF) as [s' [S1 [F1 [X1 _]]]]. exists s'. split; [exact S1|].
      rewrite (rank_of s e x QX), HP, HF. erewrite rank_of by (rewrite X1; exact QX). rewrite HP, F1.
      erewrite nth_error_upd_eq by eauto. cbn. lia.
    + destruct d; subst l.
      * assert (cnt = e_nvals en) by (eapply SA; eauto; reflexivity). subst cnt.
        destruct (fwd_wake_ok s e x f t id (e_nvals en) meta en QX HP HF HE eq_refl) as [s' [S1 _]].
        exists s'. split; [exact S1|]. apply OWN; auto.
      * destruct (fwd_close_ok s f t id cnt meta HF) as [s' [S1 [F1 [X1 _]]]]. exists s'. split; [exact S1|].
        rewrite (rank_of s e x QX), HP, HF. erewrite rank_of by (rewrite X1; exact QX). rewrite HP, F1.
        erewrite nth_error_upd_eq by eauto. cbn. lia.
    + exact (False_ind _ HH).
  - (* PSent *)
    subst l. destruct (fwd_replyok s e x QX HP) as [s' [S1 _]]. exists s'. split; [exact S1|]. apply OWN; auto.
  - exact (False_ind _ HH).
Qed.

(* and as long as e is not finished there is one *)
Lemma helper_exists s e x en :
  inv s -> is_query s e x en -> sane s x en -> (forall r, x_phase x <> PDone r) ->
  exists l, helps s x en e l.
Proof.
  intros I Q [SA [SB SC]] ND. unfold helps. destruct (x_phase x) eqn:HP.
  - destruct (x_pos x <? length (x_entries x))%nat; [exists (LLookup e)|exists (LSend e)]; reflexivity.
  - destruct (waits_flight _ _ _ _ _ I Q HP) as [fl [HF _]]. rewrite HF.
    destruct (fl_status fl) as [| |id cnt meta|err] eqn:ST.
    + exists (LPrepSend f). reflexivity.
    + exists (LPrepOk f [] (e_nvals en) 0). exists [], 0. reflexivity.
    + destruct (fl_done fl); [exists (LWake e)|exists (LClose f)]; reflexivity.
    + exfalso. eapply SB; eauto.
  - exists (LReplyOk e). reflexivity.
  - exfalso. eapply ND; reflexivity.
Qed.

(* ---- schedules ---- *)
(* a run in which nothing hostile to e happens; n counts (some of) the helping steps taken *)
Inductive frun (e : nat) (en : entry) : state -> list label -> nat -> state -> Prop :=
| fr_nil s : frun e en s [] 0 s
| fr_help s x l s1 ls n s' :
    nth_error (s_execs s) e = Some x -> helps s x en e l -> step s l = Some s1 ->
    frun e en s1 ls n s' -> frun e en s (l :: ls) (S n) s'
| fr_other s x l s1 ls n s' :
    nth_error (s_execs s) e = Some x -> ~ hostile s (key_for (x_triple x en)) (e_nvals en) e l -> step s l = Some s1 ->
    frun e en s1 ls n s' -> frun e en s (l :: ls) n s'.

Lemma fair_step s l s' e x en :
  inv s -> is_query s e x en -> sane s x en -> ~ hostile s (key_for (x_triple x en)) (e_nvals en) e l ->
  step s l = Some s' ->
  exists x', is_query s' e x' en /\ x_triple x' en = x_triple x en /\ sane s' x' en /\ (rank s' e <= rank s e)%nat.
Proof.
  intros I Q SN NH H. destruct (label_exec l) as [e'|] eqn:LE.
  - destruct (Nat.eq_dec e' e) as [->|N].
    + destruct (fair_own _ _ _ _ _ _ I Q SN NH H LE) as [x' [A [B [C D]]]]. exists x'. split; [exact A|]. split; [exact B|]. split; [exact C|lia].
    + assert (NE : label_exec l <> Some e) by congruence.
      destruct (fair_other _ _ _ _ _ _ I Q SN NH H NE) as [A [B C]]. exists x. split; [exact A|]. split; [reflexivity|]. split; [exact B|exact C].
  - assert (NE : label_exec l <> Some e) by congruence.
    destruct (fair_other _ _ _ _ _ _ I Q SN NH H NE) as [A [B C]]. exists x. split; [exact A|]. split; [reflexivity|]. split; [exact B|exact C].
Qed.

Lemma fair_progress_lemma e en ls : forall s n s' x,
  inv s -> is_query s e x en -> sane s x en -> frun e en s ls n s' ->
  exists x', is_query s' e x' en /\ sane s' x' en /\ (rank s' e + n <= rank s e)%nat.
Proof.
  induction ls as [|l ls IH]; intros s n s' x I Q SN R;
    inversion R as [sA|sA xA lA s1 lsA nA sB HXA HHA HSA HRA|sA xA lA s1 lsA nA sB HXA HNA HSA HRA]; subst.
  - exists x. split; [exact Q|]. split; [exact SN|lia].
  - pose proof Q as [QX Q2]. assert (xA = x) by congruence. subst xA.
    pose proof (helps_not_hostile _ _ _ _ _ HHA) as NH.
    destruct (fair_step _ _ _ _ _ _ I Q SN NH HSA) as [x1 [Q1 [T1 [SN1 _]]]].
    destruct (helps_progress _ _ _ _ _ I Q SN HHA) as [s1' [S1 RK]]. rewrite HSA in S1. inversion S1; subst s1'.
    destruct (IH _ _ _ _ (inv_step _ _ _ I HSA) Q1 SN1 HRA) as [x' [A [B C]]]. exists x'. split; [exact A|]. split; [exact B|lia].
  - pose proof Q as [QX Q2]. assert (xA = x) by congruence. subst xA.
    destruct (fair_step _ _ _ _ _ _ I Q SN HNA HSA) as [x1 [Q1 [T1 [SN1 RK]]]].
    destruct (IH _ _ _ _ (inv_step _ _ _ I HSA) Q1 SN1 HRA) as [x' [A [B C]]]. exists x'. split; [exact A|]. split; [exact B|lia].
Qed.

Lemma fair_success_lemma max ls0 s e x en ls n s' :
  run (init max) ls0 = Some s -> is_query s e x en -> sane s x en ->
  frun e en s ls n s' -> (rank s e <= n)%nat ->
  exists x', nth_error (s_execs s') e = Some x' /\ x_phase x' = PDone ROk.
Proof.
  intros H Q SN R LE. destruct (inv_reachable _ _ _ H) as [I _].
  destruct (fair_progress_lemma _ _ _ _ _ _ _ I Q SN R) as [x' [Q' [[_ [_ SC]] RK]]].
  pose proof Q' as [QX' _].
  exists x'. split; [exact QX'|].
  assert (Z0 : rank s' e = 0%nat) by lia. rewrite (rank_of _ _ _ QX') in Z0.
  assert (I' : inv s').
  { clear - I R. induction R; eauto using inv_step. }
  destruct (x_phase x') eqn:HP.
  - destruct (x_pos x' <? length (x_entries x'))%nat; discriminate.
  - destruct (waits_flight s' e x' en f I' Q' HP) as [fl [HF _]]. rewrite HF in Z0. discriminate.
  - discriminate.
  - rewrite (SC r eq_refl). reflexivity.
Qed.

(* in every reachable state an unfinished, sane query executor has an enabled helping step *)
Lemma never_stuck_lemma max ls0 s e x en :
  run (init max) ls0 = Some s -> is_query s e x en -> sane s x en -> (forall r, x_phase x <> PDone r) ->
  exists l s', helps s x en e l /\ ~ hostile s (key_for (x_triple x en)) (e_nvals en) e l /\
               step s l = Some s' /\ (rank s' e < rank s e)%nat.
Proof.
  intros H Q SN ND. destruct (inv_reachable _ _ _ H) as [I _].
  destruct (helper_exists _ _ _ _ I Q SN ND) as [l HH].
  destruct (helps_progress _ _ _ _ _ I Q SN HH) as [s' [S1 R]].
  exists l, s'. split; [exact HH|]. split; [apply helps_not_hostile; exact HH|]. auto.
Qed.

(* the state right after UNPREPARED evicted the entry (or any state in which e starts over) is sane as
   soon as the server's PREPARE answers for the statement agree with e's number of values *)
Lemma sane_at_start s x en :
  x_phase x = PStart -> sane_a s (key_for (x_triple x en)) (e_nvals en) -> sane s x en.
Proof. intros HP SA. split; [exact SA|]. split; intros; congruence. Qed.
