(* C14/Proofs3.v -- invariants of the single-flight transition system, part 2: the executors.
   What an executor holds (the flight it waits for, the ids it has collected) always belongs to the
   cache key of the statement it is working on, and passed the bound-value count check. *)
From GocqlV Require Import Lib.Base C14.Model C14.Proofs1 C14.Proofs2.

(* flights are only appended, and an existing flight keeps its statement and, once set, its result *)
Definition flights_extend (F F' : list flight) : Prop :=
  forall f fl, nth_error F f = Some fl ->
    exists fl', nth_error F' f = Some fl' /\ fl_triple fl' = fl_triple fl /\
                (forall id c m, fl_status fl = FOk id c m -> fl_status fl' = FOk id c m) /\
                (fl_done fl = true -> fl_done fl' = true /\ fl_status fl' = fl_status fl).

Lemma flights_extend_refl F : flights_extend F F.
Proof. intros f fl H. exists fl. repeat split; auto. Qed.

Lemma flights_extend_app F x : flights_extend F (F ++ [x]).
Proof. intros f fl H. exists fl. split; [apply nth_error_app_old; assumption|]. repeat split; auto. Qed.

Lemma flights_extend_upd F f0 fl0 fl1 :
  nth_error F f0 = Some fl0 -> fl_triple fl1 = fl_triple fl0 ->
  (forall id c m, fl_status fl0 = FOk id c m -> fl_status fl1 = FOk id c m) ->
  (fl_done fl0 = true -> fl_done fl1 = true /\ fl_status fl1 = fl_status fl0) ->
  flights_extend F (upd F f0 fl1).
Proof.
  intros H0 HT HS HD f fl H. destruct (Nat.eq_dec f0 f) as [->|N].
  - rewrite H0 in H. inversion H; subst fl. exists fl1. split; [eapply nth_error_upd_eq; eauto|]. auto.
  - exists fl. rewrite nth_error_upd_neq by assumption. repeat split; auto.
Qed.

Lemma step_flights_extend s l s' : step s l = Some s' -> flights_extend (s_flights s) (s_flights s').
Proof.
  intros H. destruct l; step_inv H; cbn; rewrite ?evict_flights; try apply flights_extend_refl.
  all: try apply flights_extend_app.
  all: name_hyps; eapply flights_extend_upd; eauto; cbn; try congruence.
  all: try (intros; congruence).
  all: try (intros; split; congruence).
Qed.

(* what prepareStatement handed back for entry en, as recorded by the executor *)
Definition got_ok (F : list flight) (host ks : key) (en : entry) (og : option got) : Prop :=
  match og with
  | None => e_prep en = false
  | Some g =>
      e_prep en = true /\ g_stmt g = e_stmt en /\ e_nvals en = g_cnt g /\
      exists fl, nth_error F (g_fid g) = Some fl /\ fl_status fl = FOk (g_id g) (g_cnt g) (g_meta g) /\
                 key_for (fl_triple fl) = key_for (mkTriple host ks (e_stmt en))
  end.

Definition exec_ok (F : list flight) (x : exec) : Prop :=
  length (x_got x) = x_pos x /\
  Forall2 (got_ok F (x_host x) (x_ks x)) (firstn (x_pos x) (x_entries x)) (x_got x) /\
  match x_phase x with
  | PWait f => exists fl en, nth_error F f = Some fl /\ nth_error (x_entries x) (x_pos x) = Some en /\
                             e_prep en = true /\ key_for (fl_triple fl) = key_for (x_triple x en)
  | _ => True
  end.

Definition execs_inv (s : state) : Prop := Forall (exec_ok (s_flights s)) (s_execs s).

Lemma Forall2_impl' {A B} (P Q : A -> B -> Prop) (l : list A) (l' : list B) :
  (forall a b, P a b -> Q a b) -> Forall2 P l l' -> Forall2 Q l l'.
Proof. intros I H. induction H; constructor; auto. Qed.

Lemma got_ok_mono F F' h ks en og : flights_extend F F' -> got_ok F h ks en og -> got_ok F' h ks en og.
Proof.
  intros E. destruct og as [g|]; simpl; [|auto].
  intros [H1 [H2 [H3 [fl [H4 [H5 H6]]]]]]. repeat split; auto.
  destruct (E _ _ H4) as [fl' [E1 [E2 [E3 _]]]]. exists fl'. repeat split; auto. congruence.
Qed.

Lemma exec_ok_mono F F' x : flights_extend F F' -> exec_ok F x -> exec_ok F' x.
Proof.
  intros E [H1 [H2 H3]]. split; [assumption|]. split.
  - eapply Forall2_impl'; [|exact H2]. intros a b. apply got_ok_mono. assumption.
  - destruct (x_phase x); auto. destruct H3 as [fl [en [A [B [C D]]]]].
    destruct (E _ _ A) as [fl' [E1 [E2 _]]]. exists fl', en. repeat split; auto. congruence.
Qed.

Lemma execs_mono F F' X : flights_extend F F' -> Forall (exec_ok F) X -> Forall (exec_ok F') X.
Proof. intros E H. eapply Forall_impl; [|exact H]. intros x. apply exec_ok_mono. assumption. Qed.

Lemma firstn_S_nth {A} (l : list A) n x : nth_error l n = Some x -> firstn (S n) l = firstn n l ++ [x].
Proof.
  revert n. induction l as [|y l IH]; intros [|n] H; simpl in *; try discriminate.
  - inversion H; reflexivity.
  - f_equal. apply IH. assumption.
Qed.

(* an executor that only changes its phase to something other than PWait *)
Lemma exec_ok_set_phase F x p :
  exec_ok F x -> (match p with PWait _ => False | _ => True end) -> exec_ok F (set_phase x p).
Proof.
  intros [H1 [H2 H3]] Hp. split; [assumption|]. split; [assumption|]. cbn. destruct p; auto. contradiction.
Qed.

Lemma execs_inv_init max : execs_inv (init max).
Proof. constructor. Qed.

Lemma execs_inv_step s l s' : cache_inv s -> execs_inv s -> step s l = Some s' -> execs_inv s'.
Proof.
  intros CI XI H. pose proof (step_flights_extend _ _ _ H) as FE.
  unfold execs_inv in *. pose proof (execs_mono _ _ _ FE XI) as XI'.
  destruct l; step_inv H; cbn in *; rewrite ?evict_flights, ?evict_execs in *; try exact XI'.
  - (* LSpawn *)
    apply Forall_app. split; [assumption|]. constructor; [|constructor].
    split; [reflexivity|]. split; [constructor|exact Logic.I].
  - (* LPlain *)
    name_hyps. apply Forall_upd; [assumption|].
    pose proof (Forall_nth_error _ _ _ _ XI' HX) as [H1 [H2 H3]].
    split; [cbn; rewrite app_length; simpl; lia|]. split; [|exact Logic.I].
    cbn [x_pos x_entries x_got x_host x_ks x_phase x_batch]. rewrite (firstn_S_nth _ _ _ HE). apply Forall2_app; [assumption|].
    constructor; [|constructor]. simpl. destruct (e_prep e1); [discriminate|reflexivity].
  - (* LLookup hit *)
    name_hyps. apply Forall_upd; [assumption|].
    pose proof (Forall_nth_error _ _ _ _ XI' HX) as [H1 [H2 H3]].
    split; [assumption|]. split; [assumption|]. cbn.
    pose proof (lru_get_result _ _ _ _ HG) as L. symmetry in L. apply lookup_In in L.
    destruct CI as [_ _ CE _]. rewrite Forall_forall in CE. destruct (CE _ L) as [fl [A [B C]]].
    exists fl, e1. repeat split; auto.
  - (* LLookup miss *)
    name_hyps. apply Forall_upd; [assumption|].
    pose proof (Forall_nth_error _ _ _ _ XI' HX) as [H1 [H2 H3]].
    split; [assumption|]. split; [assumption|]. cbn.
    eexists. exists e1. split; [apply nth_error_app_last|]. repeat split; auto.
  - (* LWake, count ok *)
    name_hyps. apply Forall_upd; [assumption|].
    pose proof (Forall_nth_error _ _ _ _ XI' HX) as [H1 [H2 H3]].
    rewrite HP in H3. destruct H3 as [fl [en [A [B [C D]]]]].
    rewrite HE in B. inversion B; subst en. rewrite HF in A. inversion A; subst fl.
    split; [cbn; rewrite app_length; simpl; lia|]. split; [|exact Logic.I].
    cbn [x_pos x_entries x_got x_host x_ks x_phase x_batch]. rewrite (firstn_S_nth _ _ _ HE). apply Forall2_app; [assumption|].
    constructor; [|constructor]. simpl. repeat split; auto; [lia|].
    exists f0. repeat split; auto.
  - (* LWake, count mismatch *)
    name_hyps. apply Forall_upd; [assumption|].
    apply exec_ok_set_phase; [|exact Logic.I]. eapply Forall_nth_error; eauto.
  - (* LWake, failed flight *)
    name_hyps. apply Forall_upd; [assumption|].
    apply exec_ok_set_phase; [|exact Logic.I]. eapply Forall_nth_error; eauto.
  - (* LCancel *)
    name_hyps. apply Forall_upd; [assumption|].
    apply exec_ok_set_phase; [|exact Logic.I]. eapply Forall_nth_error; eauto.
  - (* LSend *)
    name_hyps. apply Forall_upd; [assumption|].
    apply exec_ok_set_phase; [|exact Logic.I]. eapply Forall_nth_error; eauto.
  - (* LReplyOk *)
    name_hyps. apply Forall_upd; [assumption|].
    apply exec_ok_set_phase; [|exact Logic.I]. eapply Forall_nth_error; eauto.
  - (* LReplyErr *)
    name_hyps. apply Forall_upd; [assumption|].
    apply exec_ok_set_phase; [|exact Logic.I]. eapply Forall_nth_error; eauto.
  - (* LReplyUnprep batch found *)
    apply Forall_upd; [assumption|]. split; [reflexivity|]. split; [constructor|exact Logic.I].
  - apply Forall_upd; [assumption|]. split; [reflexivity|]. split; [constructor|exact Logic.I].
  - apply Forall_upd; [assumption|]. split; [reflexivity|]. split; [constructor|exact Logic.I].
  - apply Forall_upd; [assumption|]. split; [reflexivity|]. split; [constructor|exact Logic.I].
Qed.
