(* C14/Proofs7.v -- forward (progress) lemmas: what a given label does from a state in which it is
   enabled; failure reporting; the bound-value count check; re-preparation after UNPREPARED. *)
From GocqlV Require Import Lib.Base C14.Model C14.Spec C14.Proofs1 C14.Proofs2 C14.Proofs3 C14.Proofs4 C14.Proofs5 C14.Proofs6.

(* ---- one label at a time ---- *)
Lemma fwd_lookup_miss s e x en :
  nth_error (s_execs s) e = Some x -> x_phase x = PStart ->
  nth_error (x_entries x) (x_pos x) = Some en -> e_prep en = true ->
  lookup (key_for (x_triple x en)) (s_cache s) = None ->
  exists s', step s (LLookup e) = Some s' /\
    s_execs s' = upd (s_execs s) e (set_phase x (PWait (length (s_flights s)))) /\
    s_flights s' = s_flights s ++ [mkFlight (x_triple x en) FCreated false] /\
    s_log s' = rev (gone_events 0 (snd (lru_add (s_max s) (s_cache s) (key_for (x_triple x en)) (length (s_flights s)))))
               ++ EvCreate (length (s_flights s)) (key_for (x_triple x en)) :: s_log s /\
    s_cache s' = fst (lru_add (s_max s) (s_cache s) (key_for (x_triple x en)) (length (s_flights s))) /\
    s_max s' = s_max s.
Proof.
  intros HX HP HE HPr L. unfold step. rewrite HX, HP, HE, HPr, (lru_get_miss _ _ L).
  destruct (lru_add (s_max s) (s_cache s) (key_for (x_triple x en)) (length (s_flights s))) as [c ev].
  eexists. split; [reflexivity|]. cbn [s_execs s_flights s_log s_cache s_max add_log set_exec with_execs with_flights with_cache fst snd].
  repeat split. simpl. rewrite <- app_assoc. reflexivity.
Qed.

Lemma fwd_prepsend s f t :
  nth_error (s_flights s) f = Some (mkFlight t FCreated false) ->
  exists s', step s (LPrepSend f) = Some s' /\
    s_flights s' = upd (s_flights s) f (mkFlight t FSent false) /\ s_execs s' = s_execs s /\
    s_log s' = EvPrepare f t :: s_log s /\ s_cache s' = s_cache s /\ s_max s' = s_max s.
Proof. intros H. unfold step. rewrite H. cbn. eexists. split; [reflexivity|]. repeat split. Qed.

Lemma fwd_prepok s f t id cnt meta :
  nth_error (s_flights s) f = Some (mkFlight t FSent false) ->
  exists s', step s (LPrepOk f id cnt meta) = Some s' /\
    s_flights s' = upd (s_flights s) f (mkFlight t (FOk id cnt meta) false) /\ s_execs s' = s_execs s /\
    s_log s' = EvPrepared f id cnt meta :: s_log s /\ s_cache s' = s_cache s /\ s_max s' = s_max s.
Proof. intros H. unfold step. rewrite H. cbn. eexists. split; [reflexivity|]. repeat split. Qed.

Lemma fwd_close_ok s f t id cnt meta :
  nth_error (s_flights s) f = Some (mkFlight t (FOk id cnt meta) false) ->
  exists s', step s (LClose f) = Some s' /\
    s_flights s' = upd (s_flights s) f (mkFlight t (FOk id cnt meta) true) /\ s_execs s' = s_execs s /\
    s_log s' = s_log s /\ s_cache s' = s_cache s /\ s_max s' = s_max s.
Proof. intros H. unfold step. rewrite H. cbn. eexists. split; [reflexivity|]. repeat split. Qed.

Lemma fwd_wake_ok s e x f t id cnt meta en :
  nth_error (s_execs s) e = Some x -> x_phase x = PWait f ->
  nth_error (s_flights s) f = Some (mkFlight t (FOk id cnt meta) true) ->
  nth_error (x_entries x) (x_pos x) = Some en -> e_nvals en = cnt ->
  exists s', step s (LWake e) = Some s' /\
    s_execs s' = upd (s_execs s) e (mkExec (x_batch x) (x_host x) (x_ks x) (x_entries x) (S (x_pos x))
                                           (x_got x ++ [Some (mkGot (e_stmt en) f id cnt meta)]) PStart) /\
    s_flights s' = s_flights s /\ s_log s' = s_log s /\ s_cache s' = s_cache s /\ s_max s' = s_max s.
Proof.
  intros HX HP HF HE HN. unfold step. rewrite HX, HP, HF, HE. cbn. rewrite HN, Z.eqb_refl.
  eexists. split; [reflexivity|]. repeat split.
Qed.

Lemma fwd_send s e x :
  nth_error (s_execs s) e = Some x -> x_phase x = PStart -> x_pos x = length (x_entries x) ->
  exists s', step s (LSend e) = Some s' /\
    s_execs s' = upd (s_execs s) e (set_phase x PSent) /\ s_flights s' = s_flights s /\
    s_log s' = EvSend e (x_batch x) (x_host x) (x_ks x) (send_items (x_entries x) (x_got x)) :: s_log s /\
    s_cache s' = s_cache s /\ s_max s' = s_max s.
Proof.
  intros HX HP HL. unfold step. rewrite HX, HP, HL. cbn. rewrite Nat.eqb_refl.
  eexists. split; [reflexivity|]. repeat split.
Qed.

Lemma fwd_replyok s e x :
  nth_error (s_execs s) e = Some x -> x_phase x = PSent ->
  exists s', step s (LReplyOk e) = Some s' /\
    s_execs s' = upd (s_execs s) e (set_phase x (PDone ROk)) /\ s_flights s' = s_flights s /\
    s_log s' = EvResult e ROk :: s_log s /\ s_cache s' = s_cache s /\ s_max s' = s_max s.
Proof.
  intros HX HP. unfold step. rewrite HX, HP. cbn. eexists. split; [reflexivity|]. repeat split.
Qed.

(* ---- a failed PREPARE is reported to everyone who waits for it ---- *)
Lemma failure_reported_lemma max ls s e x f fl err :
  run (init max) ls = Some s ->
  nth_error (s_execs s) e = Some x -> x_phase x = PWait f ->
  nth_error (s_flights s) f = Some fl -> fl_done fl = true -> fl_status fl = FFailed err ->
  exists s', step s (LWake e) = Some s' /\
    nth_error (s_execs s') e = Some (set_phase x (PDone (RErr err))) /\
    s_log s' = EvResult e (RErr err) :: s_log s.
Proof.
  intros H HX HP HF HD HS. destruct (inv_reachable _ _ _ H) as [[_ I2 _ _ _ _ _ _] _].
  pose proof (Forall_nth_error _ _ _ _ I2 HX) as [_ [_ W]]. rewrite HP in W.
  destruct W as [fl0 [en [A [B _]]]].
  unfold step. rewrite HX, HP, HF, B, HD, HS. eexists. split; [reflexivity|]. cbn.
  split; [eapply nth_error_upd_eq; eauto|reflexivity].
Qed.

(* an executor leaves the select of prepareStatement only through <-flight.done (with the flight's
   outcome) or through <-ctx.Done() *)
Lemma waiter_leaves_lemma s l s' e x f :
  step s l = Some s' -> nth_error (s_execs s) e = Some x -> x_phase x = PWait f ->
  (nth_error (s_execs s') e = Some x) \/
  (l = LCancel e /\ nth_error (s_execs s') e = Some (set_phase x (PDone RCancelled))) \/
  (l = LWake e /\ exists fl, nth_error (s_flights s) f = Some fl /\ fl_done fl = true /\
     match fl_status fl with
     | FFailed err => nth_error (s_execs s') e = Some (set_phase x (PDone (RErr err)))
     | FOk id cnt meta =>
         exists en, nth_error (x_entries x) (x_pos x) = Some en /\
           if e_nvals en =? cnt
           then nth_error (s_execs s') e = Some (mkExec (x_batch x) (x_host x) (x_ks x) (x_entries x) (S (x_pos x))
                                                        (x_got x ++ [Some (mkGot (e_stmt en) f id cnt meta)]) PStart)
           else nth_error (s_execs s') e = Some (set_phase x (PDone (RCount (x_pos x) cnt (e_nvals en))))
     | _ => False
     end).
Proof.
  intros H HX0 HP0.
  destruct l; step_inv H; cbn [s_execs add_log set_exec set_flight with_execs with_flights with_cache]; rewrite ?evict_execs.
  all: try (left; exact HX0).
  all: try (left; rewrite nth_error_app1; [exact HX0|apply nth_error_Some; congruence]).
  all: try match goal with
       | H1 : nth_error (s_execs _) ?e1 = Some ?x1 |- _ =>
           tryif constr_eq e1 e then fail else
             (destruct (Nat.eq_dec e1 e) as [EE|NE];
              [subst e1; assert (x1 = x) by congruence; subst x1|left; rewrite nth_error_upd_neq by assumption; exact HX0])
       end.
  all: try (exfalso; name_hyps; congruence).
  all: try (exfalso; match goal with Hb : phase_is_start (x_phase _) && _ = true |- _ => rewrite HP0 in Hb; discriminate Hb end).
  all: try (exfalso; match goal with Hb : phase_is_sent (x_phase _) = true |- _ => rewrite HP0 in Hb; discriminate Hb end).
  all: try (match goal with H1 : x_phase _ = PWait ?g |- _ =>
              tryif constr_eq g f then fail else (assert (g = f) by congruence; subst g) end).
  - (* LWake ok, count ok *)
    right. right. split; [reflexivity|].
    eexists. split; [eassumption|]. split; [assumption|].
    match goal with HS : fl_status _ = _ |- _ => rewrite HS end. eexists. split; [eassumption|].
    match goal with HB : (e_nvals _ =? _) = _ |- _ => rewrite HB end. eapply nth_error_upd_eq; eauto.
  - right. right. split; [reflexivity|].
    eexists. split; [eassumption|]. split; [assumption|].
    match goal with HS : fl_status _ = _ |- _ => rewrite HS end. eexists. split; [eassumption|].
    match goal with HB : (e_nvals _ =? _) = _ |- _ => rewrite HB end. eapply nth_error_upd_eq; eauto.
  - right. right. split; [reflexivity|].
    eexists. split; [eassumption|]. split; [assumption|].
    match goal with HS : fl_status _ = _ |- _ => rewrite HS end. eapply nth_error_upd_eq; eauto.
  - (* LCancel *)
    right. left. split; [reflexivity|]. eapply nth_error_upd_eq; eauto.
Qed.

(* a wrong number of bound values is an error, and nothing is sent: the executor is finished *)
Lemma count_mismatch_lemma s e x f fl id cnt meta en :
  nth_error (s_execs s) e = Some x -> x_phase x = PWait f ->
  nth_error (s_flights s) f = Some fl -> fl_done fl = true -> fl_status fl = FOk id cnt meta ->
  nth_error (x_entries x) (x_pos x) = Some en -> e_nvals en <> cnt ->
  exists s', step s (LWake e) = Some s' /\
    nth_error (s_execs s') e = Some (set_phase x (PDone (RCount (x_pos x) cnt (e_nvals en)))) /\
    s_log s' = EvResult e (RCount (x_pos x) cnt (e_nvals en)) :: s_log s.
Proof.
  intros HX HP HF HD HS HE HN. unfold step. rewrite HX, HP, HF, HE, HD, HS.
  destruct (Z.eqb_spec (e_nvals en) cnt) as [E|_]; [contradiction|].
  eexists. split; [reflexivity|]. cbn. split; [eapply nth_error_upd_eq; eauto|reflexivity].
Qed.

Lemma done_is_final s l s' e x r :
  step s l = Some s' -> nth_error (s_execs s) e = Some x -> x_phase x = PDone r ->
  nth_error (s_execs s') e = Some x /\ l <> LSend e.
Proof.
  intros H HX HP. split.
  - destruct l; step_inv H; cbn [s_execs add_log set_exec set_flight with_execs with_flights with_cache]; rewrite ?evict_execs.
    all: try exact HX.
    all: try (rewrite nth_error_app1; [exact HX|apply nth_error_Some; congruence]).
    all: match goal with
       | H1 : nth_error (s_execs _) ?e1 = Some ?x1 |- _ =>
           tryif constr_eq e1 e then fail else
             (destruct (Nat.eq_dec e1 e) as [EE|NE];
              [subst e1; assert (x1 = x) by congruence; subst x1|rewrite nth_error_upd_neq by assumption; exact HX])
       end.
    all: try (exfalso; name_hyps; congruence).
    all: try (exfalso; match goal with Hb : phase_is_start (x_phase _) && _ = true |- _ => rewrite HP in Hb; discriminate Hb end).
    all: try (exfalso; match goal with Hb : phase_is_sent (x_phase _) = true |- _ => rewrite HP in Hb; discriminate Hb end).
  - intros ->. unfold step in H. rewrite HX, HP in H. discriminate H.
Qed.
