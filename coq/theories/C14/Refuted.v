(* C14/Refuted.v -- machine-checked witnesses for statements the faithful model does NOT satisfy,
   and observations about the real code's behaviour that lie outside the property's statement.
   None of these is a finding against the property text (see the comments). *)
From GocqlV Require Import Lib.Base C14.Model C14.Spec.

(* keyFor concatenates without separators: in general two different (host, keyspace, statement)
   triples share a cache key.  Not reachable within one session (one keyspace per session, host ids are
   36-character UUID strings: Props.C14_key_for_injective / C14_id_belongs_to_statement). *)
Theorem key_for_collision_general_refuted :
  exists t1 t2, t1 <> t2 /\ t_host t1 = t_host t2 /\ key_for t1 = key_for t2.
Proof.
  exists (mkTriple [104] [97; 98] [99]), (mkTriple [104] [97] [98; 99]).
  split; [discriminate|]. split; reflexivity.
Qed.

(* The unconditional "overlapping executions of one statement cause one PREPARE" does not hold for a
   bounded cache: an in-flight entry can be evicted by capacity, and `remove(key)` after a failure removes
   whatever entry is under the key, also a younger flight of the same statement.  The run below (capacity 1,
   statements A and B on one host) ends with two PREPAREs of A in flight at the same time although the
   second one's entry was never evicted by capacity: flight 0 (A) is pushed out by B, A is looked up
   again (flight 2), flight 0 fails and its remove(key) deletes flight 2's entry, the next execution
   of A starts flight 3.  What does hold for every run is Props.C14_single_flight: PREPAREs of a key
   <= 1 + number of times its entry left the cache. *)
Definition hA : key := [104].
Definition ksA : key := [107].
Definition stA : key := [65].
Definition stB : key := [66].
Definition overlap_run : list label :=
  [LSpawn false hA ksA [mkEntry stA true 1];       (* executor 0: A *)
   LSpawn false hA ksA [mkEntry stB true 1];       (* executor 1: B *)
   LSpawn false hA ksA [mkEntry stA true 1];       (* executor 2: A *)
   LSpawn false hA ksA [mkEntry stA true 1];       (* executor 3: A *)
   LLookup 0; LPrepSend 0;                         (* flight 0 = A *)
   LLookup 1; LPrepSend 1;                         (* flight 1 = B, evicts A (capacity 1) *)
   LLookup 2; LPrepSend 2;                         (* flight 2 = A again, evicts B *)
   LPrepFail 0 9;                                  (* flight 0 fails: remove(key A) deletes flight 2's entry *)
   LLookup 3; LPrepSend 3].                        (* flight 3 = A while flight 2 is still in flight *)

Theorem overlapping_prepares_observation :
  exists s, run (init 1) overlap_run = Some s /\
    (exists t, nth_error (s_flights s) 2 = Some (mkFlight t FSent false) /\
               nth_error (s_flights s) 3 = Some (mkFlight t FSent false)) /\
    In (EvGone (key_for (mkTriple hA ksA stA)) 2 1) (s_log s).
Proof.
  eexists. split; [vm_compute; reflexivity|]. split.
  - eexists. split; vm_compute; reflexivity.
  - vm_compute. tauto.
Qed.
