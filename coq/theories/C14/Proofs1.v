(* C14/Proofs1.v -- facts about the list model of internal/lru for an arbitrary value type, and
   small list lemmas used by the protocol proofs. *)
From GocqlV Require Import Lib.Base C14.Model.

Lemma key_eqb_eq a b : key_eqb a b = true <-> a = b.
Proof. apply zlist_eqb_eq. Qed.

Lemma key_eqb_refl a : key_eqb a a = true.
Proof. apply key_eqb_eq. reflexivity. Qed.

Lemma key_eqb_neq a b : key_eqb a b = false <-> a <> b.
Proof.
  split.
  - intros H E. apply key_eqb_eq in E. congruence.
  - intros H. destruct (key_eqb a b) eqn:E; [|reflexivity]. apply key_eqb_eq in E. contradiction.
Qed.

Lemma key_eqb_sym a b : key_eqb a b = key_eqb b a.
Proof.
  destruct (key_eqb a b) eqn:E.
  - apply key_eqb_eq in E. subst. symmetry. apply key_eqb_refl.
  - apply key_eqb_neq in E. symmetry. apply key_eqb_neq. congruence.
Qed.

(* ---- nth_error / upd ---- *)

Lemma nth_error_upd_eq {A} (l : list A) i v x : nth_error l i = Some x -> nth_error (upd l i v) i = Some v.
Proof. revert i; induction l as [|y l IH]; intros [|i] H; simpl in *; try discriminate; auto. Qed.

Lemma nth_error_upd_neq {A} (l : list A) i j v : i <> j -> nth_error (upd l i v) j = nth_error l j.
Proof.
  revert i j; induction l as [|y l IH]; intros [|i] [|j] H; simpl; try reflexivity; try congruence.
  apply IH. congruence.
Qed.

Lemma nth_error_upd {A} (l : list A) i j v :
  nth_error (upd l i v) j = if (i =? j)%nat then (match nth_error l i with Some _ => Some v | None => None end) else nth_error l j.
Proof.
  destruct (Nat.eqb_spec i j) as [->|N].
  - destruct (nth_error l j) eqn:E.
    + eapply nth_error_upd_eq; eauto.
    + apply nth_error_None. rewrite upd_length. apply nth_error_None. assumption.
  - apply nth_error_upd_neq. assumption.
Qed.

Lemma nth_error_app_last {A} (l : list A) x : nth_error (l ++ [x]) (length l) = Some x.
Proof. rewrite nth_error_app2 by lia. rewrite Nat.sub_diag. reflexivity. Qed.

Lemma nth_error_app_old {A} (l : list A) x i y : nth_error l i = Some y -> nth_error (l ++ [x]) i = Some y.
Proof. intros H. rewrite nth_error_app1; [assumption|]. apply nth_error_Some. congruence. Qed.

Lemma nth_error_app_inv {A} (l : list A) x i y :
  nth_error (l ++ [x]) i = Some y -> nth_error l i = Some y \/ (i = length l /\ y = x).
Proof.
  intros H. destruct (Nat.lt_ge_cases i (length l)) as [L|G].
  - rewrite nth_error_app1 in H by assumption. auto.
  - rewrite nth_error_app2 in H by assumption.
    destruct (i - length l)%nat as [|n] eqn:E; simpl in H.
    + right. split; [lia|congruence].
    + destruct n; discriminate.
Qed.

Lemma Forall_upd {A} (P : A -> Prop) (l : list A) i v : Forall P l -> P v -> Forall P (upd l i v).
Proof.
  intros H Hv. revert i. induction H as [|y l Hy Hl IH]; intros [|i]; simpl; constructor; auto.
Qed.

Lemma Forall_nth_error {A} (P : A -> Prop) (l : list A) i x : Forall P l -> nth_error l i = Some x -> P x.
Proof. intros H E. rewrite Forall_forall in H. apply H. eapply nth_error_In; eauto. Qed.

(* ---- the LRU list ---- *)

Section LruFacts.
  Context {V : Type}.
  Implicit Types (l : @cache V) (k : key) (v : V).

  (* number of entries with key k (0 or 1 when the keys are distinct) *)
  Fixpoint cnt_key k l : nat :=
    match l with
    | [] => O
    | (k', _) :: r => (if key_eqb k k' then 1 else 0) + cnt_key k r
    end.

  Lemma cnt_key_app k l1 l2 : cnt_key k (l1 ++ l2) = (cnt_key k l1 + cnt_key k l2)%nat.
  Proof. induction l1 as [|[k' v'] r IH]; simpl; [reflexivity|]. rewrite IH. lia. Qed.

  Lemma lookup_In k l v : lookup k l = Some v -> In (k, v) l.
  Proof.
    induction l as [|[k' v'] r IH]; simpl; [discriminate|].
    destruct (key_eqb k k') eqn:E.
    - intros H. inversion H; subst. apply key_eqb_eq in E. subst. left. reflexivity.
    - intros H. right. auto.
  Qed.

  Lemma lookup_None_notin k l : lookup k l = None -> ~ In k (map fst l).
  Proof.
    induction l as [|[k' v'] r IH]; simpl; [tauto|].
    destruct (key_eqb k k') eqn:E; [discriminate|].
    intros H [H1|H1]; [apply key_eqb_neq in E; congruence|]. apply IH; assumption.
  Qed.

  Lemma notin_lookup_None k l : ~ In k (map fst l) -> lookup k l = None.
  Proof.
    induction l as [|[k' v'] r IH]; simpl; [reflexivity|].
    intros H. destruct (key_eqb k k') eqn:E.
    - apply key_eqb_eq in E. subst. tauto.
    - apply IH. tauto.
  Qed.

  Lemma lookup_Some_in k l v : lookup k l = Some v -> In k (map fst l).
  Proof. intros H. apply lookup_In in H. apply (in_map fst) in H. exact H. Qed.

  Lemma In_lookup k v l : NoDup (map fst l) -> In (k, v) l -> lookup k l = Some v.
  Proof.
    induction l as [|[k' v'] r IH]; simpl; [tauto|].
    intros ND [H|H].
    - inversion H; subst. rewrite key_eqb_refl. reflexivity.
    - inversion ND as [|? ? N1 N2]; subst.
      destruct (key_eqb k k') eqn:E.
      + apply key_eqb_eq in E. subst. exfalso. apply N1. apply (in_map fst) in H. exact H.
      + auto.
  Qed.

  Lemma cnt_key_lookup_None k l : lookup k l = None -> cnt_key k l = O.
  Proof.
    induction l as [|[k' v'] r IH]; simpl; [reflexivity|].
    destruct (key_eqb k k'); [discriminate|]. auto.
  Qed.

  Lemma cnt_key_lookup_Some k l v : lookup k l = Some v -> (1 <= cnt_key k l)%nat.
  Proof.
    induction l as [|[k' v'] r IH]; simpl; [discriminate|].
    destruct (key_eqb k k'); [lia|]. intros H. apply IH in H. lia.
  Qed.

  Lemma cnt_key_notin k l : ~ In k (map fst l) -> cnt_key k l = O.
  Proof. intros H. apply cnt_key_lookup_None. apply notin_lookup_None. assumption. Qed.

  Lemma cnt_key_nodup k l : NoDup (map fst l) -> (cnt_key k l <= 1)%nat.
  Proof.
    induction l as [|[k' v'] r IH]; simpl; [lia|].
    intros ND. inversion ND as [|? ? N1 N2]; subst.
    destruct (key_eqb k k') eqn:E.
    - apply key_eqb_eq in E. subst. rewrite (cnt_key_notin k' r) by assumption. lia.
    - specialize (IH N2). lia.
  Qed.

  Lemma remove_key_In k l kv : In kv (remove_key k l) -> In kv l.
  Proof.
    induction l as [|[k' v'] r IH]; simpl; [tauto|].
    destruct (key_eqb k k'); simpl; [auto|]. intros [H|H]; auto.
  Qed.

  Lemma remove_key_keys_in k l k' : In k' (map fst (remove_key k l)) -> In k' (map fst l).
  Proof.
    intros H. apply in_map_iff in H. destruct H as [kv [E H]]. apply remove_key_In in H.
    subst. apply in_map. assumption.
  Qed.

  Lemma remove_key_nodup k l : NoDup (map fst l) -> NoDup (map fst (remove_key k l)).
  Proof.
    induction l as [|[k' v'] r IH]; simpl; [auto|].
    intros ND. inversion ND as [|? ? N1 N2]; subst.
    destruct (key_eqb k k'); simpl; [assumption|].
    constructor; [|auto]. intros H. apply N1. eapply remove_key_keys_in; eauto.
  Qed.

  Lemma remove_key_notin k l : NoDup (map fst l) -> ~ In k (map fst (remove_key k l)).
  Proof.
    induction l as [|[k' v'] r IH]; simpl; [tauto|].
    intros ND. inversion ND as [|? ? N1 N2]; subst.
    destruct (key_eqb k k') eqn:E; simpl.
    - apply key_eqb_eq in E. subst. assumption.
    - intros [H|H]; [apply key_eqb_neq in E; congruence|]. apply IH; assumption.
  Qed.

  Lemma lookup_remove_key_other k k' l : k' <> k -> lookup k' (remove_key k l) = lookup k' l.
  Proof.
    intros N. induction l as [|[k2 v2] r IH]; simpl; [reflexivity|].
    destruct (key_eqb k k2) eqn:E; simpl.
    - apply key_eqb_eq in E. subst. destruct (key_eqb k' k2) eqn:E2; [apply key_eqb_eq in E2; congruence|reflexivity].
    - rewrite IH. reflexivity.
  Qed.

  Lemma remove_key_length k l v : lookup k l = Some v -> S (length (remove_key k l)) = length l.
  Proof.
    induction l as [|[k' v'] r IH]; simpl; [discriminate|].
    destruct (key_eqb k k'); simpl; [reflexivity|]. intros H. rewrite IH by assumption. reflexivity.
  Qed.

  Lemma remove_key_absent k l : lookup k l = None -> remove_key k l = l.
  Proof.
    induction l as [|[k' v'] r IH]; simpl; [reflexivity|].
    destruct (key_eqb k k'); [discriminate|]. intros H. rewrite IH by assumption. reflexivity.
  Qed.

  Lemma cnt_key_remove_key k k' l v :
    lookup k l = Some v -> (cnt_key k' (remove_key k l) + (if key_eqb k' k then 1 else 0) = cnt_key k' l)%nat.
  Proof.
    induction l as [|[k2 v2] r IH]; simpl; [discriminate|].
    destruct (key_eqb k k2) eqn:E.
    - intros _. apply key_eqb_eq in E. subst. lia.
    - intros H. simpl. specialize (IH H). lia.
  Qed.

  Lemma split_last_app l r x : split_last l = Some (r, x) -> l = r ++ [x].
  Proof.
    revert r x. induction l as [|y l IH]; simpl; [discriminate|].
    intros r x. destruct (split_last l) as [[r' z]|] eqn:E.
    - intros H. inversion H; subst. simpl. f_equal. apply IH. reflexivity.
    - intros H. inversion H; subst. destruct l; [reflexivity|]. simpl in E. destruct (split_last l) as [[? ?]|]; discriminate.
  Qed.

  Lemma split_last_None l : split_last l = None -> l = [].
  Proof. destruct l as [|y l]; [reflexivity|]. simpl. destruct (split_last l) as [[? ?]|]; discriminate. Qed.

  (* ---- RemoveOldest ---- *)
  Lemma lru_remove_oldest_spec l c ev :
    lru_remove_oldest l = (c, ev) -> l = c ++ ev /\ (length ev <= 1)%nat /\ (l <> [] -> length ev = 1%nat).
  Proof.
    unfold lru_remove_oldest. destruct (split_last l) as [[r x]|] eqn:E; intros H; inversion H; subst.
    - apply split_last_app in E. subst. simpl. repeat split; auto.
    - apply split_last_None in E. subst. simpl. repeat split; auto. congruence.
  Qed.

  Lemma nodup_app_l {A} (a b : list A) : NoDup (a ++ b) -> NoDup a.
  Proof. induction a as [|x a IH]; simpl; [constructor|]. intros H. inversion H; subst. constructor; [rewrite in_app_iff in *; tauto|auto]. Qed.

  (* ---- Add ---- *)
  Lemma lru_add_hit max l k v v0 : lookup k l = Some v0 -> lru_add max l k v = ((k, v) :: remove_key k l, []).
  Proof. intros H. unfold lru_add. rewrite H. reflexivity. Qed.

  Lemma lru_add_miss_spec max l k v c ev :
    lookup k l = None -> lru_add max l k v = (c, ev) ->
    (k, v) :: l = c ++ ev /\ (length ev <= 1)%nat.
  Proof.
    intros H. unfold lru_add. rewrite H.
    destruct (negb (max =? 0) && (Z.of_nat (length ((k, v) :: l)) >? max)).
    - intros E. apply lru_remove_oldest_spec in E. tauto.
    - intros E. inversion E; subst. rewrite app_nil_r. split; [reflexivity|simpl; lia].
  Qed.

  Lemma lru_add_nodup max l k v c ev : NoDup (map fst l) -> lru_add max l k v = (c, ev) -> NoDup (map fst c).
  Proof.
    intros ND E. destruct (lookup k l) as [v0|] eqn:L.
    - rewrite (lru_add_hit _ _ _ _ _ L) in E. inversion E; subst. simpl. constructor.
      + apply remove_key_notin. assumption.
      + apply remove_key_nodup. assumption.
    - pose proof (lru_add_miss_spec _ _ _ _ _ _ L E) as [E1 _].
      assert (ND1 : NoDup (map fst ((k, v) :: l))).
      { simpl. constructor; [apply lookup_None_notin; assumption|assumption]. }
      rewrite E1, map_app in ND1. eapply nodup_app_l; eauto.
  Qed.

  Lemma lru_add_bound max l k v c ev :
    0 < max -> Z.of_nat (length l) <= max -> lru_add max l k v = (c, ev) -> Z.of_nat (length c) <= max.
  Proof.
    intros Hm Hl E. destruct (lookup k l) as [v0|] eqn:L.
    - rewrite (lru_add_hit _ _ _ _ _ L) in E. inversion E; subst. simpl length.
      rewrite (remove_key_length _ _ _ L). assumption.
    - unfold lru_add in E. rewrite L in E.
      destruct (negb (max =? 0) && (Z.of_nat (length ((k, v) :: l)) >? max)) eqn:B.
      + apply lru_remove_oldest_spec in E. destruct E as [E1 [E2 E3]].
        assert (length ev = 1%nat) by (apply E3; discriminate).
        assert (length ((k, v) :: l) = (length c + length ev)%nat) by (rewrite E1, app_length; reflexivity).
        simpl in *. lia.
      + inversion E; subst. apply andb_false_iff in B. destruct B as [B|B]; simpl in *; lia.
  Qed.

  Lemma lru_add_in max l k v c ev kv : lru_add max l k v = (c, ev) -> In kv c -> kv = (k, v) \/ In kv l.
  Proof.
    intros E H. destruct (lookup k l) as [v0|] eqn:L.
    - rewrite (lru_add_hit _ _ _ _ _ L) in E. inversion E; subst. destruct H as [H|H]; [auto|].
      right. eapply remove_key_In; eauto.
    - pose proof (lru_add_miss_spec _ _ _ _ _ _ L E) as [E1 _].
      assert (In kv ((k, v) :: l)) by (rewrite E1; apply in_or_app; auto).
      simpl in *. destruct H0; auto.
  Qed.

  Lemma lru_add_ev_in max l k v c ev kv : lookup k l = None -> lru_add max l k v = (c, ev) -> In kv ev -> kv = (k, v) \/ In kv l.
  Proof.
    intros L E H. pose proof (lru_add_miss_spec _ _ _ _ _ _ L E) as [E1 _].
    assert (In kv ((k, v) :: l)) by (rewrite E1; apply in_or_app; auto).
    simpl in *. destruct H0; auto.
  Qed.

  Lemma lru_add_miss_cnt max l k v c ev k' :
    lookup k l = None -> lru_add max l k v = (c, ev) ->
    (cnt_key k' c + cnt_key k' ev = (if key_eqb k' k then 1 else 0) + cnt_key k' l)%nat.
  Proof.
    intros L E. pose proof (lru_add_miss_spec _ _ _ _ _ _ L E) as [E1 _].
    rewrite <- cnt_key_app, <- E1. reflexivity.
  Qed.

  (* ---- Get ---- *)
  Lemma lru_get_miss l k : lookup k l = None -> lru_get l k = (l, None).
  Proof. intros H. unfold lru_get. rewrite H. reflexivity. Qed.

  Lemma lru_get_hit l k v : lookup k l = Some v -> lru_get l k = ((k, v) :: remove_key k l, Some v).
  Proof. intros H. unfold lru_get. rewrite H. reflexivity. Qed.

  Lemma lru_get_result l k c r : lru_get l k = (c, r) -> r = lookup k l.
  Proof. unfold lru_get. destruct (lookup k l); intros H; inversion H; reflexivity. Qed.

  Lemma lru_get_nodup l k c r : NoDup (map fst l) -> lru_get l k = (c, r) -> NoDup (map fst c).
  Proof.
    intros ND. unfold lru_get. destruct (lookup k l) eqn:L; intros H; inversion H; subst; [|assumption].
    simpl. constructor; [apply remove_key_notin; assumption|apply remove_key_nodup; assumption].
  Qed.

  Lemma lru_get_length l k c r : lru_get l k = (c, r) -> length c = length l.
  Proof.
    unfold lru_get. destruct (lookup k l) eqn:L; intros H; inversion H; subst; [|reflexivity].
    simpl. apply remove_key_length with (v := v). assumption.
  Qed.

  Lemma lru_get_in l k c r kv : lru_get l k = (c, r) -> In kv c -> In kv l.
  Proof.
    unfold lru_get. destruct (lookup k l) eqn:L; intros H; inversion H; subst; [|auto].
    intros [H1|H1]; [subst; apply lookup_In; assumption|eapply remove_key_In; eauto].
  Qed.

  Lemma lru_get_lookup l k c r k' : NoDup (map fst l) -> lru_get l k = (c, r) -> lookup k' c = lookup k' l.
  Proof.
    intros ND. unfold lru_get. destruct (lookup k l) eqn:L; intros H; inversion H; subst; [|reflexivity].
    simpl. destruct (key_eqb k' k) eqn:E.
    - apply key_eqb_eq in E. subst. symmetry. assumption.
    - apply lookup_remove_key_other. apply key_eqb_neq. assumption.
  Qed.

  Lemma lru_get_cnt l k c r k' : lru_get l k = (c, r) -> cnt_key k' c = cnt_key k' l.
  Proof.
    unfold lru_get. destruct (lookup k l) eqn:L; intros H; inversion H; subst; [|reflexivity].
    simpl. pose proof (cnt_key_remove_key k k' l v L). lia.
  Qed.

  (* ---- Remove ---- *)
  Lemma lru_remove_nodup l k c ev : NoDup (map fst l) -> lru_remove l k = (c, ev) -> NoDup (map fst c).
  Proof.
    intros ND. unfold lru_remove. destruct (lookup k l) eqn:L; intros H; inversion H; subst; [|assumption].
    apply remove_key_nodup. assumption.
  Qed.

  Lemma lru_remove_length l k c ev : lru_remove l k = (c, ev) -> (length c <= length l)%nat.
  Proof.
    unfold lru_remove. destruct (lookup k l) eqn:L; intros H; inversion H; subst; [|lia].
    pose proof (remove_key_length _ _ _ L). lia.
  Qed.

  Lemma lru_remove_in l k c ev kv : lru_remove l k = (c, ev) -> In kv c -> In kv l.
  Proof.
    unfold lru_remove. destruct (lookup k l) eqn:L; intros H; inversion H; subst; [|auto].
    apply remove_key_In.
  Qed.

  Lemma lru_remove_gone l k c ev : NoDup (map fst l) -> lru_remove l k = (c, ev) -> lookup k c = None.
  Proof.
    intros ND. unfold lru_remove. destruct (lookup k l) eqn:L; intros H; inversion H; subst; [|assumption].
    apply notin_lookup_None. apply remove_key_notin. assumption.
  Qed.

  Lemma lru_remove_other l k c ev k' : k' <> k -> lru_remove l k = (c, ev) -> lookup k' c = lookup k' l.
  Proof.
    intros N. unfold lru_remove. destruct (lookup k l) eqn:L; intros H; inversion H; subst; [|reflexivity].
    apply lookup_remove_key_other. assumption.
  Qed.

  Lemma lru_remove_ev l k c ev : lru_remove l k = (c, ev) -> ev = match lookup k l with Some v => [(k, v)] | None => [] end.
  Proof. unfold lru_remove. destruct (lookup k l); intros H; inversion H; reflexivity. Qed.

  Lemma lru_remove_cnt l k c ev k' : lru_remove l k = (c, ev) -> (cnt_key k' c + cnt_key k' ev = cnt_key k' l)%nat.
  Proof.
    unfold lru_remove. destruct (lookup k l) eqn:L; intros H; inversion H; subst.
    - simpl. pose proof (cnt_key_remove_key k k' l v L). lia.
    - simpl. lia.
  Qed.
End LruFacts.
