(* C14/Proofs4.v -- invariants of the single-flight transition system, part 3: the history.
   Every prepared id an executor puts into an EXECUTE / BATCH frame was returned earlier by the server
   for a PREPARE with the cache key of that statement, and the frame has as many values as that answer
   has bind columns; evictPreparedID never dereferences a nil result. *)
From GocqlV Require Import Lib.Base C14.Model C14.Proofs1 C14.Proofs2 C14.Proofs3.

(* the log is newest first *)
Definition prepare_in (L : list event) (f : nat) (t : triple) : Prop :=
  exists l2 l1, L = l2 ++ EvPrepare f t :: l1.

Definition returned_in (L : list event) (f : nat) (t : triple) (id : list Z) (cnt meta : Z) : Prop :=
  exists l3 l2 l1, L = l3 ++ EvPrepared f id cnt meta :: l2 ++ EvPrepare f t :: l1.

Lemma prepare_in_app evs L f t : prepare_in L f t -> prepare_in (evs ++ L) f t.
Proof. intros [l2 [l1 E]]. exists (evs ++ l2), l1. rewrite E, app_assoc. reflexivity. Qed.

Lemma returned_in_app evs L f t id c m : returned_in L f t id c m -> returned_in (evs ++ L) f t id c m.
Proof. intros [l3 [l2 [l1 E]]]. exists (evs ++ l3), l2, l1. rewrite E, app_assoc. reflexivity. Qed.

Lemma prepare_in_cons ev L f t : prepare_in L f t -> prepare_in (ev :: L) f t.
Proof. apply (prepare_in_app [ev]). Qed.

Lemma returned_in_cons ev L f t id c m : returned_in L f t id c m -> returned_in (ev :: L) f t id c m.
Proof. apply (returned_in_app [ev]). Qed.

Definition flights_logged (s : state) : Prop :=
  forall f fl, nth_error (s_flights s) f = Some fl ->
    match fl_status fl with
    | FSent => prepare_in (s_log s) f (fl_triple fl)
    | FOk id cnt meta => returned_in (s_log s) f (fl_triple fl) id cnt meta
    | _ => True
    end.

Definition item_ok (L1 : list event) (host ks : key) (it : key * option (list Z * Z) * Z) : Prop :=
  match it with
  | (st, Some (id, meta), n) => exists f t, key_for t = key_for (mkTriple host ks st) /\ returned_in L1 f t id n meta
  | _ => True
  end.

Fixpoint sends_ok (L : list event) : Prop :=
  match L with
  | [] => True
  | ev :: L1 =>
      match ev with
      | EvSend e b host ks items => Forall (item_ok L1 host ks) items
      | _ => True
      end /\ sends_ok L1
  end.

Definition is_send (ev : event) : bool := match ev with EvSend _ _ _ _ _ => true | _ => false end.

Lemma sends_ok_app evs L : forallb (fun ev => negb (is_send ev)) evs = true -> sends_ok L -> sends_ok (evs ++ L).
Proof.
  induction evs as [|ev evs IH]; simpl; [auto|].
  intros H HL. apply andb_true_iff in H. destruct H as [H1 H2]. split; [|auto].
  destruct ev; simpl in H1; try exact Logic.I. discriminate.
Qed.

Lemma gone_events_nosend why ev : forallb (fun ev => negb (is_send ev)) (gone_events why ev) = true.
Proof. induction ev as [|x r IH]; simpl; auto. Qed.

Lemma forallb_app_true {A} (p : A -> bool) a b : forallb p a = true -> forallb p b = true -> forallb p (a ++ b) = true.
Proof. intros. rewrite forallb_app. rewrite H, H0. reflexivity. Qed.

Lemma forallb_rev_true {A} (p : A -> bool) a : forallb p a = true -> forallb p (rev a) = true.
Proof.
  intros H. rewrite forallb_forall in *. intros x Hx. apply H. apply in_rev. assumption.
Qed.

(* ---- the history only grows ---- *)
Definition log_extends (s s' : state) : Prop := exists evs, s_log s' = evs ++ s_log s.

Lemma evict_log_extends s k id : log_extends s (evict_prepared_id s k id).
Proof.
  destruct (evict_cases s k id) as [c r _ _ E _|c f fl cnt meta c' ev _ _ _ _ _ _ E|c f fl _ _ _ _ _ E].
  - exists []. rewrite E. reflexivity.
  - exists (gone_events 2 ev). assumption.
  - exists [EvPanic]. rewrite E. reflexivity.
Qed.

Lemma step_log_extends s l s' : step s l = Some s' -> log_extends s s'.
Proof.
  intros H. destruct l; step_inv H; unfold log_extends; cbn.
  all: try (exists []; reflexivity).
  all: try match goal with
       | |- exists evs, ?a :: ?L = evs ++ ?L => exists [a]; reflexivity
       | |- exists evs, ?x ++ ?L = evs ++ ?L => exists x; reflexivity
       end.
  all: apply evict_log_extends.
Qed.

(* ---- flights_logged ---- *)
Lemma flights_logged_init max : flights_logged (init max).
Proof. intros f fl H. destruct f; discriminate. Qed.

Lemma flights_logged_same s s' :
  s_flights s' = s_flights s -> log_extends s s' -> flights_logged s -> flights_logged s'.
Proof.
  intros EF [evs EL] FL f fl H. rewrite EF in H. specialize (FL f fl H). rewrite EL.
  destruct (fl_status fl); auto using prepare_in_app, returned_in_app.
Qed.

Lemma flights_logged_step s l s' : flights_logged s -> step s l = Some s' -> flights_logged s'.
Proof.
  intros FL H. pose proof (step_log_extends _ _ _ H) as LE.
  destruct l; step_inv H.
  all: try (eapply flights_logged_same; [|exact LE|exact FL]; cbn; rewrite ?evict_flights; reflexivity).
  - (* LLookup miss: a new flight, FCreated *)
    intros f fl Hf. cbn in Hf. apply nth_error_app_inv in Hf. destruct Hf as [Hf|[_ ->]]; [|exact Logic.I].
    specialize (FL f fl Hf). cbn [s_log add_log]. cbn.
    destruct (fl_status fl); auto using prepare_in_app, returned_in_app.
  - (* LPrepSend *)
    name_hyps. intros f' fl' Hf. cbn in Hf. rewrite nth_error_upd in Hf.
    destruct (Nat.eqb_spec f f') as [<-|N].
    + rewrite HF in Hf. inversion Hf; subst fl'. cbn. exists [], (s_log s). reflexivity.
    + specialize (FL f' fl' Hf). cbn.
      destruct (fl_status fl'); auto using prepare_in_cons, returned_in_cons.
  - (* LPrepOk *)
    name_hyps. intros f' fl' Hf. cbn in Hf. rewrite nth_error_upd in Hf.
    destruct (Nat.eqb_spec f f') as [<-|N].
    + rewrite HF in Hf. inversion Hf; subst fl'. cbn.
      specialize (FL f f0 HF). rewrite HS in FL. destruct FL as [l2 [l1 E]].
      exists [], l2, l1. cbn. rewrite E. reflexivity.
    + specialize (FL f' fl' Hf). cbn.
      destruct (fl_status fl'); auto using prepare_in_cons, returned_in_cons.
  - (* LPrepFail, FCreated *)
    name_hyps. intros f' fl' Hf. cbn in Hf. rewrite nth_error_upd in Hf.
    destruct (Nat.eqb_spec f f') as [<-|N].
    + rewrite HF in Hf. inversion Hf; subst fl'. exact Logic.I.
    + specialize (FL f' fl' Hf). cbn [s_log add_log].
      destruct (fl_status fl'); auto using prepare_in_app, returned_in_app.
  - (* LPrepFail, FSent *)
    name_hyps. intros f' fl' Hf. cbn in Hf. rewrite nth_error_upd in Hf.
    destruct (Nat.eqb_spec f f') as [<-|N].
    + rewrite HF in Hf. inversion Hf; subst fl'. exact Logic.I.
    + specialize (FL f' fl' Hf). cbn [s_log add_log].
      destruct (fl_status fl'); auto using prepare_in_app, returned_in_app.
  - (* LClose FOk *)
    name_hyps. intros f' fl' Hf. cbn in Hf. rewrite nth_error_upd in Hf.
    destruct (Nat.eqb_spec f f') as [<-|N].
    + rewrite HF in Hf. inversion Hf; subst fl'. cbn. specialize (FL f f0 HF). rewrite HS in FL. exact FL.
    + exact (FL f' fl' Hf).
  - (* LClose FFailed *)
    name_hyps. intros f' fl' Hf. cbn in Hf. rewrite nth_error_upd in Hf.
    destruct (Nat.eqb_spec f f') as [<-|N].
    + rewrite HF in Hf. inversion Hf; subst fl'. exact Logic.I.
    + exact (FL f' fl' Hf).
Qed.

(* ---- sends_ok ---- *)
Definition nosend (evs : list event) : Prop := forallb (fun ev => negb (is_send ev)) evs = true.

Lemma evict_log_nosend s k id : exists evs, s_log (evict_prepared_id s k id) = evs ++ s_log s /\ nosend evs.
Proof.
  destruct (evict_cases s k id) as [c r _ _ E _|c f fl cnt meta c' ev _ _ _ _ _ _ E|c f fl _ _ _ _ _ E].
  - exists []. rewrite E. split; reflexivity.
  - exists (gone_events 2 ev). split; [assumption|apply gone_events_nosend].
  - exists [EvPanic]. rewrite E. split; reflexivity.
Qed.

Lemma step_log_shape s l s' :
  step s l = Some s' ->
  (exists evs, s_log s' = evs ++ s_log s /\ nosend evs) \/
  (exists e x, l = LSend e /\ nth_error (s_execs s) e = Some x /\ x_pos x = length (x_entries x) /\
               s_log s' = EvSend e (x_batch x) (x_host x) (x_ks x) (send_items (x_entries x) (x_got x)) :: s_log s).
Proof.
  intros H. destruct l; step_inv H; cbn.
  all: try (left; exists []; split; reflexivity).
  all: try (left; match goal with
       | |- exists evs, ?a :: ?L = evs ++ ?L /\ _ => exists [a]; split; reflexivity
       end).
  - (* LLookup miss *)
    left. eexists. split; [reflexivity|]. unfold nosend. apply forallb_app_true; [|reflexivity].
    apply forallb_rev_true. apply gone_events_nosend.
  - (* LPrepFail *)
    left. eexists. split; [reflexivity|]. unfold nosend. apply forallb_app_true; [|reflexivity].
    apply forallb_rev_true. apply gone_events_nosend.
  - left. eexists. split; [reflexivity|]. unfold nosend. apply forallb_app_true; [|reflexivity].
    apply forallb_rev_true. apply gone_events_nosend.
  - (* LSend *)
    right. name_hyps. exists e, e0. split; [reflexivity|]. split; [assumption|].
    apply andb_true_iff in Heqb. destruct Heqb as [_ B]. apply Nat.eqb_eq in B. split; [assumption|reflexivity].
  - left. apply evict_log_nosend.
  - left. apply evict_log_nosend.
Qed.

Lemma send_items_ok F L host ks ens gs :
  (forall f fl, nth_error F f = Some fl ->
     forall id cnt meta, fl_status fl = FOk id cnt meta -> returned_in L f (fl_triple fl) id cnt meta) ->
  Forall2 (got_ok F host ks) ens gs -> Forall (item_ok L host ks) (send_items ens gs).
Proof.
  intros FL H. induction H as [|en og ens gs H1 H2 IH]; simpl; constructor; [|assumption].
  destruct og as [g|]; simpl; [|exact Logic.I].
  destruct H1 as [_ [_ [HN [fl [A [B C]]]]]].
  exists (g_fid g), (fl_triple fl). split; [assumption|]. rewrite HN. eapply FL; eauto.
Qed.

Lemma sends_ok_step s l s' :
  execs_inv s -> flights_logged s -> sends_ok (s_log s) -> step s l = Some s' -> sends_ok (s_log s').
Proof.
  intros XI FL SO H. destruct (step_log_shape _ _ _ H) as [[evs [E N]]|[e [x [_ [HX [HP E]]]]]].
  - rewrite E. apply sends_ok_app; assumption.
  - rewrite E. simpl. split; [|assumption].
    pose proof (Forall_nth_error _ _ _ _ XI HX) as [_ [H2 _]].
    rewrite HP, firstn_all in H2. eapply send_items_ok; [|exact H2].
    intros f fl Hf id cnt meta Hs. specialize (FL f fl Hf). rewrite Hs in FL. exact FL.
Qed.

(* ---- no panic ---- *)
Definition no_panic_log (L : list event) : Prop := ~ In EvPanic L.

Lemma gone_events_nopanic why ev : ~ In EvPanic (gone_events why ev).
Proof. induction ev as [|x r IH]; simpl; [tauto|]. intros [H|H]; [discriminate|auto]. Qed.

Lemma evict_nopanic s k id : cache_inv s -> no_panic_log (s_log s) -> no_panic_log (s_log (evict_prepared_id s k id)).
Proof.
  intros [I1 _ I3 I4] NP.
  destruct (evict_cases s k id) as [c r _ _ E _|c f fl cnt meta c' ev _ _ _ _ _ _ E|c f fl G HF HD HS _ E]; rewrite E.
  - assumption.
  - intros H. apply in_app_or in H. destruct H as [H|H]; [eapply gone_events_nopanic; eauto|auto].
  - exfalso. pose proof (lru_get_result _ _ _ _ G) as L. symmetry in L. apply lookup_In in L.
    rewrite Forall_forall in I3. destruct (I3 _ L) as [fl0 [A [_ C]]]. simpl in A. rewrite HF in A. inversion A; subst fl0.
    pose proof (Forall_nth_error _ _ _ _ I4 HF) as W. specialize (W HD).
    destruct (fl_status fl) as [| |id' cnt meta|err]; try contradiction. eapply HS; reflexivity.
Qed.

Lemma nopanic_step s l s' : cache_inv s -> no_panic_log (s_log s) -> step s l = Some s' -> no_panic_log (s_log s').
Proof.
  intros CI NP H. destruct l; step_inv H; cbn; try assumption.
  all: try (intros [X|X]; [discriminate|auto]; fail).
  all: try apply evict_nopanic; try assumption.
  all: intros X; apply in_app_or in X; destruct X as [X|X]; [|auto].
  all: apply in_app_or in X; destruct X as [X|X]; [apply in_rev in X; eapply gone_events_nopanic; eauto|].
  all: destruct X as [X|X]; [discriminate|contradiction].
Qed.
