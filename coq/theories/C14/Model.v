(* C14/Model.v -- executable model of the prepared-statement machinery of gocql.
   Executable definitions only (no proofs).

   Part 1  internal/lru/lru.go: the LRU cache as a list (front = most recently used).
   Part 2  prepared_cache.go keyFor.
   Part 3  the single-flight protocol of conn.go prepareStatement / executeQuery / executeBatch with
           prepared_cache.go execIfMissing / remove / evictPreparedID as a labelled transition system
           over any number of executors.  One label = one atomic action of the real code (one critical
           section of preparedLRU.mu, one channel operation, one frame written, one server answer).

   Keys are Go strings = byte strings = [list Z]. *)
From GocqlV Require Import Lib.Base.

Definition key := list Z.
Definition key_eqb (a b : key) : bool := zlist_eqb a b.

(* ------------------------------------------------------------------------------------------- *)
(* Part 1: internal/lru                                                                          *)

Section Lru.
  Context {V : Type}.

  (* c.ll from Front() to Back(); c.cache is the index of the same entries by key *)
  Definition cache := list (key * V).

  Fixpoint lookup (k : key) (l : cache) : option V :=
    match l with
    | [] => None
    | (k', v) :: r => if key_eqb k k' then Some v else lookup k r
    end.

  (* c.ll.Remove(ele) + delete(c.cache, key) for the element holding k *)
  Fixpoint remove_key (k : key) (l : cache) : cache :=
    match l with
    | [] => []
    | (k', v) :: r => if key_eqb k k' then r else (k', v) :: remove_key k r
    end.

  (* c.ll.Back() and the list without it *)
  Fixpoint split_last (l : cache) : option (cache * (key * V)) :=
    match l with
    | [] => None
    | x :: r => match split_last r with
                | None => Some ([], x)
                | Some (r', y) => Some (x :: r', y)
                end
    end.

  (* Every operation returns the new list and the entries passed to OnEvicted (removeElement). *)

  (* func (c *Cache) RemoveOldest() *)
  Definition lru_remove_oldest (l : cache) : cache * list (key * V) :=
    match split_last l with
    | None => (l, [])
    | Some (r, x) => (r, [x])
    end.

  (* func (c *Cache) Add(key, value): hit = MoveToFront + overwrite; miss = PushFront, then
     `if c.MaxEntries != 0 && c.ll.Len() > c.MaxEntries { c.RemoveOldest() }` *)
  Definition lru_add (max : Z) (l : cache) (k : key) (v : V) : cache * list (key * V) :=
    match lookup k l with
    | Some _ => ((k, v) :: remove_key k l, [])
    | None =>
        let l1 := (k, v) :: l in
        if negb (max =? 0) && (Z.of_nat (length l1) >? max) then lru_remove_oldest l1 else (l1, [])
    end.

  (* func (c *Cache) Get(key): hit = MoveToFront *)
  Definition lru_get (l : cache) (k : key) : cache * option V :=
    match lookup k l with
    | Some v => ((k, v) :: remove_key k l, Some v)
    | None => (l, None)
    end.

  (* func (c *Cache) Remove(key) bool: the bool is "the evicted list is not empty" *)
  Definition lru_remove (l : cache) (k : key) : cache * list (key * V) :=
    match lookup k l with
    | Some v => (remove_key k l, [(k, v)])
    | None => (l, [])
    end.

  Definition lru_len (l : cache) : Z := Z.of_nat (length l).
End Lru.

(* operation sequences on a cache with integer values (the correspondence with lru.Cache) *)
Inductive lru_op :=
| OAdd (k : key) (v : Z)
| OGet (k : key)
| ORemove (k : key)
| ORemoveOldest
| OLen.

(* what the caller of one operation can see: returned value / ok, Len() afterwards, OnEvicted calls *)
Record lru_out := mkOut { o_val : option Z; o_ok : bool; o_len : Z; o_evicted : list (key * Z) }.

Definition nonempty {A} (l : list A) : bool := match l with [] => false | _ => true end.

Definition lru_apply (max : Z) (l : cache) (op : lru_op) : cache * lru_out :=
  match op with
  | OAdd k v => let '(l', ev) := lru_add max l k v in (l', mkOut None false (lru_len l') ev)
  | OGet k => let '(l', r) := lru_get l k in
              (l', mkOut r (match r with Some _ => true | None => false end) (lru_len l') [])
  | ORemove k => let '(l', ev) := lru_remove l k in (l', mkOut None (nonempty ev) (lru_len l') ev)
  | ORemoveOldest => let '(l', ev) := lru_remove_oldest l in (l', mkOut None false (lru_len l') ev)
  | OLen => (l, mkOut None false (lru_len l) [])
  end.

Fixpoint lru_run (max : Z) (l : @cache Z) (ops : list lru_op) : @cache Z * list lru_out :=
  match ops with
  | [] => (l, [])
  | op :: r => let '(l1, o) := lru_apply max l op in
               let '(l2, os) := lru_run max l1 r in (l2, o :: os)
  end.

(* ------------------------------------------------------------------------------------------- *)
(* Part 2: prepared_cache.go keyFor: `return hostID + keyspace + statement`                      *)

Record triple := mkTriple { t_host : key; t_ks : key; t_stmt : key }.

Definition key_for (t : triple) : key := t_host t ++ t_ks t ++ t_stmt t.

(* ------------------------------------------------------------------------------------------- *)
(* Part 3: the single-flight protocol                                                            *)

(* One *inflightPrepare.  fl_triple is ghost (what the winner's PREPARE frame asks for); the
   status is flight.preparedStatment / flight.err; fl_done is "close(flight.done) has happened".
   FOk: prepared id, request.actualColCount, and an opaque token standing for the bind/result
   metadata (request.columns, response) that came with that answer. *)
Inductive fstatus :=
| FCreated
| FSent
| FOk (id : list Z) (cnt meta : Z)
| FFailed (err : Z).

Record flight := mkFlight { fl_triple : triple; fl_status : fstatus; fl_done : bool }.

(* One statement of a Query (exactly one, always prepared) or of a Batch (prepared iff it has
   arguments or a binding: conn.go:1563). e_nvals = len(values) after binding. *)
Record entry := mkEntry { e_stmt : key; e_prep : bool; e_nvals : Z }.

(* what prepareStatement handed back for one entry; g_fid is ghost *)
Record got := mkGot { g_stmt : key; g_fid : nat; g_id : list Z; g_cnt : Z; g_meta : Z }.

Inductive result :=
| ROk
| RErr (err : Z)                   (* flight.err, or the error answer to EXECUTE / BATCH *)
| RCount (i : nat) (want have : Z) (* "expected %d values send got %d" *)
| RCancelled.                      (* ctx.Err() from the select in prepareStatement *)

Inductive phase :=
| PStart                (* between statements: next is entry x_pos, or the frame when x_pos = len *)
| PWait (f : nat)       (* in the select of prepareStatement holding flight f *)
| PSent                 (* EXECUTE / BATCH written, waiting for the answer *)
| PDone (r : result).

(* One call of Conn.executeQuery / Conn.executeBatch (with its recursive re-executions). *)
Record exec := mkExec {
  x_batch : bool; x_host : key; x_ks : key; x_entries : list entry;
  x_pos : nat; x_got : list (option got); x_phase : phase }.

Inductive event :=
| EvCreate (f : nat) (k : key)                 (* execIfMissing missed: flight f inserted under k *)
| EvHit (e f : nat)                            (* execIfMissing hit: executor e was handed flight f *)
| EvGone (k : key) (f : nat) (why : Z)         (* entry (k, f) left the cache: 0 capacity, 1 remove after failure, 2 evictPreparedID *)
| EvPrepare (f : nat) (t : triple)             (* PREPARE frame written for flight f *)
| EvPrepared (f : nat) (id : list Z) (cnt meta : Z)   (* RESULT prepared received for flight f *)
| EvFailed (f : nat) (err : Z)                 (* flight f failed *)
| EvSend (e : nat) (batch : bool) (host ks : key) (items : list (key * option (list Z * Z) * Z))
                                               (* EXECUTE / BATCH frame: per entry the statement, its prepared id together with the token of the
                                                  bind/result metadata the executor marshals and decodes with, the number of values *)
| EvResult (e : nat) (r : result)              (* what the caller of executeQuery / executeBatch got *)
| EvPanic.                                     (* nil dereference in evictPreparedID (ifp.preparedStatment.id) *)

Record state := mkState {
  s_max : Z;                         (* ClusterConfig.MaxPreparedStmts = lru.MaxEntries *)
  s_cache : list (key * nat);        (* session.stmtsLRU: key -> flight (index into s_flights) *)
  s_flights : list flight;           (* every inflightPrepare ever allocated *)
  s_execs : list exec;
  s_log : list event }.              (* ghost: newest first *)

Definition init (max : Z) : state := mkState max [] [] [] [].

Inductive label :=
| LSpawn (batch : bool) (host ks : key) (entries : list entry)
| LPlain (e : nat)                   (* batch entry without arguments: b.statement = entry.Stmt *)
| LLookup (e : nat)                  (* the critical section of execIfMissing (Get, and Add on a miss) *)
| LPrepSend (f : nat)                (* the winner's goroutine writes the PREPARE frame *)
| LPrepOk (f : nat) (id : list Z) (cnt meta : Z)   (* *resultPreparedFrame: flight.preparedStatment = ... *)
| LPrepFail (f : nat) (err : Z)      (* flight.err = err; stmtsLRU.remove(key) *)
| LClose (f : nat)                   (* deferred close(flight.done) *)
| LWake (e : nat)                    (* case <-flight.done *)
| LCancel (e : nat)                  (* case <-ctx.Done() *)
| LSend (e : nat)                    (* c.exec writes the EXECUTE / BATCH frame *)
| LReplyOk (e : nat)
| LReplyErr (e : nat) (err : Z)
| LReplyUnprep (e : nat) (id : list Z).   (* *RequestErrUnprepared: evictPreparedID, then execute again *)

Definition with_cache (s : state) c := mkState (s_max s) c (s_flights s) (s_execs s) (s_log s).
Definition with_flights (s : state) f := mkState (s_max s) (s_cache s) f (s_execs s) (s_log s).
Definition with_execs (s : state) x := mkState (s_max s) (s_cache s) (s_flights s) x (s_log s).
Definition add_log (s : state) (evs : list event) := mkState (s_max s) (s_cache s) (s_flights s) (s_execs s) (evs ++ s_log s).

Definition set_exec (s : state) (e : nat) (x : exec) : state := with_execs s (upd (s_execs s) e x).
Definition set_flight (s : state) (f : nat) (fl : flight) : state := with_flights s (upd (s_flights s) f fl).

Definition set_phase (x : exec) (p : phase) : exec :=
  mkExec (x_batch x) (x_host x) (x_ks x) (x_entries x) (x_pos x) (x_got x) p.

Definition x_triple (x : exec) (en : entry) : triple := mkTriple (x_host x) (x_ks x) (e_stmt en).

Definition phase_is_start (p : phase) : bool := match p with PStart => true | _ => false end.
Definition phase_is_sent (p : phase) : bool := match p with PSent => true | _ => false end.

Definition gone_events (why : Z) (ev : list (key * nat)) : list event :=
  map (fun kf => EvGone (fst kf) (snd kf) why) ev.

(* evictPreparedID(key, id) under preparedLRU.mu: Get (moves to front), then
   `select { case <-ifp.done: if bytes.Equal(id, ifp.preparedStatment.id) { Remove } default: }` *)
Definition evict_prepared_id (s : state) (k : key) (id : list Z) : state :=
  match lru_get (s_cache s) k with
  | (c, None) => with_cache s c
  | (c, Some f) =>
      let s1 := with_cache s c in
      match nth_error (s_flights s) f with
      | None => s1
      | Some fl =>
          if fl_done fl then
            match fl_status fl with
            | FOk id' _ _ =>
                if zlist_eqb id id' then
                  let '(c', ev) := lru_remove c k in add_log (with_cache s1 c') (gone_events 2 ev)
                else s1
            | _ => add_log s1 [EvPanic]     (* ifp.preparedStatment is nil *)
            end
          else s1
      end
  end.

(* stmts[string(info.id)] = entry.Stmt for i ascending: a later entry overwrites an earlier one *)
Fixpoint batch_stmt_of_id (gs : list (option got)) (id : list Z) (acc : option key) : option key :=
  match gs with
  | [] => acc
  | None :: r => batch_stmt_of_id r id acc
  | Some g :: r => batch_stmt_of_id r id (if zlist_eqb (g_id g) id then Some (g_stmt g) else acc)
  end.

Fixpoint send_items (ens : list entry) (gs : list (option got)) : list (key * option (list Z * Z) * Z) :=
  match ens, gs with
  | en :: ens', g :: gs' => (e_stmt en, option_map (fun g => (g_id g, g_meta g)) g, e_nvals en) :: send_items ens' gs'
  | _, _ => []
  end.

(* a Query has exactly one statement and it is prepared (shouldPrepare; the harness uses DML only) *)
Definition spawn_ok (batch : bool) (entries : list entry) : bool :=
  if batch then true else match entries with [en] => e_prep en | _ => false end.

Definition step (s : state) (l : label) : option state :=
  match l with
  | LSpawn b h ks ens =>
      if spawn_ok b ens then Some (with_execs s (s_execs s ++ [mkExec b h ks ens 0 [] PStart])) else None

  | LPlain e =>
      match nth_error (s_execs s) e with
      | Some x =>
          match x_phase x, nth_error (x_entries x) (x_pos x) with
          | PStart, Some en =>
              if negb (e_prep en) then
                Some (set_exec s e (mkExec (x_batch x) (x_host x) (x_ks x) (x_entries x) (S (x_pos x)) (x_got x ++ [None]) PStart))
              else None
          | _, _ => None
          end
      | None => None
      end

  | LLookup e =>
      match nth_error (s_execs s) e with
      | Some x =>
          match x_phase x, nth_error (x_entries x) (x_pos x) with
          | PStart, Some en =>
              if e_prep en then
                let t := x_triple x en in
                let k := key_for t in
                match lru_get (s_cache s) k with
                | (c, Some f) =>
                    Some (add_log (set_exec (with_cache s c) e (set_phase x (PWait f))) [EvHit e f])
                | (_, None) =>
                    let f := length (s_flights s) in
                    let '(c, ev) := lru_add (s_max s) (s_cache s) k f in
                    let s1 := with_flights (with_cache s c) (s_flights s ++ [mkFlight t FCreated false]) in
                    Some (add_log (set_exec s1 e (set_phase x (PWait f))) (rev (EvCreate f k :: gone_events 0 ev)))
                end
              else None
          | _, _ => None
          end
      | None => None
      end

  | LPrepSend f =>
      match nth_error (s_flights s) f with
      | Some fl =>
          match fl_status fl, fl_done fl with
          | FCreated, false => Some (add_log (set_flight s f (mkFlight (fl_triple fl) FSent false)) [EvPrepare f (fl_triple fl)])
          | _, _ => None
          end
      | None => None
      end

  | LPrepOk f id cnt meta =>
      match nth_error (s_flights s) f with
      | Some fl =>
          match fl_status fl, fl_done fl with
          | FSent, false => Some (add_log (set_flight s f (mkFlight (fl_triple fl) (FOk id cnt meta) false)) [EvPrepared f id cnt meta])
          | _, _ => None
          end
      | None => None
      end

  | LPrepFail f err =>
      match nth_error (s_flights s) f with
      | Some fl =>
          let failed :=
            let '(c, ev) := lru_remove (s_cache s) (key_for (fl_triple fl)) in
            Some (add_log (set_flight (with_cache s c) f (mkFlight (fl_triple fl) (FFailed err) false))
                          (rev (EvFailed f err :: gone_events 1 ev))) in
          match fl_status fl, fl_done fl with
          | FCreated, false => failed      (* c.exec failed before anything was written *)
          | FSent, false => failed
          | _, _ => None
          end
      | None => None
      end

  | LClose f =>
      match nth_error (s_flights s) f with
      | Some fl =>
          match fl_status fl, fl_done fl with
          | FOk _ _ _, false => Some (set_flight s f (mkFlight (fl_triple fl) (fl_status fl) true))
          | FFailed _, false => Some (set_flight s f (mkFlight (fl_triple fl) (fl_status fl) true))
          | _, _ => None
          end
      | None => None
      end

  | LWake e =>
      match nth_error (s_execs s) e with
      | Some x =>
          match x_phase x with
          | PWait f =>
              match nth_error (s_flights s) f, nth_error (x_entries x) (x_pos x) with
              | Some fl, Some en =>
                  if fl_done fl then
                    match fl_status fl with
                    | FOk id cnt meta =>
                        if e_nvals en =? cnt then
                          Some (set_exec s e (mkExec (x_batch x) (x_host x) (x_ks x) (x_entries x) (S (x_pos x))
                                                     (x_got x ++ [Some (mkGot (e_stmt en) f id cnt meta)]) PStart))
                        else
                          let r := RCount (x_pos x) cnt (e_nvals en) in
                          Some (add_log (set_exec s e (set_phase x (PDone r))) [EvResult e r])
                    | FFailed err =>
                        Some (add_log (set_exec s e (set_phase x (PDone (RErr err)))) [EvResult e (RErr err)])
                    | _ => None
                    end
                  else None
              | _, _ => None
              end
          | _ => None
          end
      | None => None
      end

  | LCancel e =>
      match nth_error (s_execs s) e with
      | Some x =>
          match x_phase x with
          | PWait _ => Some (add_log (set_exec s e (set_phase x (PDone RCancelled))) [EvResult e RCancelled])
          | _ => None
          end
      | None => None
      end

  | LSend e =>
      match nth_error (s_execs s) e with
      | Some x =>
          if phase_is_start (x_phase x) && (x_pos x =? length (x_entries x))%nat then
            Some (add_log (set_exec s e (set_phase x PSent))
                          [EvSend e (x_batch x) (x_host x) (x_ks x) (send_items (x_entries x) (x_got x))])
          else None
      | None => None
      end

  | LReplyOk e =>
      match nth_error (s_execs s) e with
      | Some x =>
          if phase_is_sent (x_phase x) then Some (add_log (set_exec s e (set_phase x (PDone ROk))) [EvResult e ROk]) else None
      | None => None
      end

  | LReplyErr e err =>
      match nth_error (s_execs s) e with
      | Some x =>
          if phase_is_sent (x_phase x) then Some (add_log (set_exec s e (set_phase x (PDone (RErr err)))) [EvResult e (RErr err)]) else None
      | None => None
      end

  | LReplyUnprep e id =>
      match nth_error (s_execs s) e with
      | Some x =>
          if phase_is_sent (x_phase x) then
            let target :=
              if x_batch x then batch_stmt_of_id (x_got x) id None
              else option_map e_stmt (nth_error (x_entries x) 0) in
            let s1 := match target with
                      | Some st => evict_prepared_id s (key_for (mkTriple (x_host x) (x_ks x) st)) id
                      | None => s
                      end in
            Some (set_exec s1 e (mkExec (x_batch x) (x_host x) (x_ks x) (x_entries x) 0 [] PStart))
          else None
      | None => None
      end
  end.

Fixpoint run (s : state) (ls : list label) : option state :=
  match ls with
  | [] => Some s
  | l :: r => match step s l with Some s' => run s' r | None => None end
  end.
