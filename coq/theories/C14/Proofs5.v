(* C14/Proofs5.v -- invariants of the single-flight transition system, part 4: counting.
   Flights created for a key = times an entry for that key left the cache + (1 if it is there);
   PREPARE frames for a key <= flights created for it. *)
From GocqlV Require Import Lib.Base C14.Model C14.Spec C14.Proofs1 C14.Proofs2.

Lemma count_ev_app p a b : count_ev p (a ++ b) = (count_ev p a + count_ev p b)%nat.
Proof. induction a as [|x a IH]; simpl; [reflexivity|]. rewrite IH. lia. Qed.

Lemma count_ev_rev p a : count_ev p (rev a) = count_ev p a.
Proof. induction a as [|x a IH]; simpl; [reflexivity|]. rewrite count_ev_app, IH. simpl. lia. Qed.

Lemma count_gone_events k why (ev : list (key * nat)) : count_ev (is_gone k) (gone_events why ev) = cnt_key k ev.
Proof. induction ev as [|[k' f] r IH]; simpl; [reflexivity|]. rewrite IH. reflexivity. Qed.

Lemma count_create_gone_events k why (ev : list (key * nat)) : count_ev (is_create k) (gone_events why ev) = O.
Proof. induction ev as [|[k' f] r IH]; simpl; auto. Qed.

Lemma count_prepare_gone_events k why (ev : list (key * nat)) : count_ev (is_prepare_for k) (gone_events why ev) = O.
Proof. induction ev as [|[k' f] r IH]; simpl; auto. Qed.

Definition counts_inv (s : state) : Prop :=
  forall k, count_ev (is_create k) (s_log s) = (count_ev (is_gone k) (s_log s) + cnt_key k (s_cache s))%nat.

Lemma counts_inv_init max : counts_inv (init max).
Proof. intros k. reflexivity. Qed.

Lemma counts_inv_evict s k id : counts_inv s -> counts_inv (evict_prepared_id s k id).
Proof.
  intros CI k'. specialize (CI k').
  destruct (evict_cases s k id) as [c r G EC EL _|c f fl cnt meta c' ev G _ _ _ R EC EL|c f fl G _ _ _ EC EL]; rewrite EC, EL.
  - rewrite (lru_get_cnt _ _ _ _ k' G). assumption.
  - rewrite !count_ev_app, count_gone_events, count_create_gone_events.
    pose proof (lru_remove_cnt _ _ _ _ k' R). rewrite (lru_get_cnt _ _ _ _ k' G) in H. lia.
  - simpl. rewrite (lru_get_cnt _ _ _ _ k' G). assumption.
Qed.

Lemma counts_inv_step s l s' : counts_inv s -> step s l = Some s' -> counts_inv s'.
Proof.
  intros CI H. destruct l; step_inv H.
  all: try (intros kk; specialize (CI kk); cbn; exact CI).
  - (* LLookup hit *)
    name_hyps. intros kk. specialize (CI kk). cbn. rewrite (lru_get_cnt _ _ _ _ kk HG). assumption.
  - (* LLookup miss *)
    name_hyps. intros kk. specialize (CI kk). cbn [s_log s_cache add_log set_exec with_execs with_flights with_cache].
    assert (L : lookup (key_for (x_triple e0 e1)) (s_cache s) = None).
    { apply lru_get_result in HG. congruence. }
    pose proof (lru_add_miss_cnt _ _ _ _ _ _ kk L HA) as C.
    rewrite !count_ev_app, !count_ev_rev, count_gone_events, count_create_gone_events. simpl.
    destruct (key_eqb kk (key_for (x_triple e0 e1))); lia.
  - (* LPrepFail FCreated *)
    name_hyps. intros kk. specialize (CI kk). cbn [s_log s_cache add_log set_flight with_execs with_flights with_cache].
    pose proof (lru_remove_cnt _ _ _ _ kk HR) as C.
    rewrite !count_ev_app, !count_ev_rev, count_gone_events, count_create_gone_events. simpl. lia.
  - (* LPrepFail FSent *)
    name_hyps. intros kk. specialize (CI kk). cbn [s_log s_cache add_log set_flight with_execs with_flights with_cache].
    pose proof (lru_remove_cnt _ _ _ _ kk HR) as C.
    rewrite !count_ev_app, !count_ev_rev, count_gone_events, count_create_gone_events. simpl. lia.
  - (* LReplyUnprep *)
    intros kk. cbn. apply counts_inv_evict. assumption.
  - intros kk. cbn. apply counts_inv_evict. assumption.
Qed.

(* ---- PREPARE frames <= flights created ---- *)
Definition is_cr (st : fstatus) : bool := match st with FCreated => true | _ => false end.

Definition is_created_for (k : key) (fl : flight) : bool :=
  key_eqb k (key_for (fl_triple fl)) && is_cr (fl_status fl).

Definition created_cnt (k : key) (F : list flight) : nat := length (filter (is_created_for k) F).

Definition prepares_inv (s : state) : Prop :=
  forall k, (count_ev (is_prepare_for k) (s_log s) + created_cnt k (s_flights s) <= count_ev (is_create k) (s_log s))%nat.

Lemma filter_upd_len {A} (p : A -> bool) (F : list A) f fl fl' :
  nth_error F f = Some fl ->
  (length (filter p (upd F f fl')) + (if p fl then 1 else 0) = length (filter p F) + (if p fl' then 1 else 0))%nat.
Proof.
  revert f. induction F as [|x F IH]; intros [|f] H; simpl in *; try discriminate.
  - inversion H; subst. destruct (p fl), (p fl'); simpl; lia.
  - specialize (IH f H). destruct (p x); simpl; lia.
Qed.

Lemma created_cnt_app k F x : created_cnt k (F ++ [x]) = (created_cnt k F + (if is_created_for k x then 1 else 0))%nat.
Proof. unfold created_cnt. rewrite filter_app, app_length. simpl. destruct (is_created_for k x); reflexivity. Qed.

Lemma created_cnt_upd k F f fl st d :
  nth_error F f = Some fl ->
  (created_cnt k (upd F f (mkFlight (fl_triple fl) st d)) + (if key_eqb k (key_for (fl_triple fl)) && is_cr (fl_status fl) then 1 else 0)
   = created_cnt k F + (if key_eqb k (key_for (fl_triple fl)) && is_cr st then 1 else 0))%nat.
Proof. intros H. unfold created_cnt. exact (filter_upd_len (is_created_for k) F f fl (mkFlight (fl_triple fl) st d) H). Qed.

Lemma prepares_inv_init max : prepares_inv (init max).
Proof. intros k. unfold created_cnt. simpl. lia. Qed.

Lemma count_other_gone_events p why (ev : list (key * nat)) :
  (forall k' f w, p (EvGone k' f w) = false) -> count_ev p (gone_events why ev) = O.
Proof. intros Hg. induction ev as [|[k' f'] r IH]; simpl; [reflexivity|]. rewrite Hg. assumption. Qed.

Lemma evict_counts_other s k id p :
  (forall k' f w, p (EvGone k' f w) = false) -> p EvPanic = false ->
  count_ev p (s_log (evict_prepared_id s k id)) = count_ev p (s_log s).
Proof.
  intros Hg Hp.
  destruct (evict_cases s k id) as [c r _ _ EL _|c f fl cnt meta c' ev _ _ _ _ _ _ EL|c f fl _ _ _ _ _ EL]; rewrite EL.
  - reflexivity.
  - rewrite count_ev_app, (count_other_gone_events p 2 ev Hg). reflexivity.
  - simpl. rewrite Hp. reflexivity.
Qed.

Lemma prepares_inv_step s l s' : prepares_inv s -> step s l = Some s' -> prepares_inv s'.
Proof.
  intros PI H. destruct l; step_inv H.
  all: try (intros kk; specialize (PI kk); cbn; exact PI).
  - (* LLookup miss *)
    intros kk. specialize (PI kk). cbn [s_log s_flights add_log set_exec with_execs with_flights with_cache].
    rewrite created_cnt_app. rewrite !count_ev_app, !count_ev_rev, count_prepare_gone_events, count_create_gone_events.
    unfold is_created_for. simpl. destruct (key_eqb kk (key_for (x_triple e0 e1))); simpl; lia.
  - (* LPrepSend *)
    name_hyps. intros kk. specialize (PI kk). cbn [s_log s_flights add_log set_flight with_execs with_flights with_cache].
    pose proof (created_cnt_upd kk _ _ _ FSent false HF) as U. rewrite HS in U.
    simpl. destruct (key_eqb kk (key_for (fl_triple f0))); simpl in U; lia.
  - (* LPrepOk *)
    name_hyps. intros kk. specialize (PI kk). cbn [s_log s_flights add_log set_flight with_execs with_flights with_cache].
    pose proof (created_cnt_upd kk _ _ _ (FOk id cnt meta) false HF) as U. rewrite HS in U.
    simpl. destruct (key_eqb kk (key_for (fl_triple f0))); simpl in U; lia.
  - (* LPrepFail FCreated *)
    name_hyps. intros kk. specialize (PI kk). cbn [s_log s_flights add_log set_flight with_execs with_flights with_cache].
    pose proof (created_cnt_upd kk _ _ _ (FFailed err) false HF) as U. rewrite HS in U.
    rewrite !count_ev_app, !count_ev_rev, count_prepare_gone_events, count_create_gone_events. simpl.
    destruct (key_eqb kk (key_for (fl_triple f0))); simpl in U; lia.
  - (* LPrepFail FSent *)
    name_hyps. intros kk. specialize (PI kk). cbn [s_log s_flights add_log set_flight with_execs with_flights with_cache].
    pose proof (created_cnt_upd kk _ _ _ (FFailed err) false HF) as U. rewrite HS in U.
    rewrite !count_ev_app, !count_ev_rev, count_prepare_gone_events, count_create_gone_events. simpl.
    destruct (key_eqb kk (key_for (fl_triple f0))); simpl in U; lia.
  - (* LClose FOk *)
    name_hyps. intros kk. specialize (PI kk). cbn [s_log s_flights add_log set_flight with_execs with_flights with_cache].
    pose proof (created_cnt_upd kk _ _ _ (FOk id cnt meta) true HF) as U. rewrite HS in U.
    destruct (key_eqb kk (key_for (fl_triple f0))); simpl in U; lia.
  - (* LClose FFailed *)
    name_hyps. intros kk. specialize (PI kk). cbn [s_log s_flights add_log set_flight with_execs with_flights with_cache].
    pose proof (created_cnt_upd kk _ _ _ (FFailed err) true HF) as U. rewrite HS in U.
    destruct (key_eqb kk (key_for (fl_triple f0))); simpl in U; lia.
  - (* LReplyUnprep *)
    intros k0. specialize (PI k0). cbn. rewrite evict_flights.
    rewrite !evict_counts_other by (intros; reflexivity). assumption.
  - intros k0. specialize (PI k0). cbn. rewrite evict_flights.
    rewrite !evict_counts_other by (intros; reflexivity). assumption.
Qed.
