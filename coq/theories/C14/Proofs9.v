(* C14/Proofs9.v -- the observation that re-preparation has no bound: against a server that answers
   every EXECUTE with UNPREPARED (and every PREPARE with the same id) one executor prepares and
   executes for ever.  Outside the property's statement (which is about servers that accept the id they
   have just returned); recorded because executeQuery / executeBatch recurse without a bound. *)
From GocqlV Require Import Lib.Base C14.Model C14.Spec C14.Proofs1 C14.Proofs2 C14.Proofs3 C14.Proofs4 C14.Proofs5 C14.Proofs6 C14.Proofs7 C14.Proofs8.

Definition is_prepare (ev : event) : bool := match ev with EvPrepare _ _ => true | _ => false end.
Definition is_send_ev (ev : event) : bool := match ev with EvSend _ _ _ _ _ => true | _ => false end.

Definition loop_labels (f : nat) (id : list Z) (cnt : Z) : list label :=
  prepare_labels 0 f id cnt 0 ++ [LReplyUnprep 0 id].

Fixpoint loops (f n : nat) (id : list Z) (cnt : Z) : list label :=
  match n with
  | O => []
  | S n' => loop_labels f id cnt ++ loops (S f) n' id cnt
  end.

Definition loop_inv (h ks : key) (en : entry) (m : nat) (s : state) : Prop :=
  cache_inv s /\
  nth_error (s_execs s) 0 = Some (mkExec false h ks [en] 0 [] PStart) /\
  length (s_flights s) = m /\
  lookup (key_for (mkTriple h ks (e_stmt en))) (s_cache s) = None /\
  count_ev is_prepare (s_log s) = m /\ count_ev is_send_ev (s_log s) = m.

Lemma cache_inv_run ls : forall s s', cache_inv s -> run s ls = Some s' -> cache_inv s'.
Proof.
  induction ls as [|l ls IH]; simpl; intros s s' I H.
  - inversion H; subst; assumption.
  - destruct (step s l) as [s1|] eqn:E; [|discriminate]. eapply IH; [|exact H]. eapply cache_inv_step; eauto.
Qed.

Lemma loop_once h ks en id m s :
  e_prep en = true -> loop_inv h ks en m s ->
  exists s', run s (loop_labels m id (e_nvals en)) = Some s' /\ loop_inv h ks en (S m) s'.
Proof.
  intros HPr [CI [HX [HL [L [CP CS]]]]].
  destruct (prepare_path_lemma s 0 h ks en id 0 HX HPr L) as [s6 [R6 [HX6 [L6 [C6 [F6 [M6 _]]]]]]].
  rewrite HL in *.
  pose proof (cache_inv_run _ _ _ CI R6) as CI6. pose proof CI6 as [ND6 _ _ _].
  set (k := key_for (mkTriple h ks (e_stmt en))) in *.
  (* the UNPREPARED answer *)
  assert (S7 : step s6 (LReplyUnprep 0 id) =
               Some (set_exec (evict_prepared_id s6 k id) 0 (mkExec false h ks [en] 0 [] PStart))).
  { unfold step. rewrite HX6. reflexivity. }
  exists (set_exec (evict_prepared_id s6 k id) 0 (mkExec false h ks [en] 0 [] PStart)).
  split.
  { unfold loop_labels. rewrite run_app, R6. cbn [run]. rewrite S7. reflexivity. }
  assert (CI7 : cache_inv (set_exec (evict_prepared_id s6 k id) 0 (mkExec false h ks [en] 0 [] PStart))).
  { eapply cache_inv_step; [exact CI6|exact S7]. }
  split; [exact CI7|]. cbn [s_execs s_flights s_cache s_log set_exec with_execs].
  rewrite evict_execs, evict_flights.
  split; [eapply nth_error_upd_eq; eauto|].
  split; [rewrite F6, app_length; simpl; lia|].
  split.
  - (* the key is gone again *)
    destruct (lookup k (s_cache s6)) as [f'|] eqn:L6'.
    + assert (f' = m).
      { apply lookup_In in L6'. rewrite C6 in L6'.
        destruct (lru_add (s_max s) (s_cache s) k m) as [c ev] eqn:A. simpl in L6'.
        destruct (lru_add_in _ _ _ _ _ _ _ A L6') as [E|E]; [inversion E; reflexivity|].
        exfalso. apply lookup_None_notin in L. apply L. apply (in_map fst) in E. exact E. }
      subst f'.
      assert (HF : nth_error (s_flights s6) m = Some (mkFlight (mkTriple h ks (e_stmt en)) (FOk id (e_nvals en) 0) true)).
      { rewrite F6, <- HL. apply nth_error_app_last. }
      destruct (evict_matching s6 k id m _ (e_nvals en) 0 ND6 L6' HF eq_refl eq_refl) as [A _]. exact A.
    + unfold evict_prepared_id. rewrite (lru_get_miss _ _ L6'). exact L6'.
  - rewrite !evict_counts_other by (intros; reflexivity). rewrite L6.
    simpl. rewrite !count_ev_app, !count_ev_rev. rewrite !count_other_gone_events by (intros; reflexivity).
    simpl. lia.
Qed.

Lemma loops_run h ks en id n : e_prep en = true -> forall m s, loop_inv h ks en m s ->
  exists s', run s (loops m n id (e_nvals en)) = Some s' /\ loop_inv h ks en (m + n) s'.
Proof.
  intros HPr. induction n as [|n IH]; intros m s I.
  - exists s. split; [reflexivity|]. rewrite Nat.add_0_r. assumption.
  - destruct (loop_once h ks en id m s HPr I) as [s1 [R1 I1]].
    destruct (IH (S m) s1 I1) as [s2 [R2 I2]].
    exists s2. split; [cbn [loops]; rewrite run_app, R1; exact R2|]. replace (m + S n)%nat with (S m + n)%nat by lia. assumption.
Qed.

Lemma reprepare_unbounded_lemma max h ks st nv id n :
  exists s, run (init max) (LSpawn false h ks [mkEntry st true nv] :: loops 0 n id nv) = Some s /\
    count_ev is_prepare (s_log s) = n /\ count_ev is_send_ev (s_log s) = n /\
    nth_error (s_execs s) 0 = Some (mkExec false h ks [mkEntry st true nv] 0 [] PStart).
Proof.
  set (en := mkEntry st true nv).
  assert (I0 : loop_inv h ks en 0 (with_execs (init max) [mkExec false h ks [en] 0 [] PStart])).
  { split; [apply (cache_inv_ext (init max)); try reflexivity; apply cache_inv_init|]. repeat split. }
  destruct (loops_run h ks en id n eq_refl 0%nat _ I0) as [s [R [_ [HX [_ [_ [CP CS]]]]]]].
  exists s. split; [|auto]. cbn [run step spawn_ok en e_prep]. exact R.
Qed.
