From GocqlV Require Import Lib.Base C14.Model C14.Spec.
(* C14/ProofsLruSpec.v -- the executable list model of internal/lru (Model.v Part 1) refines the
   independent timestamp specification (Spec.v Part 1); the list model never exceeds MaxEntries and
   never holds a key twice. *)
From Coq Require Import Sorting.Sorted.

(* ------------------------------------------------------------------------------------------- *)
(* keys *)

Lemma key_eqb_eq a b : key_eqb a b = true <-> a = b.
Proof. unfold key_eqb. apply zlist_eqb_eq. Qed.

Lemma key_eqb_refl a : key_eqb a a = true.
Proof. apply key_eqb_eq; reflexivity. Qed.

Lemma key_eqb_neq a b : key_eqb a b = false <-> a <> b.
Proof. rewrite <- key_eqb_eq. destruct (key_eqb a b); split; congruence. Qed.

Lemma neq_false a b : a <> b -> key_eqb a b = false.
Proof. apply key_eqb_neq. Qed.

Ltac keq a b E :=
  destruct (key_eqb a b) eqn:E; [apply key_eqb_eq in E | apply key_eqb_neq in E].

(* ------------------------------------------------------------------------------------------- *)
(* association lists with first-match lookup, any value type *)

Section Gen.
  Context {V : Type}.
  Implicit Types (l r : @cache V) (k : key).

  Lemma notin_lookup_None k l : ~ In k (map fst l) -> lookup k l = None.
  Proof.
    induction l as [|[k0 v0] l IH]; simpl; intros H; [reflexivity|].
    keq k k0 E; [subst; tauto|]. apply IH; tauto.
  Qed.

  Lemma lookup_In k l v : lookup k l = Some v -> In (k, v) l.
  Proof.
    induction l as [|[k0 v0] l IH]; simpl; intros H; [discriminate|].
    keq k k0 E; [inversion H; subst; left; reflexivity | right; auto].
  Qed.

  Lemma In_lookup k v l : NoDup (map fst l) -> In (k, v) l -> lookup k l = Some v.
  Proof.
    induction l as [|[k0 v0] l IH]; simpl; intros ND H; [tauto|].
    inversion ND as [|? ? Hn ND']; subst.
    destruct H as [H|H].
    - inversion H; subst. rewrite key_eqb_refl. reflexivity.
    - keq k k0 E.
      + subst. exfalso. apply Hn. apply (in_map fst) in H. exact H.
      + auto.
  Qed.

  Lemma In_lookup_ex k v l : In (k, v) l -> exists v', lookup k l = Some v'.
  Proof.
    induction l as [|[k0 v0] l IH]; simpl; intros H; [tauto|].
    keq k k0 E; [eexists; reflexivity|].
    destruct H as [H|H]; [inversion H; congruence | auto].
  Qed.

  Lemma remove_key_None k l : lookup k l = None -> remove_key k l = l.
  Proof.
    induction l as [|[k0 v0] l IH]; simpl; intros H; [reflexivity|].
    keq k k0 E; [discriminate|]. rewrite IH; auto.
  Qed.

  Lemma remove_key_length_Some k l v :
    lookup k l = Some v -> S (length (remove_key k l)) = length l.
  Proof.
    induction l as [|[k0 v0] l IH]; simpl; intros H; [discriminate|].
    keq k k0 E; [reflexivity|]. simpl. rewrite IH; auto.
  Qed.

  Lemma remove_key_length_le k l : (length (remove_key k l) <= length l)%nat.
  Proof.
    induction l as [|[k0 v0] l IH]; simpl; [lia|].
    destruct (key_eqb k k0); simpl; lia.
  Qed.

  Lemma In_remove_key k l x : In x (remove_key k l) -> In x l.
  Proof.
    induction l as [|[k0 v0] l IH]; simpl; [tauto|].
    destruct (key_eqb k k0); simpl; [tauto|]. intros [H|H]; auto.
  Qed.

  Lemma In_remove_key_neq k l x : NoDup (map fst l) -> In x (remove_key k l) -> fst x <> k.
  Proof.
    induction l as [|[k0 v0] l IH]; simpl; intros ND H; [tauto|].
    inversion ND as [|? ? Hn ND']; subst.
    keq k k0 E.
    - subst. intros Hx. apply Hn. rewrite <- Hx. apply in_map. exact H.
    - destruct H as [H|H]; [subst; simpl; congruence | auto].
  Qed.

  Lemma NoDup_remove_key k l : NoDup (map fst l) -> NoDup (map fst (remove_key k l)).
  Proof.
    induction l as [|[k0 v0] l IH]; simpl; intros ND; [constructor|].
    inversion ND as [|? ? Hn ND']; subst.
    destruct (key_eqb k k0); [assumption|].
    simpl. constructor; [|auto].
    intros H. apply Hn. apply in_map_iff in H. destruct H as [x [Hx1 Hx2]].
    apply in_map_iff. exists x. split; [assumption|]. eapply In_remove_key; eauto.
  Qed.

  Lemma lookup_remove_key k k' l : NoDup (map fst l) ->
    lookup k' (remove_key k l) = if key_eqb k' k then None else lookup k' l.
  Proof.
    induction l as [|[k0 v0] l IH]; simpl; intros ND.
    - destruct (key_eqb k' k); reflexivity.
    - inversion ND as [|? ? Hn ND']; subst.
      keq k k0 E.
      + subst. keq k' k0 E'.
        * subst. apply notin_lookup_None; assumption.
        * reflexivity.
      + simpl. keq k' k0 E'.
        * subst. rewrite neq_false by congruence. reflexivity.
        * apply IH; assumption.
  Qed.

  Lemma SS_remove_key (P : key * V -> key * V -> Prop) k l :
    StronglySorted P l -> StronglySorted P (remove_key k l).
  Proof.
    induction 1 as [|a l HS IH HF]; simpl; [constructor|].
    destruct a as [k0 v0].
    destruct (key_eqb k k0); [assumption|].
    constructor; [assumption|].
    rewrite Forall_forall in *. intros x Hx. apply HF. eapply In_remove_key; eauto.
  Qed.

  Lemma split_last_None l : split_last l = None -> l = [].
  Proof.
    destruct l as [|x l]; simpl; [reflexivity|].
    destruct (split_last l) as [[r y]|]; discriminate.
  Qed.

  Lemma split_last_Some l : forall r x, split_last l = Some (r, x) -> l = r ++ [x].
  Proof.
    induction l as [|a l IH]; simpl; intros r x H; [discriminate|].
    destruct (split_last l) as [[r' y]|] eqn:E.
    - inversion H; subst. simpl. f_equal. apply IH. reflexivity.
    - inversion H; subst. apply split_last_None in E. subst. reflexivity.
  Qed.

  Lemma remove_key_last r k v :
    NoDup (map fst (r ++ [(k, v)])) -> remove_key k (r ++ [(k, v)]) = r.
  Proof.
    induction r as [|[k0 v0] r IH]; simpl; intros ND.
    - rewrite key_eqb_refl. reflexivity.
    - inversion ND as [|? ? Hn ND']; subst.
      keq k k0 E.
      + subst. exfalso. apply Hn. rewrite map_app. apply in_or_app. right. simpl. auto.
      + rewrite IH; auto.
  Qed.

  Lemma SS_app_last (P : key * V -> key * V -> Prop) r x :
    StronglySorted P (r ++ [x]) -> forall a, In a r -> P a x.
  Proof.
    induction r as [|b r IH]; simpl; intros HS a Ha; [tauto|].
    inversion HS as [|? ? HS' HF]; subst.
    destruct Ha as [Ha|Ha].
    - subst. rewrite Forall_forall in HF. apply HF. apply in_or_app. right. simpl. auto.
    - apply IH; assumption.
  Qed.

  Lemma SS_impl (P Q : key * V -> key * V -> Prop) l :
    StronglySorted P l -> (forall a b, In a l -> In b l -> P a b -> Q a b) -> StronglySorted Q l.
  Proof.
    induction 1 as [|a l HS IH HF]; intros HI; [constructor|].
    constructor.
    - apply IH. intros; apply HI; simpl; auto.
    - rewrite Forall_forall in *. intros x Hx. apply HI; simpl; auto.
  Qed.
End Gen.

(* ------------------------------------------------------------------------------------------- *)
(* the specification's entry list is such an association list *)

Lemma slookup_eq : slookup = @lookup (Z * Z).
Proof. reflexivity. Qed.

Lemma sdel_eq : sdel = @remove_key (Z * Z).
Proof. reflexivity. Qed.

Lemma lookup_sset k' k v t (es : sentries) :
  @lookup (Z * Z) k' (sset k v t es) = if key_eqb k' k then Some (v, t) else @lookup (Z * Z) k' es.
Proof.
  induction es as [|[k0 vt] es IH]; simpl.
  - destruct (key_eqb k' k); reflexivity.
  - keq k k0 E.
    + subst. simpl. destruct (key_eqb k' k0); reflexivity.
    + simpl. keq k' k0 E'.
      * subst. rewrite neq_false by congruence. reflexivity.
      * apply IH.
Qed.

Lemma In_sset_keys x k v t es : In x (map fst (sset k v t es)) -> x = k \/ In x (map fst es).
Proof.
  induction es as [|[k0 vt] es IH]; simpl.
  - intros [H|H]; [left; congruence | tauto].
  - destruct (key_eqb k k0); simpl; [tauto|]. intros [H|H]; [tauto|]. apply IH in H. tauto.
Qed.

Lemma NoDup_sset k v t es : NoDup (map fst es) -> NoDup (map fst (sset k v t es)).
Proof.
  induction es as [|[k0 vt] es IH]; simpl; intros ND.
  - constructor; [simpl; tauto | constructor].
  - inversion ND as [|? ? Hn ND']; subst.
    keq k k0 E; simpl; [constructor; assumption|].
    constructor; [|auto]. intros H. apply In_sset_keys in H. destruct H; [congruence | tauto].
Qed.

Lemma sset_length k v t (es : sentries) :
  length (sset k v t es) =
  match @lookup (Z * Z) k es with Some _ => length es | None => S (length es) end.
Proof.
  induction es as [|[k0 vt] es IH]; simpl; [reflexivity|].
  destruct (key_eqb k k0); simpl; [reflexivity|]. rewrite IH.
  destruct (@lookup (Z * Z) k es); reflexivity.
Qed.

Lemma soldest_None es : soldest es = None -> es = [].
Proof.
  destruct es as [|[k [v t]] es]; simpl; [reflexivity|].
  destruct (soldest es) as [[k' [v' t']]|]; [destruct (t' <? t)|]; discriminate.
Qed.

Lemma soldest_Some es : forall k v t, soldest es = Some (k, (v, t)) ->
  In (k, (v, t)) es /\ forall k' v' t', In (k', (v', t')) es -> t <= t'.
Proof.
  induction es as [|[k0 [v0 t0]] es IH]; simpl; intros k v t H; [discriminate|].
  destruct (soldest es) as [[k1 [v1 t1]]|] eqn:E.
  - destruct (IH _ _ _ eq_refl) as [HI HM].
    destruct (t1 <? t0) eqn:Et.
    + inversion H; subst. split; [right; assumption|].
      intros k' v' t' [Hin|Hin]; [inversion Hin; subst; lia | eauto].
    + inversion H; subst. split; [left; reflexivity|].
      intros k' v' t' [Hin|Hin]; [inversion Hin; subst; lia|]. apply HM in Hin. lia.
  - apply soldest_None in E. subst. inversion H; subst. split; [left; reflexivity|].
    intros k' v' t' [Hin|Hin]; [inversion Hin; lia | destruct Hin].
Qed.

(* ------------------------------------------------------------------------------------------- *)
(* the simulation relation *)

Definition ts (es : sentries) (k : key) : Z :=
  match @lookup (Z * Z) k es with Some (_, t) => t | None => 0 end.

Definition tsrel (es : sentries) (a b : key * Z) : Prop := ts es (fst a) > ts es (fst b).

Lemma ts_sset k' k v t es : ts (sset k v t es) k' = if key_eqb k' k then t else ts es k'.
Proof. unfold ts. rewrite lookup_sset. destruct (key_eqb k' k); reflexivity. Qed.

Record R (l : @cache Z) (s : sstate) : Prop := mkR {
  R_nd : NoDup (map fst l);
  R_snd : NoDup (map fst (ss_es s));
  R_len : length l = length (ss_es s);
  R_map : forall k, lookup k l = option_map fst (@lookup (Z * Z) k (ss_es s));
  R_sort : StronglySorted (tsrel (ss_es s)) l;
  R_clk : forall k v t, @lookup (Z * Z) k (ss_es s) = Some (v, t) -> t < ss_clock s }.

Lemma R_init : R [] sinit.
Proof.
  constructor; simpl; try constructor; intros; try reflexivity; discriminate.
Qed.

Lemma R_ts_lt l s b : R l s -> In b l -> ts (ss_es s) (fst b) < ss_clock s.
Proof.
  intros [ND SND LEN MAP SORT CLK] Hb. destruct b as [kb vb]. simpl.
  destruct (In_lookup_ex _ _ _ Hb) as [v' Hv']. rewrite MAP in Hv'.
  unfold ts. destruct (@lookup (Z * Z) kb (ss_es s)) as [[v1 t1]|] eqn:E; [|discriminate].
  eapply CLK; eauto.
Qed.

(* k becomes the most recently used key, bound to v *)
Lemma R_touch l s k v : R l s ->
  R ((k, v) :: remove_key k l) (mkS (sset k v (ss_clock s) (ss_es s)) (ss_clock s + 1)).
Proof.
  intros HR. pose proof HR as [ND SND LEN MAP SORT CLK].
  constructor; cbn [ss_es ss_clock].
  - cbn [map fst]. constructor; [|apply NoDup_remove_key; assumption].
    intros H. apply in_map_iff in H. destruct H as [x [Hx1 Hx2]].
    exact (In_remove_key_neq k l x ND Hx2 Hx1).
  - apply NoDup_sset; assumption.
  - rewrite sset_length. cbn [length]. specialize (MAP k).
    destruct (@lookup (Z * Z) k (ss_es s)) as [[v0 t0]|] eqn:E2; cbn in MAP.
    + rewrite (remove_key_length_Some _ _ _ MAP). exact LEN.
    + rewrite (remove_key_None _ _ MAP). f_equal. exact LEN.
  - intros k'. cbn [lookup]. rewrite lookup_sset, lookup_remove_key by assumption.
    destruct (key_eqb k' k); [reflexivity | apply MAP].
  - constructor.
    + eapply SS_impl; [apply SS_remove_key; exact SORT|].
      intros a b Ha Hb. unfold tsrel. rewrite !ts_sset.
      rewrite (neq_false (fst a) k) by exact (In_remove_key_neq k l a ND Ha).
      rewrite (neq_false (fst b) k) by exact (In_remove_key_neq k l b ND Hb).
      auto.
    + rewrite Forall_forall. intros b Hb. unfold tsrel. cbn [fst]. rewrite !ts_sset, key_eqb_refl.
      rewrite (neq_false (fst b) k) by exact (In_remove_key_neq k l b ND Hb).
      apply In_remove_key in Hb. pose proof (R_ts_lt _ _ _ HR Hb). lia.
  - intros k' v' t'. rewrite lookup_sset. destruct (key_eqb k' k); intros H.
    + inversion H; lia.
    + apply CLK in H. lia.
Qed.

(* k is dropped *)
Lemma R_del l s k : R l s -> R (remove_key k l) (mkS (sdel k (ss_es s)) (ss_clock s)).
Proof.
  intros HR. pose proof HR as [ND SND LEN MAP SORT CLK].
  rewrite sdel_eq.
  constructor; cbn [ss_es ss_clock].
  - apply NoDup_remove_key; assumption.
  - apply NoDup_remove_key; assumption.
  - specialize (MAP k).
    destruct (@lookup (Z * Z) k (ss_es s)) as [[v0 t0]|] eqn:E2; cbn in MAP.
    + pose proof (remove_key_length_Some _ _ _ MAP). pose proof (remove_key_length_Some _ _ _ E2). lia.
    + rewrite (remove_key_None _ _ MAP), (remove_key_None _ _ E2). exact LEN.
  - intros k'. rewrite !lookup_remove_key by assumption.
    destruct (key_eqb k' k); [reflexivity | apply MAP].
  - eapply SS_impl; [apply SS_remove_key; exact SORT|].
    intros a b Ha Hb. unfold tsrel, ts. rewrite !lookup_remove_key by assumption.
    rewrite (neq_false (fst a) k) by exact (In_remove_key_neq k l a ND Ha).
    rewrite (neq_false (fst b) k) by exact (In_remove_key_neq k l b ND Hb).
    auto.
  - intros k' v' t'. rewrite lookup_remove_key by assumption.
    destruct (key_eqb k' k); [discriminate | apply CLK].
Qed.

(* the back of the list is the entry with the smallest time *)
Lemma R_oldest l s r kx vx : R l s -> split_last l = Some (r, (kx, vx)) ->
  r = remove_key kx l /\ exists t, soldest (ss_es s) = Some (kx, (vx, t)).
Proof.
  intros [ND SND LEN MAP SORT CLK] HS. apply split_last_Some in HS. subst l.
  split; [symmetry; apply remove_key_last; assumption|].
  destruct (soldest (ss_es s)) as [[k [v t]]|] eqn:E.
  2: { apply soldest_None in E. rewrite E in LEN. rewrite app_length in LEN. simpl in LEN. lia. }
  destruct (soldest_Some _ _ _ _ E) as [HI HM].
  assert (Hk : @lookup (Z * Z) k (ss_es s) = Some (v, t)) by (apply In_lookup; assumption).
  assert (Hl : lookup k (r ++ [(kx, vx)]) = Some v) by (rewrite MAP, Hk; reflexivity).
  assert (Hlx : lookup kx (r ++ [(kx, vx)]) = Some vx)
    by (apply In_lookup; [assumption | apply in_or_app; right; simpl; auto]).
  pose proof (MAP kx) as Hmx. rewrite Hlx in Hmx.
  destruct (@lookup (Z * Z) kx (ss_es s)) as [[vx' tx]|] eqn:Ex; cbn in Hmx; [|discriminate].
  inversion Hmx; subst vx'.
  keq k kx Ek.
  - subst k. rewrite Hlx in Hl. inversion Hl; subst. exists t. reflexivity.
  - exfalso. apply lookup_In in Hl. apply in_app_or in Hl. destruct Hl as [Hl|Hl].
    + pose proof (SS_app_last _ _ _ SORT _ Hl) as Hgt. unfold tsrel, ts in Hgt. cbn [fst] in Hgt.
      rewrite Hk, Ex in Hgt. apply lookup_In in Ex. apply HM in Ex. lia.
    + simpl in Hl. destruct Hl as [Hl|[]]. inversion Hl. congruence.
Qed.

Lemma evict_sim l s : R l s ->
  R (fst (lru_remove_oldest l)) (mkS (fst (sevict_oldest (ss_es s))) (ss_clock s)) /\
  snd (lru_remove_oldest l) = snd (sevict_oldest (ss_es s)).
Proof.
  intros HR. unfold lru_remove_oldest, sevict_oldest.
  destruct (split_last l) as [[r [kx vx]]|] eqn:E.
  - destruct (R_oldest _ _ _ _ _ HR E) as [Hr [t Ht]]. rewrite Ht. cbn [fst snd]. subst r.
    split; [apply R_del; assumption | reflexivity].
  - apply split_last_None in E. subst l.
    assert (Hes : ss_es s = []).
    { destruct HR as [_ _ LEN _ _ _]. destruct (ss_es s); [reflexivity | discriminate]. }
    rewrite Hes. cbn [soldest fst snd]. split; [|reflexivity].
    destruct s as [es now]. cbn [ss_es ss_clock] in *. subst es. exact HR.
Qed.

Lemma out_eq v b (n m : nat) ev :
  n = m -> mkOut v b (Z.of_nat n) ev = mkOut v b (Z.of_nat m) ev.
Proof. intros; subst; reflexivity. Qed.

Lemma step max l s op : R l s ->
  R (fst (lru_apply max l op)) (fst (spec_apply max s op)) /\
  snd (lru_apply max l op) = snd (spec_apply max s op).
Proof.
  intros HR. pose proof HR as [ND SND LEN MAP SORT CLK].
  destruct op as [k v|k|k| |]; unfold lru_apply, spec_apply; rewrite ?slookup_eq;
    unfold lru_len, slen.
  - (* Add *)
    unfold lru_add. pose proof (MAP k) as Mk. pose proof (R_touch _ _ k v HR) as HT.
    pose proof (R_len _ _ HT) as HL. cbn [ss_es] in HL.
    destruct (lookup k l) as [v0|] eqn:El;
      destruct (@lookup (Z * Z) k (ss_es s)) as [[v1 t1]|] eqn:Es; cbn in Mk; try discriminate.
    + cbn [fst snd]. split; [exact HT | apply out_eq; exact HL].
    + rewrite (remove_key_None _ _ El) in HT, HL. rewrite <- HL.
      destruct (negb (max =? 0) && (Z.of_nat (length ((k, v) :: l)) >? max)).
      * pose proof (evict_sim _ _ HT) as [HE1 HE2]. cbn [ss_es ss_clock] in HE1, HE2.
        pose proof (R_len _ _ HE1) as HL2. cbn [ss_es] in HL2.
        destruct (lru_remove_oldest ((k, v) :: l)) as [l' ev].
        destruct (sevict_oldest (sset k v (ss_clock s) (ss_es s))) as [es' ev'].
        cbn [fst snd] in *. subst ev'. split; [exact HE1 | apply out_eq; exact HL2].
      * cbn [fst snd]. split; [exact HT | reflexivity].
  - (* Get *)
    unfold lru_get. pose proof (MAP k) as Mk.
    destruct (lookup k l) as [v0|] eqn:El;
      destruct (@lookup (Z * Z) k (ss_es s)) as [[v1 t1]|] eqn:Es; cbn in Mk; try discriminate.
    + inversion Mk; subst v1. cbn [fst snd]. split; [apply R_touch; exact HR|].
      apply out_eq. cbn [length]. rewrite (remove_key_length_Some _ _ _ El). exact LEN.
    + cbn [fst snd]. split; [exact HR | apply out_eq; exact LEN].
  - (* Remove *)
    unfold lru_remove. pose proof (MAP k) as Mk.
    destruct (lookup k l) as [v0|] eqn:El;
      destruct (@lookup (Z * Z) k (ss_es s)) as [[v1 t1]|] eqn:Es; cbn in Mk; try discriminate.
    + inversion Mk; subst v1. pose proof (R_del _ _ k HR) as HD.
      pose proof (R_len _ _ HD) as HL. cbn [ss_es] in HL.
      cbn [fst snd nonempty]. split; [exact HD | apply out_eq; exact HL].
    + cbn [fst snd nonempty]. split; [exact HR | apply out_eq; exact LEN].
  - (* RemoveOldest *)
    pose proof (evict_sim _ _ HR) as [HE1 HE2].
    pose proof (R_len _ _ HE1) as HL2. cbn [ss_es] in HL2.
    destruct (lru_remove_oldest l) as [l' ev].
    destruct (sevict_oldest (ss_es s)) as [es' ev'].
    cbn [fst snd] in *. subst ev'. split; [exact HE1 | apply out_eq; exact HL2].
  - (* Len *)
    cbn [fst snd]. split; [exact HR | apply out_eq; exact LEN].
Qed.

Lemma run_sim max ops : forall l s, R l s ->
  R (fst (lru_run max l ops)) (fst (spec_run max s ops)) /\
  snd (lru_run max l ops) = snd (spec_run max s ops).
Proof.
  induction ops as [|op ops IH]; intros l s HR; cbn [lru_run spec_run].
  - split; [assumption | reflexivity].
  - destruct (step max l s op HR) as [H1 H2].
    destruct (lru_apply max l op) as [l1 o]; destruct (spec_apply max s op) as [s1 o'].
    cbn [fst snd] in H1, H2. subst o'.
    destruct (IH _ _ H1) as [H3 H4].
    destruct (lru_run max l1 ops) as [l2 os]; destruct (spec_run max s1 ops) as [s2 os'].
    cbn [fst snd] in *. subst os'. split; [assumption | reflexivity].
Qed.

(* ------------------------------------------------------------------------------------------- *)
(* the capacity bound *)

Lemma apply_len max l op :
  o_len (snd (lru_apply max l op)) = Z.of_nat (length (fst (lru_apply max l op))).
Proof.
  destruct op as [k v|k|k| |]; unfold lru_apply, lru_len.
  - destruct (lru_add max l k v); reflexivity.
  - destruct (lru_get l k); reflexivity.
  - destruct (lru_remove l k); reflexivity.
  - destruct (lru_remove_oldest l); reflexivity.
  - reflexivity.
Qed.

Lemma remove_oldest_len {V} (l : @cache V) :
  (length (fst (lru_remove_oldest l)) = pred (length l))%nat.
Proof.
  unfold lru_remove_oldest. destruct (split_last l) as [[r x]|] eqn:E.
  - apply split_last_Some in E. subst l. cbn [fst]. rewrite app_length. simpl. lia.
  - apply split_last_None in E. subst l. reflexivity.
Qed.

Lemma apply_bounded max l op : 0 < max -> Z.of_nat (length l) <= max ->
  Z.of_nat (length (fst (lru_apply max l op))) <= max.
Proof.
  intros Hmax Hl.
  destruct op as [k v|k|k| |]; unfold lru_apply.
  - unfold lru_add. destruct (lookup k l) as [v0|] eqn:El.
    + cbn [fst length]. rewrite (remove_key_length_Some _ _ _ El). exact Hl.
    + destruct (negb (max =? 0) && (Z.of_nat (length ((k, v) :: l)) >? max)) eqn:C.
      * pose proof (remove_oldest_len ((k, v) :: l)) as HL.
        destruct (lru_remove_oldest ((k, v) :: l)) as [l' ev]. cbn [fst length] in *. lia.
      * cbn [fst]. lia.
  - unfold lru_get. destruct (lookup k l) as [v0|] eqn:El.
    + cbn [fst length]. rewrite (remove_key_length_Some _ _ _ El). exact Hl.
    + exact Hl.
  - unfold lru_remove. destruct (lookup k l) as [v0|] eqn:El.
    + cbn [fst]. pose proof (remove_key_length_le k l). lia.
    + exact Hl.
  - pose proof (remove_oldest_len l) as HL.
    destruct (lru_remove_oldest l) as [l' ev]. cbn [fst] in *. lia.
  - exact Hl.
Qed.

Lemma run_bounded max ops : 0 < max -> forall l, Z.of_nat (length l) <= max ->
  Z.of_nat (length (fst (lru_run max l ops))) <= max /\
  Forall (fun o => o_len o <= max) (snd (lru_run max l ops)).
Proof.
  intros Hmax. induction ops as [|op ops IH]; intros l Hl; cbn [lru_run].
  - split; [exact Hl | constructor].
  - pose proof (apply_bounded max l op Hmax Hl) as H1.
    pose proof (apply_len max l op) as H2.
    destruct (lru_apply max l op) as [l1 o]. cbn [fst snd] in H1, H2.
    destruct (IH _ H1) as [H3 H4].
    destruct (lru_run max l1 ops) as [l2 os]. cbn [fst snd] in *.
    split; [exact H3 | constructor; [lia | exact H4]].
Qed.

(* ------------------------------------------------------------------------------------------- *)
(* the three results *)

Lemma lru_refines_spec_lemma : forall (max : Z) (ops : list lru_op),
  snd (lru_run max [] ops) = snd (spec_run max sinit ops).
Proof. intros max ops. apply run_sim. apply R_init. Qed.

Lemma lru_run_bounded_lemma : forall (max : Z) (ops : list lru_op), 0 < max ->
  Z.of_nat (length (fst (lru_run max [] ops))) <= max /\ Forall (fun o => o_len o <= max) (snd (lru_run max [] ops)).
Proof. intros max ops Hmax. apply run_bounded; [exact Hmax | simpl; lia]. Qed.

Lemma lru_run_nodup_lemma : forall (max : Z) (ops : list lru_op),
  NoDup (map fst (fst (lru_run max [] ops))).
Proof.
  intros max ops. destruct (run_sim max ops [] sinit R_init) as [HR _]. exact (R_nd _ _ HR).
Qed.

Print Assumptions lru_refines_spec_lemma.
Print Assumptions lru_run_bounded_lemma.
Print Assumptions lru_run_nodup_lemma.
