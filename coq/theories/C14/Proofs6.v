(* C14/Proofs6.v -- the combined invariant over every reachable state, and the lemmas behind the
   theorems of Props.v that follow from it. *)
From GocqlV Require Import Lib.Base C14.Model C14.Spec C14.Proofs1 C14.Proofs2 C14.Proofs3 C14.Proofs4 C14.Proofs5.

(* a Query has one statement, and it is prepared; entries and kind of an executor never change *)
Definition shape_inv (s : state) : Prop := Forall (fun x => spawn_ok (x_batch x) (x_entries x) = true) (s_execs s).

Lemma shape_inv_step s l s' : shape_inv s -> step s l = Some s' -> shape_inv s'.
Proof.
  intros SI H. unfold shape_inv in *. destruct l; step_inv H; cbn; rewrite ?evict_execs; try assumption.
  all: try (apply Forall_app; split; [assumption|]; constructor; [assumption|constructor]).
  all: name_hyps; apply Forall_upd; [assumption|]; cbn;
       pose proof (Forall_nth_error _ _ _ _ SI HX) as P; cbn in P;
       repeat match goal with Hb : x_batch _ = _ |- _ => rewrite Hb in P; clear Hb end; exact P.
Qed.

Record inv (s : state) : Prop := mkInv {
  inv_cache : cache_inv s;
  inv_execs : execs_inv s;
  inv_flights : flights_logged s;
  inv_sends : sends_ok (s_log s);
  inv_nopanic : no_panic_log (s_log s);
  inv_counts : counts_inv s;
  inv_prepares : prepares_inv s;
  inv_shape : shape_inv s }.

Lemma inv_init max : inv (init max).
Proof.
  constructor.
  - apply cache_inv_init.
  - apply execs_inv_init.
  - apply flights_logged_init.
  - exact Logic.I.
  - intros H; exact H.
  - apply counts_inv_init.
  - apply prepares_inv_init.
  - constructor.
Qed.

Lemma inv_step s l s' : inv s -> step s l = Some s' -> inv s'.
Proof.
  intros [I1 I2 I3 I4 I5 I6 I7 I8] H. constructor.
  - eapply cache_inv_step; eauto.
  - eapply execs_inv_step; eauto.
  - eapply flights_logged_step; eauto.
  - eapply sends_ok_step; eauto.
  - eapply nopanic_step; eauto.
  - eapply counts_inv_step; eauto.
  - eapply prepares_inv_step; eauto.
  - eapply shape_inv_step; eauto.
Qed.

Lemma inv_run ls : forall s s', inv s -> run s ls = Some s' -> inv s'.
Proof.
  induction ls as [|l ls IH]; simpl; intros s s' I H.
  - inversion H; subst. assumption.
  - destruct (step s l) as [s1|] eqn:E; [|discriminate]. eapply IH; [|exact H]. eapply inv_step; eauto.
Qed.

Lemma run_max ls : forall s s', run s ls = Some s' -> s_max s' = s_max s.
Proof.
  induction ls as [|l ls IH]; simpl; intros s s' H.
  - inversion H; reflexivity.
  - destruct (step s l) as [s1|] eqn:E; [|discriminate]. rewrite (IH _ _ H). eapply step_max; eauto.
Qed.

Lemma inv_reachable max ls s : run (init max) ls = Some s -> inv s /\ s_max s = max.
Proof. intros H. split; [eapply inv_run; [apply inv_init|exact H]|]. apply (run_max _ _ _ H). Qed.

Lemma run_app ls1 ls2 s : run s (ls1 ++ ls2) = match run s ls1 with Some s1 => run s1 ls2 | None => None end.
Proof. revert s. induction ls1 as [|l ls1 IH]; simpl; intros s; [reflexivity|]. destruct (step s l); [apply IH|reflexivity]. Qed.

(* ---- cache bounded ---- *)
Lemma cache_bounded_lemma max ls s :
  run (init max) ls = Some s ->
  NoDup (map fst (s_cache s)) /\ (0 < max -> Z.of_nat (length (s_cache s)) <= max).
Proof.
  intros H. destruct (inv_reachable _ _ _ H) as [[[I1 I2 _ _] _ _ _ _ _ _ _] E]. rewrite E in I2. auto.
Qed.

(* ---- one PREPARE per generation ---- *)
Lemma generations_lemma max ls s :
  run (init max) ls = Some s ->
  forall k,
    count_ev (is_create k) (s_log s) = (count_ev (is_gone k) (s_log s) + cnt_key k (s_cache s))%nat /\
    (cnt_key k (s_cache s) <= 1)%nat /\
    (count_ev (is_prepare_for k) (s_log s) <= count_ev (is_create k) (s_log s))%nat.
Proof.
  intros H k. destruct (inv_reachable _ _ _ H) as [[[I1 _ _ _] _ _ _ _ I6 I7 _] _].
  split; [apply I6|]. split; [apply cnt_key_nodup; assumption|]. specialize (I7 k). lia.
Qed.

Lemma prepares_bounded_lemma max ls s :
  run (init max) ls = Some s -> prepares_bounded_by_generations (rev (s_log s)).
Proof.
  intros H k. destruct (generations_lemma _ _ _ H k) as [A [B C]]. rewrite !count_ev_rev. lia.
Qed.

(* a lookup that finds the key returns the cached flight, creates nothing, and the entry stays *)
Lemma lookup_hit_lemma s e x en f :
  NoDup (map fst (s_cache s)) ->
  nth_error (s_execs s) e = Some x -> x_phase x = PStart ->
  nth_error (x_entries x) (x_pos x) = Some en -> e_prep en = true ->
  lookup (key_for (x_triple x en)) (s_cache s) = Some f ->
  exists s', step s (LLookup e) = Some s' /\
             s_flights s' = s_flights s /\ s_log s' = EvHit e f :: s_log s /\
             nth_error (s_execs s') e = Some (set_phase x (PWait f)) /\
             (forall k, lookup k (s_cache s') = lookup k (s_cache s)).
Proof.
  intros ND HX HP HE HPr L. unfold step. rewrite HX, HP, HE, HPr.
  rewrite (lru_get_hit _ _ _ L). eexists. split; [reflexivity|].
  cbn [s_flights s_log s_execs s_cache add_log set_exec with_cache with_execs app].
  split; [reflexivity|]. split; [reflexivity|]. split; [eapply nth_error_upd_eq; eauto|].
  intros k. eapply lru_get_lookup; [exact ND|apply lru_get_hit; exact L].
Qed.

Lemma lookup_app_nodup {V} (c ev : @cache V) k v :
  NoDup (map fst (c ++ ev)) -> lookup k (c ++ ev) = Some v -> lookup k c = Some v \/ In (k, v) ev.
Proof.
  intros ND L. apply lookup_In in L. apply in_app_or in L. destruct L as [L|L]; [|auto].
  left. apply In_lookup; [|assumption]. rewrite map_app in ND. eapply nodup_app_l; eauto.
Qed.

Lemma in_gone_events k f why ev : In (k, f) ev -> In (EvGone k f why) (gone_events why ev).
Proof. intros H. unfold gone_events. apply in_map_iff. exists (k, f). auto. Qed.

Lemma evict_entry_stays s k0 id k f :
  cache_inv s -> lookup k (s_cache s) = Some f ->
  exists evs, s_log (evict_prepared_id s k0 id) = evs ++ s_log s /\
    (lookup k (s_cache (evict_prepared_id s k0 id)) = Some f \/ exists why, In (EvGone k f why) evs).
Proof.
  intros [I1 _ _ _] L.
  destruct (evict_cases s k0 id) as [c r G EC EL _|c f0 fl cnt meta c' ev G _ _ _ R EC EL|c f0 fl G _ _ _ EC EL]; rewrite EC, EL.
  - exists []. split; [reflexivity|]. left. rewrite (lru_get_lookup _ _ _ _ k I1 G). assumption.
  - exists (gone_events 2 ev). split; [reflexivity|].
    assert (Lc : lookup k c = Some f) by (rewrite (lru_get_lookup _ _ _ _ k I1 G); assumption).
    destruct (key_eqb k k0) eqn:E.
    + apply key_eqb_eq in E. subst k0. right. exists 2. apply in_gone_events.
      rewrite (lru_remove_ev _ _ _ _ R), Lc. left. reflexivity.
    + apply key_eqb_neq in E. left. rewrite (lru_remove_other _ _ _ _ k E R). assumption.
  - exists [EvPanic]. split; [reflexivity|]. left. rewrite (lru_get_lookup _ _ _ _ k I1 G). assumption.
Qed.

(* between two steps an entry stays, or the history says that it went *)
Lemma entry_stays_lemma s l s' k f :
  cache_inv s -> step s l = Some s' -> lookup k (s_cache s) = Some f ->
  exists evs, s_log s' = evs ++ s_log s /\
    (lookup k (s_cache s') = Some f \/ exists why, In (EvGone k f why) evs).
Proof.
  intros CI H L. pose proof CI as [I1 _ _ _]. destruct l; step_inv H; cbn.
  all: try (exists []; split; [reflexivity|left; assumption]).
  all: try match goal with
       | |- exists evs, ?a :: ?L = evs ++ ?L /\ _ => exists [a]; split; [reflexivity|left; assumption]
       end.
  - (* LLookup hit *)
    name_hyps. exists [EvHit e n]. split; [reflexivity|]. left. rewrite (lru_get_lookup _ _ _ _ k I1 HG). assumption.
  - (* LLookup miss *)
    name_hyps. eexists. split; [reflexivity|].
    assert (L0 : lookup (key_for (x_triple e0 e1)) (s_cache s) = None) by (apply lru_get_result in HG; congruence).
    destruct (lru_add_miss_spec _ _ _ _ _ _ L0 HA) as [E _].
    assert (ND : NoDup (map fst (c0 ++ l))).
    { rewrite <- E. simpl. constructor; [apply lookup_None_notin; assumption|assumption]. }
    assert (Lk : lookup k (c0 ++ l) = Some f).
    { rewrite <- E. simpl. destruct (key_eqb k (key_for (x_triple e0 e1))) eqn:EK; [|assumption].
      apply key_eqb_eq in EK. subst k. congruence. }
    destruct (lookup_app_nodup _ _ _ _ ND Lk) as [A|A]; [left; assumption|].
    right. exists 0. apply in_or_app. left. apply -> in_rev. apply in_gone_events. assumption.
  - (* LPrepFail FCreated *)
    name_hyps. eexists. split; [reflexivity|].
    destruct (key_eqb k (key_for (fl_triple f1))) eqn:E.
    + apply key_eqb_eq in E. subst k. right. exists 1. apply in_or_app. left. apply -> in_rev.
      apply in_gone_events. rewrite (lru_remove_ev _ _ _ _ HR), L. left. reflexivity.
    + apply key_eqb_neq in E. left. rewrite (lru_remove_other _ _ _ _ k E HR). assumption.
  - (* LPrepFail FSent *)
    name_hyps. eexists. split; [reflexivity|].
    destruct (key_eqb k (key_for (fl_triple f1))) eqn:E.
    + apply key_eqb_eq in E. subst k. right. exists 1. apply in_or_app. left. apply -> in_rev.
      apply in_gone_events. rewrite (lru_remove_ev _ _ _ _ HR), L. left. reflexivity.
    + apply key_eqb_neq in E. left. rewrite (lru_remove_other _ _ _ _ k E HR). assumption.
  - apply evict_entry_stays; assumption.
  - apply evict_entry_stays; assumption.
Qed.

(* ---- failures are not cached ---- *)
Lemma failure_not_cached_lemma max ls s k f fl :
  run (init max) ls = Some s -> In (k, f) (s_cache s) -> nth_error (s_flights s) f = Some fl ->
  (forall err, fl_status fl <> FFailed err) /\
  (fl_done fl = true -> exists id cnt meta, fl_status fl = FOk id cnt meta).
Proof.
  intros H HI HF. destruct (inv_reachable _ _ _ H) as [[[_ _ I3 I4] _ _ _ _ _ _ _] _].
  rewrite Forall_forall in I3. destruct (I3 _ HI) as [fl0 [A [_ C]]]. simpl in A. rewrite HF in A. inversion A; subst fl0.
  split.
  - intros err E. rewrite E in C. exact C.
  - intros D. pose proof (Forall_nth_error _ _ _ _ I4 HF D) as W.
    destruct (fl_status fl) as [| |id cnt meta|err]; try contradiction. eauto.
Qed.

Lemma fail_step_removes_lemma s f err s' fl :
  cache_inv s -> nth_error (s_flights s) f = Some fl -> step s (LPrepFail f err) = Some s' ->
  lookup (key_for (fl_triple fl)) (s_cache s') = None /\
  nth_error (s_flights s') f = Some (mkFlight (fl_triple fl) (FFailed err) false).
Proof.
  intros [I1 _ _ _] HF1 H. step_inv H; name_hyps; assert (EQ : f0 = fl) by congruence; subst f0; cbn.
  all: split; [eapply lru_remove_gone; eauto|eapply nth_error_upd_eq; eauto].
Qed.

(* ---- history form of "never a foreign id, never a wrong count" ---- *)
Lemma sends_ok_split L : sends_ok L -> forall L2 e b host ks items L1,
  L = L2 ++ EvSend e b host ks items :: L1 -> Forall (item_ok L1 host ks) items.
Proof.
  induction L as [|ev L IH]; intros SO L2 e b host ks items L1 E.
  - destruct L2; discriminate.
  - destruct SO as [S1 S2]. destruct L2 as [|x L2]; simpl in E; inversion E; subst.
    + exact S1.
    + eapply IH; eauto.
Qed.

Lemma rev_eq_app {A} (l : list A) a x b : rev l = a ++ x :: b -> l = rev b ++ x :: rev a.
Proof.
  intros H. rewrite <- (rev_involutive l), H, rev_app_distr. simpl. rewrite <- app_assoc. reflexivity.
Qed.

Lemma sends_use_returned_ids_lemma max ls s :
  run (init max) ls = Some s -> sends_use_returned_ids (rev (s_log s)).
Proof.
  intros H h1 h2 e b host ks items st id meta n E HI.
  destruct (inv_reachable _ _ _ H) as [[_ _ _ I4 _ _ _ _] _].
  apply rev_eq_app in E.
  pose proof (sends_ok_split _ I4 _ _ _ _ _ _ _ E) as F. rewrite Forall_forall in F.
  specialize (F _ HI). simpl in F. destruct F as [f [t [K [l3 [l2 [l1 R]]]]]].
  exists f, t, (rev l1), (rev l2), (rev l3). split; [assumption|].
  rewrite <- (rev_involutive h1), R. rewrite rev_app_distr. simpl. rewrite rev_app_distr. simpl.
  rewrite <- !app_assoc. reflexivity.
Qed.

Lemma no_panic_lemma max ls s : run (init max) ls = Some s -> no_panic (rev (s_log s)).
Proof.
  intros H. destruct (inv_reachable _ _ _ H) as [[_ _ _ _ I5 _ _ _] _].
  intros X. apply I5. apply in_rev. assumption.
Qed.
