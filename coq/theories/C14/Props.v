(* C14/Props.v -- the proof obligations for property C14 (prepared statements), and nothing else.
   Each theorem is closed by [exact] of a lemma from the Proofs files and followed by Print Assumptions.

   Reading guide.  [run (init max) ls = Some s] means: s is the state of a session whose prepared-statement
   cache has capacity max (ClusterConfig.MaxPreparedStmts) after the atomic actions ls, in that order -
   any number of executors (LSpawn), any interleaving of their cache lookups (LLookup) with the winner
   goroutines' PREPARE traffic (LPrepSend / LPrepOk / LPrepFail / LClose), wake-ups, context
   cancellations, EXECUTE / BATCH frames and the server's answers including UNPREPARED.  The server and
   the scheduler are the quantified label list: nothing is assumed about them unless a theorem says so.
   [s_log s] is the history (newest first); Spec.v phrases the property over [rev (s_log s)]. *)
From GocqlV Require Import Lib.Base Gen.Consts C14.Model C14.Spec.
From GocqlV Require Import C14.Proofs1 C14.Proofs2 C14.Proofs3 C14.Proofs4 C14.Proofs5 C14.Proofs6 C14.Proofs7 C14.Proofs8 C14.Proofs9 C14.Proofs10.
From GocqlV Require C14.ProofsLruSpec.

(* ------------------------------------------------------------------------------------------- *)
(* internal/lru *)

(* The list implementation behaves, for every operation sequence and every capacity (also 0 = no limit
   and negative), exactly like the independent specification "finite map + time of last use, the least
   recently used key goes when a new one does not fit": same values, same hits, same Len, same evictions. *)
Theorem C14_lru_refines_spec : forall (max : Z) (ops : list lru_op),
  snd (lru_run max [] ops) = snd (spec_run max sinit ops).
Proof. exact ProofsLruSpec.lru_refines_spec_lemma. Qed.
Print Assumptions C14_lru_refines_spec.

(* The cache never holds more than its capacity, after any operation sequence and at every step. *)
Theorem C14_lru_len_le_max : forall (max : Z) (ops : list lru_op), 0 < max ->
  Z.of_nat (length (fst (lru_run max [] ops))) <= max /\ Forall (fun o => o_len o <= max) (snd (lru_run max [] ops)).
Proof. exact ProofsLruSpec.lru_run_bounded_lemma. Qed.
Print Assumptions C14_lru_len_le_max.

Theorem C14_lru_nodup_keys : forall (max : Z) (ops : list lru_op), NoDup (map fst (fst (lru_run max [] ops))).
Proof. exact ProofsLruSpec.lru_run_nodup_lemma. Qed.
Print Assumptions C14_lru_nodup_keys.

(* ------------------------------------------------------------------------------------------- *)
(* the session's prepared-statement cache under any schedule *)

(* "the cache never exceeds its configured size" (and no key twice), in every reachable state *)
Theorem C14_cache_bounded : forall max ls s, run (init max) ls = Some s ->
  NoDup (map fst (s_cache s)) /\ (0 < max -> Z.of_nat (length (s_cache s)) <= max).
Proof. exact cache_bounded_lemma. Qed.
Print Assumptions C14_cache_bounded.

(* "prepared once": for every cache key, the number of in-flight-PREPARE objects ever created equals the
   number of times an entry for that key left the cache (capacity eviction, removal after a failure,
   eviction after UNPREPARED) plus one if an entry is there now; there is at most one entry per key; and
   PREPARE frames for the key are at most the objects created.  Hence PREPAREs <= 1 + generations ended. *)
Theorem C14_single_flight : forall max ls s, run (init max) ls = Some s ->
  prepares_bounded_by_generations (rev (s_log s)) /\
  forall k,
    count_ev (is_create k) (s_log s) = (count_ev (is_gone k) (s_log s) + cnt_key k (s_cache s))%nat /\
    (cnt_key k (s_cache s) <= 1)%nat /\
    (count_ev (is_prepare_for k) (s_log s) <= count_ev (is_create k) (s_log s))%nat.
Proof.
  intros max ls s H. split; [exact (prepares_bounded_lemma max ls s H)|exact (generations_lemma max ls s H)].
Qed.
Print Assumptions C14_single_flight.

(* ... and every execution that looks the statement up while the entry is there gets that very flight:
   the lookup is enabled, creates nothing, sends nothing, and leaves every entry in place. *)
Theorem C14_lookup_returns_cached_flight : forall max ls s e x en f,
  run (init max) ls = Some s ->
  nth_error (s_execs s) e = Some x -> x_phase x = PStart ->
  nth_error (x_entries x) (x_pos x) = Some en -> e_prep en = true ->
  lookup (key_for (x_triple x en)) (s_cache s) = Some f ->
  exists s', step s (LLookup e) = Some s' /\
             s_flights s' = s_flights s /\ s_log s' = EvHit e f :: s_log s /\
             nth_error (s_execs s') e = Some (set_phase x (PWait f)) /\
             (forall k, lookup k (s_cache s') = lookup k (s_cache s)).
Proof.
  intros max ls s e x en f H. destruct (cache_bounded_lemma _ _ _ H) as [ND _]. apply lookup_hit_lemma. exact ND.
Qed.
Print Assumptions C14_lookup_returns_cached_flight.

(* an entry stays where it is, whatever happens, unless the history records that it went *)
Theorem C14_entry_stays_until_gone : forall max ls s l s' k f,
  run (init max) ls = Some s -> step s l = Some s' -> lookup k (s_cache s) = Some f ->
  exists evs, s_log s' = evs ++ s_log s /\
    (lookup k (s_cache s') = Some f \/ exists why, In (EvGone k f why) evs).
Proof.
  intros max ls s l s' k f H. destruct (inv_reachable _ _ _ H) as [[CI _ _ _ _ _ _ _] _]. apply entry_stays_lemma. exact CI.
Qed.
Print Assumptions C14_entry_stays_until_gone.

(* "a failed PREPARE ... is not remembered": no cached flight has failed, and a cached flight whose done
   channel is closed carries a result (so evictPreparedID never dereferences a nil preparedStatment) *)
Theorem C14_failure_not_cached : forall max ls s k f fl,
  run (init max) ls = Some s -> In (k, f) (s_cache s) -> nth_error (s_flights s) f = Some fl ->
  (forall err, fl_status fl <> FFailed err) /\
  (fl_done fl = true -> exists id cnt meta, fl_status fl = FOk id cnt meta).
Proof. exact failure_not_cached_lemma. Qed.
Print Assumptions C14_failure_not_cached.

(* the failing step itself removes whatever is cached under the statement's key *)
Theorem C14_failure_removes_entry : forall max ls s f err s' fl,
  run (init max) ls = Some s -> nth_error (s_flights s) f = Some fl -> step s (LPrepFail f err) = Some s' ->
  lookup (key_for (fl_triple fl)) (s_cache s') = None /\
  nth_error (s_flights s') f = Some (mkFlight (fl_triple fl) (FFailed err) false).
Proof.
  intros max ls s f err s' fl H. destruct (inv_reachable _ _ _ H) as [[CI _ _ _ _ _ _ _] _]. apply fail_step_removes_lemma. exact CI.
Qed.
Print Assumptions C14_failure_removes_entry.

(* "a failed PREPARE is reported to everyone waiting on it": every executor that holds the failed flight
   can take the wake-up step and gets exactly that error *)
Theorem C14_failure_reported : forall max ls s e x f fl err,
  run (init max) ls = Some s ->
  nth_error (s_execs s) e = Some x -> x_phase x = PWait f ->
  nth_error (s_flights s) f = Some fl -> fl_done fl = true -> fl_status fl = FFailed err ->
  exists s', step s (LWake e) = Some s' /\
    nth_error (s_execs s') e = Some (set_phase x (PDone (RErr err))) /\
    s_log s' = EvResult e (RErr err) :: s_log s.
Proof. exact failure_reported_lemma. Qed.
Print Assumptions C14_failure_reported.

(* ... and a waiting executor stays exactly as it is until it is cancelled or woken, and when woken it
   gets the outcome of the flight it holds (error; or id + metadata, then the bound-value count check) *)
Theorem C14_waiter_outcome : forall s l s' e x f,
  step s l = Some s' -> nth_error (s_execs s) e = Some x -> x_phase x = PWait f ->
  (nth_error (s_execs s') e = Some x) \/
  (l = LCancel e /\ nth_error (s_execs s') e = Some (set_phase x (PDone RCancelled))) \/
  (l = LWake e /\ exists fl, nth_error (s_flights s) f = Some fl /\ fl_done fl = true /\
     match fl_status fl with
     | FFailed err => nth_error (s_execs s') e = Some (set_phase x (PDone (RErr err)))
     | FOk id cnt meta =>
         exists en, nth_error (x_entries x) (x_pos x) = Some en /\
           if e_nvals en =? cnt
           then nth_error (s_execs s') e = Some (mkExec (x_batch x) (x_host x) (x_ks x) (x_entries x) (S (x_pos x))
                                                        (x_got x ++ [Some (mkGot (e_stmt en) f id cnt meta)]) PStart)
           else nth_error (s_execs s') e = Some (set_phase x (PDone (RCount (x_pos x) cnt (e_nvals en))))
     | _ => False
     end).
Proof. exact waiter_leaves_lemma. Qed.
Print Assumptions C14_waiter_outcome.

(* "when a server answers that it does not know a prepared id, the driver prepares again": UNPREPARED
   carrying the id of the cached, finished PREPARE evicts the entry and restarts the execution ... *)
Theorem C14_reprepare_evicts : forall max ls s e x en f fl id cnt meta,
  run (init max) ls = Some s ->
  nth_error (s_execs s) e = Some x -> x_batch x = false -> x_phase x = PSent ->
  nth_error (x_entries x) 0 = Some en ->
  lookup (key_for (x_triple x en)) (s_cache s) = Some f ->
  nth_error (s_flights s) f = Some fl -> fl_done fl = true -> fl_status fl = FOk id cnt meta ->
  exists s', step s (LReplyUnprep e id) = Some s' /\
    lookup (key_for (x_triple x en)) (s_cache s') = None /\
    nth_error (s_execs s') e = Some (mkExec false (x_host x) (x_ks x) (x_entries x) 0 [] PStart) /\
    s_log s' = EvGone (key_for (x_triple x en)) f 2 :: s_log s /\
    s_flights s' = s_flights s.
Proof.
  intros max ls s e x en f fl id cnt meta H. destruct (inv_reachable _ _ _ H) as [[CI _ _ _ _ _ _ _] _].
  apply unprep_evicts_lemma. exact CI.
Qed.
Print Assumptions C14_reprepare_evicts.

(* the same for a batch: the statement to evict is the one whose PREPARE returned that id to this batch
   (stmts[string(info.id)], a later entry with the same id wins) *)
Theorem C14_reprepare_evicts_batch : forall max ls s e x st f fl id cnt meta,
  run (init max) ls = Some s ->
  nth_error (s_execs s) e = Some x -> x_batch x = true -> x_phase x = PSent ->
  batch_stmt_of_id (x_got x) id None = Some st ->
  lookup (key_for (mkTriple (x_host x) (x_ks x) st)) (s_cache s) = Some f ->
  nth_error (s_flights s) f = Some fl -> fl_done fl = true -> fl_status fl = FOk id cnt meta ->
  exists s', step s (LReplyUnprep e id) = Some s' /\
    lookup (key_for (mkTriple (x_host x) (x_ks x) st)) (s_cache s') = None /\
    nth_error (s_execs s') e = Some (mkExec true (x_host x) (x_ks x) (x_entries x) 0 [] PStart) /\
    s_log s' = EvGone (key_for (mkTriple (x_host x) (x_ks x) st)) f 2 :: s_log s.
Proof.
  intros max ls s e x st f fl id cnt meta H. destruct (inv_reachable _ _ _ H) as [[CI _ _ _ _ _ _ _] _].
  apply unprep_evicts_batch_lemma. exact CI.
Qed.
Print Assumptions C14_reprepare_evicts_batch.

(* ... but only then: another id, or a PREPARE still in flight, leaves the entry alone *)
Theorem C14_reprepare_only_matching_id : forall max ls s e x en f fl id,
  run (init max) ls = Some s ->
  nth_error (s_execs s) e = Some x -> x_batch x = false -> x_phase x = PSent ->
  nth_error (x_entries x) 0 = Some en ->
  lookup (key_for (x_triple x en)) (s_cache s) = Some f ->
  nth_error (s_flights s) f = Some fl ->
  (fl_done fl = false \/ exists id' cnt meta, fl_status fl = FOk id' cnt meta /\ id' <> id) ->
  exists s', step s (LReplyUnprep e id) = Some s' /\
    lookup (key_for (x_triple x en)) (s_cache s') = Some f /\ s_log s' = s_log s.
Proof.
  intros max ls s e x en f fl id H. destruct (inv_reachable _ _ _ H) as [[CI _ _ _ _ _ _ _] _].
  apply unprep_keeps_lemma. exact CI.
Qed.
Print Assumptions C14_reprepare_only_matching_id.

(* "... and the query still succeeds with the new id": from any state in which a query executor starts
   over and its statement is not cached, against a server that answers the PREPARE (with any id) and
   accepts the following EXECUTE, the run exists: one new PREPARE of exactly that statement, an EXECUTE
   with the id just returned, success.  (No reachability or fairness premise: s is arbitrary.) *)
Theorem C14_reprepare_succeeds : forall s e h ks en id meta,
  nth_error (s_execs s) e = Some (mkExec false h ks [en] 0 [] PStart) -> e_prep en = true ->
  lookup (key_for (mkTriple h ks (e_stmt en))) (s_cache s) = None ->
  exists s' evs,
    run s (reprepare_labels e (length (s_flights s)) id (e_nvals en) meta) = Some s' /\
    nth_error (s_execs s') e =
      Some (mkExec false h ks [en] 1 [Some (mkGot (e_stmt en) (length (s_flights s)) id (e_nvals en) meta)] (PDone ROk)) /\
    s_log s' = EvResult e ROk :: EvSend e false h ks [(e_stmt en, Some (id, meta), e_nvals en)]
                 :: EvPrepared (length (s_flights s)) id (e_nvals en) meta
                 :: EvPrepare (length (s_flights s)) (mkTriple h ks (e_stmt en))
                 :: evs ++ EvCreate (length (s_flights s)) (key_for (mkTriple h ks (e_stmt en))) :: s_log s.
Proof. exact reprepare_path_lemma. Qed.
Print Assumptions C14_reprepare_succeeds.

(* "all of them then execute with the id that PREPARE returned and with bind/result metadata of that
   statement": in every reachable state, whatever an executor has taken from prepareStatement for entry i
   (id, bind-column count, metadata token) is the result stored in a PREPARE flight whose cache key is the
   key of entry i's statement on the executor's host and keyspace, and it passed the count check; and an
   executor inside prepareStatement's select holds a flight with the key of the statement it is preparing *)
Theorem C14_executor_holds_own_results : forall max ls s e x,
  run (init max) ls = Some s -> nth_error (s_execs s) e = Some x ->
  (forall i en g, nth_error (x_entries x) i = Some en -> nth_error (x_got x) i = Some (Some g) ->
     e_prep en = true /\ g_stmt g = e_stmt en /\ e_nvals en = g_cnt g /\
     exists fl, nth_error (s_flights s) (g_fid g) = Some fl /\
                fl_status fl = FOk (g_id g) (g_cnt g) (g_meta g) /\
                key_for (fl_triple fl) = key_for (x_triple x en)) /\
  (forall f, x_phase x = PWait f ->
     exists fl en, nth_error (s_flights s) f = Some fl /\ nth_error (x_entries x) (x_pos x) = Some en /\
                   e_prep en = true /\ key_for (fl_triple fl) = key_for (x_triple x en)).
Proof. exact executor_holds_lemma. Qed.
Print Assumptions C14_executor_holds_own_results.

(* Progress under fair scheduling ("... and the query still succeeds", for every schedule rather than as the
   existence of one).  e is a query executor; [sane]: the server's PREPARE answers for e's statement name e's
   number of values, the PREPARE e waits for has not failed, e has not failed.  [hostile] steps are: cancelling
   e, answering e's EXECUTE with an error or UNPREPARED, failing a PREPARE of e's statement, answering one with
   another value count.  [helps]: the next step of e itself or of the PREPARE it waits for (lookup, PREPARE
   written, PREPARE answered, done closed, wake-up, EXECUTE written, EXECUTE answered).
   (1) In every reachable state an unfinished sane e has an enabled helping step, and that step lowers
   rank s e (a number <= 7): nobody - no other executor, no eviction, no failure of other statements - can
   block it or push it back. *)
Theorem C14_never_stuck : forall max ls0 s e x en,
  run (init max) ls0 = Some s -> is_query s e x en -> sane s x en -> (forall r, x_phase x <> PDone r) ->
  exists l s', helps s x en e l /\ ~ hostile s (key_for (x_triple x en)) (e_nvals en) e l /\
               step s l = Some s' /\ (rank s' e < rank s e)%nat.
Proof. exact never_stuck_lemma. Qed.
Print Assumptions C14_never_stuck.

(* (2) Along ANY schedule ls from a reachable state in which nothing hostile to e happens - every other
   label is allowed, in any order and number: other executors, capacity evictions, failures and UNPREPARED
   answers for others - if at least rank s e of the steps taken were helping steps at the time they were
   taken (a fair scheduler takes the always-enabled helping step again and again, so every fair schedule
   has such a prefix), e has finished successfully.  frun counts helping steps from below. *)
Theorem C14_fair_schedule_success : forall max ls0 s e x en ls n s',
  run (init max) ls0 = Some s -> is_query s e x en -> sane s x en ->
  frun e en s ls n s' -> (rank s e <= n)%nat ->
  exists x', nth_error (s_execs s') e = Some x' /\ x_phase x' = PDone ROk.
Proof. exact fair_success_lemma. Qed.
Print Assumptions C14_fair_schedule_success.

(* "never a foreign id" + "with bind/result metadata of that statement" + "a wrong number of bound values is
   ... not sent", over the history: every prepared id in an EXECUTE / BATCH frame was returned earlier by the
   server for a PREPARE whose cache key is the key of that statement/keyspace/host, the metadata token the
   executor marshals and decodes with is the one that came with that very answer, and the frame has as many
   values as that answer has bind columns *)
Theorem C14_id_belongs_to_key : forall max ls s, run (init max) ls = Some s ->
  sends_use_returned_ids (rev (s_log s)).
Proof. exact sends_use_returned_ids_lemma. Qed.
Print Assumptions C14_id_belongs_to_key.

(* keyFor is injective when the host ids have equal length and the keyspace is the same ... *)
Theorem C14_key_for_injective : forall t1 t2,
  length (t_host t1) = length (t_host t2) -> t_ks t1 = t_ks t2 -> key_for t1 = key_for t2 -> t1 = t2.
Proof. exact key_for_injective_lemma. Qed.
Print Assumptions C14_key_for_injective.

(* ... which is the situation inside one session (one keyspace, host ids are UUID strings of one length:
   the harness checks both on every history).  Then the PREPARE that returned an id used in an EXECUTE /
   BATCH frame was a PREPARE of exactly that statement on that host in that keyspace.
   Refuted.key_for_collision_general_refuted shows the premise cannot be dropped. *)
Theorem C14_id_belongs_to_statement : forall max n ks0 ls s,
  Forall (label_uniform n ks0) ls -> run (init max) ls = Some s ->
  forall h1 h2 e b host ks items st id meta nv,
    rev (s_log s) = h1 ++ EvSend e b host ks items :: h2 ->
    In (st, Some (id, meta), nv) items ->
    id_was_returned_for_statement h1 (mkTriple host ks st) id meta nv.
Proof. exact sends_use_own_ids_lemma. Qed.
Print Assumptions C14_id_belongs_to_statement.

(* "a wrong number of bound values is reported as an error rather than sent": the wake-up with a different
   count ends the execution with the count error, and a finished executor never does anything again -
   in particular LSend is not enabled for it *)
Theorem C14_count_checked : forall s e x f fl id cnt meta en,
  nth_error (s_execs s) e = Some x -> x_phase x = PWait f ->
  nth_error (s_flights s) f = Some fl -> fl_done fl = true -> fl_status fl = FOk id cnt meta ->
  nth_error (x_entries x) (x_pos x) = Some en -> e_nvals en <> cnt ->
  exists s', step s (LWake e) = Some s' /\
    nth_error (s_execs s') e = Some (set_phase x (PDone (RCount (x_pos x) cnt (e_nvals en)))) /\
    s_log s' = EvResult e (RCount (x_pos x) cnt (e_nvals en)) :: s_log s /\
    forall l s'', step s' l = Some s'' ->
      nth_error (s_execs s'') e = Some (set_phase x (PDone (RCount (x_pos x) cnt (e_nvals en)))) /\ l <> LSend e.
Proof.
  intros s e x f fl id cnt meta en HX HP HF HD HS HE HN.
  destruct (count_mismatch_lemma s e x f fl id cnt meta en HX HP HF HD HS HE HN) as [s' [A [B C]]].
  exists s'. split; [exact A|]. split; [exact B|]. split; [exact C|].
  intros l s'' H. eapply done_is_final; [exact H|exact B|reflexivity].
Qed.
Print Assumptions C14_count_checked.

(* the cache code never panics (ifp.preparedStatment.id in evictPreparedID is never a nil dereference) *)
Theorem C14_no_panic : forall max ls s, run (init max) ls = Some s -> no_panic (rev (s_log s)).
Proof. exact no_panic_lemma. Qed.
Print Assumptions C14_no_panic.

(* Observation (not part of the property): re-preparation has no bound.  Against a server that answers
   every EXECUTE with UNPREPARED, n rounds of PREPARE + EXECUTE happen for every n and the executor is
   still not finished. *)
Theorem C14_reprepare_unbounded_observation : forall max h ks st nv id n,
  exists s, run (init max) (LSpawn false h ks [mkEntry st true nv] :: loops 0 n id nv) = Some s /\
    count_ev is_prepare (s_log s) = n /\ count_ev is_send_ev (s_log s) = n /\
    nth_error (s_execs s) 0 = Some (mkExec false h ks [mkEntry st true nv] 0 [] PStart).
Proof. exact reprepare_unbounded_lemma. Qed.
Print Assumptions C14_reprepare_unbounded_observation.

(* ------------------------------------------------------------------------------------------- *)
(* Non-vacuity: the hypotheses above are satisfiable by concrete, non-trivial histories (tests, by vm_compute). *)

Definition ex_h : key := [104; 49].
Definition ex_ks : key := [107; 115].
Definition ex_st : key := [83; 49].
Definition ex_en : entry := mkEntry ex_st true 2.

(* two executors share one PREPARE; it fails; both are still waiting: the premises of C14_failure_reported *)
Definition ex_fail : list label :=
  [LSpawn false ex_h ex_ks [ex_en]; LSpawn false ex_h ex_ks [ex_en]; LLookup 0; LLookup 1; LPrepSend 0; LPrepFail 0 77; LClose 0].

Example C14_nonvacuous_failure :
  exists s x fl, run (init 2) ex_fail = Some s /\ Forall (label_uniform 2 ex_ks) ex_fail /\
    nth_error (s_execs s) 1 = Some x /\ x_phase x = PWait 0 /\
    nth_error (s_flights s) 0 = Some fl /\ fl_done fl = true /\ fl_status fl = FFailed 77 /\
    s_cache s = [] /\ count_ev (is_prepare_for (key_for (mkTriple ex_h ex_ks ex_st))) (s_log s) = 1%nat.
Proof.
  eexists. eexists. eexists. split; [vm_compute; reflexivity|].
  split; [repeat constructor|]. repeat split; reflexivity.
Qed.

(* one PREPARE answered, the EXECUTE is out, the entry is cached and finished: the premises of
   C14_reprepare_evicts; a third executor with the wrong number of values waits: those of C14_count_checked *)
Definition ex_ok : list label :=
  [LSpawn false ex_h ex_ks [ex_en]; LSpawn false ex_h ex_ks [mkEntry ex_st true 3]; LLookup 0; LLookup 1; LPrepSend 0;
   LPrepOk 0 [1; 2; 3] 2 5; LClose 0; LWake 0; LSend 0].

Example C14_nonvacuous_reprepare :
  exists s x y fl, run (init 1) ex_ok = Some s /\
    nth_error (s_execs s) 0 = Some x /\ x_batch x = false /\ x_phase x = PSent /\ nth_error (x_entries x) 0 = Some ex_en /\
    lookup (key_for (x_triple x ex_en)) (s_cache s) = Some 0%nat /\
    nth_error (s_flights s) 0 = Some fl /\ fl_done fl = true /\ fl_status fl = FOk [1; 2; 3] 2 5 /\
    nth_error (s_execs s) 1 = Some y /\ x_phase y = PWait 0 /\
    (exists en, nth_error (x_entries y) (x_pos y) = Some en /\ e_nvals en <> 2).
Proof.
  eexists. eexists. eexists. eexists. split; [vm_compute; reflexivity|].
  repeat split; try reflexivity. eexists. split; [reflexivity|]. vm_compute. discriminate.
Qed.


(* the premises of the fairness theorems: a state right after UNPREPARED evicted the entry (executor 0 starts
   over, executor 1 with the wrong count is still around), sane, and a schedule with 7 helping steps mixed
   with other steps *)
Definition ex_fair_prefix : list label := ex_ok ++ [LReplyUnprep 0 [1; 2; 3]].
Definition ex_fair_sched : list label :=
  [LLookup 0; LWake 1; LPrepSend 1; LSpawn false ex_h ex_ks [ex_en]; LPrepOk 1 [9] 2 6; LLookup 2; LClose 1; LWake 0; LWake 2; LSend 0; LSend 2; LReplyOk 0].

Example C14_nonvacuous_fair :
  exists s x s', run (init 1) ex_fair_prefix = Some s /\ is_query s 0 x ex_en /\ sane s x ex_en /\ rank s 0 = 7%nat /\
    frun 0 ex_en s ex_fair_sched 7 s'.
Proof.
  eexists. eexists. eexists. split; [vm_compute; reflexivity|].
  split; [repeat split|]. split.
  { apply sane_at_start; [reflexivity|]. intros f fl HF HK id cnt meta HS.
    destruct f as [|[|f]]; vm_compute in HF; inversion HF; subst fl; vm_compute in HS; inversion HS; reflexivity. }
  split; [reflexivity|].
  eapply fr_help; [reflexivity|reflexivity|vm_compute; reflexivity|].
  eapply fr_other; [reflexivity|intros X; exact X|vm_compute; reflexivity|].
  eapply fr_help; [reflexivity|reflexivity|vm_compute; reflexivity|].
  eapply fr_other; [reflexivity|intros X; exact X|vm_compute; reflexivity|].
  eapply fr_help; [reflexivity|exists [9], 6; reflexivity|vm_compute; reflexivity|].
  eapply fr_other; [reflexivity|intros X; exact X|vm_compute; reflexivity|].
  eapply fr_help; [reflexivity|reflexivity|vm_compute; reflexivity|].
  eapply fr_help; [reflexivity|reflexivity|vm_compute; reflexivity|].
  eapply fr_other; [reflexivity|intros X; exact X|vm_compute; reflexivity|].
  eapply fr_help; [reflexivity|reflexivity|vm_compute; reflexivity|].
  eapply fr_other; [reflexivity|intros X; exact X|vm_compute; reflexivity|].
  eapply fr_help; [reflexivity|reflexivity|vm_compute; reflexivity|].
  apply fr_nil.
Qed.

(* the default configuration: ClusterConfig.MaxPreparedStmts = defaultMaxPreparedStmts is a positive bound *)
Example C14_default_capacity_positive : 0 < K.defaultMaxPreparedStmts.
Proof. reflexivity. Qed.
