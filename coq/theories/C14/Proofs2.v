(* C14/Proofs2.v -- invariants of the single-flight transition system, part 1: the cache. *)
From GocqlV Require Import Lib.Base C14.Model C14.Proofs1.

(* case analysis of [step s l = Some s'] *)
Ltac step_cases H :=
  repeat match type of H with
  | context [match ?x with _ => _ end] =>
      lazymatch x with
      | context [match _ with _ => _ end] => fail
      | _ => destruct x eqn:?
      end
  end; try discriminate H.

Ltac step_inv H :=
  unfold step in H; step_cases H;
  try (injection H as H; subst).

(* give the hypotheses produced by step_inv stable names *)
Ltac name_hyps :=
  try match goal with H : lru_get _ _ = _ |- _ => rename H into HG end;
  try match goal with H : lru_add _ _ _ _ = _ |- _ => rename H into HA end;
  try match goal with H : lru_remove _ _ = _ |- _ => rename H into HR end;
  try match goal with H : nth_error (s_flights _) _ = Some _ |- _ => rename H into HF end;
  try match goal with H : nth_error (s_execs _) _ = Some _ |- _ => rename H into HX end;
  try match goal with H : nth_error (x_entries _) _ = Some _ |- _ => rename H into HE end;
  try match goal with H : fl_status _ = _ |- _ => rename H into HS end;
  try match goal with H : fl_done _ = _ |- _ => rename H into HD end;
  try match goal with H : x_phase _ = _ |- _ => rename H into HP end.

Definition not_failed (st : fstatus) : Prop := match st with FFailed _ => False | _ => True end.

Definition flight_wf (fl : flight) : Prop :=
  fl_done fl = true -> match fl_status fl with FOk _ _ _ => True | FFailed _ => True | _ => False end.

Definition entry_ok (F : list flight) (kf : key * nat) : Prop :=
  exists fl, nth_error F (snd kf) = Some fl /\ key_for (fl_triple fl) = fst kf /\ not_failed (fl_status fl).

Record cache_inv (s : state) : Prop := mkCI {
  ci_nodup : NoDup (map fst (s_cache s));
  ci_bound : 0 < s_max s -> Z.of_nat (length (s_cache s)) <= s_max s;
  ci_entries : Forall (entry_ok (s_flights s)) (s_cache s);
  ci_flights : Forall flight_wf (s_flights s) }.

(* ---- evictPreparedID as a function of the state ---- *)

Lemma evict_max s k id : s_max (evict_prepared_id s k id) = s_max s.
Proof. unfold evict_prepared_id. repeat (match goal with |- context [match ?x with _ => _ end] => destruct x end); reflexivity. Qed.

Lemma evict_flights s k id : s_flights (evict_prepared_id s k id) = s_flights s.
Proof. unfold evict_prepared_id. repeat (match goal with |- context [match ?x with _ => _ end] => destruct x end); reflexivity. Qed.

Lemma evict_execs s k id : s_execs (evict_prepared_id s k id) = s_execs s.
Proof. unfold evict_prepared_id. repeat (match goal with |- context [match ?x with _ => _ end] => destruct x end); reflexivity. Qed.

(* the three things evictPreparedID can do to the cache and the log *)
Inductive evict_outcome (s : state) (k : key) (id : list Z) (s' : state) : Prop :=
| EO_keep c r :            (* key absent, flight not done, or id different: at most a move to the front *)
    lru_get (s_cache s) k = (c, r) -> s_cache s' = c -> s_log s' = s_log s ->
    (forall f fl cnt meta, r = Some f -> nth_error (s_flights s) f = Some fl -> fl_done fl = true -> fl_status fl = FOk id cnt meta -> False) ->
    evict_outcome s k id s'
| EO_evict c f fl cnt meta c' ev :
    lru_get (s_cache s) k = (c, Some f) -> nth_error (s_flights s) f = Some fl -> fl_done fl = true ->
    fl_status fl = FOk id cnt meta -> lru_remove c k = (c', ev) ->
    s_cache s' = c' -> s_log s' = gone_events 2 ev ++ s_log s ->
    evict_outcome s k id s'
| EO_panic c f fl :
    lru_get (s_cache s) k = (c, Some f) -> nth_error (s_flights s) f = Some fl -> fl_done fl = true ->
    (forall id' cnt meta, fl_status fl <> FOk id' cnt meta) ->
    s_cache s' = c -> s_log s' = EvPanic :: s_log s ->
    evict_outcome s k id s'.

Lemma evict_cases s k id : evict_outcome s k id (evict_prepared_id s k id).
Proof.
  unfold evict_prepared_id.
  destruct (lru_get (s_cache s) k) as [c [f|]] eqn:G.
  2:{ eapply EO_keep; eauto. intros; discriminate. }
  destruct (nth_error (s_flights s) f) as [fl|] eqn:NF.
  2:{ eapply EO_keep; eauto. intros f0 fl0 cnt meta E; inversion E; subst. congruence. }
  destruct (fl_done fl) eqn:D.
  2:{ eapply EO_keep; eauto. intros f0 fl0 cnt meta E E2; inversion E; subst. congruence. }
  destruct (fl_status fl) as [| |id' cnt meta|err] eqn:ST.
  - eapply EO_panic; eauto. intros; congruence.
  - eapply EO_panic; eauto. intros; congruence.
  - destruct (zlist_eqb id id') eqn:EQ.
    + apply zlist_eqb_eq in EQ. subst id'.
      destruct (lru_remove c k) as [c' ev] eqn:R.
      eapply EO_evict; eauto.
    + eapply EO_keep; eauto. intros f0 fl0 cnt0 meta0 E E2 _ E3. inversion E; subst.
      rewrite NF in E2. inversion E2; subst. rewrite ST in E3. inversion E3; subst.
      assert (zlist_eqb id id = true) by (apply zlist_eqb_eq; reflexivity). congruence.
  - eapply EO_panic; eauto. intros; congruence.
Qed.

(* ---- frame facts ---- *)

Lemma step_max s l s' : step s l = Some s' -> s_max s' = s_max s.
Proof.
  intros H. destruct l; step_inv H; try reflexivity.
  all: cbn; try apply evict_max; reflexivity.
Qed.

Lemma cache_inv_ext a b :
  s_max b = s_max a -> s_cache b = s_cache a -> s_flights b = s_flights a -> cache_inv a -> cache_inv b.
Proof.
  intros E1 E2 E3 [I1 I2 I3 I4]. constructor; rewrite ?E1, ?E2, ?E3; assumption.
Qed.

Lemma entry_ok_app F x kf : entry_ok F kf -> entry_ok (F ++ [x]) kf.
Proof.
  intros [fl [H1 [H2 H3]]]. exists fl. split; [|split; assumption].
  apply nth_error_app_old. assumption.
Qed.

Lemma entry_ok_upd F f fl fl' kf :
  nth_error F f = Some fl -> fl_triple fl' = fl_triple fl ->
  (not_failed (fl_status fl) -> not_failed (fl_status fl')) ->
  entry_ok F kf -> entry_ok (upd F f fl') kf.
Proof.
  intros NF ET ES [fl0 [H1 [H2 H3]]]. destruct (Nat.eq_dec f (snd kf)) as [E|N].
  - subst f. rewrite NF in H1. inversion H1; subst fl0. exists fl'. split; [|split].
    + eapply nth_error_upd_eq; eauto.
    + rewrite ET. assumption.
    + auto.
  - exists fl0. split; [|split; assumption]. rewrite nth_error_upd_neq by assumption. assumption.
Qed.

Lemma Forall_entry_ok_sub (F : list flight) (c c' : list (key * nat)) :
  (forall kf, In kf c' -> In kf c) -> Forall (entry_ok F) c -> Forall (entry_ok F) c'.
Proof. intros S H. rewrite Forall_forall in *. auto. Qed.

Lemma cache_inv_evict s k id : cache_inv s -> cache_inv (evict_prepared_id s k id).
Proof.
  intros [I1 I2 I3 I4]. pose proof (evict_cases s k id) as O.
  constructor; rewrite ?evict_max, ?evict_flights; try assumption.
  - destruct O as [c r G EC _ _|c f fl cnt meta c' ev G _ _ _ R EC _|c f fl G _ _ _ EC _]; rewrite EC.
    + eapply lru_get_nodup; eauto.
    + eapply lru_remove_nodup; [|eauto]. eapply lru_get_nodup; eauto.
    + eapply lru_get_nodup; eauto.
  - intros Hm. specialize (I2 Hm).
    destruct O as [c r G EC _ _|c f fl cnt meta c' ev G _ _ _ R EC _|c f fl G _ _ _ EC _]; rewrite EC.
    + rewrite (lru_get_length _ _ _ _ G). assumption.
    + pose proof (lru_remove_length _ _ _ _ R). rewrite (lru_get_length _ _ _ _ G) in H. lia.
    + rewrite (lru_get_length _ _ _ _ G). assumption.
  - destruct O as [c r G EC _ _|c f fl cnt meta c' ev G _ _ _ R EC _|c f fl G _ _ _ EC _]; rewrite EC.
    + eapply Forall_entry_ok_sub; [|eauto]. intros kf. eapply lru_get_in; eauto.
    + eapply Forall_entry_ok_sub; [|eauto]. intros kf Hkf. eapply lru_get_in; eauto. eapply lru_remove_in; eauto.
    + eapply Forall_entry_ok_sub; [|eauto]. intros kf. eapply lru_get_in; eauto.
Qed.

Lemma cache_inv_init max : cache_inv (init max).
Proof. constructor; simpl; try constructor. intros; lia. Qed.

Lemma cache_inv_step s l s' : cache_inv s -> step s l = Some s' -> cache_inv s'.
Proof.
  intros Inv H. pose proof Inv as [I1 I2 I3 I4].
  destruct l; step_inv H.
  (* labels that touch neither the cache nor the flights *)
  all: try (eapply cache_inv_ext; [| | |exact Inv]; reflexivity).
  - (* LLookup, hit *)
    name_hyps. constructor; cbn.
    + eapply lru_get_nodup; eauto.
    + intros Hm. rewrite (lru_get_length _ _ _ _ HG). auto.
    + eapply Forall_entry_ok_sub; [|eauto]. intros kf. eapply lru_get_in; eauto.
    + assumption.
  - (* LLookup, miss *)
    name_hyps.
    assert (L : lookup (key_for (x_triple e0 e1)) (s_cache s) = None).
    { apply lru_get_result in HG. congruence. }
    constructor; cbn.
    + eapply lru_add_nodup; eauto.
    + intros Hm. eapply lru_add_bound; eauto.
    + rewrite Forall_forall. intros kf Hkf. eapply lru_add_in in Hkf; [|eauto].
      destruct Hkf as [->|Hkf].
      * eexists. split; [apply nth_error_app_last|]. split; [reflexivity|exact Logic.I].
      * apply entry_ok_app. rewrite Forall_forall in I3. auto.
    + apply Forall_app. split; [assumption|]. constructor; [|constructor]. intros D; discriminate D.
  - (* LPrepSend *)
    constructor; cbn; try assumption.
    + rewrite Forall_forall in *. intros kf Hkf. eapply entry_ok_upd; eauto. intros; exact Logic.I.
    + apply Forall_upd; [assumption|]. intros D; discriminate D.
  - (* LPrepOk *)
    constructor; cbn; try assumption.
    + rewrite Forall_forall in *. intros kf Hkf. eapply entry_ok_upd; eauto. intros; exact Logic.I.
    + apply Forall_upd; [assumption|]. intros D; discriminate D.
  - (* LPrepFail from FCreated *)
    name_hyps. constructor; cbn.
    + eapply lru_remove_nodup; eauto.
    + intros Hm. pose proof (lru_remove_length _ _ _ _ HR). specialize (I2 Hm). lia.
    + rewrite Forall_forall in *. intros kf Hkf.
      assert (Hin : In kf (s_cache s)) by (eapply lru_remove_in; eauto).
      destruct (I3 kf Hin) as [fl0 [H1 [H2 H3]]].
      destruct (Nat.eq_dec (snd kf) f) as [E|N].
      * exfalso. rewrite E, HF in H1. inversion H1; subst fl0.
        pose proof (lru_remove_gone _ _ _ _ I1 HR) as G.
        apply lookup_None_notin in G. apply G. rewrite H2. apply in_map. assumption.
      * exists fl0. split; [|split; assumption]. rewrite nth_error_upd_neq by congruence. assumption.
    + apply Forall_upd; [assumption|]. intros D; discriminate D.
  - (* LPrepFail from FSent *)
    name_hyps. constructor; cbn.
    + eapply lru_remove_nodup; eauto.
    + intros Hm. pose proof (lru_remove_length _ _ _ _ HR). specialize (I2 Hm). lia.
    + rewrite Forall_forall in *. intros kf Hkf.
      assert (Hin : In kf (s_cache s)) by (eapply lru_remove_in; eauto).
      destruct (I3 kf Hin) as [fl0 [H1 [H2 H3]]].
      destruct (Nat.eq_dec (snd kf) f) as [E|N].
      * exfalso. rewrite E, HF in H1. inversion H1; subst fl0.
        pose proof (lru_remove_gone _ _ _ _ I1 HR) as G.
        apply lookup_None_notin in G. apply G. rewrite H2. apply in_map. assumption.
      * exists fl0. split; [|split; assumption]. rewrite nth_error_upd_neq by congruence. assumption.
    + apply Forall_upd; [assumption|]. intros D; discriminate D.
  - (* LClose, FOk *)
    constructor; cbn; try assumption.
    + rewrite Forall_forall in *. intros kf Hkf. eapply entry_ok_upd; eauto. intros _. exact Logic.I.
    + apply Forall_upd; [assumption|]. intros _. exact Logic.I.
  - (* LClose, FFailed *)
    constructor; cbn; try assumption.
    + rewrite Forall_forall in *. intros kf Hkf. eapply entry_ok_upd; eauto. name_hyps. rewrite HS. auto.
    + apply Forall_upd; [assumption|]. intros _. exact Logic.I.
  (* LReplyUnprep *)
  - match goal with |- cache_inv (set_exec (evict_prepared_id ?s0 ?k0 ?i0) _ _) =>
         eapply cache_inv_ext; [| | |apply (cache_inv_evict s0 k0 i0 Inv)]; reflexivity end.
  - match goal with |- cache_inv (set_exec (evict_prepared_id ?s0 ?k0 ?i0) _ _) =>
         eapply cache_inv_ext; [| | |apply (cache_inv_evict s0 k0 i0 Inv)]; reflexivity end.
Qed.
