(* C14/Proofs8.v -- re-preparation after UNPREPARED; keyFor injectivity and the statement-level form
   of "never a foreign id". *)
From GocqlV Require Import Lib.Base C14.Model C14.Spec C14.Proofs1 C14.Proofs2 C14.Proofs3 C14.Proofs4 C14.Proofs5 C14.Proofs6 C14.Proofs7.

(* ---- evictPreparedID when the cached id matches / does not match ---- *)
Lemma evict_matching s k id f fl cnt meta :
  NoDup (map fst (s_cache s)) -> lookup k (s_cache s) = Some f ->
  nth_error (s_flights s) f = Some fl -> fl_done fl = true -> fl_status fl = FOk id cnt meta ->
  lookup k (s_cache (evict_prepared_id s k id)) = None /\
  s_log (evict_prepared_id s k id) = EvGone k f 2 :: s_log s.
Proof.
  intros ND L HF HD HS. unfold evict_prepared_id. rewrite (lru_get_hit _ _ _ L), HF, HD, HS.
  assert (E : zlist_eqb id id = true) by (apply zlist_eqb_eq; reflexivity). rewrite E.
  unfold lru_remove. simpl lookup. rewrite key_eqb_refl. simpl remove_key. rewrite key_eqb_refl. cbn.
  split; [|reflexivity]. apply notin_lookup_None. apply remove_key_notin. assumption.
Qed.

Lemma evict_nonmatching s k id f fl :
  NoDup (map fst (s_cache s)) -> lookup k (s_cache s) = Some f ->
  nth_error (s_flights s) f = Some fl ->
  (fl_done fl = false \/ exists id' cnt meta, fl_status fl = FOk id' cnt meta /\ id' <> id) ->
  lookup k (s_cache (evict_prepared_id s k id)) = Some f /\
  s_log (evict_prepared_id s k id) = s_log s.
Proof.
  intros ND L HF HC. unfold evict_prepared_id. rewrite (lru_get_hit _ _ _ L), HF.
  destruct HC as [HD|[id' [cnt [meta [HS N]]]]].
  - rewrite HD. cbn. rewrite key_eqb_refl. split; reflexivity.
  - destruct (fl_done fl); [|cbn; rewrite key_eqb_refl; split; reflexivity].
    rewrite HS. destruct (zlist_eqb id id') eqn:E; [apply zlist_eqb_eq in E; congruence|].
    cbn. rewrite key_eqb_refl. split; reflexivity.
Qed.

(* UNPREPARED for a query whose cached PREPARE result carries that id: the entry goes, the executor
   starts over *)
Lemma unprep_evicts_lemma s e x en f fl id cnt meta :
  cache_inv s ->
  nth_error (s_execs s) e = Some x -> x_batch x = false -> x_phase x = PSent ->
  nth_error (x_entries x) 0 = Some en ->
  lookup (key_for (x_triple x en)) (s_cache s) = Some f ->
  nth_error (s_flights s) f = Some fl -> fl_done fl = true -> fl_status fl = FOk id cnt meta ->
  exists s', step s (LReplyUnprep e id) = Some s' /\
    lookup (key_for (x_triple x en)) (s_cache s') = None /\
    nth_error (s_execs s') e = Some (mkExec false (x_host x) (x_ks x) (x_entries x) 0 [] PStart) /\
    s_log s' = EvGone (key_for (x_triple x en)) f 2 :: s_log s /\
    s_flights s' = s_flights s.
Proof.
  intros [ND _ _ _] HX HB HP HE L HF HD HS. unfold step. rewrite HX, HP, HB, HE. cbn [phase_is_sent option_map].
  destruct (evict_matching s (key_for (x_triple x en)) id f fl cnt meta ND L HF HD HS) as [A B].
  eexists. split; [reflexivity|].
  cbn [s_cache s_log s_flights s_execs set_exec with_execs]. unfold x_triple in *.
  rewrite evict_flights, evict_execs. repeat split; try assumption.
  eapply nth_error_upd_eq; eauto.
Qed.

(* ... and when the id is another one (or the PREPARE is still in flight) the entry stays *)
Lemma unprep_keeps_lemma s e x en f fl id :
  cache_inv s ->
  nth_error (s_execs s) e = Some x -> x_batch x = false -> x_phase x = PSent ->
  nth_error (x_entries x) 0 = Some en ->
  lookup (key_for (x_triple x en)) (s_cache s) = Some f ->
  nth_error (s_flights s) f = Some fl ->
  (fl_done fl = false \/ exists id' cnt meta, fl_status fl = FOk id' cnt meta /\ id' <> id) ->
  exists s', step s (LReplyUnprep e id) = Some s' /\
    lookup (key_for (x_triple x en)) (s_cache s') = Some f /\ s_log s' = s_log s.
Proof.
  intros [ND _ _ _] HX HB HP HE L HF HC. unfold step. rewrite HX, HP, HB, HE. cbn [phase_is_sent option_map].
  destruct (evict_nonmatching s (key_for (x_triple x en)) id f fl ND L HF HC) as [A B].
  eexists. split; [reflexivity|]. cbn [s_cache s_log set_exec with_execs]. unfold x_triple in *. auto.
Qed.

(* after that, against a server that accepts the id it has just returned, the query succeeds with
   the new id: the run exists, whatever else is going on in the session *)
Definition prepare_labels (e f : nat) (id : list Z) (cnt meta : Z) : list label :=
  [LLookup e; LPrepSend f; LPrepOk f id cnt meta; LClose f; LWake e; LSend e].

Definition reprepare_labels (e f : nat) (id : list Z) (cnt meta : Z) : list label :=
  prepare_labels e f id cnt meta ++ [LReplyOk e].

(* a query executor that misses the cache, against a server that answers the PREPARE: up to the EXECUTE *)
Lemma prepare_path_lemma s e h ks en id meta :
  nth_error (s_execs s) e = Some (mkExec false h ks [en] 0 [] PStart) -> e_prep en = true ->
  lookup (key_for (mkTriple h ks (e_stmt en))) (s_cache s) = None ->
  exists s',
    run s (prepare_labels e (length (s_flights s)) id (e_nvals en) meta) = Some s' /\
    nth_error (s_execs s') e =
      Some (mkExec false h ks [en] 1 [Some (mkGot (e_stmt en) (length (s_flights s)) id (e_nvals en) meta)] PSent) /\
    s_log s' = EvSend e false h ks [(e_stmt en, Some (id, meta), e_nvals en)]
                 :: EvPrepared (length (s_flights s)) id (e_nvals en) meta
                 :: EvPrepare (length (s_flights s)) (mkTriple h ks (e_stmt en))
                 :: rev (gone_events 0 (snd (lru_add (s_max s) (s_cache s) (key_for (mkTriple h ks (e_stmt en))) (length (s_flights s)))))
                 ++ EvCreate (length (s_flights s)) (key_for (mkTriple h ks (e_stmt en))) :: s_log s /\
    s_cache s' = fst (lru_add (s_max s) (s_cache s) (key_for (mkTriple h ks (e_stmt en))) (length (s_flights s))) /\
    s_flights s' = s_flights s ++ [mkFlight (mkTriple h ks (e_stmt en)) (FOk id (e_nvals en) meta) true] /\
    s_max s' = s_max s /\
    (forall e', e' <> e -> nth_error (s_execs s') e' = nth_error (s_execs s) e') /\
    length (s_execs s') = length (s_execs s).
Proof.
  intros HX HPr L. set (f := length (s_flights s)). set (t := mkTriple h ks (e_stmt en)).
  set (x0 := mkExec false h ks [en] 0 [] PStart) in *.
  destruct (fwd_lookup_miss s e x0 en HX eq_refl eq_refl HPr L) as [s1 [S1 [X1 [F1 [L1 [C1 M1]]]]]].
  assert (HF1 : nth_error (s_flights s1) f = Some (mkFlight t FCreated false)).
  { rewrite F1. apply nth_error_app_last. }
  destruct (fwd_prepsend s1 f t HF1) as [s2 [S2 [F2 [X2 [L2 [C2 M2]]]]]].
  assert (HF2 : nth_error (s_flights s2) f = Some (mkFlight t FSent false)).
  { rewrite F2. eapply nth_error_upd_eq; eauto. }
  destruct (fwd_prepok s2 f t id (e_nvals en) meta HF2) as [s3 [S3 [F3 [X3 [L3 [C3 M3]]]]]].
  assert (HF3 : nth_error (s_flights s3) f = Some (mkFlight t (FOk id (e_nvals en) meta) false)).
  { rewrite F3. eapply nth_error_upd_eq; eauto. }
  destruct (fwd_close_ok s3 f t id (e_nvals en) meta HF3) as [s4 [S4 [F4 [X4 [L4 [C4 M4]]]]]].
  assert (HF4 : nth_error (s_flights s4) f = Some (mkFlight t (FOk id (e_nvals en) meta) true)).
  { rewrite F4. eapply nth_error_upd_eq; eauto. }
  assert (HX4 : nth_error (s_execs s4) e = Some (set_phase x0 (PWait f))).
  { rewrite X4, X3, X2, X1. eapply nth_error_upd_eq; eauto. }
  destruct (fwd_wake_ok s4 e _ f t id (e_nvals en) meta en HX4 eq_refl HF4 eq_refl eq_refl) as [s5 [S5 [X5 [F5 [L5 [C5 M5]]]]]].
  cbn [set_phase x0 x_batch x_host x_ks x_entries x_pos x_got app] in X5.
  assert (HX5 : nth_error (s_execs s5) e = Some (mkExec false h ks [en] 1 [Some (mkGot (e_stmt en) f id (e_nvals en) meta)] PStart)).
  { rewrite X5. eapply nth_error_upd_eq; eauto. }
  destruct (fwd_send s5 e _ HX5 eq_refl eq_refl) as [s6 [S6 [X6 [F6 [L6 [C6 M6]]]]]].
  exists s6. split; [|split; [|split; [|split; [|split; [|split; [|split]]]]]].
  - unfold prepare_labels. cbn [run]. fold f. rewrite S1, S2, S3, S4, S5, S6. reflexivity.
  - rewrite X6. eapply nth_error_upd_eq; eauto.
  - rewrite L6, L5, L4, L3, L2, L1. reflexivity.
  - rewrite C6, C5, C4, C3, C2, C1. reflexivity.
  - rewrite F6, F5, F4, F3, F2, F1.
    assert (U : forall (F : list flight) a b c, upd (upd (upd (F ++ [a]) (length F) b) (length F) c) (length F) c = F ++ [c]).
    { induction F as [|y F IH]; intros; simpl; [reflexivity|]. f_equal. apply IH. }
    fold f. fold t.
    assert (U2 : forall (F : list flight) a b c d, upd (upd (upd (F ++ [a]) (length F) b) (length F) c) (length F) d = F ++ [d]).
    { induction F as [|y F IH]; intros; simpl; [reflexivity|]. f_equal. apply IH. }
    apply U2.
  - congruence.
  - intros e' N. rewrite X6, X5, X4, X3, X2, X1. rewrite !nth_error_upd_neq by congruence. reflexivity.
  - rewrite X6, X5, X4, X3, X2, X1. rewrite !upd_length. reflexivity.
Qed.

Lemma reprepare_path_lemma s e h ks en id meta :
  nth_error (s_execs s) e = Some (mkExec false h ks [en] 0 [] PStart) -> e_prep en = true ->
  lookup (key_for (mkTriple h ks (e_stmt en))) (s_cache s) = None ->
  exists s' evs,
    run s (reprepare_labels e (length (s_flights s)) id (e_nvals en) meta) = Some s' /\
    nth_error (s_execs s') e =
      Some (mkExec false h ks [en] 1 [Some (mkGot (e_stmt en) (length (s_flights s)) id (e_nvals en) meta)] (PDone ROk)) /\
    s_log s' = EvResult e ROk :: EvSend e false h ks [(e_stmt en, Some (id, meta), e_nvals en)]
                 :: EvPrepared (length (s_flights s)) id (e_nvals en) meta
                 :: EvPrepare (length (s_flights s)) (mkTriple h ks (e_stmt en))
                 :: evs ++ EvCreate (length (s_flights s)) (key_for (mkTriple h ks (e_stmt en))) :: s_log s.
Proof.
  intros HX HPr L.
  destruct (prepare_path_lemma s e h ks en id meta HX HPr L) as [s6 [R6 [HX6 [L6 _]]]].
  destruct (fwd_replyok s6 e _ HX6 eq_refl) as [s7 [S7 [X7 [F7 [L7 _]]]]].
  eexists s7, _. split; [|split].
  - unfold reprepare_labels. rewrite run_app, R6. cbn [run]. rewrite S7. reflexivity.
  - rewrite X7. eapply nth_error_upd_eq; eauto.
  - rewrite L7, L6. reflexivity.
Qed.

(* ---- keyFor ---- *)
Lemma app_eq_len {A} (a1 a2 b1 b2 : list A) : length a1 = length a2 -> a1 ++ b1 = a2 ++ b2 -> a1 = a2 /\ b1 = b2.
Proof.
  revert a2. induction a1 as [|x a1 IH]; intros [|y a2] HL H; simpl in *; try discriminate.
  - auto.
  - inversion H; subst. destruct (IH a2 (eq_add_S _ _ HL) H2) as [-> ->]. auto.
Qed.

Lemma key_for_injective_lemma t1 t2 :
  length (t_host t1) = length (t_host t2) -> t_ks t1 = t_ks t2 -> key_for t1 = key_for t2 -> t1 = t2.
Proof.
  destruct t1 as [h1 k1 s1], t2 as [h2 k2 s2]. unfold key_for. simpl. intros HL -> H.
  destruct (app_eq_len _ _ _ _ HL H) as [-> H2]. apply app_inv_head in H2. subst. reflexivity.
Qed.

(* ---- one session: all host ids have the same length and there is one keyspace ---- *)
Definition triple_uniform (n : nat) (ks0 : key) (t : triple) : Prop := length (t_host t) = n /\ t_ks t = ks0.

Definition label_uniform (n : nat) (ks0 : key) (l : label) : Prop :=
  match l with LSpawn _ h ks _ => length h = n /\ ks = ks0 | _ => True end.

Definition event_uniform (n : nat) (ks0 : key) (ev : event) : Prop :=
  match ev with
  | EvPrepare _ t => triple_uniform n ks0 t
  | EvSend _ _ h ks _ => length h = n /\ ks = ks0
  | _ => True
  end.

Record uniform (n : nat) (ks0 : key) (s : state) : Prop := mkU {
  u_execs : Forall (fun x => length (x_host x) = n /\ x_ks x = ks0) (s_execs s);
  u_flights : Forall (fun fl => triple_uniform n ks0 (fl_triple fl)) (s_flights s);
  u_log : Forall (event_uniform n ks0) (s_log s) }.

Lemma gone_events_uniform n ks0 why ev : Forall (event_uniform n ks0) (gone_events why ev).
Proof. induction ev; simpl; constructor; auto. exact Logic.I. Qed.

Lemma evict_log_uniform n ks0 s k id :
  Forall (event_uniform n ks0) (s_log s) -> Forall (event_uniform n ks0) (s_log (evict_prepared_id s k id)).
Proof.
  intros H.
  destruct (evict_cases s k id) as [c r _ _ E _|c f fl cnt meta c' ev _ _ _ _ _ _ E|c f fl _ _ _ _ _ E]; rewrite E.
  - assumption.
  - apply Forall_app. split; [apply gone_events_uniform|assumption].
  - constructor; [exact Logic.I|assumption].
Qed.

Lemma Forall_rev' {A} (P : A -> Prop) l : Forall P l -> Forall P (rev l).
Proof. intros H. rewrite Forall_forall in *. intros x Hx. apply H. apply in_rev. assumption. Qed.

Lemma uniform_step n ks0 s l s' : uniform n ks0 s -> label_uniform n ks0 l -> step s l = Some s' -> uniform n ks0 s'.
Proof.
  intros [U1 U2 U3] LU H. destruct l; step_inv H; constructor;
    cbn [s_execs s_flights s_log add_log set_exec set_flight with_execs with_flights with_cache];
    rewrite ?evict_execs, ?evict_flights; try assumption.
  all: try (apply evict_log_uniform; assumption).
  all: try (constructor; [exact Logic.I|assumption]).
  all: try (apply Forall_app; split; [assumption|]; constructor; [|constructor]; exact LU).
  all: try (apply Forall_upd; [assumption|]; cbn;
            match goal with HX : nth_error (s_execs _) _ = Some _ |- _ => exact (Forall_nth_error _ _ _ _ U1 HX) end).
  all: try (apply Forall_upd; [assumption|]; cbn;
            match goal with HF : nth_error (s_flights _) _ = Some _ |- _ => exact (Forall_nth_error _ _ _ _ U2 HF) end).
  all: try (match goal with HX : nth_error (s_execs _) _ = Some _ |- _ => pose proof (Forall_nth_error _ _ _ _ U1 HX) as UX end).
  all: try (match goal with HF : nth_error (s_flights _) _ = Some _ |- _ => pose proof (Forall_nth_error _ _ _ _ U2 HF) as UF end).
  - (* LLookup miss: flights *)
    apply Forall_app. split; [assumption|]. constructor; [|constructor]. exact UX.
  - (* LLookup miss: log *)
    apply Forall_app. split; [|assumption]. apply Forall_app. split; [apply Forall_rev'; apply gone_events_uniform|].
    constructor; [exact Logic.I|constructor].
  - (* LPrepSend: log *)
    constructor; [exact UF|assumption].
  - (* LPrepFail *)
    apply Forall_app. split; [|assumption]. apply Forall_app. split; [apply Forall_rev'; apply gone_events_uniform|].
    constructor; [exact Logic.I|constructor].
  - apply Forall_app. split; [|assumption]. apply Forall_app. split; [apply Forall_rev'; apply gone_events_uniform|].
    constructor; [exact Logic.I|constructor].
  - (* LSend: log *)
    constructor; [exact UX|assumption].
Qed.

Lemma uniform_run n ks0 ls : forall s s',
  uniform n ks0 s -> Forall (label_uniform n ks0) ls -> run s ls = Some s' -> uniform n ks0 s'.
Proof.
  induction ls as [|l ls IH]; simpl; intros s s' U LU H.
  - inversion H; subst; assumption.
  - destruct (step s l) as [s1|] eqn:E; [|discriminate]. inversion LU; subst.
    eapply IH; [|eassumption|exact H]. eapply uniform_step; eauto.
Qed.

Lemma uniform_init n ks0 max : uniform n ks0 (init max).
Proof. constructor; constructor. Qed.

(* "never a foreign id" for statements: within one session the PREPARE that returned the id was a
   PREPARE of exactly that statement, keyspace and host *)
Definition id_was_returned_for_statement (h : list event) (t : triple) (id : list Z) (meta nvals : Z) : Prop :=
  exists f h1 h2 h3, h = h1 ++ EvPrepare f t :: h2 ++ EvPrepared f id nvals meta :: h3.

Lemma sends_use_own_ids_lemma max n ks0 ls s :
  Forall (label_uniform n ks0) ls -> run (init max) ls = Some s ->
  forall h1 h2 e b host ks items st id meta nv,
    rev (s_log s) = h1 ++ EvSend e b host ks items :: h2 ->
    In (st, Some (id, meta), nv) items ->
    id_was_returned_for_statement h1 (mkTriple host ks st) id meta nv.
Proof.
  intros LU H h1 h2 e b host ks items st id meta nv E HI.
  destruct (sends_use_returned_ids_lemma _ _ _ H _ _ _ _ _ _ _ _ _ _ _ E HI) as [f [t [g1 [g2 [g3 [K R]]]]]].
  pose proof (uniform_run n ks0 ls _ _ (uniform_init n ks0 max) LU H) as [_ _ U3].
  apply Forall_rev' in U3. rewrite E in U3. rewrite Forall_forall in U3.
  assert (U_send : event_uniform n ks0 (EvSend e b host ks items)) by (apply U3; apply in_or_app; right; left; reflexivity).
  assert (U_prep : event_uniform n ks0 (EvPrepare f t)).
  { apply U3. apply in_or_app. left. rewrite R. apply in_or_app. right. left. reflexivity. }
  simpl in U_send, U_prep. destruct U_send as [A1 A2]. destruct U_prep as [B1 B2].
  assert (t = mkTriple host ks st).
  { apply key_for_injective_lemma; simpl; congruence. }
  subst t. exists f, g1, g2, g3. assumption.
Qed.

(* ---- UNPREPARED for a batch: the statement is found through the ids the batch collected ---- *)
Lemma unprep_evicts_batch_lemma s e x st f fl id cnt meta :
  cache_inv s ->
  nth_error (s_execs s) e = Some x -> x_batch x = true -> x_phase x = PSent ->
  batch_stmt_of_id (x_got x) id None = Some st ->
  lookup (key_for (mkTriple (x_host x) (x_ks x) st)) (s_cache s) = Some f ->
  nth_error (s_flights s) f = Some fl -> fl_done fl = true -> fl_status fl = FOk id cnt meta ->
  exists s', step s (LReplyUnprep e id) = Some s' /\
    lookup (key_for (mkTriple (x_host x) (x_ks x) st)) (s_cache s') = None /\
    nth_error (s_execs s') e = Some (mkExec true (x_host x) (x_ks x) (x_entries x) 0 [] PStart) /\
    s_log s' = EvGone (key_for (mkTriple (x_host x) (x_ks x) st)) f 2 :: s_log s.
Proof.
  intros [ND _ _ _] HX HB HP HE L HF HD HS. unfold step. rewrite HX, HP, HB, HE. cbn [phase_is_sent].
  destruct (evict_matching s _ id f fl cnt meta ND L HF HD HS) as [A B].
  eexists. split; [reflexivity|].
  cbn [s_cache s_log s_flights s_execs set_exec with_execs].
  rewrite evict_execs. repeat split; try assumption.
  eapply nth_error_upd_eq; eauto.
Qed.

(* ---- what an executor holds ---- *)
Lemma Forall2_nth_error {A B} (P : A -> B -> Prop) (l : list A) (l' : list B) i a b :
  Forall2 P l l' -> nth_error l i = Some a -> nth_error l' i = Some b -> P a b.
Proof.
  intros H. revert i. induction H as [|x y l l' H1 H2 IH]; intros [|i] Ha Hb; simpl in *; try discriminate.
  - inversion Ha; inversion Hb; subst. assumption.
  - eapply IH; eauto.
Qed.

Lemma nth_error_firstn_lt {A} (l : list A) n i : (i < n)%nat -> nth_error (firstn n l) i = nth_error l i.
Proof.
  revert n i. induction l as [|x l IH]; intros [|n] [|i] H; simpl; try reflexivity; try lia.
  apply IH. lia.
Qed.

Lemma executor_holds_lemma max ls s e x :
  run (init max) ls = Some s -> nth_error (s_execs s) e = Some x ->
  (forall i en g, nth_error (x_entries x) i = Some en -> nth_error (x_got x) i = Some (Some g) ->
     e_prep en = true /\ g_stmt g = e_stmt en /\ e_nvals en = g_cnt g /\
     exists fl, nth_error (s_flights s) (g_fid g) = Some fl /\
                fl_status fl = FOk (g_id g) (g_cnt g) (g_meta g) /\
                key_for (fl_triple fl) = key_for (x_triple x en)) /\
  (forall f, x_phase x = PWait f ->
     exists fl en, nth_error (s_flights s) f = Some fl /\ nth_error (x_entries x) (x_pos x) = Some en /\
                   e_prep en = true /\ key_for (fl_triple fl) = key_for (x_triple x en)).
Proof.
  intros H HX. destruct (inv_reachable _ _ _ H) as [[_ I2 _ _ _ _ _ _] _].
  pose proof (Forall_nth_error _ _ _ _ I2 HX) as [H1 [H2 H3]]. split.
  - intros i en g HE HG.
    assert (Hi : (i < x_pos x)%nat). { rewrite <- H1. apply nth_error_Some. congruence. }
    assert (HE' : nth_error (firstn (x_pos x) (x_entries x)) i = Some en) by (rewrite nth_error_firstn_lt; assumption).
    pose proof (Forall2_nth_error _ _ _ _ _ _ H2 HE' HG) as G. simpl in G. exact G.
  - intros f HP. rewrite HP in H3. exact H3.
Qed.
