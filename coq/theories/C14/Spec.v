(* C14/Spec.v -- independent specifications for property C14.  Nothing here is derived from the Go
   code: Part 1 says what "least recently used cache of capacity n" means (groupcache/lru's
   documentation: "MaxEntries is the maximum number of cache entries before an item is evicted.
   Zero means no limit", "RemoveOldest removes the oldest item"), Part 2 restates the property text
   as predicates over a history (the ghost log of the transition system / what is seen on the wire). *)
From GocqlV Require Import Lib.Base C14.Model.

(* ------------------------------------------------------------------------------------------- *)
(* Part 1: an LRU cache is a finite map in which every key carries the time of its last use
   (Add or successful Get); when a new key does not fit, the key with the smallest time goes.
   The entries are kept in no particular order: new keys are consed, updates happen in place. *)

Definition sentries := list (key * (Z * Z)).          (* key -> (value, time of last use) *)
Record sstate := mkS { ss_es : sentries; ss_clock : Z }.

Definition sinit : sstate := mkS [] 0.

Fixpoint slookup (k : key) (es : sentries) : option (Z * Z) :=
  match es with
  | [] => None
  | (k', vt) :: r => if key_eqb k k' then Some vt else slookup k r
  end.

(* bind k to (v, t): in place if k is present, otherwise as a new entry *)
Fixpoint sset (k : key) (v t : Z) (es : sentries) : sentries :=
  match es with
  | [] => [(k, (v, t))]
  | (k', vt) :: r => if key_eqb k k' then (k', (v, t)) :: r else (k', vt) :: sset k v t r
  end.

Fixpoint sdel (k : key) (es : sentries) : sentries :=
  match es with
  | [] => []
  | (k', vt) :: r => if key_eqb k k' then r else (k', vt) :: sdel k r
  end.

(* the entry used longest ago *)
Fixpoint soldest (es : sentries) : option (key * (Z * Z)) :=
  match es with
  | [] => None
  | (k, (v, t)) :: r =>
      match soldest r with
      | Some (k', (v', t')) => if t' <? t then Some (k', (v', t')) else Some (k, (v, t))
      | None => Some (k, (v, t))
      end
  end.

Definition sevict_oldest (es : sentries) : sentries * list (key * Z) :=
  match soldest es with
  | Some (k, (v, _)) => (sdel k es, [(k, v)])
  | None => (es, [])
  end.

Definition slen (es : sentries) : Z := Z.of_nat (length es).

Definition spec_apply (max : Z) (s : sstate) (op : lru_op) : sstate * lru_out :=
  let es := ss_es s in
  let now := ss_clock s in
  match op with
  | OAdd k v =>
      let es1 := sset k v now es in
      match slookup k es with
      | Some _ => (mkS es1 (now + 1), mkOut None false (slen es1) [])
      | None =>
          if negb (max =? 0) && (slen es1 >? max)
          then let '(es2, ev) := sevict_oldest es1 in (mkS es2 (now + 1), mkOut None false (slen es2) ev)
          else (mkS es1 (now + 1), mkOut None false (slen es1) [])
      end
  | OGet k =>
      match slookup k es with
      | Some (v, _) => (mkS (sset k v now es) (now + 1), mkOut (Some v) true (slen es) [])
      | None => (s, mkOut None false (slen es) [])
      end
  | ORemove k =>
      match slookup k es with
      | Some (v, _) => let es1 := sdel k es in (mkS es1 now, mkOut None true (slen es1) [(k, v)])
      | None => (s, mkOut None false (slen es) [])
      end
  | ORemoveOldest =>
      let '(es1, ev) := sevict_oldest es in (mkS es1 now, mkOut None false (slen es1) ev)
  | OLen => (s, mkOut None false (slen es) [])
  end.

Fixpoint spec_run (max : Z) (s : sstate) (ops : list lru_op) : sstate * list lru_out :=
  match ops with
  | [] => (s, [])
  | op :: r => let '(s1, o) := spec_apply max s op in
               let '(s2, os) := spec_run max s1 r in (s2, o :: os)
  end.

(* ------------------------------------------------------------------------------------------- *)
(* Part 2: the property text over a history (oldest event first). *)

Fixpoint count_ev (p : event -> bool) (h : list event) : nat :=
  match h with
  | [] => O
  | ev :: r => (if p ev then 1 else 0) + count_ev p r
  end.

Definition is_create (k : key) (ev : event) : bool :=
  match ev with EvCreate _ k' => key_eqb k k' | _ => false end.
Definition is_gone (k : key) (ev : event) : bool :=
  match ev with EvGone k' _ _ => key_eqb k k' | _ => false end.
Definition is_prepare_for (k : key) (ev : event) : bool :=
  match ev with EvPrepare _ t => key_eqb k (key_for t) | _ => false end.

(* "one PREPARE per generation": a statement (on a host, in a keyspace) is prepared again only after
   its cache entry has gone (failure, UNPREPARED, or capacity) *)
Definition prepares_bounded_by_generations (h : list event) : Prop :=
  forall k, (count_ev (is_prepare_for k) h <= 1 + count_ev (is_gone k) h)%nat.

(* "never a foreign id", "a wrong number of bound values is ... not sent": every prepared id in an
   EXECUTE / BATCH frame was returned by the server, earlier in the history, for a PREPARE whose cache
   key is the key of that very statement, keyspace and host, and the frame carries exactly as many
   values as that answer's metadata has bind columns *)
Definition id_was_returned_for (h : list event) (k : key) (id : list Z) (meta nvals : Z) : Prop :=
  exists f t h1 h2 h3,
    key_for t = k /\ h = h1 ++ EvPrepare f t :: h2 ++ EvPrepared f id nvals meta :: h3.

(* ... and the bind/result metadata the executor uses with that id is the metadata of that same answer
   ("with bind/result metadata of that statement") *)
Definition sends_use_returned_ids (h : list event) : Prop :=
  forall h1 h2 e b host ks items st id meta n,
    h = h1 ++ EvSend e b host ks items :: h2 ->
    In (st, Some (id, meta), n) items ->
    id_was_returned_for h1 (key_for (mkTriple host ks st)) id meta n.

(* "a failed PREPARE is reported to everyone waiting on it": see Props.v (a statement about states). *)

(* no run-time panic in the cache code *)
Definition no_panic (h : list event) : Prop := ~ In EvPanic h.
