(* C06/Compose.v -- the abstract Write of the connection model (C01/Model.v: WriteBegin ... WriteEnd c w
   with w in {WOk, WCtx0, WFail}) against the writer models of C07 (direct writer and write coalescer):
   what exec may observe from writeContext, and what each observation guarantees about the wire.

   [classify] is exec's own case distinction on (n, err) (conn.go: err == nil / context error with n == 0 /
   anything else).  The theorems say, for every reachable state of either writer and every request t that
   has been given its result r:
     classify r = WFail  <->  exec calls closeWithError (C07's must_close): the model's PWFail path;
     classify r = WCtx0   ->  no byte of t's frame is on the wire: releasing the stream id (the model's
                              DelCall/Release path) cannot orphan an answer;
     classify r = WOk     ->  the whole frame is on the wire, contiguously (connection honouring
                              io.Writer): the model's "srv := srv ++ [(id, c)]" - the server can receive
                              the request and nothing else of it. *)
From GocqlV Require Import Lib.Base C01.Model.
From GocqlV Require C07.Model C07.Spec C07.Props.

Definition classify (r : C07.Model.res) : wres :=
  match r with
  | (_, None) => WOk
  | (n, Some e) => if C07.Model.is_ctx_err e && Nat.eqb n 0 then WCtx0 else WFail
  end.

Lemma classify_fail r : classify r = WFail <-> C07.Model.must_close r = true.
Proof.
  destruct r as [n [e|]]; cbn; [|split; discriminate].
  destruct (C07.Model.is_ctx_err e && Nat.eqb n 0); cbn; split; congruence.
Qed.

Lemma classify_ctx0 r : classify r = WCtx0 -> fst r = 0%nat /\ snd r <> None.
Proof.
  destruct r as [n [e|]]; cbn; [|discriminate].
  destruct (C07.Model.is_ctx_err e) ; destruct (Nat.eqb_spec n 0); cbn; try discriminate.
  intros _. split; [assumption|discriminate].
Qed.

Lemma classify_ok r : classify r = WOk -> snd r = None.
Proof.
  destruct r as [n [e|]]; cbn; [|reflexivity].
  destruct (C07.Model.is_ctx_err e && Nat.eqb n 0); discriminate.
Qed.

Lemma direct_compose has_to ls s t r :
  C07.Model.drun has_to C07.Model.d_init ls = Some s -> C07.Model.result_of (C07.Model.d_thr s) t = Some r ->
  (classify r = WFail <-> C07.Model.must_close r = true)
  /\ (classify r = WCtx0 -> C07.Model.bytes_of t (C07.Model.d_wire s) = [])
  /\ (classify r = WOk -> C07.Model.d_broken s = false ->
      fst r = length (C07.Model.frame_of (C07.Model.d_thr s) t)
      /\ C07.Spec.frame_present (C07.Model.frame_of (C07.Model.d_thr s)) t (C07.Model.d_wire s)).
Proof.
  intros Hr Hres. split; [apply classify_fail|]. split.
  - intros Hc. destruct (classify_ctx0 r Hc) as [H0 _]. destruct r as [n e]. cbn in H0; subst n.
    rewrite (C07.Props.C07_direct_count_exact has_to ls s Hr t 0%nat e Hres). reflexivity.
  - intros Hc Hb. pose proof (classify_ok r Hc) as He. destruct r as [n e]. cbn in He; subst e.
    exact (C07.Props.C07_direct_success_means_whole has_to ls s Hr t n Hb Hres).
Qed.

Lemma coal_compose has_to ls s t r :
  C07.Model.crun has_to C07.Model.c_init ls = Some s -> C07.Model.result_of (C07.Model.c_thr s) t = Some r ->
  (classify r = WFail <-> C07.Model.must_close r = true)
  /\ (classify r = WCtx0 -> C07.Model.c_broken s = false -> C07.Model.bytes_of t (C07.Model.c_wire s) = [])
  /\ (classify r = WOk -> C07.Model.c_broken s = false ->
      fst r = length (C07.Model.frame_of (C07.Model.c_thr s) t)
      /\ C07.Spec.frame_present (C07.Model.frame_of (C07.Model.c_thr s)) t (C07.Model.c_wire s)).
Proof.
  intros Hr Hres. split; [apply classify_fail|]. split.
  - intros Hc Hb. destruct (classify_ctx0 r Hc) as [H0 _]. destruct r as [n e]. cbn in H0; subst n.
    rewrite (C07.Props.C07_coal_count_exact has_to ls s Hr t 0%nat e Hb Hres). reflexivity.
  - intros Hc Hb. pose proof (classify_ok r Hc) as He. destruct r as [n e]. cbn in He; subst e.
    exact (C07.Props.C07_coal_success_means_whole has_to ls s Hr t n Hb Hres).
Qed.
