(* C06/Props.v -- the proof obligations of property C06 (every request ends exactly once; closing never
   hangs; streams are never leaked), over the connection model of C01/Model.v (shared with C01).

   Quantification: every label list = every interleaving of any number of callers (the heartbeat is one
   more caller), the receiver, closers, timers, the server; every placement of failures.  "Within a
   bounded time" is not expressible without a clock: progress is stated as absence of stuck states. *)
From GocqlV Require Import Lib.Base C01.Model C01.Spec C01.Proofs1 C01.Proofs2 C01.Proofs2c C01.Proofs3
  C01.Proofs4 C01.Proofs6 C01.Proofs7 C01.Proofs8 C01.Props C06.Compose.
From GocqlV Require C07.Model C07.Spec.

(* An outcome, once reached, is final, and a caller identifier is never started twice: every request ends
   at most once, with one of the outcome classes of type [outcome] (no hypothesis on the environment). *)
Theorem C06_one_outcome : forall n ls1 ls2 s1 s2 c o,
  run (init n) ls1 = Some s1 -> run s1 ls2 = Some s2 ->
  ph (callers s1 c) = PDone o ->
  ph (callers s2 c) = PDone o /\ forall s3, step s2 (Start c) <> Some s3.
Proof.
  intros n ls1 ls2 s1 s2 c o H1 H2 Hd. pose proof (inv0_reachable n ls1 s1 H1) as I0.
  pose proof (done_stable s1 ls2 s2 c o I0 H2 Hd) as Hd2. split; [exact Hd2|].
  intros s3 Hs. apply start_once in Hs. congruence.
Qed.
Print Assumptions C06_one_outcome.

(* ... and at least once, as absence of stuck states: in every reachable state every caller that has not
   returned can take a step of its own (for a caller inside the select: its timer; for a caller inside
   Write: Write returns), the receiver is never blocked on a caller that has gone without closing
   call.timeout, and neither is the thread inside closeWithError (no hypothesis on the environment). *)
Theorem C06_no_stuck_state : forall n ls s,
  run (init n) ls = Some s ->
  (forall c, caller_can_progress s c) /\ receiver_can_progress s /\ (closer s <> None -> closer_can_progress s).
Proof.
  intros n ls s Hr. pose proof (inv0_reachable n ls s Hr) as I0.
  split; [intros c; apply caller_progress; exact I0|]. split; [apply receiver_progress; exact I0|].
  apply closer_progress; exact I0.
Qed.
Print Assumptions C06_no_stuck_state.

(* Closing: once closed is set, either a thread is inside closeWithError and can progress (previous
   theorem), or the connection context is cancelled and every caller waiting in the select has its
   connection-closed branch enabled. *)
Theorem C06_close_unblocks : forall n ls s,
  run (init n) ls = Some s -> closed s = true ->
  (closer s <> None /\ closer_can_progress s)
  \/ (cctx s = true /\ forall c, ph (callers s c) = PWait -> enabled s (ConnDone c)).
Proof. intros n ls s Hr. apply close_unblocks. eapply inv0_reachable; eauto. Qed.
Print Assumptions C06_close_unblocks.

(* Release exactly once: whenever a step gives a stream id back (the caller on its response or on an
   unwritten frame, the receiver on behalf of a caller that has gone), the caller it belongs to still held
   it, it was reserved, and afterwards it is not: no double release, the in-use count (length held) never
   goes below zero and never counts an id twice. *)
Theorem C06_release_once : forall n ls s l s' c,
  0 < n -> run (init n) ls = Some s -> honest (init n) ls -> lok s l ->
  step s l = Some s' -> releases l = Some c ->
  holds (callers s c) /\ In (sid (callers s c)) (held s) /\ NoDup (held s) /\ ~ In (sid (callers s c)) (held s').
Proof.
  intros n ls s l s' c Hn Hr Hh Hl Hs Hrel. destruct (reach_inv n ls s Hn Hr Hh) as [I0 [I1 _]].
  eapply release_once; eauto.
Qed.
Print Assumptions C06_release_once.

(* A connection with nothing outstanding has all its streams available. *)
Theorem C06_quiescent_full : forall n ls s,
  0 < n -> run (init n) ls = Some s -> honest (init n) ls ->
  closed s = false -> cctx s = false -> rcv s = RIdle -> calls s = [] ->
  (forall c, ph (callers s c) = PNone \/ exists o, ph (callers s c) = PDone o) ->
  held s = [].
Proof.
  intros n ls s Hn Hr Hh Hc Hx Hrc Hcalls Hq. destruct (reach_inv n ls s Hn Hr Hh) as [_ [I1 I2]].
  apply quiescent_full; auto. intros [D|[D|D]]; [congruence | congruence | rewrite Hrc in D; exact D].
Qed.
Print Assumptions C06_quiescent_full.

(* An id stays reserved after its caller has returned only while the answer is still owed by the server,
   on the wire, or in the receiver's hands (on a connection that is not going down). *)
Theorem C06_leak_only_by_silence : forall n ls s c o,
  0 < n -> run (init n) ls = Some s -> honest (init n) ls ->
  closed s = false -> cctx s = false -> ~ rcv_dead (rcv s) ->
  holds (callers s c) -> ph (callers s c) = PDone o ->
  In (sid (callers s c), c) (srv s ++ s2c s) \/ rcv_has (rcv s) c.
Proof.
  intros n ls s c o Hn Hr Hh Hc Hx Hrd. destruct (reach_inv n ls s Hn Hr Hh) as [I0 [I1 I2]].
  apply leak_only_by_silence; auto. intros [D|[D|D]]; [congruence | congruence | exact (Hrd D)].
Qed.
Print Assumptions C06_leak_only_by_silence.

(* The abstract Write of this model composed with C07's writer models: the three outcomes WriteEnd
   distinguishes are exactly exec's case distinction on what writeContext returned, and each guarantees
   about the wire what the connection model assumes - for the direct writer ... *)
Theorem C06_write_abstraction_direct : forall has_to ls s t r,
  C07.Model.drun has_to C07.Model.d_init ls = Some s -> C07.Model.result_of (C07.Model.d_thr s) t = Some r ->
  (classify r = WFail <-> C07.Model.must_close r = true)
  /\ (classify r = WCtx0 -> C07.Model.bytes_of t (C07.Model.d_wire s) = [])
  /\ (classify r = WOk -> C07.Model.d_broken s = false ->
      fst r = length (C07.Model.frame_of (C07.Model.d_thr s) t)
      /\ C07.Spec.frame_present (C07.Model.frame_of (C07.Model.d_thr s)) t (C07.Model.d_wire s)).
Proof. exact direct_compose. Qed.
Print Assumptions C06_write_abstraction_direct.

(* ... and for the write coalescer (the connection must honour io.Writer: c_broken = false). *)
Theorem C06_write_abstraction_coalescer : forall has_to ls s t r,
  C07.Model.crun has_to C07.Model.c_init ls = Some s -> C07.Model.result_of (C07.Model.c_thr s) t = Some r ->
  (classify r = WFail <-> C07.Model.must_close r = true)
  /\ (classify r = WCtx0 -> C07.Model.c_broken s = false -> C07.Model.bytes_of t (C07.Model.c_wire s) = [])
  /\ (classify r = WOk -> C07.Model.c_broken s = false ->
      fst r = length (C07.Model.frame_of (C07.Model.c_thr s) t)
      /\ C07.Spec.frame_present (C07.Model.frame_of (C07.Model.c_thr s)) t (C07.Model.c_wire s)).
Proof. exact coal_compose. Qed.
Print Assumptions C06_write_abstraction_coalescer.

(* ---- non-vacuity ------------------------------------------------------------------------------------- *)

(* a write failure closes the connection from inside exec while another caller waits: the closer delivers
   to the waiter, skips itself (its call.timeout is closed), cancels the context and returns *)
Definition ex_close : list label :=
  [Start 1; Alloc 1 5; AddCall 1 0; WriteBegin 1; WriteEnd 1 WOk;
   Start 2; Alloc 2 6; AddCall 2 0; WriteBegin 2; WriteEnd 2 WFail; WriteErrClose 2;
   CloseBegin (WCaller 2) true; CloseDeliver 1; CloseSawTimeout 2; CloseCancel; Finish 1 false].

Example C06_nonvacuous_close :
  exists s, run (init 128) ex_close = Some s /\ honest (init 128) ex_close
    /\ ph (callers s 1) = PDone (OResp RCloseErr) /\ ph (callers s 2) = PDone OWriteErr
    /\ closed s = true /\ cctx s = true /\ closer s = None.
Proof.
  eexists. split; [vm_compute; reflexivity|]. split; [apply honestb_sound; vm_compute; reflexivity|].
  vm_compute. intuition.
Qed.

(* a quiescent state after traffic (hypotheses of C06_quiescent_full), and a leak by silence *)
Example C06_nonvacuous_quiescent :
  exists s, run (init 128) ex_run = Some s /\ closed s = false /\ cctx s = false /\ rcv s = RIdle /\ calls s = [].
Proof. eexists. split; [vm_compute; reflexivity|]. vm_compute. auto. Qed.

Example C06_nonvacuous_leak :
  exists s, run (init 128) (firstn 16 ex_run) = Some s /\ holds (callers s 1) /\ ph (callers s 1) = PDone OTimeout
            /\ In (5, 1) (srv s).
Proof. eexists. split; [vm_compute; reflexivity|]. vm_compute. intuition. Qed.
