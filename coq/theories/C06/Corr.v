(* C06/Corr.v -- C06 shares the connection model and the event-log replay with C01: a C06 case is a
   history recorded by cmd/c06 (lifecycle profile) and checked by C01.Corr.check, which includes the
   stream-accounting observation (allocator in-use count at quiescence = the model's held set). *)
From GocqlV Require Import Lib.Base C01.Model C01.Corr.

Definition case := C01.Corr.case.
Definition check := C01.Corr.check.
Definition run := C01.Corr.run.
