(* C09/GenEquiv.v -- the definitions that tools/go2coq generates from internal/murmur/murmur.go and
   murmur_unsafe.go on every run (Gen/Code.v, module GC) compute the same functions as the hand-written
   model C09/Model.v.  With these lemmas every C09 theorem about the model's Murmur3 is a theorem about
   the code as translated today; a semantic edit of murmur.go changes Gen/Code.v and breaks this file. *)
From GocqlV Require Import Lib.Base Lib.Bits Gen.Consts Gen.Code C09.Model.

(* ---- leaf functions ------------------------------------------------------------------------------ *)
(* both sides are unfolded to the same term: a difference fails at once instead of sending the
   conversion test into the arithmetic *)
Ltac same := lazymatch goal with |- ?a = ?b => first [constr_eq a b | fail 1 "generated code and model differ:" a "<>" b]; reflexivity end.

Lemma gen_fmix_eq n : GC.fmix n = fmix n.
Proof. unfold GC.fmix, fmix, mul64, shru64, i64, u64, K.murmur_fmix1, K.murmur_fmix2. same. Qed.

Lemma gen_rotl_eq x r : 0 <= r <= 64 -> GC.rotl x r = rotl x r.
Proof.
  intros Hr. unfold GC.rotl, rotl, shl64, shru64, i64, u64.
  replace (wrap 8 (64 - r)) with (64 - r); [same|].
  unfold wrap. change (2 ^ 8) with 256. rewrite Z.mod_small; lia.
Qed.

Lemma gen_block_eq p : is_byte p -> GC.block p = block p.
Proof.
  intros Hp. unfold is_byte in Hp. unfold GC.block, block, signed, sx8.
  change (2 ^ 8) with 256. change (2 ^ (8 - 1)) with 128. rewrite Z.mod_small by lia. reflexivity.
Qed.

Lemma gen_le_val_eq l : GC.le_val l = le_val l.
Proof. induction l as [|b l IH]; simpl; [reflexivity|]. rewrite IH. reflexivity. Qed.

Lemma gen_getBlock_eq data n : Z.of_nat n * 16 < 2 ^ 63 -> GC.getBlock data (Z.of_nat n) = get_block data n.
Proof.
  intros Hn. unfold GC.getBlock, get_block, load64, GC.le_load, i64. cbv zeta.
  assert (E : signed 64 (Z.of_nat n * 16) = Z.of_nat (n * 16)).
  { unfold signed. rewrite Z.mod_small by lia.
    destruct (Z.ltb_spec (Z.of_nat n * 16) (2 ^ (64 - 1))) as [_|H]; [lia|]. change (2 ^ (64 - 1)) with (2 ^ 63) in H. lia. }
  rewrite E. change (Z.to_nat (64 / 8)) with 8%nat.
  replace (Z.to_nat (Z.of_nat (n * 16) + 8)) with (n * 16 + 8)%nat by lia. rewrite Nat2Z.id.
  rewrite !gen_le_val_eq. reflexivity.
Qed.

(* ---- the block loop: any number of iterations, from any block index ------------------------------- *)
(* unfolding equations used by rewriting (a kernel conversion through [body_step] would evaluate the loads) *)
Lemma body_S t i data h : body (S t) i data h = body t (S i) data (body_step data i h).
Proof. reflexivity. Qed.

(* GC.Murmur3H1_loop1 threads (h1, h2, k1, k2); k1 and k2 are overwritten by getBlock in every
   iteration and reset after the loop, so the model's loop state is (h1, h2) *)
Lemma gen_loop_eq data : forall fuel i h1 h2 k1 k2, Z.of_nat (i + fuel) * 16 < 2 ^ 63 ->
  exists k1' k2', GC.Murmur3H1_loop1 fuel (Z.of_nat i) data h1 h2 k1 k2
                  = (fst (body fuel i data (h1, h2)), snd (body fuel i data (h1, h2)), k1', k2').
Proof.
  induction fuel as [|fuel IH]; intros i h1 h2 k1 k2 Hb.
  - exists k1, k2. reflexivity.
  - cbn [GC.Murmur3H1_loop1]. rewrite body_S.
    rewrite gen_getBlock_eq by lia. unfold body_step. destruct (get_block data i) as [b1 b2].
    cbv zeta. repeat match goal with |- context [GC.rotl ?x ?r] => rewrite (gen_rotl_eq x r) by lia end.
    replace (Z.of_nat i + 1) with (Z.of_nat (S i)) by lia.
    unfold mul64, add64, i64, K.murmur_c1, K.murmur_c2, body_add1, body_add2.
    match goal with |- exists _ _, GC.Murmur3H1_loop1 fuel _ data ?x1 ?x2 ?x3 ?x4 = _ =>
      destruct (IH (S i) x1 x2 x3 x4) as (r1 & r2 & E); [lia|]; exists r1, r2; rewrite E end.
    same.
Qed.

(* ---- Murmur3H1 ------------------------------------------------------------------------------------ *)
Lemma nth_byte (l : list Z) i : wf_bytes l -> is_byte (nth i l 0).
Proof.
  intros Hl. destruct (Nat.lt_ge_cases i (length l)) as [H|H].
  - unfold wf_bytes in Hl. rewrite Forall_forall in Hl. apply Hl, nth_In, H.
  - rewrite nth_overflow by exact H. unfold is_byte. lia.
Qed.

Lemma signed64_small x : 0 <= x < 2 ^ 63 -> signed 64 x = x.
Proof.
  intros Hx. unfold signed. change (2 ^ (64 - 1)) with (2 ^ 63). rewrite Z.mod_small by lia.
  destruct (Z.ltb_spec x (2 ^ 63)); lia.
Qed.

(* every key a Go program can hold (len(data) is an int): any number of 16-byte blocks, each of the 16
   tail lengths *)
Lemma gen_murmur3_h1_eq key : wf_bytes key -> Z.of_nat (length key) < 2 ^ 63 ->
  GC.Murmur3H1 key = murmur3_h1 key.
Proof.
  intros Hwf Hlen. unfold GC.Murmur3H1, murmur3_h1. cbv zeta.
  set (len := Z.of_nat (length key)) in *.
  assert (Hlen0 : 0 <= len) by (unfold len; lia).
  replace (Z.quot len 16) with (len / 16) by (symmetry; apply Z.quot_div_nonneg; lia).
  set (nb := Z.to_nat (len / 16)).
  replace (i64 len) with len by (unfold i64; rewrite signed64_small; lia).
  replace (Z.to_nat (signed 64 (len / 16 * 16))) with (nb * 16)%nat
    by (rewrite signed64_small by lia; unfold nb; lia).
  pose proof (gen_loop_eq key nb 0%nat 0 0 0 0) as L. cbn [Z.of_nat] in L.
  destruct L as (r1 & r2 & E); [unfold nb; lia|]. rewrite E. clear E.
  destruct (body nb 0 key (0, 0)) as [h1 h2]. cbn [fst snd].
  set (tail := skipn (nb * 16) key).
  assert (Htail : wf_bytes tail) by (apply wf_skipn, Hwf).
  assert (Hn : 0 <= Z.land len 15 < 16).
  { change 15 with (2 ^ 4 - 1). rewrite land_ones_mod by lia. change (2 ^ 4) with 16. lia. }
  generalize dependent (Z.land len 15). intros n Hn.
  assert (C : n = 0 \/ n = 1 \/ n = 2 \/ n = 3 \/ n = 4 \/ n = 5 \/ n = 6 \/ n = 7 \/ n = 8 \/ n = 9 \/ n = 10
              \/ n = 11 \/ n = 12 \/ n = 13 \/ n = 14 \/ n = 15) by lia.
  clear Hn.
  repeat (destruct C as [C|C]); subst n;
    cbv beta iota zeta delta [Z.eqb Pos.eqb Z.leb Z.compare Pos.compare Pos.compare_cont when tail_k1 tail_k2];
    repeat match goal with
           | |- context [GC.fmix ?x] => rewrite (gen_fmix_eq x)
           | |- context [GC.rotl ?x ?r] => rewrite (gen_rotl_eq x r) by lia
           | |- context [GC.block ?x] => rewrite (gen_block_eq x) by (apply nth_byte, Htail)
           end;
    unfold shl64, mul64, add64, i64, nthb, K.murmur_c1, K.murmur_c2; same.
Qed.
