(* C09/Proofs3.v -- routing keys: layout, decoding, partition-key order. *)
From GocqlV Require Import Lib.Base Lib.Bits Gen.Consts C09.Model C09.Spec.

Local Arguments Z.mul : simpl never.
Local Arguments Z.add : simpl never.
Local Arguments Z.pow : simpl never.
Local Arguments Z.modulo : simpl never.
Local Arguments Z.div : simpl never.

Lemma len16_component c : short_comp c -> len16 c ++ c ++ [0] = component c.
Proof.
  unfold short_comp, len16, component, wrap. intros Hs.
  rewrite Z.mod_small by lia. reflexivity.
Qed.

(* the composite loop on well-formed components appends their CompositeType encoding *)
Lemma composite_loop_ok comps nvalues : forall buf,
  Forall (fun c => 0 <= fst c < nvalues) comps -> Forall (fun c => short_comp (snd c)) comps ->
  composite_loop (map (fun c => (fst c, MOk (snd c))) comps) nvalues buf
  = RKOk (buf ++ composite_key (map snd comps)).
Proof.
  induction comps as [|[i c] comps IH]; intros buf Hi Hs; cbn [map composite_loop].
  - unfold composite_key. cbn [map concat]. rewrite app_nil_r. reflexivity.
  - apply Forall_cons_iff in Hi. destruct Hi as [Hi0 Hi]. apply Forall_cons_iff in Hs. destruct Hs as [Hs0 Hs].
    cbn [fst snd] in *.
    replace ((i <? 0) || (nvalues <=? i)) with false by lia.
    rewrite IH by assumption. unfold composite_key. cbn [map concat].
    rewrite <- len16_component by assumption. rewrite <- !app_assoc. reflexivity.
Qed.

Lemma create_routing_key_layout comps nvalues :
  Forall (fun c => 0 <= fst c < nvalues) comps -> Forall (fun c => short_comp (snd c)) comps ->
  create_routing_key (Some (map (fun c => (fst c, MOk (snd c))) comps)) nvalues
  = RKOk (partition_key (map snd comps)).
Proof.
  intros Hi Hs. unfold create_routing_key.
  destruct comps as [|[i c] [|c2 comps]].
  - reflexivity.
  - cbn [map fst snd]. apply Forall_cons_iff in Hi. destruct Hi as [Hi0 _]. cbn [fst] in Hi0.
    replace ((i <? 0) || (nvalues <=? i)) with false by lia. reflexivity.
  - change (map (fun c0 => (fst c0, MOk (snd c0))) ((i, c) :: c2 :: comps))
      with ((i, MOk c) :: (fst c2, MOk (snd c2)) :: map (fun c0 => (fst c0, MOk (snd c0))) comps).
    change ((i, MOk c) :: (fst c2, MOk (snd c2)) :: map (fun c0 => (fst c0, MOk (snd c0))) comps)
      with (map (fun c0 => (fst c0, MOk (snd c0))) ((i, c) :: c2 :: comps)).
    rewrite composite_loop_ok by assumption. reflexivity.
Qed.

(* ---- decoding ------------------------------------------------------------------------------------------ *)
Lemma composite_split_ok comps : forall fuel, (length comps < fuel)%nat -> Forall short_comp comps ->
  composite_split fuel (composite_key comps) = Some comps.
Proof.
  induction comps as [|c comps IH]; intros fuel Hf Hs.
  - destruct fuel; [lia|]. reflexivity.
  - destruct fuel as [|fuel]; [cbn [length] in Hf; lia|].
    apply Forall_cons_iff in Hs. destruct Hs as [Hc Hs]. unfold short_comp in Hc.
    unfold composite_key. cbn [map concat]. fold (composite_key comps).
    unfold component. cbn [app composite_split].
    set (n := Z.of_nat (length c)) in *.
    assert (Hn : Z.to_nat (n / 256 * 256 + n mod 256) = length c) by (unfold n; lia).
    rewrite Hn.
    assert (Hlen : length (c ++ [0]) = (length c + 1)%nat) by (rewrite app_length; reflexivity).
    assert (Hge : Nat.ltb (length ((c ++ [0]) ++ composite_key comps)) (length c + 1)%nat = false).
    { apply Nat.ltb_ge. rewrite app_length, Hlen. lia. }
    rewrite Hge.
    assert (Hsk : skipn (length c + 1) ((c ++ [0]) ++ composite_key comps) = composite_key comps).
    { rewrite <- Hlen. rewrite skipn_app, skipn_all, Nat.sub_diag. reflexivity. }
    assert (Hfi : firstn (length c) ((c ++ [0]) ++ composite_key comps) = c).
    { rewrite <- app_assoc, firstn_app, firstn_all, Nat.sub_diag. cbn [firstn]. apply app_nil_r. }
    rewrite Hsk, Hfi, IH; [reflexivity| cbn [length] in Hf; lia | assumption].
Qed.

Lemma component_length c : length (component c) = (length c + 3)%nat.
Proof. unfold component. cbn [app length]. rewrite app_length. cbn [length]. lia. Qed.

Lemma composite_key_length comps : (length comps <= length (composite_key comps))%nat.
Proof.
  induction comps as [|c comps IH]; [cbn; lia|].
  unfold composite_key in *. cbn [map concat length]. rewrite app_length, component_length. lia.
Qed.

Lemma composite_decode_encode_lemma comps : Forall short_comp comps ->
  composite_decode (composite_key comps) = Some comps.
Proof.
  intros Hs. unfold composite_decode. apply composite_split_ok; [|assumption].
  pose proof (composite_key_length comps). lia.
Qed.

Lemma composite_key_injective a b : Forall short_comp a -> Forall short_comp b ->
  composite_key a = composite_key b -> a = b.
Proof.
  intros Ha Hb E. apply composite_decode_encode_lemma in Ha. apply composite_decode_encode_lemma in Hb.
  rewrite E in Ha. congruence.
Qed.

(* ---- which bound value goes where ------------------------------------------------------------------- *)
Lemma nth_map_MOk (vals : list (list Z)) i : 0 <= i < Z.of_nat (length vals) ->
  nth (Z.to_nat i) (map MOk vals) MErr = MOk (nth (Z.to_nat i) vals []).
Proof.
  intros Hi. rewrite (nth_indep _ MErr (MOk [])) by (rewrite map_length; lia). apply map_nth.
Qed.

Lemma find_name_bound name : forall cols vals i, length vals = length cols -> 0 <= i ->
  match find_name name cols i with
  | Some j => i <= j < i + Z.of_nat (length cols)
              /\ bound_value name cols vals = Some (nth (Z.to_nat (j - i)) vals [])
  | None => bound_value name cols vals = None
  end.
Proof.
  induction cols as [|c cols IH]; intros vals i Hl Hi; cbn [find_name bound_value].
  - reflexivity.
  - destruct vals as [|v vals]; [discriminate|]. injection Hl as Hl.
    destruct (list_eq_dec Z.eq_dec name c) as [E|E].
    + subst c. replace (zlist_eqb name name) with true by (symmetry; apply zlist_eqb_eq; reflexivity).
      split; [cbn [length]; lia|]. replace (i - i) with 0 by lia. reflexivity.
    + destruct (zlist_eqb name c) eqn:Eb; [apply zlist_eqb_eq in Eb; contradiction|].
      specialize (IH vals (i + 1) Hl ltac:(lia)).
      destruct (find_name name cols (i + 1)) as [j|]; [|exact IH].
      destruct IH as [Hr Hb]. split; [cbn [length]; lia|]. rewrite Hb. f_equal.
      replace (Z.to_nat (j - i)) with (S (Z.to_nat (j - (i + 1)))) by lia. reflexivity.
Qed.

Lemma match_pk_bound cols vals : length vals = length cols -> forall pk keyvals,
  map (fun n => bound_value n cols vals) pk = map Some keyvals ->
  exists idx, match_pk pk cols = Some idx
    /\ Forall (fun c => 0 <= fst c < Z.of_nat (length cols)) (combine idx keyvals)
    /\ map snd (combine idx keyvals) = keyvals
    /\ map (fun i => (i, nth (Z.to_nat i) (map MOk vals) MErr)) idx
       = map (fun c => (fst c, MOk (snd c))) (combine idx keyvals).
Proof.
  intros Hl. induction pk as [|k pk IH]; intros [|v keyvals] E; try discriminate.
  - exists []. repeat split; constructor.
  - cbn [map] in E. injection E as Ek E. destruct (IH keyvals E) as (idx & Hm & Hr & Hs & Hc).
    pose proof (find_name_bound k cols vals 0 Hl ltac:(lia)) as Hf.
    cbn [match_pk]. destruct (find_name k cols 0) as [j|]; [|congruence].
    destruct Hf as [Hj Hb]. rewrite Hb in Ek. injection Ek as Ek. rewrite Z.sub_0_r in Ek.
    rewrite Hm. exists (j :: idx). cbn [combine map fst snd]. repeat split.
    + constructor; [cbn [fst]; lia|assumption].
    + rewrite Hs. reflexivity.
    + rewrite Hc, nth_map_MOk by lia. rewrite Ek. reflexivity.
Qed.

Lemma routing_key_by_name_lemma cc cols pk vals keyvals :
  cc <> 0 -> cols <> [] -> length vals = length cols ->
  map (fun n => bound_value n cols vals) pk = map Some keyvals ->
  Forall short_comp keyvals ->
  get_routing_key None false cc cols [] false (Some pk) (map MOk vals) (Z.of_nat (length cols))
  = RKOk (partition_key keyvals).
Proof.
  intros Hcc Hcols Hl Hb Hs. unfold get_routing_key, routing_info.
  replace ((cc =? 0) || (Z.of_nat (length cols) =? 0)) with false
    by (destruct cols; [congruence|cbn [length]; lia]).
  destruct (match_pk_bound cols vals Hl pk keyvals Hb) as (idx & Hm & Hr & Hsn & Hc).
  rewrite Hm, Hc. rewrite create_routing_key_layout; [rewrite Hsn; reflexivity|assumption|].
  rewrite <- Hsn in Hs. rewrite Forall_map in Hs. exact Hs.
Qed.

Lemma routing_key_missing_lemma cc cols pk vals per nvalues :
  cc <> 0 -> length vals = length cols ->
  (exists n, In n pk /\ bound_value n cols vals = None) ->
  get_routing_key None false cc cols [] false (Some pk) per nvalues = RKNil.
Proof.
  intros Hcc Hl (n & Hin & Hn). unfold get_routing_key, routing_info.
  destruct ((cc =? 0) || (Z.of_nat (length cols) =? 0)); [reflexivity|].
  assert (Hm : match_pk pk cols = None).
  { induction pk as [|k pk IH]; [contradiction|]. cbn [match_pk].
    pose proof (find_name_bound k cols vals 0 Hl ltac:(lia)) as Hf.
    destruct Hin as [->|Hin].
    - destruct (find_name n cols 0); [destruct Hf as [_ Hf]; congruence|reflexivity].
    - rewrite (IH Hin). destruct (find_name k cols 0); reflexivity. }
  rewrite Hm. reflexivity.
Qed.

Lemma routing_key_v4_lemma cc cols pkey ks0 tpk vals :
  cc <> 0 -> pkey <> [] -> length vals = length cols ->
  Forall (fun i => 0 <= i < Z.of_nat (length cols)) pkey ->
  Forall (fun i => short_comp (nth (Z.to_nat i) vals [])) pkey ->
  get_routing_key None false cc cols pkey ks0 tpk (map MOk vals) (Z.of_nat (length cols))
  = RKOk (partition_key (map (fun i => nth (Z.to_nat i) vals []) pkey)).
Proof.
  intros Hcc Hne Hl Hr Hs. unfold get_routing_key, routing_info.
  destruct pkey as [|p0 pkey']; [congruence|].
  assert (Hp0 : 0 <= p0 < Z.of_nat (length cols)) by (apply Forall_cons_iff in Hr; apply Hr).
  replace ((cc =? 0) || (Z.of_nat (length cols) =? 0)) with false by lia.
  set (pkey := p0 :: pkey') in *.
  assert (Hall : forallb (fun c => (0 <=? c) && (c <? Z.of_nat (length cols))) pkey = true).
  { apply forallb_forall. intros x Hx. rewrite Forall_forall in Hr. specialize (Hr x Hx). lia. }
  rewrite Hall.
  set (comps := map (fun i => (i, nth (Z.to_nat i) vals [])) pkey).
  assert (E1 : map (fun i => (i, nth (Z.to_nat i) (map MOk vals) MErr)) pkey
               = map (fun c => (fst c, MOk (snd c))) comps).
  { unfold comps. rewrite map_map. apply map_ext_in. intros i Hi. cbn [fst snd].
    rewrite Forall_forall in Hr. rewrite nth_map_MOk by (rewrite Hl; apply Hr, Hi). reflexivity. }
  assert (E2 : map snd comps = map (fun i => nth (Z.to_nat i) vals []) pkey).
  { unfold comps. rewrite map_map. reflexivity. }
  rewrite E1, create_routing_key_layout, E2; [reflexivity| |].
  - unfold comps. apply Forall_map. cbn [fst]. exact Hr.
  - unfold comps. apply Forall_map. cbn [snd]. exact Hs.
Qed.

(* a partition-key index outside the bind columns (a malformed PREPARED response): an error, for every
   statement shape and whatever is bound *)
Lemma routing_key_bad_index_lemma cc cols pkey ks0 tpk per nvalues :
  cc <> 0 -> cols <> [] ->
  (exists i, In i pkey /\ ~ (0 <= i < Z.of_nat (length cols))) ->
  get_routing_key None false cc cols pkey ks0 tpk per nvalues = RKErr.
Proof.
  intros Hcc Hcols (i & Hin & Hbad). unfold get_routing_key, routing_info.
  replace ((cc =? 0) || (Z.of_nat (length cols) =? 0)) with false
    by (destruct cols; [congruence|cbn [length]; lia]).
  destruct pkey as [|p0 pkey']; [contradiction|]. set (pkey := p0 :: pkey') in *.
  destruct (forallb (fun c => (0 <=? c) && (c <? Z.of_nat (length cols))) pkey) eqn:E; [|reflexivity].
  rewrite forallb_forall in E. specialize (E i Hin). lia.
Qed.

(* ---- one handle, several calls ------------------------------------------------------------------------- *)
Definition is_read (op : qop) : bool := match op with QGet | QPick => true | _ => false end.

Lemma q_run_app cc cols pkey ks0 tpk : forall a st b,
  q_run cc cols pkey ks0 tpk st (a ++ b)
  = q_run cc cols pkey ks0 tpk st a ++ q_run cc cols pkey ks0 tpk (fold_left q_step a st) b.
Proof.
  induction a as [|op a IH]; intros st b; [reflexivity|].
  destruct op; cbn [app q_run fold_left q_step]; rewrite IH; reflexivity.
Qed.

Lemma q_state_ignores_reads : forall ops st,
  fold_left q_step ops st = fold_left q_step (filter (fun op => negb (is_read op)) ops) st.
Proof.
  induction ops as [|op ops IH]; intros st; [reflexivity|].
  destruct op; cbn [filter is_read negb fold_left q_step]; apply IH.
Qed.

Lemma q_get_after_bind cc cols pkey ks0 tpk st ops per n :
  let st' := fold_left q_step ops st in
  q_run cc cols pkey ks0 tpk st (ops ++ [QBind per n; QGet])
  = q_run cc cols pkey ks0 tpk st ops
    ++ [get_routing_key (q_explicit st') (q_has_binding st' && (n =? 0)) cc cols pkey ks0 tpk per n].
Proof. cbv zeta. rewrite q_run_app. reflexivity. Qed.
