(* C09/Props.v -- the proof obligations for property C09, and nothing else.
   Model.v transcribes the Go code (internal/murmur/murmur.go, token.go, session.go createRoutingKey /
   routingKeyInfo / GetRoutingKey); Spec.v transcribes Cassandra (MurmurHash.hash3_x64_128,
   Murmur3Partitioner, RandomPartitioner, ByteOrderedPartitioner, CompositeType) and is anchored on
   Java-/python-generated vectors.  Each theorem is closed by a lemma from Proofs1-3.v. *)
From GocqlV Require Import Lib.Base Gen.Consts C09.Model C09.Spec C09.Proofs1 C09.Proofs2 C09.Proofs3 C09.Refuted.

(* The driver's Murmur3 h1 is Cassandra's, for every byte string: every length, every tail length 0..15
   after any number of 16-byte blocks, every byte value (bytes >= 0x80 are sign-extended in the tail). *)
Theorem C09_murmur_go_eq_cassandra : forall key, wf_bytes key -> murmur3_h1 key = cassandra_h1 key.
Proof. exact murmur_go_eq_cassandra_lemma. Qed.
Print Assumptions C09_murmur_go_eq_cassandra.

(* The Murmur3 token of every non-empty partition key is the one Cassandra's Murmur3Partitioner assigns
   (getToken = normalize(h1): Long.MIN_VALUE becomes Long.MAX_VALUE), and is never Long.MIN_VALUE.
   Before the fix of finding murmur3-min-token-not-normalized this needed h1 <> Long.MIN_VALUE; the pre-fix
   behaviour and its witness are kept in Refuted.v as a regression fact. *)
Theorem C09_murmur_token_eq_cassandra : forall key, wf_bytes key -> key <> [] ->
  murmur3_token key = cassandra_murmur3_token key /\ murmur3_token key <> long_min.
Proof. exact murmur_token_eq. Qed.
Print Assumptions C09_murmur_token_eq_cassandra.

(* RandomPartitioner: for every 16-byte digest the token is abs(BigInteger(digest)) (two's complement,
   big-endian), and lies in [0, 2^127]. *)
Theorem C09_random_token_abs : forall md5, length md5 = 16%nat -> wf_bytes md5 ->
  random_token md5 = cassandra_random_token md5 /\ 0 <= random_token md5 <= 2 ^ 127.
Proof. exact random_token_lemma. Qed.
Print Assumptions C09_random_token_abs.

(* Ordered partitioner: the token is the key and tokens compare as unsigned bytes, lexicographically,
   a proper prefix first (FBUtilities.compareUnsigned), for byte strings of any length. *)
Theorem C09_ordered_less_unsigned_lex : forall a b, ordered_less a b = true <-> bytes_lt a b.
Proof. exact ordered_less_bytes_lt. Qed.
Print Assumptions C09_ordered_less_unsigned_lex.

(* ... which is a strict total order. *)
Theorem C09_ordered_less_strict_total_order :
  (forall a, ordered_less a a = false)
  /\ (forall a b c, ordered_less a b = true -> ordered_less b c = true -> ordered_less a c = true)
  /\ (forall a b, a <> b -> ordered_less a b = true \/ ordered_less b a = true)
  /\ (forall a b, ordered_less a b = true -> ordered_less b a = false).
Proof.
  split; [exact ordered_less_irrefl|]. split; [exact ordered_less_trans|].
  split; [exact ordered_less_total|exact ordered_less_asym].
Qed.
Print Assumptions C09_ordered_less_strict_total_order.

(* Murmur3 token strings as the cluster reports them (Long.toString) parse back to the same number, over
   the whole int64 range ... *)
Theorem C09_parse_print_murmur : forall v, - 2 ^ 63 <= v < 2 ^ 63 -> parse_murmur3_token (to_string v) = v.
Proof. exact parse_print_murmur_lemma. Qed.
Print Assumptions C09_parse_print_murmur.

(* ... hence parsed tokens order exactly as Cassandra orders LongTokens. *)
Theorem C09_murmur_token_string_order : forall a b, - 2 ^ 63 <= a < 2 ^ 63 -> - 2 ^ 63 <= b < 2 ^ 63 ->
  (murmur3_less (parse_murmur3_token (to_string a)) (parse_murmur3_token (to_string b)) = true <-> long_token_lt a b).
Proof.
  intros a b Ha Hb. rewrite !parse_print_murmur_lemma by assumption. unfold murmur3_less, long_token_lt. lia.
Qed.
Print Assumptions C09_murmur_token_string_order.

(* Any in-range decimal numeral (leading zeros, optional sign) parses to its value. *)
Theorem C09_parse_decimal_murmur : forall ds, ds <> [] -> Forall is_dec_digit ds ->
  (dec_value ds < 2 ^ 63 -> parse_murmur3_token ds = dec_value ds /\ parse_murmur3_token (43 :: ds) = dec_value ds)
  /\ (dec_value ds <= 2 ^ 63 -> parse_murmur3_token (45 :: ds) = - dec_value ds).
Proof. exact parse_int64_decimal. Qed.
Print Assumptions C09_parse_decimal_murmur.

(* Random token strings (BigInteger.toString) parse back to the same integer, of any size, and order as
   BigIntegerTokens do. *)
Theorem C09_parse_print_random : forall a b, exists ta tb,
  parse_random_token (to_string a) = Some ta /\ parse_random_token (to_string b) = Some tb
  /\ ta = a /\ tb = b /\ (random_less ta tb = true <-> a < b).
Proof.
  intros a b. exists a, b. rewrite !parse_print_random_lemma. repeat split; unfold random_less in *; lia.
Qed.
Print Assumptions C09_parse_print_random.

(* createRoutingKey on serialized components (bound indexes in range, no component over 65535 bytes) yields
   the key Cassandra hashes: the value itself for one column, CompositeType framing for several. *)
Theorem C09_routing_key_layout : forall comps nvalues,
  Forall (fun c => 0 <= fst c < nvalues) comps -> Forall (fun c => short_comp (snd c)) comps ->
  create_routing_key (Some (map (fun c => (fst c, MOk (snd c))) comps)) nvalues
  = RKOk (partition_key (map snd comps)).
Proof. exact create_routing_key_layout. Qed.
Print Assumptions C09_routing_key_layout.

(* The composite framing is uniquely decodable: Cassandra's reader recovers exactly the components, in
   order, for any number of components; distinct component lists give distinct keys. *)
Theorem C09_composite_decode_encode : forall comps, Forall short_comp comps ->
  composite_decode (composite_key comps) = Some comps
  /\ (forall comps', Forall short_comp comps' -> composite_key comps = composite_key comps' -> comps = comps').
Proof.
  intros comps Hs. split; [apply composite_decode_encode_lemma, Hs|].
  intros comps' Hs' E. apply composite_key_injective; assumption.
Qed.
Print Assumptions C09_composite_decode_encode.

(* GetRoutingKey, partition key found through the table metadata (protocol < 4): when every partition-key
   column is bound, the key consists of the values bound to the partition-key columns, in PARTITION-KEY
   order (not bind order), the first marker winning when a column is bound more than once. *)
Theorem C09_routing_key_by_name : forall cc cols pk vals keyvals,
  cc <> 0 -> cols <> [] -> length vals = length cols ->
  map (fun n => bound_value n cols vals) pk = map Some keyvals ->
  Forall short_comp keyvals ->
  get_routing_key None false cc cols [] false (Some pk) (map MOk vals) (Z.of_nat (length cols))
  = RKOk (partition_key keyvals).
Proof. exact routing_key_by_name_lemma. Qed.
Print Assumptions C09_routing_key_by_name.

(* ... and when some partition-key column is not bound there is no routing key (and no error). *)
Theorem C09_routing_key_missing_column : forall cc cols pk vals per nvalues,
  cc <> 0 -> length vals = length cols ->
  (exists n, In n pk /\ bound_value n cols vals = None) ->
  get_routing_key None false cc cols [] false (Some pk) per nvalues = RKNil.
Proof. exact routing_key_missing_lemma. Qed.
Print Assumptions C09_routing_key_missing_column.

(* GetRoutingKey with the partition-key bind indexes the server supplies (protocol 4+): the key consists of
   the values at those indexes, in the server's (= partition-key) order. *)
Theorem C09_routing_key_v4 : forall cc cols pkey ks0 tpk vals,
  cc <> 0 -> pkey <> [] -> length vals = length cols ->
  Forall (fun i => 0 <= i < Z.of_nat (length cols)) pkey ->
  Forall (fun i => short_comp (nth (Z.to_nat i) vals [])) pkey ->
  get_routing_key None false cc cols pkey ks0 tpk (map MOk vals) (Z.of_nat (length cols))
  = RKOk (partition_key (map (fun i => nth (Z.to_nat i) vals []) pkey)).
Proof. exact routing_key_v4_lemma. Qed.
Print Assumptions C09_routing_key_v4.

(* A partition-key index that does not designate a bind column (malformed PREPARED response) gives an error -
   never an index-out-of-range panic - whatever else the response and the bound values are. *)
Theorem C09_routing_key_bad_pk_index : forall cc cols pkey ks0 tpk per nvalues,
  cc <> 0 -> cols <> [] ->
  (exists i, In i pkey /\ ~ (0 <= i < Z.of_nat (length cols))) ->
  get_routing_key None false cc cols pkey ks0 tpk per nvalues = RKErr.
Proof. exact routing_key_bad_index_lemma. Qed.
Print Assumptions C09_routing_key_bad_pk_index.

(* One *Query used several times (GetRoutingKey, token-aware Pick, Bind of new values, RoutingKey, Release and
   reuse, in any order and number): the key returned right after Bind(values) is the key of THOSE values (or the
   explicit key still set on the handle) whatever was asked or bound before, and earlier GetRoutingKey / Pick calls
   leave no trace in the handle. *)
Theorem C09_routing_key_uses_current_binding : forall cc cols pkey ks0 tpk st ops per n,
  let st' := fold_left q_step ops st in
  q_run cc cols pkey ks0 tpk st (ops ++ [QBind per n; QGet])
  = q_run cc cols pkey ks0 tpk st ops
    ++ [get_routing_key (q_explicit st') (q_has_binding st' && (n =? 0)) cc cols pkey ks0 tpk per n]
  /\ st' = fold_left q_step (filter (fun op => negb (is_read op)) ops) st.
Proof. intros. split; [apply q_get_after_bind|apply q_state_ignores_reads]. Qed.
Print Assumptions C09_routing_key_uses_current_binding.

(* ---- non-vacuity: the hypotheses are satisfiable by concrete, non-trivial values ------------------- *)
(* the key whose h1 is Long.MIN_VALUE (the witness of the fixed finding) is inside the theorem now *)
Example C09_min_value_key_normalised :
  wf_bytes min_witness /\ min_witness <> [] /\ cassandra_h1 min_witness = long_min
  /\ murmur3_token min_witness = long_max /\ cassandra_murmur3_token min_witness = long_max.
Proof. split; [apply wf_bytesb_spec; reflexivity|]. split; [discriminate|vm_compute; repeat split; reflexivity]. Qed.

Example C09_nonvacuous_tokens :
  let key := [104; 101; 108; 108; 111; 200; 255; 128; 1; 2; 3; 4; 5; 6; 7; 8; 9; 10; 11; 250] in   (* 1 block + 4 tail bytes, high bits *)
  wf_bytes key /\ key <> [] /\ cassandra_h1 key <> long_min
  /\ murmur3_token key = cassandra_murmur3_token key
  /\ (let md5 := [0xd4;0x1d;0x8c;0xd9;0x8f;0x00;0xb2;0x04;0xe9;0x80;0x09;0x98;0xec;0xf8;0x42;0x7e] in
      length md5 = 16%nat /\ wf_bytes md5 /\ random_token md5 = 2 ^ 128 - 0xd41d8cd98f00b204e9800998ecf8427e)
  /\ bytes_lt [1; 2] [1; 2; 0] /\ bytes_lt [1; 127; 9] [1; 128]
  /\ parse_murmur3_token (to_string (- 2 ^ 63)) = - 2 ^ 63
  /\ parse_random_token (to_string (2 ^ 127)) = Some (2 ^ 127).
Proof.
  cbv zeta. split; [apply wf_bytesb_spec; reflexivity|]. split; [discriminate|].
  split; [vm_compute; discriminate|]. split; [vm_compute; reflexivity|].
  split; [split; [reflexivity|split; [apply wf_bytesb_spec; reflexivity|vm_compute; reflexivity]]|].
  split; [left; exists 0, []; reflexivity|]. split; [right; exists [1], 127, 128, [9], []; repeat split; lia|].
  split; vm_compute; reflexivity.
Qed.

Example C09_nonvacuous_routing :
  (* WHERE b = ? AND a = ? AND a = ?  on a table with PRIMARY KEY ((a, b)) *)
  let cols := [[98]; [97]; [97]] in let pk := [[97]; [98]] in let vals := [[0; 0; 0; 1]; [120; 121]; [122]] in
  map (fun n => bound_value n cols vals) pk = map Some [[120; 121]; [0; 0; 0; 1]]
  /\ Forall short_comp [[120; 121]; [0; 0; 0; 1]]
  /\ get_routing_key None false 3 cols [] false (Some pk) (map MOk vals) 3
     = RKOk [0; 2; 120; 121; 0; 0; 4; 0; 0; 0; 1; 0]
  /\ get_routing_key None false 3 cols [1; 0] false None (map MOk vals) 3
     = RKOk [0; 2; 120; 121; 0; 0; 4; 0; 0; 0; 1; 0]
  /\ composite_decode [0; 2; 120; 121; 0; 0; 4; 0; 0; 0; 1; 0] = Some [[120; 121]; [0; 0; 0; 1]]
  /\ (exists n, In n [[97]; [99]] /\ bound_value n cols vals = None).
Proof.
  cbv zeta. split; [reflexivity|]. split; [repeat constructor|].
  split; [vm_compute; reflexivity|]. split; [vm_compute; reflexivity|]. split; [vm_compute; reflexivity|].
  exists [99]. split; [right; left; reflexivity|reflexivity].
Qed.

(* ---- the model is the code: generated-model equivalence (tools/go2coq, Gen/Code.v, C09/GenEquiv.v) ------
   GC.f is the Gallina definition that tools/go2coq generates from the Go source of f on every run
   (internal/murmur/murmur.go and murmur_unsafe.go).  Each theorem says that the generated definition and the
   hand-written model function of Model.v are the same function, for all arguments a Go program can pass. *)
From GocqlV Require Import Gen.Code.
From GocqlV Require C09.GenEquiv.   (* not imported: its helper lemmas stay qualified *)

(* rotl: every int64 x and every rotation amount a 64-bit rotation can take (the code passes 27, 31, 33). *)
Theorem C09_generated_rotl_is_model : forall x r, 0 <= r <= 64 -> GC.rotl x r = rotl x r.
Proof. exact C09.GenEquiv.gen_rotl_eq. Qed.
Print Assumptions C09_generated_rotl_is_model.

Theorem C09_generated_fmix_is_model : forall n, GC.fmix n = fmix n.
Proof. exact C09.GenEquiv.gen_fmix_eq. Qed.
Print Assumptions C09_generated_fmix_is_model.

(* block: int64(int8(p)) for every byte p *)
Theorem C09_generated_block_is_model : forall p, is_byte p -> GC.block p = block p.
Proof. exact C09.GenEquiv.gen_block_eq. Qed.
Print Assumptions C09_generated_block_is_model.

(* getBlock (murmur_unsafe.go, the pointer cast read as two little-endian int64 loads: amd64): every block
   index whose byte offset fits in an int *)
Theorem C09_generated_getBlock_is_model : forall data n, Z.of_nat n * 16 < 2 ^ 63 ->
  GC.getBlock data (Z.of_nat n) = get_block data n.
Proof. exact C09.GenEquiv.gen_getBlock_eq. Qed.
Print Assumptions C09_generated_getBlock_is_model.

(* Murmur3H1: every byte string whose length is a Go int - any number of 16-byte blocks (induction over the
   block loop), each of the 16 tail lengths of the fall-through switch. *)
Theorem C09_generated_murmur_is_model : forall key, wf_bytes key -> Z.of_nat (length key) < 2 ^ 63 ->
  GC.Murmur3H1 key = murmur3_h1 key.
Proof. exact C09.GenEquiv.gen_murmur3_h1_eq. Qed.
Print Assumptions C09_generated_murmur_is_model.

(* ... hence the function go2coq reads off murmur.go today is Cassandra's hash3_x64_128 h1. *)
Theorem C09_generated_murmur_eq_cassandra : forall key, wf_bytes key -> Z.of_nat (length key) < 2 ^ 63 ->
  GC.Murmur3H1 key = cassandra_h1 key.
Proof.
  intros key Hwf Hlen. rewrite (C09.GenEquiv.gen_murmur3_h1_eq key Hwf Hlen). exact (murmur_go_eq_cassandra_lemma key Hwf).
Qed.
Print Assumptions C09_generated_murmur_eq_cassandra.

(* non-vacuity / sanity: the generated definition evaluates (vm_compute) to the Java-generated vector of
   murmur_test.go on a key with one block and a tail with high-bit bytes *)
Example C09_generated_murmur_evaluates :
  let key := [104; 101; 108; 108; 111; 200; 255; 128; 1; 2; 3; 4; 5; 6; 7; 8; 9; 10; 11; 250] in
  wf_bytes key /\ Z.of_nat (length key) < 2 ^ 63 /\ GC.Murmur3H1 key = cassandra_h1 key.
Proof. cbv zeta. split; [apply wf_bytesb_spec; reflexivity|]. split; [reflexivity|vm_compute; reflexivity]. Qed.
