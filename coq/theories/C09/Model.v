(* C09/Model.v -- executable model of internal/murmur/murmur.go (Murmur3H1, fmix, rotl, block, getBlock),
   token.go (the three partitioners, ParseString, token Less) and session.go (createRoutingKey, the
   index computation of Session.routingKeyInfo, Query/Batch.GetRoutingKey).  Definitions only.

   Go int64 values are modelled as SIGNED integers (Z in [-2^63, 2^63)); every Go operation that can
   leave that range is followed by [i64] (= Go's wrap-around), conversions to uint64 are [u64]. *)
From GocqlV Require Import Lib.Base Gen.Consts.

(* ---- int64 arithmetic as Go performs it ------------------------------------------------------ *)
Definition i64 (x : Z) : Z := signed 64 x.          (* int64(x): wrap to the signed 64-bit range *)
Definition u64 (x : Z) : Z := wrap 64 x.            (* uint64(x) *)
Definition mul64 (a b : Z) : Z := i64 (a * b).      (* a * b on int64 *)
Definition add64 (a b : Z) : Z := i64 (a + b).      (* a + b on int64 *)
Definition shl64 (x r : Z) : Z := i64 (Z.shiftl x r).            (* x << r on int64 *)
Definition shru64 (x r : Z) : Z := i64 (Z.shiftr (u64 x) r).     (* int64(uint64(x) >> r) *)

(* murmur.go:49  func rotl(x int64, r uint8) int64 { return (x << r) | (int64)((uint64(x) >> (64 - r))) } *)
Definition rotl (x r : Z) : Z := Z.lor (shl64 x r) (shru64 x (64 - r)).

(* murmur.go:34  func fmix(n int64) int64 *)
Definition fmix (n : Z) : Z :=
  let n := Z.lxor n (shru64 n 33) in
  let n := mul64 n K.murmur_fmix1 in
  let n := Z.lxor n (shru64 n 33) in
  let n := mul64 n K.murmur_fmix2 in
  let n := Z.lxor n (shru64 n 33) in
  n.

(* murmur.go:45  func block(p byte) int64 { return int64(int8(p)) } *)
Definition block (p : Z) : Z := sx8 p.

(* murmur_unsafe.go:35 getBlock: a pointer cast of &data[n*16] to an array of two int64 on a little-endian machine;
   murmur_appengine.go: binary.LittleEndian.Uint64 -- the same two little-endian loads. *)
Fixpoint le_val (bs : list Z) : Z :=
  match bs with
  | [] => 0
  | b :: rest => b + 256 * le_val rest
  end.
Definition load64 (data : list Z) (off : nat) : Z := i64 (le_val (firstn 8 (skipn off data))).
Definition get_block (data : list Z) (n : nat) : Z * Z := (load64 data (n * 16), load64 data (n * 16 + 8)).

(* constants written as literals inside Murmur3H1 (not package-level, so not in Gen/Consts.v):
   murmur.go:72 h1*5 + 0x52dce729, murmur.go:81 h2*5 + 0x38495ab5; rotation amounts 31, 27, 33, 31 *)
Definition body_add1 : Z := 1390208809.   (* 0x52dce729 *)
Definition body_add2 : Z := 944331445.    (* 0x38495ab5 *)

(* murmur.go:63-82, one iteration of the body loop *)
Definition body_step (data : list Z) (i : nat) (h : Z * Z) : Z * Z :=
  let '(h1, h2) := h in
  let '(k1, k2) := get_block data i in
  let k1 := mul64 k1 K.murmur_c1 in
  let k1 := rotl k1 31 in
  let k1 := mul64 k1 K.murmur_c2 in
  let h1 := Z.lxor h1 k1 in
  let h1 := rotl h1 27 in
  let h1 := add64 h1 h2 in
  let h1 := add64 (mul64 h1 5) body_add1 in
  let k2 := mul64 k2 K.murmur_c2 in
  let k2 := rotl k2 33 in
  let k2 := mul64 k2 K.murmur_c1 in
  let h2 := Z.lxor h2 k2 in
  let h2 := rotl h2 31 in
  let h2 := add64 h2 h1 in
  let h2 := add64 (mul64 h2 5) body_add2 in
  (h1, h2).

(* for i := 0; i < nBlocks; i++ : [todo] iterations starting at index i *)
Fixpoint body (todo : nat) (i : nat) (data : list Z) (h : Z * Z) : Z * Z :=
  match todo with
  | O => h
  | S t => body t (S i) data (body_step data i h)
  end.

Definition nthb (l : list Z) (i : nat) : Z := nth i l 0.

(* the switch length & 15 with fallthrough: entering at case n executes the statements of every
   case <= n, in descending order; written as one guarded statement per case *)
Definition when (c : bool) (k v : Z) : Z := if c then Z.lxor k v else k.

(* murmur.go:89-110: cases 15..9 (k2) *)
Definition tail_k2 (tail : list Z) (n : Z) : Z :=
  let k2 := 0 in
  let k2 := when (15 <=? n) k2 (shl64 (block (nthb tail 14)) 48) in
  let k2 := when (14 <=? n) k2 (shl64 (block (nthb tail 13)) 40) in
  let k2 := when (13 <=? n) k2 (shl64 (block (nthb tail 12)) 32) in
  let k2 := when (12 <=? n) k2 (shl64 (block (nthb tail 11)) 24) in
  let k2 := when (11 <=? n) k2 (shl64 (block (nthb tail 10)) 16) in
  let k2 := when (10 <=? n) k2 (shl64 (block (nthb tail 9)) 8) in
  let k2 := when (9 <=? n) k2 (block (nthb tail 8)) in
  k2.

(* murmur.go:118-141: cases 8..1 (k1) *)
Definition tail_k1 (tail : list Z) (n : Z) : Z :=
  let k1 := 0 in
  let k1 := when (8 <=? n) k1 (shl64 (block (nthb tail 7)) 56) in
  let k1 := when (7 <=? n) k1 (shl64 (block (nthb tail 6)) 48) in
  let k1 := when (6 <=? n) k1 (shl64 (block (nthb tail 5)) 40) in
  let k1 := when (5 <=? n) k1 (shl64 (block (nthb tail 4)) 32) in
  let k1 := when (4 <=? n) k1 (shl64 (block (nthb tail 3)) 24) in
  let k1 := when (3 <=? n) k1 (shl64 (block (nthb tail 2)) 16) in
  let k1 := when (2 <=? n) k1 (shl64 (block (nthb tail 1)) 8) in
  let k1 := when (1 <=? n) k1 (block (nthb tail 0)) in
  k1.

(* murmur.go:54  func Murmur3H1(data []byte) int64 *)
Definition murmur3_h1 (data : list Z) : Z :=
  let length := Z.of_nat (length data) in
  let nblocks := Z.to_nat (length / 16) in
  let '(h1, h2) := body nblocks 0 data (0, 0) in
  let tail := skipn (nblocks * 16) data in
  let n := Z.land length 15 in
  (* case 9 (reached from 15..9): k2 *= c2; k2 = rotl(k2,33); k2 *= c1; h2 ^= k2 *)
  let h2 := if 9 <=? n
            then Z.lxor h2 (mul64 (rotl (mul64 (tail_k2 tail n) K.murmur_c2) 33) K.murmur_c1)
            else h2 in
  (* case 1 (reached from 15..1): k1 *= c1; k1 = rotl(k1,31); k1 *= c2; h1 ^= k1 *)
  let h1 := if 1 <=? n
            then Z.lxor h1 (mul64 (rotl (mul64 (tail_k1 tail n) K.murmur_c1) 31) K.murmur_c2)
            else h1 in
  let h1 := Z.lxor h1 (i64 length) in            (* h1 ^= int64(length) *)
  let h2 := Z.lxor h2 (i64 length) in
  let h1 := add64 h1 h2 in
  let h2 := add64 h2 h1 in
  let h1 := fmix h1 in
  let h2 := fmix h2 in
  let h1 := add64 h1 h2 in
  h1.

(* ---- token.go: partitioners ------------------------------------------------------------------ *)
(* token.go:65 murmur3Partitioner.Hash:
   h1 := murmur.Murmur3H1(partitionKey); if h1 == math.MinInt64 { h1 = math.MaxInt64 }; murmur3Token(h1)
   (math.MinInt64 / math.MaxInt64 are standard-library constants: -2^63 and 2^63-1) *)
Definition murmur3_token (key : list Z) : Z :=
  let h1 := murmur3_h1 key in
  if h1 =? - 2 ^ 63 then 2 ^ 63 - 1 else h1.
(* token.go:79 murmur3Token.Less: m < token.(murmur3Token) *)
Definition murmur3_less (a b : Z) : bool := a <? b.

(* token.go:91 orderedPartitioner.Hash: orderedToken(partitionKey): the key bytes are the token.
   token.go:104 orderedToken.Less: o < token  (Go string comparison: byte-wise, unsigned, a proper
   prefix is smaller) *)
Definition ordered_token (key : list Z) : list Z := key.
Fixpoint ordered_less (a b : list Z) : bool :=
  match a, b with
  | _, [] => false
  | [], _ :: _ => true
  | x :: a', y :: b' => if x <? y then true else if y <? x then false else ordered_less a' b'
  end.

(* big-endian value of a byte string (big.Int.SetBytes) *)
Fixpoint be_val_acc (acc : Z) (bs : list Z) : Z :=
  match bs with
  | [] => acc
  | b :: rest => be_val_acc (acc * 256 + b) rest
  end.
Definition be_val (bs : list Z) : Z := be_val_acc 0 bs.

(* token.go:123 var maxHashInt = "340282366920938463463374607431768211456" (a var, not in Gen/Consts.v) *)
Definition max_hash_int : Z := 340282366920938463463374607431768211456.

(* token.go:125 randomPartitioner.Hash, given sum = md5.Sum(partitionKey) (crypto/md5 is trusted):
   val.SetBytes(sum[:]); if sum[0] > 127 { val.Sub(val, maxHashInt); val.Abs(val) } *)
Definition random_token (sum : list Z) : Z :=
  let val := be_val sum in
  if nthb sum 0 >? 127 then Z.abs (val - max_hash_int) else val.
(* token.go:146 randomToken.Less: -1 == r.Cmp(token) *)
Definition random_less (a b : Z) : bool := a <? b.

(* ---- ParseString ----------------------------------------------------------------------------- *)
(* strconv.ParseUint(s, 10, 64) as documented and as implemented (go1.23 strconv/atoi.go:72-158):
   empty -> syntax error; scan left to right; a non-digit -> syntax error (value 0); as soon as the
   accumulated value leaves uint64 -> range error with value 2^64-1 (without looking further). *)
Inductive pu := PUOk (n : Z) | PUSyntax | PURange.

Definition is_digit (c : Z) : bool := (48 <=? c) && (c <=? 57).

Fixpoint parse_uint_loop (s : list Z) (n : Z) : pu :=
  match s with
  | [] => PUOk n
  | c :: rest =>
      if is_digit c then
        let n1 := n * 10 + (c - 48) in
        if 2 ^ 64 <=? n1 then PURange else parse_uint_loop rest n1
      else PUSyntax
  end.

Definition parse_uint (s : list Z) : pu :=
  match s with
  | [] => PUSyntax
  | _ => parse_uint_loop s 0
  end.

(* strconv.ParseInt(s, 10, 64), value only (token.go:70 discards the error): syntax error -> 0,
   out of range -> clamped to the nearest of MinInt64 / MaxInt64 *)
Definition parse_int64 (s : list Z) : Z :=
  match s with
  | [] => 0
  | c :: rest =>
      let neg := c =? 45 in
      let s' := if (c =? 43) || (c =? 45) then rest else s in
      match parse_uint s' with
      | PUSyntax => 0
      | PURange => if neg then - 2 ^ 63 else 2 ^ 63 - 1
      | PUOk un =>
          if negb neg && (2 ^ 63 <=? un) then 2 ^ 63 - 1
          else if neg && (2 ^ 63 <? un) then - 2 ^ 63
          else if neg then - un else un
      end
  end.

(* token.go:69 murmur3Partitioner.ParseString *)
Definition parse_murmur3_token (s : list Z) : Z := parse_int64 s.

(* token.go:138 randomPartitioner.ParseString: big.Int.SetString(str, 10) with the result flag ignored.
   Documented only for well-formed input (optional sign, at least one digit, digits only); for anything
   else math/big leaves the value undefined, modelled as None (not compared). *)
Fixpoint dec_val_acc (acc : Z) (s : list Z) : option Z :=
  match s with
  | [] => Some acc
  | c :: rest => if is_digit c then dec_val_acc (acc * 10 + (c - 48)) rest else None
  end.
Definition parse_random_token (s : list Z) : option Z :=
  match s with
  | [] => None
  | c :: rest =>
      let neg := c =? 45 in
      let s' := if (c =? 43) || (c =? 45) then rest else s in
      match s' with
      | [] => None
      | _ => match dec_val_acc 0 s' with
             | Some v => Some (if neg then - v else v)
             | None => None
             end
      end
  end.

(* token.go:96 orderedPartitioner.ParseString: orderedToken(str): the string's bytes *)
Definition parse_ordered_token (s : list Z) : list Z := s.

(* token.go:174 newTokenRing: partitioner selection by class-name suffix; the harness supplies the
   three HasSuffix results in the order the code tests them *)
Inductive part := PMurmur3 | POrdered | PRandom.
Definition select_partitioner (sfx_murmur3 sfx_ordered sfx_random : bool) : option part :=
  if sfx_murmur3 then Some PMurmur3
  else if sfx_ordered then Some POrdered
  else if sfx_random then Some PRandom
  else None.

(* ---- session.go: routing keys ------------------------------------------------------------------ *)
(* what Marshal(types[i], values[indexes[i]]) returned: bytes, (nil, nil) (a nil value), or an error
   (Marshal itself is C12's) *)
Inductive mres := MOk (b : list Z) | MNil | MErr.

Inductive rk_out :=
| RKNil                     (* (nil, nil): no routing key, no error *)
| RKOk (b : list Z)         (* (key, nil) *)
| RKErr                     (* (nil, err) from Marshal *)
| RKErrNoMetadata           (* (nil, ErrNoMetadata) *)
| RKErrNoKeyspace           (* (nil, ErrNoKeyspace) *)
| RKPanic.                  (* index out of range at run time *)

(* binary.BigEndian.PutUint16(lenBuf, uint16(len(encoded))) *)
Definition len16 (enc : list Z) : list Z :=
  let l := wrap 16 (Z.of_nat (length enc)) in [l / 256; l mod 256].

(* session.go:2016-2031, the composite loop; a component is (indexes[i], result of Marshal) *)
Fixpoint composite_loop (comps : list (Z * mres)) (nvalues : Z) (buf : list Z) : rk_out :=
  match comps with
  | [] => RKOk buf
  | (idx, m) :: rest =>
      if (idx <? 0) || (nvalues <=? idx) then RKPanic      (* values[routingKeyInfo.indexes[i]] *)
      else match m with
           | MErr => RKErr
           | MOk enc => composite_loop rest nvalues (buf ++ len16 enc ++ enc ++ [0])
           | MNil => composite_loop rest nvalues (buf ++ len16 [] ++ [] ++ [0])
           end
  end.

(* session.go:1998 createRoutingKey *)
Definition create_routing_key (info : option (list (Z * mres))) (nvalues : Z) : rk_out :=
  match info with
  | None => RKNil
  | Some [(idx, m)] =>
      if (idx <? 0) || (nvalues <=? idx) then RKPanic
      else match m with MErr => RKErr | MOk enc => RKOk enc | MNil => RKNil (* return routingKey(nil), nil *) end
  | Some comps => composite_loop comps nvalues []
  end.

(* column names are byte strings *)
Fixpoint find_name (name : list Z) (cols : list (list Z)) (i : Z) : option Z :=
  match cols with
  | [] => None
  | c :: rest => if zlist_eqb name c then Some i else find_name name rest (i + 1)
  end.

(* session.go:700-718: for each partition-key column (in partition-key order) the first bound column
   of that name; a missing one gives (nil, nil) *)
Fixpoint match_pk (pk : list (list Z)) (cols : list (list Z)) : option (list Z) :=
  match pk with
  | [] => Some []
  | k :: rest =>
      match find_name k cols 0 with
      | None => None
      | Some i => match match_pk rest cols with
                  | None => None
                  | Some l => Some (i :: l)
                  end
      end
  end.

Inductive info_out :=
| INil                      (* (nil, nil) *)
| IErrNoMetadata
| IErrNoKeyspace            (* Session.KeyspaceMetadata("") *)
| IErrBadIndex              (* session.go:660 a server-supplied pk index outside the bind columns: an error (not cached) *)
| IInfo (indexes : list Z). (* types[i] is columns[indexes[i]].TypeInfo in both branches *)

(* Session.routingKeyInfo after the prepare (session.go:646-727).
   col_count = info.request.colCount, cols = names of info.request.columns, pkey = info.request.pkeyColumns,
   ks0_empty = (info.request.columns[0].Keyspace == ""),
   table_pk = Some (names of tableMetadata.PartitionKey) when the table is in the keyspace metadata. *)
Definition routing_info (col_count : Z) (cols : list (list Z)) (pkey : list Z) (ks0_empty : bool)
                        (table_pk : option (list (list Z))) : info_out :=
  (* session.go:648 colCount == 0 || len(columns) == 0: no arguments (or none described), no key, no error *)
  if (col_count =? 0) || (Z.of_nat (length cols) =? 0) then INil
  else match pkey with
       | _ :: _ =>
           if forallb (fun c => (0 <=? c) && (c <? Z.of_nat (length cols))) pkey then IInfo pkey else IErrBadIndex
       | [] =>
           if ks0_empty then IErrNoKeyspace else
           match table_pk with
           | None => IErrNoMetadata
           | Some pk => match match_pk pk cols with
                        | None => INil
                        | Some idx => IInfo idx
                        end
           end
       end.

(* Query.GetRoutingKey (session.go:1166) / Batch.GetRoutingKey (session.go:1974).
   explicit = q.routingKey when set; binding = the query was created with Bind and has no values;
   per_col = Marshal(columns[j].TypeInfo, values[j]) for each bound column j (what createRoutingKey will
   obtain for a component whose index is j), nvalues = len(values). *)
Definition get_routing_key (explicit : option (list Z)) (binding : bool)
                           (col_count : Z) (cols : list (list Z)) (pkey : list Z) (ks0_empty : bool)
                           (table_pk : option (list (list Z)))
                           (per_col : list mres) (nvalues : Z) : rk_out :=
  match explicit with
  | Some k => RKOk k
  | None =>
      if binding then RKNil
      else match routing_info col_count cols pkey ks0_empty table_pk with
           | INil => RKNil
           | IErrNoMetadata => RKErrNoMetadata
           | IErrNoKeyspace => RKErrNoKeyspace
           | IErrBadIndex => RKErr
           | IInfo idx =>
               create_routing_key (Some (map (fun i => (i, nth (Z.to_nat i) per_col MErr)) idx)) nvalues
           end
  end.

(* Batch.GetRoutingKey (session.go:1974): first = None for a batch without entries, otherwise the
   first entry: (has a binding callback, the GetRoutingKey inputs of its statement and arguments) *)
Definition batch_routing_key (explicit : option (list Z)) (has_entries : bool) (binding : bool)
                             (col_count : Z) (cols : list (list Z)) (pkey : list Z) (ks0_empty : bool)
                             (table_pk : option (list (list Z)))
                             (per_col : list mres) (nvalues : Z) : rk_out :=
  match explicit with
  | Some k => RKOk k
  | None => if negb has_entries then RKNil
            else get_routing_key None binding col_count cols pkey ks0_empty table_pk per_col nvalues
  end.

(* ---- one Query / Batch handle used several times ---------------------------------------------------------
   The fields of a *Query that GetRoutingKey reads: routingKey (explicit), binding (set by Session.Bind),
   values.  The statement (hence the prepared metadata) is fixed for the life of the handle. *)
Record qstate := mkq { q_explicit : option (list Z); q_has_binding : bool; q_per : list mres; q_nvalues : Z }.

Inductive qop :=
| QBind (per : list mres) (nvalues : Z)       (* session.go:1260 q.Bind(v...): q.values = v (nothing else the key depends on) *)
| QRoutingKey (k : option (list Z))           (* session.go:1083 q.RoutingKey(k): q.routingKey = k (nil: None) *)
| QGet                                        (* q.GetRoutingKey(): reads q, writes none of the three fields *)
| QPick                                       (* TokenAwareHostPolicy.Pick(q): calls q.GetRoutingKey(), result unused here *)
| QFresh (has_binding : bool) (per : list mres) (nvalues : Z).
                                              (* q.Release(); q = session.Query(stmt, v...) or session.Bind(stmt, fn):
                                                 Release zeroes the struct (session.go:1403 reset), every field starts afresh *)

Definition q_step (st : qstate) (op : qop) : qstate :=
  match op with
  | QBind per n => mkq (q_explicit st) (q_has_binding st) per n
  | QRoutingKey k => mkq k (q_has_binding st) (q_per st) (q_nvalues st)
  | QGet | QPick => st
  | QFresh hb per n => mkq None hb per n
  end.

Section Handle.
  (* the prepared statement's metadata *)
  Variables (col_count : Z) (cols : list (list Z)) (pkey : list Z) (ks0_empty : bool) (table_pk : option (list (list Z))).

  (* session.go:1169: q.binding != nil && len(q.values) == 0 *)
  Definition q_get (st : qstate) : rk_out :=
    get_routing_key (q_explicit st) (q_has_binding st && (q_nvalues st =? 0)) col_count cols pkey ks0_empty table_pk
                    (q_per st) (q_nvalues st).

  (* the results of the GetRoutingKey calls of an operation sequence, in order *)
  Fixpoint q_run (st : qstate) (ops : list qop) : list rk_out :=
    match ops with
    | [] => []
    | QGet :: rest => q_get st :: q_run st rest
    | op :: rest => q_run (q_step st op) rest
    end.

  (* Batch: routingKey (explicit, only settable inside the package), Entries[0] (binding?, Args) *)
  Record bstate := mkb { b_explicit : option (list Z); b_first : option (bool * list mres * Z) }.
  Inductive bop :=
  | BSetFirst (binding : bool) (per : list mres) (nvalues : Z)   (* b.Query / b.Bind on an empty batch, or b.Entries[0] = ... *)
  | BAppend                                                     (* b.Query(other statement): a later entry *)
  | BExplicit (k : option (list Z))
  | BGet.
  Definition b_step (st : bstate) (op : bop) : bstate :=
    match op with
    | BSetFirst bi per n => mkb (b_explicit st) (Some (bi, per, n))
    | BExplicit k => mkb k (b_first st)
    | BAppend | BGet => st
    end.
  Definition b_get (st : bstate) : rk_out :=
    match b_first st with
    | None => batch_routing_key (b_explicit st) false false col_count cols pkey ks0_empty table_pk [] 0
    | Some (bi, per, n) => batch_routing_key (b_explicit st) true bi col_count cols pkey ks0_empty table_pk per n
    end.
  Fixpoint b_run (st : bstate) (ops : list bop) : list rk_out :=
    match ops with
    | [] => []
    | BGet :: rest => b_get st :: b_run st rest
    | op :: rest => b_run (b_step st op) rest
    end.
End Handle.
