(* C09/Proofs1.v -- the Go model of Murmur3H1 (signed int64 arithmetic, explicit 15-case tail) computes
   Cassandra's hash3_x64_128 h1 (Spec.v: residues mod 2^64, tail as a fold) for every byte string.
   Method: [wrap 64] maps the model's signed values to the specification's residues and commutes with
   every operation (homomorphism lemmas); the body loops are related by induction on the block count;
   the tail switch by the sixteen possible tail lengths. *)
From GocqlV Require Import Lib.Base Lib.Bits Gen.Consts C09.Model C09.Spec.

Local Arguments Z.mul : simpl never.
Local Arguments Z.add : simpl never.
Local Arguments Z.pow : simpl never.
Local Arguments Z.shiftl : simpl never.
Local Arguments Z.shiftr : simpl never.
Local Arguments Z.lxor : simpl never.
Local Arguments Z.lor : simpl never.
Local Arguments Z.modulo : simpl never.
Local Arguments Z.div : simpl never.

Definition two64 : Z := 18446744073709551616.
Lemma W_val : W = two64. Proof. reflexivity. Qed.
Lemma pow64 : 2 ^ 64 = two64. Proof. reflexivity. Qed.
Lemma pow63 : 2 ^ 63 = 9223372036854775808. Proof. reflexivity. Qed.

(* ---- wrap / signed ------------------------------------------------------------------------------ *)
Lemma wrap_range x : 0 <= wrap 64 x < two64.
Proof. unfold wrap. rewrite pow64. unfold two64. lia. Qed.

Lemma signed_range x : - 2 ^ 63 <= signed 64 x < 2 ^ 63.
Proof.
  unfold signed. change (64 - 1) with 63. rewrite pow64, pow63. unfold two64.
  destruct (Z.ltb_spec (x mod 18446744073709551616) 9223372036854775808); lia.
Qed.

Lemma wrap_signed x : wrap 64 (signed 64 x) = wrap 64 x.
Proof.
  unfold wrap, signed. change (64 - 1) with 63. rewrite pow64, pow63. unfold two64.
  destruct (Z.ltb_spec (x mod 18446744073709551616) 9223372036854775808); lia.
Qed.

Lemma signed_wrap_id s : - 2 ^ 63 <= s < 2 ^ 63 -> signed 64 (wrap 64 s) = s.
Proof.
  unfold wrap, signed. change (64 - 1) with 63. rewrite pow64, pow63. unfold two64. intros Hs.
  destruct (Z.ltb_spec ((s mod 18446744073709551616) mod 18446744073709551616) 9223372036854775808); lia.
Qed.

Lemma wrap_small x : 0 <= x < two64 -> wrap 64 x = x.
Proof. unfold wrap. rewrite pow64. unfold two64. intros. apply Z.mod_small. lia. Qed.

Lemma wrap_wrap x : wrap 64 (wrap 64 x) = wrap 64 x.
Proof. apply wrap_small, wrap_range. Qed.

Lemma jlong_signed r : 0 <= r < two64 -> jlong r = signed 64 r.
Proof.
  unfold jlong, signed. change (64 - 1) with 63. intros Hr.
  replace (r mod 2 ^ 64) with r by (symmetry; apply Z.mod_small; rewrite pow64; exact Hr). reflexivity.
Qed.

(* ---- homomorphisms -------------------------------------------------------------------------------- *)
Lemma H_i64 x : wrap 64 (i64 x) = wrap 64 x.
Proof. apply wrap_signed. Qed.

Lemma H_mul a b : wrap 64 (mul64 a b) = jmul (wrap 64 a) (wrap 64 b).
Proof.
  unfold mul64, jmul. rewrite H_i64. unfold wrap. fold W. apply Z.mul_mod. rewrite W_val. discriminate.
Qed.

Lemma H_add a b : wrap 64 (add64 a b) = jadd (wrap 64 a) (wrap 64 b).
Proof.
  unfold add64, jadd. rewrite H_i64. unfold wrap. fold W. apply Z.add_mod. rewrite W_val. discriminate.
Qed.

Lemma H_xor a b : wrap 64 (Z.lxor a b) = jxor (wrap 64 a) (wrap 64 b).
Proof.
  unfold jxor, wrap. apply Z.bits_inj'. intros n Hn.
  rewrite Z.lxor_spec, !Z.testbit_mod_pow2 by lia. rewrite Z.lxor_spec.
  destruct (n <? 64); simpl; [reflexivity|]. reflexivity.
Qed.

Lemma H_or a b : wrap 64 (Z.lor a b) = Z.lor (wrap 64 a) (wrap 64 b).
Proof.
  unfold wrap. apply Z.bits_inj'. intros n Hn.
  rewrite Z.lor_spec, !Z.testbit_mod_pow2 by lia. rewrite Z.lor_spec.
  destruct (n <? 64); simpl; reflexivity.
Qed.

Lemma H_shl x r : 0 <= r -> wrap 64 (shl64 x r) = jshl (wrap 64 x) r.
Proof.
  intros Hr. unfold shl64, jshl. rewrite H_i64. rewrite Z.shiftl_mul_pow2 by assumption.
  unfold wrap. fold W. symmetry. apply Z.mul_mod_idemp_l. rewrite W_val. discriminate.
Qed.

Lemma H_shru x r : 0 <= r -> wrap 64 (shru64 x r) = jushr (wrap 64 x) r.
Proof.
  intros Hr. unfold shru64, jushr, u64. rewrite H_i64. rewrite Z.shiftr_div_pow2 by assumption.
  apply wrap_small. pose proof (wrap_range x) as Hx.
  assert (0 < 2 ^ r) by (apply Z.pow_pos_nonneg; lia).
  split; [apply Z.div_pos; lia|].
  apply Z.le_lt_trans with (wrap 64 x); [|lia]. apply Z.div_le_upper_bound; [lia|]. nia.
Qed.

Lemma H_rotl x r : 0 <= r <= 64 -> wrap 64 (rotl x r) = rotl64 (wrap 64 x) r.
Proof. intros Hr. unfold rotl, rotl64. rewrite H_or, H_shl, H_shru by lia. reflexivity. Qed.

Lemma H_c1 : wrap 64 K.murmur_c1 = jc1. Proof. reflexivity. Qed.
Lemma H_c2 : wrap 64 K.murmur_c2 = jc2. Proof. reflexivity. Qed.
Lemma H_f1 : wrap 64 K.murmur_fmix1 = 0xff51afd7ed558ccd. Proof. reflexivity. Qed.
Lemma H_f2 : wrap 64 K.murmur_fmix2 = 0xc4ceb9fe1a85ec53. Proof. reflexivity. Qed.

Lemma H_fmix n : wrap 64 (fmix n) = jfmix (wrap 64 n).
Proof.
  unfold fmix, jfmix. cbv zeta.
  rewrite !H_xor, !H_shru, !H_mul, !H_xor, !H_shru, !H_mul, !H_xor, !H_shru, H_f1, H_f2 by lia.
  reflexivity.
Qed.

Lemma H_mix1 k : wrap 64 (mul64 (rotl (mul64 k K.murmur_c1) 31) K.murmur_c2) = jmix1 (wrap 64 k).
Proof. unfold jmix1. rewrite H_mul, H_rotl, H_mul, H_c1, H_c2 by lia. reflexivity. Qed.

Lemma H_mix2 k : wrap 64 (mul64 (rotl (mul64 k K.murmur_c2) 33) K.murmur_c1) = jmix2 (wrap 64 k).
Proof. unfold jmix2. rewrite H_mul, H_rotl, H_mul, H_c1, H_c2 by lia. reflexivity. Qed.

Ltac push :=
  repeat first [ rewrite H_mix1 | rewrite H_mix2 | rewrite H_add | rewrite H_mul | rewrite H_xor
               | rewrite H_rotl by lia | rewrite H_fmix ].

(* signed bytes *)
Lemma H_block b : is_byte b -> wrap 64 (block b) = jlong_of_byte b.
Proof.
  unfold is_byte, block, sx8, jlong_of_byte, java_byte, wrap. fold W. intros Hb.
  destruct (Z.ltb_spec b 128); f_equal; lia.
Qed.

Lemma jlong_of_byte_range b : 0 <= jlong_of_byte b < two64.
Proof. unfold jlong_of_byte. rewrite W_val. unfold two64. lia. Qed.

(* ---- little-endian loads --------------------------------------------------------------------------- *)
Lemma le_val_bound bs : wf_bytes bs -> 0 <= le_val bs < 256 ^ Z.of_nat (length bs).
Proof.
  induction 1 as [|b bs Hb _ IH]; [simpl; lia|].
  cbn [le_val length]. rewrite Nat2Z.inj_succ, Z.pow_succ_r by lia. unfold is_byte in Hb. lia.
Qed.

Lemma jblock_le bs i : 0 <= i -> jblock bs i = 2 ^ (8 * i) * le_val bs.
Proof.
  revert i. induction bs as [|b bs IH]; intros i Hi; cbn [jblock le_val]; [lia|].
  rewrite IH by lia. replace (8 * (i + 1)) with (8 * i + 8) by lia.
  rewrite Z.pow_add_r by lia. change (2 ^ 8) with 256. ring.
Qed.

Lemma H_load data off : wf_bytes data -> wrap 64 (load64 data off) = jblock (firstn 8 (skipn off data)) 0.
Proof.
  intros Hwf. unfold load64. rewrite H_i64, jblock_le by lia. change (2 ^ (8 * 0)) with 1. rewrite Z.mul_1_l.
  apply wrap_small.
  assert (Hw : wf_bytes (firstn 8 (skipn off data))) by (apply wf_firstn, wf_skipn, Hwf).
  pose proof (le_val_bound _ Hw) as Hb.
  assert (Hl : (length (firstn 8 (skipn off data)) <= 8)%nat) by apply firstn_le_length.
  assert (256 ^ Z.of_nat (length (firstn 8 (skipn off data))) <= 256 ^ 8) by (apply Z.pow_le_mono_r; lia).
  change (256 ^ 8) with two64 in *. lia.
Qed.

(* ---- the body loop --------------------------------------------------------------------------------- *)
(* one block of the specification, as a function of the remaining key *)
Definition jstep (key : list Z) (h1 h2 : Z) : Z * Z :=
  let k1 := jblock (firstn 8 key) 0 in
  let k2 := jblock (firstn 8 (skipn 8 key)) 0 in
  let h1 := jxor h1 (jmix1 k1) in
  let h1 := rotl64 h1 27 in
  let h1 := jadd h1 h2 in
  let h1 := jadd (jmul h1 5) 0x52dce729 in
  let h2 := jxor h2 (jmix2 k2) in
  let h2 := rotl64 h2 31 in
  let h2 := jadd h2 h1 in
  let h2 := jadd (jmul h2 5) 0x38495ab5 in
  (h1, h2).

Lemma jbody_S n key h1 h2 :
  jbody (S n) key h1 h2 = jbody n (skipn 16 key) (fst (jstep key h1 h2)) (snd (jstep key h1 h2)).
Proof. reflexivity. Qed.

Lemma H_5 : wrap 64 5 = 5. Proof. reflexivity. Qed.
Lemma H_a1 : wrap 64 body_add1 = 0x52dce729. Proof. reflexivity. Qed.
Lemma H_a2 : wrap 64 body_add2 = 0x38495ab5. Proof. reflexivity. Qed.

Lemma body_step_spec data i h : wf_bytes data ->
  jstep (skipn (i * 16) data) (wrap 64 (fst h)) (wrap 64 (snd h))
  = (wrap 64 (fst (body_step data i h)), wrap 64 (snd (body_step data i h))).
Proof.
  intros Hwf. destruct h as [h1 h2]. unfold body_step, get_block, jstep. cbv beta iota zeta. cbn [fst snd].
  push. rewrite !H_load by assumption. rewrite H_5, H_a1, H_a2.
  rewrite !skipn_skipn. reflexivity.
Qed.

Lemma body_S t i data h : body (S t) i data h = body t (S i) data (body_step data i h).
Proof. reflexivity. Qed.

Lemma fst_pair {A B} (a : A) (b : B) : fst (a, b) = a. Proof. reflexivity. Qed.
Lemma snd_pair {A B} (a : A) (b : B) : snd (a, b) = b. Proof. reflexivity. Qed.

Lemma body_spec data : wf_bytes data -> forall todo i h,
  jbody todo (skipn (i * 16) data) (wrap 64 (fst h)) (wrap 64 (snd h))
  = (wrap 64 (fst (body todo i data h)), wrap 64 (snd (body todo i data h)),
     skipn ((i + todo) * 16) data).
Proof.
  intros Hwf. induction todo as [|t IH]; intros i h.
  - rewrite Nat.add_0_r. reflexivity.
  - rewrite body_S, jbody_S, body_step_spec by assumption. rewrite fst_pair, snd_pair.
    rewrite skipn_skipn. replace (i * 16 + 16)%nat with (S i * 16)%nat by lia.
    rewrite IH. replace (S i + t)%nat with (i + S t)%nat by lia. reflexivity.
Qed.

(* ---- the tail switch -------------------------------------------------------------------------------- *)
(* the specification's tail word with the xors nested in the order the switch performs them *)
Fixpoint jtail_rev (bs : list Z) (i : Z) : Z :=
  match bs with
  | [] => 0
  | b :: r => jxor (jtail_rev r (i + 1)) (jshl (jlong_of_byte b) (8 * i))
  end.

Lemma jtail_word_rev bs i : jtail_word bs i = jtail_rev bs i.
Proof.
  revert i. induction bs as [|b r IH]; intros i; cbn [jtail_word jtail_rev]; [reflexivity|].
  rewrite IH. unfold jxor. apply Z.lxor_comm.
Qed.

Lemma jshl_0 x : 0 <= x < two64 -> jshl x (8 * 0) = x.
Proof. intros Hx. unfold jshl. change (2 ^ (8 * 0)) with 1. rewrite Z.mul_1_r, W_val. apply Z.mod_small. exact Hx. Qed.

Lemma H_0 : wrap 64 0 = 0. Proof. reflexivity. Qed.

Lemma H_block_shl b s : is_byte b -> 0 <= s -> wrap 64 (shl64 (block b) s) = jshl (jlong_of_byte b) s.
Proof. intros Hb Hs. rewrite H_shl, H_block by assumption. reflexivity. Qed.

Lemma H_block0 b : is_byte b -> wrap 64 (block b) = jshl (jlong_of_byte b) (8 * 0).
Proof. intros Hb. rewrite jshl_0 by apply jlong_of_byte_range. apply H_block, Hb. Qed.

Ltac tail_case :=
  cbn [length firstn skipn jtail_rev];
  match goal with |- context [Z.of_nat ?n] => let v := eval vm_compute in (Z.of_nat n) in change (Z.of_nat n) with v end;
  cbv [tail_k1 tail_k2 nthb];
  repeat match goal with |- context [?a <=? ?b] => let v := eval vm_compute in (a <=? b) in change (a <=? b) with v end;
  cbv [when]; cbn [nth];
  unfold wf_bytes in *; repeat match goal with H : Forall is_byte (_ :: _) |- _ => apply Forall_cons_iff in H; destruct H as [? H] end;
  repeat first [ rewrite H_xor | rewrite H_block_shl by (assumption || lia) | rewrite H_block0 by assumption ];
  rewrite ?H_0;
  repeat match goal with |- context [?a + 1] => let v := eval vm_compute in (a + 1) in change (a + 1) with v end;
  repeat match goal with |- context [8 * ?a] => let v := eval vm_compute in (8 * a) in progress change (8 * a) with v end;
  reflexivity.

Lemma tail_k1_spec t : wf_bytes t -> (length t < 16)%nat ->
  wrap 64 (tail_k1 t (Z.of_nat (length t))) = jtail_word (firstn 8 t) 0.
Proof.
  intros Hwf Hl. rewrite jtail_word_rev.
  do 16 (destruct t as [|? t]; [tail_case|]).
  exfalso. cbn [length] in Hl. lia.
Qed.

Lemma tail_k2_spec t : wf_bytes t -> (length t < 16)%nat ->
  wrap 64 (tail_k2 t (Z.of_nat (length t))) = jtail_word (skipn 8 t) 0.
Proof.
  intros Hwf Hl. rewrite jtail_word_rev.
  do 16 (destruct t as [|? t]; [tail_case|]).
  exfalso. cbn [length] in Hl. lia.
Qed.

(* ---- the whole function ----------------------------------------------------------------------------- *)
Lemma land15 n : 0 <= n -> Z.land n 15 = n mod 16.
Proof. intros Hn. change 15 with (Z.ones 4). rewrite Z.land_ones by lia. reflexivity. Qed.

Lemma tail_length (data : list Z) :
  let len := Z.of_nat (length data) in
  Z.of_nat (length (skipn (Z.to_nat (len / 16) * 16) data)) = Z.land len 15.
Proof.
  cbv zeta. rewrite land15 by lia. rewrite skipn_length. lia.
Qed.

Lemma murmur3_h1_wrap data : wf_bytes data -> wrap 64 (murmur3_h1 data) = hash3_x64_128_h1 data.
Proof.
  intros Hwf. unfold murmur3_h1, hash3_x64_128_h1. cbv zeta.
  set (len := Z.of_nat (length data)).
  set (nb := Z.to_nat (len / 16)).
  pose proof (body_spec data Hwf nb 0 (0, 0)) as Hb. cbn [fst snd] in Hb.
  change (0 * 16)%nat with 0%nat in Hb. cbn [skipn] in Hb. rewrite H_0 in Hb. rewrite Hb.
  destruct (body nb 0 data (0, 0)) as [h1 h2]. cbn [fst snd]. change (0 + nb)%nat with nb.
  set (tail := skipn (nb * 16) data).
  assert (Hwt : wf_bytes tail) by (apply wf_skipn, Hwf).
  assert (Hn : Z.land len 15 = Z.of_nat (length tail)) by (symmetry; apply tail_length).
  assert (Hlt : (length tail < 16)%nat).
  { rewrite land15 in Hn by (unfold len; lia). lia. }
  rewrite Hn.
  replace (8 <? Z.of_nat (length tail)) with (9 <=? Z.of_nat (length tail)) by lia.
  replace (0 <? Z.of_nat (length tail)) with (1 <=? Z.of_nat (length tail)) by lia.
  push.
  assert (Hlen : wrap 64 (i64 len) = len mod W) by (rewrite H_i64; reflexivity).
  rewrite !Hlen.
  destruct (9 <=? Z.of_nat (length tail)); destruct (1 <=? Z.of_nat (length tail));
    push; rewrite ?tail_k1_spec, ?tail_k2_spec by assumption; reflexivity.
Qed.

Lemma murmur3_h1_range data : - 2 ^ 63 <= murmur3_h1 data < 2 ^ 63.
Proof.
  unfold murmur3_h1. cbv zeta. destruct (body _ _ _ _) as [h1 h2]. unfold add64 at 1, i64. apply signed_range.
Qed.

Lemma hash3_range data : 0 <= hash3_x64_128_h1 data < two64.
Proof.
  unfold hash3_x64_128_h1. cbv zeta. destruct (jbody _ _ _ _) as [[h1 h2] tl]. unfold jadd at 1.
  apply Z.mod_pos_bound. reflexivity.
Qed.

Theorem murmur_go_eq_cassandra_lemma : forall key, wf_bytes key -> murmur3_h1 key = cassandra_h1 key.
Proof.
  intros key Hwf. unfold cassandra_h1. rewrite jlong_signed by apply hash3_range.
  rewrite <- murmur3_h1_wrap by assumption. symmetry. apply signed_wrap_id, murmur3_h1_range.
Qed.
