(* C09/Spec.v -- independent specification, written from Cassandra's sources, not from the Go code:
     org.apache.cassandra.utils.MurmurHash.hash3_x64_128 (getBlock, rotl64, fmix, the tail switch),
     org.apache.cassandra.dht.Murmur3Partitioner (getToken, normalize, MINIMUM, LongToken order),
     org.apache.cassandra.dht.RandomPartitioner (FBUtilities.hashToBigInteger = new BigInteger(md5).abs()),
     org.apache.cassandra.dht.ByteOrderedPartitioner (FBUtilities.compareUnsigned),
     org.apache.cassandra.db.marshal.CompositeType (partition key of several columns:
       per component  <2-byte big-endian length><bytes><one end-of-component byte 0>).
   Java [long]s are represented here as their UNSIGNED residues in [0, 2^64) (the Go model uses signed
   integers); the anchoring Examples at the end evaluate this file on vectors produced by Java
   (internal/murmur/murmur_test.go: the datastax series, the "other drivers" strings and the
   Cassandra sign-extension vector) and on the python-driver MD5Token reference value (token_test.go). *)
From GocqlV Require Import Lib.Base.

(* ---- Java long arithmetic on residues ----------------------------------------------------------- *)
Definition W : Z := 2 ^ 64.
Definition jmul (a b : Z) : Z := (a * b) mod W.          (* a * b *)
Definition jadd (a b : Z) : Z := (a + b) mod W.          (* a + b *)
Definition jxor (a b : Z) : Z := Z.lxor a b.             (* a ^ b *)
Definition jshl (v n : Z) : Z := (v * 2 ^ n) mod W.      (* v << n,  0 <= n < 64 *)
Definition jushr (v n : Z) : Z := v / 2 ^ n.             (* v >>> n, 0 <= n < 64 *)

(* protected static long rotl64(long v, int n) { return ((v << n) | (v >>> (64 - n))); } *)
Definition rotl64 (v n : Z) : Z := Z.lor (jshl v n) (jushr v (64 - n)).

(* protected static long fmix(long k) *)
Definition jfmix (k : Z) : Z :=
  let k := jxor k (jushr k 33) in
  let k := jmul k 0xff51afd7ed558ccd in
  let k := jxor k (jushr k 33) in
  let k := jmul k 0xc4ceb9fe1a85ec53 in
  let k := jxor k (jushr k 33) in
  k.

Definition jc1 : Z := 0x87c37b91114253d5.
Definition jc2 : Z := 0x4cf5ad432745937f.

(* (long) key.get(i): a Java byte is signed; widening to long sign-extends.  b is the raw byte 0..255. *)
Definition java_byte (b : Z) : Z := b - 256 * (b / 128).           (* value in [-128, 128) *)
Definition jlong_of_byte (b : Z) : Z := (java_byte b) mod W.

(* getBlock: ((long) key.get(o+0) & 0xff) + (((long) key.get(o+1) & 0xff) << 8) + ... + (... << 56):
   the eight bytes UNSIGNED, little-endian *)
Fixpoint jblock (bs : list Z) (i : Z) : Z :=
  match bs with
  | [] => 0
  | b :: rest => b * 2 ^ (8 * i) + jblock rest (i + 1)
  end.

(* k1 *= c1; k1 = rotl64(k1,31); k1 *= c2;   and   k2 *= c2; k2 = rotl64(k2,33); k2 *= c1; *)
Definition jmix1 (k1 : Z) : Z := jmul (rotl64 (jmul k1 jc1) 31) jc2.
Definition jmix2 (k2 : Z) : Z := jmul (rotl64 (jmul k2 jc2) 33) jc1.

(* the body loop: consumes the key sixteen bytes at a time *)
Fixpoint jbody (nblocks : nat) (key : list Z) (h1 h2 : Z) : Z * Z * list Z :=
  match nblocks with
  | O => (h1, h2, key)
  | S n =>
      let k1 := jblock (firstn 8 key) 0 in
      let k2 := jblock (firstn 8 (skipn 8 key)) 0 in
      let h1 := jxor h1 (jmix1 k1) in
      let h1 := rotl64 h1 27 in
      let h1 := jadd h1 h2 in
      let h1 := jadd (jmul h1 5) 0x52dce729 in
      let h2 := jxor h2 (jmix2 k2) in
      let h2 := rotl64 h2 31 in
      let h2 := jadd h2 h1 in
      let h2 := jadd (jmul h2 5) 0x38495ab5 in
      jbody n (skipn 16 key) h1 h2
  end.

(* the tail switch: case 15..9 xor ((long) key.get(offset+j)) << 8*(j-8) into k2, case 8..1 xor
   ((long) key.get(offset+j)) << 8*j into k1 -- SIGNED bytes.  A tail word is the xor over its (at most
   eight) bytes of the sign-extended byte shifted to its position. *)
Fixpoint jtail_word (bs : list Z) (i : Z) : Z :=
  match bs with
  | [] => 0
  | b :: rest => jxor (jshl (jlong_of_byte b) (8 * i)) (jtail_word rest (i + 1))
  end.

(* hash3_x64_128(key, 0, length, seed = 0, result); result[0] *)
Definition hash3_x64_128_h1 (key : list Z) : Z :=
  let length := Z.of_nat (length key) in
  let nblocks := Z.to_nat (length / 16) in       (* length >> 4 *)
  let '(h1, h2, tail) := jbody nblocks key 0 0 in
  (* length & 15 = number of tail bytes; case >= 9 mixes k2 into h2, case >= 1 mixes k1 into h1 *)
  let h2 := if (8 <? Z.of_nat (List.length tail)) then jxor h2 (jmix2 (jtail_word (skipn 8 tail) 0)) else h2 in
  let h1 := if (0 <? Z.of_nat (List.length tail)) then jxor h1 (jmix1 (jtail_word (firstn 8 tail) 0)) else h1 in
  let h1 := jxor h1 (length mod W) in            (* h1 ^= length: the int widened to long, as a residue *)
  let h2 := jxor h2 (length mod W) in
  let h1 := jadd h1 h2 in
  let h2 := jadd h2 h1 in
  let h1 := jfmix h1 in
  let h2 := jfmix h2 in
  let h1 := jadd h1 h2 in
  h1.

(* the value of the Java long with residue r *)
Definition jlong (r : Z) : Z := if r <? 2 ^ 63 then r else r - 2 ^ 64.

(* Cassandra's h1 as a Java long value *)
Definition cassandra_h1 (key : list Z) : Z := jlong (hash3_x64_128_h1 key).

(* ---- Murmur3Partitioner ------------------------------------------------------------------------- *)
Definition long_min : Z := - 2 ^ 63.
Definition long_max : Z := 2 ^ 63 - 1.
(* private long normalize(long v) { return v == Long.MIN_VALUE ? Long.MAX_VALUE : v; } *)
Definition normalize (v : Z) : Z := if v =? long_min then long_max else v.
(* getToken: if (key.remaining() == 0) return MINIMUM;  return new LongToken(normalize(hash[0]));
   MINIMUM = new LongToken(Long.MIN_VALUE).  (Cassandra rejects an empty partition key before it is
   ever stored, so the first branch concerns no stored row.) *)
Definition cassandra_murmur3_token (key : list Z) : Z :=
  match key with
  | [] => long_min
  | _ => normalize (cassandra_h1 key)
  end.
(* LongToken.compareTo = Long.compare; the token string in system tables is Long.toString *)
Definition long_token_lt (a b : Z) : Prop := a < b.

(* ---- RandomPartitioner -------------------------------------------------------------------------- *)
(* new BigInteger(byte[]): big-endian two's complement *)
Fixpoint be_unsigned (bs : list Z) : Z :=
  match bs with
  | [] => 0
  | b :: rest => b * 256 ^ Z.of_nat (length rest) + be_unsigned rest
  end.
Definition big_integer (bs : list Z) : Z :=
  match bs with
  | [] => 0
  | b :: _ => if 128 <=? b then be_unsigned bs - 256 ^ Z.of_nat (length bs) else be_unsigned bs
  end.
(* FBUtilities.hashToBigInteger: new BigInteger(md5 digest).abs() *)
Definition cassandra_random_token (md5 : list Z) : Z := Z.abs (big_integer md5).

(* ---- ByteOrderedPartitioner --------------------------------------------------------------------- *)
(* FBUtilities.compareUnsigned: at the first position where the two differ the smaller UNSIGNED byte
   decides; if one is a prefix of the other the shorter is smaller *)
Definition bytes_lt (a b : list Z) : Prop :=
  (exists y t, b = a ++ y :: t)
  \/ (exists p x y s t, a = p ++ x :: s /\ b = p ++ y :: t /\ x < y).

(* ---- decimal token strings ---------------------------------------------------------------------- *)
(* Long.toString / BigInteger.toString: optional '-', then the decimal digits, most significant first *)
Definition digit_val (c : Z) : Z := c - 48.
Definition is_dec_digit (c : Z) : Prop := 48 <= c <= 57.
Definition dec_value (ds : list Z) : Z := fold_left (fun acc c => acc * 10 + digit_val c) ds 0.

(* the canonical rendering: no leading zeros.  [fuel] bounds the number of digits; a number has at most
   as many decimal digits as binary digits, so log2 n + 1 is always enough *)
Fixpoint dec_digits (fuel : nat) (n : Z) : list Z :=
  match fuel with
  | O => []
  | S f => if n <? 10 then [48 + n] else dec_digits f (n / 10) ++ [48 + n mod 10]
  end.
Definition dec_string (n : Z) : list Z := dec_digits (S (Z.to_nat (Z.log2 n))) n.
(* Long.toString(v) / BigInteger.toString() *)
Definition to_string (v : Z) : list Z :=
  if v <? 0 then 45 :: dec_string (- v) else dec_string v.

(* ---- CompositeType partition keys --------------------------------------------------------------- *)
(* one component: unsigned 16-bit big-endian length, the bytes, end-of-component 0 *)
Definition component (c : list Z) : list Z :=
  let n := Z.of_nat (length c) in [n / 256; n mod 256] ++ c ++ [0].
Definition composite_key (comps : list (list Z)) : list Z := concat (map component comps).
(* Cassandra limits a key component to 65535 bytes (FBUtilities.MAX_UNSIGNED_SHORT): the length is a short *)
Definition short_comp (c : list Z) : Prop := Z.of_nat (length c) < 2 ^ 16.

(* the partition key Cassandra hashes: the single column's serialized value, or the composite *)
Definition partition_key (comps : list (list Z)) : list Z :=
  match comps with
  | [c] => c
  | _ => composite_key comps
  end.

(* the value bound to a column: a statement may bind the same column more than once (a = ? AND a = ?);
   the driver documents "pick the first" *)
Fixpoint bound_value (name : list Z) (cols : list (list Z)) (vals : list (list Z)) : option (list Z) :=
  match cols, vals with
  | c :: cs, v :: vs => if list_eq_dec Z.eq_dec name c then Some v else bound_value name cs vs
  | _, _ => None
  end.

(* CompositeType.split-style reader: repeat { length; bytes; one byte } until the input is exhausted *)
Fixpoint composite_split (fuel : nat) (b : list Z) : option (list (list Z)) :=
  match fuel with
  | O => None
  | S f =>
      match b with
      | [] => Some []
      | hi :: lo :: rest =>
          let n := Z.to_nat (hi * 256 + lo) in
          if (length rest <? n + 1)%nat then None
          else match composite_split f (skipn (n + 1) rest) with
               | Some l => Some (firstn n rest :: l)
               | None => None
               end
      | _ => None
      end
  end.
Definition composite_decode (b : list Z) : option (list (list Z)) := composite_split (S (length b)) b.

Example to_string_examples :
  to_string 0 = [48] /\ to_string (-9223372036854775808) = [45;57;50;50;51;51;55;50;48;51;54;56;53;52;55;55;53;56;48;56]
  /\ to_string 1053604476080545076 = [49;48;53;51;54;48;52;52;55;54;48;56;48;53;52;53;48;55;54].
Proof. vm_compute. repeat split; reflexivity. Qed.

(* ---- anchors: vectors that did not come from this driver ------------------------------------- *)
Fixpoint series (n : nat) : list Z :=      (* "0123456789012..." of length n, as built by the Java generator *)
  match n with
  | O => []
  | S m => series m ++ [48 + Z.of_nat (m mod 10)]
  end.

(* internal/murmur/murmur_test.go TestMurmur3H1: "expected values were generated by the java datastax
   murmur3 implementation" *)
Example java_series :
  map (fun n => hash3_x64_128_h1 (series n)) (seq 0 20) =
  [ 0x0000000000000000; 0x2ac9debed546a380; 0x649e4eaa7fc1708e; 0xce68f60d7c353bdb; 0x0f95757ce7f38254;
    0x0f04e459497f3fc1; 0x88c0a92586be0a27; 0x13eb9fb82606f7a6; 0x8236039b7387354d; 0x4c1e87519fe738ba;
    0x3f9652ac3effeb24; 0x3f33760ded9006c6; 0xaed70a6631854cb1; 0x8a299a8f8e0e2da7; 0x624b675c779249a6;
    0xa4b203bb1d90b9a3; 0xa3293ad698ecb99a; 0xbc740023dbd50048; 0x3fe5ab9837d25cdd; 0x2d0338c1ca87d132 ].
Proof. vm_compute. reflexivity. Qed.

(* "test examples from other driver implementations" *)
Example other_drivers :
  hash3_x64_128_h1 [104;101;108;108;111] = 0xcbd8a7b341bd9b02                              (* "hello" *)
  /\ hash3_x64_128_h1 [104;101;108;108;111;44;32;119;111;114;108;100] = 0x342fac623a5ebc8e  (* "hello, world" *)
  /\ hash3_x64_128_h1 [49;57;32;74;97;110;32;50;48;51;56;32;97;116;32;51;58;49;52;58;48;55;32;65;77]
     = 0xb89e5988b737affc                                                   (* "19 Jan 2038 at 3:14:07 AM" *)
  /\ hash3_x64_128_h1 [84;104;101;32;113;117;105;99;107;32;98;114;111;119;110;32;102;111;120;32;106;117;109;
                       112;115;32;111;118;101;114;32;116;104;101;32;108;97;122;121;32;100;111;103;46]
     = 0xcd99481f9ee902c9.                                 (* "The quick brown fox jumps over the lazy dog." *)
Proof. vm_compute. repeat split; reflexivity. Qed.

(* TestMurmur3H1_CassandraSign: bytes >= 0x80 in the tail, token as Cassandra reports it *)
Example cassandra_sign :
  cassandra_h1 [0x00;0x10;0x43;0x27;0x52;0x9f;0xb6;0x45;0xdd;0x00;0xb8;0x83;0xec;0x39;0xae;0x44;
                0x8b;0xb8;0x00;0x00;0x04;0x00;0x06;0x6a;0x6b;0x00] = -9223371632693506265.
Proof. vm_compute. reflexivity. Qed.

(* token_test.go TestRandomPartitionerMatchesReference: python-driver MD5Token.hash_fn("test");
   md5("test") = 098f6bcd4621d373cade4e832627b4f6 (RFC 1321 arithmetic, computed outside this driver) *)
Example random_reference :
  cassandra_random_token [0x09;0x8f;0x6b;0xcd;0x46;0x21;0xd3;0x73;0xca;0xde;0x4e;0x83;0x26;0x27;0xb4;0xf6]
  = 12707736894140473154801792860916528374.
Proof. vm_compute. reflexivity. Qed.

(* a digest with the top bit set: md5("a") = 0cc175b9c0f1b6a831c399e269772661 has it clear, so use
   md5("") = d41d8cd98f00b204e9800998ecf8427e: |d41d...27e - 2^128| *)
Example random_negative :
  cassandra_random_token [0xd4;0x1d;0x8c;0xd9;0x8f;0x00;0xb2;0x04;0xe9;0x80;0x09;0x98;0xec;0xf8;0x42;0x7e]
  = 2 ^ 128 - 0xd41d8cd98f00b204e9800998ecf8427e.
Proof. vm_compute. reflexivity. Qed.
