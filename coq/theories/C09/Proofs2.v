(* C09/Proofs2.v -- tokens (Murmur3 normalisation, Random, Ordered), decimal token strings. *)
From GocqlV Require Import Lib.Base Lib.Bits Gen.Consts C09.Model C09.Spec C09.Proofs1.

Local Arguments Z.mul : simpl never.
Local Arguments Z.add : simpl never.
Local Arguments Z.pow : simpl never.
Local Arguments Z.modulo : simpl never.
Local Arguments Z.div : simpl never.

(* ---- Murmur3 token ----------------------------------------------------------------------------------- *)
Lemma murmur_token_eq key : wf_bytes key -> key <> [] ->
  murmur3_token key = cassandra_murmur3_token key /\ murmur3_token key <> long_min.
Proof.
  intros Hwf Hne. unfold murmur3_token, cassandra_murmur3_token. cbv zeta.
  rewrite murmur_go_eq_cassandra_lemma by assumption.
  destruct key as [|b key]; [congruence|]. unfold normalize, long_min, long_max.
  destruct (Z.eqb_spec (cassandra_h1 (b :: key)) (- 2 ^ 63)) as [E|E]; split; try reflexivity; try assumption.
  vm_compute. discriminate.
Qed.

(* ---- Random token ------------------------------------------------------------------------------------ *)
Lemma be_val_acc_unsigned bs acc : be_val_acc acc bs = acc * 256 ^ Z.of_nat (length bs) + be_unsigned bs.
Proof.
  revert acc. induction bs as [|b bs IH]; intros acc; cbn [be_val_acc be_unsigned length].
  - change (256 ^ Z.of_nat 0) with 1. lia.
  - rewrite IH, Nat2Z.inj_succ, Z.pow_succ_r by lia. ring.
Qed.

Lemma be_unsigned_bound bs : wf_bytes bs -> 0 <= be_unsigned bs < 256 ^ Z.of_nat (length bs).
Proof.
  induction 1 as [|b bs Hb _ IH]; [simpl; lia|].
  cbn [be_unsigned length]. rewrite Nat2Z.inj_succ, Z.pow_succ_r by lia. unfold is_byte in Hb.
  assert (0 < 256 ^ Z.of_nat (length bs)) by (apply Z.pow_pos_nonneg; lia). nia.
Qed.

Lemma max_hash_int_val : max_hash_int = 256 ^ 16. Proof. reflexivity. Qed.

Lemma random_token_lemma sum : length sum = 16%nat -> wf_bytes sum ->
  random_token sum = cassandra_random_token sum /\ 0 <= random_token sum <= 2 ^ 127.
Proof.
  intros Hl Hwf. unfold random_token, cassandra_random_token, big_integer, be_val.
  rewrite be_val_acc_unsigned, Z.mul_0_l, Z.add_0_l.
  destruct sum as [|b rest]; [discriminate|]. unfold nthb. cbn [nth].
  pose proof (be_unsigned_bound _ Hwf) as Hb. rewrite Hl in Hb. change (Z.of_nat 16) with 16 in Hb.
  rewrite Hl. change (Z.of_nat 16) with 16. rewrite max_hash_int_val.
  assert (Hr : be_unsigned (b :: rest) = b * 256 ^ 15 + be_unsigned rest).
  { cbn [be_unsigned]. injection Hl as Hl. rewrite Hl. reflexivity. }
  apply Forall_cons_iff in Hwf. destruct Hwf as [Hbb Hwr]. pose proof (be_unsigned_bound _ Hwr) as Hb2.
  injection Hl as Hl. rewrite Hl in Hb2. change (Z.of_nat 15) with 15 in Hb2.
  unfold is_byte in Hbb.
  change (256 ^ 16) with 340282366920938463463374607431768211456 in *.
  change (256 ^ 15) with 1329227995784915872903807060280344576 in *.
  change (2 ^ 127) with 170141183460469231731687303715884105728.
  replace (b >? 127) with (128 <=? b) by lia.
  destruct (Z.leb_spec 128 b); split; lia.
Qed.

(* ---- Ordered token ----------------------------------------------------------------------------------- *)
Lemma ordered_less_irrefl a : ordered_less a a = false.
Proof. induction a as [|x a IH]; [reflexivity|]. cbn [ordered_less]. rewrite Z.ltb_irrefl. exact IH. Qed.

Lemma ordered_less_cons x y a b :
  ordered_less (x :: a) (y :: b) = true <-> x < y \/ (x = y /\ ordered_less a b = true).
Proof.
  cbn [ordered_less]. destruct (Z.ltb_spec x y); [split; auto|].
  destruct (Z.ltb_spec y x); [split; [discriminate|lia]|].
  assert (x = y) by lia. subst. split; [auto|]. intros [?|[_ ?]]; [lia|assumption].
Qed.

Lemma ordered_less_trans a : forall b c, ordered_less a b = true -> ordered_less b c = true -> ordered_less a c = true.
Proof.
  induction a as [|x a IH]; intros [|y b] [|z c] Hab Hbc; try discriminate; try reflexivity.
  apply ordered_less_cons in Hab. apply ordered_less_cons in Hbc. apply ordered_less_cons.
  destruct Hab as [Hab|[-> Hab]], Hbc as [Hbc|[-> Hbc]]; try (left; lia).
  right. split; [reflexivity|]. eapply IH; eassumption.
Qed.

Lemma ordered_less_total a : forall b, a <> b -> ordered_less a b = true \/ ordered_less b a = true.
Proof.
  induction a as [|x a IH]; intros [|y b] Hne; try congruence; try (left; reflexivity); try (right; reflexivity).
  destruct (Z.lt_total x y) as [H|[H|H]].
  - left. apply ordered_less_cons. auto.
  - subst. assert (Hn : a <> b) by congruence. destruct (IH b Hn) as [H|H]; [left|right]; apply ordered_less_cons; auto.
  - right. apply ordered_less_cons. auto.
Qed.

Lemma ordered_less_asym a b : ordered_less a b = true -> ordered_less b a = false.
Proof.
  intros H. destruct (ordered_less b a) eqn:E; [|reflexivity].
  pose proof (ordered_less_trans _ _ _ H E) as C. rewrite ordered_less_irrefl in C. discriminate.
Qed.

Lemma ordered_less_bytes_lt a : forall b, ordered_less a b = true <-> bytes_lt a b.
Proof.
  unfold bytes_lt. induction a as [|x a IH]; intros [|y b].
  - split; [discriminate|]. intros [(y & t & H)|(p & x & y & s & t & H & _)]; [discriminate|]. destruct p; discriminate.
  - split; [|reflexivity]. intros _. left. exists y, b. reflexivity.
  - split; [discriminate|]. intros [(y & t & H)|(p & x' & y & s & t & _ & H & _)]; [discriminate|]. destruct p; discriminate.
  - rewrite ordered_less_cons. split.
    + intros [Hlt|[-> Hr]].
      * right. exists [], x, y, a, b. auto.
      * apply IH in Hr. destruct Hr as [(y' & t & ->)|(p & x' & y' & s & t & -> & -> & Hlt)].
        -- left. exists y', t. reflexivity.
        -- right. exists (y :: p), x', y', s, t. auto.
    + intros [(y' & t & H)|(p & x' & y' & s & t & Ha & Hb & Hlt)].
      * injection H as -> ->. right. split; [reflexivity|]. apply IH. left. exists y', t. reflexivity.
      * destruct p as [|h p].
        -- injection Ha as -> ->. injection Hb as -> ->. left. exact Hlt.
        -- injection Ha as -> ->. injection Hb as -> ->. right. split; [reflexivity|]. apply IH.
           right. exists p, x', y', s, t. auto.
Qed.

(* ---- decimal strings ---------------------------------------------------------------------------------- *)
Definition dstep (acc c : Z) : Z := acc * 10 + digit_val c.
Lemma dec_value_fold ds : dec_value ds = fold_left dstep ds 0. Proof. reflexivity. Qed.

Lemma is_digit_spec c : is_digit c = true <-> is_dec_digit c.
Proof. unfold is_digit, is_dec_digit. lia. Qed.

Lemma fold_dstep_ge ds : forall n, 0 <= n -> Forall is_dec_digit ds -> n <= fold_left dstep ds n.
Proof.
  induction ds as [|c ds IH]; intros n Hn Hd; cbn [fold_left]; [lia|].
  apply Forall_cons_iff in Hd. destruct Hd as [Hc Hd]. unfold is_dec_digit in Hc.
  assert (0 <= dstep n c) by (unfold dstep, digit_val; lia).
  specialize (IH (dstep n c) H Hd). unfold dstep, digit_val in *. lia.
Qed.

Lemma fold_dstep_app a b n : fold_left dstep (a ++ b) n = fold_left dstep b (fold_left dstep a n).
Proof. apply fold_left_app. Qed.

Lemma parse_uint_loop_ok ds : forall n, 0 <= n -> Forall is_dec_digit ds -> fold_left dstep ds n < 2 ^ 64 ->
  parse_uint_loop ds n = PUOk (fold_left dstep ds n).
Proof.
  induction ds as [|c ds IH]; intros n Hn Hd Hlt; cbn [parse_uint_loop fold_left]; [reflexivity|].
  apply Forall_cons_iff in Hd. destruct Hd as [Hc Hd].
  assert (Hdc : is_digit c = true) by (apply is_digit_spec, Hc). rewrite Hdc.
  unfold is_dec_digit in Hc. cbn [fold_left] in Hlt.
  assert (Hn1 : 0 <= dstep n c) by (unfold dstep, digit_val; lia).
  pose proof (fold_dstep_ge ds _ Hn1 Hd) as Hge.
  change (n * 10 + (c - 48)) with (dstep n c).
  destruct (Z.leb_spec (2 ^ 64) (dstep n c)); [lia|]. apply IH; assumption.
Qed.

Lemma dec_value_nonneg ds : Forall is_dec_digit ds -> 0 <= dec_value ds.
Proof. intros Hd. rewrite dec_value_fold. apply (fold_dstep_ge ds 0); [lia|assumption]. Qed.

Lemma parse_uint_ok ds : ds <> [] -> Forall is_dec_digit ds -> dec_value ds < 2 ^ 64 ->
  parse_uint ds = PUOk (dec_value ds).
Proof.
  intros Hne Hd Hlt. destruct ds as [|c ds]; [congruence|]. unfold parse_uint.
  apply parse_uint_loop_ok; [lia|assumption|exact Hlt].
Qed.

Lemma first_digit_not_sign c ds : Forall is_dec_digit (c :: ds) -> (c =? 43) = false /\ (c =? 45) = false.
Proof. intros Hd. apply Forall_cons_iff in Hd. destruct Hd as [Hc _]. unfold is_dec_digit in Hc. lia. Qed.

(* unsigned, '+' and '-' forms of an in-range decimal numeral, leading zeros allowed *)
Lemma parse_int64_decimal ds : ds <> [] -> Forall is_dec_digit ds ->
  (dec_value ds < 2 ^ 63 -> parse_int64 ds = dec_value ds /\ parse_int64 (43 :: ds) = dec_value ds)
  /\ (dec_value ds <= 2 ^ 63 -> parse_int64 (45 :: ds) = - dec_value ds).
Proof.
  intros Hne Hd. pose proof (dec_value_nonneg ds Hd) as H0.
  change (2 ^ 63) with 9223372036854775808. split.
  - intros Hlt. assert (Hpu : parse_uint ds = PUOk (dec_value ds)).
    { apply parse_uint_ok; try assumption. change (2 ^ 64) with 18446744073709551616. lia. }
    split.
    + destruct ds as [|c ds']; [congruence|]. destruct (first_digit_not_sign c ds' Hd) as [E1 E2].
      unfold parse_int64. rewrite E1, E2. cbn [orb negb andb]. rewrite Hpu.
      change (2 ^ 63) with 9223372036854775808.
      destruct (Z.leb_spec 9223372036854775808 (dec_value (c :: ds'))); [lia|reflexivity].
    + unfold parse_int64. change (43 =? 45) with false. change (43 =? 43) with true. cbn [orb negb andb]. rewrite Hpu.
      change (2 ^ 63) with 9223372036854775808.
      destruct (Z.leb_spec 9223372036854775808 (dec_value ds)); [lia|reflexivity].
  - intros Hle. assert (Hpu : parse_uint ds = PUOk (dec_value ds)).
    { apply parse_uint_ok; try assumption. change (2 ^ 64) with 18446744073709551616. lia. }
    unfold parse_int64. change (45 =? 45) with true. change (45 =? 43) with false. cbn [orb negb andb]. rewrite Hpu.
    change (2 ^ 63) with 9223372036854775808.
    destruct (Z.ltb_spec 9223372036854775808 (dec_value ds)); [lia|reflexivity].
Qed.

(* the printer *)
Lemma dec_digits_spec f : forall n, 0 <= n < 10 ^ Z.of_nat f -> (0 < f)%nat ->
  dec_digits f n <> [] /\ Forall is_dec_digit (dec_digits f n) /\ dec_value (dec_digits f n) = n.
Proof.
  induction f as [|f IH]; intros n Hn Hf; [lia|]. cbn [dec_digits].
  destruct (Z.ltb_spec n 10) as [Hs|Hs].
  - split; [discriminate|]. split.
    + constructor; [unfold is_dec_digit; lia|constructor].
    + unfold dec_value, digit_val. cbn [fold_left]. lia.
  - rewrite Nat2Z.inj_succ, Z.pow_succ_r in Hn by lia.
    assert (Hq : 0 <= n / 10 < 10 ^ Z.of_nat f) by lia.
    assert (Hf' : (0 < f)%nat).
    { destruct f; [|lia]. change (10 ^ Z.of_nat 0) with 1 in Hq. lia. }
    destruct (IH (n / 10) Hq Hf') as (Hne & Hd & Hv).
    split; [intros E; apply app_eq_nil in E; destruct E; discriminate|]. split.
    + apply Forall_app. split; [assumption|]. constructor; [unfold is_dec_digit; lia|constructor].
    + rewrite dec_value_fold, fold_dstep_app. rewrite <- dec_value_fold, Hv. cbn [fold_left]. unfold dstep, digit_val. lia.
Qed.

Lemma log2_fuel n : 0 <= n -> n < 10 ^ Z.of_nat (S (Z.to_nat (Z.log2 n))).
Proof.
  intros Hn. destruct (Z.eq_dec n 0) as [->|Hz]; [reflexivity|].
  assert (Hl : 0 <= Z.log2 n) by apply Z.log2_nonneg.
  rewrite Nat2Z.inj_succ, Z2Nat.id by assumption.
  apply Z.lt_le_trans with (2 ^ Z.succ (Z.log2 n)).
  - apply Z.log2_spec. lia.
  - apply Z.pow_le_mono_l. lia.
Qed.

Lemma dec_string_spec n : 0 <= n ->
  dec_string n <> [] /\ Forall is_dec_digit (dec_string n) /\ dec_value (dec_string n) = n.
Proof.
  intros Hn. unfold dec_string. apply dec_digits_spec; [|lia]. split; [assumption|]. apply log2_fuel, Hn.
Qed.

Lemma parse_print_murmur_lemma v : - 2 ^ 63 <= v < 2 ^ 63 -> parse_murmur3_token (to_string v) = v.
Proof.
  intros Hv. unfold parse_murmur3_token, to_string. destruct (Z.ltb_spec v 0) as [Hneg|Hpos].
  - destruct (dec_string_spec (- v)) as (Hne & Hd & Hval); [lia|].
    destruct (parse_int64_decimal _ Hne Hd) as [_ H]. rewrite H; lia.
  - destruct (dec_string_spec v Hpos) as (Hne & Hd & Hval).
    destruct (parse_int64_decimal _ Hne Hd) as [H _]. destruct H as [H _]; lia.
Qed.

(* random tokens: any integer *)
Lemma dec_val_acc_ok ds : forall n, Forall is_dec_digit ds -> dec_val_acc n ds = Some (fold_left dstep ds n).
Proof.
  induction ds as [|c ds IH]; intros n Hd; cbn [dec_val_acc fold_left]; [reflexivity|].
  apply Forall_cons_iff in Hd. destruct Hd as [Hc Hd].
  assert (Hdc : is_digit c = true) by (apply is_digit_spec, Hc). rewrite Hdc. apply IH, Hd.
Qed.

Lemma parse_random_decimal ds : ds <> [] -> Forall is_dec_digit ds ->
  parse_random_token ds = Some (dec_value ds) /\ parse_random_token (43 :: ds) = Some (dec_value ds)
  /\ parse_random_token (45 :: ds) = Some (- dec_value ds).
Proof.
  intros Hne Hd. pose proof (dec_val_acc_ok ds 0 Hd) as Hv. rewrite <- dec_value_fold in Hv.
  destruct ds as [|c ds']; [congruence|]. destruct (first_digit_not_sign c ds' Hd) as [E1 E2].
  unfold parse_random_token. rewrite E1, E2. cbn [orb].
  change (43 =? 45) with false. change (43 =? 43) with true. change (45 =? 45) with true. change (45 =? 43) with false.
  cbn [orb]. rewrite Hv. auto.
Qed.

Lemma parse_print_random_lemma v : parse_random_token (to_string v) = Some v.
Proof.
  unfold to_string. destruct (Z.ltb_spec v 0) as [Hneg|Hpos].
  - destruct (dec_string_spec (- v)) as (Hne & Hd & Hval); [lia|].
    destruct (parse_random_decimal _ Hne Hd) as (_ & _ & H). rewrite H, Hval. f_equal. lia.
  - destruct (dec_string_spec v Hpos) as (Hne & Hd & Hval).
    destruct (parse_random_decimal _ Hne Hd) as (H & _). rewrite H, Hval. reflexivity.
Qed.
