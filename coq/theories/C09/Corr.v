(* C09/Corr.v -- correspondence cases: each constructor carries an input and what the real
   implementation returned for it (package gocql through verif_shim_c09.go and the public
   Query/Batch.GetRoutingKey); [check] runs the model on the input and compares. *)
From GocqlV Require Import Lib.Base C09.Model.

Inductive case :=
| CMurmur (key : list Z) (h1 tok : Z)                 (* murmur.Murmur3H1(key); murmur3Partitioner.Hash(key) *)
| CRandom (md5 : list Z) (tok : Z)                    (* randomPartitioner.Hash(key), md5 = crypto/md5 of key *)
| COrdered (key : list Z) (tok : list Z)              (* orderedPartitioner.Hash(key) *)
| CLessM (a b : Z) (out : bool)                       (* murmur3Token(a).Less(murmur3Token(b)) *)
| CLessR (a b : Z) (out : bool)                       (* randomToken Less *)
| CLessO (a b : list Z) (out : bool)                  (* orderedToken Less *)
| CParseM (s : list Z) (out : Z)                      (* murmur3Partitioner.ParseString *)
| CParseR (s : list Z) (out : Z)                      (* randomPartitioner.ParseString, well-formed strings *)
| CParseO (s : list Z) (out : list Z)                 (* orderedPartitioner.ParseString *)
| CSelect (m o r : bool) (out : option Z)             (* newTokenRing partitioner choice: 0 murmur3 1 ordered 2 random *)
| CRingM (toks : list (list Z)) (out : list Z)        (* newTokenRing: parse + sort, Murmur3 *)
| CRingR (toks : list (list Z)) (out : list Z)        (* ... Random *)
| CRingO (toks : list (list Z)) (out : list (list Z)) (* ... Ordered *)
| CCreateRK (info : option (list (Z * mres))) (nvalues : Z) (out : rk_out)
| CGetRK (explicit : option (list Z)) (binding : bool) (col_count : Z) (cols : list (list Z)) (pkey : list Z)
         (ks0_empty : bool) (table_pk : option (list (list Z))) (per_col : list mres) (nvalues : Z) (out : rk_out)
| CBatchRK (explicit : option (list Z)) (has_entries binding : bool) (col_count : Z) (cols : list (list Z))
           (pkey : list Z) (ks0_empty : bool) (table_pk : option (list (list Z))) (per_col : list mres)
           (nvalues : Z) (out : rk_out)
(* one *Query handle through a sequence of Bind / RoutingKey / GetRoutingKey / Pick / Release+reuse: the
   results of its GetRoutingKey calls, in order *)
| CQuerySeq (col_count : Z) (cols : list (list Z)) (pkey : list Z) (ks0_empty : bool) (table_pk : option (list (list Z)))
            (init : qstate) (ops : list qop) (outs : list rk_out)
(* one *Batch handle: first entry set / replaced, entries appended, explicit key, GetRoutingKey *)
| CBatchSeq (col_count : Z) (cols : list (list Z)) (pkey : list Z) (ks0_empty : bool) (table_pk : option (list (list Z)))
            (ops : list bop) (outs : list rk_out).

Definition rk_eqb (a b : rk_out) : bool :=
  match a, b with
  | RKNil, RKNil | RKErr, RKErr | RKErrNoMetadata, RKErrNoMetadata | RKErrNoKeyspace, RKErrNoKeyspace
  | RKPanic, RKPanic => true
  | RKOk x, RKOk y => zlist_eqb x y
  | _, _ => false
  end.

Definition part_code (p : part) : Z := match p with PMurmur3 => 0 | POrdered => 1 | PRandom => 2 end.

(* sort.Sort with the tokens' Less gives a sorted permutation; the strings of equal tokens are equal,
   so the output is determined: insertion sort with the model's Less *)
Section Sort.
  Context {A : Type} (lt : A -> A -> bool).
  Fixpoint insert (x : A) (l : list A) : list A :=
    match l with
    | [] => [x]
    | y :: l' => if lt y x then y :: insert x l' else x :: l
    end.
  Definition isort (l : list A) : list A := fold_right insert [] l.
End Sort.

Fixpoint zlists_eqb (a b : list (list Z)) : bool :=
  match a, b with
  | [], [] => true
  | x :: a', y :: b' => zlist_eqb x y && zlists_eqb a' b'
  | _, _ => false
  end.

Fixpoint all_some {A} (l : list (option A)) : option (list A) :=
  match l with
  | [] => Some []
  | Some x :: r => match all_some r with Some r' => Some (x :: r') | None => None end
  | None :: _ => None
  end.

Fixpoint rks_eqb (a b : list rk_out) : bool :=
  match a, b with
  | [], [] => true
  | x :: a', y :: b' => rk_eqb x y && rks_eqb a' b'
  | _, _ => false
  end.

Definition check (c : case) : bool :=
  match c with
  | CMurmur key h1 tok => (murmur3_h1 key =? h1) && (murmur3_token key =? tok)
  | CRandom md5 tok => random_token md5 =? tok
  | COrdered key tok => zlist_eqb (ordered_token key) tok
  | CLessM a b out => Bool.eqb (murmur3_less a b) out
  | CLessR a b out => Bool.eqb (random_less a b) out
  | CLessO a b out => Bool.eqb (ordered_less a b) out
  | CParseM s out => parse_murmur3_token s =? out
  | CParseR s out => match parse_random_token s with Some v => v =? out | None => false end
  | CParseO s out => zlist_eqb (parse_ordered_token s) out
  | CSelect m o r out => opt_eqb Z.eqb (option_map part_code (select_partitioner m o r)) out
  | CRingM toks out => zlist_eqb (isort murmur3_less (map parse_murmur3_token toks)) out
  | CRingR toks out =>
      match all_some (map parse_random_token toks) with
      | Some vs => zlist_eqb (isort random_less vs) out
      | None => false
      end
  | CRingO toks out => zlists_eqb (isort ordered_less (map parse_ordered_token toks)) out
  | CCreateRK info nvalues out => rk_eqb (create_routing_key info nvalues) out
  | CGetRK ex bi cc cols pkey ks0 tpk per nv out =>
      rk_eqb (get_routing_key ex bi cc cols pkey ks0 tpk per nv) out
  | CBatchRK ex he bi cc cols pkey ks0 tpk per nv out =>
      rk_eqb (batch_routing_key ex he bi cc cols pkey ks0 tpk per nv) out
  | CQuerySeq cc cols pkey ks0 tpk init ops outs => rks_eqb (q_run cc cols pkey ks0 tpk init ops) outs
  | CBatchSeq cc cols pkey ks0 tpk ops outs => rks_eqb (b_run cc cols pkey ks0 tpk (mkb None None) ops) outs
  end.

Definition run (cs : list case) : list N := mismatches check cs.
