(* C09/Refuted.v -- regression facts about behaviour that has been fixed, and notes on what lies outside the
   theorems' domains.  No open finding remains for C09. *)
From GocqlV Require Import Lib.Base Gen.Consts C09.Model C09.Spec.

(* F-C09-1 / finding murmur3-min-token-not-normalized -- FIXED in token.go (murmur3Partitioner.Hash now maps
   math.MinInt64 to math.MaxInt64).  Kept as a regression fact about the PRE-FIX function:
   a 16-byte key (the uuid 653cbefb-85ec-3111-b4e3-8fa9bc7cbcae) whose Murmur3 h1 is exactly -2^63, obtained
   by running the one-block hash backwards.  Cassandra's Murmur3Partitioner.normalize maps it to
   Long.MAX_VALUE; the old murmur3Partitioner.Hash returned the raw value. *)
Definition min_witness : list Z := [101; 60; 190; 251; 133; 236; 49; 17; 180; 227; 143; 169; 188; 124; 188; 174].

(* murmur3Partitioner.Hash before the fix: murmur3Token(murmur.Murmur3H1(partitionKey)) *)
Definition murmur3_token_prefix (key : list Z) : Z := murmur3_h1 key.

Theorem murmur_min_value_prefix_refuted :
  exists key, wf_bytes key /\ key <> [] /\ murmur3_token_prefix key <> cassandra_murmur3_token key.
Proof.
  exists min_witness. split; [apply wf_bytesb_spec; reflexivity|]. split; [discriminate|].
  vm_compute. discriminate.
Qed.

Lemma murmur_min_value_witness_values :
  murmur3_token_prefix min_witness = - 2 ^ 63 /\ cassandra_murmur3_token min_witness = 2 ^ 63 - 1
  /\ murmur3_token min_witness = 2 ^ 63 - 1.
Proof. vm_compute. repeat split; reflexivity. Qed.

(* Not a finding, recorded for completeness: for the EMPTY key Cassandra's partitioners return their MINIMUM
   token (Murmur3: Long.MIN_VALUE) without hashing, the driver hashes it (h1("") = 0).  Cassandra rejects
   an empty partition key ("Key may not be empty"), so no row and no request is ever routed by it; the
   token theorems therefore quantify over non-empty keys. *)
Lemma murmur_token_empty_key_differs :
  murmur3_token [] = 0 /\ cassandra_murmur3_token [] = - 2 ^ 63.
Proof. vm_compute. split; reflexivity. Qed.

(* Not a finding: a key component of 65536 bytes or more gets a wrapped 16-bit length prefix (uint16(len)).
   Cassandra refuses such keys (a partition key component is limited to 65535 bytes), so the layout theorems
   carry [short_comp]. *)
Lemma len16_wraps : len16 (repeat 0 (Z.to_nat 65536)) = [0; 0].
Proof. vm_compute. reflexivity. Qed.
