(* C09/Refuted.v -- full statements that the faithful model (= the code) violates, with witnesses. *)
From GocqlV Require Import Lib.Base Gen.Consts C09.Model C09.Spec.

(* F-C09-1 / known finding murmur3-min-token-not-normalized.
   A 16-byte key (the uuid 653cbefb-85ec-3111-b4e3-8fa9bc7cbcae) whose Murmur3 h1 is exactly -2^63, obtained
   by running the one-block hash backwards.  Cassandra's Murmur3Partitioner.normalize maps it to
   Long.MAX_VALUE; murmur3Partitioner.Hash returns the raw value. *)
Definition min_witness : list Z := [101; 60; 190; 251; 133; 236; 49; 17; 180; 227; 143; 169; 188; 124; 188; 174].

Theorem murmur_min_value_refuted :
  exists key, wf_bytes key /\ key <> [] /\ murmur3_token key <> cassandra_murmur3_token key.
Proof.
  exists min_witness. split; [apply wf_bytesb_spec; reflexivity|]. split; [discriminate|].
  vm_compute. discriminate.
Qed.

Lemma murmur_min_value_witness_values :
  murmur3_token min_witness = - 2 ^ 63 /\ cassandra_murmur3_token min_witness = 2 ^ 63 - 1.
Proof. vm_compute. split; reflexivity. Qed.

(* Not a finding, recorded for completeness: for the EMPTY key Cassandra's partitioners return their MINIMUM
   token (Murmur3: Long.MIN_VALUE) without hashing, the driver hashes it (h1("") = 0).  Cassandra rejects
   an empty partition key ("Key may not be empty"), so no row and no request is ever routed by it; the
   token theorems therefore quantify over non-empty keys. *)
Lemma murmur_token_empty_key_differs :
  murmur3_token [] = 0 /\ cassandra_murmur3_token [] = - 2 ^ 63.
Proof. vm_compute. split; reflexivity. Qed.

(* Not a finding: a key component of 65536 bytes or more gets a wrapped 16-bit length prefix (uint16(len)).
   Cassandra refuses such keys (a partition key component is limited to 65535 bytes), so the layout theorems
   carry [short_comp]. *)
Lemma len16_wraps : len16 (repeat 0 (Z.to_nat 65536)) = [0; 0].
Proof. vm_compute. reflexivity. Qed.
