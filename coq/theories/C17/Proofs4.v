(* C17/Proofs4.v -- connection accounting of the pool model: every open connection is in the pool,
   held by a connect, or queued in Close; a closed pool is empty; HandleError removes the connection
   and starts a fill; pooled connections are open unless the error callback overtook the append. *)
From GocqlV Require Import Lib.Base Gen.Consts C17.Model C17.Spec C17.Proofs1 C17.Proofs2.
From Coq Require Import Permutation.

Lemma NoDup_app_l {A} (l l' : list A) : NoDup (l ++ l') -> NoDup l.
Proof.
  induction l as [|x r IH]; simpl; intro H; [constructor|].
  inversion H; subst. constructor; [|auto]. intro Hin. apply H2. apply in_or_app. now left.
Qed.

Lemma NoDup_app_disjoint {A} (l l' : list A) x : NoDup (l ++ l') -> In x l -> In x l' -> False.
Proof.
  induction l as [|y r IH]; simpl; intros Hnd H1 H2; [tauto|].
  inversion Hnd; subst. destruct H1 as [->|H1]; [apply H3; apply in_or_app; now right|eauto].
Qed.

Definition hand (tk : list (nat * (nat * tphase))) : list nat :=
  flat_map (fun e => match snd (snd e) with THave c => [c] | TDial => [] end) tk.

Lemma in_hand_hand s : in_hand s = hand (p_tasks s).
Proof. reflexivity. Qed.

Lemma hand_app a b : hand (a ++ b) = hand a ++ hand b.
Proof. unfold hand. apply flat_map_app. Qed.

Lemma hand_new_tasks t f n : hand (new_tasks t f n) = [].
Proof. revert f; induction n as [|n IH]; intro f; simpl; [reflexivity|]. apply IH. Qed.

Lemma hand_aset_have k t c tk : alookup k tk = Some (t, TDial) -> Permutation (hand (aset k (t, THave c) tk)) (c :: hand tk).
Proof.
  induction tk as [|[k' [t' ph]] r IH]; simpl; [discriminate|].
  destruct (Nat.eqb_spec k' k) as [->|Hne]; intro H.
  - inversion H; subst. simpl. apply Permutation_refl.
  - simpl. specialize (IH H). destruct ph as [|c']; simpl; [assumption|].
    eapply perm_trans; [apply perm_skip; exact IH|apply perm_swap].
Qed.

Lemma hand_aremove_have k t c tk : alookup k tk = Some (t, THave c) -> Permutation (c :: hand (aremove k tk)) (hand tk).
Proof.
  induction tk as [|[k' [t' ph]] r IH]; simpl; [discriminate|].
  destruct (Nat.eqb_spec k' k) as [->|Hne]; intro H.
  - inversion H; subst. simpl. apply Permutation_refl.
  - simpl. specialize (IH H). destruct ph as [|c']; simpl; [assumption|].
    eapply perm_trans; [apply perm_swap|apply perm_skip; exact IH].
Qed.

Lemma hand_aremove_dial k t tk : alookup k tk = Some (t, TDial) -> hand (aremove k tk) = hand tk.
Proof.
  induction tk as [|[k' [t' ph]] r IH]; simpl; [discriminate|].
  destruct (Nat.eqb_spec k' k) as [->|Hne]; intro H.
  - inversion H; subst. reflexivity.
  - simpl. now rewrite (IH H).
Qed.

Lemma alookup_have_in_hand k t c tk : alookup k tk = Some (t, THave c) -> In c (hand tk).
Proof.
  intro H. eapply Permutation_in; [apply (hand_aremove_have k t c tk H)|now left].
Qed.

Lemma hand_aset_iff k t c tk x : alookup k tk = Some (t, TDial) ->
  (In x (hand (aset k (t, THave c) tk)) <-> x = c \/ In x (hand tk)).
Proof.
  intro E. pose proof (hand_aset_have k t c tk E) as P. split; intro H.
  - apply (Permutation_in _ P) in H. destruct H; auto.
  - apply (Permutation_in _ (Permutation_sym P)). destruct H; [left; auto|right; auto].
Qed.

Lemma hand_aremove_iff k t c tk x : alookup k tk = Some (t, THave c) ->
  (In x (hand tk) <-> x = c \/ In x (hand (aremove k tk))).
Proof.
  intro E. pose proof (hand_aremove_have k t c tk E) as P. split; intro H.
  - apply (Permutation_in _ (Permutation_sym P)) in H. destruct H; auto.
  - apply (Permutation_in _ P). destruct H; [left; auto|right; auto].
Qed.

Record invB (s : pool) : Prop := {
  b_nd : NoDup (p_conns s ++ in_hand s ++ p_closing s);
  b_lt : forall c, In c (p_conns s ++ in_hand s ++ p_closing s ++ p_open s ++ p_dead s) -> (c < p_next_conn s)%nat;
  b_nd_open : NoDup (p_open s);
  b_disj : forall c, In c (p_open s) -> ~ In c (p_dead s);
  b_acc : no_leak s;
  b_closed : p_closed s = true -> p_conns s = []
}.

Lemma invB_init size : invB (pool_init size).
Proof. constructor; simpl; try constructor; unfold no_leak; simpl; tauto. Qed.

(* invB reads conns, tasks only through [hand], closing, open, dead, closed, next_conn *)
Lemma invB_ext s s' : invB s -> p_conns s' = p_conns s -> hand (p_tasks s') = hand (p_tasks s) -> p_closing s' = p_closing s ->
  p_open s' = p_open s -> p_dead s' = p_dead s -> p_closed s' = p_closed s -> p_next_conn s' = p_next_conn s -> invB s'.
Proof.
  intros I Hc Hh Hcl Ho Hd Hcd Hn. destruct I. unfold no_leak in *. rewrite in_hand_hand in *.
  constructor; unfold no_leak; rewrite ?in_hand_hand, ?Hc, ?Hh, ?Hcl, ?Ho, ?Hd, ?Hcd, ?Hn; auto.
Qed.

Ltac in_apps := repeat (rewrite in_app_iff in * ); simpl In in *.

Lemma invB_step s l s' : invA s -> invB s -> pstep s l = Some s' -> invB s'.
Proof.
  intros IA I H. destruct l as [t|t|t|t|t|k|k|k|k|c|c t| |]; cbn [pstep] in H.
  - (* FillStart *)
    destruct (memb t (akeys (p_threads s))); [discriminate|]. inv_some H. eapply invB_ext; eauto.
  - (* FillCheck *)
    destruct (alookup t (p_threads s)) as [[| | | |]|]; try discriminate.
    destruct (p_closed s || p_filling s); [inv_some H; eapply invB_ext; eauto|].
    destruct (p_size s - Z.of_nat (length (p_conns s)) <=? 0); inv_some H; eapply invB_ext; eauto.
  - (* FillDecide *)
    destruct (alookup t (p_threads s)) as [[| | | |]|]; try discriminate.
    destruct (p_closed s || p_filling s || (p_size s - Z.of_nat (length (p_conns s)) <=? 0)); [inv_some H; eapply invB_ext; eauto|].
    destruct (length (p_conns s)); inv_some H; eapply invB_ext; eauto; try reflexivity.
    all: cbn [p_tasks]; rewrite hand_app; simpl; now rewrite app_nil_r.
  - (* FillAsync *)
    destruct (alookup t (p_threads s)) as [[| | |rem|]|]; try discriminate. inv_some H. eapply invB_ext; eauto; try reflexivity.
    all: cbn [p_tasks]; rewrite hand_app, hand_new_tasks; now rewrite app_nil_r.
  - (* FillStopped *)
    destruct (alookup t (p_threads s)) as [[| | | |]|]; try discriminate.
    destruct (existsb (owns t) (p_tasks s)); [discriminate|]. inv_some H. eapply invB_ext; eauto.
  - (* DialOk *)
    destruct (alookup k (p_tasks s)) as [[t [|c]]|] eqn:E; try discriminate. inv_some H.
    pose proof (hand_aset_have k t (p_next_conn s) _ E) as P. destruct I. unfold no_leak in *. rewrite in_hand_hand in *.
    assert (Hfresh : forall x, In x (p_conns s ++ hand (p_tasks s) ++ p_closing s ++ p_open s ++ p_dead s) -> x <> p_next_conn s).
    { intros x Hx. specialize (b_lt0 x Hx). lia. }
    constructor; unfold no_leak; rewrite ?in_hand_hand; cbn [p_conns p_tasks p_closing p_open p_dead p_closed p_next_conn].
    + eapply Permutation_NoDup.
      * apply Permutation_sym. eapply perm_trans; [apply Permutation_app_head; apply Permutation_app_tail; exact P|].
        simpl. apply Permutation_sym. apply Permutation_middle.
      * constructor; [|assumption]. intro Hin. eapply Hfresh; [|reflexivity]. in_apps. intuition congruence.
    + intros c Hc. in_apps. rewrite (hand_aset_iff k t (p_next_conn s) _ c E) in Hc.
      destruct (Nat.eq_dec c (p_next_conn s)) as [->|Hne]; [lia|].
      assert (Hlt : (c < p_next_conn s)%nat) by (apply b_lt0; in_apps; intuition congruence). lia.
    + apply NoDup_snoc; [assumption|]. intro Hin. eapply Hfresh; [|reflexivity]. in_apps. intuition congruence.
    + intros c Hc. in_apps. destruct Hc as [Hc|[Hc|[]]]; [auto|]. subst c. intro Hd. eapply Hfresh; [|reflexivity]. in_apps. intuition congruence.
    + intros c Hc. in_apps. rewrite (hand_aset_iff k t (p_next_conn s) _ c E).
      destruct Hc as [Hc|[Hc|[]]]; [|subst; tauto]. destruct (b_acc0 c Hc) as [H1|[H1|H1]]; tauto.
    + assumption.
  - (* DialFail *)
    destruct (alookup k (p_tasks s)) as [[t [|c]]|] eqn:E; try discriminate. inv_some H. eapply invB_ext; eauto.
    cbn [p_tasks]. eapply hand_aremove_dial; eauto.
  - (* KsFail *)
    destruct (alookup k (p_tasks s)) as [[t [|c]]|] eqn:E; try discriminate. inv_some H.
    pose proof (hand_aremove_have k t c _ E) as P. destruct I. unfold no_leak in *. rewrite in_hand_hand in *.
    assert (Hnd' : NoDup (c :: p_conns s ++ hand (aremove k (p_tasks s)) ++ p_closing s)).
    { eapply Permutation_NoDup; [|exact b_nd0]. apply Permutation_sym. eapply perm_trans; [apply Permutation_middle|].
      apply Permutation_app_head. change (Permutation ((c :: hand (aremove k (p_tasks s))) ++ p_closing s) (hand (p_tasks s) ++ p_closing s)).
      now apply Permutation_app_tail. }
    constructor; unfold no_leak; rewrite ?in_hand_hand; cbn [p_conns p_tasks p_closing p_open p_dead p_closed p_next_conn].
    + now inversion Hnd'.
    + intros x Hx. apply b_lt0. in_apps. destruct Hx as [Hx|[Hx|[Hx|[Hx|Hx]]]]; auto.
      * right; left. apply (Permutation_in _ P). now right.
      * apply In_remn in Hx. tauto.
    + now apply NoDup_remn.
    + intros x Hx. apply In_remn in Hx. apply b_disj0. tauto.
    + intros x Hx. apply In_remn in Hx. destruct Hx as [Hx Hne]. destruct (b_acc0 x Hx) as [H1|[H1|H1]]; auto.
      apply (Permutation_in _ (Permutation_sym P)) in H1. destruct H1; [congruence|auto].
    + assumption.
  - (* ConnectAdd *)
    destruct (alookup k (p_tasks s)) as [[t [|c]]|] eqn:E; try discriminate.
    pose proof (hand_aremove_have k t c _ E) as P. destruct I. unfold no_leak in *. rewrite in_hand_hand in *.
    assert (Hnd' : NoDup (c :: p_conns s ++ hand (aremove k (p_tasks s)) ++ p_closing s)).
    { eapply Permutation_NoDup; [|exact b_nd0]. apply Permutation_sym. eapply perm_trans; [apply Permutation_middle|].
      apply Permutation_app_head. change (Permutation ((c :: hand (aremove k (p_tasks s))) ++ p_closing s) (hand (p_tasks s) ++ p_closing s)).
      now apply Permutation_app_tail. }
    destruct (p_closed s) eqn:Ecl; [|destruct (negb (memb c (p_open s))) eqn:Eo]; inv_some H;
      constructor; unfold no_leak; rewrite ?in_hand_hand; cbn [p_conns p_tasks p_closing p_open p_dead p_closed p_next_conn].
    + now inversion Hnd'.
    + intros x Hx. apply b_lt0. in_apps. destruct Hx as [Hx|[Hx|[Hx|[Hx|Hx]]]]; auto.
      * right; left. apply (Permutation_in _ P). now right.
      * apply In_remn in Hx. tauto.
    + now apply NoDup_remn.
    + intros x Hx. apply In_remn in Hx. apply b_disj0. tauto.
    + intros x Hx. apply In_remn in Hx. destruct Hx as [Hx Hne]. destruct (b_acc0 x Hx) as [H1|[H1|H1]]; auto.
      apply (Permutation_in _ (Permutation_sym P)) in H1. destruct H1; [congruence|auto].
    + auto.
    + now inversion Hnd'.
    + intros x Hx. apply b_lt0. in_apps. destruct Hx as [Hx|[Hx|[Hx|[Hx|Hx]]]]; auto.
      right; left. apply (Permutation_in _ P). now right.
    + assumption.
    + assumption.
    + apply Bool.negb_true_iff in Eo. apply memb_false in Eo.
      intros x Hx. destruct (b_acc0 x Hx) as [H1|[H1|H1]]; auto.
      apply (Permutation_in _ (Permutation_sym P)) in H1. destruct H1; [subst; tauto|auto].
    + auto.
    + rewrite <- app_assoc. simpl. eapply Permutation_NoDup; [|exact Hnd']. apply Permutation_middle.
    + intros x Hx. apply b_lt0. in_apps. destruct Hx as [[Hx|[Hx|[]]]|[Hx|[Hx|[Hx|Hx]]]]; auto.
      * subst x. right; left. apply (Permutation_in _ P). now left.
      * right; left. apply (Permutation_in _ P). now right.
    + assumption.
    + assumption.
    + intros x Hx. in_apps. destruct (b_acc0 x Hx) as [H1|[H1|H1]]; auto.
      apply (Permutation_in _ (Permutation_sym P)) in H1. destruct H1; [subst; auto|auto].
    + discriminate.
  - (* ConnDie *)
    destruct (memb c (p_open s)) eqn:Em; [|discriminate]. inv_some H. apply memb_In in Em.
    destruct I. unfold no_leak in *. rewrite in_hand_hand in *.
    constructor; unfold no_leak; rewrite ?in_hand_hand; cbn [p_conns p_tasks p_closing p_open p_dead p_closed p_next_conn]; auto.
    + intros x Hx. apply b_lt0. in_apps. destruct Hx as [Hx|[Hx|[Hx|[Hx|[Hx|[Hx|[]]]]]]]; auto.
      * apply In_remn in Hx. tauto.
      * subst x. tauto.
    + now apply NoDup_remn.
    + intros x Hx. apply In_remn in Hx. destruct Hx as [Hx Hne]. in_apps. intros [Hd|[Hd|[]]]; [eapply b_disj0; eauto|congruence].
    + intros x Hx. apply In_remn in Hx. apply b_acc0. tauto.
  - (* HErr *)
    destruct (memb c (p_dead s)) eqn:Ed; [|discriminate]. apply memb_In in Ed.
    destruct I. unfold no_leak in *. rewrite in_hand_hand in *.
    assert (Hnotopen : ~ In c (p_open s)) by (intro Ho; eapply b_disj0; eauto).
    destruct (p_closed s) eqn:Ecl.
    { inv_some H. constructor; unfold no_leak; rewrite ?in_hand_hand; cbn [p_conns p_tasks p_closing p_open p_dead p_closed p_next_conn]; auto.
      - intros x Hx. apply b_lt0. in_apps. destruct Hx as [Hx|[Hx|[Hx|[Hx|Hx]]]]; auto. apply In_remn in Hx. tauto.
      - intros x Hx Hd. apply In_remn in Hd. eapply b_disj0; eauto. tauto. }
    destruct (memb c (p_conns s)) eqn:Ec.
    + destruct (memb t (akeys (p_threads s))); [discriminate|]. inv_some H. apply memb_In in Ec.
      pose proof (remove_swap_perm c _ Ec) as P.
      constructor; unfold no_leak; rewrite ?in_hand_hand; cbn [p_conns p_tasks p_closing p_open p_dead p_closed p_next_conn]; auto.
      * assert (Hnd' : NoDup (c :: remove_swap c (p_conns s) ++ hand (p_tasks s) ++ p_closing s)).
        { eapply Permutation_NoDup; [|exact b_nd0]. apply Permutation_sym.
          change (Permutation ((c :: remove_swap c (p_conns s)) ++ hand (p_tasks s) ++ p_closing s) (p_conns s ++ hand (p_tasks s) ++ p_closing s)).
          now apply Permutation_app_tail. }
        now inversion Hnd'.
      * intros x Hx. apply b_lt0. in_apps. destruct Hx as [Hx|[Hx|[Hx|[Hx|Hx]]]]; auto.
        -- left. eapply remove_swap_In; eauto.
        -- apply In_remn in Hx. tauto.
      * intros x Hx Hd. apply In_remn in Hd. eapply b_disj0; eauto. tauto.
      * intros x Hx. destruct (b_acc0 x Hx) as [H1|[H1|H1]]; auto. left. apply remove_swap_In_other; [assumption|]. intro; subst. tauto.
      * discriminate.
    + inv_some H. constructor; unfold no_leak; rewrite ?in_hand_hand; cbn [p_conns p_tasks p_closing p_open p_dead p_closed p_next_conn]; auto.
      * intros x Hx. apply b_lt0. in_apps. destruct Hx as [Hx|[Hx|[Hx|[Hx|Hx]]]]; auto. apply In_remn in Hx. tauto.
      * intros x Hx Hd. apply In_remn in Hd. eapply b_disj0; eauto. tauto.
  - (* PClose *)
    destruct (p_closed s) eqn:Ecl; inv_some H; [assumption|].
    destruct I. unfold no_leak in *. rewrite in_hand_hand in *.
    constructor; unfold no_leak; rewrite ?in_hand_hand; cbn [p_conns p_tasks p_closing p_open p_dead p_closed p_next_conn]; auto.
    + simpl. eapply Permutation_NoDup; [|exact b_nd0].
      eapply perm_trans; [apply Permutation_app_comm|]. rewrite <- app_assoc. apply Permutation_refl.
    + intros x Hx. apply b_lt0. in_apps. intuition congruence.
    + intros x Hx. destruct (b_acc0 x Hx) as [H1|[H1|H1]]; in_apps; auto.
  - (* PCloseConn *)
    destruct (p_closing s) as [|c r] eqn:Ecg; [discriminate|]. inv_some H.
    destruct I. unfold no_leak in *. rewrite in_hand_hand in *. rewrite Ecg in *.
    constructor; unfold no_leak; rewrite ?in_hand_hand; cbn [p_conns p_tasks p_closing p_open p_dead p_closed p_next_conn]; auto.
    + assert (Hnd' : NoDup (c :: p_conns s ++ hand (p_tasks s) ++ r)).
      { eapply Permutation_NoDup; [|exact b_nd0]. apply Permutation_sym. eapply perm_trans; [apply Permutation_middle|].
        apply Permutation_app_head. apply Permutation_middle. }
      now inversion Hnd'.
    + intros x Hx. apply b_lt0. in_apps. destruct Hx as [Hx|[Hx|[Hx|[Hx|Hx]]]]; auto. apply In_remn in Hx. tauto.
    + now apply NoDup_remn.
    + intros x Hx. apply In_remn in Hx. apply b_disj0. tauto.
    + intros x Hx. apply In_remn in Hx. destruct Hx as [Hx Hne]. destruct (b_acc0 x Hx) as [H1|[H1|[H1|H1]]]; auto. congruence.
Qed.

Theorem invAB_run size ls s : prun (pool_init size) ls = Some s -> invA s /\ invB s.
Proof.
  assert (G : forall ls s0 s, invA s0 -> invB s0 -> prun s0 ls = Some s -> invA s /\ invB s).
  { clear. intro ls. induction ls as [|l r IH]; simpl; intros s0 s1 IA IB H; [inversion H; subst; auto|].
    destruct (pstep s0 l) eqn:E; [|discriminate].
    eapply IH; [eapply invA_step; eauto|eapply invB_step; eauto|exact H]. }
  intro H. eapply G; [apply invA_init|apply invB_init|exact H].
Qed.

(* ---- no connection survives the close of its pool ---- *)
Lemma no_conn_survives_close_lemma size ls s : prun (pool_init size) ls = Some s ->
  no_leak s /\ (p_closed s = true -> p_conns s = [] /\ (p_quiescent s = true -> p_open s = [])).
Proof.
  intro H. destruct (invAB_run _ _ _ H) as [_ IB]. split; [apply (b_acc s IB)|].
  intro Hc. split; [now apply (b_closed s IB)|].
  intro Hq. unfold p_quiescent in Hq.
  destruct (p_threads s); [|discriminate]. destruct (p_tasks s) eqn:Et; [|discriminate].
  destruct (p_closing s) eqn:Ecg; [|discriminate].
  destruct (p_open s) as [|c r] eqn:Eo; [reflexivity|exfalso].
  destruct (b_acc s IB c) as [H1|[H1|H1]]; [rewrite Eo; now left| | |].
  - rewrite (b_closed s IB Hc) in H1. destruct H1.
  - unfold in_hand in H1. rewrite Et in H1. destruct H1.
  - rewrite Ecg in H1. destruct H1.
Qed.

(* ---- HandleError removes the connection and starts a fill ---- *)
Lemma closed_conn_removed_lemma size ls s c t s' : prun (pool_init size) ls = Some s ->
  pstep s (HErr c t) = Some s' -> p_closed s = false ->
  ~ In c (p_conns s')
  /\ (forall c', In c' (p_conns s) -> c' <> c -> In c' (p_conns s'))
  /\ (In c (p_conns s) -> S (length (p_conns s')) = length (p_conns s) /\ alookup t (p_threads s') = Some F0).
Proof.
  intros Hrun H Hcl. destruct (invAB_run _ _ _ Hrun) as [IA IB]. cbn [pstep] in H.
  destruct (memb c (p_dead s)); [|discriminate]. rewrite Hcl in H.
  assert (Hndc : NoDup (p_conns s)).
  { pose proof (b_nd s IB) as Hnd. apply NoDup_app_l in Hnd. exact Hnd. }
  destruct (memb c (p_conns s)) eqn:Ec.
  - destruct (memb t (akeys (p_threads s))) eqn:Em; [discriminate|]. inv_some H. cbn [p_conns p_threads].
    apply memb_In in Ec. apply memb_false in Em. split; [|split].
    + apply (remove_swap_NoDup c _ Hndc).
    + intros c' Hc' Hne. now apply remove_swap_In_other.
    + intros _. split; [now apply remove_swap_length|].
      rewrite alookup_app_notin by assumption. simpl. now rewrite Nat.eqb_refl.
  - inv_some H. cbn [p_conns p_threads]. apply memb_false in Ec. split; [assumption|]. split; [auto|tauto].
Qed.

(* ---- pooled connections are alive: connect does not pool a connection that has failed ---- *)
Lemma invC_step s l s' : invA s -> invB s -> pooled_conns_alive s -> pstep s l = Some s' -> pooled_conns_alive s'.
Proof.
  intros IA IB IC H. unfold pooled_conns_alive in *.
  pose proof (b_nd s IB) as Hnd. rewrite in_hand_hand in Hnd.
  assert (Hndc : NoDup (p_conns s)) by (apply NoDup_app_l in Hnd; exact Hnd).
  destruct l as [t|t|t|t|t|k|k|k|k|c|c t| |]; cbn [pstep] in H.
  - destruct (memb t (akeys (p_threads s))); [discriminate|]. inv_some H. exact IC.
  - destruct (alookup t (p_threads s)) as [[| | | |]|]; try discriminate.
    destruct (p_closed s || p_filling s); [inv_some H; exact IC|].
    destruct (p_size s - Z.of_nat (length (p_conns s)) <=? 0); inv_some H; exact IC.
  - destruct (alookup t (p_threads s)) as [[| | | |]|]; try discriminate.
    destruct (p_closed s || p_filling s || (p_size s - Z.of_nat (length (p_conns s)) <=? 0)); [inv_some H; exact IC|].
    destruct (length (p_conns s)); inv_some H; exact IC.
  - destruct (alookup t (p_threads s)) as [[| | |rem|]|]; try discriminate. inv_some H. exact IC.
  - destruct (alookup t (p_threads s)) as [[| | | |]|]; try discriminate.
    destruct (existsb (owns t) (p_tasks s)); [discriminate|]. inv_some H. exact IC.
  - (* DialOk *)
    destruct (alookup k (p_tasks s)) as [[t [|c]]|] eqn:E; try discriminate. inv_some H. cbn [p_conns p_open p_dead].
    intros c Hc. destruct (IC c Hc); [left; apply in_or_app; now left|now right].
  - destruct (alookup k (p_tasks s)) as [[t [|c]]|] eqn:E; try discriminate. inv_some H. exact IC.
  - (* KsFail: the connection closed is the one in hand, not a pooled one *)
    destruct (alookup k (p_tasks s)) as [[t [|c]]|] eqn:E; try discriminate. inv_some H. cbn [p_conns p_open p_dead].
    pose proof (alookup_have_in_hand k t c _ E) as Hh.
    intros x Hx. assert (x <> c).
    { intro Hxc. rewrite Hxc in Hx. apply (NoDup_app_disjoint _ _ c Hnd); [assumption|apply in_or_app; now left]. }
    destruct (IC x Hx) as [H1|H1]; [left; apply In_remn; auto|now right].
  - (* ConnectAdd *)
    destruct (alookup k (p_tasks s)) as [[t [|c]]|] eqn:E; try discriminate.
    pose proof (alookup_have_in_hand k t c _ E) as Hh.
    destruct (p_closed s) eqn:Ecl; [|destruct (negb (memb c (p_open s))) eqn:Eo]; inv_some H; cbn [p_conns p_open p_dead].
    + rewrite (b_closed s IB Ecl). intros x [].
    + exact IC.
    + apply Bool.negb_false_iff in Eo. apply memb_In in Eo.
      intros x Hx. apply in_app_or in Hx. destruct Hx as [Hx|[Hx|[]]]; [auto|subst; now left].
  - (* ConnDie *)
    destruct (memb c (p_open s)); [|discriminate]. inv_some H. cbn [p_conns p_open p_dead].
    intros x Hx. destruct (Nat.eq_dec x c) as [->|Hne]; [right; apply in_or_app; right; now left|].
    destruct (IC x Hx) as [H1|H1]; [left; apply In_remn; auto|right; apply in_or_app; now left].
  - (* HErr *)
    destruct (memb c (p_dead s)); [|discriminate].
    destruct (p_closed s) eqn:Ecl.
    { inv_some H. cbn [p_conns p_open p_dead]. rewrite (b_closed s IB Ecl). intros x []. }
    destruct (memb c (p_conns s)) eqn:Ec.
    + destruct (memb t (akeys (p_threads s))); [discriminate|]. inv_some H. cbn [p_conns p_open p_dead].
      intros x Hx. assert (x <> c) by (intro; subst; now apply (remove_swap_NoDup c _ Hndc)).
      destruct (IC x (remove_swap_In _ _ _ Hx)) as [H1|H1]; [now left|right; apply In_remn; auto].
    + inv_some H. cbn [p_conns p_open p_dead]. apply memb_false in Ec.
      intros x Hx. assert (x <> c) by (intro; subst; tauto).
      destruct (IC x Hx) as [H1|H1]; [now left|right; apply In_remn; auto].
  - destruct (p_closed s); inv_some H; [exact IC|]. cbn [p_conns p_open p_dead]. intros x [].
  - (* PCloseConn *)
    destruct (p_closing s) as [|c r] eqn:Ecg; [discriminate|]. inv_some H. cbn [p_conns p_open p_dead].
    intros x Hx. assert (x <> c).
    { intro Hxc. rewrite Hxc in Hx. apply (NoDup_app_disjoint _ _ c Hnd); [assumption|]. apply in_or_app. right. now left. }
    destruct (IC x Hx) as [H1|H1]; [left; apply In_remn; auto|now right].
Qed.

Lemma pool_conns_alive_lemma size ls s : prun (pool_init size) ls = Some s -> pooled_conns_alive s.
Proof.
  assert (G : forall ls s0 s, invA s0 -> invB s0 -> pooled_conns_alive s0 -> prun s0 ls = Some s -> pooled_conns_alive s).
  { clear. intro ls. induction ls as [|l r IH]; simpl; intros s0 s1 IA IB IC H; [inversion H; subst; auto|].
    destruct (pstep s0 l) eqn:E; [|discriminate].
    eapply IH; [eapply invA_step; eauto|eapply invB_step; eauto|eapply invC_step; eauto|exact H]. }
  intros H. eapply (G ls (pool_init size) s); eauto using invA_init, invB_init.
  intros x Hx. simpl in Hx. destruct Hx.
Qed.
